#!/usr/bin/env python3
# regenerates the seeded-changes table of DESIGN.md (between SEEDED markers) from seeded/*/meta.json
import json,glob,os,re
rows=["| seeded change | property | what it breaks / what it needs | caught by (now) | first run |","|---|---|---|---|---|"]
def kind(vs):
    if not vs: return None
    if any('no-failing-input-found' not in v for v in vs): return "concrete failing input"
    return "broken proof/correspondence, no-failing-input-found"
for d in sorted(glob.glob('seeded/*/meta.json')):
    n=os.path.basename(os.path.dirname(d)); m=json.load(open(d))
    det=m.get('detected_by',{}); first=m.get('first_run',det)
    now=", ".join(f"{p} ({kind(v)})" for p,v in det.items() if kind(v)) or "**missed**"
    fr=", ".join(f"{p} ({kind(v)})" for p,v in first.items() if kind(v)) or "missed"
    rows.append(f"| `seeded/{n}` | {m['property']} | {m['breaks']} | {now} | {'same' if fr==now else fr} |")
t="\n".join(rows)
s=open('DESIGN.md').read()
a="<!-- SEEDED:BEGIN -->"; b="<!-- SEEDED:END -->"
if a in s:
    s=s[:s.index(a)+len(a)]+"\n"+t+"\n"+s[s.index(b):]; open('DESIGN.md','w').write(s)
print(len(rows)-2,"seeded changes")
