#!/bin/bash
# seedcheck.sh <name> <agent-worktree> <property...>
# Confirms a seeded change independently: extracts the non-test diff, applies it to a FRESH scratch worktree of /repo,
# builds, runs the whole baseline suite (must stay as on the unchanged tree), runs the demonstration with and without
# the change, then runs our checks against the mutated tree.  Leaves /verif/seeded/<name>/{patch.diff,demo,results.txt}.
set -u
name=$1; src=$2; shift 2; props="$@"
export GOFLAGS=-mod=mod GOPROXY=off GOSUMDB=off GOTOOLCHAIN=local
out=/verif/seeded/$name; mkdir -p $out
wt=/root/scratch/sv_$name
git -C /repo worktree remove --force $wt 2>/dev/null; rm -rf $wt
git -C /repo worktree add -q --detach $wt HEAD || exit 2
# the change = tracked non-test .go files modified in the agent's worktree
(cd $src && git diff -- $(git diff --name-only | grep '\.go$' | grep -v '_test\.go$' | grep -v '^verif_' | grep -v '^demo/')) > $out/patch.diff
[ -s $out/patch.diff ] || { echo "EMPTY PATCH"; exit 2; }
rm -rf $out/demo; mkdir -p $out/demo
(cd $src && for f in $(git ls-files --others --exclude-standard; git diff --name-only | grep '_test\.go$'); do mkdir -p $out/demo/$(dirname $f); cp $f $out/demo/$f; done)
{
echo "== patch"; cat $out/patch.diff | head -80
cd $wt
echo "== baseline on mutated tree"
git apply $out/patch.diff || { echo "PATCH DOES NOT APPLY"; exit 2; }
go build ./... 2>&1 | tail -3
go test -vet=off -count=1 ./... 2>&1 | grep -E "^(ok|FAIL|---)" | grep -v "log/mongo" | sort | uniq -c | sort -rn | head -20
echo "== demo WITH the change (expected: FAIL)"
cp -r $out/demo/. $wt/ 2>/dev/null
demos=$(cd $out/demo && find . -name '*_test.go' | xargs -r -n1 dirname | sort -u)
for d in $demos; do (cd $wt/$d && go test -vet=off -count=1 -run 'Demo|DEMO|Mutation|Seed' . 2>&1 | tail -4); done
[ -d $wt/demo ] && (cd $wt && go run ./demo 2>&1 | tail -4; echo "exit=$?")
echo "== demo WITHOUT the change (expected: ok)"
git apply -R $out/patch.diff
for d in $demos; do (cd $wt/$d && go test -vet=off -count=1 -run 'Demo|DEMO|Mutation|Seed' . 2>&1 | tail -4); done
[ -d $wt/demo ] && (cd $wt && go run ./demo 2>&1 | tail -4; echo "exit=$?")
# remove the demo files again and re-apply the change for our checks
(cd $out/demo && find . -type f) | while read f; do rm -f $wt/$f; done
git apply $out/patch.diff
cd /verif
for p in $props; do
  echo "== ./check $p against the mutated tree"
  VERIF_REPO=$wt ./check $p 2>&1 | grep -E "VIOLATION|KNOWN" | head -5
  echo "rc=$?"
done
} > $out/results.txt 2>&1
git -C /repo worktree remove --force $wt; rm -rf $wt
# restore the harness build for /repo
rm -rf /verif/replays.$name; [ -d /verif/replays ] && mv /verif/replays /verif/seeded/$name/replays
tail -40 $out/results.txt
