#!/usr/bin/env python3
"""regenerates MANIFEST.json from props.py (claimed checks) — run after editing props.py"""
import json, os, sys
sys.path.insert(0, os.path.dirname(os.path.abspath(__file__)))
from props import PROPS
ALL = ["C%02d" % i for i in range(1, 21)]
PENDING_REASON = "machinery for this property is not built yet in this round (planned: DESIGN.md §5); no claim is made"
hooks_commits = [l.strip() for l in open(os.path.join(os.path.dirname(os.path.abspath(__file__)), "hooks_commits.txt"))] if os.path.exists(os.path.join(os.path.dirname(os.path.abspath(__file__)), "hooks_commits.txt")) else []
m = {
 "version": 1,
 "setup_cmd": "./check --setup",
 "hooks": {
  "guard": "verif",
  "enable": "the harness module (harness/go.mod: replace github.com/quickfixgo/quickfix => /repo) is built with `go build -tags verif`",
  "baseline_off_cmd": "cd /repo && GOFLAGS=-mod=mod GOPROXY=off GOSUMDB=off GOTOOLCHAIN=local go test -vet=off -count=1 ./...",
  "source_commits": hooks_commits,
  "add_only": True,
 },
 "engines": [
  {"name": "lean-model-and-proofs", "path": "lean/", "serves_properties": sorted(PROPS), "kind_free_text": "Lean 4 model (Qfx/Model), specs+monitors (Qfx/Spec), theorems (Qfx/Props), compiled line-protocol driver"},
  {"name": "go-correspondence-harness", "path": "harness/", "serves_properties": sorted(PROPS), "kind_free_text": "in-process differential harness + go/ast fact extractor"},
 ],
 "checks": [],
 "not_applicable": [],
 "notes": "Every check: regenerate facts from /repo, lake build theorems + axiom audit, build harness against /repo (-tags verif), run real code and Lean model on the same generated operations, evaluate the Lean monitor on the implementation trace. See DESIGN.md.",
}
for pid in ALL:
    if pid in PROPS:
        p = PROPS[pid]
        m["checks"].append({
            "property_id": pid,
            "quick_cmd": "./check %s --tier quick" % pid,
            "thorough_cmd": "./check %s --tier thorough" % pid,
            "evidence_file": "evidence/%s.json" % pid,
            "replay_cmd_template": "./check %s --replay {path}" % pid,
            "engine": "lean-model-and-proofs",
            "level_claimed": {"category": "proof", "text": p["claim"], "design_ref": "DESIGN.md §5 " + pid},
            "level_note": p["note"],
            "technique": p.get("technique", "Lean 4 theorems over a hand-written executable model + differential correspondence with the Go code + Lean monitor on implementation traces"),
        })
    else:
        m["not_applicable"].append({"property_id": pid, "reason": PENDING_REASON})
json.dump(m, open(os.path.join(os.path.dirname(os.path.abspath(__file__)), "MANIFEST.json"), "w"), indent=1)
print("claimed:", [c["property_id"] for c in m["checks"]])
