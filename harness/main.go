// qfxh — correspondence harness: runs the real quickfix code in-process on generated
// operations and writes ops.txt (inputs) / impl.txt (canonical observations), line-aligned.
//
// Every family is an interpreter `exec(op) -> observation` over the real code plus a
// generator that only ever acts through that interpreter, so that any recorded case
// replays exactly (qfxh <family> -replay ops.txt) and can be shrunk line by line.
package main

import (
	"bufio"
	"flag"
	"fmt"
	"os"
	"strings"
)

type impl interface {
	reset(label string)     // start of a case
	exec(op string) string  // run one operation on the real code, return the canonical observation
}

type family struct {
	newImpl func() impl
	// gen generates one case; `do` executes an op on the implementation, records it and returns the observation
	gen func(r *rng, tier string, idx int, o *out, do func(op string) string) (label string)
	// cases per unit of -n (families with cheap cases multiply)
}

var families = map[string]*family{}

// run parameters a family may want to know (sock: scratch directory under -out, look-ahead over the planned cases)
var (
	runOutDir string
	runCases  int
	runSeed   uint64
	runTier   string
	runReplay bool
)

func main() {
	if len(os.Args) < 2 {
		fmt.Fprintln(os.Stderr, "usage: qfxh <family> -seed S -n N -out DIR [-tier quick|thorough] [-replay FILE]")
		os.Exit(2)
	}
	fam := os.Args[1]
	fs := flag.NewFlagSet(fam, flag.ExitOnError)
	seed := fs.Uint64("seed", 1, "PRNG seed")
	n := fs.Int("n", 100, "number of cases")
	dir := fs.String("out", "", "output directory")
	tier := fs.String("tier", "quick", "tier")
	replay := fs.String("replay", "", "ops file to replay on the implementation instead of generating")
	repo := fs.String("repo", "/repo", "repository root (for extract)")
	fs.Parse(os.Args[2:])
	if fam == "extract" {
		runExtract(*repo, *dir)
		return
	}
	f, ok := families[fam]
	if !ok {
		fmt.Fprintln(os.Stderr, "unknown family", fam)
		os.Exit(2)
	}
	runOutDir, runCases, runSeed, runTier, runReplay = *dir, *n, *seed, *tier, *replay != ""
	o := newOut(*dir)
	im := f.newImpl()
	if *replay != "" {
		fh, err := os.Open(*replay)
		if err != nil {
			panic(err)
		}
		sc := bufio.NewScanner(fh)
		sc.Buffer(make([]byte, 1<<20), 1<<28)
		started := false
		for sc.Scan() {
			line := sc.Text()
			if strings.HasPrefix(line, "# case") {
				parts := strings.SplitN(line, " ", 4)
				label := ""
				if len(parts) == 4 {
					label = parts[3]
				}
				o.caseMark(label)
				im.reset(label)
				started = true
				continue
			}
			if strings.TrimSpace(line) == "" {
				continue
			}
			if !started {
				o.caseMark("replay")
				im.reset("replay")
				started = true
			}
			o.emit(line, im.exec(line))
		}
		o.close(nil)
		return
	}
	root := newRng(*seed)
	for i := 0; i < *n; i++ {
		r := root.fork()
		// the label is only known after generation for some families; emit the mark lazily
		marked := false
		var pendingLabel string
		do := func(op string) string {
			if !marked {
				o.caseMark(pendingLabel)
				im.reset(pendingLabel)
				marked = true
			}
			if runAborted {
				return "skipped" // (never emitted: the run stops at the end of this case)
			}
			obs := im.exec(op)
			o.emit(op, obs)
			if obs == "hang" {
				// a call that never returned may hold locks of the library: what would follow in this process is not about
				// the input any more.  The hang is recorded; the run ends here (the check shrinks and replays it alone).
				runAborted = true
			}
			return obs
		}
		_ = f.gen(r, *tier, i, o, func(op string) string {
			if strings.HasPrefix(op, "!label ") {
				pendingLabel = strings.TrimPrefix(op, "!label ")
				return ""
			}
			return do(op)
		})
		if runAborted {
			break
		}
	}
	o.close(nil)
}

// runAborted: set after an operation was observed to hang (see above)
var runAborted bool
