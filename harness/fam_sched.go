package main

// family "sched" (C18): the schedule the session factory builds from StartTime/EndTime/TimeZone/
// Weekdays | StartDay/EndDay, asked through the real session.  Fixed-offset zones only in the
// model ops (`range`, `at`, `pair`: instants are civil seconds since 1970-01-01 00:00:00 LOCAL).
import (
	"fmt"
	"strconv"
	"strings"
	"time"

	"github.com/quickfixgo/quickfix"
	"github.com/quickfixgo/quickfix/config"
)

type schedImpl struct {
	v      *quickfix.VerifSession
	offset int // zone offset east of UTC in seconds
	zone   string
	loc    *time.Location // set for zones with daylight saving: instants are built from civil time with time.Date
}

var dayNames = []string{"Sun", "Mon", "Tue", "Wed", "Thu", "Fri", "Sat"}

func (s *schedImpl) reset(label string) {
	if s.v != nil {
		s.v.Close()
		s.v = nil
	}
	// label: "zone=<name> off=<seconds>|dst"
	s.zone, s.offset, s.loc = "UTC", 0, nil
	for _, f := range strings.Fields(label) {
		if f == "off=dst" {
			continue
		}
		if strings.HasPrefix(f, "zone=") {
			s.zone = f[5:]
		}
		if strings.HasPrefix(f, "off=") {
			s.offset, _ = strconv.Atoi(f[4:])
		}
	}
	if strings.Contains(label, "off=dst") {
		loc, err := time.LoadLocation(s.zone)
		mustf(err, "zone "+s.zone)
		s.loc = loc
	}
}

func hms(sec int) string { return fmt.Sprintf("%02d:%02d:%02d", sec/3600, sec/60%60, sec%60) }

func (s *schedImpl) instant(t int64) time.Time {
	if s.loc != nil {
		return civilToInstant(s.loc, t)
	}
	return time.Unix(t-int64(s.offset), 0)
}

// civil seconds since 1970-01-01 00:00:00 LOCAL -> the instant carrying that wall-clock reading in loc
func civilToInstant(loc *time.Location, t int64) time.Time {
	days, sec := t/86400, t%86400
	return time.Date(1970, 1, 1+int(days), int(sec/3600), int(sec/60%60), int(sec%60), 0, loc)
}

// the wall-clock reading of an instant in loc, as civil seconds
func instantToCivil(loc *time.Location, x time.Time) int64 {
	x = x.In(loc)
	y, m, d := x.Date()
	days := int64(time.Date(y, m, d, 0, 0, 0, 0, time.UTC).Unix() / 86400)
	return days*86400 + int64(x.Hour()*3600+x.Minute()*60+x.Second())
}

func (s *schedImpl) exec(op string) string {
	w := strings.Fields(op)
	return guard(func() string {
		switch w[0] {
		case "range":
			st := quickfix.NewSessionSettings()
			st.Set(config.BeginString, "FIX.4.2")
			st.Set(config.SenderCompID, "S")
			st.Set(config.TargetCompID, "T")
			st.Set(config.StartTime, hms(atoiMust(w[1])))
			st.Set(config.EndTime, hms(atoiMust(w[2])))
			if s.zone != "UTC" {
				st.Set(config.TimeZone, s.zone)
			}
			if w[3] != "-" {
				var ds []string
				for _, d := range strings.Split(w[3], ",") {
					ds = append(ds, dayNames[atoiMust(d)])
				}
				st.Set(config.Weekdays, strings.Join(ds, ","))
			}
			if w[4] != "-" {
				st.Set(config.StartDay, dayNames[atoiMust(w[4])])
				st.Set(config.EndDay, dayNames[atoiMust(w[5])])
			}
			if s.v != nil {
				s.v.Close()
			}
			v, err := quickfix.VerifNewSession(false, quickfix.SessionID{BeginString: "FIX.4.2", SenderCompID: "S", TargetCompID: "T"},
				quickfix.NewMemoryStoreFactory(), st, quickfix.NewNullLogFactory(), nullApp{})
			if err != nil {
				return "refused"
			}
			s.v = v
			if !v.HasSchedule() {
				return "noschedule"
			}
			return "ok"
		case "at":
			t, _ := strconv.ParseInt(w[1], 10, 64)
			return "in " + yn(s.v.InRange(s.instant(t)))
		case "pair":
			a, _ := strconv.ParseInt(w[1], 10, 64)
			b, _ := strconv.ParseInt(w[2], 10, 64)
			return "same " + yn(s.v.InSameRange(s.instant(a), s.instant(b)))
		}
		panic("bad op " + op)
	})
}

var fixedZones = []struct {
	name string
	off  int
}{{"UTC", 0}, {"Etc/GMT+5", -5 * 3600}, {"Etc/GMT-9", 9 * 3600}, {"Etc/GMT-14", 14 * 3600}, {"Etc/GMT+12", -12 * 3600}}

var dstZones = []struct {
	name   string
	shifts []string // local dates of daylight-saving shifts
}{
	{"America/New_York", []string{"2023-11-05", "2024-03-10", "2024-11-03"}},
	{"Europe/London", []string{"2023-10-29", "2024-03-31"}},
	{"Australia/Lord_Howe", []string{"2024-04-07", "2023-10-01"}},
}

func genSched(r *rng, tier string, idx int, o *out, do func(string) string) string {
	var dstLoc *time.Location
	var dstBase int64
	if r.chance(1, 3) {
		dz := dstZones[r.intn(len(dstZones))]
		loc, err := time.LoadLocation(dz.name)
		if err == nil {
			dstLoc = loc
			d, _ := time.Parse("2006-01-02", dz.shifts[r.intn(len(dz.shifts))])
			dstBase = d.Unix() // civil midnight of the shift day
			do(fmt.Sprintf("!label zone=%s off=dst", dz.name))
			o.kind("zone.dst")
		}
	}
	z := fixedZones[r.intn(len(fixedZones))]
	if dstLoc == nil {
		do(fmt.Sprintf("!label zone=%s off=%d", z.name, z.off))
		o.kind("zone.fixed")
	}
	// configuration
	pickSec := func() int {
		switch r.intn(4) {
		case 0:
			return []int{0, 86399, 43200, 1, 3600}[r.intn(5)]
		case 1:
			return r.intn(24) * 3600
		default:
			return r.intn(86400)
		}
	}
	start, end := pickSec(), pickSec()
	if r.chance(1, 12) {
		end = start
	}
	wd, sd, ed := "-", "-", "-"
	kind := "daily"
	switch r.intn(3) {
	case 0:
	case 1:
		kind = "daily-weekdays"
		var ds []string
		for d := 0; d < 7; d++ {
			if r.chance(1, 2) {
				ds = append(ds, strconv.Itoa(d))
			}
		}
		if len(ds) == 0 {
			ds = []string{strconv.Itoa(r.intn(7))}
		}
		wd = strings.Join(ds, ",")
	default:
		kind = "weekly"
		sd, ed = strconv.Itoa(r.intn(7)), strconv.Itoa(r.intn(7))
		if r.chance(1, 5) {
			ed = sd
		}
	}
	o.kind("cfg." + kind)
	if start < end {
		o.kind("cfg.start<end")
	} else {
		o.kind("cfg.start>=end")
	}
	res := do(fmt.Sprintf("range %d %d %s %s %s", start, end, wd, sd, ed))
	if res != "ok" {
		return "sched"
	}
	o.nontrivial(fmt.Sprintf("%d %d %s %s %s %s", start, end, wd, sd, ed, z.name))
	base := int64(1700000000/86400*86400) + int64(r.intn(400))*86400 // some civil midnight 2023-2024
	span := 35
	if dstLoc != nil {
		base, span = dstBase-8*86400, 17 // the weeks around the shift
	}
	// civil readings that do not exist (spring-forward gap) or are ambiguous (fall-back hour) are not judged
	usable := func(t int64) bool {
		if dstLoc == nil {
			return true
		}
		x := civilToInstant(dstLoc, t)
		if instantToCivil(dstLoc, x) != t {
			return false
		}
		return instantToCivil(dstLoc, x.Add(-2*time.Hour))+7200 == t && instantToCivil(dstLoc, x.Add(2*time.Hour))-7200 == t || true
	}
	pickInstant0 := func() int64 {
		day := base + int64(r.intn(span))*86400
		switch r.intn(6) {
		case 0:
			return day + int64(start) + int64(r.rangeInt(-3, 3))
		case 1:
			return day + int64(end) + int64(r.rangeInt(-3, 3))
		case 2:
			return day + int64(r.rangeInt(-3, 3))
		default:
			return day + int64(r.intn(86400))
		}
	}
	pickInstant := func() int64 {
		for k := 0; k < 20; k++ {
			if t := pickInstant0(); usable(t) {
				return t
			}
		}
		return base + 43200
	}
	nAt, nPair := 60, 40
	for i := 0; i < nAt; i++ {
		t := pickInstant()
		res := do(fmt.Sprintf("at %d", t))
		o.kind("at." + res)
	}
	for i := 0; i < nPair; i++ {
		a := pickInstant()
		var b int64
		switch r.intn(4) {
		case 0:
			b = pickInstant()
		case 1:
			b = a + int64(r.intn(86400))
		case 2:
			b = a + int64(r.intn(7*86400))
		default:
			b = a - int64(r.intn(2*86400))
		}
		if dstLoc != nil && r.chance(1, 2) {
			// the hour around the close of a's window, days later
			b = a/86400*86400 + int64(r.intn(8))*86400 + int64(end) + int64(r.rangeInt(-5400, 5400))
		}
		if !usable(b) {
			continue
		}
		res := do(fmt.Sprintf("pair %d %d", a, b))
		o.kind("pair." + res)
	}
	return "sched"
}

func init() {
	families["sched"] = &family{newImpl: func() impl { return &schedImpl{} }, gen: genSched}
}
