package main

// family "link" (C05): two REAL sessions — A initiator, B acceptor — built by the real factory on memory or file
// stores and driven synchronously; the harness is both networks and the scheduler.  Ops (lean/Qfx/Drv/Link.lean):
//   cfg <bs> <chunkA> <chunkB> <hb> [store=mem|file] [nx=1]   (nx=1: EnableNextExpectedMsgSeqNum on both engines; never generated,
//   only in corpus/C05/nx-gapfill-loses-messages.ops)   connect   send A|B <id>   del A|B   cut   restart A|B
//   timer A|B hb|peer|logon|logout   flush A|B   settled
// Observation: status ; a2b n ; b2a n ; sentA … ; sentB … ; dlvA … ; dlvB … ; ctrA S T ; ctrB S T ; stA … ; stB …
import (
	"fmt"
	"os"
	"path/filepath"
	"strconv"
	"strings"

	"github.com/quickfixgo/quickfix"
	"github.com/quickfixgo/quickfix/config"
	"github.com/quickfixgo/quickfix/store/file"
)

type linkApp struct {
	dlv *[]string
}

func (a linkApp) OnCreate(quickfix.SessionID)                           {}
func (a linkApp) OnLogon(quickfix.SessionID)                            {}
func (a linkApp) OnLogout(quickfix.SessionID)                           {}
func (a linkApp) ToAdmin(*quickfix.Message, quickfix.SessionID)         {}
func (a linkApp) ToApp(*quickfix.Message, quickfix.SessionID) error     { return nil }
func (a linkApp) FromAdmin(*quickfix.Message, quickfix.SessionID) quickfix.MessageRejectError {
	return nil
}
func (a linkApp) FromApp(m *quickfix.Message, _ quickfix.SessionID) quickfix.MessageRejectError {
	p, err := m.Body.GetString(9000)
	if err != nil {
		p = "?"
	}
	*a.dlv = append(*a.dlv, p)
	return nil
}

type linkSide struct {
	v        *quickfix.VerifSession
	id       quickfix.SessionID
	settings *quickfix.SessionSettings
	global   *quickfix.Settings
	init     bool
	dlv      []string
	sent     []string
}

type linkImpl struct {
	nx       bool // EnableNextExpectedMsgSeqNum on both engines
	a, b     *linkSide
	a2b, b2a [][]byte
	dir      string
	useFile  bool
	caseNo   int
}

func (l *linkImpl) reset(string) {
	l.closeAll()
	l.a2b, l.b2a = nil, nil
	l.caseNo++
}

func (l *linkImpl) closeAll() {
	for _, s := range []*linkSide{l.a, l.b} {
		if s != nil && s.v != nil {
			s.v.Close()
			s.v = nil
		}
	}
	l.a, l.b = nil, nil
	if l.dir != "" {
		os.RemoveAll(l.dir)
		l.dir = ""
	}
}

func (l *linkImpl) mkSide(initiator bool, snd, tgt string, bsi int, chunk, hb string) *linkSide {
	bs := bsNames[bsi]
	st := quickfix.NewSessionSettings()
	st.Set(config.BeginString, bs)
	st.Set(config.SenderCompID, snd)
	st.Set(config.TargetCompID, tgt)
	if initiator {
		st.Set(config.HeartBtInt, hb)
		st.Set(config.SocketConnectHost, "127.0.0.1")
		st.Set(config.SocketConnectPort, "1")
	}
	if chunk != "0" {
		st.Set(config.ResendRequestChunkSize, chunk)
	}
	if bsi == 5 {
		st.Set(config.DefaultApplVerID, "9")
	}
	if l.nx {
		st.Set(config.EnableNextExpectedMsgSeqNum, "Y")
	}
	g := quickfix.NewSettings()
	if l.useFile {
		st.Set(config.FileStorePath, filepath.Join(l.dir, snd))
	}
	id, err := g.AddSession(st)
	mustf(err, "AddSession")
	s := &linkSide{id: id, settings: st, global: g, init: initiator}
	l.start(s)
	return s
}

func (l *linkImpl) start(s *linkSide) {
	var sf quickfix.MessageStoreFactory = quickfix.NewMemoryStoreFactory()
	if l.useFile {
		sf = file.NewStoreFactory(s.global)
	}
	v, err := quickfix.VerifNewSession(s.init, s.id, sf, s.settings, quickfix.NewNullLogFactory(), linkApp{&s.dlv})
	mustf(err, "VerifNewSession")
	s.v = v
}

func (l *linkImpl) collect() {
	if l.a != nil && l.a.v != nil {
		ms, _ := l.a.v.DrainOut()
		l.a2b = append(l.a2b, ms...)
	}
	if l.b != nil && l.b.v != nil {
		ms, _ := l.b.v.DrainOut()
		l.b2a = append(l.b2a, ms...)
	}
}

func csv(xs []string) string {
	if len(xs) == 0 {
		return "-"
	}
	return strings.Join(xs, ",")
}

func (l *linkImpl) observe(status string) string {
	l.collect()
	st := func(s *linkSide) string {
		n := stateNames[s.v.StateName()]
		if n == "" {
			n = "?" + s.v.StateName()
		}
		return n
	}
	return fmt.Sprintf("%s ; a2b %d ; b2a %d ; sentA %s ; sentB %s ; dlvA %s ; dlvB %s ; ctrA %d %d ; ctrB %d %d ; stA %s ; stB %s",
		status, len(l.a2b), len(l.b2a), csv(l.a.sent), csv(l.b.sent), csv(l.a.dlv), csv(l.b.dlv),
		l.a.v.Store().NextSenderMsgSeqNum(), l.a.v.Store().NextTargetMsgSeqNum(),
		l.b.v.Store().NextSenderMsgSeqNum(), l.b.v.Store().NextTargetMsgSeqNum(), st(l.a), st(l.b))
}

func connStatus(err error) string {
	if err == nil {
		return "ok"
	}
	if strings.Contains(err.Error(), "Already") {
		return "already"
	}
	return "nottime"
}

func (l *linkImpl) side(x string) *linkSide {
	if x == "A" {
		return l.a
	}
	return l.b
}

func (l *linkImpl) exec(op string) string {
	w := strings.Fields(op)
	return guard(func() string {
		switch w[0] {
		case "cfg":
			l.closeAll()
			l.a2b, l.b2a = nil, nil
			l.useFile = len(w) > 5 && w[5] == "store=file"
			l.nx = false
			for _, x := range w[5:] {
				if x == "nx=1" {
					l.nx = true
				}
			}
			if l.useFile {
				l.dir = filepath.Join(workRoot(), fmt.Sprintf("link.%d.%d", os.Getpid(), l.caseNo))
				os.MkdirAll(l.dir, 0o755)
			}
			bsi, _ := strconv.Atoi(w[1])
			l.a = l.mkSide(true, "A", "B", bsi, w[2], w[4])
			l.b = l.mkSide(false, "B", "A", bsi, w[3], w[4])
			return l.observe("ok")
		case "connect":
			s1 := connStatus(l.a.v.Connect(16))
			l.collect()
			s2 := connStatus(l.b.v.Connect(16))
			return l.observe(s1 + "," + s2)
		case "send":
			s := l.side(w[1])
			m := quickfix.NewMessage()
			m.Header.SetString(35, "D")
			m.Body.SetString(9000, w[2])
			if err := s.v.Send(m); err != nil {
				return l.observe("refused")
			}
			s.sent = append(s.sent, w[2])
			return l.observe("ok")
		case "del":
			if w[1] == "B" {
				if len(l.a2b) == 0 {
					return l.observe("none")
				}
				m := l.a2b[0]
				l.a2b = l.a2b[1:]
				l.b.v.Incoming(m)
			} else {
				if len(l.b2a) == 0 {
					return l.observe("none")
				}
				m := l.b2a[0]
				l.b2a = l.b2a[1:]
				l.a.v.Incoming(m)
			}
			return l.observe("ok")
		case "cut":
			l.collect()
			l.a2b, l.b2a = nil, nil
			l.a.v.Disconnected()
			l.b.v.Disconnected()
			l.collect()
			l.a2b, l.b2a = nil, nil
			return l.observe("ok")
		case "restart":
			s := l.side(w[1])
			s.v.Close()
			l.start(s)
			return l.observe("ok")
		case "timer":
			e := map[string]int{"hb": quickfix.VerifNeedHeartbeat, "peer": quickfix.VerifPeerTimeout, "logon": quickfix.VerifLogonTimeout, "logout": quickfix.VerifLogoutTimeout}[w[2]]
			l.side(w[1]).v.Timeout(e)
			return l.observe("ok")
		case "flush":
			l.side(w[1]).v.SendAppMessages()
			return l.observe("ok")
		case "settled":
			return l.observe("ok")
		}
		panic("bad op " + op)
	})
}

func workRoot() string {
	exe, _ := os.Executable()
	// <verif>/.work/bin/qfxh -> <verif>/.work
	return filepath.Dir(filepath.Dir(exe))
}

// ---------------------------------------------------------------- generator

type linkGen struct {
	r       *rng
	o       *out
	do      func(string) string
	a2b, b2a int
	stA, stB string
	payload int
	last    string
}

func (g *linkGen) run(op string) string {
	res := g.do(op)
	g.last = res
	for _, p := range strings.Split(res, " ; ") {
		f := strings.Fields(p)
		if len(f) < 2 {
			continue
		}
		switch f[0] {
		case "a2b":
			g.a2b, _ = strconv.Atoi(f[1])
		case "b2a":
			g.b2a, _ = strconv.Atoi(f[1])
		case "stA":
			g.stA = f[1]
		case "stB":
			g.stB = f[1]
		}
	}
	g.o.kind("op." + strings.Fields(op)[0])
	return res
}

func (g *linkGen) connected() bool { return g.stA != "Latent" && g.stB != "Latent" }

func (g *linkGen) deliverAll(max int) {
	for i := 0; i < max && (g.a2b > 0 || g.b2a > 0); i++ {
		if g.a2b > 0 && (g.b2a == 0 || g.r.chance(1, 2)) {
			g.run("del B")
		} else {
			g.run("del A")
		}
	}
}

func dlvPart(res string) string {
	i := strings.Index(res, "; dlvA")
	j := strings.Index(res, "; ctrA")
	if i < 0 || j < 0 {
		return res
	}
	return res[i:j]
}

func genLink(r *rng, tier string, idx int, o *out, do func(string) string) string {
	g := &linkGen{r: r, o: o, do: do}
	bsi := []int{2, 4, 4, 1, 0, 3, 5}[r.intn(7)]
	store := "mem"
	if r.chance(1, 2) {
		store = "file"
	}
	cfg := fmt.Sprintf("cfg %d %d %d 30 store=%s", bsi, []int{0, 0, 2, 3}[r.intn(4)], []int{0, 0, 1, 4}[r.intn(4)], store)
	g.run(cfg)
	o.nontrivial(cfg + fmt.Sprint(idx))
	send := func() {
		g.payload++
		g.run(fmt.Sprintf("send %s p%d", r.pick([]string{"A", "B"}), g.payload))
	}
	for r.chance(1, 3) {
		send()
	}
	g.run("connect")
	g.deliverAll(6)
	n := 30 + r.intn(50)
	for i := 0; i < n; i++ {
		if !g.connected() {
			switch x := r.intn(10); {
			case x < 5:
				if g.stA != "Latent" || g.stB != "Latent" {
					g.run("cut")
				}
				g.run("connect")
			case x < 8:
				send()
			case x < 9 && store == "file":
				if g.stA != "Latent" || g.stB != "Latent" {
					g.run("cut")
				}
				g.run("restart " + r.pick([]string{"A", "B"}))
				o.kind("fault.restart")
			default:
				g.run("flush " + r.pick([]string{"A", "B"}))
			}
			continue
		}
		switch x := r.intn(100); {
		case x < 35:
			send()
		case x < 70:
			if g.a2b+g.b2a > 0 {
				g.deliverAll(1 + r.intn(4))
			} else {
				g.run("flush " + r.pick([]string{"A", "B"}))
			}
		case x < 80:
			g.run("flush " + r.pick([]string{"A", "B"}))
		case x < 88:
			g.run("timer " + r.pick([]string{"A", "B"}) + " hb")
		case x < 96:
			// lose whatever is in flight
			if g.a2b+g.b2a > 0 {
				o.kind("fault.cut-with-loss")
			} else {
				o.kind("fault.cut-clean")
			}
			g.run("cut")
		default:
			g.run("timer " + r.pick([]string{"A", "B"}) + " peer")
		}
	}
	// settle: the link stays up for a few heartbeat intervals
	if g.stA != "Latent" || g.stB != "Latent" {
		if !g.connected() {
			g.run("cut")
		}
	}
	if !g.connected() {
		g.run("connect")
	}
	stable := 0
	prev := ""
	for round := 0; round < 40 && stable < 3; round++ {
		g.deliverAll(400)
		g.run("flush A")
		g.run("flush B")
		g.deliverAll(400)
		g.run("timer A hb")
		g.run("timer B hb")
		g.deliverAll(400)
		cur := dlvPart(g.last) + g.stA + g.stB
		if cur == prev && g.a2b == 0 && g.b2a == 0 && g.stA == "InSession" && g.stB == "InSession" {
			stable++
		} else {
			stable = 0
		}
		prev = cur
		if !g.connected() {
			g.run("cut")
			g.run("connect")
		}
	}
	if stable >= 3 {
		g.run("settled")
		o.kind("settled")
	} else {
		o.kind("not-settled")
	}
	return "link"
}

func init() {
	families["link"] = &family{newImpl: func() impl { return &linkImpl{} }, gen: genLink}
}
