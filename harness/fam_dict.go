package main

// family "dict": the data dictionary loader (C19; its dumps also feed C15/C13).
//
// One case = one specification.  Ops:
//   ast  <serialised AST>          a generated specification: rendered to XML text (per-case temp file), loaded by the REAL
//                                  datadictionary.Parse
//   file <NAME> <serialised AST>   shipped specification $VERIF_REPO/spec/<NAME>.xml loaded in full by the REAL loader; the AST
//                                  on the line is what the INDEPENDENT reader below (own structs over encoding/xml tokens,
//                                  nothing from datadictionary/xml.go) read from the same file (`stale-op` if it no longer does)
//        => loaded <msgtypes csv|-> hdr=<y|n> trl=<y|n> | refused <field|component|attr|xml|other> | crash (child process died:
//           unbounded recursion on cyclic components) | panic
//   msg <msgtype> | header | trailer
//        => def tags=<sorted csv|-> req=<sorted csv|-> fmap=<ok|bad> flat <ftree>*  |  none
//           ftree := <tag><Y|N>  |  ( <tag><Y|N> <tags of RequiredFields csv|-> <ftree>* )      (group: FieldDef.Fields in order)
//           `flat` walks MessageDef.Parts in declaration order with components replaced by their Fields();
//           fmap=ok iff MessageDef.Fields is exactly {tag -> last FieldDef with that tag in flat}
//   types => types byname=<ok|bad> ( <tag> <name> <type> <sorted enums>* )*        (FieldTypeByTag, sorted by tag)
//
// AST syntax (space separated tokens; names escaped by encName so that they never contain blanks or parentheses):
//   ( root <type> <major> <minor> ) ( fields ( <name> <number> <type> <enum>* )* ) ( comps ( <name> <member>* )* )
//   ( msgs ( <name> <msgtype> <member>* )* ) ( header <member>* ) | ( noheader )   ( trailer <member>* ) | ( notrailer )
//   member := ( f <name> <Y|N> ) | ( g <name> <Y|N> <member>* ) | ( c <name> <Y|N> )

import (
	"bytes"
	"encoding/xml"
	"fmt"
	"io"
	"os"
	"os/exec"
	"path/filepath"
	"runtime/debug"
	"sort"
	"strconv"
	"strings"
	"time"

	"github.com/quickfixgo/quickfix/datadictionary"
)

// ---------------------------------------------------------------- independent AST

type dMember struct {
	kind byte // 'f' field, 'g' group, 'c' component
	name string
	req  bool
	kids []*dMember
}
type dField struct {
	name  string
	num   int
	typ   string
	enums []string
}
type dComp struct {
	name    string
	members []*dMember
}
type dMsg struct {
	name, msgType string
	members       []*dMember
}
type dAst struct {
	typ, major, minor     string
	fields                []dField
	comps                 []dComp
	msgs                  []dMsg
	header, trailer       []*dMember
	hasHeader, hasTrailer bool
}

func encName(s string) string {
	if s == "" {
		return "%"
	}
	var sb strings.Builder
	for i := 0; i < len(s); i++ {
		c := s[i]
		if (c >= 'a' && c <= 'z') || (c >= 'A' && c <= 'Z') || (c >= '0' && c <= '9') || c == '_' || c == '.' || c == '-' || c == '/' || c == '?' {
			sb.WriteByte(c)
		} else {
			fmt.Fprintf(&sb, "%%%02x", c)
		}
	}
	return sb.String()
}

func decName(s string) string {
	if s == "%" {
		return ""
	}
	var sb strings.Builder
	for i := 0; i < len(s); i++ {
		if s[i] == '%' && i+2 < len(s) {
			v, err := strconv.ParseUint(s[i+1:i+3], 16, 8)
			if err != nil {
				panic("bad escape in " + s)
			}
			sb.WriteByte(byte(v))
			i += 2
		} else {
			sb.WriteByte(s[i])
		}
	}
	return sb.String()
}

func attr(se xml.StartElement, name string) (string, bool) {
	for _, a := range se.Attr {
		if a.Name.Local == name {
			return a.Value, true
		}
	}
	return "", false
}

// readSpecXML walks the token stream of a specification file.  It shares nothing with datadictionary/xml.go.
func readSpecXML(src io.Reader) (*dAst, error) {
	dec := xml.NewDecoder(src)
	dec.CharsetReader = func(_ string, in io.Reader) (io.Reader, error) { return in, nil }
	ast := &dAst{}
	var readMembers func(end string) ([]*dMember, error)
	readMembers = func(end string) ([]*dMember, error) {
		var ms []*dMember
		for {
			tok, err := dec.Token()
			if err != nil {
				return nil, err
			}
			switch t := tok.(type) {
			case xml.StartElement:
				n, _ := attr(t, "name")
				rq, _ := attr(t, "required")
				m := &dMember{name: n, req: rq == "Y"}
				switch t.Name.Local {
				case "field":
					m.kind = 'f'
				case "group":
					m.kind = 'g'
				case "component":
					m.kind = 'c'
				default:
					return nil, fmt.Errorf("unexpected member element <%s>", t.Name.Local)
				}
				kids, err := readMembers(t.Name.Local)
				if err != nil {
					return nil, err
				}
				if m.kind == 'g' {
					m.kids = kids
				} else if len(kids) > 0 {
					return nil, fmt.Errorf("<%s name=%s> has children", t.Name.Local, n)
				}
				ms = append(ms, m)
			case xml.EndElement:
				if t.Name.Local != end {
					return nil, fmt.Errorf("unbalanced </%s>", t.Name.Local)
				}
				return ms, nil
			}
		}
	}
	readFields := func() error {
		for {
			tok, err := dec.Token()
			if err != nil {
				return err
			}
			switch t := tok.(type) {
			case xml.StartElement:
				if t.Name.Local != "field" {
					return fmt.Errorf("unexpected <%s> in <fields>", t.Name.Local)
				}
				f := dField{}
				f.name, _ = attr(t, "name")
				f.typ, _ = attr(t, "type")
				ns, _ := attr(t, "number")
				if f.num, err = strconv.Atoi(ns); err != nil {
					return fmt.Errorf("field number %q", ns)
				}
				for {
					tok2, err := dec.Token()
					if err != nil {
						return err
					}
					if se, ok := tok2.(xml.StartElement); ok {
						if se.Name.Local != "value" {
							return fmt.Errorf("unexpected <%s> in <field>", se.Name.Local)
						}
						e, _ := attr(se, "enum")
						f.enums = append(f.enums, e)
						if err := dec.Skip(); err != nil {
							return err
						}
					} else if _, ok := tok2.(xml.EndElement); ok {
						break
					}
				}
				ast.fields = append(ast.fields, f)
			case xml.EndElement:
				return nil
			}
		}
	}
	readList := func(item string, isMsg bool) error {
		for {
			tok, err := dec.Token()
			if err != nil {
				return err
			}
			switch t := tok.(type) {
			case xml.StartElement:
				if t.Name.Local != item {
					return fmt.Errorf("unexpected <%s>, want <%s>", t.Name.Local, item)
				}
				n, _ := attr(t, "name")
				mt, _ := attr(t, "msgtype")
				ms, err := readMembers(item)
				if err != nil {
					return err
				}
				if isMsg {
					ast.msgs = append(ast.msgs, dMsg{name: n, msgType: mt, members: ms})
				} else {
					ast.comps = append(ast.comps, dComp{name: n, members: ms})
				}
			case xml.EndElement:
				return nil
			}
		}
	}
	depth := 0
	for {
		tok, err := dec.Token()
		if err == io.EOF {
			break
		}
		if err != nil {
			return nil, err
		}
		switch t := tok.(type) {
		case xml.StartElement:
			if depth == 0 {
				if t.Name.Local != "fix" {
					return nil, fmt.Errorf("root element <%s>", t.Name.Local)
				}
				ast.typ, _ = attr(t, "type")
				ast.major, _ = attr(t, "major")
				ast.minor, _ = attr(t, "minor")
				depth = 1
				continue
			}
			switch t.Name.Local {
			case "header":
				ast.hasHeader = true
				if ast.header, err = readMembers("header"); err != nil {
					return nil, err
				}
			case "trailer":
				ast.hasTrailer = true
				if ast.trailer, err = readMembers("trailer"); err != nil {
					return nil, err
				}
			case "messages":
				if err = readList("message", true); err != nil {
					return nil, err
				}
			case "components":
				if err = readList("component", false); err != nil {
					return nil, err
				}
			case "fields":
				if err = readFields(); err != nil {
					return nil, err
				}
			default:
				return nil, fmt.Errorf("unexpected section <%s>", t.Name.Local)
			}
		case xml.EndElement:
			depth = 0
		}
	}
	return ast, nil
}

func reqStr(b bool) string {
	if b {
		return "Y"
	}
	return "N"
}

func serMembers(sb *strings.Builder, ms []*dMember) {
	for _, m := range ms {
		fmt.Fprintf(sb, " ( %c %s %s", m.kind, encName(m.name), reqStr(m.req))
		if m.kind == 'g' {
			serMembers(sb, m.kids)
		}
		sb.WriteString(" )")
	}
}

func (a *dAst) serialise() string {
	var sb strings.Builder
	fmt.Fprintf(&sb, "( root %s %s %s ) ( fields", encName(a.typ), encName(a.major), encName(a.minor))
	for _, f := range a.fields {
		fmt.Fprintf(&sb, " ( %s %d %s", encName(f.name), f.num, encName(f.typ))
		for _, e := range f.enums {
			sb.WriteString(" " + encName(e))
		}
		sb.WriteString(" )")
	}
	sb.WriteString(" ) ( comps")
	for _, c := range a.comps {
		sb.WriteString(" ( " + encName(c.name))
		serMembers(&sb, c.members)
		sb.WriteString(" )")
	}
	sb.WriteString(" ) ( msgs")
	for _, m := range a.msgs {
		sb.WriteString(" ( " + encName(m.name) + " " + encName(m.msgType))
		serMembers(&sb, m.members)
		sb.WriteString(" )")
	}
	sb.WriteString(" )")
	if a.hasHeader {
		sb.WriteString(" ( header")
		serMembers(&sb, a.header)
		sb.WriteString(" )")
	} else {
		sb.WriteString(" ( noheader )")
	}
	if a.hasTrailer {
		sb.WriteString(" ( trailer")
		serMembers(&sb, a.trailer)
		sb.WriteString(" )")
	} else {
		sb.WriteString(" ( notrailer )")
	}
	return sb.String()
}

// parseAst reads the serialised form back (needed to replay an `ast` op).
type tokStream struct {
	t []string
	i int
}

func (s *tokStream) peek() string {
	if s.i < len(s.t) {
		return s.t[s.i]
	}
	return ""
}
func (s *tokStream) next() string { x := s.peek(); s.i++; return x }
func (s *tokStream) expect(x string) {
	if s.next() != x {
		panic("bad ast syntax: want " + x)
	}
}

func parseMembers(s *tokStream) []*dMember {
	var ms []*dMember
	for s.peek() == "(" {
		s.next()
		k := s.next()
		m := &dMember{kind: k[0], name: decName(s.next()), req: s.next() == "Y"}
		if m.kind == 'g' {
			m.kids = parseMembers(s)
		}
		s.expect(")")
		ms = append(ms, m)
	}
	return ms
}

func parseAst(toks []string) *dAst {
	s := &tokStream{t: toks}
	a := &dAst{}
	s.expect("(")
	s.expect("root")
	a.typ, a.major, a.minor = decName(s.next()), decName(s.next()), decName(s.next())
	s.expect(")")
	s.expect("(")
	s.expect("fields")
	for s.peek() == "(" {
		s.next()
		f := dField{name: decName(s.next())}
		f.num = atoiMust(s.next())
		f.typ = decName(s.next())
		for s.peek() != ")" {
			f.enums = append(f.enums, decName(s.next()))
		}
		s.next()
		a.fields = append(a.fields, f)
	}
	s.expect(")")
	s.expect("(")
	s.expect("comps")
	for s.peek() == "(" {
		s.next()
		c := dComp{name: decName(s.next())}
		c.members = parseMembers(s)
		s.expect(")")
		a.comps = append(a.comps, c)
	}
	s.expect(")")
	s.expect("(")
	s.expect("msgs")
	for s.peek() == "(" {
		s.next()
		m := dMsg{name: decName(s.next()), msgType: decName(s.next())}
		m.members = parseMembers(s)
		s.expect(")")
		a.msgs = append(a.msgs, m)
	}
	s.expect(")")
	s.expect("(")
	if s.next() == "header" {
		a.hasHeader = true
		a.header = parseMembers(s)
	}
	s.expect(")")
	s.expect("(")
	if s.next() == "trailer" {
		a.hasTrailer = true
		a.trailer = parseMembers(s)
	}
	s.expect(")")
	return a
}

func xmlEsc(s string) string {
	var b bytes.Buffer
	xml.EscapeText(&b, []byte(s))
	return b.String()
}

func renderMembers(sb *strings.Builder, ms []*dMember, ind string) {
	for _, m := range ms {
		el := map[byte]string{'f': "field", 'g': "group", 'c': "component"}[m.kind]
		if m.kind == 'g' {
			fmt.Fprintf(sb, "%s<%s name=\"%s\" required=\"%s\">\n", ind, el, xmlEsc(m.name), reqStr(m.req))
			renderMembers(sb, m.kids, ind+" ")
			fmt.Fprintf(sb, "%s</%s>\n", ind, el)
		} else {
			fmt.Fprintf(sb, "%s<%s name=\"%s\" required=\"%s\"/>\n", ind, el, xmlEsc(m.name), reqStr(m.req))
		}
	}
}

func (a *dAst) renderXML() string {
	var sb strings.Builder
	fmt.Fprintf(&sb, "<fix type=\"%s\" major=\"%s\" minor=\"%s\" servicepack=\"0\">\n", xmlEsc(a.typ), xmlEsc(a.major), xmlEsc(a.minor))
	if a.hasHeader {
		sb.WriteString(" <header>\n")
		renderMembers(&sb, a.header, "  ")
		sb.WriteString(" </header>\n")
	}
	sb.WriteString(" <messages>\n")
	for _, m := range a.msgs {
		fmt.Fprintf(&sb, "  <message name=\"%s\" msgtype=\"%s\" msgcat=\"app\">\n", xmlEsc(m.name), xmlEsc(m.msgType))
		renderMembers(&sb, m.members, "   ")
		sb.WriteString("  </message>\n")
	}
	sb.WriteString(" </messages>\n")
	if a.hasTrailer {
		sb.WriteString(" <trailer>\n")
		renderMembers(&sb, a.trailer, "  ")
		sb.WriteString(" </trailer>\n")
	}
	sb.WriteString(" <components>\n")
	for _, c := range a.comps {
		fmt.Fprintf(&sb, "  <component name=\"%s\">\n", xmlEsc(c.name))
		renderMembers(&sb, c.members, "   ")
		sb.WriteString("  </component>\n")
	}
	sb.WriteString(" </components>\n <fields>\n")
	for _, f := range a.fields {
		if len(f.enums) == 0 {
			fmt.Fprintf(&sb, "  <field number=\"%d\" name=\"%s\" type=\"%s\"/>\n", f.num, xmlEsc(f.name), xmlEsc(f.typ))
		} else {
			fmt.Fprintf(&sb, "  <field number=\"%d\" name=\"%s\" type=\"%s\">\n", f.num, xmlEsc(f.name), xmlEsc(f.typ))
			for _, e := range f.enums {
				fmt.Fprintf(&sb, "   <value enum=\"%s\" description=\"D\"/>\n", xmlEsc(e))
			}
			sb.WriteString("  </field>\n")
		}
	}
	sb.WriteString(" </fields>\n</fix>\n")
	return sb.String()
}

// hasCycle: does the component graph reachable from any declared component contain a cycle?  Used ONLY to route the
// load into a child process (Go recurses without bound); a wrong answer kills the harness loudly, never silently.
func (a *dAst) hasCycle() bool {
	byName := map[string][]*dMember{}
	for _, c := range a.comps {
		byName[c.name] = c.members
	}
	state := map[string]int{}
	var visitMs func(ms []*dMember) bool
	var visit func(n string) bool
	visit = func(n string) bool {
		ms, ok := byName[n]
		if !ok {
			return false
		}
		switch state[n] {
		case 1:
			return true
		case 2:
			return false
		}
		state[n] = 1
		if visitMs(ms) {
			return true
		}
		state[n] = 2
		return false
	}
	visitMs = func(ms []*dMember) bool {
		for _, m := range ms {
			if m.kind == 'c' && visit(m.name) {
				return true
			}
			if m.kind == 'g' && visitMs(m.kids) {
				return true
			}
		}
		return false
	}
	for _, c := range a.comps {
		if visit(c.name) {
			return true
		}
	}
	return false
}

// ---------------------------------------------------------------- the real loader, dumped canonically

func csvInts(xs []int) string {
	if len(xs) == 0 {
		return "-"
	}
	sort.Ints(xs)
	ss := make([]string, len(xs))
	for i, x := range xs {
		ss[i] = strconv.Itoa(x)
	}
	return strings.Join(ss, ",")
}

func dumpFieldDef(sb *strings.Builder, f *datadictionary.FieldDef) {
	if len(f.Fields) == 0 {
		fmt.Fprintf(sb, " %d%s", f.Tag(), reqStr(f.Required()))
		return
	}
	var rq []string
	for _, r := range f.RequiredFields() {
		rq = append(rq, strconv.Itoa(r.Tag()))
	}
	rqs := "-"
	if len(rq) > 0 {
		rqs = strings.Join(rq, ",") // declaration order, not sorted: RequiredFields is a slice
	}
	fmt.Fprintf(sb, " ( %d%s %s", f.Tag(), reqStr(f.Required()), rqs)
	for _, k := range f.Fields {
		dumpFieldDef(sb, k)
	}
	sb.WriteString(" )")
}

func dumpMessageDef(m *datadictionary.MessageDef) string {
	if m == nil {
		return "none"
	}
	var tags, req []int
	for t := range m.Tags {
		tags = append(tags, t)
	}
	for t := range m.RequiredTags {
		req = append(req, t)
	}
	var flat []*datadictionary.FieldDef
	for _, p := range m.Parts {
		switch pt := p.(type) {
		case *datadictionary.FieldDef:
			flat = append(flat, pt)
		case datadictionary.Component:
			flat = append(flat, pt.Fields()...)
		case *datadictionary.Component:
			flat = append(flat, pt.Fields()...)
		default:
			panic("unknown part")
		}
	}
	last := map[int]*datadictionary.FieldDef{}
	for _, f := range flat {
		last[f.Tag()] = f
	}
	fmapOK := len(last) == len(m.Fields)
	for t, f := range m.Fields {
		if last[t] != f {
			fmapOK = false
		}
	}
	var sb strings.Builder
	fm := "ok"
	if !fmapOK {
		fm = "bad"
	}
	fmt.Fprintf(&sb, "def tags=%s req=%s fmap=%s flat", csvInts(tags), csvInts(req), fm)
	for _, f := range flat {
		dumpFieldDef(&sb, f)
	}
	return sb.String()
}

func dumpTypes(d *datadictionary.DataDictionary) string {
	var tags []int
	for t := range d.FieldTypeByTag {
		tags = append(tags, t)
	}
	sort.Ints(tags)
	byName := "ok"
	if len(d.FieldTypeByName) != len(d.FieldTypeByTag) {
		byName = "bad"
	}
	var sb strings.Builder
	for _, t := range tags {
		ft := d.FieldTypeByTag[t]
		if ft.Tag() != t || d.FieldTypeByName[ft.Name()] != ft {
			byName = "bad"
		}
		fmt.Fprintf(&sb, " ( %d %s %s", t, encName(ft.Name()), encName(ft.Type))
		var es []string
		for k, e := range ft.Enums {
			if e.Value != k {
				byName = "bad"
			}
			es = append(es, encName(k))
		}
		sort.Strings(es)
		for _, e := range es {
			sb.WriteString(" " + e)
		}
		sb.WriteString(" )")
	}
	return "types byname=" + byName + sb.String()
}

func classifyDictErr(err error) string {
	s := err.Error()
	switch {
	case strings.HasPrefix(s, "unknown field"):
		return "refused field"
	case strings.HasPrefix(s, "unknown component"):
		return "refused component"
	case strings.Contains(s, "ircular") || strings.Contains(s, "cycl"):
		return "refused cycle"
	case strings.Contains(s, "attribute"):
		return "refused attr"
	case strings.Contains(s, "XML"):
		return "refused xml"
	}
	return "refused other"
}

func loadedLine(d *datadictionary.DataDictionary) string {
	var mts []string
	for k, m := range d.Messages {
		if m == nil {
			mts = append(mts, encName(k)+"!nil")
			continue
		}
		mts = append(mts, encName(k))
	}
	sort.Strings(mts)
	l := "-"
	if len(mts) > 0 {
		l = strings.Join(mts, ",")
	}
	return fmt.Sprintf("loaded %s hdr=%s trl=%s", l, yn(d.Header != nil), yn(d.Trailer != nil))
}

type dictImpl struct {
	d    *datadictionary.DataDictionary
	work string
	seq  int
}

func verifRepo() string {
	if r := os.Getenv("VERIF_REPO"); r != "" {
		return r
	}
	return "/repo"
}

func newDictImpl() impl {
	exe, _ := os.Executable()
	// $W/verif/.work/bin/qfxh -> per-process scratch under $W/verif/.work
	w := filepath.Join(filepath.Dir(filepath.Dir(exe)), fmt.Sprintf("dict.%d", os.Getpid()))
	return &dictImpl{work: w}
}

func (im *dictImpl) reset(string) { im.d = nil }

func (im *dictImpl) tempFile(text string) string {
	os.MkdirAll(im.work, 0o755)
	im.seq++
	p := filepath.Join(im.work, fmt.Sprintf("spec%d.xml", im.seq%4))
	if err := os.WriteFile(p, []byte(text), 0o644); err != nil {
		panic(err)
	}
	return p
}

func (im *dictImpl) load(path string) string {
	d, err := datadictionary.Parse(path)
	if strings.HasPrefix(path, im.work) {
		os.Remove(path)
		os.Remove(im.work)
	}
	if err != nil {
		return classifyDictErr(err)
	}
	im.d = d
	return loadedLine(d)
}

// loadInChild runs the real loader on `path` in a child process with a small stack limit and a timeout.
func loadInChild(path string) string {
	exe, _ := os.Executable()
	cmd := exec.Command(exe, "dict-child", path)
	var outb bytes.Buffer
	cmd.Stdout = &outb
	if err := cmd.Start(); err != nil {
		return "harness-error " + encName(err.Error())
	}
	done := make(chan error, 1)
	go func() { done <- cmd.Wait() }()
	select {
	case err := <-done:
		if err != nil {
			return "crash"
		}
		return strings.TrimSpace(outb.String())
	case <-time.After(20 * time.Second):
		cmd.Process.Kill()
		<-done
		return "crash"
	}
}

func (im *dictImpl) exec(op string) string {
	w := strings.Fields(op)
	return guard(func() string {
		switch w[0] {
		case "file":
			im.d = nil
			path := filepath.Join(verifRepo(), "spec", w[1]+".xml")
			fh, err := os.Open(path)
			if err != nil {
				return "harness-error open"
			}
			a, err := readSpecXML(fh)
			fh.Close()
			if err != nil {
				return "harness-error " + encName(err.Error())
			}
			if a.serialise() != strings.Join(w[2:], " ") {
				return "stale-op"
			}
			return im.load(path)
		case "ast":
			im.d = nil
			a := parseAst(w[1:])
			text := a.renderXML()
			// self-check of the harness: the independent reader must read back what was rendered
			b, err := readSpecXML(strings.NewReader(text))
			if err != nil || b.serialise() != a.serialise() {
				return "harness-error render"
			}
			path := im.tempFile(text)
			if a.hasCycle() {
				res := loadInChild(path)
				os.Remove(path)
				os.Remove(im.work)
				return res
			}
			return im.load(path)
		case "msg":
			if im.d == nil {
				return "nodict"
			}
			m, ok := im.d.Messages[decName(w[1])]
			if !ok {
				return "none"
			}
			return dumpMessageDef(m)
		case "header":
			if im.d == nil {
				return "nodict"
			}
			return dumpMessageDef(im.d.Header)
		case "trailer":
			if im.d == nil {
				return "nodict"
			}
			return dumpMessageDef(im.d.Trailer)
		case "types":
			if im.d == nil {
				return "nodict"
			}
			return dumpTypes(im.d)
		}
		panic("bad op " + w[0])
	})
}

// ---------------------------------------------------------------- generator

var shippedSpecs = []string{"FIX40", "FIX41", "FIX42", "FIX43", "FIX44", "FIX50", "FIX50SP1", "FIX50SP2", "FIXT11"}

func genDictShipped(name string, o *out, do func(string) string) string {
	do("!label file " + name)
	fh, err := os.Open(filepath.Join(verifRepo(), "spec", name+".xml"))
	if err != nil {
		panic(err)
	}
	a, err := readSpecXML(fh)
	fh.Close()
	if err != nil {
		panic(fmt.Sprintf("independent reader failed on %s: %v", name, err))
	}
	o.sampleEach = 1 << 30 // the AST line of a shipped file is far too long for an evidence sample
	res := do("file " + name + " " + a.serialise())
	o.sampleEach = 1
	o.kind("shipped." + strings.Fields(res)[0])
	for _, m := range a.msgs {
		do("msg " + encName(m.msgType))
		o.nontrivial(name + ":" + m.msgType)
	}
	do("header")
	do("trailer")
	do("types")
	return name
}

type dictGen struct {
	r      *rng
	fields []dField
	comps  []dComp
	// components are generated in layers: a component of layer i references only components of layers < i (acyclic),
	// unless a defect is being injected
	depthBudget int
	pReq        int
	dangling    string // "", "field", "component"
	usedDangle  bool
}

func (g *dictGen) members(n int, compPool []string, depth int, allowDangle bool) []*dMember {
	var ms []*dMember
	for i := 0; i < n; i++ {
		req := g.r.chance(g.pReq, 10)
		switch c := g.r.intn(10); {
		case c < 5 || (len(compPool) == 0 && (c < 8 || depth <= 0)):
			ms = append(ms, &dMember{kind: 'f', name: g.r.pick(g.fieldNames()), req: req})
		case c < 8 && len(compPool) > 0:
			ms = append(ms, &dMember{kind: 'c', name: g.r.pick(compPool), req: req})
		default:
			if depth <= 0 {
				ms = append(ms, &dMember{kind: 'f', name: g.r.pick(g.fieldNames()), req: req})
				continue
			}
			k := g.r.rangeInt(0, 3)
			if g.r.chance(9, 10) && k == 0 {
				k = 1
			}
			ms = append(ms, &dMember{kind: 'g', name: g.r.pick(g.fieldNames()), req: req, kids: g.members(k, compPool, depth-1, allowDangle)})
		}
	}
	if allowDangle && g.dangling != "" && !g.usedDangle && g.r.chance(1, 3) {
		g.usedDangle = true
		m := &dMember{kind: 'f', name: "Nowhere", req: g.r.chance(1, 2)}
		if g.dangling == "component" {
			m.kind = 'c'
		} else if g.r.chance(1, 3) {
			m.kind = 'g'
			m.kids = []*dMember{{kind: 'f', name: g.r.pick(g.fieldNames())}}
		}
		i := g.r.intn(len(ms) + 1)
		ms = append(ms[:i:i], append([]*dMember{m}, ms[i:]...)...)
	}
	return ms
}

func (g *dictGen) fieldNames() []string {
	ns := make([]string, len(g.fields))
	for i, f := range g.fields {
		ns[i] = f.name
	}
	return ns
}

var genTypes = []string{"STRING", "INT", "CHAR", "PRICE", "BOOLEAN", "NUMINGROUP", "MULTIPLEVALUESTRING", "UTCTIMESTAMP"}

// genDictAst: nesting depth ≤ 5, optional/required mixes, shared components, optional dangling references or cycles.
func genDictAst(r *rng, shape int) (*dAst, string) {
	g := &dictGen{r: r, pReq: []int{2, 5, 8}[r.intn(3)]}
	kind := "wf"
	switch {
	case shape%10 == 7:
		g.dangling, kind = "field", "dangling-field"
	case shape%10 == 8:
		g.dangling, kind = "component", "dangling-component"
	case shape%10 == 9:
		kind = "cyclic"
	}
	nf := r.rangeInt(3, 14)
	for i := 0; i < nf; i++ {
		f := dField{name: fmt.Sprintf("F%d", i), num: 100 + i*r.rangeInt(1, 3) + i, typ: r.pick(genTypes)}
		if r.chance(1, 3) {
			ne := r.rangeInt(1, 4)
			for e := 0; e < ne; e++ {
				f.enums = append(f.enums, r.pick([]string{"0", "1", "2", "A", "B", "C", "AB", "x y", "Z9", "?"}))
			}
		}
		g.fields = append(g.fields, f)
	}
	// unique numbers: strictly increasing by construction (100+i*(k+1), k>=1 => increasing? make sure)
	for i := 1; i < len(g.fields); i++ {
		if g.fields[i].num <= g.fields[i-1].num {
			g.fields[i].num = g.fields[i-1].num + 1
		}
	}
	a := &dAst{typ: "FIX", major: "4", minor: strconv.Itoa(r.rangeInt(0, 9))}
	nc := r.rangeInt(0, 6) + r.intn(2)*r.intn(5)
	var pool []string
	var comps []dComp
	for i := 0; i < nc; i++ {
		name := fmt.Sprintf("C%d", i)
		sub := pool
		if len(sub) > 3 && r.chance(1, 2) {
			sub = sub[len(sub)-3:]
		}
		ms := g.members(r.rangeInt(0, 4)+r.intn(2)*r.intn(5), sub, r.rangeInt(0, 2), true)
		if len(pool) > 0 && r.chance(1, 2) {
			// components that BEGIN with a nested component, several of them with the same one (flattening must copy,
			// not share, the nested component's member list)
			lead := pool[0]
			if r.chance(1, 2) {
				lead = r.pick(pool)
			}
			ms = append([]*dMember{{kind: 'c', name: lead, req: r.chance(g.pReq, 10)}}, ms...)
		}
		comps = append(comps, dComp{name: name, members: ms})
		pool = append(pool, name)
	}
	if kind == "cyclic" {
		if len(comps) == 0 {
			comps = append(comps, dComp{name: "C0"})
			pool = append(pool, "C0")
		}
		// back edge: some component references itself or a later one (possibly inside a group)
		i := r.intn(len(comps))
		j := i + r.intn(len(comps)-i)
		back := &dMember{kind: 'c', name: comps[j].name, req: r.chance(1, 2)}
		if r.chance(1, 3) {
			back = &dMember{kind: 'g', name: g.fields[0].name, req: false, kids: []*dMember{{kind: 'f', name: g.fields[1].name, req: true}, back}}
		}
		comps[i].members = append(comps[i].members, back)
		// and make sure j reaches i (j == i is a self loop)
		if j != i {
			comps[j].members = append(comps[j].members, &dMember{kind: 'c', name: comps[i].name, req: r.chance(1, 2)})
		}
	}
	// declaration order of components is independent of the layering (the loader must cope with forward references)
	perm := make([]int, len(comps))
	for i := range perm {
		perm[i] = i
	}
	if r.chance(1, 2) {
		for i := len(perm) - 1; i > 0; i-- {
			j := r.intn(i + 1)
			perm[i], perm[j] = perm[j], perm[i]
		}
	}
	for _, i := range perm {
		a.comps = append(a.comps, comps[i])
	}
	g.comps = a.comps
	nm := r.rangeInt(1, 4)
	for i := 0; i < nm; i++ {
		a.msgs = append(a.msgs, dMsg{name: fmt.Sprintf("M%d", i), msgType: []string{"D", "8", "AE", "0", "j"}[i],
			members: g.members(r.rangeInt(0, 5), pool, r.rangeInt(0, 5), true)})
	}
	if r.chance(4, 5) {
		a.hasHeader = true
		a.header = g.members(r.rangeInt(0, 3), pool, 1, true)
	}
	if r.chance(4, 5) {
		a.hasTrailer = true
		a.trailer = g.members(r.rangeInt(0, 2), nil, 0, true)
	}
	if g.dangling != "" && !g.usedDangle {
		m := &dMember{kind: 'f', name: "Nowhere", req: true}
		if g.dangling == "component" {
			m.kind = 'c'
		}
		a.msgs[0].members = append(a.msgs[0].members, m)
	}
	a.fields = g.fields
	return a, kind
}

func genDict(r *rng, tier string, idx int, o *out, do func(string) string) string {
	if idx < len(shippedSpecs) {
		return genDictShipped(shippedSpecs[idx], o, do)
	}
	a, kind := genDictAst(r, r.intn(10)+10*r.intn(2))
	do("!label gen " + kind)
	ser := a.serialise()
	res := do("ast " + ser)
	o.kind("gen." + kind + "." + strings.Join(strings.Fields(res)[:1], ""))
	o.nontrivial(ser)
	if strings.HasPrefix(res, "loaded") {
		for _, m := range a.msgs {
			do("msg " + encName(m.msgType))
		}
		do("header")
		do("trailer")
		do("types")
	}
	return kind
}

func init() {
	// child mode for specifications with cyclic components (the real loader recurses without bound on them)
	if len(os.Args) == 3 && os.Args[1] == "dict-child" {
		debug.SetMaxStack(32 << 20)
		d, err := datadictionary.Parse(os.Args[2])
		if err != nil {
			fmt.Println(classifyDictErr(err))
		} else {
			fmt.Println(loadedLine(d))
		}
		os.Exit(0)
	}
	families["dict"] = &family{newImpl: newDictImpl, gen: genDict}
}
