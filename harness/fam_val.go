package main

// family "val": FIX value types (C14, C09).  Ops:
//   int read <hex> | int write <v> | bool read <hex> | bool write y|n
//   float read <hex>        -> ok <16 hex digits of math.Float64bits of the value read> | err
//   float write <16 hex>    -> hex of FIXFloat(math.Float64frombits(bits)).Write()   (finite values only)
//   ts read <hex> | ts write <prec> y mo d h mi s ns | tsz write <offset|local> <prec> y mo d h mi s ns (same UTC instant, other Location) | str read <hex> | dec read/write, udec write
import (
	"fmt"
	"math"
	"math/big"
	"strconv"
	"strings"
	"time"

	"github.com/quickfixgo/quickfix"
)

type valImpl struct{}

func (valImpl) reset(string) {}

var precNames = map[string]quickfix.TimestampPrecision{"s": quickfix.Seconds, "ms": quickfix.Millis, "us": quickfix.Micros, "ns": quickfix.Nanos}
var precOf = map[quickfix.TimestampPrecision]string{quickfix.Seconds: "s", quickfix.Millis: "ms", quickfix.Micros: "us", quickfix.Nanos: "ns"}

func fmtTs(t time.Time, p quickfix.TimestampPrecision) string {
	return fmt.Sprintf("%d %d %d %d %d %d %d %s", t.Year(), int(t.Month()), t.Day(), t.Hour(), t.Minute(), t.Second(), t.Nanosecond(), precOf[p])
}

func atoiMust(s string) int {
	v, err := strconv.Atoi(s)
	if err != nil {
		panic("bad int in op: " + s)
	}
	return v
}

func (valImpl) exec(op string) string {
	w := strings.Fields(op)
	return guard(func() string {
		switch {
		case w[0] == "int" && w[1] == "read":
			var f quickfix.FIXInt
			if err := f.Read(unhx(w[2])); err != nil {
				return "err"
			}
			return fmt.Sprintf("ok %d", f.Int())
		case w[0] == "int" && w[1] == "write":
			v, _ := strconv.ParseInt(w[2], 10, 64)
			return hx(quickfix.FIXInt(v).Write())
		case w[0] == "bool" && w[1] == "read":
			var f quickfix.FIXBoolean
			if err := f.Read(unhx(w[2])); err != nil {
				return "err"
			}
			return "ok " + yn(f.Bool())
		case w[0] == "bool" && w[1] == "write":
			return hx(quickfix.FIXBoolean(w[2] == "y").Write())
		case w[0] == "float" && w[1] == "read":
			var f quickfix.FIXFloat
			if err := f.Read(unhx(w[2])); err != nil {
				return "err"
			}
			return fmt.Sprintf("ok %016x", math.Float64bits(f.Float64()))
		case w[0] == "float" && w[1] == "write":
			bits, err := strconv.ParseUint(w[2], 16, 64)
			if err != nil || len(w[2]) != 16 || bits>>52&0x7ff == 0x7ff {
				panic("bad float bits in op: " + w[2])
			}
			return hx(quickfix.FIXFloat(math.Float64frombits(bits)).Write())
		case w[0] == "dec" && w[1] == "read":
			var f quickfix.FIXDecimal
			if err := f.Read(unhx(w[2])); err != nil {
				return "err"
			}
			return fmt.Sprintf("ok %s %d", f.Decimal.Coefficient().String(), -f.Decimal.Exponent())
		case w[0] == "dec" && w[1] == "write":
			var f quickfix.FIXDecimal
			if err := f.Read(unhx(w[2])); err != nil {
				return "unreadable"
			}
			f.Scale = int32(atoiMust(w[3]))
			return hx(f.Write())
		case w[0] == "udec" && w[1] == "write":
			var f quickfix.FIXUDecimal
			if err := f.Read(unhx(w[2])); err != nil {
				return "unreadable"
			}
			f.Scale = uint8(atoiMust(w[3]))
			return hx(f.Write())
		case w[0] == "str" && w[1] == "read":
			var f quickfix.FIXString
			if err := f.Read(unhx(w[2])); err != nil {
				return "err"
			}
			return "ok " + hx([]byte(f.String()))
		case w[0] == "ts" && w[1] == "read":
			var f quickfix.FIXUTCTimestamp
			if err := f.Read(unhx(w[2])); err != nil {
				return "err"
			}
			return "ok " + fmtTs(f.Time, f.Precision)
		case w[0] == "tsz" && w[1] == "write":
			// the same instant held in another location (fixed offset w[2] seconds, or the process's Local): Write converts to UTC
			t := time.Date(atoiMust(w[4]), time.Month(atoiMust(w[5])), atoiMust(w[6]), atoiMust(w[7]), atoiMust(w[8]), atoiMust(w[9]), atoiMust(w[10]), time.UTC)
			if w[2] == "local" {
				t = t.In(time.Local)
			} else {
				t = t.In(time.FixedZone("Z", atoiMust(w[2])))
			}
			return hx(quickfix.FIXUTCTimestamp{Time: t, Precision: precNames[w[3]]}.Write())
		case w[0] == "ts" && w[1] == "write":
			t := time.Date(atoiMust(w[3]), time.Month(atoiMust(w[4])), atoiMust(w[5]), atoiMust(w[6]), atoiMust(w[7]), atoiMust(w[8]), atoiMust(w[9]), time.UTC)
			return hx(quickfix.FIXUTCTimestamp{Time: t, Precision: precNames[w[2]]}.Write())
		}
		panic("bad op " + op)
	})
}

var intAlphabet = []byte("0123456789-+ .,eEx_:")
var tsNear = []byte("0123456789-:., +TZ")

func genVal(r *rng, tier string, idx int, o *out, do func(string) string) string {
	// one case = a batch of independent ops
	for k := 0; k < 200; k++ {
		if r.chance(1, 8) {
			// decimals: texts of the plain grammar (no exponent notation) and near misses; canonical texts for the writers
			canon := func() []byte {
				var b []byte
				if r.chance(1, 3) {
					b = append(b, '-')
				}
				n := 1 + r.intn(6)
				for i := 0; i < n; i++ {
					b = append(b, byte('0'+r.intn(10)))
				}
				if r.chance(2, 3) {
					b = append(b, '.')
					m := 1 + r.intn(8)
					for i := 0; i < m; i++ {
						b = append(b, byte('0'+r.pick2(r.intn(10), []int{0, 5, 9, 4}[r.intn(4)])))
					}
				}
				return b
			}
			switch r.intn(4) {
			case 0:
				var b []byte
				n := r.intn(7)
				for i := 0; i < n; i++ {
					b = append(b, r.pickByte([]byte("0123456789.-+")))
				}
				res := do("dec read " + hx(b))
				o.kind("dec.read." + strings.Fields(res)[0])
			case 1:
				res := do("dec read " + hx(canon()))
				o.kind("dec.read." + strings.Fields(res)[0])
			case 2:
				do(fmt.Sprintf("dec write %s %d", hx(canon()), r.intn(9)))
				o.kind("dec.write")
			default:
				t := canon()
				if len(t) > 0 && t[0] == '-' && r.chance(1, 2) {
					t = t[1:]
				}
				do(fmt.Sprintf("udec write %s %d", hx(t), r.intn(9)))
				o.kind("udec.write")
			}
			continue
		}
		switch c := r.intn(12); {
		case c < 3: // int read
			var b []byte
			switch r.intn(6) {
			case 0: // short over alphabet incl. near-miss
				n := r.intn(5)
				for i := 0; i < n; i++ {
					b = append(b, r.pickByte(intAlphabet))
				}
			case 1: // canonical
				b = []byte(strconv.FormatInt(int64(r.u64())>>uint(r.intn(64)), 10))
			case 2: // digits with leading zeros, up to 18 digits
				n := 1 + r.intn(18)
				for i := 0; i < n; i++ {
					b = append(b, byte('0'+r.intn(10)))
				}
				if r.chance(1, 3) {
					b = append([]byte("-"), b...)
				}
			case 3: // boundary values
				b = []byte(r.pick([]string{"9223372036854775807", "-9223372036854775808", "-9223372036854775807", "0", "-0", "00", "-", "", "--1", "1-", "+1"}))
			case 4: // random bytes
				n := r.intn(6)
				for i := 0; i < n; i++ {
					b = append(b, byte(r.intn(256)))
				}
			default:
				n := 1 + r.intn(12)
				for i := 0; i < n; i++ {
					b = append(b, byte('0'+r.intn(10)))
				}
				b[r.intn(len(b))] = r.pickByte(intAlphabet)
			}
			res := do("int read " + hx(b))
			o.kind("int.read." + strings.Fields(res)[0])
			o.nontrivial("int.read:" + string(b))
		case c == 3:
			v := int64(r.u64()) >> uint(r.intn(64))
			if r.chance(1, 10) {
				v = []int64{0, -1, 1, 9223372036854775807, -9223372036854775808}[r.intn(5)]
			}
			do(fmt.Sprintf("int write %d", v))
			o.kind("int.write")
			o.nontrivial(fmt.Sprintf("int.write:%d", v))
		case c == 4:
			var b []byte
			if r.chance(1, 2) {
				b = []byte(r.pick([]string{"Y", "N", "y", "n", "", "YY", "1", "0", "T", " Y", "Y "}))
			} else {
				n := r.intn(3)
				for i := 0; i < n; i++ {
					b = append(b, byte(r.intn(256)))
				}
			}
			res := do("bool read " + hx(b))
			o.kind("bool.read." + strings.Fields(res)[0])
			o.nontrivial("bool.read:" + string(b))
			do("bool write " + yn(r.chance(1, 2)))
		case c < 7: // float: texts (syntax and value) and bit patterns (write, then read the text back)
			genFloat(r, o, do)
		case c < 10: // ts read
			b := genTsText(r)
			res := do("ts read " + hx(b))
			o.kind("ts.read." + strings.Fields(res)[0])
			o.nontrivial("ts.read:" + string(b))
		case c == 10:
			p := r.pick([]string{"s", "ms", "us", "ns"})
			y, mo, d, h, mi, s, ns := genCivil(r)
			if r.chance(1, 3) && y > 1 && y < 9998 {
				z := r.pick([]string{"local", "3600", "-18000", "19800", "-34200", "50400", "-43200", "1"})
				do(fmt.Sprintf("tsz write %s %s %d %d %d %d %d %d %d", z, p, y, mo, d, h, mi, s, ns))
				o.kind("ts.write.zoned")
			} else {
				do(fmt.Sprintf("ts write %s %d %d %d %d %d %d %d", p, y, mo, d, h, mi, s, ns))
			}
			o.kind("ts.write")
			o.nontrivial(fmt.Sprintf("ts.write:%d%d%d%d", y, mo, d, ns))
		default:
			n := r.intn(5)
			var b []byte
			for i := 0; i < n; i++ {
				b = append(b, byte(r.intn(256)))
			}
			do("str read " + hx(b))
			o.kind("str.read")
		}
	}
	return "val"
}

// ---- float texts and values

func zeros(n int) string { return strings.Repeat("0", n) }

func randDigits(r *rng, n int) string {
	b := make([]byte, n)
	for i := range b {
		b[i] = byte('0' + r.intn(10))
	}
	return string(b)
}

// exactText: the exact decimal expansion of a rational whose denominator is a power of two
func exactText(q *big.Rat) string {
	t := q.FloatString(q.Denom().BitLen())
	if strings.Contains(t, ".") {
		t = strings.TrimRight(strings.TrimRight(t, "0"), ".")
	}
	return t
}

var floatLandmarks = []string{
	"9007199254740992", "9007199254740993", "9007199254740991", "9007199254740995", "18014398509481985", // 2^53 ± , halfway cases
	"9223372036854775807", "9223372036854775808", "9223372036854775809", "9223372036854774784", // 2^63
	"18446744073709551615", "18446744073709551616", "18446744073709551617", "18446744073709549568", // 2^64
	"10000000000000000000", "9999999999999999999", "10000000000000000001", "12345678901234567890",
	"10000000000000000000000", "9999999999999999999999", "10000000000000000000001", "100000000000000000000000",
	"99999999999999983222784", "99999999999999991611392", "99999999999999991611393", "99999999999999991611391",
}

func finiteBits(r *rng) uint64 {
	for {
		b := r.u64()
		if b>>52&0x7ff != 0x7ff {
			return b
		}
	}
}

func genFloat(r *rng, o *out, do func(string) string) {
	read := func(kind string, t string) string {
		res := do("float read " + hx([]byte(t)))
		o.kind("float.read." + kind + "." + strings.Fields(res)[0])
		if len(t) < 40 {
			o.nontrivial("float.read:" + t)
		} else {
			o.nontrivial(fmt.Sprintf("float.read:%s…%d", t[:40], len(t)))
		}
		return res
	}
	sign := func(t string) string {
		if r.chance(1, 4) {
			return "-" + t
		}
		return t
	}
	switch k := r.intn(16); {
	case k < 3: // short strings over the alphabet, near-miss characters
		var b []byte
		n := r.intn(7)
		alpha := []byte("0123456789.-")
		if r.chance(1, 4) {
			alpha = []byte("0123456789.-+eExX_ iInNfFaApP")
		}
		for i := 0; i < n; i++ {
			b = append(b, r.pickByte(alpha))
		}
		read("short", string(b))
	case k == 3: // whole numbers of 15–25 digits: landmarks (2^53, 2^63, 2^64, 10^19, 10^22) and their neighbourhood
		t := r.pick(floatLandmarks)
		if r.chance(1, 2) {
			v, _ := new(big.Int).SetString(t, 10)
			v.Add(v, big.NewInt(int64(r.intn(4097)-2048)))
			t = v.String()
		}
		if r.chance(1, 6) {
			t += "." + randDigits(r, r.intn(4))
		}
		read("whole", sign(t))
	case k == 4: // random whole numbers of 15–25 digits
		read("whole", sign(strconv.Itoa(1+r.intn(9))+randDigits(r, 14+r.intn(11))))
	case k == 5: // long fractions
		ip := ""
		if r.chance(2, 3) {
			ip = strconv.Itoa(r.intn(100000))
		}
		read("fraction", sign(ip+"."+randDigits(r, 1+r.intn(30))))
	case k == 6: // range limits written positionally
		var t string
		switch r.intn(8) {
		case 0:
			t = "1" + zeros(306+r.intn(5))
		case 1: // around the largest finite value and the overflow threshold 2^1024 - 2^970 (exact, ±1, truncated prefixes)
			v := new(big.Int).Lsh(big.NewInt(1), 1024)
			v.Sub(v, new(big.Int).Lsh(big.NewInt(1), 970))
			if r.chance(1, 2) {
				v, _ = new(big.Float).SetFloat64(math.MaxFloat64).Int(nil)
			}
			v.Add(v, big.NewInt(int64(r.intn(3)-1)))
			t = v.String()
			if r.chance(1, 2) {
				n := 15 + r.intn(8)
				bs := []byte(t[:n])
				if r.chance(1, 2) && bs[n-1] < '9' {
					bs[n-1]++
				}
				t = string(bs) + zeros(len(t)-n)
			}
			if r.chance(1, 5) {
				t += "." + randDigits(r, 1+r.intn(3))
			}
		case 2: // smallest subnormal 4.94e-324 and its half 2.47e-324
			t = "0." + zeros(323) + r.pick([]string{"5", "49", "494", "4940656458412465", "24703282292062327", "24703282292062328", "2470328229206232720882843964341106861825299013071623822127928412503377536351043",
				"2470328229206232720882843964341106861825299013071623822127928412503377536351044", "25", "24", "3", "2", "7", "74", "75", "741"})
		case 3: // smallest normal 2.2250738585072014e-308 and the largest subnormal
			t = "0." + zeros(307) + r.pick([]string{"22250738585072014", "22250738585072011", "2225073858507201", "22250738585072009", "2225073858507202", "1", "10000000000000001"})
		case 4:
			t = "0." + zeros(300+r.intn(60)) + strconv.Itoa(1+r.intn(9)) + randDigits(r, r.intn(20))
		case 5:
			t = strconv.Itoa(1+r.intn(9)) + randDigits(r, 290+r.intn(25))
		case 6:
			t = "1" + zeros(r.intn(30)) + "." + zeros(r.intn(30)) + "1"
		default:
			t = zeros(r.intn(400)) + "." + zeros(r.intn(400)) + strconv.Itoa(r.intn(10))
		}
		read("limit", sign(t))
	case k == 7 || k == 8: // exact halfway points between adjacent doubles, and one unit in the last place to either side
		var bits uint64
		if k == 7 { // whole-valued: 2^53 ≤ x < 2^75
			bits = uint64(1023+53+r.intn(22))<<52 | r.u64()&(1<<52-1)
		} else {
			bits = uint64(1023-40+r.intn(80))<<52 | r.u64()&(1<<52-1)
			if r.chance(1, 4) {
				bits = uint64(r.intn(3))<<52 | r.u64()&(1<<52-1)>>uint(r.intn(52)) // subnormals and the first binades (long texts)
			}
		}
		if r.chance(1, 3) {
			bits &^= 1<<uint(r.intn(53)) - 1 // short mantissas, powers of two (asymmetric neighbours)
			if bits == 0 {
				bits = 1
			}
		}
		a := new(big.Rat).SetFloat64(math.Float64frombits(bits))
		b := new(big.Rat).SetFloat64(math.Float64frombits(bits + 1))
		if r.chance(1, 4) && bits > 1 {
			b = new(big.Rat).SetFloat64(math.Float64frombits(bits - 1))
		}
		t := exactText(a.Add(a, b).Quo(a, big.NewRat(2, 1)))
		switch r.intn(4) {
		case 0: // just above: one more digit
			if !strings.Contains(t, ".") {
				t += "."
			}
			t += zeros(r.intn(20)) + "1"
		case 1: // just below: last digit lowered, nines appended
			bs := []byte(t)
			i := len(bs) - 1
			if bs[i] > '0' && bs[i] <= '9' {
				bs[i]--
				t = string(bs)
				if !strings.Contains(t, ".") {
					t += "."
				}
				t += strings.Repeat("9", 1+r.intn(20))
			}
		}
		read("halfway", sign(t))
	case k == 9: // zeros with and without sign
		read("zero", r.pick([]string{"-0", "-0.0", "0", "0.0", "-0.000", "-.0", "-0.", "00", "-00.", "0.", ".0", "-000.000", "-0.0000000000000000000000000000", "-", ".", "-.", "--0", "-0-", "0-"}))
	default: // write a value, then read the text back (and write that again)
		var bits uint64
		switch r.intn(9) {
		case 0, 1:
			bits = finiteBits(r)
		case 2: // whole-valued doubles up to 1e22 and beyond
			bits = math.Float64bits(float64(r.u64() >> uint(r.intn(64))))
			if r.chance(1, 2) {
				bits = uint64(1023+r.intn(120))<<52 | r.u64()&(1<<52-1)&^(1<<uint(r.intn(53))-1)
			}
		case 3: // powers of ten
			bits = math.Float64bits(math.Pow(10, float64(r.intn(60)-25)))
			if r.chance(1, 3) {
				bits += uint64(r.intn(5)) - 2
			}
		case 4: // tiny: subnormals
			bits = r.u64() & (1<<52 - 1) >> uint(r.intn(52))
			if r.chance(1, 4) {
				bits = []uint64{0, 1, 2, 3, 1<<52 - 1, 1 << 52, 1<<52 + 1}[r.intn(7)]
			}
		case 5: // what a user types: few decimal digits
			f, _ := strconv.ParseFloat(fmt.Sprintf("%d.%0*d", r.intn(100000), 1+r.intn(8), r.intn(10)), 64)
			bits = math.Float64bits(f)
		case 6: // powers of two and their neighbours
			bits = uint64(r.intn(2047)) << 52
			if r.chance(1, 2) && bits > 0 {
				bits += uint64(r.intn(3)) - 1
			}
		case 7: // limits
			bits = []uint64{0x7fefffffffffffff, 0x7feffffffffffffe, 0x7fe0000000000000, 0x0010000000000000, 0x000fffffffffffff, 0x4340000000000000, 0x433fffffffffffff, 0x43e0000000000000, 0x43f0000000000000, 0x444b1ae4d6e2ef50, 0x3ff0000000000000, 0x3fb999999999999a}[r.intn(12)]
		default: // around 1
			bits = uint64(1023-4+r.intn(8))<<52 | r.u64()&(1<<52-1)
		}
		if r.chance(1, 3) {
			bits |= 1 << 63
		}
		if bits>>52&0x7ff == 0x7ff {
			bits = finiteBits(r)
		}
		res := do(fmt.Sprintf("float write %016x", bits))
		o.kind("float.write")
		o.nontrivial(fmt.Sprintf("float.write:%016x", bits))
		if res != "panic" && res != "-" && len(res)%2 == 0 {
			back := read("written", string(unhx(res)))
			if w := strings.Fields(back); len(w) == 2 && len(w[1]) == 16 {
				if b2, err := strconv.ParseUint(w[1], 16, 64); err == nil && b2>>52&0x7ff != 0x7ff && r.chance(1, 2) {
					do(fmt.Sprintf("float write %016x", b2))
					o.kind("float.write.again")
				}
			}
		}
	}
}

func genCivil(r *rng) (y, mo, d, h, mi, s, ns int) {
	y = r.pick2(r.rangeInt(0, 9999), []int{1970, 2000, 2024, 1900, 2100, 9999, 0, 1}[r.intn(8)])
	mo = r.rangeInt(1, 12)
	dim := time.Date(y, time.Month(mo)+1, 0, 0, 0, 0, 0, time.UTC).Day()
	d = r.pick2(r.rangeInt(1, dim), dim)
	h, mi, s = r.rangeInt(0, 23), r.rangeInt(0, 59), r.rangeInt(0, 59)
	ns = r.pick2(r.intn(1000000000), []int{0, 999999999, 1000000, 123456789, 999, 1}[r.intn(6)])
	return
}

func (r *rng) pick2(a, b int) int {
	if r.chance(2, 3) {
		return a
	}
	return b
}

// genTsText: calendar grid of mostly-valid timestamp texts with single defects and near misses.
func genTsText(r *rng) []byte {
	y, mo, d, h, mi, s, ns := genCivil(r)
	switch r.intn(10) {
	case 0:
		d = r.rangeInt(28, 32)
	case 1:
		mo = r.rangeInt(0, 13)
	case 2:
		h = r.rangeInt(22, 25)
	case 3:
		s = r.rangeInt(58, 61)
	case 4:
		mi = r.rangeInt(58, 61)
	}
	base := fmt.Sprintf("%04d%02d%02d-%02d:%02d:%02d", y, mo, d, h, mi, s)
	frac := fmt.Sprintf("%09d", ns)
	var txt string
	switch r.intn(5) {
	case 0:
		txt = base
	case 1:
		txt = base + "." + frac[:3]
	case 2:
		txt = base + "." + frac[:6]
	case 3:
		txt = base + "." + frac
	default:
		txt = base + "." + frac[:r.intn(10)]
	}
	b := []byte(txt)
	switch r.intn(8) {
	case 0: // replace one byte by a near-miss
		if len(b) > 0 {
			b[r.intn(len(b))] = r.pickByte(tsNear)
		}
	case 1: // comma separator
		if len(b) > 17 {
			b[17] = ','
		}
	case 2: // drop a byte
		if len(b) > 0 {
			i := r.intn(len(b))
			b = append(b[:i:i], b[i+1:]...)
		}
	case 3: // insert a byte
		i := r.intn(len(b) + 1)
		b = append(b[:i:i], append([]byte{r.pickByte(tsNear)}, b[i:]...)...)
	}
	return b
}

func init() {
	families["val"] = &family{newImpl: func() impl { return valImpl{} }, gen: genVal}
}
