package main

// family "val": FIX value types (C14, C09).  Ops:
//   int read <hex> | int write <v> | bool read <hex> | bool write y|n | float read <hex>
//   ts read <hex> | ts write <prec> y mo d h mi s ns | str read <hex>
//   rt int <v> | rt ts <prec> ... | rt float <hexbits> | rt dec <text> <scale>   (write then read on the implementation; monitor only)
import (
	"fmt"
	"strconv"
	"strings"
	"time"

	"github.com/quickfixgo/quickfix"
)

type valImpl struct{}

func (valImpl) reset(string) {}

var precNames = map[string]quickfix.TimestampPrecision{"s": quickfix.Seconds, "ms": quickfix.Millis, "us": quickfix.Micros, "ns": quickfix.Nanos}
var precOf = map[quickfix.TimestampPrecision]string{quickfix.Seconds: "s", quickfix.Millis: "ms", quickfix.Micros: "us", quickfix.Nanos: "ns"}

func fmtTs(t time.Time, p quickfix.TimestampPrecision) string {
	return fmt.Sprintf("%d %d %d %d %d %d %d %s", t.Year(), int(t.Month()), t.Day(), t.Hour(), t.Minute(), t.Second(), t.Nanosecond(), precOf[p])
}

func atoiMust(s string) int {
	v, err := strconv.Atoi(s)
	if err != nil {
		panic("bad int in op: " + s)
	}
	return v
}

func (valImpl) exec(op string) string {
	w := strings.Fields(op)
	return guard(func() string {
		switch {
		case w[0] == "int" && w[1] == "read":
			var f quickfix.FIXInt
			if err := f.Read(unhx(w[2])); err != nil {
				return "err"
			}
			return fmt.Sprintf("ok %d", f.Int())
		case w[0] == "int" && w[1] == "write":
			v, _ := strconv.ParseInt(w[2], 10, 64)
			return hx(quickfix.FIXInt(v).Write())
		case w[0] == "bool" && w[1] == "read":
			var f quickfix.FIXBoolean
			if err := f.Read(unhx(w[2])); err != nil {
				return "err"
			}
			return "ok " + yn(f.Bool())
		case w[0] == "bool" && w[1] == "write":
			return hx(quickfix.FIXBoolean(w[2] == "y").Write())
		case w[0] == "float" && w[1] == "read":
			var f quickfix.FIXFloat
			if err := f.Read(unhx(w[2])); err != nil {
				return "err"
			}
			return "ok"
		case w[0] == "dec" && w[1] == "read":
			var f quickfix.FIXDecimal
			if err := f.Read(unhx(w[2])); err != nil {
				return "err"
			}
			return fmt.Sprintf("ok %s %d", f.Decimal.Coefficient().String(), -f.Decimal.Exponent())
		case w[0] == "dec" && w[1] == "write":
			var f quickfix.FIXDecimal
			if err := f.Read(unhx(w[2])); err != nil {
				return "unreadable"
			}
			f.Scale = int32(atoiMust(w[3]))
			return hx(f.Write())
		case w[0] == "udec" && w[1] == "write":
			var f quickfix.FIXUDecimal
			if err := f.Read(unhx(w[2])); err != nil {
				return "unreadable"
			}
			f.Scale = uint8(atoiMust(w[3]))
			return hx(f.Write())
		case w[0] == "str" && w[1] == "read":
			var f quickfix.FIXString
			if err := f.Read(unhx(w[2])); err != nil {
				return "err"
			}
			return "ok " + hx([]byte(f.String()))
		case w[0] == "ts" && w[1] == "read":
			var f quickfix.FIXUTCTimestamp
			if err := f.Read(unhx(w[2])); err != nil {
				return "err"
			}
			return "ok " + fmtTs(f.Time, f.Precision)
		case w[0] == "ts" && w[1] == "write":
			t := time.Date(atoiMust(w[3]), time.Month(atoiMust(w[4])), atoiMust(w[5]), atoiMust(w[6]), atoiMust(w[7]), atoiMust(w[8]), atoiMust(w[9]), time.UTC)
			return hx(quickfix.FIXUTCTimestamp{Time: t, Precision: precNames[w[2]]}.Write())
		}
		panic("bad op " + op)
	})
}

var intAlphabet = []byte("0123456789-+ .,eEx_:")
var tsNear = []byte("0123456789-:., +TZ")

func genVal(r *rng, tier string, idx int, o *out, do func(string) string) string {
	// one case = a batch of independent ops
	for k := 0; k < 200; k++ {
		if r.chance(1, 8) {
			// decimals: texts of the plain grammar (no exponent notation) and near misses; canonical texts for the writers
			canon := func() []byte {
				var b []byte
				if r.chance(1, 3) {
					b = append(b, '-')
				}
				n := 1 + r.intn(6)
				for i := 0; i < n; i++ {
					b = append(b, byte('0'+r.intn(10)))
				}
				if r.chance(2, 3) {
					b = append(b, '.')
					m := 1 + r.intn(8)
					for i := 0; i < m; i++ {
						b = append(b, byte('0'+r.pick2(r.intn(10), []int{0, 5, 9, 4}[r.intn(4)])))
					}
				}
				return b
			}
			switch r.intn(4) {
			case 0:
				var b []byte
				n := r.intn(7)
				for i := 0; i < n; i++ {
					b = append(b, r.pickByte([]byte("0123456789.-+")))
				}
				res := do("dec read " + hx(b))
				o.kind("dec.read." + strings.Fields(res)[0])
			case 1:
				res := do("dec read " + hx(canon()))
				o.kind("dec.read." + strings.Fields(res)[0])
			case 2:
				do(fmt.Sprintf("dec write %s %d", hx(canon()), r.intn(9)))
				o.kind("dec.write")
			default:
				t := canon()
				if len(t) > 0 && t[0] == '-' && r.chance(1, 2) {
					t = t[1:]
				}
				do(fmt.Sprintf("udec write %s %d", hx(t), r.intn(9)))
				o.kind("udec.write")
			}
			continue
		}
		switch c := r.intn(12); {
		case c < 3: // int read
			var b []byte
			switch r.intn(6) {
			case 0: // short over alphabet incl. near-miss
				n := r.intn(5)
				for i := 0; i < n; i++ {
					b = append(b, r.pickByte(intAlphabet))
				}
			case 1: // canonical
				b = []byte(strconv.FormatInt(int64(r.u64())>>uint(r.intn(64)), 10))
			case 2: // digits with leading zeros, up to 18 digits
				n := 1 + r.intn(18)
				for i := 0; i < n; i++ {
					b = append(b, byte('0'+r.intn(10)))
				}
				if r.chance(1, 3) {
					b = append([]byte("-"), b...)
				}
			case 3: // boundary values
				b = []byte(r.pick([]string{"9223372036854775807", "-9223372036854775808", "-9223372036854775807", "0", "-0", "00", "-", "", "--1", "1-", "+1"}))
			case 4: // random bytes
				n := r.intn(6)
				for i := 0; i < n; i++ {
					b = append(b, byte(r.intn(256)))
				}
			default:
				n := 1 + r.intn(12)
				for i := 0; i < n; i++ {
					b = append(b, byte('0'+r.intn(10)))
				}
				b[r.intn(len(b))] = r.pickByte(intAlphabet)
			}
			res := do("int read " + hx(b))
			o.kind("int.read." + strings.Fields(res)[0])
			o.nontrivial("int.read:" + string(b))
		case c == 3:
			v := int64(r.u64()) >> uint(r.intn(64))
			if r.chance(1, 10) {
				v = []int64{0, -1, 1, 9223372036854775807, -9223372036854775808}[r.intn(5)]
			}
			do(fmt.Sprintf("int write %d", v))
			o.kind("int.write")
			o.nontrivial(fmt.Sprintf("int.write:%d", v))
		case c == 4:
			var b []byte
			if r.chance(1, 2) {
				b = []byte(r.pick([]string{"Y", "N", "y", "n", "", "YY", "1", "0", "T", " Y", "Y "}))
			} else {
				n := r.intn(3)
				for i := 0; i < n; i++ {
					b = append(b, byte(r.intn(256)))
				}
			}
			res := do("bool read " + hx(b))
			o.kind("bool.read." + strings.Fields(res)[0])
			o.nontrivial("bool.read:" + string(b))
			do("bool write " + yn(r.chance(1, 2)))
		case c < 7: // float acceptance
			var b []byte
			n := r.intn(7)
			alpha := []byte("0123456789.-")
			if r.chance(1, 4) {
				alpha = []byte("0123456789.-+eExX_ iInNfFaApP")
			}
			for i := 0; i < n; i++ {
				b = append(b, r.pickByte(alpha))
			}
			res := do("float read " + hx(b))
			o.kind("float.read." + res)
			o.nontrivial("float.read:" + string(b))
		case c < 10: // ts read
			b := genTsText(r)
			res := do("ts read " + hx(b))
			o.kind("ts.read." + strings.Fields(res)[0])
			o.nontrivial("ts.read:" + string(b))
		case c == 10:
			p := r.pick([]string{"s", "ms", "us", "ns"})
			y, mo, d, h, mi, s, ns := genCivil(r)
			do(fmt.Sprintf("ts write %s %d %d %d %d %d %d %d", p, y, mo, d, h, mi, s, ns))
			o.kind("ts.write")
			o.nontrivial(fmt.Sprintf("ts.write:%d%d%d%d", y, mo, d, ns))
		default:
			n := r.intn(5)
			var b []byte
			for i := 0; i < n; i++ {
				b = append(b, byte(r.intn(256)))
			}
			do("str read " + hx(b))
			o.kind("str.read")
		}
	}
	return "val"
}

func genCivil(r *rng) (y, mo, d, h, mi, s, ns int) {
	y = r.pick2(r.rangeInt(0, 9999), []int{1970, 2000, 2024, 1900, 2100, 9999, 0, 1}[r.intn(8)])
	mo = r.rangeInt(1, 12)
	dim := time.Date(y, time.Month(mo)+1, 0, 0, 0, 0, 0, time.UTC).Day()
	d = r.pick2(r.rangeInt(1, dim), dim)
	h, mi, s = r.rangeInt(0, 23), r.rangeInt(0, 59), r.rangeInt(0, 59)
	ns = r.pick2(r.intn(1000000000), []int{0, 999999999, 1000000, 123456789, 999, 1}[r.intn(6)])
	return
}

func (r *rng) pick2(a, b int) int {
	if r.chance(2, 3) {
		return a
	}
	return b
}

// genTsText: calendar grid of mostly-valid timestamp texts with single defects and near misses.
func genTsText(r *rng) []byte {
	y, mo, d, h, mi, s, ns := genCivil(r)
	switch r.intn(10) {
	case 0:
		d = r.rangeInt(28, 32)
	case 1:
		mo = r.rangeInt(0, 13)
	case 2:
		h = r.rangeInt(22, 25)
	case 3:
		s = r.rangeInt(58, 61)
	case 4:
		mi = r.rangeInt(58, 61)
	}
	base := fmt.Sprintf("%04d%02d%02d-%02d:%02d:%02d", y, mo, d, h, mi, s)
	frac := fmt.Sprintf("%09d", ns)
	var txt string
	switch r.intn(5) {
	case 0:
		txt = base
	case 1:
		txt = base + "." + frac[:3]
	case 2:
		txt = base + "." + frac[:6]
	case 3:
		txt = base + "." + frac
	default:
		txt = base + "." + frac[:r.intn(10)]
	}
	b := []byte(txt)
	switch r.intn(8) {
	case 0: // replace one byte by a near-miss
		if len(b) > 0 {
			b[r.intn(len(b))] = r.pickByte(tsNear)
		}
	case 1: // comma separator
		if len(b) > 17 {
			b[17] = ','
		}
	case 2: // drop a byte
		if len(b) > 0 {
			i := r.intn(len(b))
			b = append(b[:i:i], b[i+1:]...)
		}
	case 3: // insert a byte
		i := r.intn(len(b) + 1)
		b = append(b[:i:i], append([]byte{r.pickByte(tsNear)}, b[i:]...)...)
	}
	return b
}

func init() {
	families["val"] = &family{newImpl: func() impl { return valImpl{} }, gen: genVal}
}
