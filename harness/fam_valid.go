package main

// family "valid": the message validator driven by the shipped dictionaries (C15; also C06/C09).
//
// One case = one dictionary configuration (FIX40…FIX44 as application dictionary; FIXT11 + FIX50/SP1/SP2 as
// transport + application dictionaries), loaded by the REAL datadictionary.Parse.  Ops:
//   ddict app|tr <NAME> <serialised AST>     (AST as in family `dict`; the model builds its dictionary from it with the C19 builder)
//        => loaded | stale-op | refused …
//   v <bits> <K> <tag|-> <aux|-> <msg hex> <hdr tags csv|-> <body tags csv|-> <trl tags csv|->
//        bits  = CheckFieldsOutOfOrder RejectInvalidMessage AllowUnknownMessageFields CheckUserDefinedFields CheckFieldsHaveValues (0/1 each)
//        K,tag,aux = what the GENERATOR did: `conforming`, or the single defect it planted and where (required_missing: aux = top |
//                    grp | grptail = last field of an entry that is followed by another entry)
//        hdr/body/trl = the tags the REAL ParseMessageWithDataDictionary put into Header / Body / Trailer (sorted); the model
//                       validator takes this sectioning as given (the codec model is another family); `stale-op` if it no longer does
//        => accept | reject <reason> <reftag|-> | parse-error | panic
//
// A conforming instance is produced by walking MessageDef.Parts in declaration order: required members always, optional ones
// with probability p, groups 0–3 entries each starting with the delimiter, values from the declared type's grammar, enumerated
// fields get a declared value.

import (
	"bytes"
	"fmt"
	"os"
	"path/filepath"
	"sort"
	"strconv"
	"strings"

	"github.com/quickfixgo/quickfix"
	"github.com/quickfixgo/quickfix/datadictionary"
)

type vDictFile struct {
	dd  *datadictionary.DataDictionary
	ser string
}

var vDictCache = map[string]*vDictFile{}

func loadShipped(name string) (*vDictFile, error) {
	if f, ok := vDictCache[name]; ok {
		return f, nil
	}
	path := filepath.Join(verifRepo(), "spec", name+".xml")
	fh, err := os.Open(path)
	if err != nil {
		return nil, err
	}
	a, err := readSpecXML(fh)
	fh.Close()
	if err != nil {
		return nil, err
	}
	dd, err := datadictionary.Parse(path)
	if err != nil {
		return nil, err
	}
	f := &vDictFile{dd: dd, ser: a.serialise()}
	vDictCache[name] = f
	return f, nil
}

type validImpl struct {
	app, tr *datadictionary.DataDictionary
}

func (im *validImpl) reset(string) { im.app, im.tr = nil, nil }

func settingsOf(bits string) quickfix.ValidatorSettings {
	return quickfix.ValidatorSettings{
		CheckFieldsOutOfOrder:     bits[0] == '1',
		RejectInvalidMessage:      bits[1] == '1',
		AllowUnknownMessageFields: bits[2] == '1',
		CheckUserDefinedFields:    bits[3] == '1',
		CheckFieldsHaveValues:     bits[4] == '1',
	}
}

func tagsCsv(ts []quickfix.Tag) string {
	xs := make([]int, len(ts))
	for i, t := range ts {
		xs[i] = int(t)
	}
	return csvInts(xs)
}

// parseReal parses like a session does: transport dictionary (nil for FIX 4.x) and application dictionary.
func (im *validImpl) parseReal(raw []byte) (*quickfix.Message, string, error) {
	msg := quickfix.NewMessage()
	err := quickfix.ParseMessageWithDataDictionary(msg, bytes.NewBuffer(raw), im.tr, im.app)
	if err != nil {
		return nil, "", err
	}
	return msg, tagsCsv(msg.Header.Tags()) + " " + tagsCsv(msg.Body.Tags()) + " " + tagsCsv(msg.Trailer.Tags()), nil
}

// canonMissing: validateRequiredFieldMap ranges over a Go map, so with several required tags missing from one section the
// reported one is arbitrary.  When the reported tag is a missing required tag of a section, print the smallest missing
// required tag of that section (the model reports the same one).
func (im *validImpl) canonMissing(msg *quickfix.Message, reason, tag int) int {
	if reason != 1 {
		return tag
	}
	mt, _ := msg.Header.GetString(quickfix.Tag(35))
	hdrDD, bodyDD := im.app, im.app
	if im.tr != nil {
		hdrDD = im.tr
		if adminTypes[mt] {
			bodyDD = im.tr
		}
	}
	type sec struct {
		req datadictionary.TagSet
		has func(quickfix.Tag) bool
	}
	var secs []sec
	if hdrDD.Header != nil {
		secs = append(secs, sec{hdrDD.Header.RequiredTags, msg.Header.Has})
	}
	if m, ok := bodyDD.Messages[mt]; ok && m != nil {
		secs = append(secs, sec{m.RequiredTags, msg.Body.Has})
	}
	if hdrDD.Trailer != nil {
		secs = append(secs, sec{hdrDD.Trailer.RequiredTags, msg.Trailer.Has})
	}
	for _, s := range secs {
		min, found := -1, false
		for t := range s.req {
			if !s.has(quickfix.Tag(t)) {
				if t == tag {
					found = true
				}
				if min < 0 || t < min {
					min = t
				}
			}
		}
		if found {
			return min
		}
		if min >= 0 {
			return tag // an earlier section has missing tags but another was reported: leave it
		}
	}
	return tag
}

func (im *validImpl) exec(op string) string {
	w := strings.Fields(op)
	return guard(func() string {
		switch w[0] {
		case "ddict":
			f, err := loadShipped(w[2])
			if err != nil {
				return classifyDictErr(err)
			}
			if f.ser != strings.Join(w[3:], " ") {
				return "stale-op"
			}
			if w[1] == "app" {
				im.app = f.dd
			} else {
				im.tr = f.dd
			}
			return "loaded"
		case "v":
			if im.app == nil {
				return "nodict"
			}
			raw := unhx(w[5])
			msg, sect, err := im.parseReal(raw)
			if err != nil {
				return "parse-error"
			}
			if sect != strings.Join(w[6:9], " ") {
				return "stale-op"
			}
			v := quickfix.NewValidator(settingsOf(w[1]), im.app, im.tr)
			rej := v.Validate(msg)
			if rej == nil {
				return "accept"
			}
			ref := "-"
			if rej.RefTagID() != nil {
				ref = strconv.Itoa(im.canonMissing(msg, rej.RejectReason(), int(*rej.RefTagID())))
			}
			return fmt.Sprintf("reject %d %s", rej.RejectReason(), ref)
		}
		panic("bad op " + w[0])
	})
}

// ---------------------------------------------------------------- instance generator

type wfield struct {
	tag     int
	val     string
	depth   int  // 0 = top level of its section
	role    byte // 'p' plain, 'c' group counter, 'd' delimiter (first field of an entry)
	ctxReq  bool // required in its context: own flag and every enclosing component since the section / entry start
	ft      *datadictionary.FieldType
	entry   int  // running number of the innermost entry (to find neighbours of the same entry)
	counter bool // NumInGroup field of a group
}

type unit struct {
	sec    byte // 'h', 'b', 't'
	fields []wfield
	topReq bool // the unit's first tag is in RequiredTags of its section
}

type instGen struct {
	r        *rng
	p        int // inclusion probability of optional members, percent
	multi    bool
	entrySeq int
	typesDD  *datadictionary.DataDictionary
}

const alnum = "ABCDEFGHIJKLMNOPQRSTUVWXYZabcdefghijklmnopqrstuvwxyz0123456789"

func (g *instGen) str(lo, hi int) string {
	n := g.r.rangeInt(lo, hi)
	b := make([]byte, n)
	for i := range b {
		b[i] = alnum[g.r.intn(len(alnum))]
	}
	return string(b)
}

func sortedEnums(ft *datadictionary.FieldType) []string {
	es := make([]string, 0, len(ft.Enums))
	for k := range ft.Enums {
		es = append(es, k)
	}
	sort.Strings(es)
	return es
}

func protoOf(typ string) string {
	switch typ {
	case "BOOLEAN":
		return "bool"
	case "LENGTH", "DAYOFMONTH", "NUMINGROUP", "SEQNUM", "INT":
		return "int"
	case "UTCTIMESTAMP", "TIME":
		return "ts"
	case "QTY", "QUANTITY", "AMT", "PRICE", "PRICEOFFSET", "PERCENTAGE", "FLOAT":
		return "float"
	}
	return "string"
}

func isMultiType(typ string) bool {
	return typ == "MULTIPLESTRINGVALUE" || typ == "MULTIPLEVALUESTRING" || typ == "MULTIPLECHARVALUE"
}

func (g *instGen) value(ft *datadictionary.FieldType) string {
	if len(ft.Enums) > 0 {
		es := sortedEnums(ft)
		if isMultiType(ft.Type) && g.multi && len(es) >= 2 {
			// several declared values, space separated: what the FIX type means (D13 probe)
			i := g.r.intn(len(es))
			j := (i + 1 + g.r.intn(len(es)-1)) % len(es)
			if !strings.Contains(es[i], " ") && !strings.Contains(es[j], " ") {
				return es[i] + " " + es[j]
			}
		}
		return g.r.pick(es)
	}
	switch protoOf(ft.Type) {
	case "bool":
		return g.r.pick([]string{"Y", "N"})
	case "int":
		v := strconv.Itoa(g.r.intn(2000))
		if ft.Type == "INT" && g.r.chance(1, 8) {
			v = "-" + v
		}
		return v
	case "ts":
		s := fmt.Sprintf("20%02d%02d%02d-%02d:%02d:%02d", g.r.intn(100), g.r.rangeInt(1, 12), g.r.rangeInt(1, 28), g.r.intn(24), g.r.intn(60), g.r.intn(60))
		if g.r.chance(1, 2) {
			s += fmt.Sprintf(".%03d", g.r.intn(1000))
		}
		return s
	case "float":
		s := strconv.Itoa(g.r.intn(10000))
		if g.r.chance(1, 2) {
			s += "." + strconv.Itoa(g.r.intn(1000))
		}
		if g.r.chance(1, 8) {
			s = "-" + s
		}
		return s
	}
	switch ft.Type {
	case "CHAR":
		return g.str(1, 1)
	case "CURRENCY":
		return g.r.pick([]string{"USD", "EUR", "JPY"})
	case "COUNTRY":
		return g.r.pick([]string{"US", "DE", "JP"})
	case "EXCHANGE":
		return g.r.pick([]string{"XNYS", "XLON", "N"})
	case "MONTHYEAR":
		return g.r.pick([]string{"202401", "20240315", "202406w2"})
	case "LOCALMKTDATE", "DATE", "UTCDATE", "UTCDATEONLY":
		return fmt.Sprintf("20%02d%02d%02d", g.r.intn(100), g.r.rangeInt(1, 12), g.r.rangeInt(1, 28))
	case "UTCTIMEONLY":
		return fmt.Sprintf("%02d:%02d:%02d", g.r.intn(24), g.r.intn(60), g.r.intn(60))
	case "TZTIMEONLY":
		return fmt.Sprintf("%02d:%02dZ", g.r.intn(24), g.r.intn(60))
	case "TZTIMESTAMP":
		return fmt.Sprintf("20240102-%02d:%02d:%02dZ", g.r.intn(24), g.r.intn(60), g.r.intn(60))
	}
	return g.str(1, 6)
}

var skipTags = map[int]bool{8: true, 9: true, 35: true, 10: true, 212: true, 213: true}

// walk appends the wire fields of `parts` (declaration order) to *out.
func (g *instGen) walk(parts []datadictionary.MessagePart, depth int, ctxReq bool, force *bool, entry int, out *[]wfield, top bool) {
	for _, part := range parts {
		switch p := part.(type) {
		case *datadictionary.FieldDef:
			if top && skipTags[p.Tag()] {
				continue
			}
			if !(p.Required() || *force || g.r.chance(g.p, 100)) {
				continue
			}
			role := byte('p')
			if *force {
				role = 'd'
			}
			*force = false
			if len(p.Fields) > 0 {
				n := g.r.rangeInt(1, 3)
				if !p.Required() && g.r.chance(1, 10) {
					n = 0
				}
				if len(p.Enums) > 0 { // an enumerated counter (NoSides): the count must be a declared value
					var ok []int
					for _, e := range sortedEnums(p.FieldType) {
						if v, err := strconv.Atoi(e); err == nil && v >= 0 && v <= 3 {
							ok = append(ok, v)
						}
					}
					if len(ok) > 0 {
						n = ok[g.r.intn(len(ok))]
					}
				}
				if role == 'p' {
					role = 'c'
				}
				*out = append(*out, wfield{tag: p.Tag(), val: strconv.Itoa(n), depth: depth, role: role, ctxReq: ctxReq && p.Required(), ft: p.FieldType, entry: entry, counter: true})
				for e := 0; e < n; e++ {
					g.entrySeq++
					f := true
					g.walk(p.Parts, depth+1, true, &f, g.entrySeq, out, false)
				}
			} else {
				*out = append(*out, wfield{tag: p.Tag(), val: g.value(p.FieldType), depth: depth, role: role, ctxReq: ctxReq && p.Required(), ft: p.FieldType, entry: entry})
			}
		case datadictionary.Component:
			if !(p.Required() || *force || g.r.chance(g.p, 100)) {
				continue
			}
			g.walk(p.Parts(), depth, ctxReq && p.Required(), force, entry, out, top)
		default:
			panic("unknown part")
		}
	}
}

// units splits a top-level walk into units: a plain field, or a group counter with everything nested under it.
func toUnits(sec byte, fs []wfield, req datadictionary.TagSet) []unit {
	var us []unit
	for _, f := range fs {
		if f.depth == 0 {
			_, rq := req[f.tag]
			us = append(us, unit{sec: sec, fields: []wfield{f}, topReq: rq})
		} else {
			us[len(us)-1].fields = append(us[len(us)-1].fields, f)
		}
	}
	return us
}

type instance struct {
	beginString, msgType string
	hdr, body, trl       []unit
}

func (in *instance) wire() []byte {
	var body bytes.Buffer
	fmt.Fprintf(&body, "35=%s\x01", in.msgType)
	for _, us := range [][]unit{in.hdr, in.body, in.trl} {
		for _, u := range us {
			for _, f := range u.fields {
				fmt.Fprintf(&body, "%d=%s\x01", f.tag, f.val)
			}
		}
	}
	var b bytes.Buffer
	fmt.Fprintf(&b, "8=%s\x019=%d\x01", in.beginString, body.Len())
	b.Write(body.Bytes())
	sum := 0
	for _, c := range b.Bytes() {
		sum += int(c)
	}
	fmt.Fprintf(&b, "10=%03d\x01", sum%256)
	return b.Bytes()
}

type vConfig struct {
	name        string
	app, tr     string
	beginString string
}

var vConfigs = []vConfig{
	{"FIX40", "FIX40", "", "FIX.4.0"}, {"FIX41", "FIX41", "", "FIX.4.1"}, {"FIX42", "FIX42", "", "FIX.4.2"},
	{"FIX43", "FIX43", "", "FIX.4.3"}, {"FIX44", "FIX44", "", "FIX.4.4"},
	{"FIX50", "FIX50", "FIXT11", "FIXT.1.1"}, {"FIX50SP1", "FIX50SP1", "FIXT11", "FIXT.1.1"}, {"FIX50SP2", "FIX50SP2", "FIXT11", "FIXT.1.1"},
}

var adminTypes = map[string]bool{"0": true, "A": true, "1": true, "2": true, "3": true, "4": true, "5": true}

func (g *instGen) conforming(cfg vConfig, app, tr *datadictionary.DataDictionary, msgType string) *instance {
	in := &instance{beginString: cfg.beginString, msgType: msgType}
	hdrDD, bodyDD := app, app
	if tr != nil {
		hdrDD = tr
		if adminTypes[msgType] {
			bodyDD = tr
		}
	}
	f := false
	var hs, bs, ts []wfield
	g.walk(hdrDD.Header.Parts, 0, true, &f, 0, &hs, true)
	g.walk(bodyDD.Messages[msgType].Parts, 0, true, &f, 0, &bs, true)
	g.walk(hdrDD.Trailer.Parts, 0, true, &f, 0, &ts, true)
	in.hdr = toUnits('h', hs, hdrDD.Header.RequiredTags)
	in.body = toUnits('b', bs, bodyDD.Messages[msgType].RequiredTags)
	in.trl = toUnits('t', ts, hdrDD.Trailer.RequiredTags)
	// FIX does not fix the order of top-level body fields: declaration order, ascending tags, or a permutation of the units
	switch g.r.intn(4) {
	case 0:
		sort.SliceStable(in.body, func(i, j int) bool { return in.body[i].fields[0].tag < in.body[j].fields[0].tag })
	case 1:
		for i := len(in.body) - 1; i > 0; i-- {
			j := g.r.intn(i + 1)
			in.body[i], in.body[j] = in.body[j], in.body[i]
		}
	}
	return in
}

type planted struct {
	kind string
	tag  int
	aux  string
}

var defectKinds = []string{"unknown_msgtype", "required_missing", "not_defined_for_type", "not_in_dictionary", "empty_value",
	"bad_enum", "bad_format", "group_count", "member_order", "section_order", "duplicate_tag", "duplicate_tolerated"}

type fpos struct {
	sec  int // 0 hdr 1 body 2 trl
	u, f int
}

func (in *instance) sections() []*[]unit { return []*[]unit{&in.hdr, &in.body, &in.trl} }

func (in *instance) positions(pred func(u *unit, f *wfield, p fpos) bool) []fpos {
	var ps []fpos
	for si, sp := range in.sections() {
		for ui := range *sp {
			u := &(*sp)[ui]
			for fi := range u.fields {
				p := fpos{si, ui, fi}
				if pred(u, &u.fields[fi], p) {
					ps = append(ps, p)
				}
			}
		}
	}
	return ps
}

func (in *instance) at(p fpos) *wfield { return &(*in.sections()[p.sec])[p.u].fields[p.f] }

// mutate plants one defect of `kind` at a random eligible position; false if the instance has no eligible position.
func (g *instGen) mutate(in *instance, kind string, app, tr *datadictionary.DataDictionary) (planted, bool) {
	r := g.r
	bodyDD := app
	if tr != nil && adminTypes[in.msgType] {
		bodyDD = tr
	}
	hdrDD := app
	if tr != nil {
		hdrDD = tr
	}
	switch kind {
	case "unknown_msgtype":
		for _, cand := range []string{"zz", "ZZZ", "q9", "~"} {
			_, inApp := app.Messages[cand]
			if !inApp && !adminTypes[cand] {
				in.msgType = cand
				return planted{kind, 35, "-"}, true
			}
		}
		return planted{}, false
	case "required_missing":
		ps := in.positions(func(u *unit, f *wfield, p fpos) bool {
			if f.depth == 0 {
				return u.topReq && p.f == 0
			}
			return f.role == 'p' && f.ctxReq && !f.counter
		})
		if len(ps) == 0 {
			return planted{}, false
		}
		p := ps[r.intn(len(ps))]
		f := *in.at(p)
		sp := in.sections()[p.sec]
		if f.depth == 0 {
			*sp = append((*sp)[:p.u:p.u], (*sp)[p.u+1:]...)
			return planted{kind, f.tag, "top"}, true
		}
		u := &(*sp)[p.u]
		u.fields = append(u.fields[:p.f:p.f], u.fields[p.f+1:]...)
		// the removed member was the last field of its entry and another entry of the same group follows
		if p.f < len(u.fields) && u.fields[p.f].role == 'd' && u.fields[p.f].depth == f.depth {
			return planted{kind, f.tag, "grptail"}, true
		}
		return planted{kind, f.tag, "grp"}, true
	case "not_defined_for_type", "not_in_dictionary":
		var tag int
		var val string
		if kind == "not_in_dictionary" {
			tag = []int{4990, 4999, 5000, 5001, 9001, 20000}[r.intn(6)]
			for {
				_, a := bodyDD.FieldTypeByTag[tag]
				_, b := hdrDD.FieldTypeByTag[tag]
				if !a && !b {
					break
				}
				tag++
			}
			val = g.str(1, 4)
		} else {
			var cands []int
			for t, ft := range bodyDD.FieldTypeByTag {
				_, inMsg := bodyDD.Messages[in.msgTypeDef(bodyDD)].Tags[t]
				_, inH := hdrDD.Header.Tags[t]
				_, inT := hdrDD.Trailer.Tags[t]
				if inMsg || inH || inT || quickfix.Tag(t).IsHeader() || quickfix.Tag(t).IsTrailer() || ft.Type == "NUMINGROUP" || isMultiType(ft.Type) {
					continue
				}
				cands = append(cands, t)
			}
			if len(cands) == 0 {
				return planted{}, false
			}
			sort.Ints(cands)
			tag = cands[r.intn(len(cands))]
			val = g.value(bodyDD.FieldTypeByTag[tag])
		}
		nu := unit{sec: 'b', fields: []wfield{{tag: tag, val: val, role: 'p'}}}
		i := r.intn(len(in.body) + 1)
		in.body = append(in.body[:i:i], append([]unit{nu}, in.body[i:]...)...)
		return planted{kind, tag, "-"}, true
	case "empty_value":
		ps := in.positions(func(u *unit, f *wfield, p fpos) bool { return true })
		if len(ps) == 0 {
			return planted{}, false
		}
		f := in.at(ps[r.intn(len(ps))])
		f.val = ""
		return planted{kind, f.tag, "-"}, true
	case "bad_enum":
		ps := in.positions(func(u *unit, f *wfield, p fpos) bool {
			return f.ft != nil && len(f.ft.Enums) > 0 && f.tag != 35 && !f.counter
		})
		if len(ps) == 0 {
			return planted{}, false
		}
		f := in.at(ps[r.intn(len(ps))])
		if mps := in.positions(func(u *unit, f *wfield, p fpos) bool {
			return f.ft != nil && len(f.ft.Enums) > 0 && isMultiType(f.ft.Type)
		}); len(mps) > 0 && r.chance(1, 2) {
			f = in.at(mps[r.intn(len(mps))])
		}
		for _, cand := range []string{"~~", "~", "#9"} {
			if _, ok := f.ft.Enums[cand]; !ok {
				if isMultiType(f.ft.Type) && r.chance(2, 3) {
					// a multiple-value field: one declared token and one undeclared token
					es := sortedEnums(f.ft)
					d := es[r.intn(len(es))]
					if strings.Contains(d, " ") {
						d = cand
					}
					if r.chance(1, 2) {
						f.val = d + " " + cand
					} else {
						f.val = cand + " " + d
					}
					return planted{kind, f.tag, "multi"}, true
				}
				f.val = cand
				return planted{kind, f.tag, "-"}, true
			}
		}
		return planted{}, false
	case "bad_format":
		ps := in.positions(func(u *unit, f *wfield, p fpos) bool {
			return f.ft != nil && len(f.ft.Enums) == 0 && protoOf(f.ft.Type) != "string"
		})
		if len(ps) == 0 {
			return planted{}, false
		}
		f := in.at(ps[r.intn(len(ps))])
		f.val = r.pick([]string{"x-", "1x", "--", "2024"}[:3+map[bool]int{true: 1, false: 0}[protoOf(f.ft.Type) == "ts" || protoOf(f.ft.Type) == "bool"]])
		return planted{kind, f.tag, protoOf(f.ft.Type)}, true
	case "group_count":
		ps := in.positions(func(u *unit, f *wfield, p fpos) bool { return f.counter && len(f.ft.Enums) == 0 })
		if len(ps) == 0 {
			return planted{}, false
		}
		f := in.at(ps[r.intn(len(ps))])
		n, _ := strconv.Atoi(f.val)
		if n > 0 && r.chance(1, 2) {
			f.val = strconv.Itoa(n - 1)
		} else {
			f.val = strconv.Itoa(n + 1 + r.intn(2))
		}
		return planted{kind, f.tag, "-"}, true
	case "member_order":
		// two neighbouring plain members of the same entry, neither the delimiter
		ps := in.positions(func(u *unit, f *wfield, p fpos) bool {
			if f.depth == 0 || f.role != 'p' || f.counter || p.f+1 >= len(u.fields) {
				return false
			}
			n := u.fields[p.f+1]
			return n.role == 'p' && !n.counter && n.entry == f.entry && n.depth == f.depth && n.tag != f.tag
		})
		if len(ps) == 0 {
			return planted{}, false
		}
		p := ps[r.intn(len(ps))]
		u := &(*in.sections()[p.sec])[p.u]
		u.fields[p.f], u.fields[p.f+1] = u.fields[p.f+1], u.fields[p.f]
		return planted{kind, u.fields[p.f].tag, strconv.Itoa(u.fields[p.f+1].tag)}, true
	case "section_order":
		if len(in.body) == 0 {
			return planted{}, false
		}
		if len(in.trl) > 0 && r.chance(1, 2) {
			// a body field behind a trailer field (the trailer of the instance carries 93/89)
			var bs []int
			for i, u := range in.body {
				if len(u.fields) == 1 && u.fields[0].role == 'p' && !u.fields[0].counter {
					bs = append(bs, i)
				}
			}
			if len(bs) > 0 {
				i := bs[r.intn(len(bs))]
				u := in.body[i]
				in.body = append(in.body[:i:i], in.body[i+1:]...)
				j := 1 + r.intn(len(in.trl))
				in.trl = append(in.trl[:j:j], append([]unit{u}, in.trl[j:]...)...)
				return planted{kind, u.fields[0].tag, "behind-trailer"}, true
			}
		}
		var hs []int
		for i, u := range in.hdr {
			if len(u.fields) == 1 && !u.fields[0].counter && quickfix.Tag(u.fields[0].tag).IsHeader() {
				hs = append(hs, i)
			}
		}
		if len(hs) == 0 {
			return planted{}, false
		}
		i := hs[r.intn(len(hs))]
		u := in.hdr[i]
		in.hdr = append(in.hdr[:i:i], in.hdr[i+1:]...)
		j := 1 + r.intn(len(in.body))
		in.body = append(in.body[:j:j], append([]unit{u}, in.body[j:]...)...)
		return planted{kind, u.fields[0].tag, "-"}, true
	case "duplicate_tolerated":
		// a tag the settings tolerate (unknown to the dictionary, or user-defined) appearing twice: still a duplicate
		tag := []int{4990, 4999, 5000, 5001, 9001, 20000}[r.intn(6)]
		for {
			_, a := bodyDD.FieldTypeByTag[tag]
			_, b := hdrDD.FieldTypeByTag[tag]
			if !a && !b {
				break
			}
			tag++
		}
		for k := 0; k < 2; k++ {
			nu := unit{sec: 'b', fields: []wfield{{tag: tag, val: g.str(1, 4), role: 'p'}}}
			i := r.intn(len(in.body) + 1)
			in.body = append(in.body[:i:i], append([]unit{nu}, in.body[i:]...)...)
		}
		return planted{"duplicate_tag", tag, "tolerated"}, true
	case "duplicate_tag":
		var cs []fpos
		for si, sp := range in.sections()[:2] {
			for ui, u := range *sp {
				if len(u.fields) == 1 && u.fields[0].role == 'p' && !u.fields[0].counter {
					cs = append(cs, fpos{si, ui, 0})
				}
			}
		}
		if len(cs) == 0 {
			return planted{}, false
		}
		p := cs[r.intn(len(cs))]
		sp := in.sections()[p.sec]
		u := (*sp)[p.u]
		cp := unit{sec: u.sec, fields: []wfield{u.fields[0]}}
		*sp = append((*sp)[:p.u+1:p.u+1], append([]unit{cp}, (*sp)[p.u+1:]...)...)
		return planted{kind, u.fields[0].tag, "-"}, true
	}
	return planted{}, false
}

func (in *instance) msgTypeDef(dd *datadictionary.DataDictionary) string { return in.msgType }

var defaultBits = "11011"

func genValid(r *rng, tier string, idx int, o *out, do func(string) string) string {
	cfg := vConfigs[idx%len(vConfigs)]
	do("!label " + cfg.name)
	appF, err := loadShipped(cfg.app)
	if err != nil {
		panic(err)
	}
	o.sampleEach = 1 << 30
	do("ddict app " + cfg.app + " " + appF.ser)
	var trDD *datadictionary.DataDictionary
	if cfg.tr != "" {
		trF, err := loadShipped(cfg.tr)
		if err != nil {
			panic(err)
		}
		do("ddict tr " + cfg.tr + " " + trF.ser)
		trDD = trF.dd
	}
	o.sampleEach = 37
	app := appF.dd
	var mts []string
	for k := range app.Messages {
		if trDD != nil && adminTypes[k] {
			continue
		}
		mts = append(mts, k)
	}
	if trDD != nil {
		for k := range trDD.Messages {
			mts = append(mts, k)
		}
	}
	sort.Strings(mts)
	for i := len(mts) - 1; i > 0; i-- {
		j := r.intn(i + 1)
		mts[i], mts[j] = mts[j], mts[i]
	}
	im := &validImpl{app: app, tr: trDD}
	nMsgs := 250
	if tier == "thorough" {
		nMsgs = 1500
	}
	for k := 0; k < nMsgs; k++ {
		mt := mts[k%len(mts)]
		g := &instGen{r: r, p: []int{10, 50, 90}[r.intn(3)], multi: r.chance(1, 6)}
		in := g.conforming(cfg, app, trDD, mt)
		pl := planted{"conforming", 0, "-"}
		if r.chance(3, 5) {
			kind := defectKinds[r.intn(len(defectKinds))]
			if p2, ok := g.mutate(in, kind, app, trDD); ok {
				pl = p2
			}
		}
		raw := in.wire()
		_, sect, err := im.parseReal(raw)
		if err != nil {
			sect = "- - -"
		}
		tagS := "-"
		if pl.tag != 0 {
			tagS = strconv.Itoa(pl.tag)
		}
		bitsList := []string{defaultBits}
		for len(bitsList) < 3 {
			b := fmt.Sprintf("%05b", r.intn(32))
			bitsList = append(bitsList, b)
		}
		if pl.aux == "tolerated" {
			// only settings under which one copy of the tag is conforming: the duplicate is then the single defect
			bitsList = bitsList[:0]
			for len(bitsList) < 3 {
				b := []byte(fmt.Sprintf("%05b", r.intn(32)))
				b[1] = '1'
				if pl.tag < 5000 {
					b[2] = '1'
				} else {
					b[3] = '0'
				}
				bitsList = append(bitsList, string(b))
			}
		}
		for _, bits := range bitsList {
			res := do(fmt.Sprintf("v %s %s %s %s %s %s", bits, pl.kind, tagS, pl.aux, hx(raw), sect))
			o.kind(pl.kind + "." + strings.Fields(res)[0])
		}
		o.nontrivial(cfg.name + ":" + mt + ":" + pl.kind + ":" + tagS)
	}
	return cfg.name
}

func init() {
	families["valid"] = &family{newImpl: func() impl { return &validImpl{} }, gen: genValid}
}
