package main

// generators of family "codec" (see fam_codec.go for the op syntax):
//   prog  op programs of length 1–40 over header/body/trailer: raw and typed setters, overwrite, remove, clear, set again,
//         group set, plain set over a group tag, copy; observed by build / copybuild / reparse / has / get / tags
//   wire  wire messages from the FIX grammar over arbitrary tags and SOH-free values (incl. 212/213 XMLData), three dictionary
//         modes, every single-field corruption of BodyLength and of the leading 8,9,35 order
//   grp   group templates of depth ≤ 4 with optional members, counts 0–3, six body positions, read back without dictionary
//   dgrp  groups of the shipped dictionaries (seeded sample), read back with the dictionary that defines them
//   junk  malformed input for the panic-freedom clauses (C09): truncations, missing CheckSum, oversized XMLDataLen, random bytes
import (
	"fmt"
	"sort"
	"strconv"
	"strings"

	"github.com/quickfixgo/quickfix"
	"github.com/quickfixgo/quickfix/datadictionary"
)

var hdrPool = []int{8, 35, 49, 56, 34, 52, 43, 97, 122, 115, 128, 50, 57, 369, 1128, 627, 213, 90, 91, 9, 347, 142}
var bodyPool = []int{1, 11, 14, 17, 21, 38, 40, 44, 54, 55, 58, 59, 60, 100, 453, 448, 5000, 20000, 99999, 7, 2, 789}
var trlPool = []int{93, 89, 10}

func randVal(r *rng) []byte {
	n := r.intn(7)
	if r.chance(1, 12) {
		n = 20 + r.intn(40)
	}
	b := make([]byte, n)
	for i := range b {
		switch r.intn(6) {
		case 0:
			b[i] = byte(2 + r.intn(254)) // anything but NUL and SOH
		case 1:
			b[i] = r.pickByte([]byte("=|-0 9"))
		case 2:
			b[i] = byte('0' + r.intn(10))
		default:
			b[i] = byte('A' + r.intn(26))
		}
	}
	if n > 0 && r.chance(1, 30) {
		b[r.intn(n)] = 0
	}
	return b
}

func secTag(r *rng, sec string) int {
	switch sec {
	case "h":
		return hdrPool[r.intn(len(hdrPool))]
	case "t":
		return trlPool[r.intn(len(trlPool))]
	}
	if r.chance(1, 8) {
		for {
			t := 1 + r.intn(100000)
			if !quickfix.Tag(t).IsHeader() && !quickfix.Tag(t).IsTrailer() {
				return t
			}
		}
	}
	return bodyPool[r.intn(len(bodyPool))]
}

func pickSec(r *rng) string {
	switch c := r.intn(10); {
	case c < 4:
		return "h"
	case c < 9:
		return "b"
	}
	return "t"
}

// ------------------------------------------------------------------ random templates / instances

func genTemplate(r *rng, depth int, next *int) []tItem {
	n := 1 + r.intn(4)
	items := make([]tItem, 0, n)
	for i := 0; i < n; i++ {
		t := *next
		*next += 1 + r.intn(3)
		if i > 0 && depth > 1 && r.chance(1, 3) {
			items = append(items, tItem{tag: t, isGroup: true, sub: genTemplate(r, depth-1, next)})
		} else {
			items = append(items, tItem{tag: t})
		}
	}
	return items
}

// genInstance: every entry carries the delimiter; the other members with probability pNum/pDen; setter calls in random order
func genInstance(r *rng, tag int, tmpl []tItem, maxCount int, pNum, pDen int) *gInst {
	g := &gInst{tag: tag, tmpl: tmpl}
	n := r.intn(maxCount + 1)
	for e := 0; e < n; e++ {
		var fl []gFld
		for i, it := range tmpl {
			if i > 0 && !r.chance(pNum, pDen) {
				continue
			}
			if it.isGroup {
				fl = append(fl, gFld{tag: it.tag, grp: genInstance(r, it.tag, it.sub, 2, pNum, pDen)})
			} else {
				fl = append(fl, gFld{tag: it.tag, val: randVal(r)})
				if r.chance(1, 10) { // overwrite inside the entry
					fl = append(fl, gFld{tag: it.tag, val: randVal(r)})
				}
			}
		}
		for i := len(fl) - 1; i > 0; i-- { // shuffle (keeps relative order of same-tag overwrites irrelevant: last wins either way is avoided below)
			j := r.intn(i + 1)
			if fl[i].tag != fl[j].tag {
				fl[i], fl[j] = fl[j], fl[i]
			}
		}
		g.entries = append(g.entries, fl)
	}
	return g
}

func templateTags(tmpl []tItem, acc map[int]bool) {
	for _, it := range tmpl {
		acc[it.tag] = true
		templateTags(it.sub, acc)
	}
}

// ------------------------------------------------------------------ prog

func genProg(r *rng, o *out, do func(string) string) {
	do("!label prog")
	do("new")
	n := 1 + r.intn(40)
	shape := []string{}
	removed := map[string]bool{}
	grpTags := []int{453, 78, 555}
	forked := false
	for i := 0; i < n; i++ {
		sec := pickSec(r)
		tag := secTag(r, sec)
		key := sec + strconv.Itoa(tag)
		switch c := r.intn(100); {
		case c < 30:
			kind := r.pick([]string{"set", "set", "sets", "setf", "setw"})
			do(fmt.Sprintf("%s %s %d %s", kind, sec, tag, hx(randVal(r))))
			if removed[key] {
				shape = append(shape, "rm-set")
				o.kind("prog.remove-then-set")
			}
			shape = append(shape, "set")
		case c < 36:
			do(fmt.Sprintf("seti %s %d %d", sec, tag, int64(r.u64())>>uint(r.intn(64))))
			shape = append(shape, "seti")
		case c < 40:
			do(fmt.Sprintf("setb %s %d %s", sec, tag, yn(r.chance(1, 2))))
			shape = append(shape, "setb")
		case c < 54:
			do(fmt.Sprintf("rm %s %d", sec, tag))
			removed[key] = true
			shape = append(shape, "rm")
		case c < 57:
			do("clear " + sec)
			shape = append(shape, "clear"+sec)
		case c < 66:
			gt := grpTags[r.intn(len(grpTags))]
			next := 600 + r.intn(3)*10
			inst := genInstance(r, gt, genTemplate(r, 2, &next), 3, 2, 3)
			do("setgrp b " + inst.String())
			shape = append(shape, "setgrp")
			o.kind("prog.setgrp")
			if r.chance(1, 3) { // plain setter over the group tag
				do(fmt.Sprintf("seti b %d %d", gt, r.intn(3)))
				shape = append(shape, "set-over-group")
				o.kind("prog.set-over-group")
			}
		case c < 68:
			do("copy")
			shape = append(shape, "copy")
		case c < 70: // a copy kept aside while the source goes on being edited
			do("fork")
			forked = true
			shape = append(shape, "fork")
			o.kind("prog.fork")
		case c < 78:
			do("build")
			shape = append(shape, "build")
		case c < 82:
			do("copybuild")
			shape = append(shape, "copybuild")
			if forked {
				do("sidebuild")
			}
		case c < 90:
			do(fmt.Sprintf("%s %s %d", r.pick([]string{"has", "get", "geti"}), sec, tag))
		case c < 94:
			do("tags " + sec)
		default:
			do(fmt.Sprintf("set %s %d %s", sec, tag, hx(randVal(r))))
			do(fmt.Sprintf("set %s %d %s", sec, tag, hx(randVal(r)))) // immediate overwrite
			shape = append(shape, "set2")
		}
	}
	if r.chance(2, 3) { // make it a plausible message: the three leading fields present
		do("set h 8 " + hx([]byte("FIX.4.2")))
		do("set h 35 " + hx([]byte(r.pick([]string{"D", "8", "0", "AE"}))))
	}
	do("build")
	do("copybuild")
	if forked {
		do("sidebuild")
	}
	res := do("reparse n")
	o.kind("prog.reparse." + strings.Fields(res)[0])
	for k := 0; k < 3; k++ {
		sec := pickSec(r)
		do(fmt.Sprintf("get %s %d", sec, secTag(r, sec)))
	}
	if r.chance(1, 5) { // keep going on the parsed message: setters on views, copy, rebuild
		for k := 0; k < 4; k++ {
			sec := pickSec(r)
			do(fmt.Sprintf("set %s %d %s", sec, secTag(r, sec), hx(randVal(r))))
		}
		do("rebuild")
		do("copy")
		do("build")
	}
	o.nontrivial("prog:" + strings.Join(shape, ","))
}

// ------------------------------------------------------------------ wire

var codecBeginStrings = []string{"FIX.4.0", "FIX.4.1", "FIX.4.2", "FIX.4.3", "FIX.4.4", "FIXT.1.1"}
var appDicts = []string{"FIX40", "FIX41", "FIX42", "FIX43", "FIX44", "FIX50", "FIX50SP1", "FIX50SP2"}

func transportFor(app string) string {
	if strings.HasPrefix(app, "FIX5") {
		return "FIXT11"
	}
	return app
}

func sortedMsgTypes(d *datadictionary.DataDictionary) []string {
	ks := make([]string, 0, len(d.Messages))
	for k := range d.Messages {
		ks = append(ks, k)
	}
	sort.Strings(ks)
	return ks
}

// emitDdefs declares to the model the parts of the dictionaries a parse of `wire` in `mode` can consult.
func emitDdefs(mode string, wire []byte, seen map[string]bool, do func(string) string) {
	p := strings.Split(mode, ":")
	emit := func(l string) {
		if l != "" && !seen[l] {
			seen[l] = true
			do(l)
		}
	}
	app := ""
	switch p[0] {
	case "a":
		app = p[1]
	case "ta":
		emit(ddefT(p[1]))
		app = p[2]
	}
	if app == "" {
		return
	}
	// every value any 35= field of the wire carries (the header lookup of 35 can change while parsing)
	// (the parser reads tags as numbers: `035=` is MsgType too)
	for _, f := range strings.Split(string(wire), "\x01") {
		eq := strings.IndexByte(f, '=')
		if eq <= 0 {
			continue
		}
		if n, err := strconv.Atoi(f[:eq]); err == nil && n == 35 && f[0] != '+' {
			emit(ddefA(app, []byte(f[eq+1:])))
		}
	}
}

// modes: n = no dictionary, a:<app>, ta:<transport>:<app>; a transport id "<T>+c" is a separate instance of <T> that
// additionally defines the custom header tag 10030 and the custom trailer tag 5050 (transport != application dictionary)
func pickMode(r *rng) string {
	app := appDicts[r.intn(len(appDicts))]
	switch r.intn(4) {
	case 0:
		return "n"
	case 1:
		return "a:" + app
	case 2:
		return "ta:" + transportFor(app) + "+c:" + app
	}
	return "ta:" + transportFor(app) + ":" + app
}

func modeCustom(mode string) bool { return strings.Contains(mode, "+c:") }

func modeApp(mode string) string {
	p := strings.Split(mode, ":")
	if p[0] == "a" {
		return p[1]
	}
	if p[0] == "ta" {
		return p[2]
	}
	return ""
}

func genWire(r *rng, o *out, do func(string) string) {
	do("!label wire")
	mode := pickMode(r)
	app := modeApp(mode)
	msgType := r.pick([]string{"D", "8", "0", "A", "AE", "j", "ZZ", "X"})
	var dictTags []int
	if app != "" {
		mts := sortedMsgTypes(dict(app))
		if r.chance(3, 4) {
			msgType = mts[r.intn(len(mts))]
		}
		if mm, ok := dict(app).Messages[msgType]; ok {
			dictTags = sortedKeys(mm.Fields)
		}
	}
	// field list: header part, body part, trailer part
	var hf, bf, tf []kv
	used := map[int]bool{8: true, 9: true, 35: true, 10: true, 212: true, 213: true}
	pick := func(pool []int) (int, bool) {
		t := pool[r.intn(len(pool))]
		if used[t] && !r.chance(1, 15) { // mostly distinct tags, sometimes a duplicate
			return 0, false
		}
		used[t] = true
		return t, true
	}
	for i, n := 0, r.intn(5); i < n; i++ {
		if t, ok := pick(hdrPool); ok && t != 8 && t != 9 && t != 35 && t != 213 {
			hf = append(hf, kv{strconv.Itoa(t), randVal(r)})
		}
	}
	if r.chance(1, 6) { // XMLData with its length; the data may contain SOH
		n := 1 + r.intn(12)
		data := make([]byte, n)
		for i := range data {
			data[i] = r.pickByte([]byte("<a/>=\x01\x01 x"))
		}
		hf = append(hf, kv{"212", []byte(strconv.Itoa(n))}, kv{"213", data})
		o.kind("wire.xml")
	} else if r.chance(1, 8) {
		// XMLDataLen that starts no length-delimited extraction: zero, negative, not a number — the message is an ordinary one
		// (BodyLength is checked as for any other)
		hf = append(hf, kv{"212", []byte(r.pick([]string{"0", "0", "-3", "x", "00"}))})
		if r.chance(1, 2) {
			hf = append(hf, kv{"213", []byte(r.pick([]string{"", "a"}))})
		}
		o.kind("wire.xml-no-extraction")
	}
	for i, n := 0, r.intn(9); i < n; i++ {
		var t int
		var ok bool
		switch {
		case len(dictTags) > 0 && r.chance(1, 2):
			t, ok = pick(dictTags)
		case r.chance(1, 4):
			t, ok = 1+r.intn(60000), true
		default:
			t, ok = pick(bodyPool)
		}
		if ok && !quickfix.Tag(t).IsHeader() && !quickfix.Tag(t).IsTrailer() {
			bf = append(bf, kv{strconv.Itoa(t), randVal(r)})
		}
	}
	if n := len(hf); app != "" && n >= 2 && hf[n-2].tag == "212" && r.chance(1, 2) {
		// XMLData behind a repeating group of the message (the group reader hands the field that ended the group back to
		// the message reader: the length has to be honoured there as well)
		if mm, ok := dict(app).Messages[msgType]; ok {
			var groups []int
			for _, t := range dictTags {
				if fd := mm.Fields[t]; fd != nil && len(fd.Fields) > 0 {
					groups = append(groups, t)
				}
			}
			if len(groups) > 0 {
				gt := groups[r.intn(len(groups))]
				fd := mm.Fields[gt]
				cnt := 1 + r.intn(2)
				bf = append(bf, kv{strconv.Itoa(gt), []byte(strconv.Itoa(cnt))})
				for e := 0; e < cnt; e++ {
					bf = append(bf, kv{strconv.Itoa(fd.Fields[0].Tag()), randVal(r)})
					if len(fd.Fields) > 1 && len(fd.Fields[1].Fields) == 0 && r.chance(1, 2) {
						bf = append(bf, kv{strconv.Itoa(fd.Fields[1].Tag()), randVal(r)})
					}
				}
				bf = append(bf, hf[n-2], hf[n-1])
				hf = hf[:n-2]
				o.kind("wire.xml-behind-group")
			}
		}
	}
	if r.chance(1, 4) {
		tf = append(tf, kv{r.pick([]string{"93", "89"}), randVal(r)})
	}
	if modeCustom(mode) || r.chance(1, 10) { // user-defined transport tags (header / trailer only for a "+c" transport dictionary)
		if r.chance(2, 3) {
			hf = append(hf, kv{strconv.Itoa(customHeaderTag), randVal(r)})
		}
		if r.chance(2, 3) {
			tf = append(tf, kv{strconv.Itoa(customTrailerTag), randVal(r)})
		}
		o.kind("wire.customtags")
	}
	fields := append([]kv{{"35", []byte(msgType)}}, hf...)
	fields = append(fields, bf...)
	fields = append(fields, tf...)
	if r.chance(1, 8) && len(fields) > 2 { // sections out of order: still starts 8,9,35 and ends with 10
		i, j := 1+r.intn(len(fields)-1), 1+r.intn(len(fields)-1)
		if fields[i].tag != "212" && fields[j].tag != "212" && fields[i].tag != "213" && fields[j].tag != "213" {
			fields[i], fields[j] = fields[j], fields[i]
			o.kind("wire.shuffled")
		}
	}
	if r.chance(1, 20) { // leading zero in a tag
		k := r.intn(len(fields))
		if fields[k].tag != "212" && fields[k].tag != "213" {
			fields[k].tag = "0" + fields[k].tag
		}
	}
	wire := wireEncode(codecBeginStrings[r.intn(len(codecBeginStrings))], fields)
	seen := map[string]bool{}
	emitDdefs(mode, wire, seen, do)
	res := do("parse " + mode + " " + hx(wire))
	o.kind("wire.mode." + strings.Split(mode, ":")[0])
	o.kind("wire.valid." + strings.Fields(res)[0])
	o.nontrivial(fmt.Sprintf("wire:%s:%s:%d:%d:%d", mode, msgType, len(hf), len(bf), len(tf)))
	if strings.HasPrefix(res, "ok") {
		do("bytes")
		for k := 0; k < 3 && k < len(fields); k++ {
			f := fields[r.intn(len(fields))]
			t, _ := strconv.Atoi(f.tag)
			do(fmt.Sprintf("%s %s %d", r.pick([]string{"get", "get", "geti", "has"}), r.pick([]string{"h", "b", "b", "t"}), t))
		}
		do("bytes") // still the bytes that were parsed, whatever the reader of the values did with them
		do("rebuild")
	}
	// every single-field corruption of BodyLength and of the leading order
	fs, _ := wireScan(wire)
	join := func(parts ...[]byte) []byte {
		var b []byte
		for _, p := range parts {
			b = append(b, p...)
		}
		return b
	}
	rest := wire[len(fs[0].raw)+len(fs[1].raw)+len(fs[2].raw):]
	bl, _ := strconv.Atoi(string(fs[1].val))
	var variants [][]byte
	for _, v := range []string{strconv.Itoa(bl + 1), strconv.Itoa(bl - 1), strconv.Itoa(bl + 1 + r.intn(500)), "0", "", "-" + strconv.Itoa(bl), "x", strconv.Itoa(bl) + "0", "00" + strconv.Itoa(bl)} {
		variants = append(variants, join(fs[0].raw, []byte("9="+v+"\x01"), fs[2].raw, rest))
	}
	f8, f9, f35 := fs[0].raw, fs[1].raw, fs[2].raw
	variants = append(variants,
		join(f9, f8, f35, rest), join(f8, f35, f9, rest), join(f35, f9, f8, rest), join(f35, f8, f9, rest), join(f9, f35, f8, rest),
		join(f9, f35, rest), join(f8, f35, rest), join(f8, f9, rest), join(f8, f8, f9, f35, rest), join(f8, f9, f9, f35, rest),
		join([]byte("7="+string(fs[0].val)+"\x01"), f9, f35, rest), join(f8, []byte("90="+string(fs[1].val)+"\x01"), f35, rest),
		join(f8, f9, []byte("34="+string(fs[2].val)+"\x01"), rest))
	// a body byte added / dropped without touching BodyLength
	variants = append(variants, join(f8, f9, f35, []byte("58=x\x01"), rest))
	for _, v := range variants {
		emitDdefs(mode, v, seen, do)
		rr := do("parse " + mode + " " + hx(v))
		o.kind("wire.corrupt." + strings.Fields(rr)[0])
	}
}

// ------------------------------------------------------------------ grp (no dictionary)

func genGrp(r *rng, o *out, do func(string) string) {
	do("!label grp")
	do("new")
	do("set h 8 " + hx([]byte("FIX.4.4")))
	do("set h 35 " + hx([]byte("D")))
	do("set h 49 " + hx(randVal(r)))
	gt := 1000 + r.intn(50)
	next := 1100
	tmpl := genTemplate(r, 1+r.intn(4), &next)
	inst := genInstance(r, gt, tmpl, 3, 3, 5)
	// body position: fields with smaller tags come before the group, larger ones after
	pos := r.intn(6)
	var before, after []int
	switch pos {
	case 0: // first, followed by body fields
		after = []int{gt + 2000 + r.intn(5), gt + 3000}
	case 1: // middle
		before, after = []int{1 + r.intn(7), 11 + r.intn(20)}, []int{gt + 2000 + r.intn(100)}
	case 2: // last: the trailer follows
		before = []int{1 + r.intn(7), 55}
	case 3: // the only body field
	case 4: // followed by another group
		before = []int{1 + r.intn(7)}
	case 5: // preceded by another group
		after = []int{gt + 2500}
	}
	for _, t := range append(append([]int{}, before...), after...) {
		do(fmt.Sprintf("set b %d %s", t, hx(randVal(r))))
	}
	var other *gInst
	if pos == 4 || pos == 5 {
		n2 := 1300
		ot := gt + 100
		if pos == 5 {
			ot = gt - 100
		}
		other = genInstance(r, ot, genTemplate(r, 2, &n2), 2, 3, 5)
		do("setgrp b " + other.String())
	}
	if r.chance(1, 4) {
		// the group is set twice: first a LARGER instance of the same template (the second call must replace all of it)
		big := genInstance(r, gt, tmpl, 3, 3, 5)
		for len(big.entries) > 0 && len(big.entries) <= len(inst.entries) {
			big.entries = append(big.entries, big.entries[r.intn(len(big.entries))])
		}
		if len(big.entries) > 0 {
			do("setgrp b " + big.String())
			if r.chance(1, 2) {
				do("build")
			}
			o.kind("grp.set-twice")
		}
	}
	do("setgrp b " + inst.String())
	if r.chance(1, 4) {
		do("set t 93 " + hx([]byte("3")))
	}
	if r.chance(1, 3) {
		// read back from the field map itself, before any build / parse
		do(fmt.Sprintf("getgrp b %d %s", gt, tmplString(tmpl)))
	}
	do("build")
	res := do("reparse n")
	o.kind("grp.reparse." + strings.Fields(res)[0])
	do(fmt.Sprintf("getgrp b %d %s", gt, tmplString(tmpl)))
	if other != nil {
		do(fmt.Sprintf("getgrp b %d %s", other.tag, tmplString(other.tmpl)))
	}
	for _, t := range append(append([]int{}, before...), after...) {
		do(fmt.Sprintf("get b %d", t))
	}
	do("has t 10")
	o.kind(fmt.Sprintf("grp.pos%d", pos))
	o.kind(fmt.Sprintf("grp.count%d", len(inst.entries)))
	o.nontrivial(fmt.Sprintf("grp:%d:%s:%d", pos, tmplString(tmpl), len(inst.entries)))
}

// ------------------------------------------------------------------ dgrp (groups of the shipped dictionaries)

type dgroup struct {
	msgType string
	fd      *datadictionary.FieldDef
}

var dgroupCache = map[string][]dgroup{}

func dictGroups(id string) []dgroup {
	if g, ok := dgroupCache[id]; ok {
		return g
	}
	var gs []dgroup
	d := dict(id)
	for _, mt := range sortedMsgTypes(d) {
		mm := d.Messages[mt]
		for _, k := range sortedKeys(mm.Fields) {
			if len(mm.Fields[k].Fields) > 0 {
				gs = append(gs, dgroup{mt, mm.Fields[k]})
			}
		}
	}
	dgroupCache[id] = gs
	return gs
}

func tmplOfDef(fs []*datadictionary.FieldDef) []tItem {
	var items []tItem
	for _, f := range fs {
		if len(f.Fields) > 0 {
			items = append(items, tItem{tag: f.Tag(), isGroup: true, sub: tmplOfDef(f.Fields)})
		} else {
			items = append(items, tItem{tag: f.Tag()})
		}
	}
	return items
}

// in the thorough tier the groups of all shipped dictionaries are enumerated (every group occurrence of every message,
// cyclically), in the quick tier a seeded sample is drawn
var dgrpCounter int
var dgrpAll []struct {
	app string
	g   dgroup
}

func genDgrp(r *rng, o *out, do func(string) string, tier string) {
	do("!label dgrp")
	app := appDicts[r.intn(len(appDicts))]
	gs := dictGroups(app)
	if len(gs) == 0 { // FIX40 has no groups worth the name: fall back
		app = "FIX44"
		gs = dictGroups(app)
	}
	g := gs[r.intn(len(gs))]
	if tier == "thorough" {
		if dgrpAll == nil {
			for _, a := range appDicts {
				for _, x := range dictGroups(a) {
					dgrpAll = append(dgrpAll, struct {
						app string
						g   dgroup
					}{a, x})
				}
			}
		}
		e := dgrpAll[dgrpCounter%len(dgrpAll)]
		dgrpCounter++
		app, g = e.app, e.g
		o.kind("dgrp.enumerated")
	}
	d := dict(app)
	mm := d.Messages[g.msgType]
	tmpl := tmplOfDef(g.fd.Fields)
	nmem := len(tmpl)
	inst := genInstance(r, g.fd.Tag(), tmpl, 3, 3, nmem+2)
	inTmpl := map[int]bool{}
	templateTags(tmpl, inTmpl)
	do("new")
	bs := map[string]string{"FIX40": "FIX.4.0", "FIX41": "FIX.4.1", "FIX42": "FIX.4.2", "FIX43": "FIX.4.3", "FIX44": "FIX.4.4"}[app]
	if bs == "" {
		bs = "FIXT.1.1"
	}
	do("set h 8 " + hx([]byte(bs)))
	do("set h 35 " + hx([]byte(g.msgType)))
	do("set h 49 " + hx([]byte("S")))
	do("set h 56 " + hx([]byte("T")))
	// other body fields: plain top-level fields of this message (sorted by tag they land before or after the group), or tags unknown to the dictionary
	var others []int
	keys := sortedKeys(mm.Fields)
	for i, n := 0, r.intn(5); i < n; i++ {
		var t int
		if r.chance(3, 4) {
			t = keys[r.intn(len(keys))]
			if len(mm.Fields[t].Fields) > 0 {
				continue
			}
		} else {
			t = 20000 + r.intn(1000)
		}
		if quickfix.Tag(t).IsHeader() || quickfix.Tag(t).IsTrailer() || inTmpl[t] || t == g.fd.Tag() {
			continue
		}
		if _, isH := d.Header.Fields[t]; isH {
			continue
		}
		if _, isT := d.Trailer.Fields[t]; isT {
			continue
		}
		others = append(others, t)
		do(fmt.Sprintf("set b %d %s", t, hx(randVal(r))))
	}
	do("setgrp b " + inst.String())
	mode := dgrpMode(r, app)
	built := do("build")
	seen := map[string]bool{}
	if w := strings.Fields(built); len(w) > 1 && w[0] == "bytes" {
		emitDdefs(mode, unhx(w[1]), seen, do)
	}
	res := do("reparse " + mode)
	o.kind("dgrp.reparse." + strings.Fields(res)[0])
	do(fmt.Sprintf("getgrp b %d %s", g.fd.Tag(), tmplString(tmpl)))
	for _, t := range others {
		do(fmt.Sprintf("get b %d", t))
	}
	do("has t 10")
	do("rebuild")
	if w := strings.Fields(built); len(w) > 1 && w[0] == "bytes" {
		dgrpWireTail(r, o, do, mode, unhx(w[1]), g.fd.Tag(), tmpl, inTmpl, others, seen)
	}
	depth := 1
	var dep func(items []tItem, d int)
	dep = func(items []tItem, dd int) {
		if dd > depth {
			depth = dd
		}
		for _, it := range items {
			if it.isGroup {
				dep(it.sub, dd+1)
			}
		}
	}
	dep(tmpl, 1)
	last := "mid"
	if len(others) == 0 || others[len(others)-1] < g.fd.Tag() {
		last = "last"
	}
	o.kind("dgrp.depth" + strconv.Itoa(depth))
	o.kind("dgrp." + last)
	o.nontrivial(fmt.Sprintf("dgrp:%s:%s:%d:%d:%s", app, g.msgType, g.fd.Tag(), len(inst.entries), last))
}

func dgrpMode(r *rng, app string) string {
	switch r.intn(3) {
	case 0:
		return "a:" + app
	case 1:
		return "ta:" + transportFor(app) + ":" + app
	}
	return "ta:" + transportFor(app) + "+c:" + app
}

// dgrpWireTail: the bytes of a built message that carries the dictionary group `gt` are parsed as a WIRE message (op `parse`,
// so that the parse-side properties see dictionary groups), unchanged and with a header / trailer tag placed directly behind
// the last member of the group: the standard ones (SenderSubID 50, SignatureLength 93) and, for a "+c" transport dictionary,
// the user-defined ones (10030, 5050), which only the TRANSPORT dictionary classifies.
func dgrpWireTail(r *rng, o *out, do func(string) string, mode string, wire []byte, gt int, tmpl []tItem, inTmpl map[int]bool,
	others []int, seen map[string]bool) {
	fs, ok := wireScan(wire)
	if !ok || len(fs) < 4 {
		return
	}
	begin := string(fs[0].val)
	var mid []kv // 35 ... last field before 10
	for _, f := range fs[2 : len(fs)-1] {
		mid = append(mid, kv{f.tag, f.val})
	}
	// the group's field run: count field, then members while the tag belongs to the template
	start, end := -1, -1
	for i, f := range mid {
		if f.tag == strconv.Itoa(gt) && start < 0 {
			start, end = i, i
			for j := i + 1; j < len(mid); j++ {
				t, err := strconv.Atoi(mid[j].tag)
				if err != nil || !inTmpl[t] {
					break
				}
				end = j
			}
		}
	}
	probe := func(v []byte, kind string, extra ...string) {
		emitDdefs(mode, v, seen, do)
		res := do("parse " + mode + " " + hx(v))
		o.kind("dwire." + kind + "." + strings.Fields(res)[0])
		if !strings.HasPrefix(res, "ok") {
			return
		}
		do(fmt.Sprintf("getgrp b %d %s", gt, tmplString(tmpl)))
		for _, t := range others {
			do(fmt.Sprintf("get b %d", t))
		}
		for _, e := range extra {
			do(e)
		}
		do("rebuild")
		do("bytes")
	}
	probe(wire, "asbuilt")
	if start < 0 {
		return
	}
	insertAfterGroup := func(f kv) []byte {
		var fl []kv
		fl = append(fl, mid[:end+1]...)
		fl = append(fl, f)
		fl = append(fl, mid[end+1:]...)
		return wireEncode(begin, fl)
	}
	ht, tt := 50, 93
	probe(insertAfterGroup(kv{strconv.Itoa(ht), randVal(r)}), "hdr-after-group", fmt.Sprintf("get h %d", ht), fmt.Sprintf("has b %d", ht))
	probe(insertAfterGroup(kv{strconv.Itoa(tt), []byte("3")}), "trl-after-group", fmt.Sprintf("get t %d", tt), fmt.Sprintf("has b %d", tt))
	// user-defined transport tags: header/trailer for a "+c" transport dictionary, plain body fields otherwise
	probe(insertAfterGroup(kv{strconv.Itoa(customHeaderTag), randVal(r)}), "customhdr-after-group",
		fmt.Sprintf("get h %d", customHeaderTag), fmt.Sprintf("has b %d", customHeaderTag))
	probe(insertAfterGroup(kv{strconv.Itoa(customTrailerTag), randVal(r)}), "customtrl-after-group",
		fmt.Sprintf("get t %d", customTrailerTag), fmt.Sprintf("has b %d", customTrailerTag))
	if modeCustom(mode) {
		o.kind("dwire.customdict")
	}
}

// ------------------------------------------------------------------ dnest (dictionary groups with nested groups, densely nested)

// genInstanceNest: every entry carries the delimiter; NESTED GROUP members are included with probability 4/5 and are never empty,
// plain members with probability 1/6 — so that nested groups that are siblings in the dictionary come out back to back on the wire
// (FIX44 NewOrderSingle 711: 457[..] directly followed by 887[..]), followed by further entries / members.
func genInstanceNest(r *rng, tag int, tmpl []tItem, minCount, maxCount int) *gInst {
	g := &gInst{tag: tag, tmpl: tmpl}
	n := minCount + r.intn(maxCount-minCount+1)
	for e := 0; e < n; e++ {
		var fl []gFld
		for i, it := range tmpl {
			switch {
			case i == 0 && !it.isGroup:
				fl = append(fl, gFld{tag: it.tag, val: randVal(r)})
			case it.isGroup:
				if i == 0 || r.chance(4, 5) {
					fl = append(fl, gFld{tag: it.tag, grp: genInstanceNest(r, it.tag, it.sub, 1, 2)})
				}
			default:
				if r.chance(1, 6) {
					fl = append(fl, gFld{tag: it.tag, val: randVal(r)})
				}
			}
		}
		for i := len(fl) - 1; i > 0; i-- {
			j := r.intn(i + 1)
			fl[i], fl[j] = fl[j], fl[i]
		}
		g.entries = append(g.entries, fl)
	}
	return g
}

// number of group items at the widest level of the template
func maxSiblingGroups(tmpl []tItem) int {
	n, best := 0, 0
	for _, it := range tmpl {
		if it.isGroup {
			n++
			if m := maxSiblingGroups(it.sub); m > best {
				best = m
			}
		}
	}
	if n > best {
		best = n
	}
	return best
}

type dnestEntry struct {
	app string
	g   dgroup
}

var dnestSib, dnestAny []dnestEntry
var dnestCounter int

func dnestInit() {
	if dnestAny != nil {
		return
	}
	for _, a := range appDicts {
		for _, x := range dictGroups(a) {
			switch k := maxSiblingGroups(tmplOfDef(x.fd.Fields)); {
			case k >= 2:
				dnestSib = append(dnestSib, dnestEntry{a, x})
				dnestAny = append(dnestAny, dnestEntry{a, x})
			case k == 1:
				dnestAny = append(dnestAny, dnestEntry{a, x})
			}
		}
	}
}

func genDnest(r *rng, o *out, do func(string) string, tier string) {
	do("!label dnest")
	dnestInit()
	pool := dnestAny
	if r.chance(2, 3) {
		pool = dnestSib
	}
	e := pool[r.intn(len(pool))]
	if tier == "thorough" { // all of them in turn
		e = dnestAny[dnestCounter%len(dnestAny)]
		dnestCounter++
	}
	app, g := e.app, e.g
	d := dict(app)
	mm := d.Messages[g.msgType]
	tmpl := tmplOfDef(g.fd.Fields)
	inst := genInstanceNest(r, g.fd.Tag(), tmpl, 1, 2)
	inTmpl := map[int]bool{}
	templateTags(tmpl, inTmpl)
	do("new")
	bs := map[string]string{"FIX40": "FIX.4.0", "FIX41": "FIX.4.1", "FIX42": "FIX.4.2", "FIX43": "FIX.4.3", "FIX44": "FIX.4.4"}[app]
	if bs == "" {
		bs = "FIXT.1.1"
	}
	do("set h 8 " + hx([]byte(bs)))
	do("set h 35 " + hx([]byte(g.msgType)))
	do("set h 49 " + hx([]byte("S")))
	var others []int
	keys := sortedKeys(mm.Fields)
	for i, n := 0, r.intn(4); i < n; i++ {
		t := keys[r.intn(len(keys))]
		if r.chance(1, 4) {
			t = 20000 + r.intn(1000)
		} else if len(mm.Fields[t].Fields) > 0 {
			continue
		}
		if quickfix.Tag(t).IsHeader() || quickfix.Tag(t).IsTrailer() || inTmpl[t] || t == g.fd.Tag() {
			continue
		}
		if _, isH := d.Header.Fields[t]; isH {
			continue
		}
		if _, isT := d.Trailer.Fields[t]; isT {
			continue
		}
		others = append(others, t)
		do(fmt.Sprintf("set b %d %s", t, hx(randVal(r))))
	}
	do("setgrp b " + inst.String())
	mode := dgrpMode(r, app)
	built := do("build")
	seen := map[string]bool{}
	w := strings.Fields(built)
	if len(w) > 1 && w[0] == "bytes" {
		emitDdefs(mode, unhx(w[1]), seen, do)
	}
	res := do("reparse " + mode)
	o.kind("dnest.reparse." + strings.Fields(res)[0])
	do(fmt.Sprintf("getgrp b %d %s", g.fd.Tag(), tmplString(tmpl)))
	for _, t := range others {
		do(fmt.Sprintf("get b %d", t))
	}
	do("has t 10")
	do("rebuild")
	if len(w) > 1 && w[0] == "bytes" {
		dgrpWireTail(r, o, do, mode, unhx(w[1]), g.fd.Tag(), tmpl, inTmpl, others, seen)
	}
	o.kind(fmt.Sprintf("dnest.siblings%d", maxSiblingGroups(tmpl)))
	o.nontrivial(fmt.Sprintf("dnest:%s:%s:%d:%d", app, g.msgType, g.fd.Tag(), len(inst.entries)))
}


// ------------------------------------------------------------------ dplain (every plain body field of every message type of the shipped dictionaries)

var dplainCounter int

// genDplain: the message type is taken in turn from the shipped application dictionaries; ALL its plain top-level body
// fields (as the DICTIONARY classifies them — the implementation's own tag tables are not consulted) are set, the message is
// built, parsed back with the dictionaries and as a wire message, and every field must be retrievable from the body.
func genDplain(r *rng, o *out, do func(string) string) {
	do("!label dplain")
	app := appDicts[dplainCounter%len(appDicts)]
	d := dict(app)
	var types []string
	for k := range d.Messages {
		types = append(types, k)
	}
	sort.Strings(types)
	mt := types[(dplainCounter/len(appDicts))%len(types)]
	dplainCounter++
	mm := d.Messages[mt]
	var tags []int
	for _, t := range sortedKeys(mm.Fields) {
		if len(mm.Fields[t].Fields) > 0 {
			continue
		}
		if _, isH := d.Header.Fields[t]; isH {
			continue
		}
		if _, isT := d.Trailer.Fields[t]; isT {
			continue
		}
		if t == 212 || t == 213 {
			continue // XMLData: a length-prefixed pair, exercised by the wire generator
		}
		tags = append(tags, t)
	}
	for len(tags) > 40 {
		i := r.intn(len(tags))
		tags = append(tags[:i:i], tags[i+1:]...)
	}
	do("new")
	bs := map[string]string{"FIX40": "FIX.4.0", "FIX41": "FIX.4.1", "FIX42": "FIX.4.2", "FIX43": "FIX.4.3", "FIX44": "FIX.4.4"}[app]
	if bs == "" {
		bs = "FIXT.1.1"
	}
	do("set h 8 " + hx([]byte(bs)))
	do("set h 35 " + hx([]byte(mt)))
	do("set h 49 " + hx([]byte("S")))
	do("set h 56 " + hx([]byte("T")))
	for _, t := range tags {
		do(fmt.Sprintf("set b %d %s", t, hx(randVal(r))))
	}
	mode := dgrpMode(r, app)
	built := do("build")
	seen := map[string]bool{}
	w := strings.Fields(built)
	if len(w) > 1 && w[0] == "bytes" {
		emitDdefs(mode, unhx(w[1]), seen, do)
	}
	res := do("reparse " + mode)
	o.kind("dplain.reparse." + strings.Fields(res)[0])
	for _, t := range tags {
		do(fmt.Sprintf("get b %d", t))
	}
	do("tags h")
	do("rebuild")
	if len(w) > 1 && w[0] == "bytes" {
		res := do("parse " + mode + " " + hx(unhx(w[1])))
		if strings.HasPrefix(res, "ok") {
			for _, t := range tags {
				do(fmt.Sprintf("get b %d", t))
			}
			do("rebuild")
		}
	}
	o.nontrivial(fmt.Sprintf("dplain:%s:%s:%d", app, mt, len(tags)))
}

// ------------------------------------------------------------------ junk (C09)

func genJunk(r *rng, o *out, do func(string) string) {
	do("!label junk")
	base := wireEncode("FIX.4.2", []kv{{"35", []byte("D")}, {"49", []byte("A")}, {"56", []byte("B")}, {"11", randVal(r)}, {"55", []byte("X")}})
	mode := "n"
	if r.chance(1, 3) {
		mode = "a:FIX42"
	}
	seen := map[string]bool{}
	try := func(b []byte, kind string) {
		emitDdefs(mode, b, seen, do)
		res := do("parse " + mode + " " + hx(b))
		o.kind("junk." + kind + "." + strings.Fields(res)[0])
		o.nontrivial("junk:" + kind + ":" + strconv.Itoa(len(b)))
		if strings.HasPrefix(res, "ok") {
			do("geti h 9")
			do("geti h 34")
			do("get b 11")
		}
	}
	for k := 0; k < 4; k++ { // truncation
		try(base[:r.intn(len(base))], "trunc")
	}
	fs, _ := wireScan(base)
	var noCk []byte
	for _, f := range fs[:len(fs)-1] {
		noCk = append(noCk, f.raw...)
	}
	try(noCk, "nochecksum")
	try([]byte("8=FIX.4.2\x01"), "only8")
	try([]byte("8=FIX.4.2\x019=5\x01"), "only89")
	try([]byte("8=FIX.4.2\x019=5\x0135=D\x01"), "only8935")
	try(append(append([]byte{}, noCk...), []byte("453=2\x01448=a\x01")...), "nochecksum-group")
	{ // the witness of C11_faithful_full_false on the real parser: well-formed for a scanner that compares tag TEXTS, but `010` reads as CheckSum
		lw := wireEncode("F", []kv{{"35", []byte("D")}, {"010", []byte("x")}})
		for _, lm := range []string{"n", "a:FIX42"} {
			emitDdefs(lm, lw, seen, do)
			res := do("parse " + lm + " " + hx(lw))
			o.kind("junk.leadzero-checksum." + strings.Fields(res)[0])
		}
		for _, tg := range []string{"09", "08", "0212"} { // and the other numeric aliases
			aw := wireEncode("FIX.4.2", []kv{{"35", []byte("D")}, {tg, []byte("5")}, {"55", []byte("X")}})
			res := do("parse n " + hx(aw))
			o.kind("junk.leadzero-" + tg + "." + strings.Fields(res)[0])
		}
	}
	{ // the witness of C11_checksum_member_swallowed on the real parser: a dictionary whose group 453 lists CheckSum
		tmode := "a:@TEN"
		tw := wireEncode("FIX.4.2", []kv{{"35", []byte("D")}, {"453", []byte("1")}, {"448", []byte("a")}})
		emitDdefs(tmode, tw, seen, do)
		res := do("parse " + tmode + " " + hx(tw))
		o.kind("junk.checksum-member." + strings.Fields(res)[0])
		if strings.HasPrefix(res, "ok") { // CheckSum swallowed by the group: not in the trailer
			do("has t 10")
			do("has b 453")
			do("bytes")
		}
	}
	// XMLDataLen beyond the message
	for _, n := range []string{"9999", "9223372036854775807", "3", "1", "0", "-4", "", "x"} {
		try(wireEncode("FIX.4.2", []kv{{"35", []byte("D")}, {"212", []byte(n)}, {"213", []byte("<a/>")}, {"55", []byte("X")}}), "xmllen")
	}
	try(wireEncode("FIX.4.2", []kv{{"35", []byte("D")}, {"212", []byte("5")}}), "xmllen-last")
	// empty / odd fields
	try(wireEncode("FIX.4.2", []kv{{"35", []byte("D")}, {"", []byte("v")}}), "notag")
	try(wireEncode("FIX.4.2", []kv{{"35", []byte("D")}, {"5x", []byte("v")}}), "badtag")
	try(wireEncode("FIX.4.2", []kv{{"35", []byte("D")}, {"-7", []byte("v")}}), "negtag")
	try([]byte("8=FIX.4.2\x019=\x0135=D\x0110=000\x01"), "emptylen")
	try([]byte("8\x019\x0135\x0110\x01"), "noeq")
	try([]byte("=\x01=\x01=\x01"), "onlyeq")
	for k := 0; k < 6; k++ { // random bytes and random mutations of a valid message
		n := r.intn(40)
		b := make([]byte, n)
		for i := range b {
			b[i] = r.pickByte([]byte("0123456789=\x01\x01=8935AX-"))
		}
		try(b, "random")
		m := append([]byte{}, base...)
		for j := 0; j < 1+r.intn(3); j++ {
			switch r.intn(3) {
			case 0:
				m[r.intn(len(m))] = r.pickByte([]byte("=\x0119 0"))
			case 1:
				p := r.intn(len(m))
				m = append(m[:p], m[p+1:]...)
			default:
				p := r.intn(len(m))
				m = append(m[:p], append([]byte{r.pickByte([]byte("=\x0110"))}, m[p:]...)...)
			}
		}
		try(m, "mutated")
	}
}

func genCodec(r *rng, tier string, idx int, o *out, do func(string) string) string {
	if idx == 0 {
		do("!label static")
		do("static")
		return ""
	}
	switch idx % 10 {
	case 0, 1, 2:
		genProg(r, o, do)
	case 3:
		genDnest(r, o, do, tier)
	case 4, 5:
		genWire(r, o, do)
	case 6:
		genGrp(r, o, do)
	case 7:
		if idx%20 == 7 {
			genGrp(r, o, do)
		} else {
			genDplain(r, o, do)
		}
	case 8:
		genDgrp(r, o, do, tier)
	default:
		if idx%20 == 9 {
			genJunk(r, o, do)
		} else {
			genDnest(r, o, do, tier)
		}
	}
	return ""
}
