package main

// family "conc" (C02): the REAL thing under concurrency.  One case = one stress round:
//   * a session built by the real factory and run by its own session.run() goroutine (verif_export_conc.go),
//   * N application goroutines calling Send (= SendToTarget once the session is found) concurrently,
//   * a scripted peer on the connection channels: logs on, injects TestRequests / Heartbeats / ResendRequests
//     at pseudo-random points, reads everything the session writes, logs out,
//   * the message store (memory or file) wrapped by a goroutine-safe logging store.
// Op:   srcfacts   (first case only)  =>  facts <function:storeMethod …>   direct outbound store mutations in the source
// Op:   round store=mem|file persist=0|1 senders=N per=K early=0|1 reset=0|1|2 rr=R tr=T hb=H outcap=C init=0|1 op=0|1|2 seed=S
// Obs:  ok <finalSender> <storedRanges|-> <accepted> <live> <event tokens…>   (or  stalled <stage> | panic | crashed)
//   tokens (one total order: store events under the store wrapper's lock, wire events as the peer reads them):
//     a<n>.<snew>.<0|1>  number n handed out, store's next number afterwards, message saved or only counted
//     R                  store.Reset()
//     w<n>f              first-time message n read from the connection
//     w<n>d<r>           PossDup=Y message n (r = index of the ResendRequest answer it belongs to, 0 = none)
//     L / U              begin / end of the answer to a ResendRequest (before its first, after its last PossDup message)
//     X                  something that is not a FIX message was read from the connection
// The verdict (Lean monitor `conc-mon` = MonitorC02 + final store + liveness) is a function of the line.
// Schedules are sampled, not replayed: replaying the op re-runs a round with the same parameters and PRNG.
import (
	"bufio"
	"bytes"
	"fmt"
	"go/ast"
	"go/parser"
	"go/token"
	"os"
	"os/exec"
	"path/filepath"
	"runtime"
	"sort"
	"strconv"
	"strings"
	"sync"
	"sync/atomic"
	"time"

	"github.com/quickfixgo/quickfix"
	"github.com/quickfixgo/quickfix/config"
	"github.com/quickfixgo/quickfix/store/file"
)

// ---------------------------------------------------------------- event log + goroutine-safe logging store

type evLog struct {
	mu   sync.Mutex
	toks []string
}

func (l *evLog) add(t string) {
	l.mu.Lock()
	l.toks = append(l.toks, t)
	l.mu.Unlock()
}

// concStore serialises every store call (so that a mutated, unlocked engine cannot crash the Go runtime on the
// memory store's map) and records the outbound-side mutations in the order they really happen.  The window the
// property is about — between NextSenderMsgSeqNum() and the save — stays open: those are two separate calls.
type concStore struct {
	inner quickfix.MessageStore
	mu    sync.Mutex
	log   *evLog
}

func (s *concStore) NextSenderMsgSeqNum() int {
	s.mu.Lock()
	defer s.mu.Unlock()
	return s.inner.NextSenderMsgSeqNum()
}
func (s *concStore) NextTargetMsgSeqNum() int {
	s.mu.Lock()
	defer s.mu.Unlock()
	return s.inner.NextTargetMsgSeqNum()
}
func (s *concStore) IncrNextSenderMsgSeqNum() error {
	s.mu.Lock()
	defer s.mu.Unlock()
	n := s.inner.NextSenderMsgSeqNum()
	err := s.inner.IncrNextSenderMsgSeqNum()
	s.log.add(fmt.Sprintf("a%d.%d.0", n, s.inner.NextSenderMsgSeqNum()))
	return err
}
func (s *concStore) IncrNextTargetMsgSeqNum() error {
	s.mu.Lock()
	defer s.mu.Unlock()
	return s.inner.IncrNextTargetMsgSeqNum()
}
func (s *concStore) SetNextSenderMsgSeqNum(n int) error {
	s.mu.Lock()
	defer s.mu.Unlock()
	s.log.add(fmt.Sprintf("S%d", n))
	return s.inner.SetNextSenderMsgSeqNum(n)
}
func (s *concStore) SetNextTargetMsgSeqNum(n int) error {
	s.mu.Lock()
	defer s.mu.Unlock()
	return s.inner.SetNextTargetMsgSeqNum(n)
}
func (s *concStore) CreationTime() time.Time {
	s.mu.Lock()
	defer s.mu.Unlock()
	return s.inner.CreationTime()
}
func (s *concStore) SetCreationTime(t time.Time) {
	s.mu.Lock()
	defer s.mu.Unlock()
	s.inner.SetCreationTime(t)
}
func (s *concStore) SaveMessage(seq int, msg []byte) error {
	s.mu.Lock()
	defer s.mu.Unlock()
	return s.inner.SaveMessage(seq, msg)
}
func (s *concStore) SaveMessageAndIncrNextSenderMsgSeqNum(seq int, msg []byte) error {
	s.mu.Lock()
	defer s.mu.Unlock()
	err := s.inner.SaveMessageAndIncrNextSenderMsgSeqNum(seq, msg)
	s.log.add(fmt.Sprintf("a%d.%d.1", seq, s.inner.NextSenderMsgSeqNum()))
	return err
}
func (s *concStore) GetMessages(b, e int) ([][]byte, error) {
	s.mu.Lock()
	defer s.mu.Unlock()
	return s.inner.GetMessages(b, e)
}
func (s *concStore) IterateMessages(b, e int, cb func([]byte) error) error {
	// the callback re-enters the engine (EnqueueBytesAndSend), which never calls the store: collect first
	s.mu.Lock()
	msgs, err := s.inner.GetMessages(b, e)
	s.mu.Unlock()
	if err != nil {
		return err
	}
	for _, m := range msgs {
		if err := cb(m); err != nil {
			return err
		}
	}
	return nil
}
func (s *concStore) Refresh() error {
	s.mu.Lock()
	defer s.mu.Unlock()
	return s.inner.Refresh()
}
func (s *concStore) Reset() error {
	s.mu.Lock()
	defer s.mu.Unlock()
	err := s.inner.Reset()
	s.log.add("R")
	return err
}
func (s *concStore) Close() error {
	s.mu.Lock()
	defer s.mu.Unlock()
	return s.inner.Close()
}

type concStoreFactory struct {
	inner quickfix.MessageStoreFactory
	log   *evLog
	made  **concStore
}

func (f concStoreFactory) Create(id quickfix.SessionID) (quickfix.MessageStore, error) {
	st, err := f.inner.Create(id)
	if err != nil {
		return nil, err
	}
	cs := &concStore{inner: st, log: f.log}
	*f.made = cs
	return cs, nil
}

// ---------------------------------------------------------------- session log and application of a stress session
//
// concLog is the session's quickfix.Log: the engine calls OnOutgoing right after it has handed a message to the
// connection, still inside sendMutex, so wire writes and store mutations are recorded in ONE exact total order.
// What the peer reads from the connection channel is compared with this record at the end of the round.
type concLog struct{ cs *concSess }

func (l concLog) OnIncoming([]byte) {}
func (l concLog) OnOutgoing(b []byte) {
	l.cs.mu.Lock()
	f := l.cs.onOut
	l.cs.mu.Unlock()
	if f != nil {
		f(b)
	}
}
func (l concLog) OnEvent(string)                  {}
func (l concLog) OnEventf(string, ...interface{}) {}

type concLogFactory struct{ cs *concSess }

func (f concLogFactory) Create() (quickfix.Log, error)                             { return concLog{f.cs}, nil }
func (f concLogFactory) CreateSessionLog(quickfix.SessionID) (quickfix.Log, error) { return concLog{f.cs}, nil }

// concApp: the application of a stress session; its ToApp callback (run by the event loop for every message it is
// about to replay) is where an operator's ResetSession can be timed into the middle of a replay.
type concApp struct {
	nullApp
	cs *concSess
}

func (a concApp) ToApp(m *quickfix.Message, _ quickfix.SessionID) error {
	if !m.Header.Has(quickfix.Tag(43)) {
		return nil
	}
	a.cs.mu.Lock()
	f := a.cs.onReplay
	a.cs.mu.Unlock()
	if f != nil {
		f()
	}
	return nil
}

// ToAdmin: a SequenceReset is the gap fill of a replay.  The application takes its time over it (yields, a short
// sleep): whatever the engine holds while it calls back stays held, whatever it does not hold is open to the senders.
func (a concApp) ToAdmin(m *quickfix.Message, _ quickfix.SessionID) {
	if t, err := m.Header.GetString(quickfix.Tag(35)); err == nil && t == "4" {
		for i := 0; i < 20; i++ {
			runtime.Gosched()
		}
		time.Sleep(200 * time.Microsecond)
	}
}

// ---------------------------------------------------------------- session pool

type concSess struct {
	v     *quickfix.VerifConcSession
	id    quickfix.SessionID
	log   *evLog
	store *concStore
	dir   string

	mu       sync.Mutex
	onOut    func([]byte) // set by the round before the connection exists
	onReplay func()       // set by rounds with an operator
}

type concImpl struct {
	pool  map[string][]*concSess
	tmp   string
	nDir  int
	nSess int
}

var concID = quickfix.SessionID{BeginString: "FIX.4.2", SenderCompID: "SND", TargetCompID: "TGT"}

func concKey(store string, persist bool, reset int, initiator bool) string {
	return fmt.Sprintf("%s/%v/%d/%v", store, persist, reset, initiator)
}

func (c *concImpl) build(store string, persist bool, reset int, initiator bool) *concSess {
	// every session has its own SessionID: rounds with an operator put it into the registry
	c.nSess++
	id := quickfix.SessionID{BeginString: concID.BeginString, SenderCompID: fmt.Sprintf("S%d", c.nSess), TargetCompID: concID.TargetCompID}
	st := quickfix.NewSessionSettings()
	st.Set(config.BeginString, id.BeginString)
	st.Set(config.SenderCompID, id.SenderCompID)
	st.Set(config.TargetCompID, id.TargetCompID)
	st.Set(config.HeartBtInt, "30")
	if !persist {
		st.Set(config.PersistMessages, "N")
	}
	if reset == 2 {
		st.Set(config.ResetOnLogon, "Y")
	}
	if initiator {
		st.Set(config.SocketConnectHost, "127.0.0.1")
		st.Set(config.SocketConnectPort, "1")
	}
	cs := &concSess{log: &evLog{}, id: id}
	var inner quickfix.MessageStoreFactory = quickfix.NewMemoryStoreFactory()
	if store == "file" {
		c.nDir++
		dir := filepath.Join(c.tmp, strconv.Itoa(c.nDir))
		mustf(os.MkdirAll(dir, 0o755), "mkdir")
		gs := quickfix.NewSettings()
		gs.GlobalSettings().Set(config.DynamicSessions, "Y")
		gs.GlobalSettings().Set(config.FileStorePath, dir)
		gs.GlobalSettings().Set(config.FileStoreSync, "N")
		inner = file.NewStoreFactory(gs)
		cs.dir = dir
	}
	v, err := quickfix.VerifNewConcSession(initiator, id, concStoreFactory{inner: inner, log: cs.log, made: &cs.store}, st, concLogFactory{cs}, concApp{cs: cs})
	mustf(err, "cannot build session")
	cs.v = v
	v.RunAsync()
	return cs
}

var concStores = []string{"mem", "file"}

// take returns a running session of the wanted configuration.  run() sleeps until the next full second before it
// serves its channels, so sessions are started well ahead of their use: every configuration has a FIFO of running
// sessions that is topped up on every call, and the oldest one is handed out.
func (c *concImpl) take(store string, persist bool, reset int, initiator bool) *concSess {
	if c.pool == nil {
		c.pool = map[string][]*concSess{}
		c.tmp = filepath.Join(os.TempDir(), fmt.Sprintf("qfxh-conc-%d", os.Getpid()))
		// file-store directories of sessions that were started ahead but never used by earlier runs
		if old, err := filepath.Glob(filepath.Join(os.TempDir(), "qfxh-conc-*")); err == nil {
			for _, d := range old {
				if fi, err := os.Stat(d); err == nil && time.Since(fi.ModTime()) > 3*time.Minute {
					os.RemoveAll(d)
				}
			}
		}
	}
	for _, s := range concStores {
		for _, p := range []bool{true, false} {
			for r := 0; r <= 2; r++ {
				n := 24
				if s == "file" {
					n = 6
				} else if p && r == 0 {
					n = 96
				} else if p || r == 0 {
					n = 40
				}
				for _, ini := range []bool{false, true} {
					nn := n
					if ini {
						nn = (n + 2) / 3
					}
					kk := concKey(s, p, r, ini)
					for len(c.pool[kk]) < nn {
						c.pool[kk] = append(c.pool[kk], c.build(s, p, r, ini))
					}
				}
			}
		}
	}
	k := concKey(store, persist, reset, initiator)
	q := c.pool[k]
	cs := q[0]
	c.pool[k] = q[1:]
	return cs
}

func (c *concImpl) reset(string) {}

// ---------------------------------------------------------------- one round

type outMsgInfo struct {
	seq, newSeq int
	kind        string
	dup, reset  bool
}

// safeScan: a mutated engine that races on the send queue can hand over a torn slice header
func safeScan(b []byte) (m outMsgInfo, ok bool) {
	defer func() {
		if recover() != nil {
			ok = false
		}
	}()
	return scanOut(b), true
}

func scanOut(b []byte) outMsgInfo {
	var m outMsgInfo
	for _, f := range bytes.Split(bytes.TrimSuffix(b, []byte{1}), []byte{1}) {
		eq := bytes.IndexByte(f, '=')
		if eq < 0 {
			continue
		}
		tag, val := string(f[:eq]), string(f[eq+1:])
		switch tag {
		case "34":
			m.seq, _ = strconv.Atoi(val)
		case "35":
			m.kind = val
		case "36":
			m.newSeq, _ = strconv.Atoi(val)
		case "43":
			m.dup = val == "Y"
		case "141":
			m.reset = val == "Y"
		}
	}
	return m
}

type rrReq struct{ b, e int }

type concPeer struct {
	mu        sync.Mutex
	log       *evLog
	pending   []rrReq
	open      *rrReq
	rid       int
	highFirst int
	nRead     int
	sent, got []string // what the engine says it wrote / what arrived on the connection
	nHB       int
	firstSeen map[int]bool
	answered  chan struct{}
	logonSeen chan struct{}
	hbSeen    chan struct{}
	onceHB    sync.Once
	logonReset bool
	logoutSeen chan struct{}
	closed    chan struct{}
	once1, once2 sync.Once
}

// onOut runs inside the engine (sendBytes, under sendMutex) for every message handed to the connection
func (p *concPeer) onOut(b []byte) {
	m, ok := safeScan(b)
	p.mu.Lock()
	defer p.mu.Unlock()
	p.nRead++
	if !ok || m.kind == "" {
		p.log.add("X")
		return
	}
	p.sent = append(p.sent, wireKey(m))
	if m.dup {
		if p.open == nil && len(p.pending) > 0 {
			r := p.pending[0]
			p.pending = p.pending[1:]
			p.open = &r
			p.rid++
			p.log.add("L")
		}
		rid := 0
		if p.open != nil {
			rid = p.rid
		}
		p.log.add(fmt.Sprintf("w%dd%d", m.seq, rid))
		covered := m.seq
		if m.kind == "4" {
			covered = m.newSeq - 1
		}
		if p.open != nil && covered >= p.open.e {
			p.log.add("U")
			p.open = nil
			select {
			case p.answered <- struct{}{}:
			default:
			}
		}
		return
	}
	p.log.add(fmt.Sprintf("w%df", m.seq))
	p.firstSeen[m.seq] = true
	// first-time numbers increase within an epoch: a lower one means the sequence was reset, and a
	// ResendRequest must only name numbers of the current epoch
	p.highFirst = m.seq
	if m.kind == "A" {
		p.logonReset = m.reset
		p.once1.Do(func() { close(p.logonSeen) })
	}
	if m.kind == "0" {
		p.nHB++
		p.onceHB.Do(func() { close(p.hbSeen) })
	}
	if m.kind == "5" {
		p.once2.Do(func() { close(p.logoutSeen) })
	}
}

func wireKey(m outMsgInfo) string {
	if m.dup {
		return fmt.Sprintf("%dd", m.seq)
	}
	return fmt.Sprintf("%df", m.seq)
}

// read drains the connection as a peer does and keeps what arrived, in order
func (p *concPeer) read(out <-chan []byte) {
	for b := range out {
		m, ok := safeScan(b)
		p.mu.Lock()
		if ok && m.kind != "" {
			p.got = append(p.got, wireKey(m))
		} else {
			p.got = append(p.got, "X")
		}
		p.mu.Unlock()
	}
	close(p.closed)
}

// await waits for ch; it gives up when the event loop has ended, or when nothing at all has been read from the
// connection for a while (a broken engine must not cost minutes), or after concStall.
func (p *concPeer) await(ch <-chan struct{}, v *quickfix.VerifConcSession) string {
	deadline := time.Now().Add(concStall)
	last, lastChange := -1, time.Now()
	tick := time.NewTicker(20 * time.Millisecond)
	defer tick.Stop()
	for {
		select {
		case <-ch:
			return ""
		case <-v.Done():
			select {
			case <-ch:
				return ""
			default:
			}
			if v.Panicked() != "" {
				return "panic"
			}
			return "ended"
		case <-tick.C:
			p.mu.Lock()
			n := p.nRead
			p.mu.Unlock()
			if n != last {
				last, lastChange = n, time.Now()
			}
			if time.Since(lastChange) > quietWindow() || time.Now().After(deadline) {
				atomic.AddInt32(&concStalls, 1)
				return "stalled"
			}
		}
	}
}

func concInbound(to string, seq int, kind string, extra ...string) []byte {
	f := []string{"8=FIX.4.2", "35=" + kind, "49=TGT", "56=" + to, "34=" + strconv.Itoa(seq), "52=@0"}
	return wireBytes(append(f, extra...))
}

func waitCh(ch <-chan struct{}, d time.Duration) bool {
	select {
	case <-ch:
		return true
	case <-time.After(d):
		return false
	}
}

func pause(r *rng) {
	switch r.intn(8) {
	case 0, 1, 2:
	case 3, 4, 5:
		runtime.Gosched()
	case 6:
		for i := r.intn(4); i >= 0; i-- {
			runtime.Gosched()
		}
	default:
		time.Sleep(time.Duration(r.intn(60)) * time.Microsecond)
	}
}

const concStall = 15 * time.Second

// concStalls counts the rounds of this worker that gave up waiting: after a handful the engine is evidently broken
// (each of those rounds is already a reported observation) and the remaining rounds wait less patiently
var concStalls int32

func quietWindow() time.Duration {
	if atomic.LoadInt32(&concStalls) >= 6 {
		return 400 * time.Millisecond
	}
	return 3 * time.Second
}

func rangesOf(xs []int) string {
	if len(xs) == 0 {
		return "-"
	}
	sort.Ints(xs)
	var parts []string
	lo, hi := xs[0], xs[0]
	for _, x := range xs[1:] {
		if x == hi || x == hi+1 {
			hi = x
			continue
		}
		parts = append(parts, fmt.Sprintf("%d-%d", lo, hi))
		lo, hi = x, x
	}
	parts = append(parts, fmt.Sprintf("%d-%d", lo, hi))
	return strings.Join(parts, ",")
}

func (c *concImpl) round(kv map[string]string) string {
	atoi := func(k string) int { n, _ := strconv.Atoi(kv[k]); return n }
	persist, early, reset := kv["persist"] == "1", kv["early"] == "1", atoi("reset")
	senders, per, nRR, nTR, nHB, outcap := atoi("senders"), atoi("per"), atoi("rr"), atoi("tr"), atoi("hb"), atoi("outcap")
	seed, _ := strconv.ParseUint(kv["seed"], 10, 64)
	r := newRng(seed)
	initiator := kv["init"] == "1"
	cs := c.take(kv["store"], persist, reset, initiator)
	v := cs.v
	p := &concPeer{log: cs.log, firstSeen: map[int]bool{}, answered: make(chan struct{}, 1), logonSeen: make(chan struct{}),
		hbSeen: make(chan struct{}), logoutSeen: make(chan struct{}), closed: make(chan struct{})}
	cs.mu.Lock()
	cs.onOut = p.onOut
	cs.mu.Unlock()

	// the operator: a foreign goroutine calling the public quickfix.ResetSession (op=1 at a pseudo-random point of the
	// script, op=2 from inside a replay: the ToApp callback of the SECOND message the event loop is about to replay)
	op := atoi("op")
	operDone := make(chan struct{})
	var operFired int32
	var replayMsgs int32
	fireOperator := func() bool {
		if !atomic.CompareAndSwapInt32(&operFired, 0, 1) {
			return false
		}
		go func() {
			defer func() { recover(); close(operDone) }()
			quickfix.ResetSession(cs.id)
		}()
		return true
	}
	if op != 0 {
		if err := v.Register(); err != nil {
			return "stalled register"
		}
		defer v.Unregister()
	}
	if op == 2 {
		cs.mu.Lock()
		cs.onReplay = func() {
			if atomic.AddInt32(&replayMsgs, 1) == 2 && fireOperator() {
				// give the operator the time to get as far as the engine lets it
				time.Sleep(400 * time.Microsecond)
			}
		}
		cs.mu.Unlock()
	}

	var accepted, senderPanics int64
	var wg sync.WaitGroup
	startSenders := func() {
		for i := 0; i < senders; i++ {
			rr := r.fork()
			wg.Add(1)
			go func(i int) {
				defer wg.Done()
				defer func() {
					if recover() != nil {
						atomic.AddInt64(&senderPanics, 1)
					}
				}()
				for j := 0; j < per; j++ {
					m := quickfix.NewMessage()
					m.Header.SetField(quickfix.Tag(35), quickfix.FIXString("D"))
					m.Body.SetField(quickfix.Tag(11), quickfix.FIXString(fmt.Sprintf("o%d.%d", i, j)))
					if v.Send(m) == nil {
						atomic.AddInt64(&accepted, 1)
					}
					pause(rr)
				}
			}(i)
		}
	}
	sendersDone := make(chan struct{})
	inSeq := 0
	injectFailed := false
	inject := func(kind string, extra ...string) {
		inSeq++
		b := concInbound(cs.id.SenderCompID, inSeq, kind, extra...)
		done := make(chan struct{})
		go func() { v.Inject(b); close(done) }()
		if !waitCh(done, concStall) {
			injectFailed = true
		}
	}
	outcome := func(stage, why string) string {
		if why == "panic" || v.Panicked() != "" || atomic.LoadInt64(&senderPanics) > 0 {
			return "panic"
		}
		return "stalled " + stage
	}
	if early {
		// the Logon (and with it a possible sequence reset) lands when a PRNG-chosen share of the sends has been made
		startSenders()
		target := int64(r.intn(senders*per*9/10 + 1))
		for spin := 0; atomic.LoadInt64(&accepted) < target && spin < 2000000; spin++ {
			runtime.Gosched()
		}
	}
	// the connection: an initiator sends its Logon as soon as it has one (Connect), an acceptor waits for the peer's
	out, err := v.ConnectAsync(64, outcap)
	if err != nil {
		return "stalled connect"
	}
	go p.read(out)
	if initiator {
		if w := p.await(p.logonSeen, v); w != "" {
			return outcome("logon", w)
		}
		p.mu.Lock()
		mirror := p.logonReset
		p.mu.Unlock()
		if reset == 1 || mirror {
			inject("A", "98=0", "108=30", "141=Y")
		} else {
			inject("A", "98=0", "108=30")
		}
		// the session is logged on once it has answered a TestRequest
		inject("1", "112=SYNC")
		if w := p.await(p.hbSeen, v); w != "" {
			return outcome("logon", w)
		}
	} else {
		if reset == 1 {
			inject("A", "98=0", "108=30", "141=Y")
		} else {
			inject("A", "98=0", "108=30")
		}
		if w := p.await(p.logonSeen, v); w != "" {
			return outcome("logon", w)
		}
	}
	if !early {
		startSenders()
	}
	go func() { wg.Wait(); close(sendersDone) }()

	// scripted peer traffic at pseudo-random points while the senders run
	actions := []string{}
	for i := 0; i < nRR; i++ {
		actions = append(actions, "rr")
	}
	for i := 0; i < nTR; i++ {
		actions = append(actions, "tr")
	}
	for i := 0; i < nHB; i++ {
		actions = append(actions, "hb")
	}
	if op == 1 {
		actions = append(actions, "op")
	}
	for i := len(actions) - 1; i > 0; i-- {
		j := r.intn(i + 1)
		actions[i], actions[j] = actions[j], actions[i]
	}
	// after the operator's reset both sequence numbers start again at 1, and numbers of the old epoch are gone
	afterReset := func() string {
		if w := p.await(operDone, v); w != "" {
			return outcome("operator", w)
		}
		inSeq = 0
		p.mu.Lock()
		p.highFirst = 0
		p.mu.Unlock()
		return ""
	}
	postResetDone := false
	hbCount := func() int {
		p.mu.Lock()
		defer p.mu.Unlock()
		return p.nHB
	}
	for _, a := range actions {
		for i := r.intn(12); i >= 0; i-- {
			pause(r)
		}
		switch a {
		case "op":
			// nothing of the peer's may be in flight when the inbound numbering restarts: a TestRequest round trip first
			before := hbCount()
			inject("1", "112=DRAIN")
			drained := make(chan struct{})
			go func() {
				for hbCount() == before {
					select {
					case <-v.Done():
						return
					default:
						time.Sleep(100 * time.Microsecond)
					}
				}
				close(drained)
			}()
			if w := p.await(drained, v); w != "" {
				return outcome("drain", w)
			}
			fireOperator()
			if w := afterReset(); w != "" {
				return w
			}
		case "tr":
			inject("1", "112=T"+strconv.Itoa(inSeq))
		case "hb":
			inject("0")
		case "rr":
			p.mu.Lock()
			hi := p.highFirst
			p.mu.Unlock()
			if hi < 1 {
				inject("0")
				continue
			}
			b := 1 + r.intn(hi)
			e := b + r.intn(min(hi-b+1, 40))
			if op == 2 && atomic.LoadInt32(&operFired) == 0 && hi >= 4 {
				// a replay of several stored messages, for the operator to land in
				b = 1 + r.intn(hi-3)
				e = b + 3 + r.intn(min(hi-b-2, 12))
			}
			atomic.StoreInt32(&replayMsgs, 0)
			p.mu.Lock()
			p.pending = append(p.pending, rrReq{b, e})
			p.mu.Unlock()
			inject("2", "7="+strconv.Itoa(b), "16="+strconv.Itoa(e))
			if w := p.await(p.answered, v); w != "" {
				return outcome("resend", w)
			}
			if op == 2 && atomic.LoadInt32(&operFired) == 1 && !postResetDone {
				postResetDone = true
				if w := afterReset(); w != "" {
					return w
				}
			}
		}
	}
	if !waitCh(sendersDone, concStall) {
		return outcome("senders", "")
	}
	// every number handed out since the last reset should reach the connection while the session is logged on
	assignedNow := func() []int {
		cs.log.mu.Lock()
		defer cs.log.mu.Unlock()
		var xs []int
		for _, t := range cs.log.toks {
			if t == "R" {
				xs = xs[:0]
			} else if t[0] == 'a' {
				n, _ := strconv.Atoi(t[1:strings.IndexByte(t, '.')])
				xs = append(xs, n)
			}
		}
		return xs
	}
	if op == 2 && atomic.LoadInt32(&operFired) == 0 {
		// no replay was long enough: the operator acts now
		fireOperator()
	}
	if op == 2 && !postResetDone {
		postResetDone = true
		if w := afterReset(); w != "" {
			return w
		}
	}
	live := 0
	if !early && op == 0 {
		// wait until every number has been seen, or nothing new has arrived for a while (never assert timing:
		// the verdict is the monitor's, on the recorded events)
		live = 1
		lastCount, lastChange := -1, time.Now()
		for {
			missing := false
			xs := assignedNow()
			consecutive := true
			for i := 1; i < len(xs); i++ {
				if xs[i] != xs[i-1]+1 {
					consecutive = false
				}
			}
			p.mu.Lock()
			for _, n := range xs {
				if !p.firstSeen[n] {
					missing = true
					break
				}
			}
			count := len(p.firstSeen)
			p.mu.Unlock()
			if count != lastCount {
				lastCount, lastChange = count, time.Now()
			}
			if !missing || !consecutive || time.Since(lastChange) > quietWindow() {
				if missing && consecutive {
					atomic.AddInt32(&concStalls, 1)
				}
				break
			}
			time.Sleep(200 * time.Microsecond)
		}
	}
	inject("5")
	if w := p.await(p.closed, v); w != "" {
		return outcome("logout", w)
	}
	if injectFailed {
		return outcome("inject", "")
	}
	v.StopAsync()
	if !waitCh(v.Done(), concStall) {
		return outcome("stop", "")
	}
	if v.Panicked() != "" || atomic.LoadInt64(&senderPanics) > 0 {
		return "panic"
	}
	// final store, read after the event loop has returned
	sender := cs.store.inner.NextSenderMsgSeqNum()
	var stored []int
	if msgs, err := cs.store.inner.GetMessages(1, sender+8); err == nil {
		for _, b := range msgs {
			stored = append(stored, scanOut(b).seq)
		}
	}
	cs.store.inner.Close()
	if cs.dir != "" {
		os.RemoveAll(cs.dir)
	}
	cs.log.mu.Lock()
	toks := append([]string(nil), cs.log.toks...)
	cs.log.mu.Unlock()
	// what arrived on the connection must be what the engine recorded as written, in the same order
	p.mu.Lock()
	same := len(p.sent) == len(p.got)
	for i := 0; same && i < len(p.sent); i++ {
		same = p.sent[i] == p.got[i]
	}
	p.mu.Unlock()
	if !same {
		toks = append(toks, "X")
	}
	return fmt.Sprintf("ok %d %s %d %d %s", sender, rangesOf(stored), atomic.LoadInt64(&accepted), live, strings.Join(toks, " "))
}

func (c *concImpl) execDirect(op string) string {
	w := strings.Fields(op)
	if len(w) == 0 || w[0] != "round" {
		return "bad-op"
	}
	kv := map[string]string{}
	for _, f := range w[1:] {
		if q := strings.SplitN(f, "=", 2); len(q) == 2 {
			kv[q[0]] = q[1]
		}
	}
	return guard(func() string { return c.round(kv) })
}

func genConc(r *rng, tier string, idx int, o *out, do func(string) string) string {
	if idx == 0 {
		do("srcfacts")
		o.kind("srcfacts")
	}
	senders := []int{4, 8, 16, 32}[r.intn(4)]
	total := r.rangeInt(120, 360)
	if tier == "thorough" {
		total = r.rangeInt(300, 1500)
	}
	per := max(total/senders, 2)
	store := "mem"
	if r.chance(1, 8) {
		store = "file"
	}
	persist := !r.chance(1, 5)
	early := r.chance(1, 4)
	reset := 0
	if r.chance(1, 3) {
		reset = 1 + r.intn(2)
	}
	nRR, nTR, nHB := r.intn(4), r.intn(4), r.intn(3)
	outcap := []int{0, 1, 4, 64}[r.intn(4)]
	initiator := r.chance(1, 4)
	oper := 0
	switch r.intn(10) {
	case 0:
		oper = 1
	case 1, 2:
		oper, persist, early = 2, true, false
		nRR = max(nRR, 2)
	}
	b01 := map[bool]string{true: "1", false: "0"}
	op := fmt.Sprintf("round store=%s persist=%s senders=%d per=%d early=%s reset=%d rr=%d tr=%d hb=%d outcap=%d init=%s op=%d seed=%d",
		store, b01[persist], senders, per, b01[early], reset, nRR, nTR, nHB, outcap, b01[initiator], oper, r.u64()%1000000007)
	obs := do(op)
	if n := len(o.samples); n > 0 && len(o.samples[n-1]) > 600 {
		o.samples[n-1] = o.samples[n-1][:600] + " …"
	}
	o.kind("store=" + store)
	o.kind(fmt.Sprintf("senders=%d", senders))
	o.kind(fmt.Sprintf("persist=%v", persist))
	o.kind(fmt.Sprintf("early=%v", early))
	o.kind(fmt.Sprintf("reset=%d", reset))
	o.kind(fmt.Sprintf("initiator=%v", initiator))
	o.kind(fmt.Sprintf("operator=%d", oper))
	if strings.HasPrefix(obs, "ok ") {
		n := strings.Count(obs, " w")
		o.kind("rounds_ok")
		o.kinds["wire_events"] += n
		o.kinds["replay_answers"] += strings.Count(obs, " L")
		if strings.Contains(obs, " L") {
			o.nontrivial(fmt.Sprintf("%s/%v/%v/%d/%d/%v/%d/rr", store, persist, early, reset, senders, initiator, oper))
		} else {
			o.nontrivial(fmt.Sprintf("%s/%v/%v/%d/%d/%v/%d", store, persist, early, reset, senders, initiator, oper))
		}
	} else {
		o.kind("rounds_" + strings.Fields(obs)[0])
	}
	return "conc"
}

// ---------------------------------------------------------------- source facts
//
// `srcfacts`: every place of package quickfix (test files and verif shims excluded) that mutates the OUTBOUND side of
// the session's message store directly — `<x>.store.Reset / SetNextSenderMsgSeqNum / IncrNextSenderMsgSeqNum /
// SaveMessage / SaveMessageAndIncrNextSenderMsgSeqNum` — as `function:method`, sorted.  The model side lists the
// call sites it knows (all inside sendMutex, or the administrative SetNextSenderMsgSeqNum API): a new direct store
// mutation, such as the `store.Reset()` that handleLogon used to contain, is a correspondence disagreement.
func concSrcFacts() string {
	repo := os.Getenv("VERIF_REPO")
	if repo == "" {
		repo = "/repo"
	}
	want := map[string]bool{"Reset": true, "SetNextSenderMsgSeqNum": true, "IncrNextSenderMsgSeqNum": true,
		"SaveMessage": true, "SaveMessageAndIncrNextSenderMsgSeqNum": true}
	files, _ := filepath.Glob(filepath.Join(repo, "*.go"))
	fset := token.NewFileSet()
	seen := map[string]bool{}
	direct := map[string][]string{}      // function -> store methods it calls directly
	callers := map[string]map[string]bool{} // function name -> functions whose body mentions a call of that name
	for _, f := range files {
		base := filepath.Base(f)
		if strings.HasSuffix(base, "_test.go") || strings.HasPrefix(base, "verif_") {
			continue
		}
		af, err := parser.ParseFile(fset, f, nil, 0)
		if err != nil {
			return "facts unparsed:" + base
		}
		for _, d := range af.Decls {
			fd, ok := d.(*ast.FuncDecl)
			if !ok || fd.Body == nil {
				continue
			}
			ast.Inspect(fd.Body, func(n ast.Node) bool {
				if c, ok := n.(*ast.CallExpr); ok {
					ch := selChain(c.Fun)
					if len(ch) >= 3 && ch[len(ch)-2] == "store" && want[ch[len(ch)-1]] {
						direct[fd.Name.Name] = append(direct[fd.Name.Name], ch[len(ch)-1])
					} else if len(ch) >= 1 {
						callee := ch[len(ch)-1]
						if callers[callee] == nil {
							callers[callee] = map[string]bool{}
						}
						callers[callee][fd.Name.Name] = true
					}
				}
				return true
			})
		}
	}
	// The call sites the model knows are named by their function.  A mutation that sits in an unexported helper the model
	// does not know (a block moved into a function of its own) is attributed to the functions that call the helper, up to
	// three levels: extracting a helper is not a new call site, a store call reached from somewhere else is.
	known := map[string]bool{"SetNextSenderMsgSeqNum": true, "dropAndReset": true, "persist": true, "prepMessageForSend": true}
	var attribute func(fn string, depth int, visited map[string]bool) []string
	attribute = func(fn string, depth int, visited map[string]bool) []string {
		if known[fn] || depth == 0 || visited[fn] || len(callers[fn]) == 0 || (fn[0] >= 'A' && fn[0] <= 'Z') {
			return []string{fn}
		}
		visited[fn] = true
		var out []string
		for c := range callers[fn] {
			out = append(out, attribute(c, depth-1, visited)...)
		}
		return out
	}
	for fn, ms := range direct {
		for _, owner := range attribute(fn, 3, map[string]bool{}) {
			for _, m := range ms {
				seen[owner+":"+m] = true
			}
		}
	}
	var out []string
	for k := range seen {
		out = append(out, k)
	}
	sort.Strings(out)
	return "facts " + strings.Join(out, " ")
}

// ---------------------------------------------------------------- crash isolation
//
// An engine whose locks have been removed races on slice headers and can corrupt the heap: the Go runtime then dies
// with a fatal error that no recover() catches.  The rounds therefore run in a worker process (this same binary,
// started with the pseudo-family "conc-worker"); a dead worker is the observation `crashed` of the round it was
// running and the next round gets a fresh worker.

type concSupervisor struct {
	cmd     *exec.Cmd
	in      *bufio.Writer
	out     *bufio.Reader
	retried int
}

func (c *concSupervisor) reset(string) {}

func (c *concSupervisor) stop() {
	if c.cmd != nil {
		c.cmd.Process.Kill()
		c.cmd.Wait()
		c.cmd = nil
	}
}

// timingOnly: outcomes that a starved machine could produce on a healthy engine — a stall, or numbers handed out
// consecutively but not all read from the connection before the wait gave up.  Such a round is repeated (same op, at
// most twice, at most concRetryBudget rounds per run) and only the last attempt is reported; a broken engine fails
// every attempt (and usually other clauses as well).
func timingOnly(obs string) bool {
	if strings.HasPrefix(obs, "stalled") {
		return true
	}
	w := strings.Fields(obs)
	if len(w) < 5 || w[0] != "ok" || w[4] != "1" {
		return false
	}
	next, seen := -1, map[int]bool{}
	var asg []int
	for _, t := range w[5:] {
		switch {
		case t == "R":
			next, asg = -1, asg[:0]
			seen = map[int]bool{}
		case t[0] == 'a':
			n, _ := strconv.Atoi(t[1:strings.IndexByte(t, '.')])
			if next >= 0 && n != next {
				return false
			}
			next = n + 1
			asg = append(asg, n)
		case t[0] == 'w' && strings.HasSuffix(t, "f"):
			n, _ := strconv.Atoi(t[1 : len(t)-1])
			seen[n] = true
		}
	}
	for _, n := range asg {
		if !seen[n] {
			return true
		}
	}
	return false
}

const concRetryBudget = 12

func (c *concSupervisor) exec(op string) string {
	obs := c.exec1(op)
	for i := 0; i < 2 && timingOnly(obs) && c.retried < concRetryBudget; i++ {
		c.retried++
		obs = c.exec1(op)
	}
	return obs
}

func (c *concSupervisor) exec1(op string) string {
	if strings.TrimSpace(op) == "srcfacts" {
		return guard(concSrcFacts)
	}
	if c.cmd == nil {
		cmd := exec.Command(os.Args[0], "conc-worker")
		stdin, err1 := cmd.StdinPipe()
		stdout, err2 := cmd.StdoutPipe()
		if err1 != nil || err2 != nil || cmd.Start() != nil {
			return "stalled worker"
		}
		c.cmd, c.in, c.out = cmd, bufio.NewWriter(stdin), bufio.NewReaderSize(stdout, 1<<20)
	}
	c.in.WriteString(op + "\n")
	c.in.Flush()
	type res struct {
		line string
		err  error
	}
	ch := make(chan res, 1)
	go func() {
		l, err := c.out.ReadString('\n')
		ch <- res{l, err}
	}()
	select {
	case r := <-ch:
		if r.err != nil {
			c.stop()
			return "crashed"
		}
		return strings.TrimRight(r.line, "\n")
	case <-time.After(8 * concStall):
		c.stop()
		return "stalled worker"
	}
}

func concWorker() {
	im := &concImpl{}
	sc := bufio.NewScanner(os.Stdin)
	sc.Buffer(make([]byte, 1<<20), 1<<26)
	w := bufio.NewWriterSize(os.Stdout, 1<<20)
	for sc.Scan() {
		w.WriteString(im.execDirect(sc.Text()) + "\n")
		w.Flush()
	}
}

func init() {
	if len(os.Args) > 1 && os.Args[1] == "conc-worker" {
		concWorker()
		os.Exit(0)
	}
	families["conc"] = &family{newImpl: func() impl { return &concSupervisor{} }, gen: genConc}
}
