package main

// family "store": the message stores of quickfix driven through their real factories (C16; reused by "crash" for C17).
//
// Ops (one store per session id `sid` in [A-Z0-9]+; all stores of a case share one directory / one SQLite file):
//   open <kind> <sid>         kind = mem | file (FileStoreSync=Y) | filens (FileStoreSync=N) | sql (sqlite3)
//   setS <sid> n | setT <sid> n | incS <sid> | incT <sid>
//   save <sid> n <hex> | saveIncr <sid> n <hex>
//   get <sid> b e             GetMessages
//   iter <sid> b e k          IterateMessages with a callback that fails on its k-th call (k = 0: never)
//   refresh <sid> | reset <sid> | reopen <sid>   (reopen = Close, then a fresh store from the factory)
//   sqlinter <sid> <k> <op1> / <op2>   (sql kind) op2 runs to completion when op1 is about to execute its k-th SQL statement;
//                                      the observation is op1's, its counters read after both
//
// Observation (one line):
//   r <ok|err> c <S> <T> e <y|n> m <count> <hex>*  [f <header> <body> <senderseqnums> <targetseqnums> <sess>]
// S/T are NextSender/NextTargetMsgSeqNum after the op, e = creation time differs from the one after the previous op of
// this session (a relation, never a value), m = messages handed to the callback, f = the store files of this session
// (file kinds only; the session file is reported as a class: absent | empty | cur (parses, equals CreationTime) | other | bad).

import (
	"database/sql"
	"database/sql/driver"
	"fmt"
	"os"
	"path/filepath"
	"strconv"
	"strings"
	"time"

	sqlite3 "github.com/mattn/go-sqlite3"
	"github.com/quickfixgo/quickfix"
	"github.com/quickfixgo/quickfix/config"
	"github.com/quickfixgo/quickfix/store/file"
	sqlstore "github.com/quickfixgo/quickfix/store/sql"
)

// ---------------------------------------------------------------- failing SQL driver (wraps sqlite3)

// verifSQL fails the k-th statement (Exec/Query through a prepared statement) counted from the last arm().
type failCtl struct {
	count  int
	failAt int // 0 = never
	log    []string
	hookAt int    // 0 = never: run hook just before the hookAt-th statement executes
	hook   func() // (its own statements are not counted against failAt / hookAt: both are cleared first)
}

var sqlCtl = &failCtl{}

func (c *failCtl) arm(k int) { c.count, c.failAt, c.log = 0, k, nil }
func (c *failCtl) hit(q string) error {
	c.count++
	w := strings.Fields(q)
	if len(w) > 0 {
		c.log = append(c.log, strings.ToUpper(w[0]))
	}
	if c.failAt != 0 && c.count == c.failAt {
		return fmt.Errorf("verif: injected failure of statement %d", c.count)
	}
	if c.hookAt != 0 && c.count == c.hookAt && c.hook != nil {
		h := c.hook
		c.hookAt, c.hook = 0, nil
		h()
	}
	return nil
}

type failDriver struct{ inner driver.Driver }
type failConn struct{ inner driver.Conn }
type failStmt struct {
	inner driver.Stmt
	q     string
}

func (d failDriver) Open(name string) (driver.Conn, error) {
	c, err := d.inner.Open(name)
	if err != nil {
		return nil, err
	}
	return failConn{c}, nil
}
func (c failConn) Prepare(q string) (driver.Stmt, error) {
	s, err := c.inner.Prepare(q)
	if err != nil {
		return nil, err
	}
	return failStmt{s, q}, nil
}
func (c failConn) Close() error              { return c.inner.Close() }
func (c failConn) Begin() (driver.Tx, error) { return c.inner.Begin() } //nolint
func (s failStmt) Close() error              { return s.inner.Close() }
func (s failStmt) NumInput() int             { return s.inner.NumInput() }
func (s failStmt) Exec(a []driver.Value) (driver.Result, error) {
	if err := sqlCtl.hit(s.q); err != nil {
		return nil, err
	}
	return s.inner.Exec(a) //nolint
}
func (s failStmt) Query(a []driver.Value) (driver.Rows, error) {
	if err := sqlCtl.hit(s.q); err != nil {
		return nil, err
	}
	return s.inner.Query(a) //nolint
}

func init() {
	sql.Register("verifsqlite3", failDriver{&sqlite3.SQLiteDriver{}})
}

// ---------------------------------------------------------------- implementation side

type stSess struct {
	kind   string
	sid    string
	id     quickfix.SessionID
	st     quickfix.MessageStore
	lastCT time.Time
}

type storeImpl struct {
	root    string // <out>/st
	caseDir string
	nCase   int
	sess    map[string]*stSess
	dbReady bool
	crashOn bool // family "crash": the crash-point hook of store/file is on and every op on a file store is traced
	crash   *crashState
}

func outDirFromArgs() string {
	for i, a := range os.Args {
		if (a == "-out" || a == "--out") && i+1 < len(os.Args) {
			return os.Args[i+1]
		}
		if strings.HasPrefix(a, "-out=") {
			return strings.TrimPrefix(a, "-out=")
		}
	}
	return "."
}

func newStoreImpl() *storeImpl {
	root, err := filepath.Abs(filepath.Join(outDirFromArgs(), "st"))
	if err != nil {
		panic(err)
	}
	return &storeImpl{root: root, sess: map[string]*stSess{}}
}

func (im *storeImpl) closeAll() {
	for _, s := range im.sess {
		if s.st != nil {
			_ = s.st.Close()
			closeSQL(s.st)
		}
	}
	im.sess = map[string]*stSess{}
}

func (im *storeImpl) reset(string) {
	im.closeAll()
	if im.caseDir != "" {
		os.RemoveAll(im.caseDir)
	}
	im.nCase++
	im.caseDir = filepath.Join(im.root, fmt.Sprintf("c%d", im.nCase))
	os.RemoveAll(im.caseDir)
	if err := os.MkdirAll(filepath.Join(im.caseDir, "fs"), 0o755); err != nil {
		panic(err)
	}
	im.dbReady = false
	im.crash = nil
	if im.crashOn {
		im.crash = &crashState{im: im, traces: map[string]*opTrace{}, dur: map[string]fsnap{}, syncLive: map[string]bool{}}
		file.VerifHook = im.crash.hook
	}
	sqlCtl.arm(0)
}

func (im *storeImpl) fsDir() string  { return filepath.Join(im.caseDir, "fs") }
func (im *storeImpl) dbPath() string { return filepath.Join(im.caseDir, "store.db") }
func (im *storeImpl) dsn() string {
	return "file:" + im.dbPath() + "?_synchronous=OFF&_journal_mode=MEMORY"
}

// A session name of the line protocol is `<SenderCompID>` optionally followed by `.ss<SenderSubID>`, `.sl<SenderLocationID>`,
// `.ts<TargetSubID>`, `.tl<TargetLocationID>`, `.q<Qualifier>` (each at most once): sessions that differ in ANY component of the
// SessionID are different sessions for every store (file names, SQL keys).  The model treats the whole name as the key.
func sessionIDOf(sid string) quickfix.SessionID {
	parts := strings.Split(sid, ".")
	id := quickfix.SessionID{BeginString: "FIX.4.2", SenderCompID: parts[0], TargetCompID: "TW"}
	for _, p := range parts[1:] {
		switch {
		case strings.HasPrefix(p, "ss"):
			id.SenderSubID = p[2:]
		case strings.HasPrefix(p, "sl"):
			id.SenderLocationID = p[2:]
		case strings.HasPrefix(p, "ts"):
			id.TargetSubID = p[2:]
		case strings.HasPrefix(p, "tl"):
			id.TargetLocationID = p[2:]
		case strings.HasPrefix(p, "q"):
			id.Qualifier = p[1:]
		}
	}
	return id
}

// filePrefix: the file-name prefix of a session, written here independently of store/file's own function
func filePrefix(sid string) string {
	id := sessionIDOf(sid)
	snd, tgt := id.SenderCompID, id.TargetCompID
	if id.SenderSubID != "" {
		snd += "_" + id.SenderSubID
	}
	if id.SenderLocationID != "" {
		snd += "_" + id.SenderLocationID
	}
	if id.TargetSubID != "" {
		tgt += "_" + id.TargetSubID
	}
	if id.TargetLocationID != "" {
		tgt += "_" + id.TargetLocationID
	}
	pre := "FIX.4.2-" + snd + "-" + tgt
	if id.Qualifier != "" {
		pre += "-" + id.Qualifier
	}
	return pre
}

var fileExts = []string{"header", "body", "senderseqnums", "targetseqnums", "session"}

func (im *storeImpl) ensureDB() {
	if im.dbReady {
		return
	}
	repo := os.Getenv("VERIF_REPO")
	if repo == "" {
		repo = "/repo"
	}
	db, err := sql.Open("sqlite3", im.dsn())
	if err != nil {
		panic(err)
	}
	defer db.Close()
	for _, f := range []string{"messages_table.sql", "sessions_table.sql"} {
		b, err := os.ReadFile(filepath.Join(repo, "_sql", "sqlite3", f))
		if err != nil {
			panic(err)
		}
		if _, err := db.Exec(string(b)); err != nil {
			panic(err)
		}
	}
	im.dbReady = true
}

// create builds a store of the given kind through the real factory and real settings.
func (im *storeImpl) create(kind, sid, dir string) (quickfix.MessageStore, error) {
	id := sessionIDOf(sid)
	settings := quickfix.NewSettings()
	ss := quickfix.NewSessionSettings()
	ss.Set(config.BeginString, id.BeginString)
	ss.Set(config.SenderCompID, id.SenderCompID)
	ss.Set(config.TargetCompID, id.TargetCompID)
	for k, v := range map[string]string{config.SenderSubID: id.SenderSubID, config.SenderLocationID: id.SenderLocationID,
		config.TargetSubID: id.TargetSubID, config.TargetLocationID: id.TargetLocationID, config.SessionQualifier: id.Qualifier} {
		if v != "" {
			ss.Set(k, v)
		}
	}
	switch kind {
	case "mem":
		return quickfix.NewMemoryStoreFactory().Create(id)
	case "file", "filens":
		ss.Set(config.FileStorePath, dir)
		if kind == "filens" {
			ss.Set(config.FileStoreSync, "N")
		} else {
			ss.Set(config.FileStoreSync, "Y")
		}
		if _, err := settings.AddSession(ss); err != nil {
			return nil, err
		}
		return file.NewStoreFactory(settings).Create(id)
	case "sql":
		im.ensureDB()
		ss.Set(config.SQLStoreDriver, "verifsqlite3")
		ss.Set(config.SQLStoreDataSourceName, im.dsn())
		if _, err := settings.AddSession(ss); err != nil {
			return nil, err
		}
		return sqlstore.NewStoreFactory(settings).Create(id)
	}
	panic("bad store kind " + kind)
}

// the SQL store's Close leaves nothing behind that matters here; database/sql pools are closed by Close().
func closeSQL(quickfix.MessageStore) {}

func sessClass(dir, sid string, ct time.Time) string {
	b, err := os.ReadFile(filepath.Join(dir, filePrefix(sid)+".session"))
	if err != nil {
		return "absent"
	}
	if len(b) == 0 {
		return "empty"
	}
	var t time.Time
	if err := t.UnmarshalText(b); err != nil {
		return "bad"
	}
	if t.Equal(ct) {
		return "cur"
	}
	return "other"
}

func fileImages(dir, sid string) []string {
	var res []string
	for _, ext := range fileExts[:4] {
		b, err := os.ReadFile(filepath.Join(dir, filePrefix(sid)+"."+ext))
		if err != nil {
			res = append(res, "absent")
		} else {
			res = append(res, hx(b))
		}
	}
	return res
}

func (im *storeImpl) obs(s *stSess, ok bool, msgs [][]byte) string {
	var sb strings.Builder
	if ok {
		sb.WriteString("r ok")
	} else {
		sb.WriteString("r err")
	}
	if s.st == nil {
		sb.WriteString(" c 0 0 e n m 0")
		return sb.String()
	}
	ct := s.st.CreationTime()
	fmt.Fprintf(&sb, " c %d %d e %s m %d", s.st.NextSenderMsgSeqNum(), s.st.NextTargetMsgSeqNum(), yn(!ct.Equal(s.lastCT)), len(msgs))
	s.lastCT = ct
	for _, m := range msgs {
		sb.WriteString(" " + hx(m))
	}
	if s.kind == "file" || s.kind == "filens" {
		sb.WriteString(" f " + strings.Join(fileImages(im.fsDir(), s.sid), " ") + " " + sessClass(im.fsDir(), s.sid, ct))
	}
	return sb.String()
}

func mustInt(s string) int {
	v, err := strconv.Atoi(s)
	if err != nil {
		panic("bad int in op: " + s)
	}
	return v
}

type cbAbort struct{}

func (cbAbort) Error() string { return "callback aborted" }

func (im *storeImpl) exec(op string) string {
	w := strings.Fields(op)
	return guard(func() string {
		if len(w) >= 1 && (strings.HasPrefix(w[0], "crash") || w[0] == "sqlfail") {
			return im.execCrash(w)
		}
		if w[0] == "sqlinter" {
			// sqlinter <sid> <k> <op1 …> / <op2 …>
			k, cut := mustInt(w[2]), -1
			for i := 3; i < len(w); i++ {
				if w[i] == "/" {
					cut = i
				}
			}
			if cut < 4 || cut+1 >= len(w) {
				panic("bad sqlinter op")
			}
			op1, op2 := strings.Join(w[3:cut], " "), strings.Join(w[cut+1:], " ")
			fired := false
			sqlCtl.arm(0)
			sqlCtl.hookAt, sqlCtl.hook = k, func() { fired = true; im.exec(op2) }
			res := im.exec(op1)
			sqlCtl.hookAt, sqlCtl.hook = 0, nil
			if !fired {
				return "r notfired"
			}
			// the counters of the observation are read now, after both ops
			if s, ok := im.sess[w[1]]; ok && s.st != nil && strings.HasPrefix(res, "r ok") {
				return im.obs(s, true, nil)
			}
			return res
		}
		if w[0] == "open" {
			kind, sid := w[1], w[2]
			if old, ok := im.sess[sid]; ok && old.st != nil {
				_ = old.st.Close()
			}
			s := &stSess{kind: kind, sid: sid, id: sessionIDOf(sid)}
			im.sess[sid] = s
			if im.crash != nil && strings.HasPrefix(kind, "file") {
				im.crash.begin(sid)
				defer im.crash.end()
			}
			st, err := im.create(kind, sid, im.fsDir())
			if err != nil {
				return im.obs(s, false, nil)
			}
			s.st = st
			return im.obs(s, true, nil)
		}
		s, ok := im.sess[w[1]]
		if !ok || s.st == nil {
			panic("no store for " + w[1])
		}
		if im.crash != nil && strings.HasPrefix(s.kind, "file") {
			im.crash.begin(s.sid)
			defer im.crash.end()
		}
		var err error
		var msgs [][]byte
		switch w[0] {
		case "setS":
			err = s.st.SetNextSenderMsgSeqNum(mustInt(w[2]))
		case "setT":
			err = s.st.SetNextTargetMsgSeqNum(mustInt(w[2]))
		case "incS":
			err = s.st.IncrNextSenderMsgSeqNum()
		case "incT":
			err = s.st.IncrNextTargetMsgSeqNum()
		case "save":
			err = s.st.SaveMessage(mustInt(w[2]), unhx(w[3]))
		case "saveIncr":
			err = s.st.SaveMessageAndIncrNextSenderMsgSeqNum(mustInt(w[2]), unhx(w[3]))
		case "get":
			msgs, err = s.st.GetMessages(mustInt(w[2]), mustInt(w[3]))
		case "iter":
			k := mustInt(w[4])
			calls := 0
			err = s.st.IterateMessages(mustInt(w[2]), mustInt(w[3]), func(m []byte) error {
				calls++
				msgs = append(msgs, append([]byte(nil), m...))
				if k != 0 && calls == k {
					return cbAbort{}
				}
				return nil
			})
		case "refresh":
			err = s.st.Refresh()
		case "reset":
			err = s.st.Reset()
		case "reopen":
			_ = s.st.Close()
			var st quickfix.MessageStore
			st, err = im.create(s.kind, s.sid, im.fsDir())
			if err == nil {
				s.st = st
			}
		default:
			panic("bad op " + op)
		}
		return im.obs(s, err == nil, msgs)
	})
}

// ---------------------------------------------------------------- generator

type storeSessGen struct {
	sid       string
	lastSaved int // highest seq saved in the current epoch (0 = none)
	s, t      int // counters as last observed
}

var specialBytes = []byte{0x01, '\n', ',', 0x00, '\r', '=', '0', '9', ' ', 0xff, 0x80, '-'}

func genMsg(r *rng) []byte {
	var n int
	switch c := r.intn(20); {
	case c == 0:
		n = 0
	case c < 12:
		n = r.rangeInt(1, 12)
	case c < 18:
		n = r.rangeInt(13, 60)
	case c == 18:
		n = r.rangeInt(61, 300)
	default:
		n = r.rangeInt(301, 1500)
	}
	b := make([]byte, n)
	mode := r.intn(4)
	for i := range b {
		switch {
		case mode == 0:
			b[i] = byte(r.intn(256))
		case mode == 1 && r.chance(1, 3):
			b[i] = r.pickByte(specialBytes)
		case mode == 2:
			b[i] = r.pickByte([]byte("0123456789,\n"))
		default:
			b[i] = byte('A' + r.intn(26))
		}
	}
	if mode == 3 && n >= 8 { // FIX-looking
		copy(b, []byte("8=FIX.4.2\x01"))
		b[n-1] = 0x01
	}
	return b
}

// firstName: the smallest session name handed out so far (deterministic, unlike ranging over the map)
func firstName(used map[string]bool) (string, bool) {
	best, ok := "", false
	for k := range used {
		if strings.HasPrefix(k, "=") {
			continue
		}
		if !ok || k < best {
			best, ok = k, true
		}
	}
	return best, ok
}

func genSid(r *rng, used map[string]bool) string {
	const al = "ABCDEFGHIJKLMNOPQRSTUVWXYZ0123456789"
	for {
		n := r.rangeInt(1, 4)
		b := make([]byte, n)
		for i := range b {
			b[i] = al[r.intn(len(al))]
		}
		if r.chance(1, 4) && len(used) > 0 { // near-collision: extend / truncate an existing id
			if k, ok := firstName(used); ok && !strings.Contains(k, ".") {
				// (names with optional components are derived below, never cut or extended)
				if r.chance(1, 2) {
					b = []byte(k + string(al[r.intn(len(al))]))
				} else if len(k) > 1 {
					b = []byte(k[:len(k)-1])
				}
			}
		}
		s := string(b)
		if r.chance(1, 3) {
			// sessions that differ in ONE optional component of the SessionID only (or have one where the other has none)
			base := s
			if k, ok := firstName(used); ok {
				base = strings.Split(k, ".")[0]
			}
			comp := r.pick([]string{"ss", "sl", "ts", "tl", "q"})
			s = base + "." + comp + r.pick([]string{"X", "LDN", "NYC", "1"})
		}
		// two names must be two different SessionIDs
		canon := "=" + fmt.Sprintf("%+v", sessionIDOf(s)) // (kept in the same map under a key no name can have)
		if !used[s] && !used[canon] {
			used[s], used[canon] = true, true
			return s
		}
	}
}

func parseCtr(obs string, g *storeSessGen) {
	w := strings.Fields(obs)
	for i := 0; i+2 < len(w); i++ {
		if w[i] == "c" {
			g.s, _ = strconv.Atoi(w[i+1])
			g.t, _ = strconv.Atoi(w[i+2])
			return
		}
	}
}

// allowSQLInter: set by the generator of family store; the crash family (which shares genStoreOp) has no use for `sqlinter`
var allowSQLInter bool

// genStoreOp emits one random store op for session g (kind-aware) and returns the op name.
func genStoreOp(r *rng, kind string, g *storeSessGen, o *out, do func(string) string) string {
	persistent := kind != "mem"
	c := r.intn(100)
	bigCtr := func() int {
		switch r.intn(6) {
		case 0:
			return r.intn(3)
		case 1:
			return r.rangeInt(1, 2000)
		case 2:
			return []int{9, 10, 99, 100, 999999999, 1000000000, 999999999999999999, 1000000000000000000, 4611686018427387904}[r.intn(9)]
		case 3:
			return int(r.u64() >> uint(1+r.intn(62)))
		default:
			return r.rangeInt(1, 40)
		}
	}
	rangeEnd := func() (int, int) {
		hi := g.lastSaved + 3
		b, e := r.rangeInt(-1, hi), r.rangeInt(-1, hi+2)
		switch r.intn(8) {
		case 0:
			b, e = e, b
		case 1:
			b, e = 0, hi+5
		case 2:
			e = b
		case 3:
			b, e = hi+1, hi+r.intn(50) // beyond
		case 4:
			b = 1
			if kind != "mem" && r.chance(1, 2) {
				e = int(r.u64() >> 2)
			}
		}
		if kind == "mem" && e-b > 3000 { // the memory store walks the integer range
			b = e - r.intn(3000)
		}
		return b, e
	}
	var op, name string
	switch {
	case allowSQLInter && kind == "sql" && r.chance(1, 7):
		// the engine's event loop books an inbound message (target side) while a sending goroutine saves an outbound one
		// (sender side), or the other way round: the second op runs to completion when the first is about to execute its
		// first SQL statement; afterwards a fresh store on the same database has to answer like the live one
		name = "sqlinter"
		n := g.lastSaved + 1
		if g.s > n {
			n = g.s
		}
		sender := []string{fmt.Sprintf("saveIncr %s %d %s", g.sid, n, hx(genMsg(r))), "incS " + g.sid, fmt.Sprintf("setS %s %d", g.sid, r.rangeInt(1, 40))}[r.intn(3)]
		target := []string{"incT " + g.sid, fmt.Sprintf("setT %s %d", g.sid, r.rangeInt(1, 40))}[r.intn(2)]
		if strings.HasPrefix(sender, "saveIncr") {
			g.lastSaved = n
		}
		if strings.HasPrefix(sender, "saveIncr") || r.chance(1, 2) { // (a transaction cannot be the interrupted one: it holds the database)
			op = fmt.Sprintf("sqlinter %s 1 %s / %s", g.sid, target, sender)
		} else {
			op = fmt.Sprintf("sqlinter %s 1 %s / %s", g.sid, sender, target)
		}
		res := do(op)
		parseCtr(res, g)
		o.kind("op." + name)
		res = do("reopen " + g.sid)
		parseCtr(res, g)
		return name
	case c < 22:
		name = "saveIncr"
		n := g.lastSaved + 1
		if g.s > n && r.chance(3, 4) {
			n = g.s
		} else if r.chance(1, 5) {
			n += r.intn(4)
		}
		op = fmt.Sprintf("saveIncr %s %d %s", g.sid, n, hx(genMsg(r)))
		g.lastSaved = n
	case c < 36:
		name = "save"
		n := g.lastSaved + 1 + []int{0, 0, 0, 1, 2, 7}[r.intn(6)]
		op = fmt.Sprintf("save %s %d %s", g.sid, n, hx(genMsg(r)))
		g.lastSaved = n
	case c < 50:
		name = "get"
		b, e := rangeEnd()
		op = fmt.Sprintf("get %s %d %d", g.sid, b, e)
	case c < 60:
		name = "iter"
		b, e := rangeEnd()
		op = fmt.Sprintf("iter %s %d %d %d", g.sid, b, e, r.intn(4))
	case c < 66:
		name = "incS"
		op = "incS " + g.sid
	case c < 72:
		name = "incT"
		op = "incT " + g.sid
	case c < 77:
		name = "setS"
		op = fmt.Sprintf("setS %s %d", g.sid, bigCtr())
	case c < 82:
		name = "setT"
		op = fmt.Sprintf("setT %s %d", g.sid, bigCtr())
	case c < 88:
		name = "refresh"
		op = "refresh " + g.sid
	case c < 92:
		name = "reset"
		op = "reset " + g.sid
		g.lastSaved = 0
	default:
		if !persistent {
			name = "get"
			b, e := rangeEnd()
			op = fmt.Sprintf("get %s %d %d", g.sid, b, e)
		} else {
			name = "reopen"
			op = "reopen " + g.sid
		}
	}
	res := do(op)
	parseCtr(res, g)
	o.kind("op." + name)
	if strings.HasPrefix(res, "r err") {
		o.kind("err." + name)
	}
	return name
}

func genStore(r *rng, tier string, idx int, o *out, do func(string) string) string {
	allowSQLInter = true
	var kind string
	switch c := r.intn(20); {
	case c < 4:
		kind = "mem"
	case c < 11:
		kind = "file"
	case c < 16:
		kind = "filens"
	default:
		kind = "sql"
	}
	nOps := r.rangeInt(20, 200)
	if kind == "sql" {
		nOps = r.rangeInt(20, 90)
	}
	nSess := 1 + r.intn(3)
	used := map[string]bool{}
	var gs []*storeSessGen
	for i := 0; i < nSess; i++ {
		g := &storeSessGen{sid: genSid(r, used), s: 1, t: 1}
		gs = append(gs, g)
	}
	o.kind("kind." + kind)
	o.kind(fmt.Sprintf("sessions.%d", nSess))
	opened := 0
	shape := kind
	for k := 0; k < nOps; k++ {
		if opened < nSess && (opened == 0 || r.chance(1, 6)) {
			res := do(fmt.Sprintf("open %s %s", kind, gs[opened].sid))
			parseCtr(res, gs[opened])
			opened++
			continue
		}
		g := gs[r.intn(opened)]
		name := genStoreOp(r, kind, g, o, do)
		if k < 12 {
			shape += "," + name
		}
	}
	longEvery := 24
	if tier == "thorough" {
		longEvery = 200 // (the byte-exact file model walks its lists: long epochs are expensive on the Lean side)
	}
	if kind != "mem" && opened > 0 && idx%longEvery == 7 {
		// a long epoch: several hundred saves in one store (the index of a file store grows past a page), then the answers of
		// the refreshed and of the reopened store over the tail, the head and the whole range
		g := gs[r.intn(opened)]
		n := g.lastSaved
		total := 380 + r.intn(120)
		for k := 0; k < total; k++ {
			n++
			m := genMsg(r)
			if len(m) > 6 {
				m = m[:1+r.intn(6)]
			}
			res := do(fmt.Sprintf("save %s %d %s", g.sid, n, hx(m)))
			parseCtr(res, g)
		}
		g.lastSaved = n
		for _, step := range []string{"refresh", "reopen"} {
			do(step + " " + g.sid)
			do(fmt.Sprintf("get %s %d %d", g.sid, n-3, n))
			do(fmt.Sprintf("get %s %d %d", g.sid, 1, 3))
			do(fmt.Sprintf("iter %s %d %d 0", g.sid, n-total/2, n-total/2+2))
		}
		res := do(fmt.Sprintf("save %s %d %s", g.sid, n+1, hx(genMsg(r))))
		parseCtr(res, g)
		g.lastSaved = n + 1
		do(fmt.Sprintf("get %s %d %d", g.sid, n, n+1))
		o.kind("long-epoch")
	}
	o.nontrivial(shape)
	return "store"
}

func init() {
	families["store"] = &family{newImpl: func() impl { return newStoreImpl() }, gen: genStore}
}
