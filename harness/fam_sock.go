package main

// families "sock" (C05) and "sockj" (C09): two REAL engines behind the REAL socket layer.
//
// One round = quickfix.NewAcceptor (listening on 127.0.0.1:<free port>) + quickfix.NewInitiator, both built from generated
// quickfix.Settings with a recording Application each, and between them a TCP proxy owned by the harness (the initiator
// dials the proxy, the proxy dials the acceptor).  The proxy passes bytes, cuts the connection (losing what it holds),
// holds and releases bytes, splits writes, refuses connections.  Raw "junk" connections go straight to the acceptor.
// Application messages are submitted with quickfix.SendToTarget on both sides, also while the link is down.
//
// Op (one line, one case):
//   round id=<n> bs=<2|4|5> store=<mem|file> ca=<0..3> cb=<0..3> hb=<s> ri=<ms> split=<bytes|0> quiet=<ms> wait=<ms>
//         start=<open|down> stop=<ia|ai> probe=<0|1|2> dyn=<0|1> val=<0|1> ev=<e1,e2,…>
//   dyn=1: session J is not configured, the acceptor creates it (DynamicSessions=Y) — as it does for every other
//   well-formed Logon addressed to it; val=1: a ConnectionValidator refuses counterparties whose CompID starts with X
//   events: sA<k> sB<k> (k submissions on the initiator / acceptor side)   p<k> (k on both sides concurrently)
//           up (wait until both sides are logged on)   w<ms>   cut   hold holdAB holdBA   rel   down   open
//           cutpdAB cutpdBA (arm the proxy: it watches the bytes and, ONCE, when the first replayed message — PossDupFlag
//           43=Y — travels initiator->acceptor / acceptor->initiator, resets the connection in both directions, i.e. in
//           the middle of the replay answering a ResendRequest; afterwards it only forwards)
//           rsA rsB (stop the engine and recreate it on its store; file store only)
//           jraw:<hex> (raw connection to the acceptor, literal bytes)   jmsg:<hex of SOH-less field list f1|f2|…>
//           (framed at execution time: BodyLength, CheckSum, `@0` = now)   jses:<item>+<item>… (a second configured
//           session J logs on with a valid Logon and then sends the items: m<hex fields> framed, r<hex> literal)
// Observation (one line):
//   (id lists: comma separated, runs of consecutive ids abbreviated a1..a3000, empty = -)
//   obs try=<k> settled=<y|n> subA=… subB=… dlvA=… dlvB=… mid=<ok|bad> refused=<n> lonA= loutA= lonB= loutB=
//       pairA=<ok|open|double> pairB= panics=<n> junk=<n> serveJ=<y|n|-> pipeJ=<y|n|-> stopped=<y|n> pdcuts=<n> hung=<n>
//   crashed <panic|fatal|exit>      the worker process died (an unrecovered panic of an engine goroutine)
//   stalled                         the worker did not answer in time
// The scheduling is real, so the observation is NOT predicted by the model: lean/Qfx/Drv/SockMon.lean decides the round.
//
// Every round runs in its own worker process (this binary, pseudo-family "sock-worker"): a crash of the engine is an
// observation, the global session registry / listeners / goroutines of a round die with its process; the engines are
// nevertheless stopped (Stop unregisters the sessions) and the scratch directory removed in the worker.

import (
	"bytes"
	"fmt"
	"io"
	"net"
	"os"
	"os/exec"
	"path/filepath"
	"runtime"
	"runtime/debug"
	"strconv"
	"strings"
	"sync"
	"sync/atomic"
	"time"

	"github.com/quickfixgo/quickfix"
	"github.com/quickfixgo/quickfix/config"
	"github.com/quickfixgo/quickfix/store/file"
)

// ---------------------------------------------------------------- proxy

type sockProxy struct {
	ln     net.Listener
	target string
	mu     sync.Mutex
	cond   *sync.Cond
	refuse bool
	hold   [2]bool // direction 0: initiator -> acceptor, 1: acceptor -> initiator
	armPD  [2]bool // cut once, when the first PossDup message is seen in that direction
	pdCuts int
	split  int
	links  map[*sockLink]bool
	closed bool
}

type sockLink struct {
	c    [2]net.Conn // c[0] towards the initiator, c[1] towards the acceptor
	q    [2][][]byte // q[d]: chunks read from c[d], not yet written to c[1-d]
	eof  [2]bool
	dead bool
}

func newSockProxy(target string, split int, refuse bool) (*sockProxy, error) {
	ln, err := net.Listen("tcp", "127.0.0.1:0")
	if err != nil {
		return nil, err
	}
	p := &sockProxy{ln: ln, target: target, split: split, refuse: refuse, links: map[*sockLink]bool{}}
	p.cond = sync.NewCond(&p.mu)
	go p.acceptLoop()
	return p, nil
}

func (p *sockProxy) port() int { return p.ln.Addr().(*net.TCPAddr).Port }

func (p *sockProxy) acceptLoop() {
	for {
		c, err := p.ln.Accept()
		if err != nil {
			return
		}
		p.mu.Lock()
		refuse := p.refuse || p.closed
		p.mu.Unlock()
		if refuse {
			c.Close()
			continue
		}
		go func() {
			s, err := net.DialTimeout("tcp", p.target, 2*time.Second)
			if err != nil {
				c.Close()
				return
			}
			l := &sockLink{c: [2]net.Conn{c, s}}
			p.mu.Lock()
			if p.refuse || p.closed {
				p.mu.Unlock()
				c.Close()
				s.Close()
				return
			}
			p.links[l] = true
			p.mu.Unlock()
			for d := 0; d < 2; d++ {
				go p.reader(l, d)
				go p.writer(l, d)
			}
		}()
	}
}

func (p *sockProxy) reader(l *sockLink, d int) {
	buf := make([]byte, 4096)
	for {
		n, err := l.c[d].Read(buf)
		p.mu.Lock()
		if n > 0 && !l.dead && p.armPD[d] && bytes.Contains(buf[:n], []byte("\x0143=Y\x01")) {
			// the replay has started: reset the connection under it (SO_LINGER 0: the engine's next write fails)
			p.armPD[d] = false
			p.pdCuts++
			for k := range p.links {
				p.abortLocked(k)
			}
			p.mu.Unlock()
			return
		}
		if n > 0 && !l.dead {
			l.q[d] = append(l.q[d], append([]byte(nil), buf[:n]...))
		}
		if err != nil {
			l.eof[d] = true
		}
		p.cond.Broadcast()
		p.mu.Unlock()
		if err != nil {
			return
		}
	}
}

func (p *sockProxy) writer(l *sockLink, d int) {
	for {
		p.mu.Lock()
		for !l.dead && (p.hold[d] || (len(l.q[d]) == 0 && !l.eof[d])) {
			p.cond.Wait()
		}
		if l.dead {
			p.mu.Unlock()
			return
		}
		if len(l.q[d]) == 0 { // the source closed and everything it wrote has been passed on
			p.killLocked(l)
			p.mu.Unlock()
			return
		}
		chunk := l.q[d][0]
		l.q[d] = l.q[d][1:]
		split := p.split
		p.mu.Unlock()
		dst := l.c[1-d]
		if split <= 0 {
			split = len(chunk)
		}
		for off, k := 0, 0; off < len(chunk); off, k = off+split, k+1 {
			end := off + split
			if end > len(chunk) {
				end = len(chunk)
			}
			if _, err := dst.Write(chunk[off:end]); err != nil {
				p.mu.Lock()
				p.killLocked(l)
				p.mu.Unlock()
				return
			}
			if split < len(chunk) {
				if k%8 == 7 {
					time.Sleep(100 * time.Microsecond)
				} else {
					runtime.Gosched()
				}
			}
		}
	}
}

func (p *sockProxy) killLocked(l *sockLink) {
	if l.dead {
		return
	}
	l.dead = true
	l.q = [2][][]byte{}
	l.c[0].Close()
	l.c[1].Close()
	delete(p.links, l)
	p.cond.Broadcast()
}

func (p *sockProxy) abortLocked(l *sockLink) {
	for _, c := range l.c {
		if tc, ok := c.(*net.TCPConn); ok {
			tc.SetLinger(0)
		}
	}
	p.killLocked(l)
}

func (p *sockProxy) arm(d int) {
	p.mu.Lock()
	p.armPD[d] = true
	p.mu.Unlock()
}

// cut closes every link in both directions; whatever the proxy holds is lost.
func (p *sockProxy) cut() {
	p.mu.Lock()
	for l := range p.links {
		p.killLocked(l)
	}
	p.mu.Unlock()
}

func (p *sockProxy) setHold(ab, ba bool) {
	p.mu.Lock()
	p.hold = [2]bool{ab, ba}
	p.cond.Broadcast()
	p.mu.Unlock()
}

func (p *sockProxy) setRefuse(b bool) {
	p.mu.Lock()
	p.refuse = b
	p.mu.Unlock()
}

func (p *sockProxy) close() {
	p.mu.Lock()
	p.closed = true
	p.mu.Unlock()
	p.ln.Close()
	p.cut()
}

// ---------------------------------------------------------------- recording application / log

type sockRound struct {
	kv   map[string]string
	ev   []string
	id   string
	bs   string
	hb   int
	dir  string
	try  int

	accPort int
	px      *sockProxy
	acc     *quickfix.Acceptor
	ini     *quickfix.Initiator
	sid     [2]quickfix.SessionID // [0] the initiator's session (A -> B), [1] the acceptor's (B -> A)
	sidJ    quickfix.SessionID    // the acceptor's second session (B -> J), driven by raw connections
	setA    *quickfix.Settings
	setB    *quickfix.Settings

	mu         sync.Mutex
	sub        [2][]string
	dlv        [2][]string
	ctr        [2]int
	refused    int
	hung       [2]int // SendToTarget calls that did not return within 3 s
	midBad     bool
	batch      map[string]int // id -> number of the concurrent batch it was submitted in (absent: submitted alone)
	batches    int
	lon, lout  [2]int
	on         [2]bool // between an OnLogon and the next OnLogout
	dbl        [2]int  // OnLogon while already logged on
	lastChange time.Time
	panics     int32
	junkN      int
	jSeq       int
	dbg        []string
	t0         time.Time
}

type sockApp struct {
	r    *sockRound
	side int
}

func (a sockApp) real(id quickfix.SessionID) bool { return id == a.r.sid[a.side] }

func (a sockApp) OnCreate(quickfix.SessionID) {}
func (a sockApp) OnLogon(id quickfix.SessionID) {
	if !a.real(id) {
		return
	}
	a.r.mu.Lock()
	a.r.lon[a.side]++
	if a.r.on[a.side] {
		a.r.dbl[a.side]++
	}
	a.r.on[a.side] = true
	a.r.lastChange = time.Now()
	a.r.mu.Unlock()
	a.r.note("app%d OnLogon", a.side)
}
func (a sockApp) OnLogout(id quickfix.SessionID) {
	if !a.real(id) {
		return
	}
	a.r.mu.Lock()
	a.r.lout[a.side]++ // also after a logon attempt that failed (initiator) — not every OnLogout closes a logged-on period
	a.r.on[a.side] = false
	a.r.lastChange = time.Now()
	a.r.mu.Unlock()
	a.r.note("app%d OnLogout", a.side)
}
func (a sockApp) ToAdmin(*quickfix.Message, quickfix.SessionID)     {}
func (a sockApp) ToApp(*quickfix.Message, quickfix.SessionID) error { return nil }
func (a sockApp) FromAdmin(*quickfix.Message, quickfix.SessionID) quickfix.MessageRejectError {
	return nil
}
func (a sockApp) FromApp(m *quickfix.Message, id quickfix.SessionID) quickfix.MessageRejectError {
	if !a.real(id) {
		return nil
	}
	p, err := m.Body.GetString(9000)
	if err != nil {
		p = "?"
	}
	r := a.r
	r.mu.Lock()
	// the sampled moment of the safety clause: at every delivery, delivered must stay a prefix of what the other side
	// has submitted so far (a submission is recorded before SendToTarget is called, see submit)
	exp := r.sub[1-a.side]
	n := len(r.dlv[a.side])
	if b := r.batch[p]; b != 0 && n < len(exp) && exp[n] != p && r.batch[exp[n]] == b {
		// submitted concurrently with the one expected here: every order within the batch is a legal one, so the
		// batch's submission order is defined by the order of its first deliveries
		for j := n + 1; j < len(exp) && r.batch[exp[j]] == b; j++ {
			if exp[j] == p {
				exp[n], exp[j] = exp[j], exp[n]
				break
			}
		}
	}
	if n >= len(exp) || exp[n] != p {
		r.midBad = true
	}
	r.dlv[a.side] = append(r.dlv[a.side], p)
	r.lastChange = time.Now()
	r.mu.Unlock()
	r.note("app%d FromApp %s", a.side, p)
	return nil
}

func (r *sockRound) note(f string, a ...any) {
	r.mu.Lock()
	if len(r.dbg) < 4000 {
		r.dbg = append(r.dbg, fmt.Sprintf("%7.3f ", time.Since(r.t0).Seconds())+fmt.Sprintf(f, a...))
	}
	r.mu.Unlock()
}

type sockLog struct {
	r   *sockRound
	who string
}

func (l sockLog) OnIncoming(b []byte) { l.r.note("%s < %s", l.who, strings.ReplaceAll(string(b), "\x01", "|")) }
func (l sockLog) OnOutgoing(b []byte) { l.r.note("%s > %s", l.who, strings.ReplaceAll(string(b), "\x01", "|")) }
func (l sockLog) OnEvent(s string) {
	if strings.Contains(s, "anic") {
		atomic.AddInt32(&l.r.panics, 1)
	}
	if len(s) > 300 {
		s = s[:300]
	}
	l.r.note("%s ! %s", l.who, strings.ReplaceAll(strings.ReplaceAll(s, "\x01", "|"), "\n", " "))
}
func (l sockLog) OnEventf(f string, a ...interface{}) { l.OnEvent(fmt.Sprintf(f, a...)) }

type sockLogFactory struct {
	r   *sockRound
	who string
}

func (f sockLogFactory) Create() (quickfix.Log, error) { return sockLog{f.r, f.who + "*"}, nil }
func (f sockLogFactory) CreateSessionLog(id quickfix.SessionID) (quickfix.Log, error) {
	return sockLog{f.r, f.who + ":" + id.TargetCompID}, nil
}

// ---------------------------------------------------------------- engines

func sockDur(ms int) string {
	if ms%1000 == 0 {
		return strconv.Itoa(ms / 1000) // the integer-seconds form of the setting
	}
	return strconv.Itoa(ms) + "ms"
}

func (r *sockRound) sessSettings(snd, tgt, chunk string) *quickfix.SessionSettings {
	st := quickfix.NewSessionSettings()
	st.Set(config.BeginString, r.bs)
	st.Set(config.SenderCompID, snd)
	st.Set(config.TargetCompID, tgt)
	if chunk != "0" {
		st.Set(config.ResendRequestChunkSize, chunk)
	}
	if r.bs == "FIXT.1.1" {
		st.Set(config.DefaultApplVerID, "9")
	}
	st.Set(config.LogoutTimeout, "1")
	if r.kv["store"] == "file" {
		st.Set(config.FileStorePath, filepath.Join(r.dir, snd))
	}
	return st
}

func (r *sockRound) storeFactory(s *quickfix.Settings) quickfix.MessageStoreFactory {
	if r.kv["store"] == "file" {
		return file.NewStoreFactory(s)
	}
	return quickfix.NewMemoryStoreFactory()
}

func freePort() int {
	ln, err := net.Listen("tcp", "127.0.0.1:0")
	if err != nil {
		return 0
	}
	p := ln.Addr().(*net.TCPAddr).Port
	ln.Close()
	return p
}

func (r *sockRound) startAcceptor() error {
	var err error
	for attempt := 0; attempt < 6; attempt++ {
		if r.accPort == 0 {
			r.accPort = freePort()
		}
		s := quickfix.NewSettings()
		s.GlobalSettings().Set(config.SocketAcceptHost, "127.0.0.1")
		s.GlobalSettings().Set(config.SocketAcceptPort, strconv.Itoa(r.accPort))
		if r.sid[1], err = s.AddSession(r.sessSettings("B"+r.id, "A"+r.id, r.kv["cb"])); err != nil {
			return err
		}
		if r.kv["dyn"] == "1" {
			g := s.GlobalSettings()
			g.Set(config.DynamicSessions, "Y")
			g.Set(config.LogoutTimeout, "1")
			if r.bs == "FIXT.1.1" {
				g.Set(config.DefaultApplVerID, "9")
			}
			if r.kv["store"] == "file" {
				g.Set(config.FileStorePath, filepath.Join(r.dir, "B"+r.id))
			}
		} else if r.sidJ, err = s.AddSession(r.sessSettings("B"+r.id, "J"+r.id, "0")); err != nil {
			return err
		}
		r.setB = s
		var a *quickfix.Acceptor
		if a, err = quickfix.NewAcceptor(sockApp{r, 1}, r.storeFactory(s), s, sockLogFactory{r, "B"}); err != nil {
			return err
		}
		if r.kv["val"] == "1" {
			a.SetConnectionValidator(sockValidator{})
		}
		if err = a.Start(); err == nil {
			r.acc = a
			return nil
		}
		a.Stop() // unregisters the sessions; the port was taken by somebody else in the meantime
		if r.px != nil {
			return err // a restart must come back on the same port
		}
		r.accPort = 0
	}
	return err
}

type sockValidator struct{}

func (sockValidator) Validate(_ net.Conn, id quickfix.SessionID) error {
	if strings.HasPrefix(id.TargetCompID, "X") {
		return fmt.Errorf("counterparty %s not welcome", id.TargetCompID)
	}
	return nil
}

func (r *sockRound) startInitiator() error {
	s := quickfix.NewSettings()
	st := r.sessSettings("A"+r.id, "B"+r.id, r.kv["ca"])
	st.Set(config.SocketConnectHost, "127.0.0.1")
	st.Set(config.SocketConnectPort, strconv.Itoa(r.px.port()))
	st.Set(config.HeartBtInt, strconv.Itoa(r.hb))
	ri, _ := strconv.Atoi(r.kv["ri"])
	st.Set(config.ReconnectInterval, sockDur(ri))
	st.Set(config.LogonTimeout, "2")
	st.Set(config.SocketTimeout, []string{"2", "2500ms"}[ri/100%2])
	var err error
	if r.sid[0], err = s.AddSession(st); err != nil {
		return err
	}
	r.setA = s
	i, err := quickfix.NewInitiator(sockApp{r, 0}, r.storeFactory(s), s, sockLogFactory{r, "A"})
	if err != nil {
		return err
	}
	if err = i.Start(); err != nil {
		return err
	}
	r.ini = i
	return nil
}

// timed runs f, giving up (and leaving it behind) after d.
func timed(d time.Duration, f func()) bool {
	ch := make(chan struct{})
	go func() { f(); close(ch) }()
	select {
	case <-ch:
		return true
	case <-time.After(d):
		return false
	}
}

// submitConc: k application goroutines submit one message each on the same session at the same moment.
func (r *sockRound) submitConc(side, k int) {
	r.mu.Lock()
	if r.hung[side] > 0 {
		r.mu.Unlock()
		return
	}
	if r.batch == nil {
		r.batch = map[string]int{}
	}
	r.batches++
	ids := make([]string, k)
	for i := range ids {
		r.ctr[side]++
		ids[i] = string("ab"[side]) + strconv.Itoa(r.ctr[side])
		r.batch[ids[i]] = r.batches
		r.sub[side] = append(r.sub[side], ids[i])
	}
	r.mu.Unlock()
	var wg sync.WaitGroup
	start := make(chan struct{})
	for _, id := range ids {
		wg.Add(1)
		go func(id string) { defer wg.Done(); <-start; r.submitOne(side, id) }(id)
	}
	close(start)
	wg.Wait()
}

func (r *sockRound) submit(side, k int) {
	for i := 0; i < k; i++ {
		r.mu.Lock()
		if r.hung[side] > 0 { // a SendToTarget of this side never came back: the next one would not either
			r.mu.Unlock()
			return
		}
		r.ctr[side]++
		id := string("ab"[side]) + strconv.Itoa(r.ctr[side])
		r.sub[side] = append(r.sub[side], id) // recorded first: the delivery may overtake the return of SendToTarget
		r.mu.Unlock()
		if !r.submitOne(side, id) {
			return
		}
	}
}

// submitOne: one SendToTarget of an id already recorded as submitted; false when the call never came back.
func (r *sockRound) submitOne(side int, id string) bool {
	{
		m := quickfix.NewMessage()
		m.Header.SetString(35, "D")
		m.Body.SetString(9000, id)
		var err error
		if !timed(3*time.Second, func() { err = quickfix.SendToTarget(m, r.sid[side]) }) {
			r.mu.Lock()
			r.hung[side]++
			r.mu.Unlock()
			r.note("submit %s: SendToTarget did not return within 3s", id)
			return false
		}
		if err != nil {
			r.mu.Lock()
			for i := len(r.sub[side]) - 1; i >= 0; i-- {
				if r.sub[side][i] == id {
					r.sub[side] = append(r.sub[side][:i:i], r.sub[side][i+1:]...)
					break
				}
			}
			r.refused++
			r.mu.Unlock()
			r.note("submit %s refused: %v", id, err)
		} else {
			r.note("submit %s", id)
		}
	}
	return true
}

func (r *sockRound) isUp() bool {
	r.mu.Lock()
	defer r.mu.Unlock()
	return r.on[0] && r.on[1]
}

func (r *sockRound) waitUp(d time.Duration) bool {
	end := time.Now().Add(d)
	for time.Now().Before(end) {
		if r.isUp() {
			return true
		}
		time.Sleep(10 * time.Millisecond)
	}
	return r.isUp()
}

func (r *sockRound) equalNow() bool {
	r.mu.Lock()
	defer r.mu.Unlock()
	return sockEq(r.dlv[0], r.sub[1]) && sockEq(r.dlv[1], r.sub[0])
}

func (r *sockRound) pxCuts() int {
	r.px.mu.Lock()
	defer r.px.mu.Unlock()
	return r.px.pdCuts
}

// csvR: comma separated ids, runs of consecutive ids (same letter, numbers +1) written first..last
func csvR(xs []string) string {
	if len(xs) == 0 {
		return "-"
	}
	num := func(s string) (byte, int, bool) {
		if len(s) < 2 {
			return 0, 0, false
		}
		n, err := strconv.Atoi(s[1:])
		if err != nil || n < 0 || strconv.Itoa(n) != s[1:] {
			return 0, 0, false
		}
		return s[0], n, true
	}
	var out []string
	for i := 0; i < len(xs); {
		j := i
		if c, n, ok := num(xs[i]); ok {
			for j+1 < len(xs) {
				c2, n2, ok2 := num(xs[j+1])
				if !ok2 || c2 != c || n2 != n+(j+1-i) {
					break
				}
				j++
			}
		}
		if j-i >= 2 {
			out = append(out, xs[i]+".."+xs[j])
		} else {
			out = append(out, xs[i:j+1]...)
		}
		i = j + 1
	}
	return strings.Join(out, ",")
}

func sockEq(a, b []string) bool {
	if len(a) != len(b) {
		return false
	}
	for i := range a {
		if a[i] != b[i] {
			return false
		}
	}
	return true
}

// ---------------------------------------------------------------- raw connections

func (r *sockRound) accAddr() string { return "127.0.0.1:" + strconv.Itoa(r.accPort) }

func (r *sockRound) frame(fieldsHex string) []byte {
	return sockFrame(strings.Split(string(unhx(fieldsHex)), "|"))
}

// sockFrame: like wireBytes (first field, BodyLength, the rest, CheckSum; `52=@0` = now) but the fields need not be
// well-formed `tag=value` pairs.
func sockFrame(fields []string) []byte {
	if len(fields) == 0 {
		return nil
	}
	now := time.Now().UTC().Format("20060102-15:04:05.000")
	var rest bytes.Buffer
	for _, f := range fields[1:] {
		if f == "52=@0" {
			f = "52=" + now
		}
		rest.WriteString(f + "\x01")
	}
	var b bytes.Buffer
	b.WriteString(fields[0] + "\x01")
	b.WriteString("9=" + strconv.Itoa(rest.Len()) + "\x01")
	b.Write(rest.Bytes())
	sum := 0
	for _, c := range b.Bytes() {
		sum += int(c)
	}
	b.WriteString(fmt.Sprintf("10=%03d\x01", sum%256))
	return b.Bytes()
}

func (r *sockRound) junkRaw(b []byte) {
	r.junkN++
	c, err := net.DialTimeout("tcp", r.accAddr(), 2*time.Second)
	if err != nil {
		r.note("junk: dial failed %v", err)
		return
	}
	defer c.Close()
	c.SetWriteDeadline(time.Now().Add(2 * time.Second))
	c.Write(b)
	c.SetReadDeadline(time.Now().Add(150 * time.Millisecond))
	io.Copy(io.Discard, c)
}

func (r *sockRound) jLogon(seq int) []byte {
	f := []string{"8=" + r.bs, "35=A", "49=J" + r.id, "56=B" + r.id, "34=" + strconv.Itoa(seq), "52=@0", "98=0", "108=30", "141=Y"}
	if r.bs == "FIXT.1.1" {
		f = append(f, "1137=9")
	}
	return wireBytes(f)
}

// readUntil reads from c until pat shows up (true) or the deadline / the end of the stream (false).
func readUntil(c net.Conn, d time.Duration, pats ...string) bool {
	c.SetReadDeadline(time.Now().Add(d))
	var acc []byte
	buf := make([]byte, 2048)
	for {
		n, err := c.Read(buf)
		acc = append(acc, buf[:n]...)
		all := true
		for _, p := range pats {
			if !bytes.Contains(acc, []byte(p)) {
				all = false
			}
		}
		if all {
			return true
		}
		if err != nil {
			return false
		}
	}
}

// junkSession: session J logs on for real (sequence reset requested) and then sends the items.
func (r *sockRound) junkSession(items string) {
	r.junkN++
	c, err := net.DialTimeout("tcp", r.accAddr(), 2*time.Second)
	if err != nil {
		return
	}
	defer c.Close()
	c.SetWriteDeadline(time.Now().Add(3 * time.Second))
	c.Write(r.jLogon(1))
	if !readUntil(c, 2*time.Second, "\x0135=A\x01") {
		r.note("junk session: no logon reply")
	}
	for _, it := range strings.Split(items, "+") {
		if len(it) < 2 {
			continue
		}
		switch it[0] {
		case 'm':
			c.Write(r.frame(it[1:]))
		case 'r':
			c.Write(unhx(it[1:]))
		}
	}
	c.SetReadDeadline(time.Now().Add(150 * time.Millisecond))
	io.Copy(io.Discard, c)
}

// probeJ: after all the junk the acceptor must still accept a Logon of session J on a new connection and answer a
// TestRequest (C09: "a session that received garbage still processes the next well-formed message").
func (r *sockRound) probeJ() bool {
	for attempt := 0; attempt < 5; attempt++ {
		ok := func() bool {
			c, err := net.DialTimeout("tcp", r.accAddr(), 2*time.Second)
			if err != nil {
				return false
			}
			defer c.Close()
			c.SetWriteDeadline(time.Now().Add(3 * time.Second))
			c.Write(r.jLogon(1))
			if !readUntil(c, 1500*time.Millisecond, "\x0135=A\x01") {
				return false
			}
			tr := "PROBE" + strconv.Itoa(attempt)
			c.Write(wireBytes([]string{"8=" + r.bs, "35=1", "49=J" + r.id, "56=B" + r.id, "34=2", "52=@0", "112=" + tr}))
			return readUntil(c, 1500*time.Millisecond, "\x0135=0\x01", "\x01112="+tr+"\x01")
		}()
		if ok {
			return true
		}
		r.note("probe J attempt %d failed", attempt)
		time.Sleep(300 * time.Millisecond)
	}
	return false
}

// probePipelined: a peer that does not wait for the Logon answer — Logon and TestRequest written with ONE Write, so
// that they can reach the acceptor in one read.  What the acceptor frames must not depend on that (C12): the
// TestRequest is answered like one sent separately.
func (r *sockRound) probePipelined() bool {
	for attempt := 0; attempt < 3; attempt++ {
		ok := func() bool {
			c, err := net.DialTimeout("tcp", r.accAddr(), 2*time.Second)
			if err != nil {
				return false
			}
			defer c.Close()
			c.SetWriteDeadline(time.Now().Add(3 * time.Second))
			tr := "PIPE" + strconv.Itoa(attempt)
			both := append(append([]byte(nil), r.jLogon(1)...),
				wireBytes([]string{"8=" + r.bs, "35=1", "49=J" + r.id, "56=B" + r.id, "34=2", "52=@0", "112=" + tr})...)
			c.Write(both)
			return readUntil(c, 2*time.Second, "\x0135=0\x01", "\x01112="+tr+"\x01")
		}()
		if ok {
			return true
		}
		r.note("pipelined probe attempt %d failed", attempt)
		time.Sleep(300 * time.Millisecond)
	}
	return false
}

// ---------------------------------------------------------------- one round

func parseSockOp(op string) (map[string]string, []string, bool) {
	w := strings.Fields(op)
	if len(w) < 2 || w[0] != "round" {
		return nil, nil, false
	}
	kv := map[string]string{}
	for _, x := range w[1:] {
		i := strings.IndexByte(x, '=')
		if i <= 0 {
			return nil, nil, false
		}
		kv[x[:i]] = x[i+1:]
	}
	for _, k := range []string{"id", "bs", "store", "ca", "cb", "hb", "ri", "split", "quiet", "wait", "start", "stop", "probe", "dyn", "val", "ev"} {
		if _, ok := kv[k]; !ok {
			return nil, nil, false
		}
	}
	var ev []string
	if kv["ev"] != "-" {
		ev = strings.Split(kv["ev"], ",")
	}
	return kv, ev, true
}

func atoiD(s string, d int) int {
	if n, err := strconv.Atoi(s); err == nil {
		return n
	}
	return d
}

func (r *sockRound) run() string {
	r.t0 = time.Now()
	r.lastChange = r.t0
	kv := r.kv
	r.id = kv["id"]
	r.bs = bsNames[atoiD(kv["bs"], 2)%len(bsNames)]
	r.hb = atoiD(kv["hb"], 1)
	if r.hb < 1 {
		r.hb = 1
	}
	r.dir = filepath.Join(runOutDir, "sock.scratch", fmt.Sprintf("%s.%d.%d", r.id, os.Getpid(), r.try))
	if err := os.MkdirAll(r.dir, 0o755); err != nil {
		return "harness-error mkdir"
	}
	defer os.RemoveAll(r.dir)

	if err := r.startAcceptor(); err != nil {
		return "harness-error acceptor " + strings.ReplaceAll(err.Error(), " ", "_")
	}
	px, err := newSockProxy(r.accAddr(), atoiD(kv["split"], 0), kv["start"] == "down")
	if err != nil {
		return "harness-error proxy"
	}
	r.px = px
	defer px.close()
	if err := r.startInitiator(); err != nil {
		return "harness-error initiator " + strings.ReplaceAll(err.Error(), " ", "_")
	}

	for _, e := range r.ev {
		r.note("event %s", e)
		r.event(e)
	}

	// settle: the link is left alone (no holds, no refusals) until both directions have delivered everything, or the link
	// has been up and quiet for three heartbeat intervals, or the bound is reached
	px.setHold(false, false)
	px.setRefuse(false)
	r.note("settling")
	bound := time.Duration(atoiD(kv["wait"], 10000)) * time.Millisecond
	quiet := time.Duration(atoiD(kv["quiet"], 300)) * time.Millisecond
	stable := 3 * time.Duration(r.hb) * time.Second
	end := time.Now().Add(bound)
	settled := false
	var upSince time.Time
	for time.Now().Before(end) {
		now := time.Now()
		r.mu.Lock()
		stuck := r.hung[0]+r.hung[1] > 0
		r.mu.Unlock()
		if stuck && now.After(end.Add(-bound).Add(3*time.Second)) {
			break // a SendToTarget never came back: the engine is stuck, three more seconds are enough
		}
		if !r.isUp() {
			upSince = time.Time{}
		} else {
			if upSince.IsZero() {
				upSince = now
			}
			if r.equalNow() {
				time.Sleep(quiet) // nothing may arrive a second time
				if r.isUp() {
					settled = true
					break
				}
				continue
			}
			r.mu.Lock()
			last := r.lastChange
			r.mu.Unlock()
			if now.Sub(upSince) >= stable && now.Sub(last) >= stable {
				settled = true // up and quiet, yet something is missing
				break
			}
		}
		time.Sleep(15 * time.Millisecond)
	}
	r.note("settled=%v", settled)

	serveJ, pipeJ := "-", "-"
	if kv["probe"] == "1" || kv["probe"] == "2" {
		serveJ = yn(r.probeJ())
	}
	if kv["probe"] == "2" {
		pipeJ = yn(r.probePipelined())
	}

	stopped := timed(8*time.Second, func() {
		if kv["stop"] == "ai" {
			r.acc.Stop()
			r.ini.Stop()
		} else {
			r.ini.Stop()
			r.acc.Stop()
		}
	})
	r.note("stopped=%v", stopped)

	r.mu.Lock()
	// every logged-on period is closed by an OnLogout before the next OnLogon and by the end of the round
	pair := func(s int) string {
		switch {
		case r.dbl[s] > 0:
			return "double"
		case r.on[s]:
			return "open"
		}
		return "ok"
	}
	obs := fmt.Sprintf("obs try=%d settled=%s subA=%s subB=%s dlvA=%s dlvB=%s mid=%s refused=%d lonA=%d loutA=%d lonB=%d loutB=%d pairA=%s pairB=%s panics=%d junk=%d serveJ=%s pipeJ=%s stopped=%s pdcuts=%d hung=%d",
		r.try, yn(settled), csvR(r.sub[0]), csvR(r.sub[1]), csvR(r.dlv[0]), csvR(r.dlv[1]), map[bool]string{false: "ok", true: "bad"}[r.midBad],
		r.refused, r.lon[0], r.lout[0], r.lon[1], r.lout[1], pair(0), pair(1), atomic.LoadInt32(&r.panics), r.junkN, serveJ, pipeJ, yn(stopped), r.pxCuts(), r.hung[0]+r.hung[1])
	complete := settled && sockEq(r.dlv[0], r.sub[1]) && sockEq(r.dlv[1], r.sub[0]) && !r.midBad && stopped && serveJ != "n" && pipeJ != "n" &&
		pair(0) == "ok" && pair(1) == "ok" && r.panics == 0 && r.hung[0]+r.hung[1] == 0
	dbg := append([]string(nil), r.dbg...)
	r.mu.Unlock()
	if !complete || getenv("VERIF_SOCK_DEBUG") != "" {
		// the engines' event logs of a round that did not come out clean, for the person reading the replay
		d := filepath.Join(runOutDir, "sock.debug")
		os.MkdirAll(d, 0o755)
		os.WriteFile(filepath.Join(d, fmt.Sprintf("round-%s.try%d.log", r.id, r.try)), []byte(strings.Join(r.ev, ",")+"\n"+obs+"\n"+strings.Join(dbg, "\n")+"\n"), 0o644)
	}
	return obs
}

func (r *sockRound) event(e string) {
	num := func(s string) int { return atoiD(s, 1) }
	switch {
	case e == "up":
		if r.waitUp(5*time.Second) && r.acc != nil {
			if _, ok := r.acc.RemoteAddr(r.sid[1]); !ok {
				r.note("acceptor does not know the address of its logged-on counterparty")
			}
		}
	case e == "cut":
		r.px.cut()
	case e == "hold":
		r.px.setHold(true, true)
	case e == "holdAB":
		r.px.setHold(true, false)
	case e == "holdBA":
		r.px.setHold(false, true)
	case e == "rel":
		r.px.setHold(false, false)
	case e == "cutpdAB":
		r.px.arm(0)
	case e == "cutpdBA":
		r.px.arm(1)
	case e == "down":
		r.px.setRefuse(true)
	case e == "open":
		r.px.setRefuse(false)
	case e == "rsA":
		if r.kv["store"] == "file" {
			timed(8*time.Second, r.ini.Stop)
			if err := r.startInitiator(); err != nil {
				r.note("restart A failed: %v", err)
			}
		}
	case e == "rsB":
		if r.kv["store"] == "file" {
			timed(8*time.Second, r.acc.Stop)
			if err := r.startAcceptor(); err != nil {
				r.note("restart B failed: %v", err)
			}
		}
	case strings.HasPrefix(e, "cA"):
		r.submitConc(0, num(e[2:]))
	case strings.HasPrefix(e, "cB"):
		r.submitConc(1, num(e[2:]))
	case strings.HasPrefix(e, "sA"):
		r.submit(0, num(e[2:]))
	case strings.HasPrefix(e, "sB"):
		r.submit(1, num(e[2:]))
	case strings.HasPrefix(e, "p"):
		var wg sync.WaitGroup
		for s := 0; s < 2; s++ {
			wg.Add(1)
			go func(s int) { defer wg.Done(); r.submit(s, num(e[1:])) }(s)
		}
		wg.Wait()
	case strings.HasPrefix(e, "w"):
		time.Sleep(time.Duration(num(e[1:])) * time.Millisecond)
	case strings.HasPrefix(e, "jraw:"):
		r.junkRaw(unhx(e[5:]))
	case strings.HasPrefix(e, "jmsg:"):
		r.junkRaw(r.frame(e[5:]))
	case strings.HasPrefix(e, "jses:"):
		r.junkSession(e[5:])
	}
}

// ---------------------------------------------------------------- worker process

func sockWorker() {
	try := 1
	if len(os.Args) > 3 {
		runOutDir = os.Args[2]
		try = atoiD(os.Args[3], 1)
	}
	var line string
	buf := make([]byte, 1<<20)
	n, _ := io.ReadFull(os.Stdin, buf)
	line = strings.TrimSpace(string(buf[:n]))
	kv, ev, ok := parseSockOp(line)
	if !ok {
		fmt.Println("bad-op")
		return
	}
	r := &sockRound{kv: kv, ev: ev, try: try}
	fmt.Println(func() (res string) {
		defer func() {
			if x := recover(); x != nil { // a panic of the round driver itself (not of an engine goroutine)
				fmt.Fprintf(os.Stderr, "driver panic: %v\n%s\n", x, debug.Stack())
				res = "panic"
			}
		}()
		return r.run()
	}())
}

// ---------------------------------------------------------------- supervisor (the family's impl)

type sockSup struct {
	junk     bool
	mu       sync.Mutex
	inflight map[string]chan string
	sem      chan struct{}
	retried  int
}

func newSockSup(junk bool) *sockSup {
	par := 3
	if runTier == "thorough" {
		par = 6
	}
	if v := atoiD(getenv("VERIF_SOCK_PAR"), 0); v > 0 {
		par = v
	}
	return &sockSup{junk: junk, inflight: map[string]chan string{}, sem: make(chan struct{}, par)}
}

func (s *sockSup) reset(string) {}

// budget of one worker: the script (every event bounded), the settling bound, the probes and the stops
func sockBudget(kv map[string]string, ev []string) time.Duration {
	d := 30 * time.Second
	d += time.Duration(atoiD(kv["wait"], 10000)) * time.Millisecond
	for _, e := range ev {
		switch {
		case e == "up":
			d += 5 * time.Second
		case strings.HasPrefix(e, "w"):
			d += time.Duration(atoiD(e[1:], 0)) * time.Millisecond
		case strings.HasPrefix(e, "j"):
			d += 3 * time.Second
		case strings.HasPrefix(e, "rs"):
			d += 10 * time.Second
		}
	}
	return d
}

func (s *sockSup) runWorker(op string, try int) string {
	kv, ev, ok := parseSockOp(op)
	if !ok {
		return "bad-op"
	}
	cmd := exec.Command(os.Args[0], "sock-worker", runOutDir, strconv.Itoa(try))
	cmd.Stdin = strings.NewReader(op + "\n")
	var stdout, stderr bytes.Buffer
	cmd.Stdout, cmd.Stderr = &stdout, &stderr
	if err := cmd.Start(); err != nil {
		return "stalled"
	}
	done := make(chan error, 1)
	go func() { done <- cmd.Wait() }()
	res := ""
	select {
	case <-done:
		for _, l := range strings.Split(stdout.String(), "\n") {
			if strings.HasPrefix(l, "obs ") || l == "panic" || l == "bad-op" || strings.HasPrefix(l, "harness-error") {
				res = l
			}
		}
		if res == "" {
			e := stderr.String()
			class := "exit"
			switch {
			case strings.Contains(e, "fatal error:"):
				class = "fatal"
			case strings.Contains(e, "panic:"):
				class = "panic"
			}
			res = "crashed " + class
			if len(e) > 6000 {
				e = e[:6000]
			}
			d := filepath.Join(runOutDir, "sock.debug")
			os.MkdirAll(d, 0o755)
			os.WriteFile(filepath.Join(d, fmt.Sprintf("round-%s.try%d.crash", kv["id"], try)), []byte(e), 0o644)
		}
	case <-time.After(sockBudget(kv, ev)):
		cmd.Process.Kill()
		<-done
		res = "stalled"
	}
	// whatever the worker left behind (it removes its directory itself unless it died)
	if ds, err := filepath.Glob(filepath.Join(runOutDir, "sock.scratch", kv["id"]+".*."+strconv.Itoa(try))); err == nil {
		for _, d := range ds {
			os.RemoveAll(d)
		}
	}
	return res
}

func (s *sockSup) start(op string) chan string {
	s.mu.Lock()
	defer s.mu.Unlock()
	if ch, ok := s.inflight[op]; ok {
		return ch
	}
	ch := make(chan string, 1)
	s.inflight[op] = ch
	go func() {
		s.sem <- struct{}{}
		defer func() { <-s.sem }()
		ch <- s.runWorker(op, 1)
	}()
	return ch
}

// sockTimingOnly: outcomes a starved machine could produce on a healthy engine — every one of them is a bounded wait
// that ran out.  Such a round is repeated (same op, at most twice, at most sockRetryBudget repeats per run); only the
// last attempt is reported.  A lost or duplicated message, a panic, a crash are never repeated.
func sockTimingOnly(obs string) bool {
	if obs == "stalled" {
		return true
	}
	if !strings.HasPrefix(obs, "obs ") {
		return false
	}
	return strings.Contains(obs, " settled=n ") || strings.Contains(obs, " serveJ=n ") || strings.Contains(obs, " pipeJ=n ") || strings.Contains(obs, " stopped=n") ||
		!strings.HasSuffix(obs, " hung=0")
}

const sockRetryBudget = 8

func (s *sockSup) exec(op string) string {
	kv, _, ok := parseSockOp(op)
	if !ok {
		return "bad-op"
	}
	ch := s.start(op)
	if !runReplay {
		// look ahead: the ops of the next cases are a function of (seed, tier, index) only, start them now
		idx := atoiD(kv["id"], 0)
		for j := idx + 1; j < runCases && j < idx+cap(s.sem); j++ {
			s.start(sockOp(runSeed, j, runTier, s.junk))
		}
	}
	obs := <-ch
	s.mu.Lock()
	delete(s.inflight, op)
	s.mu.Unlock()
	for try := 2; try <= 3 && sockTimingOnly(obs) && s.retried < sockRetryBudget && getenv("VERIF_SOCK_NORETRY") == ""; try++ {
		s.retried++
		obs = s.runWorker(op, try)
	}
	return obs
}

// ---------------------------------------------------------------- generator

func hexFields(f []string) string { return hx([]byte(strings.Join(f, "|"))) }

type sockGen struct {
	r        *rng
	bs       string
	id       string
	kinds    []string
	nextKind int
}

func (g *sockGen) hdr(kind, snd, tgt string, seq int, extra ...string) []string {
	f := []string{"8=" + g.bs, "35=" + kind, "49=" + snd, "56=" + tgt, "34=" + strconv.Itoa(seq), "52=@0"}
	return append(f, extra...)
}

// junk makes one hostile connection.  real=false: nothing that names the real session A<->B (before its first logon a
// forged Logon with the expected number would simply BE the counterparty).
func (g *sockGen) junk(real bool) string {
	r := g.r
	// the kinds rotate (start = a function of seed and round), so that a handful of rounds covers all of them
	k := g.nextKind
	g.nextKind++
	A, B, J := "A"+g.id, "B"+g.id, "J"+g.id
	logon := func(snd, tgt string, extra ...string) []string {
		f := g.hdr("A", snd, tgt, 1, append([]string{"98=0", "108=30"}, extra...)...)
		if g.bs == "FIXT.1.1" {
			f = append(f, "1137=9")
		}
		return f
	}
	stale := func(f []string) []byte {
		for i := range f {
			if f[i] == "52=@0" {
				f[i] = "52=20240101-00:00:00.000"
			}
		}
		return wireBytes(f)
	}
	n := 9
	if !real {
		n = 6
	}
	switch k % n {
	case 0: // random bytes over the FIX alphabet
		g.kinds = append(g.kinds, "junk.random")
		k := 1 + r.intn(200)
		b := make([]byte, k)
		for i := range b {
			if r.chance(1, 6) {
				b[i] = byte(r.intn(256))
			} else {
				b[i] = r.pickByte([]byte("8=FIX.4219035\x01\x01\x01=ADx-"))
			}
		}
		return "jraw:" + hx(b)
	case 1: // a Logon cut short
		g.kinds = append(g.kinds, "junk.truncated")
		b := stale(logon("X"+g.id, B))
		return "jraw:" + hx(b[:r.intn(len(b))])
	case 2: // a well-formed Logon (or other message) for a session the acceptor does not know
		g.kinds = append(g.kinds, "junk.unknown-session")
		switch r.intn(4) {
		case 0:
			return "jmsg:" + hexFields(logon("X"+g.id, B))
		case 1:
			return "jmsg:" + hexFields(logon(A, "Y"+g.id))
		case 2:
			return "jmsg:" + hexFields(append(logon("X"+g.id, B), "50=s", "57=t", "142=l", "143=m"))
		default:
			f := logon(A, B)
			f[0] = "8=FIX.4.0"
			return "jmsg:" + hexFields(f)
		}
	case 3: // BodyLength huge / negative / empty / not a number
		g.kinds = append(g.kinds, "junk.body-length")
		b := stale(logon("X"+g.id, B))
		i := bytes.Index(b, []byte("\x019="))
		j := bytes.IndexByte(b[i+3:], 1)
		nl := r.pick([]string{"", "0", "-5", "99999999", "9223372036854775807", "9223372036854775806", "abc", "5", "18446744073709551617"})
		b = append(append(append([]byte(nil), b[:i+3]...), nl...), b[i+3+j:]...)
		return "jraw:" + hx(b)
	case 4: // a framed first message that is not a usable Logon: header fields missing, empty, duplicated, not a message
		g.kinds = append(g.kinds, "junk.bad-first-message")
		f := logon("X"+g.id, B)
		switch r.intn(7) {
		case 0:
			f = append(f[:2], f[3:]...) // no SenderCompID
		case 1:
			f = append(f[:3], f[4:]...) // no TargetCompID
		case 2:
			f[2] = "49="
		case 3:
			f = append(f, "50=", "57=")
		case 4:
			f = []string{"8=" + g.bs, "35=A"}
		case 5:
			f = append(f, "212=9999", "213=<a/>")
		default:
			f = append(f, "453=9999999", "448=a")
		}
		b := stale(f)
		if r.chance(1, 3) { // and without the CheckSum field's terminator / with a flipped byte
			b[r.intn(len(b))] = byte(r.intn(256))
		}
		return "jraw:" + hx(b)
	case 5: // the second session logs on for real and then talks rubbish
		g.kinds = append(g.kinds, "junk.logon-then-garbage")
		var items []string
		k := 1 + r.intn(5)
		seq := 2
		for i := 0; i < k; i++ {
			switch r.intn(8) {
			case 0: // in-sequence application message, then the session is fine
				items = append(items, "m"+hexFields(g.hdr("D", J, B, seq, "9000=x")))
				seq++
			case 1: // a field with an empty value / an empty integer
				items = append(items, "m"+hexFields(g.hdr(r.pick([]string{"0", "1", "2", "4", "D"}), J, B, seq, r.pick([]string{"112=", "7=", "16=", "36=", "123=", "43="}))))
			case 2: // sequence number empty, negative, huge, too high, too low
				f := g.hdr(r.pick([]string{"0", "D", "2", "4", "5"}), J, B, seq)
				f[4] = "34=" + r.pick([]string{"", "-1", "99999999999999999999", "50", "1", "0", "x"})
				items = append(items, "m"+hexFields(f))
			case 3: // ResendRequest / SequenceReset with odd ranges
				if r.chance(1, 2) {
					items = append(items, "m"+hexFields(g.hdr("2", J, B, seq, "7="+r.pick([]string{"0", "1", "5", "-1", "999"}), "16="+r.pick([]string{"0", "1", "3", "-2", "999999"}))))
				} else {
					items = append(items, "m"+hexFields(g.hdr("4", J, B, seq, "123="+r.pick([]string{"Y", "N", "x"}), "36="+r.pick([]string{"0", "1", "50", "-3", ""}))))
				}
				seq++
			case 4: // wrong CompIDs / BeginString / no SendingTime / PossDup without OrigSendingTime
				f := g.hdr("D", J, B, seq, "9000=y")
				switch r.intn(4) {
				case 0:
					f[2] = "49=Z"
				case 1:
					f[0] = "8=FIX.4.1"
				case 2:
					f = append(f[:5], f[6:]...)
				default:
					f = append(f, "43=Y")
				}
				items = append(items, "m"+hexFields(f))
			case 5: // framed but not parseable: no MsgType, fields without '=', XMLData with a wrong length, a huge group count
				f := g.hdr("D", J, B, seq)
				switch r.intn(4) {
				case 0:
					f = append(f[:1], f[2:]...)
				case 1:
					f = append(f, "novalue", "=", "4x=1")
				case 2:
					f = append(f, "212="+r.pick([]string{"9999", "0", "-1", "x"}), "213=<a/>")
				default:
					f = append(f, "453="+r.pick([]string{"9999999", "-1", ""}), "448=a")
				}
				items = append(items, "m"+hexFields(f))
			case 6: // a second Logon inside the session, a Logout, a Reject of nothing
				items = append(items, "m"+hexFields(g.hdr(r.pick([]string{"A", "5", "3", "j"}), J, B, seq, "98=0", "108="+r.pick([]string{"30", "0", "-1", ""}), "45=77", "372=D", "380=1")))
				seq++
			default: // literal rubbish between the frames (kills the connection at the first bad length)
				b := make([]byte, 1+r.intn(60))
				for i := range b {
					b[i] = r.pickByte([]byte("8=FIX.4219035\x01\x01=ADx-\x00\xff"))
				}
				items = append(items, "r"+hx(b))
			}
		}
		return "jses:" + strings.Join(items, "+")
	case 6: // a second Logon for the REAL session while it is connected (or, if it just dropped, one with a stale number)
		// SendingTime is stale on purpose: a well-formed Logon of the real CompIDs with the expected number and a current
		// time IS the counterparty (when the link happens to be down the acceptor takes it and the number is spent)
		g.kinds = append(g.kinds, "junk.duplicate-logon")
		f := logon(A, B)
		f[5] = "52=20240101-00:00:00.000"
		return "jmsg:" + hexFields(f)
	case 7: // a non-Logon first message for the real session
		g.kinds = append(g.kinds, "junk.real-session-non-logon")
		return "jmsg:" + hexFields(g.hdr(r.pick([]string{"0", "D", "1", "2", "5"}), A, B, 1, "112=q", "9000=zz", "7=1", "16=0"))
	default: // the real session's Logon, mutated
		g.kinds = append(g.kinds, "junk.real-logon-mutated")
		b := stale(logon(A, B))
		switch r.intn(3) {
		case 0:
			b = b[:r.intn(len(b))]
		case 1:
			b[r.intn(len(b))] = byte(r.intn(256))
		default:
			b = bytes.ReplaceAll(b, []byte{1}, []byte{'|'})
		}
		return "jraw:" + hx(b)
	}
}

func (g *sockGen) sends(ev []string) []string {
	r := g.r
	n := 1 + r.intn(3)
	for i := 0; i < n; i++ {
		switch r.intn(6) {
		case 0, 1:
			ev = append(ev, fmt.Sprintf("sA%d", 1+r.intn(4)))
		case 2, 3:
			ev = append(ev, fmt.Sprintf("sB%d", 1+r.intn(4)))
		case 4: // several application goroutines on one session at once
			ev = append(ev, fmt.Sprintf("c%s%d", r.pick([]string{"A", "B"}), 2+r.intn(3)))
		default:
			ev = append(ev, fmt.Sprintf("p%d", 1+r.intn(5)))
		}
		if r.chance(1, 3) {
			ev = append(ev, fmt.Sprintf("w%d", 1+r.intn(40)))
		}
	}
	return ev
}

// sockOp: the op line of case idx — a function of (seed, tier, idx, flavour) only, so the supervisor can start the
// rounds of the following cases while it waits for this one.
func sockOp(seed uint64, idx int, tier string, junk bool) string {
	op, _ := sockOpKinds(seed, idx, tier, junk)
	return op
}

func sockOpKinds(seed uint64, idx int, tier string, junk bool) (string, []string) {
	salt := uint64(0x50C4)
	if junk {
		salt = 0x7A11
	}
	r := newRng(seed*0x1000193 ^ uint64(idx+1)*0x9E3779B1 ^ salt<<40)
	r.u64()
	quick := tier != "thorough"
	if !junk && idx%sockReplayEvery == int(seed%sockReplayEvery) {
		return sockReplayCutOp(r, seed, idx)
	}
	bsi := []int{2, 4, 5}[r.intn(3)]
	g := &sockGen{r: r, bs: bsNames[bsi], id: strconv.Itoa(idx), nextKind: int(seed%9) + 3*idx}
	store := r.pick([]string{"mem", "file"})
	hb := 1
	if !quick && r.chance(1, 3) {
		hb = 2
	}
	ri := []int{200, 300, 500, 1000}[r.intn(4)]
	if !quick && r.chance(1, 3) {
		ri = 1000
	}
	split := []int{0, 0, 0, 1, 3, 7, 64}[r.intn(7)]
	quiet := 300
	if !quick {
		quiet = []int{300, 600, 1300}[r.intn(3)]
	}
	start := "open"
	var ev []string
	kind := func(k string) { g.kinds = append(g.kinds, k) }

	if junk {
		// C09 flavour: hostile connections before and while the real counterparty is connected
		if r.chance(1, 3) {
			start = "down"
			for i, n := 0, 1+r.intn(3); i < n; i++ {
				ev = append(ev, g.junk(false))
			}
			if r.chance(1, 2) {
				ev = append(ev, fmt.Sprintf("sA%d", 1+r.intn(2)))
			}
			ev = append(ev, "open")
		}
		ev = append(ev, "up")
		ev = g.sends(ev)
		n := 3 + r.intn(2)
		if !quick {
			n = 2 + r.intn(6)
		}
		for i := 0; i < n; i++ {
			ev = append(ev, g.junk(true))
			if r.chance(1, 2) {
				ev = g.sends(ev)
			}
			if r.chance(1, 6) {
				kind("fault.cut")
				ev = append(ev, "cut")
				if r.chance(1, 2) {
					ev = append(ev, g.junk(true))
				}
				ev = append(ev, "up")
			}
		}
		// every round: a well-formed Logon addressed to a CompID the acceptor does not have (the validator lets it pass;
		// with dyn=1 the acceptor creates that session instead of refusing it)
		{
			f := g.hdr("A", "A"+g.id, "Y"+g.id, 1, "98=0", "108=30")
			if g.bs == "FIXT.1.1" {
				f = append(f, "1137=9")
			}
			kind("junk.unknown-session")
			ev = append(ev, "jmsg:"+hexFields(f))
		}
		// after all of it the connection is cut once more: the acceptor must take the real initiator's NEXT Logon
		ev = append(ev, "cut")
		ev = g.sends(ev)
	} else {
		// C05 flavour: faults of the link while both sides keep submitting
		if r.chance(1, 5) {
			start = "down"
			kind("start.down")
			ev = g.sends(ev)
			ev = append(ev, fmt.Sprintf("w%d", 50+r.intn(300)), "open")
		} else if r.chance(1, 2) {
			kind("start.send-before-logon")
			ev = g.sends(ev)
		}
		ev = append(ev, "up")
		faults := 1
		if quick {
			if r.chance(1, 4) {
				faults = 2
			}
		} else {
			faults = 1 + r.intn(4)
		}
		for i := 0; i < faults; i++ {
			ev = g.sends(ev)
			x := r.intn(100)
			if i == 0 { // the first fault of the rounds rotates through the kinds
				x = []int{0, 30, 60, 70, 90}[(int(seed%5)+idx)%5]
			}
			switch {
			case x < 25:
				kind("fault.cut")
				ev = append(ev, "cut")
			case x < 55:
				kind("fault.hold-cut")
				ev = append(ev, r.pick([]string{"hold", "holdAB", "holdBA"}))
				ev = g.sends(ev)
				ev = append(ev, "cut", "rel")
			case x < 65:
				kind("fault.hold-release")
				ev = append(ev, r.pick([]string{"hold", "holdAB", "holdBA"}))
				ev = g.sends(ev)
				ev = append(ev, fmt.Sprintf("w%d", 20+r.intn(200)), "rel")
			case x < 85:
				kind("fault.outage")
				ev = append(ev, "down", "cut")
				ev = g.sends(ev)
				ev = append(ev, fmt.Sprintf("w%d", 100+r.intn(500)))
				if r.chance(1, 2) {
					ev = g.sends(ev)
				}
				ev = append(ev, "open")
			default:
				if store == "file" {
					kind("fault.restart")
					ev = append(ev, r.pick([]string{"rsA", "rsB"}))
				} else {
					kind("fault.cut")
					ev = append(ev, "cut")
				}
			}
			if r.chance(1, 2) {
				ev = g.sends(ev) // while the link is (probably) down
			}
			if r.chance(2, 3) {
				ev = append(ev, "up")
			}
		}
		if r.chance(1, 2) {
			ev = g.sends(ev)
		}
		if r.chance(1, 8) { // a little hostile traffic next to the real link
			ev = append(ev, "up", g.junk(true))
		}
	}
	probe, dyn, val := "0", 0, 0
	if junk {
		probe = []string{"2", "1"}[(int(seed%2)+idx)%2] // every other hostile round also probes with Logon+TestRequest in one write
		dyn = []int{0, 1, 0}[(int(seed%3)+idx)%3]
		val = []int{0, 0, 1, 1}[(int(seed%4)+idx)%4]
	}
	op := fmt.Sprintf("round id=%d bs=%d store=%s ca=%d cb=%d hb=%d ri=%d split=%d quiet=%d wait=10000 start=%s stop=%s probe=%s dyn=%d val=%d ev=%s",
		idx, bsi, store, r.intn(4), r.intn(4), hb, ri, split, quiet, start, r.pick([]string{"ia", "ai"}), probe, dyn, val, strings.Join(ev, ","))
	if dyn == 1 {
		g.kinds = append(g.kinds, "acceptor.dynamic-sessions")
	}
	if val == 1 {
		g.kinds = append(g.kinds, "acceptor.connection-validator")
	}
	g.kinds = append(g.kinds, "bs."+g.bs, "store."+store, fmt.Sprintf("split.%d", split))
	return op, g.kinds
}

// One round in sockReplayEvery (so at least one per quick budget, which one is a function of the seed) is the
// "cut in the middle of a replay" round: while the link is down one side submits a large backlog; when the link comes
// back the other side asks for it (ResendRequest, no chunking), and the proxy resets the connection the moment the
// first replayed message passes — the replaying engine is then in the middle of a burst of blocking sends to its write
// loop.  Afterwards the proxy only forwards: the backlog has to arrive after the next logon.  The backlog is large
// enough that the burst cannot be finished before the reset takes effect (see notes/sock.md for the measurement).
const sockReplayEvery = 7

// measured on the seeded change "writeLoop returns after a failed write" under 64 busy loops on 16 cores: a backlog of
// 300 was missed in 1 of 6 rounds (the replay was over before the reset took effect), 1000 / 2000 / 3000 in 0 of 18
func sockReplayBacklog(store string) int {
	if store == "file" {
		return 2000 // the file store makes both the submissions and the replay slower
	}
	return 3000
}

func sockReplayCutOp(r *rng, seed uint64, idx int) (string, []string) {
	bsi := []int{2, 4, 5}[r.intn(3)]
	store := r.pick([]string{"mem", "file"})
	dir := []string{"BA", "AB"}[(int(seed/sockReplayEvery)+int(seed)+idx/sockReplayEvery)%2]
	from, other := "B", "A" // BA: the acceptor replays towards the initiator
	if dir == "AB" {
		from, other = "A", "B"
	}
	ev := []string{"up", fmt.Sprintf("s%s%d", from, 1+r.intn(3)), fmt.Sprintf("s%s%d", other, 1+r.intn(3)), "down", "cut",
		fmt.Sprintf("s%s%d", from, sockReplayBacklog(store)), fmt.Sprintf("s%s%d", other, 1+r.intn(3)), "cutpd" + dir, "open", "up",
		fmt.Sprintf("s%s%d", from, 1+r.intn(2)), fmt.Sprintf("s%s%d", other, 1+r.intn(2))}
	op := fmt.Sprintf("round id=%d bs=%d store=%s ca=0 cb=0 hb=1 ri=200 split=0 quiet=300 wait=10000 start=open stop=%s probe=0 dyn=0 val=0 ev=%s",
		idx, bsi, store, r.pick([]string{"ia", "ai"}), strings.Join(ev, ","))
	return op, []string{"fault.cut-during-replay." + dir, "bs." + bsNames[bsi], "store." + store, "split.0"}
}

func genSockFlavour(junk bool) func(r *rng, tier string, idx int, o *out, do func(string) string) string {
	return func(_ *rng, tier string, idx int, o *out, do func(string) string) string {
		op, kinds := sockOpKinds(runSeed, idx, tier, junk)
		obs := do(op)
		for _, k := range kinds {
			o.kind(k)
		}
		switch {
		case strings.HasPrefix(obs, "obs "):
			o.kind("outcome.observed")
			if strings.Contains(op, ",cutpd") {
				if strings.Contains(obs, " pdcuts=1 ") {
					o.kind("outcome.replay-cut-injected")
				} else {
					o.kind("outcome.replay-cut-NOT-injected")
				}
			}
			if strings.Contains(obs, " try=2 ") || strings.Contains(obs, " try=3 ") {
				o.kind("outcome.retried")
			}
		default:
			o.kind("outcome." + strings.Fields(obs + " ?")[0])
		}
		o.nontrivial(op)
		return "sock"
	}
}

func init() {
	if len(os.Args) > 1 && os.Args[1] == "sock-worker" {
		sockWorker()
		os.Exit(0)
	}
	families["sock"] = &family{newImpl: func() impl { return newSockSup(false) }, gen: genSockFlavour(false)}
	families["sockj"] = &family{newImpl: func() impl { return newSockSup(true) }, gen: genSockFlavour(true)}
}
