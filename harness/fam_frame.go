package main

// family "frame": the stream framer parser.go (C12, framer part of C09).
//
// One case = one byte stream read under several partitions.  Ops:
//   stream <hex>                      set the stream; read it through a reader that hands out the whole stream at once
//   parts j<hex> m<hex> j<hex> …      same, the stream is the concatenation; the split into junk / messages is a CLAIM that
//                                     the monitor verifies itself (well-formed frames, junk without "8=") before it demands exactness
//   cuts <sizes> <eofd> [eof|io]      read the current stream through a reader that serves exactly these chunks
//                                     (sizes: csv of n or nxk = k chunks of n bytes; a remainder is one last chunk; 0 = a (0,nil) read;
//                                     a chunk larger than the room asked for is served in several reads);
//                                     eofd=y: the last bytes come together with the final error;
//                                     io: the reader ends with a connection error instead of io.EOF (default eof)
//   loop <sizes> <eofd> [eof|io]      same through connection.go readLoop (frames delivered on the channel; the error is only logged)
// Observation:
//   frames <hex>,<hex>,…|- end eof|io|length|panic|hang
//   (loop: frames … end closed)
//   end: eof = io.EOF from the reader, io = the reader's own error, length = any other error (jumpLength), panic, hang = no result in 20 s.

import (
	"errors"
	"fmt"
	"io"
	"strconv"
	"strings"
	"time"

	"github.com/quickfixgo/quickfix"
)

type chunkReader struct {
	chunks    [][]byte
	eofd      bool
	endErr    error
	zeroReads int
}

var errVerifIO = errors.New("read tcp: connection reset by peer")

func (r *chunkReader) Read(p []byte) (int, error) {
	if len(r.chunks) == 0 {
		return 0, r.endErr
	}
	if len(p) == 0 {
		// a zero-length read makes no progress: the parser would spin (the model calls this a fault)
		r.zeroReads++
		if r.zeroReads > 1000 {
			panic("zero-length reads: parser makes no progress")
		}
		return 0, nil
	}
	c := r.chunks[0]
	k := len(c)
	if k > len(p) {
		k = len(p)
	}
	copy(p, c[:k])
	if k == len(c) {
		r.chunks = r.chunks[1:]
	} else {
		r.chunks[0] = c[k:]
	}
	if r.eofd && len(r.chunks) == 0 {
		return k, r.endErr
	}
	return k, nil
}

func parseSizes(s string) []int {
	if s == "-" {
		return nil
	}
	var res []int
	for _, t := range strings.Split(s, ",") {
		if i := strings.IndexByte(t, 'x'); i >= 0 {
			n, e1 := strconv.Atoi(t[:i])
			k, e2 := strconv.Atoi(t[i+1:])
			if e1 != nil || e2 != nil || n < 0 || k < 0 {
				panic("bad sizes " + s)
			}
			for j := 0; j < k; j++ {
				res = append(res, n)
			}
			continue
		}
		n, err := strconv.Atoi(t)
		if err != nil || n < 0 {
			panic("bad sizes " + s)
		}
		res = append(res, n)
	}
	return res
}

// cutStream: chunk i takes min(size_i, what is left); what is left after the last size is one more chunk.
func cutStream(s []byte, sizes []int) [][]byte {
	var res [][]byte
	pos := 0
	for _, n := range sizes {
		if n > len(s)-pos {
			n = len(s) - pos
		}
		res = append(res, s[pos:pos+n])
		pos += n
	}
	if pos < len(s) {
		res = append(res, s[pos:])
	}
	return res
}

type frameImpl struct {
	stream []byte
}

func (f *frameImpl) reset(string) { f.stream = nil }

func hexList(fr [][]byte) string {
	if len(fr) == 0 {
		return "-"
	}
	p := make([]string, len(fr))
	for i, b := range fr {
		p[i] = hx(b)
	}
	return strings.Join(p, ",")
}

// runParser drives the real parser until its first error, as readLoop does.
func runParser(chunks [][]byte, eofd bool, endErr error) string {
	type result struct{ s string }
	ch := make(chan result, 1)
	go func() {
		var frames [][]byte
		end := ""
		func() {
			defer func() {
				if r := recover(); r != nil {
					end = "panic"
				}
			}()
			vp := quickfix.VerifNewParser(&chunkReader{chunks: chunks, eofd: eofd, endErr: endErr})
			for {
				m, err := vp.ReadMessage()
				if err != nil {
					if err == io.EOF {
						end = "eof"
					} else if err == errVerifIO {
						end = "io"
					} else {
						end = "length"
					}
					return
				}
				frames = append(frames, m)
			}
		}()
		ch <- result{"frames " + hexList(frames) + " end " + end}
	}()
	select {
	case r := <-ch:
		return r.s
	case <-time.After(20 * time.Second):
		return "frames - end hang"
	}
}

func runLoop(chunks [][]byte, eofd bool, endErr error) string {
	ch := make(chan string, 1)
	go func() {
		defer func() {
			if r := recover(); r != nil {
				ch <- "frames - end panic"
			}
		}()
		fr := quickfix.VerifReadLoop(&chunkReader{chunks: chunks, eofd: eofd, endErr: endErr})
		ch <- "frames " + hexList(fr) + " end closed"
	}()
	select {
	case r := <-ch:
		return r
	case <-time.After(20 * time.Second):
		return "frames - end hang"
	}
}

func copyChunks(cs [][]byte) [][]byte {
	out := make([][]byte, len(cs))
	for i, c := range cs {
		out[i] = append([]byte(nil), c...)
	}
	return out
}

func (f *frameImpl) exec(op string) string {
	w := strings.Fields(op)
	return guard(func() string {
		switch {
		case len(w) == 2 && w[0] == "stream":
			f.stream = unhx(w[1])
			return runParser(copyChunks([][]byte{f.stream}), false, io.EOF)
		case len(w) >= 1 && w[0] == "parts":
			var s []byte
			for _, t := range w[1:] {
				if t[0] != 'j' && t[0] != 'm' {
					panic("bad part " + t)
				}
				s = append(s, unhx(t[1:])...)
			}
			f.stream = s
			return runParser(copyChunks([][]byte{f.stream}), false, io.EOF)
		case (len(w) == 3 || len(w) == 4) && (w[0] == "cuts" || w[0] == "loop"):
			var endErr error = io.EOF
			if len(w) == 4 {
				switch w[3] {
				case "io":
					endErr = errVerifIO
				case "eof":
				default:
					panic("bad op " + op)
				}
			}
			if w[0] == "cuts" {
				return runParser(copyChunks(cutStream(f.stream, parseSizes(w[1]))), w[2] == "y", endErr)
			}
			return runLoop(copyChunks(cutStream(f.stream, parseSizes(w[1]))), w[2] == "y", endErr)
		}
		panic("bad op " + op)
	})
}

// ---------------------------------------------------------------- generator

const soh = 0x01

var beginStrings = []string{"FIX.4.0", "FIX.4.1", "FIX.4.2", "FIX.4.3", "FIX.4.4", "FIXT.1.1"}

// fragments that the parser searches for, sprinkled into bodies and junk
var hotFragments = []string{"8=", "\x019=", "\x0110=", "10=", "9=", "\x01", "8", "=", "\x018=FIX.4.2\x019=5\x01", "10=000\x01", "\x0110", "\x019"}

func randBody(r *rng, n int) []byte {
	// n >= 1 bytes, last one SOH
	b := make([]byte, 0, n)
	mode := r.intn(4)
	for len(b) < n-1 {
		switch {
		case mode == 0: // tag=value fields
			fld := fmt.Sprintf("%d=%s\x01", r.rangeInt(1, 999), randText(r, r.rangeInt(0, 12)))
			b = append(b, fld...)
		case mode == 1 && r.chance(1, 6):
			b = append(b, r.pick(hotFragments)...)
		case mode == 2: // raw bytes
			b = append(b, byte(r.intn(256)))
		default:
			b = append(b, r.pickByte([]byte("0123456789=8\x01ABCxyz.-|")))
		}
	}
	b = b[:n-1]
	return append(b, soh)
}

func randText(r *rng, n int) string {
	const al = "ABCDEFGHIJKLMNOPQRSTUVWXYZ0123456789.:-"
	b := make([]byte, n)
	for i := range b {
		b[i] = al[r.intn(len(al))]
	}
	return string(b)
}

func checksum(b []byte) int {
	s := 0
	for _, c := range b {
		s += int(c)
	}
	return s % 256
}

// marks: stream-relative positions of the bytes the parser's searches hinge on
type fixMsg struct {
	bytes []byte
	marks []int // offsets inside bytes where a cut falls inside 8= / SOH9= / digits / SOH10= / final SOH
}

func mkMsg(r *rng, bodyLen int, lenText string) fixMsg {
	begin := r.pick(beginStrings)
	if r.chance(1, 10) {
		begin = randText(r, r.rangeInt(0, 9))
	}
	body := randBody(r, bodyLen)
	if lenText == "" {
		lenText = strconv.Itoa(len(body))
		if r.chance(1, 12) {
			lenText = strings.Repeat("0", r.rangeInt(1, 3)) + lenText
		}
	}
	var m fixMsg
	b := []byte("8=" + begin + "\x019=")
	for i := 1; i <= 2; i++ {
		m.marks = append(m.marks, i)
	}
	for i := len(b) - 3; i <= len(b); i++ {
		m.marks = append(m.marks, i)
	}
	b = append(b, lenText...)
	for i := len(b) - len(lenText); i <= len(b); i++ {
		m.marks = append(m.marks, i)
	}
	b = append(b, soh)
	m.marks = append(m.marks, len(b))
	b = append(b, body...)
	for i := len(b) - 1; i <= len(b)+3; i++ {
		m.marks = append(m.marks, i)
	}
	b = append(b, fmt.Sprintf("10=%03d", checksum(b))...)
	m.marks = append(m.marks, len(b))
	b = append(b, soh)
	m.bytes = b
	return m
}

func randJunk(r *rng, n int) []byte {
	b := make([]byte, n)
	mode := r.intn(3)
	for i := range b {
		switch mode {
		case 0:
			b[i] = byte(r.intn(256))
		case 1:
			b[i] = r.pickByte([]byte("89=10\x01-FIX.4"))
		default:
			b[i] = r.pickByte([]byte("\r\n abc8=\x01"))
		}
	}
	// no BeginString marker: break every "8="
	for i := 1; i < len(b); i++ {
		if b[i-1] == '8' && b[i] == '=' {
			if r.chance(1, 2) {
				b[i] = '-'
			} else {
				b[i-1] = '9'
			}
		}
	}
	return b
}

func pickBodyLen(r *rng, tier string) int {
	x := r.intn(1000)
	switch {
	case x < 600:
		return r.rangeInt(1, 60)
	case x < 900:
		return r.rangeInt(60, 400)
	case x < 960:
		return r.rangeInt(400, 1500)
	case x < 985:
		return r.rangeInt(4000, 4200) // around the initial buffer size
	case x < 995:
		return r.rangeInt(4200, 9000) // larger than the buffer: grow once
	default:
		if tier == "thorough" {
			return r.rangeInt(9000, 40000)
		}
		return r.rangeInt(9000, 17000)
	}
}

var badLengths = []string{"", "-", "-5", "-0", "0", "00", "+5", "5a", "a", " 7", "7 ", "1.5", "999999999", "4294967296",
	"9223372036854775807", "9223372036854775806", "9223372036854775800", "9223372036854775808", "18446744073709551616",
	"18446744073709551621", "99999999999999999999", "123456789012345678901234567890", "-9223372036854775808", "1", "2", "3"}

func sizesCSV(sz []int) string {
	if len(sz) == 0 {
		return "-"
	}
	// run-length encode
	var p []string
	for i := 0; i < len(sz); {
		j := i
		for j < len(sz) && sz[j] == sz[i] {
			j++
		}
		if j-i > 1 {
			p = append(p, fmt.Sprintf("%dx%d", sz[i], j-i))
		} else {
			p = append(p, strconv.Itoa(sz[i]))
		}
		i = j
	}
	return strings.Join(p, ",")
}

// cutsAt turns a sorted list of cut positions into chunk sizes
func cutsAt(pos []int, total int) []int {
	var sz []int
	last := 0
	for _, p := range pos {
		if p <= last || p >= total {
			continue
		}
		sz = append(sz, p-last)
		last = p
	}
	return sz
}

func randomSizes(r *rng, total int, fine bool) []int {
	var sz []int
	left := total
	mode := r.intn(4)
	for left > 0 {
		var n int
		switch {
		case fine || mode == 0:
			n = r.rangeInt(1, 4)
		case mode == 1:
			n = r.rangeInt(1, 40)
		case mode == 2:
			x := r.intn(10)
			if x < 5 {
				n = r.rangeInt(1, 8)
			} else if x < 9 {
				n = r.rangeInt(8, 300)
			} else {
				n = r.rangeInt(300, 6000)
			}
		default:
			n = r.rangeInt(1000, 9000)
		}
		if total > 3000 && n < 8 && !fine {
			n += 8 // keep the number of reads of very long streams moderate
		}
		if r.chance(1, 400) {
			n = 0 // a (0, nil) read
		}
		if n > left {
			n = left
		}
		sz = append(sz, n)
		left -= n
	}
	return sz
}

func frameGen(r *rng, tier string, idx int, o *out, do func(string) string) string {
	// ---- the stream
	var stream []byte
	var marks []int
	var first string
	kindSel := r.intn(100)
	var kind string
	switch {
	case kindSel < 50: // well-formed messages separated by junk without "8="
		kind = "wellformed"
		var toks []string
		nm := r.rangeInt(1, 4)
		if r.chance(1, 20) {
			nm = r.rangeInt(5, 12)
		}
		for i := 0; i <= nm; i++ {
			var j []byte
			if r.chance(2, 5) {
				j = randJunk(r, r.rangeInt(1, 30))
				if r.chance(1, 30) {
					j = randJunk(r, r.rangeInt(100, 5000))
				}
			}
			if len(j) > 0 || i == 0 {
				toks = append(toks, "j"+hx(j))
			}
			stream = append(stream, j...)
			if i == nm {
				break
			}
			m := mkMsg(r, pickBodyLen(r, tier), "")
			for _, k := range m.marks {
				marks = append(marks, len(stream)+k)
			}
			stream = append(stream, m.bytes...)
			toks = append(toks, "m"+hx(m.bytes))
		}
		first = "parts " + strings.Join(toks, " ")
	case kindSel < 85: // grammar-mutated streams
		kind = "mutated"
		nm := r.rangeInt(1, 4)
		bad := r.intn(nm)
		mut := r.intn(8)
		for i := 0; i < nm; i++ {
			if r.chance(1, 3) {
				stream = append(stream, randJunk(r, r.rangeInt(1, 20))...)
				if r.chance(1, 4) {
					stream = append(stream, "8="...) // a marker inside the junk
				}
			}
			lenText := ""
			bl := pickBodyLen(r, tier)
			if i == bad {
				switch mut {
				case 0:
					lenText = r.pick(badLengths)
					kind = "mutated:len=" + lenText
					if len(lenText) > 12 {
						kind = "mutated:len-huge"
					}
				case 1:
					lenText = strconv.Itoa(r.rangeInt(1, bl+30)) // wrong but plausible
					kind = "mutated:len-off"
				case 2:
					lenText = strconv.Itoa(bl + r.rangeInt(1, 200))
					kind = "mutated:len-long"
				}
			}
			m := mkMsg(r, bl, lenText)
			b := m.bytes
			if i == bad {
				switch mut {
				case 3: // no checksum field
					b = b[:len(b)-7]
					kind = "mutated:no-checksum"
				case 4: // no BodyLength tag
					if p := strings.Index(string(b), "\x019="); p >= 0 {
						b = append(append([]byte(nil), b[:p+1]...), b[p+3:]...)
					}
					kind = "mutated:no-9"
				case 5: // body does not end with SOH
					if p := strings.LastIndex(string(b), "\x0110="); p >= 0 {
						b = append(append([]byte(nil), b[:p]...), b[p+1:]...)
					}
					kind = "mutated:no-soh-before-10"
				case 6: // drop the final SOH
					b = b[:len(b)-1]
					kind = "mutated:no-final-soh"
				case 7:
					b = b[r.intn(len(b)):]
					kind = "mutated:headless"
				}
			}
			for _, k := range m.marks {
				if k < len(b) {
					marks = append(marks, len(stream)+k)
				}
			}
			stream = append(stream, b...)
		}
		if r.chance(1, 3) && len(stream) > 0 { // truncated stream
			stream = stream[:r.intn(len(stream)+1)]
			kind += "+trunc"
		}
		first = "stream " + hx(stream)
	default: // bytes over the alphabet the parser looks at
		kind = "soup"
		n := r.rangeInt(0, 80)
		al := []byte("8=9=10=\x01\x01\x01-0123456789A")
		if r.chance(1, 4) {
			al = []byte("8=\x019=10")
		}
		for i := 0; i < n; i++ {
			if r.chance(1, 5) {
				stream = append(stream, r.pick(hotFragments)...)
			} else {
				stream = append(stream, r.pickByte(al))
			}
		}
		if r.chance(1, 10) {
			for i := range stream {
				stream[i] = byte(r.intn(256))
			}
			kind = "random"
		}
		first = "stream " + hx(stream)
	}
	o.kind("stream:" + strings.SplitN(kind, "=", 2)[0])
	total := len(stream)
	switch {
	case total > 4096:
		o.kind("size:>4096")
	case total > 500:
		o.kind("size:501-4096")
	default:
		o.kind("size:<=500")
	}
	obs := do(first)
	w := strings.Fields(obs)
	nframes := 0
	if len(w) > 1 && w[1] != "-" {
		nframes = strings.Count(w[1], ",") + 1
	}
	endc := ""
	if len(w) > 3 {
		endc = w[3]
	}
	o.kind("end:" + endc)
	if nframes > 3 {
		o.kind("frames:>3")
	} else {
		o.kind(fmt.Sprintf("frames:%d", nframes))
	}
	eofd := func() string {
		e := yn(r.chance(1, 4))
		if r.chance(1, 6) {
			e += " io" // the reader ends with a connection error instead of io.EOF
		}
		return e
	}
	emit := func(pk string, op string) {
		o.kind("partition:" + pk)
		do(op)
		o.nontrivial(fmt.Sprintf("%s|%d|%s|%s|%d", kind, nframes, endc, pk, total/64))
	}
	// ---- partitions of the same stream
	// 1. one byte at a time (whole stream when short, otherwise fine-grained random)
	if total <= 1200 {
		emit("one-byte", fmt.Sprintf("cuts 1x%d %s", total, eofd()))
	} else if total <= 6000 {
		emit("fine", "cuts "+sizesCSV(randomSizes(r, total, true))+" "+eofd())
	} else {
		emit("coarse", "cuts "+sizesCSV(randomSizes(r, total, false))+" "+eofd())
	}
	// 2. random sizes
	emit("random", "cuts "+sizesCSV(randomSizes(r, total, false))+" "+eofd())
	// 3. every boundary inside the markers (8=, SOH9=, digits, SOH10=, last SOH) at once
	if len(marks) > 0 {
		emit("all-marks", "cuts "+sizesCSV(cutsAt(marks, total))+" "+eofd())
		// 4. one cut at a single marker position
		q := marks[r.intn(len(marks))]
		emit("one-mark", "cuts "+sizesCSV(cutsAt([]int{q}, total))+" "+eofd())
	} else if total > 0 {
		q := r.intn(total)
		emit("one-cut", "cuts "+sizesCSV(cutsAt([]int{q}, total))+" "+eofd())
	}
	// 5. buffer-sized chunks
	if total > 2000 {
		bs := []int{4096, 4095, 4097, 2048, 8192, 5000}[r.intn(6)]
		emit("buffer-sized", fmt.Sprintf("cuts %dx%d %s", bs, total/bs+1, eofd()))
	} else {
		emit("random2", "cuts "+sizesCSV(randomSizes(r, total, r.chance(1, 2)))+" "+eofd())
	}
	// 6. through readLoop
	emit("readLoop", "loop "+sizesCSV(randomSizes(r, total, false))+" "+eofd())
	// 7. every single cut position of a short stream
	if total >= 2 && total <= 64 && r.chance(1, 10) {
		for q := 1; q < total; q++ {
			emit("every-cut", fmt.Sprintf("cuts %d %s", q, yn(q%2 == 0)))
		}
	}
	return kind
}

func init() {
	families["frame"] = &family{
		newImpl: func() impl { return &frameImpl{} },
		gen:     frameGen,
	}
}
