package main

// family "sess" (C01 C03 C04 C06 C07 C08 C20, session part of C09): a real session built by the real
// factory from real settings, driven synchronously.  Ops (see lean/Qfx/Drv/Sess.lean):
//   cfg k=v…           build the session (role, BeginString, chunk, reset flags, persist, latency, hb, initial counters)
//   connect | in f… | in garbage | arrive f… | pop | timeout hb|peer|logon|logout | disc | stop
//   send f… | flush | stime in|out|new | rtime n   (CheckResetTime with the clock at rtimeBase + n seconds)
//   ddict app|tr <NAME> <serialised AST>   a specification of sessdict.go: written as XML under -out, loaded by the factory when
//                      a later cfg names it (dd=<NAME>: DataDictionary / AppDataDictionary, tdd=<NAME>: TransportDataDictionary)
// cfg vs=<5 bits> sets ValidateFieldsOutOfOrder RejectInvalidMessage AllowUnknownMsgFields ValidateUserDefinedFields
//     ValidateFieldsHaveValues (absent = none of them set: the factory's defaults).
// `in` / `arrive` may carry `!<kind>,<tag>` in front of the fields: what the generator says about the message in C15's terms
// (`conforming`, or the single validator defect it planted); read by the monitor only.
// cfg lsp=1 sets EnableLastMsgSeqNumProcessed (tag 369 on every outbound header).
// cfg nx=1 sets EnableNextExpectedMsgSeqNum (tag 789 in the Logons we send; the peer's 789 is evaluated by handleLogon).
// cfg rst=n builds the session with ResetSeqTime = n seconds of the day (UTC, HH:MM:SS); rst=- leaves it unset.
// Inbound messages are `tag=value` lists in wire order (without 9 and 10); `@n` is a UTCTimestamp now+n seconds.
// Observation: status | ordered observations… ; ctr S T ; st State [stash k,… cur fin] ; q n ; ib n ; stopped b
import (
	"bytes"
	"fmt"
	"math"
	"sort"
	"strconv"
	"strings"
	"time"

	"github.com/quickfixgo/quickfix"
	"github.com/quickfixgo/quickfix/config"
)

type sessImpl struct {
	dicts map[string]string // dictionary name -> XML file written by a `ddict` op of this case
	v     *quickfix.VerifSession
	log   []string // ordered observations of the current event ("WIRE" marks the k-th outbound message)
	cfg   map[string]string
	bs    string
	wires int
	appMsg *quickfix.Message // the application's message object, reused by every `send`
	lstore *logStore         // the logging wrapper of the session's store
	// sched=2: weekly window; the instant `stime out` asks about
	weekly    bool
	weeklyOut time.Time
}

// scripted application: verdicts are carried by the messages themselves
type scriptApp struct{ im *sessImpl }

func (a scriptApp) OnCreate(quickfix.SessionID) {}
func (a scriptApp) OnLogon(quickfix.SessionID)  { a.im.log = append(a.im.log, "cb onLogon") }
func (a scriptApp) OnLogout(quickfix.SessionID) { a.im.log = append(a.im.log, "cb onLogout") }
func (a scriptApp) ToAdmin(*quickfix.Message, quickfix.SessionID) {}
func (a scriptApp) ToApp(m *quickfix.Message, _ quickfix.SessionID) error {
	var dup quickfix.FIXBoolean
	if m.Header.Has(43) {
		m.Header.GetField(43, &dup)
	}
	if dup.Bool() {
		if v, err := m.Body.GetString(9003); err == nil && v == "n" {
			return quickfix.ErrDoNotSend
		}
		return nil
	}
	if v, err := m.Body.GetString(9002); err == nil && v == "dns" {
		return quickfix.ErrDoNotSend
	}
	return nil
}
func verdict(m *quickfix.Message) quickfix.MessageRejectError {
	v, err := m.Body.GetString(9001)
	if err != nil {
		return nil
	}
	switch v {
	case "rej":
		return quickfix.ValueIsIncorrect(9001)
	case "brej":
		return quickfix.UnsupportedMessageType()
	case "rlogon":
		return quickfix.RejectLogon{Text: "rejected by the scripted application"}
	}
	return nil
}
func rawField(m *quickfix.Message, tag quickfix.Tag) string {
	b, err := m.Header.GetBytes(tag)
	if err != nil {
		return "-"
	}
	return string(b)
}
func (a scriptApp) FromAdmin(m *quickfix.Message, _ quickfix.SessionID) quickfix.MessageRejectError {
	a.im.log = append(a.im.log, fmt.Sprintf("cb fromAdmin %s %s", rawField(m, 35), rawField(m, 34)))
	return verdict(m)
}
func (a scriptApp) FromApp(m *quickfix.Message, _ quickfix.SessionID) quickfix.MessageRejectError {
	a.im.log = append(a.im.log, fmt.Sprintf("cb fromApp %s T=%d", rawField(m, 34), a.im.v.Store().NextTargetMsgSeqNum()))
	return verdict(m)
}

func (s *sessImpl) reset(string) {
	if s.v != nil {
		s.v.Close()
		s.v = nil
	}
	s.log = nil
	s.dicts = nil
}

// msgFields drops the generator's annotation from an `in` / `arrive` op
func msgFields(w []string) []string {
	if len(w) > 0 && strings.HasPrefix(w[0], "!") {
		return w[1:]
	}
	return w
}

var bsNames = []string{"FIX.4.0", "FIX.4.1", "FIX.4.2", "FIX.4.3", "FIX.4.4", "FIXT.1.1"}

func onoff(v string) string {
	if v == "1" {
		return "Y"
	}
	return "N"
}

func (s *sessImpl) build(kv map[string]string) string {
	s.cfg = kv
	bsi, _ := strconv.Atoi(kv["bs"])
	s.bs = bsNames[bsi]
	st := quickfix.NewSessionSettings()
	st.Set(config.BeginString, s.bs)
	st.Set(config.SenderCompID, "SND")
	st.Set(config.TargetCompID, "TGT")
	initiator := kv["init"] == "1"
	if initiator || kv["hbo"] == "1" {
		st.Set(config.HeartBtInt, kv["hb"])
	}
	if kv["hbo"] == "1" {
		st.Set(config.HeartBtIntOverride, "Y")
	}
	if initiator {
		st.Set(config.SocketConnectHost, "127.0.0.1")
		st.Set(config.SocketConnectPort, "1")
	}
	st.Set(config.ResetOnLogon, onoff(kv["rol"]))
	st.Set(config.ResetOnLogout, onoff(kv["rolo"]))
	st.Set(config.ResetOnDisconnect, onoff(kv["rod"]))
	st.Set(config.RefreshOnLogon, onoff(kv["refresh"]))
	st.Set(config.PersistMessages, onoff(kv["persist"]))
	if kv["skiplat"] == "1" {
		st.Set(config.CheckLatency, "N")
	}
	if kv["chunk"] != "0" {
		st.Set(config.ResendRequestChunkSize, kv["chunk"])
	}
	if bsi == 5 {
		st.Set(config.DefaultApplVerID, "9")
	}
	if v, ok := kv["rst"]; ok && v != "-" {
		n, err := strconv.Atoi(v)
		if err != nil || n < 0 || n >= 86400 {
			panic("bad op: rst out of range")
		}
		st.Set(config.ResetSeqTime, fmt.Sprintf("%02d:%02d:%02d", n/3600, n/60%60, n%60))
	}
	if kv["lsp"] == "1" {
		st.Set(config.EnableLastMsgSeqNumProcessed, "Y")
	}
	if kv["nx"] == "1" {
		st.Set(config.EnableNextExpectedMsgSeqNum, "Y")
	}
	if vs, ok := kv["vs"]; ok {
		if len(vs) != 5 || strings.Trim(vs, "01") != "" {
			panic("bad op: vs")
		}
		for i, k := range []string{config.ValidateFieldsOutOfOrder, config.RejectInvalidMessage, config.AllowUnknownMessageFields,
			config.CheckUserDefinedFields, config.ValidateFieldsHaveValues} {
			st.Set(k, onoff(string(vs[i])))
		}
	}
	dictPath := func(k string) (string, bool) {
		n, ok := kv[k]
		if !ok || n == "-" {
			return "", false
		}
		p, ok := s.dicts[n]
		if !ok {
			panic("bad op: dictionary " + n + " not loaded")
		}
		return p, true
	}
	if p, ok := dictPath("dd"); ok {
		if bsi == 5 {
			st.Set(config.AppDataDictionary, p)
		} else {
			st.Set(config.DataDictionary, p)
		}
	}
	if p, ok := dictPath("tdd"); ok {
		st.Set(config.TransportDataDictionary, p)
	}
	s.weekly = false
	s.appMsg = nil
	var created time.Time
	if kv["sched"] == "1" {
		now := time.Now().UTC()
		st.Set(config.StartTime, now.Add(-6*time.Hour).Format("15:04:05"))
		st.Set(config.EndTime, now.Add(6*time.Hour).Format("15:04:05"))
	}
	if kv["sched"] == "2" {
		// a weekly session that wraps the week end: StartDay = day wd+1 00:00:00, EndDay = day wd 23:00:00 (UTC), so the
		// window is the whole week but one hour; the store was created ck days ago, still inside the current window
		now := time.Now().UTC()
		wd, _ := strconv.Atoi(kv["wd"])
		if int(now.Weekday()) == wd && now.Hour() >= 21 { // keep the real clock away from the closed hour
			wd = (wd + 3) % 6
		}
		ck, _ := strconv.Atoi(kv["ck"])
		p := (int(now.Weekday()) - (wd + 1) + 14) % 7 // whole days since the window opened
		created = now.Add(-time.Duration(ck%(p+1)) * 24 * time.Hour)
		names := []string{"Sunday", "Monday", "Tuesday", "Wednesday", "Thursday", "Friday", "Saturday"}
		st.Set(config.StartDay, names[(wd+1)%7])
		st.Set(config.EndDay, names[wd])
		st.Set(config.StartTime, "00:00:00")
		st.Set(config.EndTime, "23:00:00")
		s.weekly = true
		toEnd := (wd - int(now.Weekday()) + 7) % 7
		s.weeklyOut = time.Date(now.Year(), now.Month(), now.Day(), 23, 30, 0, 0, time.UTC).Add(time.Duration(toEnd) * 24 * time.Hour)
	}
	id := quickfix.SessionID{BeginString: s.bs, SenderCompID: "SND", TargetCompID: "TGT"}
	v, err := quickfix.VerifNewSession(initiator, id, logStoreFactory{inner: quickfix.NewMemoryStoreFactory(), note: func(x string) { s.log = append(s.log, x) }, made: func(ms quickfix.MessageStore) {
		if !created.IsZero() {
			ms.SetCreationTime(created)
		}
	}, wrapped: func(ls *logStore) { s.lstore = ls }}, st, quickfix.NewNullLogFactory(), scriptApp{s})
	if err != nil {
		panic("cannot build session: " + err.Error())
	}
	s.v = v
	v.ArmHook = func(a quickfix.VerifArm) {
		if a.Timer == "state" {
			s.log = append(s.log, "WIRE")
		} else {
			s.log = append(s.log, fmt.Sprintf("arm peer %d", int64(math.Round(float64(a.D)/1e6))))
		}
	}
	s0, _ := strconv.Atoi(kv["s0"])
	t0, _ := strconv.Atoi(kv["t0"])
	ls := v.Store().(*logStore)
	ls.mute = true
	v.Store().SetNextSenderMsgSeqNum(s0)
	v.Store().SetNextTargetMsgSeqNum(t0)
	ls.mute = false
	s.log = nil
	return "ok"
}

// wireBytes builds a framed FIX message from a `tag=value` list (8 first, 9 inserted, 10 appended).
func wireBytes(fields []string) []byte {
	now := time.Now().UTC()
	var head, rest bytes.Buffer
	for i, f := range fields {
		eq := strings.IndexByte(f, '=')
		tag, val := f[:eq], f[eq+1:]
		if strings.HasPrefix(val, "@") {
			if d, err := strconv.Atoi(val[1:]); err == nil {
				val = now.Add(time.Duration(d) * time.Second).Format("20060102-15:04:05.000")
			}
		}
		if i == 0 {
			head.WriteString(tag + "=" + val + "\x01")
		} else {
			rest.WriteString(tag + "=" + val + "\x01")
		}
	}
	var b bytes.Buffer
	b.Write(head.Bytes())
	b.WriteString("9=" + strconv.Itoa(rest.Len()) + "\x01")
	b.Write(rest.Bytes())
	sum := 0
	for _, c := range b.Bytes() {
		sum += int(c)
	}
	b.WriteString(fmt.Sprintf("10=%03d\x01", sum%256))
	return b.Bytes()
}

var wireIgnore = map[string]bool{"8": true, "9": true, "10": true, "35": true, "34": true, "52": true, "58": true, "98": true}

// renderWire: independent scan of the bytes the session wrote.
func renderWire(b []byte) string {
	type kv struct {
		t int
		v string
	}
	var fs []kv
	k, seq := "?", "?"
	sender, isReplay := "", false
	for _, f := range strings.Split(strings.TrimSuffix(string(b), "\x01"), "\x01") {
		if strings.HasPrefix(f, "49=") {
			sender = f[3:]
		}
		if strings.HasPrefix(f, "34=") {
			seq = f[3:]
		}
		if strings.HasPrefix(f, "35=") {
			k = f[3:]
		}
		if f == "43=Y" {
			isReplay = true
		}
	}
	isReplay = isReplay && k != "4"
	for _, f := range strings.Split(strings.TrimSuffix(string(b), "\x01"), "\x01") {
		eq := strings.IndexByte(f, '=')
		if eq < 0 {
			continue
		}
		tag, val := f[:eq], f[eq+1:]
		if tag == "35" {
			k = val
		}
		if tag == "34" {
			seq = val
		}
		if wireIgnore[tag] {
			continue
		}
		if tag == "122" {
			// OrigSendingTime of a replayed message (43=Y, not a gap fill) equals the SendingTime the message was stored
			// with: "+" if so (or if nothing is known about the original), "!" if it differs
			orig := "+"
			if isReplay {
				if st, ok := savedSendingTime[sender+"/"+seq]; ok && st != val {
					orig = "!"
				}
			}
			val = orig
		}
		n, _ := strconv.Atoi(tag)
		fs = append(fs, kv{n, val})
	}
	sort.SliceStable(fs, func(i, j int) bool { return fs[i].t < fs[j].t })
	var sb strings.Builder
	sb.WriteString("w 35=" + k + " 34=" + seq)
	for _, f := range fs {
		sb.WriteString(" " + strconv.Itoa(f.t) + "=" + f.v)
	}
	return sb.String()
}

var stateNames = map[string]string{"Latent State": "Latent", "Not session time": "NotSessionTime", "Logon State": "Logon",
	"Logout State": "Logout", "In Session": "InSession", "Resend": "Resend", "Pending:In Session": "Pending:InSession", "Pending:Resend": "Pending:Resend"}

func (s *sessImpl) observe(status string) string {
	msgs, closed := s.v.DrainOut()
	var obs []string
	wi := 0
	for _, l := range s.log {
		if l == "WIRE" {
			if wi < len(msgs) {
				obs = append(obs, renderWire(msgs[wi]))
				wi++
			} else {
				obs = append(obs, "w MISSING")
			}
			continue
		}
		obs = append(obs, l)
	}
	for ; wi < len(msgs); wi++ {
		obs = append(obs, "w UNMARKED "+renderWire(msgs[wi]))
	}
	if closed {
		obs = append(obs, "closed")
	}
	if s.lstore != nil {
		for _, n := range s.lstore.changed() {
			obs = append(obs, fmt.Sprintf("store mutated %d", n)) // a stored message is no longer the bytes that were saved
		}
	}
	s.log = nil
	st := stateNames[s.v.StateName()]
	if st == "" {
		st = "?" + s.v.StateName()
	}
	if in, stash, cur, fin := s.v.ResendInfo(); in {
		ks := "-"
		if len(stash) > 0 {
			var parts []string
			for _, k := range stash {
				parts = append(parts, strconv.Itoa(k))
			}
			ks = strings.Join(parts, ",")
		}
		st += fmt.Sprintf(" stash %s %d %d", ks, cur, fin)
	}
	stopped := "0"
	if s.v.Stopped() {
		stopped = "1"
	}
	return strings.Join(append([]string{status}, obs...), " | ") +
		fmt.Sprintf(" ; ctr %d %d ; st %s ; q %d ; ib %d ; stopped %s", s.v.Store().NextSenderMsgSeqNum(), s.v.Store().NextTargetMsgSeqNum(), st, s.v.ToSendLen(), s.v.InboxLen(), stopped)
}

func (s *sessImpl) exec(op string) string {
	w := strings.Fields(op)
	return guard(func() string {
		switch w[0] {
		case "cfg":
			kv := map[string]string{}
			for _, f := range w[1:] {
				p := strings.SplitN(f, "=", 2)
				kv[p[0]] = p[1]
			}
			if s.v != nil {
				s.v.Close()
				s.v = nil
			}
			return s.observe(s.build(kv))
		case "ddict":
			if len(w) < 4 || (w[1] != "app" && w[1] != "tr") {
				panic("bad op " + w[0])
			}
			if s.dicts == nil {
				s.dicts = map[string]string{}
			}
			s.dicts[w[2]] = writeSessDict(w[2], parseAst(w[3:]))
			return "loaded"
		case "connect":
			err := s.v.Connect(16)
			status := "ok"
			if err != nil {
				if strings.Contains(err.Error(), "Already") {
					status = "already"
				} else {
					status = "nottime"
				}
			}
			return s.observe(status)
		case "in":
			if w[1] == "garbage" {
				s.v.Incoming([]byte("8=FIX.4.2\x019=garbage\x0135=D\x0110=000\x01"))
			} else {
				s.v.Incoming(wireBytes(msgFields(w[1:])))
			}
			return s.observe("ok")
		case "arrive":
			if s.v.Arrive(wireBytes(msgFields(w[1:]))) {
				return s.observe("ok")
			}
			return s.observe("noconn")
		case "pop":
			if s.v.Pop() {
				return s.observe("ok")
			}
			return s.observe("none")
		case "timeout":
			e := map[string]int{"hb": quickfix.VerifNeedHeartbeat, "peer": quickfix.VerifPeerTimeout, "logon": quickfix.VerifLogonTimeout, "logout": quickfix.VerifLogoutTimeout}[w[1]]
			s.v.Timeout(e)
			return s.observe("ok")
		case "disc":
			s.v.Disconnected()
			return s.observe("ok")
		case "stop":
			s.v.Stop()
			return s.observe("ok")
		case "send":
			// ONE message object per session, emptied and filled again for every send (an application that keeps its order
			// message around and changes a few fields): what was sent, stored and queued under earlier numbers must not change
			if s.appMsg == nil {
				s.appMsg = quickfix.NewMessage()
			}
			m := s.appMsg
			m.Header.Clear()
			m.Body.Clear()
			m.Trailer.Clear()
			m.Header.SetString(35, "D")
			for _, f := range w[1:] {
				p := strings.SplitN(f, "=", 2)
				t, _ := strconv.Atoi(p[0])
				if t == 35 {
					m.Header.SetString(35, p[1]) // an application message of another type
					continue
				}
				m.Body.SetString(quickfix.Tag(t), p[1])
			}
			if err := s.v.Send(m); err != nil {
				return s.observe("refused")
			}
			return s.observe("ok")
		case "flush":
			s.v.SendAppMessages()
			return s.observe("ok")
		case "stime":
			now := time.Now()
			switch {
			case w[1] == "in":
				s.v.CheckSessionTime(now)
			case w[1] == "out" && s.weekly:
				s.v.CheckSessionTime(s.weeklyOut) // the closed hour at the end of this week's window
			case w[1] == "out":
				s.v.CheckSessionTime(now.Add(12 * time.Hour))
			case w[1] == "new" && s.weekly:
				s.v.CheckSessionTime(now.Add(7 * 24 * time.Hour)) // next week's window
			case w[1] == "new":
				s.v.CheckSessionTime(now.Add(24 * time.Hour))
			}
			return s.observe("ok")
		case "rtime":
			// the harness owns the clock of CheckResetTime: n seconds after a fixed UTC midnight
			n, err := strconv.Atoi(w[1])
			if err != nil || n < 0 || n > rtimeMax || len(w) != 2 {
				panic("bad op " + op)
			}
			s.v.CheckResetTime(rtimeBase.Add(time.Duration(n) * time.Second))
			return s.observe("ok")
		}
		panic("bad op " + op)
	})
}

// origin of the `rtime` clock (a midnight in UTC) and the largest offset accepted
var rtimeBase = time.Date(2024, time.March, 4, 0, 0, 0, 0, time.UTC)

const rtimeMax = 1000000000

// ---------------------------------------------------------------- generator

type sessGen struct {
	forceNewSeq int // next generated SequenceReset is a GapFill with this NewSeqNo (scenario earlyGapFill)
	r      *rng
	o      *out
	do     func(string) string
	bs     string
	bsi    int
	init   bool
	sender int // our next outbound number as last observed
	target int // next expected inbound number as last observed
	state  string
	peerSeq int // what a well-behaved peer would send next
	ib     int
	payload int
	sched  bool
	rst    int // ResetSeqTime as seconds of the day, -1 = not configured
	clock  int // the clock handed to CheckResetTime last (seconds after rtimeBase)
	dict   bool // a data dictionary is configured
	nx     bool // EnableNextExpectedMsgSeqNum is configured
}

func pickInt(r *rng, xs []int) int { return xs[r.intn(len(xs))] }

// the first reset instant strictly after clock
func (g *sessGen) nextResetInstant() int {
	t := g.clock/86400*86400 + g.rst
	if t <= g.clock {
		t += 86400
	}
	return t
}

// one CheckResetTime call: steered across / onto / around the reset instant of the day, sometimes far away, sometimes
// with the clock going backwards; when the engine answered with its reset Logon, continue as a peer might
func (g *sessGen) resetTick() {
	r := g.r
	n := g.clock
	switch x := r.intn(12); {
	case x < 5 && g.rst >= 0:
		n = g.nextResetInstant() + pickInt(r, []int{0, 0, 0, 1, 2, 30, 3600}) // onto or over the boundary
	case x < 6 && g.rst >= 0:
		n = g.nextResetInstant() - 1 - r.intn(20) // just before it
	case x < 9:
		n = g.clock + 1 + r.intn(40)
	case x < 10:
		n = g.clock - r.intn(200) // the clock stepped back
		if n < 0 {
			n = 0
		}
	case x < 11:
		n = g.clock + 86400*(1+r.intn(3)) + r.intn(86400) // more than a day later
	default:
		n = g.clock
	}
	g.clock = n
	res := g.run("rtime " + strconv.Itoa(n))
	if !strings.Contains(res, "w 35=A") {
		return
	}
	g.o.kind("rtime.reset-logon-sent")
	switch x := r.intn(10); {
	case x < 4: // the peer's echo
		h := g.goodHeader(1)
		g.peerSeq = 2
		g.run("in !conforming,- " + strings.Join(append(g.header("A", h), g.echoBody("141=Y")...), " "))
	case x < 6: // a Logon that is not an echo
		h := g.goodHeader(pickInt(r, []int{1, 1, g.peerSeq}))
		g.run("in !conforming,- " + strings.Join(append(g.header("A", h), g.echoBody(r.pick([]string{"", "", "141=N"}))...), " "))
	case x < 8: // application traffic, numbered as before the reset or from 1
		g.run("in " + g.inbound("D", g.goodHeader(pickInt(r, []int{1, g.peerSeq, g.peerSeq + 1}))))
	}
}

func (g *sessGen) echoBody(flag string) []string {
	f := []string{"98=0", "108=30"}
	if flag != "" {
		f = append(f, flag)
	}
	if g.bsi == 5 {
		f = append(f, "1137=9")
	}
	if nx, garbled := g.nextExpectedField(); nx != "" && !garbled {
		f = append(f, nx)
	}
	return f
}

// nextExpectedField: tag 789 of a Logon the peer sends — what it claims to expect from us next, relative to our next
// outbound number as last observed (which is what handleLogon compares it with): equal, below (the peer missed messages),
// above (it claims messages we never sent; one above is what an acceptor has after its own reply), absent, garbled.
// Mostly in the cases with EnableNextExpectedMsgSeqNum, now and then without (the field is then ignored).
func (g *sessGen) nextExpectedField() (field string, garbled bool) {
	r := g.r
	if !g.nx && !r.chance(1, 12) {
		return "", false
	}
	n := g.sender
	switch x := r.intn(20); {
	case x < 6:
	case x < 11:
		n = g.sender - 1 - r.intn(4)
		if r.chance(1, 4) {
			n = pickInt(r, []int{1, 1, 0, -2})
		}
	case x < 14:
		n = g.sender + 1
	case x < 16:
		n = g.sender + 2 + r.intn(5)
	case x < 17:
		return "789=" + r.pick([]string{"x", "1x", "+"}), true
	default:
		return "", false
	}
	g.o.kind("logon789." + map[bool]string{true: "on", false: "off"}[g.nx] + "." + map[int]string{-1: "below", 0: "equal", 1: "above"}[cmpInt(n, g.sender)])
	return "789=" + strconv.Itoa(n), false
}

func cmpInt(a, b int) int {
	if a < b {
		return -1
	}
	if a > b {
		return 1
	}
	return 0
}

func (g *sessGen) run(op string) string {
	res := g.do(op)
	// parse "; ctr S T ; st Name"
	if i := strings.Index(res, "; ctr "); i >= 0 {
		f := strings.Fields(res[i+6:])
		if len(f) >= 2 {
			g.sender, _ = strconv.Atoi(f[0])
			g.target, _ = strconv.Atoi(f[1])
		}
	}
	if i := strings.Index(res, "; st "); i >= 0 {
		f := strings.Fields(res[i+5:])
		if len(f) >= 1 {
			g.state = f[0]
		}
	}
	if i := strings.Index(res, "; ib "); i >= 0 {
		f := strings.Fields(res[i+5:])
		if len(f) >= 1 {
			g.ib, _ = strconv.Atoi(f[0])
		}
	}
	g.o.kind("op." + strings.Fields(op)[0])
	g.o.kind("state." + g.state)
	return res
}

type hdrOpts struct {
	seq     string // value of 34 ("" = omit)
	possDup string // "", "Y", "N", "X"
	orig    string // 122 token ("" = omit)
	sending string // 52 token ("" = omit)
	begin   string
	snd     string
	tgt     string
	noSnd   bool
	noTgt   bool
	routing []string
	defective bool // a header defect was applied (the generator then makes no claim about validity)
}

func (g *sessGen) header(kind string, h hdrOpts) []string {
	f := []string{"8=" + h.begin, "35=" + kind}
	if !h.noSnd {
		f = append(f, "49="+h.snd)
	}
	if !h.noTgt {
		f = append(f, "56="+h.tgt)
	}
	if h.seq != "omit" {
		f = append(f, "34="+h.seq)
	}
	if h.sending != "omit" {
		f = append(f, "52="+h.sending)
	}
	if h.possDup != "" {
		f = append(f, "43="+h.possDup)
	}
	if h.orig != "" {
		f = append(f, "122="+h.orig)
	}
	f = append(f, h.routing...)
	return f
}

// goodHeader: what a conforming peer would send with sequence number seq
func (g *sessGen) goodHeader(seq int) hdrOpts {
	return hdrOpts{seq: strconv.Itoa(seq), sending: "@" + strconv.Itoa(g.r.rangeInt(-20, 20)), begin: g.bs, snd: "TGT", tgt: "SND"}
}

// defect: apply one or more header defects (C06 generator)
func (g *sessGen) defect(h *hdrOpts) {
	r := g.r
	h.defective = true
	n := 1
	if r.chance(1, 4) {
		n = 2
	}
	for i := 0; i < n; i++ {
		switch r.intn(16) {
		case 0:
			h.begin = r.pick([]string{"FIX.4.1", "FIX.4.3", "FIX.9.9", "", "FIXT.1.1", "FIX.4.2", "FIX.4.4"})
		case 1:
			h.snd = r.pick([]string{"", "XXX", "SND"})
		case 2:
			h.tgt = r.pick([]string{"", "XXX", "TGT"})
		case 3:
			h.noSnd = true
		case 4:
			h.noTgt = true
		case 5:
			h.sending = r.pick([]string{"omit", "", "garbage", "@-500", "@500", "@-5000", "@7000", "20240101-00:00", "@x"})
		case 6:
			h.seq = r.pick([]string{"omit", "", "abc", "1x", "-1", "0"})
		case 7:
			h.possDup = r.pick([]string{"X", "", "Y", "N", "y"})
		case 8:
			h.orig = r.pick([]string{"garbage", "@-100", "@100", ""})
		case 9:
			h.snd, h.tgt = h.tgt, h.snd
		default:
			// routing fields for reverse-route checks
			tags := []string{"50", "57", "142", "143", "115", "116", "128", "129", "144", "145"}
			k := 1 + r.intn(4)
			seen := map[string]bool{}
			for _, old := range h.routing {
				seen[strings.SplitN(old, "=", 2)[0]] = true
			}
			for j := 0; j < k; j++ {
				t := r.pick(tags)
				if seen[t] {
					continue
				}
				seen[t] = true
				v := r.pick([]string{"a", "b", "sub1", "loc", ""})
				h.routing = append(h.routing, t+"="+v)
			}
		}
	}
}

// body: the fields behind the header and whether they conform to the dictionaries of sessdict.go (`quirk` = they do not, or
// not certainly: the session-level variations below; the generator then makes no claim).  `planted`/`ptag`: a single
// validator defect already in the body.
func (g *sessGen) body(kind string) (f []string, quirk bool, planted, ptag string) {
	r := g.r
	switch kind {
	case "A":
		hb := r.pick([]string{"30", "30", "10", "5", "1", "0", "-3", "x", "60"})
		f = []string{"98=0", "108=" + hb}
		quirk = hb == "x"
		if r.chance(1, 12) {
			f = f[:1]
			quirk = true
		}
		if r.chance(1, 5) {
			fl := r.pick([]string{"Y", "Y", "N", "Q"})
			f = append(f, "141="+fl)
			quirk = quirk || fl == "Q"
		}
		if g.bsi == 5 && !r.chance(1, 15) {
			f = append(f, "1137=9")
		}
		if nx, garbled := g.nextExpectedField(); nx != "" {
			f = append(f, nx)
			quirk = quirk || garbled
		}
		return
	case "1":
		if r.chance(1, 8) {
			return nil, true, "", ""
		}
		return []string{"112=" + r.pick([]string{"T1", "abc", "TEST", "x9"})}, false, "", ""
	case "0":
		if r.chance(1, 2) {
			return []string{"112=TEST"}, false, "", ""
		}
		return nil, false, "", ""
	case "2":
		b := g.r.rangeInt(-1, g.sender+2)
		e := r.pick([]string{"0", "999999", strconv.Itoa(b + r.intn(6)), strconv.Itoa(b - 1 - r.intn(3)), strconv.Itoa(g.sender + r.intn(5)), strconv.Itoa(r.intn(g.sender + 3))})
		f = []string{"7=" + strconv.Itoa(b), "16=" + e}
		switch r.intn(14) {
		case 0:
			f, quirk = f[:1], true
		case 1:
			f, quirk = f[1:], true
		case 2:
			f[0], quirk = "7=x", true
		}
		return
	case "4":
		n := g.target + r.rangeInt(-3, 8)
		if g.forceNewSeq != 0 {
			n = g.forceNewSeq
		}
		f = []string{"36=" + strconv.Itoa(n)}
		if g.forceNewSeq != 0 {
			g.forceNewSeq = 0
			return append([]string{"123=Y"}, f...), false, "", ""
		}
		switch r.intn(6) {
		case 0:
			f = append([]string{"123=N"}, f...)
		case 1:
		case 2:
			f = append([]string{"123=" + r.pick([]string{"Q", ""})}, f...)
			quirk = true
		default:
			f = append([]string{"123=Y"}, f...)
		}
		if r.chance(1, 15) {
			f, quirk = f[:len(f)-1], true
		} else if r.chance(1, 20) {
			f[len(f)-1], quirk = "36=zz", true
		}
		return
	case "3":
		return []string{"45=" + strconv.Itoa(r.intn(9)), "373=5"}, false, "", ""
	case "5":
		return nil, false, "", ""
	}
	g.payload++
	f = []string{"9000=" + strconv.Itoa(g.payload), "55=" + r.pick([]string{"IBM", "MSFT", "X"})}
	if kind == "D" || (kind == "8" && r.chance(1, 2)) {
		f = append(f, "54="+r.pick([]string{"1", "2", "5"}))
	}
	switch r.intn(14) {
	case 0:
		f = append(f, "9001=rej")
	case 1:
		f = append(f, "9001=brej")
	case 2:
		f = append(f, "9001=rlogon")
	case 3:
		f = append(f, "1=") // empty body value: validator
		planted, ptag = "empty_value", "1"
	case 4:
		f = append(f, "1=ACC"+strconv.Itoa(r.intn(9)))
	case 5:
		if kind != "8" {
			f = append(f, "38="+r.pick([]string{"100", "2.5", "0"}))
		}
	case 6:
		f = append(f, "60=@"+strconv.Itoa(r.rangeInt(-5, 5)))
	}
	return
}

// inbound: header + body as one field list, preceded by the generator's claim about the message's validity when it makes
// one: `!conforming,-` or `!<defect kind>,<tag>` (a clean header and a body that conforms except for ONE planted defect)
func (g *sessGen) inbound(kind string, h hdrOpts) string {
	body, quirk, planted, ptag := g.body(kind)
	if kind == "A" && g.r.chance(1, 10) {
		body = append(body, "9001="+g.r.pick([]string{"rlogon", "rej", "brej"}))
	}
	ann := ""
	if !h.defective && !quirk {
		if planted == "" && g.r.chance(1, 5) {
			body, planted, ptag = plantDefect(g.r, kind, body)
		}
		if planted == "" {
			ann = "!conforming,- "
		} else {
			ann = "!" + planted + "," + ptag + " "
			g.o.kind("plant." + planted)
		}
	}
	return ann + strings.Join(append(g.header(kind, h), body...), " ")
}

func (g *sessGen) pickKind() string {
	r := g.r
	switch x := r.intn(100); {
	case x < 45:
		return r.pick([]string{"D", "D", "8", "AE"})
	case x < 55:
		return "0"
	case x < 63:
		return "1"
	case x < 72:
		return "2"
	case x < 82:
		return "4"
	case x < 86:
		return "3"
	case x < 91:
		return "5"
	default:
		return "A"
	}
}

// one inbound message with state-aware sequence number
func (g *sessGen) randomInbound(via string) {
	r := g.r
	kind := g.pickKind()
	seq := g.target
	switch x := r.intn(100); {
	case x < 55:
	case x < 67:
		seq = g.target + 1 + r.intn(4) // gap
	case x < 72:
		seq = g.target + 5 + r.intn(8)
	case x < 84:
		seq = g.target - 1 - r.intn(3) // duplicate
	default:
		seq = g.peerSeq
	}
	h := g.goodHeader(seq)
	if seq < g.target && r.chance(3, 4) {
		h.possDup = "Y"
		h.orig = "@" + strconv.Itoa(r.rangeInt(-60, -21))
		if r.chance(1, 6) {
			h.orig = "@" + strconv.Itoa(r.rangeInt(25, 60)) // later than SendingTime
		} else if r.chance(1, 7) {
			h.orig = "garbage" // a duplicate whose OrigSendingTime does not read as a time: rejected, and nothing consumed
			h.defective = true // (no claim about the validator's verdict for this message)
			g.o.kind("possdup-low.orig-garbled")
		}
	}
	if (g.state == "Resend" || g.state == "Pending:Resend") && r.chance(1, 2) {
		// replayed traffic
		h.possDup = "Y"
		h.orig = "@-30"
		if r.chance(1, 3) {
			h.sending = "@-4000" // stale SendingTime of a replay
		}
	}
	if r.chance(1, 7) {
		g.defect(&h)
	}
	if seq > g.peerSeq {
		g.peerSeq = seq
	}
	g.peerSeq++
	g.run(via + " " + g.inbound(kind, h))
}

func (g *sessGen) logonExchange() {
	r := g.r
	seq := g.target
	switch x := r.intn(20); {
	case x < 14:
	case x < 17:
		seq = g.target + 1 + r.intn(5)
	default:
		seq = g.target - 1 - r.intn(2)
	}
	h := g.goodHeader(seq)
	if r.chance(1, 10) {
		g.defect(&h)
	}
	g.peerSeq = seq + 1
	g.run("in " + g.inbound("A", h))
}

// earlyGapFill: a SequenceReset-GapFill arrives EARLY (above the expected number) and skips at least two numbers, a later
// message numbered at or above its NewSeqNo arrives early too; then the missing numbers are replayed in order, so that the
// stash has to be drained across the kept gap fill; finally live traffic continues behind everything.
func (g *sessGen) earlyGapFill() {
	r := g.r
	t := g.target
	s := t + 1 + r.intn(3)
	n := s + 2 + r.intn(3)
	g.forceNewSeq = n
	g.run("in " + g.inbound("4", g.goodHeader(s)))
	for k := 0; k < 1+r.intn(2); k++ {
		g.run("in " + g.inbound("D", g.goodHeader(n+k)))
	}
	for q := t; q < s; q++ {
		h := g.goodHeader(q)
		h.possDup, h.orig = "Y", "@-30"
		g.run("in " + g.inbound(r.pick([]string{"D", "D", "0"}), h))
	}
	if n+3 > g.peerSeq {
		g.peerSeq = n + 3
	}
	g.run("in " + g.inbound("D", g.goodHeader(g.target)))
}

// afterConnect: the connection is up and nobody has logged on yet.  Mostly the peer's Logon comes next; sometimes
// something else happens first (a non-Logon message, a timeout, a stop, a send, a buffered arrival, a disconnect).
func (g *sessGen) afterConnect() {
	r := g.r
	for k := 0; k < 3 && g.state == "Logon" && r.chance(1, 4); k++ {
		switch r.intn(9) {
		case 0:
			g.run("timeout logon")
		case 1:
			g.run("stop")
		case 2:
			g.run("disc")
		case 3:
			g.appSend()
		case 4:
			g.run("timeout " + r.pick([]string{"hb", "peer", "logout"}))
		case 5:
			if g.ib < 12 {
				g.randomInbound("arrive")
			}
		case 6:
			g.run("pop")
		default:
			g.randomInbound("in")
		}
	}
	if g.state == "Logon" {
		g.logonExchange()
	}
}

func (g *sessGen) appSend() {
	g.payload++
	f := []string{"9000=" + strconv.Itoa(g.payload)}
	if g.r.chance(1, 6) {
		// application message types other than D, among them venue-defined ones that merely LOOK like administrative types
		f = append([]string{"35=" + g.r.pick([]string{"8", "AE", "12", "0A", "45", "A1", "U1"})}, f...)
	}
	if g.r.chance(1, 8) {
		f = append(f, "9002=dns")
	}
	if g.r.chance(1, 4) {
		f = append(f, "9003=n")
	}
	g.run("send " + strings.Join(f, " "))
}

func genSess(r *rng, tier string, idx int, o *out, do func(string) string) string {
	g := &sessGen{r: r, o: o, do: do}
	g.bsi = []int{2, 2, 4, 4, 0, 1, 3, 5}[r.intn(8)]
	g.bs = bsNames[g.bsi]
	g.init = r.chance(1, 2)
	b := func(p, q int) string {
		if r.chance(p, q) {
			return "1"
		}
		return "0"
	}
	persist := b(5, 6)
	s0 := 1
	if persist == "0" && r.chance(1, 2) {
		s0 = 1 + r.intn(30)
	}
	t0 := 1
	if r.chance(1, 2) {
		t0 = 1 + r.intn(40)
	}
	g.sched = r.chance(1, 6)
	sched := "0"
	if g.sched {
		sched = "1"
		if r.chance(1, 2) { // weekly window wrapping the week end, store created on an earlier day of it
			sched = fmt.Sprintf("2 wd=%d ck=%d", r.intn(6), r.intn(7))
			g.o.kind("sched.weekly-wrapped")
		}
	}
	ltp := "1"
	if v := replayLTP(); v != "" {
		ltp = v
	}
	cfg := fmt.Sprintf("cfg init=%s bs=%d chunk=%d rol=%s rolo=%s rod=%s refresh=%s persist=%s skiplat=%s hb=%s hbo=%s s0=%d t0=%d ltp=%s sched=%s",
		map[bool]string{true: "1", false: "0"}[g.init], g.bsi, []int{0, 0, 0, 1, 2, 3, 5}[r.intn(7)], b(1, 6), b(1, 6), b(1, 6), b(1, 8), persist, b(1, 5),
		r.pick([]string{"30", "30", "10", "1", "45"}), b(1, 4), s0, t0, ltp, sched)
	// ResetSeqTime (a quarter of the cases): seconds of the day, UTC; the CheckResetTime clock starts a little before it
	g.rst = -1
	rst := "-"
	if r.chance(1, 4) {
		g.rst = pickInt(r, []int{0, 1, 3600, 43200, 86399, r.intn(86400), r.intn(86400)})
		rst = strconv.Itoa(g.rst)
	}
	cfg += " rst=" + rst + " lsp=" + b(1, 4)
	// EnableNextExpectedMsgSeqNum (a quarter of the cases)
	g.nx = r.chance(1, 4)
	cfg += " nx=" + map[bool]string{true: "1", false: "0"}[g.nx]
	// the validator: data dictionaries (written by the harness, see sessdict.go) in two cases of five, the five validator
	// settings explicitly in most of those and in some cases without a dictionary
	randBits := func() string { return fmt.Sprintf("%05b", r.intn(32)) }
	switch x := r.intn(20); {
	case x < 8:
		g.dict = true
		se := o.sampleEach
		o.sampleEach = 1 << 30 // (the dictionaries are long lines: not among the evidence samples)
		if g.bsi == 5 {
			g.run("ddict tr SDT " + sessDictAst("SDT").serialise())
			g.run("ddict app SDA " + sessDictAst("SDA").serialise())
			cfg += " dd=SDA tdd=SDT"
		} else {
			g.run("ddict app SD4 " + sessDictAst("SD4").serialise())
			cfg += " dd=SD4"
		}
		o.sampleEach = se
		switch r.intn(4) {
		case 0:
		case 1:
			cfg += " vs=11011"
		default:
			cfg += " vs=" + randBits()
		}
	case x < 11:
		cfg += " vs=" + randBits()
	}
	g.clock = 86400*(1+r.intn(4)) + r.intn(86400)
	if g.rst >= 0 && r.chance(3, 4) {
		g.clock = g.nextResetInstant() - 1 - r.intn(300)
	}
	g.run(cfg)
	o.nontrivial(cfg)
	// optional sends before connecting
	for r.chance(1, 4) {
		g.appSend()
	}
	nEvents := 40 + r.intn(80)
	if tier == "thorough" {
		nEvents = 60 + r.intn(160)
	}
	if g.rst >= 0 && r.chance(1, 3) {
		g.resetTick() // first call, before any connection
	}
	g.run("connect")
	g.peerSeq = g.target
	if g.rst >= 0 && r.chance(1, 8) {
		g.resetTick() // connected, Logon not yet received
	}
	g.afterConnect()
	if g.rst >= 0 && r.chance(1, 2) {
		g.run("rtime " + strconv.Itoa(g.clock)) // the tick that records the clock while logged on
	}
	for i := 0; i < nEvents; i++ {
		connected := !(g.state == "Latent" || g.state == "NotSessionTime")
		if (g.rst >= 0 && r.chance(1, 10)) || (g.rst < 0 && r.chance(1, 150)) {
			g.resetTick()
			continue
		}
		if !connected {
			switch x := r.intn(10); {
			case x < 6:
				g.run("connect")
				if g.state == "Logon" {
					g.afterConnect()
				}
			case x < 8:
				g.appSend()
			case x < 9:
				g.run("flush")
			default:
				g.run("in " + g.inbound("0", g.goodHeader(g.target)))
			}
			continue
		}
		if g.state == "Logout" && r.chance(1, 2) {
			switch r.intn(4) {
			case 0:
				g.run("timeout logout")
			case 1:
				g.run("disc")
			default:
				h := g.goodHeader(g.target)
				g.peerSeq = g.target + 1
				g.run("in " + g.inbound("5", h))
			}
			continue
		}
		switch x := r.intn(100); {
		case x < 58:
			g.randomInbound("in")
		case x < 64:
			if g.ib < 12 {
				g.randomInbound("arrive")
			}
		case x < 69:
			g.run("pop")
		case x < 76:
			g.appSend()
		case x < 80:
			g.run("flush")
		case x < 84:
			g.run("timeout hb")
		case x < 89:
			g.run("timeout peer")
		case x < 90:
			g.run("timeout " + r.pick([]string{"logon", "logout"}))
		case x < 92:
			g.run("in garbage")
		case x < 94:
			g.run("disc")
		case x < 95:
			g.run("stop")
		case x < 96:
			g.run("connect")
		case x < 98:
			if g.sched {
				g.run("stime " + r.pick([]string{"in", "out", "new"}))
			} else {
				g.run("timeout hb")
			}
		case x < 99 && (g.state == "InSession" || g.state == "Resend"):
			g.earlyGapFill()
		default:
			// burst of in-sequence application messages (keeps sessions alive long enough to reach deep states)
			for k := 0; k < 3; k++ {
				g.run("in " + g.inbound("D", g.goodHeader(g.target)))
			}
		}
	}
	return "sess"
}

// VERIF_LTP overrides the model flag "type switches look through pendingTimeout" (used only while classifying D8)
func replayLTP() string { return strings.TrimSpace(getenv("VERIF_LTP")) }

func init() {
	families["sess"] = &family{newImpl: func() impl { return &sessImpl{} }, gen: genSess}
}
