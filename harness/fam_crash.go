package main

type crashState struct{}

func (im *storeImpl) execCrash(w []string) string { panic("crash ops not built yet") }
