package main

// family "crash": store ops (see fam_store.go) on file stores with the crash-point hook of store/file switched on,
// plus crash exploration (C17):
//
//   crash <sid> <i> <cut> <process|power> <seq,seq,…|->
//        the image found if the process had died during the LAST op on <sid> after its first i primitives
//        (write / sync / create / remove, as reported by the hook) completed and, if primitive i is a write, the first
//        <cut> bytes of it had reached the file; `power`: every file reverts to its last synced contents.
//        A FRESH real store is opened on a copy of that image; observation:
//          rec <ok|err> at <label i-1|start> <label i|end> <none|mid> c <S> <T> all <ok|err|panic> <n> <hex>*  { q <seq> <ok|err|panic> <n> <hex>* }
//        (`all` = GetMessages over the whole range, `q` = GetMessages(seq, seq))
//   crashresume <sid> <i> <cut> <mode>
//        the image becomes the directory contents, a fresh store is opened on it and the case continues on it;
//        observation as for `open`.
//   sqlfail <sid> <k> <store op …>
//        the k-th SQL statement issued by the op fails (wrapping database/sql driver); observation of the op.

import (
	"fmt"
	"os"
	"path/filepath"
	"strings"

	"github.com/quickfixgo/quickfix"
	"github.com/quickfixgo/quickfix/store/file"
)

type fsnap map[string][]byte // ext -> contents; missing key = file absent

func (s fsnap) clone() fsnap {
	c := fsnap{}
	for k, v := range s {
		c[k] = append([]byte{}, v...)
	}
	return c
}

type primEv struct {
	kind string // write | sync | create | remove | truncate
	ext  string
	off  int64
	data []byte
	vol  fsnap // files after this primitive
	dur  fsnap // synced view after this primitive
}

func (p primEv) label() string { return p.kind + "-" + p.ext }

type opTrace struct {
	vol0, dur0 fsnap
	prims      []primEv
}

type crashState struct {
	im      *storeImpl
	curSid  string
	cur     *opTrace
	traces  map[string]*opTrace
	dur     map[string]fsnap // synced view per session, carried across ops
	enabled bool
	syncLive map[string]bool
}

func readSnap(dir, sid string) fsnap {
	s := fsnap{}
	for _, ext := range fileExts {
		if b, err := os.ReadFile(filepath.Join(dir, filePrefix(sid)+"."+ext)); err == nil {
			s[ext] = b
		}
	}
	return s
}

func writeSnap(dir, sid string, s fsnap) {
	for _, ext := range fileExts {
		p := filepath.Join(dir, filePrefix(sid)+"."+ext)
		if b, ok := s[ext]; ok {
			if err := os.WriteFile(p, b, 0o660); err != nil {
				panic(err)
			}
		} else {
			os.Remove(p)
		}
	}
}

func (c *crashState) begin(sid string) {
	c.curSid = sid
	if _, ok := c.dur[sid]; !ok {
		c.dur[sid] = fsnap{}
	}
	c.cur = &opTrace{vol0: readSnap(c.im.fsDir(), sid), dur0: c.dur[sid].clone()}
	c.traces[sid] = c.cur
	c.enabled = true
}

func (c *crashState) end() { c.enabled = false }

// hook is the callback installed into store/file.VerifHook.
func (c *crashState) hook(kind, name string, off int64, data []byte) {
	if !c.enabled || c.cur == nil {
		return
	}
	if kind == "sync<" {
		// Close syncs and closes: after it the handle cannot be asked for its position any more; a nil handle
		// (nothing to sync, reported with offset -1 here) is no primitive at all
		c.syncLive[name] = off >= 0
		return
	}
	if !strings.HasSuffix(kind, ">") {
		return
	}
	base := filepath.Base(name)
	pre := filePrefix(c.curSid) + "."
	if !strings.HasPrefix(base, pre) || filepath.Dir(name) != c.im.fsDir() {
		return
	}
	ext := strings.TrimPrefix(base, pre)
	d := c.dur[c.curSid]
	vol := readSnap(c.im.fsDir(), c.curSid)
	ev := primEv{ext: ext, off: off, vol: vol}
	switch kind {
	case "write>":
		ev.kind, ev.data = "write", append([]byte{}, data...)
	case "sync>":
		if !c.syncLive[name] { // nil handle: closeSyncFile does nothing
			return
		}
		ev.kind = "sync"
		if b, ok := vol[ext]; ok {
			d[ext] = append([]byte{}, b...)
		}
	case "open>":
		ev.kind = "create"
		if _, ok := d[ext]; !ok {
			d[ext] = []byte{}
		}
	case "remove>":
		ev.kind = "remove"
		delete(d, ext)
	case "truncate>":
		ev.kind = "truncate" // contents change like a write; durable only after the following sync
	default:
		return
	}
	ev.dur = d.clone()
	c.cur.prims = append(c.cur.prims, ev)
}

func pwrite(old []byte, off int64, data []byte) []byte {
	res := append([]byte{}, old...)
	for int64(len(res)) < off {
		res = append(res, 0)
	}
	for i, b := range data {
		if int(off)+i < len(res) {
			res[int(off)+i] = b
		} else {
			res = append(res, b)
		}
	}
	return res
}

// image builds the crash image and the labels of the surrounding primitives.
func (c *crashState) image(sid string, i, cut int, mode string) (img fsnap, prev, cur, cutClass string) {
	tr := c.traces[sid]
	if tr == nil || i < 0 || i > len(tr.prims) {
		panic("no such crash point")
	}
	vol, dur := tr.vol0, tr.dur0
	prev, cur, cutClass = "start", "end", "none"
	if i > 0 {
		vol, dur, prev = tr.prims[i-1].vol, tr.prims[i-1].dur, tr.prims[i-1].label()
	}
	vol, dur = vol.clone(), dur.clone()
	if i < len(tr.prims) {
		p := tr.prims[i]
		cur = p.label()
		if cut > 0 {
			if p.kind != "write" || cut >= len(p.data) {
				panic("cut needs a write longer than the cut")
			}
			if old, ok := vol[p.ext]; ok {
				vol[p.ext] = pwrite(old, p.off, p.data[:cut])
			}
			cutClass = "mid"
		}
	}
	if mode == "power" {
		return dur, prev, cur, cutClass
	}
	return vol, prev, cur, cutClass
}

func getClass(st quickfix.MessageStore, b, e int) string {
	return guard(func() string {
		msgs, err := st.GetMessages(b, e)
		r := "ok"
		if err != nil {
			r = "err"
		}
		var sb strings.Builder
		fmt.Fprintf(&sb, "%s %d", r, len(msgs))
		for _, m := range msgs {
			sb.WriteString(" " + hx(m))
		}
		return sb.String()
	})
}

const wholeRangeEnd = 1<<63 - 1 // the largest Go int: GetMessages over the whole range

func (im *storeImpl) execCrash(w []string) string {
	c := im.crash
	if c == nil {
		panic("crash ops need the crash family")
	}
	c.enabled = false
	switch w[0] {
	case "crash":
		sid, i, cut, mode := w[1], mustInt(w[2]), mustInt(w[3]), w[4]
		img, prev, cur, cutClass := c.image(sid, i, cut, mode)
		dir := filepath.Join(im.caseDir, "img")
		if err := os.MkdirAll(dir, 0o755); err != nil {
			panic(err)
		}
		writeSnap(dir, sid, img)
		at := fmt.Sprintf("at %s %s %s", prev, cur, cutClass)
		st, err := im.create("filens", sid, dir) // recovery probe: same code paths, no fsync (only speed)
		if err != nil {
			return "rec err " + at
		}
		defer st.Close()
		var sb strings.Builder
		fmt.Fprintf(&sb, "rec ok %s c %d %d all %s", at, st.NextSenderMsgSeqNum(), st.NextTargetMsgSeqNum(), getClass(st, 0, wholeRangeEnd))
		if w[5] != "-" {
			for _, q := range strings.Split(w[5], ",") {
				n := mustInt(q)
				fmt.Fprintf(&sb, " q %d %s", n, getClass(st, n, n))
			}
		}
		return sb.String()
	case "crashresume":
		sid, i, cut, mode := w[1], mustInt(w[2]), mustInt(w[3]), w[4]
		s := im.sess[sid]
		img, prev, cur, cutClass := c.image(sid, i, cut, mode)
		at := fmt.Sprintf(" at %s %s %s", prev, cur, cutClass)
		if s.st != nil {
			_ = s.st.Close() // the old process is gone; its handles are dropped (contents are replaced below)
		}
		writeSnap(im.fsDir(), sid, img)
		c.dur[sid] = img.clone() // after a restart what is on disk is what is durable
		c.begin(sid)
		st, err := im.create(s.kind, sid, im.fsDir())
		c.end()
		if err != nil {
			s.st = nil
			return im.obs(s, false, nil) + at
		}
		s.st = st
		res := im.obs(s, true, nil) + at
		return res + " all " + getClass(st, 0, wholeRangeEnd)
	case "sqlfail":
		k := mustInt(w[2])
		// w[1] is the sid again inside the inner op
		sqlCtl.arm(k)
		res := im.exec(strings.Join(w[3:], " "))
		sqlCtl.arm(0)
		return res
	}
	panic("bad crash op")
}

// ---------------------------------------------------------------- generator

// crashPoints emits the crash ops for every point of the last op on g.
func genCrashPoints(r *rng, im *storeImpl, g *storeSessGen, seqs string, o *out, do func(string) string) {
	tr := im.crash.traces[g.sid]
	if tr == nil {
		return
	}
	for i := 0; i <= len(tr.prims); i++ {
		do(fmt.Sprintf("crash %s %d 0 process %s", g.sid, i, seqs))
		do(fmt.Sprintf("crash %s %d 0 power %s", g.sid, i, seqs))
		o.kind("crash.boundary")
		if i < len(tr.prims) && tr.prims[i].kind == "write" {
			n := len(tr.prims[i].data)
			var cuts []int
			if tr.prims[i].ext == "session" {
				// the text of a time has no fixed length (and the model's token is shorter): every strict prefix is
				// equally unparseable, so three cuts inside the shortest possible text stand for all of them
				cuts = []int{1, 7, 13}
			} else if strings.HasSuffix(tr.prims[i].ext, "seqnums") && n > 4 && !r.chance(1, 6) {
				// fixed-width counter: the cuts that matter are around the digits that change (the tail)
				cuts = []int{r.rangeInt(1, n-3), n - 2, n - 1}
			} else if n <= 24 {
				for k := 1; k < n; k++ {
					cuts = append(cuts, k)
				}
			} else {
				cuts = []int{1, n - 1}
				for k := 0; k < 5; k++ {
					cuts = append(cuts, r.rangeInt(1, n-1))
				}
			}
			for _, k := range cuts {
				do(fmt.Sprintf("crash %s %d %d process %s", g.sid, i, k, seqs))
				o.kind("crash.cut." + tr.prims[i].label())
			}
		}
	}
}

var theCrashImpl *storeImpl

func genCrash(r *rng, tier string, idx int, o *out, do func(string) string) string {
	im := theCrashImpl
	if r.chance(1, 6) {
		return genCrashSQL(r, o, do)
	}
	kind := "file"
	if r.chance(1, 8) {
		kind = "filens"
	}
	nOps := r.rangeInt(6, 30)
	nSess := 1 + r.intn(2)
	used := map[string]bool{}
	var gs []*storeSessGen
	for i := 0; i < nSess; i++ {
		gs = append(gs, &storeSessGen{sid: genSid(r, used), s: 1, t: 1})
	}
	saved := map[string][]int{}
	o.kind("kind." + kind)
	opened := 0
	shape := kind
	explore := func(g *storeSessGen, name string) {
		// probe the most recent saves (the in-flight one is the last) and one older one
		sv := saved[g.sid]
		var qs []string
		for k := len(sv) - 1; k >= 0 && k >= len(sv)-3; k-- {
			qs = append(qs, fmt.Sprint(sv[k]))
		}
		if len(sv) > 3 {
			qs = append(qs, fmt.Sprint(sv[r.intn(len(sv)-3)]))
		}
		seqs := "-"
		if len(qs) > 0 {
			seqs = strings.Join(qs, ",")
		}
		genCrashPoints(r, im, g, seqs, o, do)
		shape += "!" + name
	}
	for k := 0; k < nOps; k++ {
		if opened < nSess && (opened == 0 || r.chance(1, 5)) {
			g := gs[opened]
			parseCtr(do(fmt.Sprintf("open %s %s", kind, g.sid)), g)
			opened++
			if r.chance(1, 3) {
				explore(g, "open")
			}
			continue
		}
		g := gs[r.intn(opened)]
		before := g.lastSaved
		name := genStoreOp(r, kind, g, o, do)
		if name == "save" || name == "saveIncr" {
			saved[g.sid] = append(saved[g.sid], g.lastSaved)
		}
		if name == "reset" {
			saved[g.sid] = nil
		}
		shape += "," + name
		mutating := name != "get" && name != "iter"
		if (mutating && r.chance(1, 2)) || r.chance(1, 10) {
			explore(g, name)
			if r.chance(1, 3) {
				// the process really dies here: continue the history on a crash image
				tr := im.crash.traces[g.sid]
				i := r.intn(len(tr.prims) + 1)
				cut := 0
				mode := "process"
				if i < len(tr.prims) && tr.prims[i].kind == "write" && len(tr.prims[i].data) > 1 && r.chance(1, 2) {
					cut = r.rangeInt(1, len(tr.prims[i].data)-1)
					if tr.prims[i].ext == "session" {
						cut = r.rangeInt(1, 13)
					}
				} else if r.chance(1, 4) {
					mode = "power"
				}
				res := do(fmt.Sprintf("crashresume %s %d %d %s", g.sid, i, cut, mode))
				parseCtr(res, g)
				o.kind("crash.resume")
				if (name == "save" || name == "saveIncr") && i < len(tr.prims) && r.chance(2, 3) {
					// the interrupted save is repeated by the application under the same number
					g.lastSaved = before
					if sv := saved[g.sid]; len(sv) > 0 {
						saved[g.sid] = sv[:len(sv)-1]
					}
				}
				if name == "reset" {
					g.lastSaved = before
				}
				if r.chance(1, 2) {
					explore(g, "resume")
				}
			}
		}
	}
	o.nontrivial(shape)
	return "crash"
}

func genCrashSQL(r *rng, o *out, do func(string) string) string {
	used := map[string]bool{}
	g := &storeSessGen{sid: genSid(r, used), s: 1, t: 1}
	o.kind("kind.sql")
	parseCtr(do("open sql "+g.sid), g)
	shape := "sql"
	n := r.rangeInt(6, 25)
	for k := 0; k < n; k++ {
		if r.chance(1, 2) {
			name := genStoreOp(r, "sql", g, o, do)
			shape += "," + name
			continue
		}
		// a failing statement inside an op, then look at what is left behind
		seq := g.lastSaved + 1
		if g.s > seq {
			seq = g.s
		}
		var op string
		switch r.intn(6) {
		case 0, 1, 2:
			op = fmt.Sprintf("saveIncr %s %d %s", g.sid, seq, hx(genMsg(r)))
		case 3:
			op = fmt.Sprintf("save %s %d %s", g.sid, seq, hx(genMsg(r)))
		case 4:
			op = "incS " + g.sid
		default:
			op = fmt.Sprintf("setT %s %d", g.sid, r.rangeInt(1, 50))
		}
		kf := r.rangeInt(1, 3)
		res := do(fmt.Sprintf("sqlfail %s %d %s", g.sid, kf, op))
		parseCtr(res, g)
		o.kind("sqlfail." + strings.Fields(op)[0] + fmt.Sprintf(".%d", kf))
		shape += fmt.Sprintf(",F%d%s", kf, strings.Fields(op)[0])
		if strings.HasPrefix(res, "r ok") && strings.HasPrefix(op, "save") {
			g.lastSaved = seq
		}
		do(fmt.Sprintf("get %s %d %d", g.sid, seq, seq))
		if r.chance(1, 2) {
			parseCtr(do("reopen "+g.sid), g)
		} else if r.chance(1, 2) {
			parseCtr(do("refresh "+g.sid), g)
		}
	}
	o.nontrivial(shape)
	return "crash-sql"
}

func init() {
	families["crash"] = &family{newImpl: func() impl {
		im := newStoreImpl()
		im.root = filepath.Join(filepath.Dir(im.root), "cr")
		im.crashOn = true
		theCrashImpl = im
		return im
	}, gen: genCrash}
	_ = file.VerifHook
}
