package main

// Dictionaries and validator defects of the `sess` family (C06 with a validator; C15's vocabulary inside a session).
//
// The specifications are WRITTEN BY THE HARNESS: built here as ASTs, sent to both sides as `ddict app|tr <NAME> <serialised
// AST>` ops (the serialisation of families `dict` / `valid`), rendered to XML files under the -out directory by the op itself
// and loaded by the REAL session factory through the settings DataDictionary (FIX.4.x: SD4) or TransportDataDictionary +
// AppDataDictionary (FIXT.1.1: SDT + SDA).  No repeating groups, no components.
//
//   header   8 9 35 49 56 34 52 required; 43 97 122 115 128 129 116 50 57 142 143 144 145 369 1128 optional
//   trailer  10 required; 93 89 optional
//   admin    0 (112) · 1 (112!) · 2 (7! 16!) · 3 (45! 371 372 373 58) · 4 (123 36!) · 5 (58) · A (98! 108! 141 789 [1137! in SDT])
//   app      D (9000! 55! 54! 1 38 60) · 8 (9000! 55! 54 37 1 60) · AE (9000! 55! 571 1 38 60) · j (372! 380! 45 379 58 9000)
//            — every message also allows 9001 (the scripted verdict), application messages 9002 / 9003
//   enumerated: 98 EncryptMethod 0–6, 54 Side 1 2 5, 373 SessionRejectReason 0–17, 380 BusinessRejectReason 0–5
//   typed (no enumeration): 108 INT, 7 16 36 45 789 SEQNUM, 371 INT, 38 QTY, 60 UTCTIMESTAMP, 123 141 43 97 BOOLEAN, 9000 INT
//
// SD4 holds everything; SDT holds header, trailer and the administrative messages; SDA holds the application messages with an
// empty header and trailer (as the shipped FIX50*.xml do).

import (
	"os"
	"path/filepath"
	"strconv"
	"strings"
)

func seqEnums(lo, hi int) []string {
	var es []string
	for i := lo; i <= hi; i++ {
		es = append(es, strconv.Itoa(i))
	}
	return es
}

var sessHeaderFields = []dField{
	{"BeginString", 8, "STRING", nil}, {"BodyLength", 9, "LENGTH", nil}, {"MsgType", 35, "STRING", nil},
	{"SenderCompID", 49, "STRING", nil}, {"TargetCompID", 56, "STRING", nil}, {"MsgSeqNum", 34, "SEQNUM", nil},
	{"SendingTime", 52, "UTCTIMESTAMP", nil}, {"PossDupFlag", 43, "BOOLEAN", nil}, {"PossResend", 97, "BOOLEAN", nil},
	{"OrigSendingTime", 122, "UTCTIMESTAMP", nil}, {"OnBehalfOfCompID", 115, "STRING", nil}, {"DeliverToCompID", 128, "STRING", nil},
	{"DeliverToSubID", 129, "STRING", nil}, {"OnBehalfOfSubID", 116, "STRING", nil}, {"SenderSubID", 50, "STRING", nil},
	{"TargetSubID", 57, "STRING", nil}, {"SenderLocationID", 142, "STRING", nil}, {"TargetLocationID", 143, "STRING", nil},
	{"OnBehalfOfLocationID", 144, "STRING", nil}, {"DeliverToLocationID", 145, "STRING", nil},
	{"LastMsgSeqNumProcessed", 369, "SEQNUM", nil}, {"ApplVerID", 1128, "STRING", nil},
	{"CheckSum", 10, "STRING", nil}, {"SignatureLength", 93, "LENGTH", nil}, {"Signature", 89, "DATA", nil},
}

var sessAdminFields = []dField{
	{"TestReqID", 112, "STRING", nil}, {"BeginSeqNo", 7, "SEQNUM", nil}, {"EndSeqNo", 16, "SEQNUM", nil},
	{"RefSeqNum", 45, "SEQNUM", nil}, {"RefTagID", 371, "INT", nil}, {"RefMsgType", 372, "STRING", nil},
	{"SessionRejectReason", 373, "INT", seqEnums(0, 17)}, {"Text", 58, "STRING", nil}, {"GapFillFlag", 123, "BOOLEAN", nil},
	{"NewSeqNo", 36, "SEQNUM", nil}, {"EncryptMethod", 98, "INT", seqEnums(0, 6)}, {"HeartBtInt", 108, "INT", nil},
	{"ResetSeqNumFlag", 141, "BOOLEAN", nil}, {"NextExpectedMsgSeqNum", 789, "SEQNUM", nil}, {"DefaultApplVerID", 1137, "STRING", nil}, {"VerifVerdict", 9001, "STRING", nil},
}

var sessAppFields = []dField{
	{"VerifId", 9000, "INT", nil}, {"VerifToApp", 9002, "STRING", nil}, {"VerifResend", 9003, "STRING", nil},
	{"Symbol", 55, "STRING", nil}, {"Side", 54, "CHAR", []string{"1", "2", "5"}}, {"Account", 1, "STRING", nil},
	{"OrderQty", 38, "QTY", nil}, {"TransactTime", 60, "UTCTIMESTAMP", nil}, {"OrderID", 37, "STRING", nil},
	{"TradeReportID", 571, "STRING", nil}, {"BusinessRejectReason", 380, "INT", seqEnums(0, 5)}, {"BusinessRejectRefID", 379, "STRING", nil},
}

// fields the application dictionary of a FIXT session needs besides sessAppFields
var sessAppExtra = []dField{
	{"RefSeqNum", 45, "SEQNUM", nil}, {"RefMsgType", 372, "STRING", nil}, {"Text", 58, "STRING", nil}, {"VerifVerdict", 9001, "STRING", nil},
}

func fieldNames(groups ...[]dField) map[int]string {
	m := map[int]string{}
	for _, g := range groups {
		for _, f := range g {
			m[f.num] = f.name
		}
	}
	return m
}

// members: "tag" optional, "tag!" required
func sessMembers(names map[int]string, spec string) []*dMember {
	var ms []*dMember
	for _, w := range strings.Fields(spec) {
		req := strings.HasSuffix(w, "!")
		n, err := strconv.Atoi(strings.TrimSuffix(w, "!"))
		if err != nil || names[n] == "" {
			panic("sessdict: bad member " + w)
		}
		ms = append(ms, &dMember{kind: 'f', name: names[n], req: req})
	}
	return ms
}

const sessHeaderSpec = "8! 9! 35! 49! 56! 34! 52! 43 97 122 115 128 129 116 50 57 142 143 144 145 369 1128"
const sessTrailerSpec = "93 89 10!"

var sessAdminMsgs = [][3]string{
	{"Heartbeat", "0", "112 9001"}, {"TestRequest", "1", "112! 9001"}, {"ResendRequest", "2", "7! 16! 9001"},
	{"Reject", "3", "45! 371 372 373 58 9001"}, {"SequenceReset", "4", "123 36! 9001"}, {"Logout", "5", "58 9001"},
	{"Logon", "A", "98! 108! 141 789 9001"},
}

var sessAppMsgs = [][3]string{
	{"NewOrderSingle", "D", "9000! 9001 9002 9003 55! 54! 1 38 60"}, {"ExecutionReport", "8", "9000! 9001 9002 9003 55! 54 37 1 60"},
	{"TradeCaptureReport", "AE", "9000! 9001 9002 9003 55! 571 1 38 60"}, {"BusinessMessageReject", "j", "45 372! 380! 379 58 9001 9000"},
}

func sessDictAst(name string) *dAst {
	a := &dAst{typ: "FIX", major: "4", minor: "2", hasHeader: true, hasTrailer: true}
	addMsgs := func(names map[int]string, ms [][3]string, fixt bool) {
		for _, m := range ms {
			spec := m[2]
			if fixt && m[1] == "A" {
				spec += " 1137!"
			}
			a.msgs = append(a.msgs, dMsg{name: m[0], msgType: m[1], members: sessMembers(names, spec)})
		}
	}
	switch name {
	case "SD4":
		a.fields = append(append(append([]dField{}, sessHeaderFields...), sessAdminFields...), sessAppFields...)
		names := fieldNames(a.fields)
		a.header, a.trailer = sessMembers(names, sessHeaderSpec), sessMembers(names, sessTrailerSpec)
		addMsgs(names, sessAdminMsgs, false)
		addMsgs(names, sessAppMsgs, false)
	case "SDT":
		a.typ, a.major, a.minor = "FIXT", "1", "1"
		a.fields = append(append([]dField{}, sessHeaderFields...), sessAdminFields...)
		names := fieldNames(a.fields)
		a.header, a.trailer = sessMembers(names, sessHeaderSpec), sessMembers(names, sessTrailerSpec)
		addMsgs(names, sessAdminMsgs, true)
	case "SDA":
		a.major, a.minor = "5", "0"
		a.fields = append(append([]dField{}, sessAppFields...), sessAppExtra...)
		addMsgs(fieldNames(a.fields), sessAppMsgs, false)
	default:
		panic("sessdict: unknown dictionary " + name)
	}
	return a
}

// writeSessDict renders the AST of a `ddict` op to <out>/sessdict/<name>.xml and returns the path.
func writeSessDict(name string, a *dAst) string {
	dir := runOutDir
	if dir == "" {
		dir = os.TempDir()
	}
	dir = filepath.Join(dir, "sessdict")
	if err := os.MkdirAll(dir, 0o755); err != nil {
		panic(err)
	}
	for _, c := range name {
		if !(c >= 'A' && c <= 'Z' || c >= '0' && c <= '9' || c >= 'a' && c <= 'z') {
			panic("sessdict: bad dictionary name")
		}
	}
	p := filepath.Join(dir, name+".xml")
	if err := os.WriteFile(p, []byte(a.renderXML()), 0o644); err != nil {
		panic(err)
	}
	return p
}

// ---------------------------------------------------------------- planting (generator side)

func fieldTag(f string) string { return f[:strings.IndexByte(f, '=')] }

func hasTag(fs []string, tag string) bool {
	for _, f := range fs {
		if fieldTag(f) == tag {
			return true
		}
	}
	return false
}

var sessRequiredBody = map[string][]string{
	"A": {"98", "108"}, "1": {"112"}, "2": {"7", "16"}, "3": {"45"}, "4": {"36"},
	"D": {"55", "54", "9000"}, "8": {"55", "9000"}, "AE": {"55", "9000"},
}

// a field the dictionary defines, but not for this message type
var sessAlien = map[string]string{
	"D": "37=ORD1", "8": "38=10", "AE": "37=ORD1", "0": "36=5", "1": "36=5", "2": "112=x", "3": "112=x", "4": "112=x", "5": "112=x", "A": "112=x",
}

var sessDefectKinds = []string{"required_missing", "not_defined_for_type", "not_in_dictionary", "empty_value", "bad_enum", "bad_format",
	"section_order", "section_order", "duplicate_tag"}

func isAppKind(k string) bool { return k == "D" || k == "8" || k == "AE" }

// plantDefect plants ONE validator defect (C15's kinds, those that make sense without repeating groups) into the body of a
// message that conforms to the dictionaries above.  Returns the new body, the kind actually planted and the tag touched.
func plantDefect(r *rng, kind string, body []string) (nb []string, planted string, tag string) {
	start := r.intn(len(sessDefectKinds))
	for i := 0; i < len(sessDefectKinds); i++ {
		dk := sessDefectKinds[(start+i)%len(sessDefectKinds)]
		b := append([]string{}, body...)
		idx := func(tags ...string) int { // position of the first present tag among tags
			for _, t := range tags {
				for j, f := range b {
					if fieldTag(f) == t {
						return j
					}
				}
			}
			return -1
		}
		insertAt := func(j int, f string) { b = append(b[:j:j], append([]string{f}, b[j:]...)...) }
		switch dk {
		case "required_missing":
			req := sessRequiredBody[kind]
			if len(req) == 0 {
				continue
			}
			t := req[r.intn(len(req))]
			j := idx(t)
			if j < 0 {
				continue
			}
			return append(b[:j:j], b[j+1:]...), dk, t
		case "not_defined_for_type":
			f := sessAlien[kind]
			if f == "" || hasTag(b, fieldTag(f)) {
				continue
			}
			insertAt(r.intn(len(b)+1), f)
			return b, dk, fieldTag(f)
		case "not_in_dictionary":
			t := r.pick([]string{"4999", "9100", "9100", "207"})
			insertAt(r.intn(len(b)+1), t+"=zz")
			return b, dk, t
		case "empty_value":
			var cands []int
			for j, f := range b {
				if t := fieldTag(f); t != "123" && t != "9000" {
					cands = append(cands, j)
				}
			}
			if len(cands) == 0 {
				f := map[string]string{"0": "112=", "5": "58="}[kind]
				if f == "" {
					f = "9001="
				}
				return append(b, f), dk, fieldTag(f)
			}
			j := cands[r.intn(len(cands))]
			t := fieldTag(b[j])
			b[j] = t + "="
			return b, dk, t
		case "bad_enum":
			j := idx("54", "98", "373")
			if j < 0 {
				continue
			}
			t := fieldTag(b[j])
			b[j] = t + "=" + r.pick([]string{"77", "99", "x"}) // outside every enumeration of sessdict.go
			return b, dk, t
		case "bad_format":
			if isAppKind(kind) && r.chance(1, 2) {
				f := r.pick([]string{"60=garbage", "60=20240101", "38=1x", "38=--"})
				if (kind == "8" && fieldTag(f) == "38") || hasTag(b, fieldTag(f)) {
					f = "60=1x"
				}
				insertAt(r.intn(len(b)+1), f)
				return b, dk, fieldTag(f)
			}
			j := idx("108", "16", "45", "36", "9000")
			if j < 0 {
				continue
			}
			t := fieldTag(b[j])
			b[j] = t + "=" + r.pick([]string{"1x", "x-", "--"})
			return b, dk, t
		case "section_order":
			if len(b) == 0 {
				continue
			}
			if r.chance(1, 2) {
				// a header field behind a body field
				f := r.pick([]string{"50=sub", "97=Y", "142=loc", "116=obo", "369=3"})
				insertAt(1+r.intn(len(b)), f)
				return b, dk, fieldTag(f)
			}
			// a body field behind a trailer field (the trailer carries SignatureLength / Signature)
			j := r.intn(len(b))
			f := b[j]
			b = append(b[:j:j], b[j+1:]...)
			tr := []string{"93=3", "89=sig"}[r.intn(2):]
			b = append(append(b, tr...), f)
			return b, dk, fieldTag(f)
		case "duplicate_tag":
			if len(b) == 0 {
				continue
			}
			j := r.intn(len(b))
			insertAt(j+1+r.intn(len(b)-j), b[j])
			return b, dk, fieldTag(b[j])
		}
	}
	return body, "", ""
}
