package main

func runExtract(repo, dir string) {}
