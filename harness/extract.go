package main

// Fact extractor (DESIGN §3.1): regenerates lean/Qfx/Gen/*.lean from the CURRENT sources of the repository with
// go/parser + go/ast only.  What is extracted is semantic, not syntactic: sets, tables, constants and the
// source-order skeleton of lock operations / protected actions of the send path.  The Lean side either uses
// these definitions or pins them to the hand-written model by `decide`d obligations (Props files).
import (
	"encoding/json"
	"fmt"
	"go/ast"
	"go/parser"
	"go/token"
	"os"
	"path/filepath"
	"sort"
	"strconv"
	"strings"
)

type genManifest struct {
	AnchorsMissing []anchorMissing `json:"anchors_missing"`
	Hashes         map[string]string `json:"hashes"`
}
type anchorMissing struct {
	Name       string   `json:"name"`
	Properties []string `json:"properties"`
}

type extractor struct {
	repo  string
	fset  *token.FileSet
	files map[string]*ast.File
	man   genManifest
	funcs []*ast.FuncDecl
}

func (x *extractor) file(rel string) *ast.File {
	if f, ok := x.files[rel]; ok {
		return f
	}
	f, err := parser.ParseFile(x.fset, filepath.Join(x.repo, rel), nil, parser.ParseComments)
	if err != nil {
		x.files[rel] = nil
		return nil
	}
	x.files[rel] = f
	return f
}

func (x *extractor) missing(name string, props ...string) {
	x.man.AnchorsMissing = append(x.man.AnchorsMissing, anchorMissing{name, props})
}

// funcDecl finds a function or method by name (and receiver type name, "" for plain functions).
func (x *extractor) funcDecl(rel, recv, name string) *ast.FuncDecl {
	f := x.file(rel)
	if f == nil {
		return nil
	}
	for _, d := range f.Decls {
		fd, ok := d.(*ast.FuncDecl)
		if !ok || fd.Name.Name != name {
			continue
		}
		r := ""
		if fd.Recv != nil && len(fd.Recv.List) > 0 {
			switch t := fd.Recv.List[0].Type.(type) {
			case *ast.StarExpr:
				if id, ok := t.X.(*ast.Ident); ok {
					r = id.Name
				}
			case *ast.Ident:
				r = t.Name
			}
		}
		if r == recv {
			return fd
		}
	}
	return nil
}

// ---------------------------------------------------------------- same-package helpers (followed ONE level)
//
// A maintainer who moves a few statements of a pinned function into a new unexported helper of the same package
// (same calls, same order) must not change a fact.  The extractor therefore reads a call to such a helper as the
// helper's own tokens, spliced in at the call site.  Resolution is by name and receiver TYPE only (no type checker):
//   helper(...)            -> the plain function `helper` of the package
//   v.helper(...)          -> the method `helper` of T, where v is the receiver or a parameter of the enclosing
//                             function declared as T or *T
// Exported functions, functions that have a token of their own (protectedCalls, check*) and pinned functions are
// never spliced: they stay visible under their own name.

func recvTypeName(fd *ast.FuncDecl) string {
	if fd.Recv == nil || len(fd.Recv.List) == 0 {
		return ""
	}
	return typeName(fd.Recv.List[0].Type)
}

func typeName(e ast.Expr) string {
	switch t := e.(type) {
	case *ast.StarExpr:
		return typeName(t.X)
	case *ast.Ident:
		return t.Name
	}
	return ""
}

// identTypes: receiver and parameter names of fd -> their (pointer-stripped) type names
func identTypes(fd *ast.FuncDecl) map[string]string {
	m := map[string]string{}
	add := func(fl *ast.FieldList) {
		if fl == nil {
			return
		}
		for _, f := range fl.List {
			tn := typeName(f.Type)
			if tn == "" {
				continue
			}
			for _, n := range f.Names {
				m[n.Name] = tn
			}
		}
	}
	add(fd.Recv)
	add(fd.Type.Params)
	return m
}

// pkgFuncs: every function declaration of the root package (no tests, no verif_ shims)
func (x *extractor) pkgFuncs() []*ast.FuncDecl {
	if x.funcs != nil {
		return x.funcs
	}
	x.funcs = []*ast.FuncDecl{}
	gofiles, _ := filepath.Glob(filepath.Join(x.repo, "*.go"))
	sort.Strings(gofiles)
	for _, gf := range gofiles {
		base := filepath.Base(gf)
		if strings.HasSuffix(base, "_test.go") || strings.HasPrefix(base, "verif_") {
			continue
		}
		f := x.file(base)
		if f == nil {
			continue
		}
		for _, d := range f.Decls {
			if fd, ok := d.(*ast.FuncDecl); ok && fd.Body != nil {
				x.funcs = append(x.funcs, fd)
			}
		}
	}
	return x.funcs
}

// helperOf resolves a call inside `in` to an unexported function/method of the package, or nil.
func (x *extractor) helperOf(in *ast.FuncDecl, call *ast.CallExpr) *ast.FuncDecl {
	var want, name string
	switch f := call.Fun.(type) {
	case *ast.Ident:
		want, name = "", f.Name
	case *ast.SelectorExpr:
		id, ok := f.X.(*ast.Ident)
		if !ok {
			return nil
		}
		tn, ok := identTypes(in)[id.Name]
		if !ok {
			return nil
		}
		want, name = tn, f.Sel.Name
	default:
		return nil
	}
	if name == "" || ast.IsExported(name) || name == in.Name.Name {
		return nil
	}
	var found *ast.FuncDecl
	for _, fd := range x.pkgFuncs() {
		if fd.Name.Name == name && recvTypeName(fd) == want {
			if found != nil {
				return nil // ambiguous: leave it alone
			}
			found = fd
		}
	}
	return found
}

func isPinned(fd *ast.FuncDecl) bool {
	for _, sp := range skelFuncs {
		if sp.name == fd.Name.Name && sp.recv == recvTypeName(fd) {
			return true
		}
	}
	return false
}

// selector chain of a call target, e.g. s.resendMutex.RLock -> ["s","resendMutex","RLock"]
func selChain(e ast.Expr) []string {
	switch t := e.(type) {
	case *ast.Ident:
		return []string{t.Name}
	case *ast.SelectorExpr:
		return append(selChain(t.X), t.Sel.Name)
	case *ast.CallExpr:
		return selChain(t.Fun)
	case *ast.ParenExpr:
		return selChain(t.X)
	}
	return nil
}

// ---------------------------------------------------------------- lock skeletons (C02)

var protectedCalls = map[string]string{
	"prepMessageForSend": "prep", "persist": "persist", "sendQueued": "flush", "dropQueued": "dropQ",
	"EnqueueBytesAndSend": "callEnqueueBytesAndSend", "IterateMessages": "iterate",
	"generateSequenceReset": "callGenerateSequenceReset", "sendBytes": "sendBytes",
	"SaveMessageAndIncrNextSenderMsgSeqNum": "storeSaveIncr", "IncrNextSenderMsgSeqNum": "storeIncrSender",
	"NextSenderMsgSeqNum": "readSeq", "Reset": "storeReset",
	// the foreign-goroutine path of ResetSession (registry.go): ShutdownNow -> sendLogout -> … -> sendInReplyTo, dropAndReset
	"ShutdownNow": "callShutdownNow", "dropAndReset": "callDropAndReset", "sendLogout": "callSendLogout",
	"sendLogoutInReplyTo": "callSendLogoutInReplyTo", "sendInReplyTo": "callSendInReplyTo", "queueForSend": "callQueueForSend",
}

// skeleton returns the source-order tokens of lock operations and protected actions; deferred unlocks are
// appended at the end in reverse order of their defer statements.
func skeleton(fd *ast.FuncDecl) []string { return (*extractor)(nil).skeletonN(fd, 0) }

// skeletonN: as skeleton, and calls to unexported same-package helpers are read as the helper's own skeleton
// (depth levels deep; the registered facts use depth 1).
func (x *extractor) skeletonN(fd *ast.FuncDecl, depth int) []string {
	var toks, deferred []string
	var visit func(n ast.Node) bool
	lockTok := func(chain []string) string {
		if len(chain) < 3 {
			return ""
		}
		m, op := chain[len(chain)-2], chain[len(chain)-1]
		which := ""
		switch m {
		case "sendMutex":
			which = "S"
		case "resendMutex":
			which = "R"
		default:
			return ""
		}
		switch op {
		case "Lock":
			return "lock" + which
		case "Unlock":
			return "unlock" + which
		case "RLock":
			return "rlock" + which
		case "RUnlock":
			return "runlock" + which
		}
		return ""
	}
	visit = func(n ast.Node) bool {
		switch t := n.(type) {
		case *ast.DeferStmt:
			if lt := lockTok(selChain(t.Call.Fun)); lt != "" {
				deferred = append(deferred, lt)
				return false
			}
		case *ast.AssignStmt:
			// s.toSend = append(s.toSend, …)  /  s.toSend = s.toSend[:0] / [i:]
			for _, l := range t.Lhs {
				ch := selChain(l)
				if len(ch) >= 2 && ch[len(ch)-1] == "toSend" {
					kind := "queueWrite"
					if len(t.Rhs) == 1 {
						if c, ok := t.Rhs[0].(*ast.CallExpr); ok {
							if id, ok := c.Fun.(*ast.Ident); ok && id.Name == "append" {
								kind = "enqueue"
							}
						}
					}
					// visit the RHS first (it may contain calls), then record the write
					for _, r := range t.Rhs {
						ast.Inspect(r, visit)
					}
					toks = append(toks, kind)
					return false
				}
			}
		case *ast.RangeStmt:
			ch := selChain(t.X)
			if len(ch) >= 2 && ch[len(ch)-1] == "toSend" {
				toks = append(toks, "queueRead")
			}
		case *ast.CallExpr:
			ch := selChain(t.Fun)
			if lt := lockTok(ch); lt != "" {
				toks = append(toks, lt)
				return true
			}
			if len(ch) > 0 {
				if tk, ok := protectedCalls[ch[len(ch)-1]]; ok {
					// arguments first (source order of evaluation), then the call
					for _, a := range t.Args {
						ast.Inspect(a, visit)
					}
					toks = append(toks, tk)
					return false
				}
			}
			if depth > 0 && x != nil {
				if h := x.helperOf(fd, t); h != nil && !isPinned(h) {
					if sub := x.skeletonN(h, depth-1); len(sub) > 0 {
						for _, a := range t.Args {
							ast.Inspect(a, visit)
						}
						toks = append(toks, sub...)
						return false
					}
				}
			}
		}
		return true
	}
	ast.Inspect(fd.Body, visit)
	for i := len(deferred) - 1; i >= 0; i-- {
		toks = append(toks, deferred[i])
	}
	return toks
}

// onlySplicedIntoPinned: h is an unexported, unpinned helper, it is called somewhere, and EVERY mention of its name in
// the package is a call that sits inside a pinned function whose skeleton splices it in (so its tokens are part of a
// pinned fact, at the place where they happen).
func (x *extractor) onlySplicedIntoPinned(h *ast.FuncDecl) bool {
	if ast.IsExported(h.Name.Name) || isPinned(h) {
		return false
	}
	if _, own := protectedCalls[h.Name.Name]; own {
		return false
	}
	spliced := map[*ast.Ident]bool{} // the name identifiers that are accounted for
	for _, in := range x.pkgFuncs() {
		if !isPinned(in) {
			continue
		}
		ast.Inspect(in.Body, func(n ast.Node) bool {
			if c, ok := n.(*ast.CallExpr); ok && x.helperOf(in, c) == h {
				switch f := c.Fun.(type) {
				case *ast.Ident:
					spliced[f] = true
				case *ast.SelectorExpr:
					spliced[f.Sel] = true
				}
			}
			return true
		})
	}
	if len(spliced) == 0 {
		return false
	}
	ok := true
	for _, in := range x.pkgFuncs() {
		ast.Inspect(in.Body, func(n ast.Node) bool {
			if id, isID := n.(*ast.Ident); isID && id.Name == h.Name.Name && !spliced[id] {
				ok = false // another call, a method value, a shadowing local …: not accounted for
			}
			return true
		})
	}
	return ok
}

type skelSpec struct{ file, recv, name, lean string }

var skelFuncs = []skelSpec{
	{"session.go", "session", "queueForSend", "queueForSend"},
	{"session.go", "session", "sendInReplyTo", "sendInReplyTo"},
	{"session.go", "session", "dropAndReset", "dropAndReset"},
	{"session.go", "session", "dropAndSendInReplyTo", "dropAndSendInReplyTo"},
	{"session.go", "session", "prepMessageForSend", "prepMessageForSend"},
	{"session.go", "session", "persist", "persist"},
	{"session.go", "session", "sendQueued", "sendQueued"},
	{"session.go", "session", "dropQueued", "dropQueued"},
	{"session.go", "session", "EnqueueBytesAndSend", "enqueueBytesAndSend"},
	{"session_state.go", "stateMachine", "SendAppMessages", "sendAppMessages"},
	{"in_session.go", "inSession", "resendMessages", "resendMessages"},
	{"in_session.go", "inSession", "generateSequenceReset", "generateSequenceReset"},
	{"registry.go", "", "ResetSession", "resetSession"},
	{"session_state.go", "loggedOn", "ShutdownNow", "shutdownNow_loggedOn"},
	{"session_state.go", "connectedNotLoggedOn", "ShutdownNow", "shutdownNow_notLoggedOn"},
	{"latent_state.go", "latentState", "ShutdownNow", "shutdownNow_latent"},
	{"session.go", "session", "sendLogout", "sendLogout"},
	{"session.go", "session", "sendLogoutInReplyTo", "sendLogoutInReplyTo"},
}

// ---------------------------------------------------------------- tables and constants

func (x *extractor) caseList(rel, recv, name string) []string {
	fd := x.funcDecl(rel, recv, name)
	if fd == nil {
		return nil
	}
	var out []string
	ast.Inspect(fd.Body, func(n ast.Node) bool {
		if cc, ok := n.(*ast.CaseClause); ok {
			for _, e := range cc.List {
				switch t := e.(type) {
				case *ast.Ident:
					out = append(out, t.Name)
				case *ast.CallExpr: // bytes.Equal(msgTypeX, m)
					for _, a := range t.Args {
						if id, ok := a.(*ast.Ident); ok && strings.HasPrefix(id.Name, "msgType") {
							out = append(out, id.Name)
						}
					}
				}
			}
		}
		return true
	})
	return out
}

// rangeList: the function decides membership by ranging over a fixed list instead of a case list —
// `for _, k := range <list> { … }` where <list> is a composite literal of identifiers, or a package-level variable of the
// same file initialised with one.  Returns the identifiers (same shape as caseList).
func (x *extractor) rangeList(rel, recv, name string) []string {
	fd := x.funcDecl(rel, recv, name)
	f := x.file(rel)
	if fd == nil || f == nil {
		return nil
	}
	idents := func(e ast.Expr) []string {
		cl, ok := e.(*ast.CompositeLit)
		if !ok {
			return nil
		}
		var out []string
		for _, el := range cl.Elts {
			id, ok := el.(*ast.Ident)
			if !ok {
				return nil // anything but a plain identifier: not understood, no fact
			}
			out = append(out, id.Name)
		}
		return out
	}
	var out []string
	ast.Inspect(fd.Body, func(n ast.Node) bool {
		rs, ok := n.(*ast.RangeStmt)
		if !ok {
			return true
		}
		if l := idents(rs.X); l != nil {
			out = append(out, l...)
			return true
		}
		id, ok := rs.X.(*ast.Ident)
		if !ok {
			return true
		}
		for _, d := range f.Decls {
			gd, ok := d.(*ast.GenDecl)
			if !ok || gd.Tok != token.VAR {
				continue
			}
			for _, sp := range gd.Specs {
				vs := sp.(*ast.ValueSpec)
				for i, nm := range vs.Names {
					if nm.Name == id.Name && i < len(vs.Values) {
						out = append(out, idents(vs.Values[i])...)
					}
				}
			}
		}
		return true
	})
	return out
}

// assignedElsewhere: a package-level variable of the root package is written (assigned, appended to, indexed on the
// left) outside its declaration — then its initialiser says nothing about its value
func (x *extractor) assignedElsewhere(varName string) bool {
	hit := false
	for _, fd := range x.pkgFuncs() {
		ast.Inspect(fd.Body, func(n ast.Node) bool {
			if as, ok := n.(*ast.AssignStmt); ok {
				for _, l := range as.Lhs {
					if ch := selChain(l); len(ch) == 1 && ch[0] == varName {
						hit = true
					}
					if ix, ok := l.(*ast.IndexExpr); ok {
						if ch := selChain(ix.X); len(ch) == 1 && ch[0] == varName {
							hit = true
						}
					}
				}
			}
			return true
		})
	}
	return hit
}

// constants of a file: name -> literal text (ints and strings), iota blocks resolved for plain `= iota` sequences
func (x *extractor) consts(rel string) map[string]string {
	res := map[string]string{}
	f := x.file(rel)
	if f == nil {
		return res
	}
	for _, d := range f.Decls {
		gd, ok := d.(*ast.GenDecl)
		if !ok || (gd.Tok != token.CONST && gd.Tok != token.VAR) {
			continue
		}
		iota := 0
		useIota := false
		for _, sp := range gd.Specs {
			vs := sp.(*ast.ValueSpec)
			for i, nm := range vs.Names {
				if i < len(vs.Values) {
					switch v := vs.Values[i].(type) {
					case *ast.BasicLit:
						res[nm.Name] = v.Value
						useIota = false
					case *ast.Ident:
						if v.Name == "iota" {
							useIota = true
							res[nm.Name] = strconv.Itoa(iota)
						}
					case *ast.CallExpr: // []byte("0"), Tag(8)
						if len(v.Args) == 1 {
							if bl, ok := v.Args[0].(*ast.BasicLit); ok {
								res[nm.Name] = bl.Value
							}
						}
					}
				} else if useIota {
					res[nm.Name] = strconv.Itoa(iota)
				}
			}
			iota++
		}
	}
	return res
}

func leanStrList(xs []string) string {
	q := make([]string, len(xs))
	for i, s := range xs {
		q[i] = strconv.Quote(s)
	}
	return "[" + strings.Join(q, ", ") + "]"
}

// verifySelect: order of the check* calls
func (x *extractor) verifyOrder() []string {
	fd := x.funcDecl("session.go", "session", "verifySelect")
	if fd == nil {
		return nil
	}
	recorded := func(nm string) bool {
		return strings.HasPrefix(nm, "check") || nm == "verifyMsgAgainstAppImpl" || nm == "currentResendState"
	}
	var out []string
	var walk func(in *ast.FuncDecl, depth int)
	walk = func(in *ast.FuncDecl, depth int) {
		ast.Inspect(in.Body, func(n ast.Node) bool {
			if c, ok := n.(*ast.CallExpr); ok {
				ch := selChain(c.Fun)
				if len(ch) > 0 {
					nm := ch[len(ch)-1]
					if recorded(nm) {
						out = append(out, nm)
					} else if depth > 0 {
						// a same-package unexported helper: the checks it makes count as made here, in its order
						if h := x.helperOf(in, c); h != nil {
							walk(h, depth-1)
						}
					}
				}
			}
			return true
		})
	}
	walk(fd, 1)
	return out
}

// one entry per place that arms the peer timer (`….peerTimer.Reset(arg)`): the float literals converted by float64(<lit>)
// inside arg, or — when arg gets its value from an unexported same-package helper — inside that helper's body
// ("<none>" if there is no such literal: the duration is computed some other way)
func floatLits(n ast.Node) []string {
	var out []string
	ast.Inspect(n, func(n ast.Node) bool {
		if c, ok := n.(*ast.CallExpr); ok {
			if id, ok := c.Fun.(*ast.Ident); ok && id.Name == "float64" && len(c.Args) == 1 {
				if bl, ok := c.Args[0].(*ast.BasicLit); ok && bl.Kind == token.FLOAT {
					out = append(out, bl.Value)
				}
			}
		}
		return true
	})
	return out
}

func (x *extractor) peerFactors() []string {
	var out []string
	for _, rel := range []string{"session.go", "session_state.go", "in_session.go"} {
		f := x.file(rel)
		if f == nil {
			continue
		}
		for _, d := range f.Decls {
			fd, ok := d.(*ast.FuncDecl)
			if !ok || fd.Body == nil {
				continue
			}
			ast.Inspect(fd.Body, func(n ast.Node) bool {
				c, ok := n.(*ast.CallExpr)
				if !ok {
					return true
				}
				ch := selChain(c.Fun)
				if len(ch) < 2 || ch[len(ch)-1] != "Reset" || ch[len(ch)-2] != "peerTimer" || len(c.Args) != 1 {
					return true
				}
				lits := floatLits(c.Args[0])
				if len(lits) == 0 {
					ast.Inspect(c.Args[0], func(m ast.Node) bool {
						if hc, ok := m.(*ast.CallExpr); ok {
							if h := x.helperOf(fd, hc); h != nil {
								lits = append(lits, floatLits(h.Body)...)
							}
						}
						return true
					})
				}
				if len(lits) == 0 {
					lits = []string{"<none>"}
				}
				out = append(out, lits...)
				return true
			})
		}
	}
	return out
}

func runExtract(repo, dir string) {
	x := &extractor{repo: repo, fset: token.NewFileSet(), files: map[string]*ast.File{}}
	x.man.Hashes = map[string]string{}
	if err := os.MkdirAll(dir, 0o755); err != nil {
		panic(err)
	}
	var sb strings.Builder
	sb.WriteString("/- GENERATED by `qfxh extract` from the repository's current sources — do not edit. -/\nnamespace Qfx.Gen\n\n")

	// --- lock skeletons
	sb.WriteString("/-- source-order lock operations and protected actions of the send path (session.go, in_session.go, session_state.go) -/\n")
	for _, sp := range skelFuncs {
		fd := x.funcDecl(sp.file, sp.recv, sp.name)
		if fd == nil {
			x.missing("func "+sp.recv+"."+sp.name, "C02")
			sb.WriteString(fmt.Sprintf("def skel_%s : List String := [\"<missing>\"]\n", sp.lean))
			continue
		}
		sb.WriteString(fmt.Sprintf("def skel_%s : List String := %s\n", sp.lean, leanStrList(x.skeletonN(fd, 1))))
	}
	// every function of the three files whose skeleton mentions a queue access or prep/persist/flush/dropQ: who touches the send path at all
	var touchers []string
	for _, rel := range []string{"session.go", "in_session.go", "session_state.go", "registry.go", "resend_state.go", "logon_state.go", "logout_state.go", "pending_timeout.go"} {
		f := x.file(rel)
		if f == nil {
			continue
		}
		for _, d := range f.Decls {
			fd, ok := d.(*ast.FuncDecl)
			if !ok || fd.Body == nil {
				continue
			}
			if x.onlySplicedIntoPinned(fd) {
				continue
			}
			for _, t := range skeleton(fd) {
				if t == "enqueue" || t == "queueWrite" || t == "queueRead" || t == "prep" || t == "persist" || t == "flush" || t == "dropQ" || t == "storeSaveIncr" || t == "storeIncrSender" {
					touchers = append(touchers, fd.Name.Name)
					break
				}
			}
		}
	}
	// every type that implements ShutdownNow (the operator's ResetSession runs it on a foreign goroutine)
	var shutdownImpls []string
	if gofiles, err := filepath.Glob(filepath.Join(x.repo, "*.go")); err == nil {
		for _, gf := range gofiles {
			base := filepath.Base(gf)
			if strings.HasSuffix(base, "_test.go") || strings.HasPrefix(base, "verif_") {
				continue
			}
			f := x.file(base)
			if f == nil {
				continue
			}
			for _, d := range f.Decls {
				fd, ok := d.(*ast.FuncDecl)
				if !ok || fd.Name.Name != "ShutdownNow" || fd.Recv == nil || len(fd.Recv.List) == 0 {
					continue
				}
				switch t := fd.Recv.List[0].Type.(type) {
				case *ast.Ident:
					shutdownImpls = append(shutdownImpls, t.Name)
				case *ast.StarExpr:
					if id, ok := t.X.(*ast.Ident); ok {
						shutdownImpls = append(shutdownImpls, id.Name)
					}
				}
			}
		}
	}
	sort.Strings(shutdownImpls)
	sb.WriteString("def shutdownNowImpls : List String := " + leanStrList(shutdownImpls) + "\n")
	// notifyMessageOut is a non-blocking wake-up that touches no state the property speaks about: WHERE in a function it
	// is called is not a fact (moving it across the enqueue under the same lock changes nothing), THAT it is called is
	var notifiers []string
	for _, fd := range x.pkgFuncs() {
		calls := false
		ast.Inspect(fd.Body, func(n ast.Node) bool {
			if c, ok := n.(*ast.CallExpr); ok {
				if ch := selChain(c.Fun); len(ch) > 0 && ch[len(ch)-1] == "notifyMessageOut" {
					calls = true
				}
			}
			return true
		})
		if calls {
			notifiers = append(notifiers, fd.Name.Name)
		}
	}
	sort.Strings(notifiers)
	sb.WriteString("\n/-- every function that wakes the sender (notifyMessageOut) -/\n")
	sb.WriteString("def notifyCallers : List String := " + leanStrList(notifiers) + "\n")
	sort.Strings(touchers)
	sb.WriteString("\n/-- every function that touches the send queue, numbering or persistence -/\n")
	sb.WriteString("def sendPathFunctions : List String := " + leanStrList(touchers) + "\n")

	// --- admin message types
	mt := x.consts("msg_type.go")
	var admin []string
	adminNames := x.caseList("msg_type.go", "", "isAdminMessageType")
	if len(adminNames) == 0 {
		// the same set written as a list that the function ranges over
		adminNames = x.rangeList("msg_type.go", "", "isAdminMessageType")
		if fd := x.funcDecl("msg_type.go", "", "isAdminMessageType"); fd != nil {
			ast.Inspect(fd.Body, func(n ast.Node) bool {
				if rs, ok := n.(*ast.RangeStmt); ok {
					if id, ok := rs.X.(*ast.Ident); ok && x.assignedElsewhere(id.Name) {
						adminNames = nil
					}
				}
				return true
			})
		}
	}
	for _, nm := range adminNames {
		if v, ok := mt[nm]; ok {
			s, _ := strconv.Unquote(v)
			admin = append(admin, s)
		}
	}
	if len(admin) == 0 {
		x.missing("isAdminMessageType", "C01", "C03", "C08")
	}
	sort.Strings(admin)
	sb.WriteString("\n/-- msg_type.go isAdminMessageType -/\ndef adminMsgTypes : List String := " + leanStrList(admin) + "\n")

	// --- verifySelect order
	vo := x.verifyOrder()
	if len(vo) == 0 {
		x.missing("session.verifySelect", "C06")
	}
	sb.WriteString("\n/-- session.go verifySelect: the checks in source order -/\ndef verifyOrder : List String := " + leanStrList(vo) + "\n")

	// --- reject reasons
	ec := x.consts("errors.go")
	var rr []string
	for k, v := range ec {
		if strings.HasPrefix(k, "rejectReason") {
			rr = append(rr, fmt.Sprintf("(%s, %s)", strconv.Quote(strings.TrimPrefix(k, "rejectReason")), v))
		}
	}
	sort.Strings(rr)
	sb.WriteString("\n/-- errors.go reject reason constants -/\ndef rejectReasons : List (String × Nat) := [" + strings.Join(rr, ", ") + "]\n")

	// --- peer timer factor(s)
	pf := x.peerFactors()
	sort.Strings(pf)
	sb.WriteString("\n/-- float literals multiplying HeartBtInt when the peer timer is armed -/\ndef peerTimerFactors : List String := " + leanStrList(pf) + "\n")

	// --- header / trailer tags (tag.go)
	tc := x.consts("tag.go")
	tagList := func(fn string) []string {
		var out []string
		for _, nm := range x.caseList("tag.go", "Tag", fn) {
			if v, ok := tc[nm]; ok {
				out = append(out, v)
			}
		}
		sort.Slice(out, func(i, j int) bool { a, _ := strconv.Atoi(out[i]); b, _ := strconv.Atoi(out[j]); return a < b })
		return out
	}
	hd, tr := tagList("IsHeader"), tagList("IsTrailer")
	if len(hd) == 0 {
		x.missing("Tag.IsHeader", "C10", "C11")
	}
	sb.WriteString("\n/-- tag.go Tag.IsHeader / Tag.IsTrailer -/\ndef headerTags : List Nat := [" + strings.Join(hd, ", ") + "]\ndef trailerTags : List Nat := [" + strings.Join(tr, ", ") + "]\n")

	sb.WriteString("\nend Qfx.Gen\n")
	if err := os.WriteFile(filepath.Join(dir, "Facts.lean"), []byte(sb.String()), 0o644); err != nil {
		panic(err)
	}
	b, _ := json.MarshalIndent(x.man, "", " ")
	os.WriteFile(filepath.Join(dir, "gen_manifest.json"), b, 0o644)
}
