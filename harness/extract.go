package main

// Fact extractor (DESIGN §3.1): regenerates lean/Qfx/Gen/*.lean from the CURRENT sources of the repository with
// go/parser + go/ast only.  What is extracted is semantic, not syntactic: sets, tables, constants and the
// source-order skeleton of lock operations / protected actions of the send path.  The Lean side either uses
// these definitions or pins them to the hand-written model by `decide`d obligations (Props files).
import (
	"encoding/json"
	"fmt"
	"go/ast"
	"go/parser"
	"go/token"
	"os"
	"path/filepath"
	"sort"
	"strconv"
	"strings"
)

type genManifest struct {
	AnchorsMissing []anchorMissing `json:"anchors_missing"`
	Hashes         map[string]string `json:"hashes"`
}
type anchorMissing struct {
	Name       string   `json:"name"`
	Properties []string `json:"properties"`
}

type extractor struct {
	repo  string
	fset  *token.FileSet
	files map[string]*ast.File
	man   genManifest
}

func (x *extractor) file(rel string) *ast.File {
	if f, ok := x.files[rel]; ok {
		return f
	}
	f, err := parser.ParseFile(x.fset, filepath.Join(x.repo, rel), nil, parser.ParseComments)
	if err != nil {
		x.files[rel] = nil
		return nil
	}
	x.files[rel] = f
	return f
}

func (x *extractor) missing(name string, props ...string) {
	x.man.AnchorsMissing = append(x.man.AnchorsMissing, anchorMissing{name, props})
}

// funcDecl finds a function or method by name (and receiver type name, "" for plain functions).
func (x *extractor) funcDecl(rel, recv, name string) *ast.FuncDecl {
	f := x.file(rel)
	if f == nil {
		return nil
	}
	for _, d := range f.Decls {
		fd, ok := d.(*ast.FuncDecl)
		if !ok || fd.Name.Name != name {
			continue
		}
		r := ""
		if fd.Recv != nil && len(fd.Recv.List) > 0 {
			switch t := fd.Recv.List[0].Type.(type) {
			case *ast.StarExpr:
				if id, ok := t.X.(*ast.Ident); ok {
					r = id.Name
				}
			case *ast.Ident:
				r = t.Name
			}
		}
		if r == recv {
			return fd
		}
	}
	return nil
}

// selector chain of a call target, e.g. s.resendMutex.RLock -> ["s","resendMutex","RLock"]
func selChain(e ast.Expr) []string {
	switch t := e.(type) {
	case *ast.Ident:
		return []string{t.Name}
	case *ast.SelectorExpr:
		return append(selChain(t.X), t.Sel.Name)
	case *ast.CallExpr:
		return selChain(t.Fun)
	case *ast.ParenExpr:
		return selChain(t.X)
	}
	return nil
}

// ---------------------------------------------------------------- lock skeletons (C02)

var protectedCalls = map[string]string{
	"prepMessageForSend": "prep", "persist": "persist", "sendQueued": "flush", "dropQueued": "dropQ",
	"EnqueueBytesAndSend": "callEnqueueBytesAndSend", "notifyMessageOut": "notify", "IterateMessages": "iterate",
	"generateSequenceReset": "callGenerateSequenceReset", "sendBytes": "sendBytes",
	"SaveMessageAndIncrNextSenderMsgSeqNum": "storeSaveIncr", "IncrNextSenderMsgSeqNum": "storeIncrSender",
	"NextSenderMsgSeqNum": "readSeq", "Reset": "storeReset",
	// the foreign-goroutine path of ResetSession (registry.go): ShutdownNow -> sendLogout -> … -> sendInReplyTo, dropAndReset
	"ShutdownNow": "callShutdownNow", "dropAndReset": "callDropAndReset", "sendLogout": "callSendLogout",
	"sendLogoutInReplyTo": "callSendLogoutInReplyTo", "sendInReplyTo": "callSendInReplyTo", "queueForSend": "callQueueForSend",
}

// skeleton returns the source-order tokens of lock operations and protected actions; deferred unlocks are
// appended at the end in reverse order of their defer statements.
func skeleton(fd *ast.FuncDecl) []string {
	var toks, deferred []string
	var visit func(n ast.Node) bool
	lockTok := func(chain []string) string {
		if len(chain) < 3 {
			return ""
		}
		m, op := chain[len(chain)-2], chain[len(chain)-1]
		which := ""
		switch m {
		case "sendMutex":
			which = "S"
		case "resendMutex":
			which = "R"
		default:
			return ""
		}
		switch op {
		case "Lock":
			return "lock" + which
		case "Unlock":
			return "unlock" + which
		case "RLock":
			return "rlock" + which
		case "RUnlock":
			return "runlock" + which
		}
		return ""
	}
	visit = func(n ast.Node) bool {
		switch t := n.(type) {
		case *ast.DeferStmt:
			if lt := lockTok(selChain(t.Call.Fun)); lt != "" {
				deferred = append(deferred, lt)
				return false
			}
		case *ast.AssignStmt:
			// s.toSend = append(s.toSend, …)  /  s.toSend = s.toSend[:0] / [i:]
			for _, l := range t.Lhs {
				ch := selChain(l)
				if len(ch) >= 2 && ch[len(ch)-1] == "toSend" {
					kind := "queueWrite"
					if len(t.Rhs) == 1 {
						if c, ok := t.Rhs[0].(*ast.CallExpr); ok {
							if id, ok := c.Fun.(*ast.Ident); ok && id.Name == "append" {
								kind = "enqueue"
							}
						}
					}
					// visit the RHS first (it may contain calls), then record the write
					for _, r := range t.Rhs {
						ast.Inspect(r, visit)
					}
					toks = append(toks, kind)
					return false
				}
			}
		case *ast.RangeStmt:
			ch := selChain(t.X)
			if len(ch) >= 2 && ch[len(ch)-1] == "toSend" {
				toks = append(toks, "queueRead")
			}
		case *ast.CallExpr:
			ch := selChain(t.Fun)
			if lt := lockTok(ch); lt != "" {
				toks = append(toks, lt)
				return true
			}
			if len(ch) > 0 {
				if tk, ok := protectedCalls[ch[len(ch)-1]]; ok {
					// arguments first (source order of evaluation), then the call
					for _, a := range t.Args {
						ast.Inspect(a, visit)
					}
					toks = append(toks, tk)
					return false
				}
			}
		}
		return true
	}
	ast.Inspect(fd.Body, visit)
	for i := len(deferred) - 1; i >= 0; i-- {
		toks = append(toks, deferred[i])
	}
	return toks
}

type skelSpec struct{ file, recv, name, lean string }

var skelFuncs = []skelSpec{
	{"session.go", "session", "queueForSend", "queueForSend"},
	{"session.go", "session", "sendInReplyTo", "sendInReplyTo"},
	{"session.go", "session", "dropAndReset", "dropAndReset"},
	{"session.go", "session", "dropAndSendInReplyTo", "dropAndSendInReplyTo"},
	{"session.go", "session", "prepMessageForSend", "prepMessageForSend"},
	{"session.go", "session", "persist", "persist"},
	{"session.go", "session", "sendQueued", "sendQueued"},
	{"session.go", "session", "dropQueued", "dropQueued"},
	{"session.go", "session", "EnqueueBytesAndSend", "enqueueBytesAndSend"},
	{"session_state.go", "stateMachine", "SendAppMessages", "sendAppMessages"},
	{"in_session.go", "inSession", "resendMessages", "resendMessages"},
	{"in_session.go", "inSession", "generateSequenceReset", "generateSequenceReset"},
	{"registry.go", "", "ResetSession", "resetSession"},
	{"session_state.go", "loggedOn", "ShutdownNow", "shutdownNow_loggedOn"},
	{"session_state.go", "connectedNotLoggedOn", "ShutdownNow", "shutdownNow_notLoggedOn"},
	{"latent_state.go", "latentState", "ShutdownNow", "shutdownNow_latent"},
	{"session.go", "session", "sendLogout", "sendLogout"},
	{"session.go", "session", "sendLogoutInReplyTo", "sendLogoutInReplyTo"},
}

// ---------------------------------------------------------------- tables and constants

func (x *extractor) caseList(rel, recv, name string) []string {
	fd := x.funcDecl(rel, recv, name)
	if fd == nil {
		return nil
	}
	var out []string
	ast.Inspect(fd.Body, func(n ast.Node) bool {
		if cc, ok := n.(*ast.CaseClause); ok {
			for _, e := range cc.List {
				switch t := e.(type) {
				case *ast.Ident:
					out = append(out, t.Name)
				case *ast.CallExpr: // bytes.Equal(msgTypeX, m)
					for _, a := range t.Args {
						if id, ok := a.(*ast.Ident); ok && strings.HasPrefix(id.Name, "msgType") {
							out = append(out, id.Name)
						}
					}
				}
			}
		}
		return true
	})
	return out
}

// constants of a file: name -> literal text (ints and strings), iota blocks resolved for plain `= iota` sequences
func (x *extractor) consts(rel string) map[string]string {
	res := map[string]string{}
	f := x.file(rel)
	if f == nil {
		return res
	}
	for _, d := range f.Decls {
		gd, ok := d.(*ast.GenDecl)
		if !ok || (gd.Tok != token.CONST && gd.Tok != token.VAR) {
			continue
		}
		iota := 0
		useIota := false
		for _, sp := range gd.Specs {
			vs := sp.(*ast.ValueSpec)
			for i, nm := range vs.Names {
				if i < len(vs.Values) {
					switch v := vs.Values[i].(type) {
					case *ast.BasicLit:
						res[nm.Name] = v.Value
						useIota = false
					case *ast.Ident:
						if v.Name == "iota" {
							useIota = true
							res[nm.Name] = strconv.Itoa(iota)
						}
					case *ast.CallExpr: // []byte("0"), Tag(8)
						if len(v.Args) == 1 {
							if bl, ok := v.Args[0].(*ast.BasicLit); ok {
								res[nm.Name] = bl.Value
							}
						}
					}
				} else if useIota {
					res[nm.Name] = strconv.Itoa(iota)
				}
			}
			iota++
		}
	}
	return res
}

func leanStrList(xs []string) string {
	q := make([]string, len(xs))
	for i, s := range xs {
		q[i] = strconv.Quote(s)
	}
	return "[" + strings.Join(q, ", ") + "]"
}

// verifySelect: order of the check* calls
func (x *extractor) verifyOrder() []string {
	fd := x.funcDecl("session.go", "session", "verifySelect")
	if fd == nil {
		return nil
	}
	var out []string
	ast.Inspect(fd.Body, func(n ast.Node) bool {
		if c, ok := n.(*ast.CallExpr); ok {
			ch := selChain(c.Fun)
			if len(ch) > 0 {
				nm := ch[len(ch)-1]
				if strings.HasPrefix(nm, "check") || nm == "verifyMsgAgainstAppImpl" || nm == "currentResendState" {
					out = append(out, nm)
				}
			}
		}
		return true
	})
	return out
}

// float literals appearing in calls of the form float64(<lit>) * float64(s.HeartBtInt)
func (x *extractor) peerFactors() []string {
	var out []string
	for _, rel := range []string{"session.go", "session_state.go", "in_session.go"} {
		f := x.file(rel)
		if f == nil {
			continue
		}
		ast.Inspect(f, func(n ast.Node) bool {
			if c, ok := n.(*ast.CallExpr); ok {
				if id, ok := c.Fun.(*ast.Ident); ok && id.Name == "float64" && len(c.Args) == 1 {
					if bl, ok := c.Args[0].(*ast.BasicLit); ok && bl.Kind == token.FLOAT {
						out = append(out, bl.Value)
					}
				}
			}
			return true
		})
	}
	return out
}

func runExtract(repo, dir string) {
	x := &extractor{repo: repo, fset: token.NewFileSet(), files: map[string]*ast.File{}}
	x.man.Hashes = map[string]string{}
	if err := os.MkdirAll(dir, 0o755); err != nil {
		panic(err)
	}
	var sb strings.Builder
	sb.WriteString("/- GENERATED by `qfxh extract` from the repository's current sources — do not edit. -/\nnamespace Qfx.Gen\n\n")

	// --- lock skeletons
	sb.WriteString("/-- source-order lock operations and protected actions of the send path (session.go, in_session.go, session_state.go) -/\n")
	for _, sp := range skelFuncs {
		fd := x.funcDecl(sp.file, sp.recv, sp.name)
		if fd == nil {
			x.missing("func "+sp.recv+"."+sp.name, "C02")
			sb.WriteString(fmt.Sprintf("def skel_%s : List String := [\"<missing>\"]\n", sp.lean))
			continue
		}
		sb.WriteString(fmt.Sprintf("def skel_%s : List String := %s\n", sp.lean, leanStrList(skeleton(fd))))
	}
	// every function of the three files whose skeleton mentions a queue access or prep/persist/flush/dropQ: who touches the send path at all
	var touchers []string
	for _, rel := range []string{"session.go", "in_session.go", "session_state.go", "registry.go", "resend_state.go", "logon_state.go", "logout_state.go", "pending_timeout.go"} {
		f := x.file(rel)
		if f == nil {
			continue
		}
		for _, d := range f.Decls {
			fd, ok := d.(*ast.FuncDecl)
			if !ok || fd.Body == nil {
				continue
			}
			for _, t := range skeleton(fd) {
				if t == "enqueue" || t == "queueWrite" || t == "queueRead" || t == "prep" || t == "persist" || t == "flush" || t == "dropQ" || t == "storeSaveIncr" || t == "storeIncrSender" {
					touchers = append(touchers, fd.Name.Name)
					break
				}
			}
		}
	}
	// every type that implements ShutdownNow (the operator's ResetSession runs it on a foreign goroutine)
	var shutdownImpls []string
	if gofiles, err := filepath.Glob(filepath.Join(x.repo, "*.go")); err == nil {
		for _, gf := range gofiles {
			base := filepath.Base(gf)
			if strings.HasSuffix(base, "_test.go") || strings.HasPrefix(base, "verif_") {
				continue
			}
			f := x.file(base)
			if f == nil {
				continue
			}
			for _, d := range f.Decls {
				fd, ok := d.(*ast.FuncDecl)
				if !ok || fd.Name.Name != "ShutdownNow" || fd.Recv == nil || len(fd.Recv.List) == 0 {
					continue
				}
				switch t := fd.Recv.List[0].Type.(type) {
				case *ast.Ident:
					shutdownImpls = append(shutdownImpls, t.Name)
				case *ast.StarExpr:
					if id, ok := t.X.(*ast.Ident); ok {
						shutdownImpls = append(shutdownImpls, id.Name)
					}
				}
			}
		}
	}
	sort.Strings(shutdownImpls)
	sb.WriteString("def shutdownNowImpls : List String := " + leanStrList(shutdownImpls) + "\n")
	sort.Strings(touchers)
	sb.WriteString("\n/-- every function that touches the send queue, numbering or persistence -/\n")
	sb.WriteString("def sendPathFunctions : List String := " + leanStrList(touchers) + "\n")

	// --- admin message types
	mt := x.consts("msg_type.go")
	var admin []string
	for _, nm := range x.caseList("msg_type.go", "", "isAdminMessageType") {
		if v, ok := mt[nm]; ok {
			s, _ := strconv.Unquote(v)
			admin = append(admin, s)
		}
	}
	if len(admin) == 0 {
		x.missing("isAdminMessageType", "C01", "C03", "C08")
	}
	sort.Strings(admin)
	sb.WriteString("\n/-- msg_type.go isAdminMessageType -/\ndef adminMsgTypes : List String := " + leanStrList(admin) + "\n")

	// --- verifySelect order
	vo := x.verifyOrder()
	if len(vo) == 0 {
		x.missing("session.verifySelect", "C06")
	}
	sb.WriteString("\n/-- session.go verifySelect: the checks in source order -/\ndef verifyOrder : List String := " + leanStrList(vo) + "\n")

	// --- reject reasons
	ec := x.consts("errors.go")
	var rr []string
	for k, v := range ec {
		if strings.HasPrefix(k, "rejectReason") {
			rr = append(rr, fmt.Sprintf("(%s, %s)", strconv.Quote(strings.TrimPrefix(k, "rejectReason")), v))
		}
	}
	sort.Strings(rr)
	sb.WriteString("\n/-- errors.go reject reason constants -/\ndef rejectReasons : List (String × Nat) := [" + strings.Join(rr, ", ") + "]\n")

	// --- peer timer factor(s)
	pf := x.peerFactors()
	sort.Strings(pf)
	sb.WriteString("\n/-- float literals multiplying HeartBtInt when the peer timer is armed -/\ndef peerTimerFactors : List String := " + leanStrList(pf) + "\n")

	// --- header / trailer tags (tag.go)
	tc := x.consts("tag.go")
	tagList := func(fn string) []string {
		var out []string
		for _, nm := range x.caseList("tag.go", "Tag", fn) {
			if v, ok := tc[nm]; ok {
				out = append(out, v)
			}
		}
		sort.Slice(out, func(i, j int) bool { a, _ := strconv.Atoi(out[i]); b, _ := strconv.Atoi(out[j]); return a < b })
		return out
	}
	hd, tr := tagList("IsHeader"), tagList("IsTrailer")
	if len(hd) == 0 {
		x.missing("Tag.IsHeader", "C10", "C11")
	}
	sb.WriteString("\n/-- tag.go Tag.IsHeader / Tag.IsTrailer -/\ndef headerTags : List Nat := [" + strings.Join(hd, ", ") + "]\ndef trailerTags : List Nat := [" + strings.Join(tr, ", ") + "]\n")

	sb.WriteString("\nend Qfx.Gen\n")
	if err := os.WriteFile(filepath.Join(dir, "Facts.lean"), []byte(sb.String()), 0o644); err != nil {
		panic(err)
	}
	b, _ := json.MarshalIndent(x.man, "", " ")
	os.WriteFile(filepath.Join(dir, "gen_manifest.json"), b, 0o644)
}
