package main

// family "loop" (C20): does a timer EXPIRY reach the event loop?  One case = one round on the REAL run loop:
//   * a session built by the real factory and run by its own session.run() goroutine (verif_export_conc.go), acceptor
//     or initiator, HeartBtInt 3600 s (no real expiry ever interferes), logged on by a scripted peer that feeds
//     messageIn and drains messageOut;
//   * the loop is made BUSY — busy=callback: the application's FromApp blocks on a channel for a marked message;
//     busy=writer: the peer stops reading the (unbuffered) connection and sends a TestRequest, so that the loop blocks
//     in `s.messageOut <- msg` with the answer; busy=no: control;
//   * while it is busy the expiry callbacks of the state timer (s) and the peer timer (p) that run() built are fired
//     through the hook of package internal (verif_timer_fire.go): via=fn runs the timer's function on a goroutine of
//     its own per expiry, via=timer lets the time.Timer expire so that the EventTimer's goroutine runs it;
//   * the loop is released; then the letters of `after` are fired one at a time, each followed by a barrier.
// Nothing is decided by the clock: the harness waits for counters (callback entered / returned), for the inbound
// channel to be empty and for a request to pass through the loop's admin channel (everything the loop received before
// has been handled by then).  Bounded waits (loopWait) only end a round whose engine hangs: observation `stalled`.
//
// Op:  round init=0|1 bs=2|4 st=in|resend busy=callback|writer|no via=fn|timer fire=<[sp]*|-> after=<[sp]*|-> outcap=N settle=MS
// Obs: ok fired=<s>/<p> parked=<s>/<p>|- wire=<tokens> st=<state> lo=<OnLogout calls> closed=0|1 end=0|1
//        parked: callbacks entered and not returned just before the release (busy rounds)
//        wire:   what the peer read, in order: A, 0 (Heartbeat), 0r (Heartbeat with TestReqID), 1, 2, 5, …
//        end:    run() returned after the final stop
//      stalled <stage> | panic
// The expected outcomes are computed by the Lean side from the session model (every delivery order of the callbacks
// that were outstanding together); the monitor `loop-mon` decides.
import (
	"bytes"
	"fmt"
	"strconv"
	"strings"
	"sync"
	"sync/atomic"
	"time"

	"github.com/quickfixgo/quickfix"
	"github.com/quickfixgo/quickfix/config"
)

const loopWait = 5 * time.Second

type loopSess struct {
	v            *quickfix.VerifConcSession
	id           quickfix.SessionID
	logouts      int32
	blocked      chan struct{} // FromApp has reached the marked message
	release      chan struct{} // closed by the round: FromApp returns
	aboutToWrite chan struct{} // ToAdmin has seen the answer to the TestRequest BUSY
	// drain rounds: the order of FromApp (F<text>) and OnLogout (L) callbacks; OnLogout may be held at a gate
	cbMu       sync.Mutex
	cbs        []string
	inLogout   chan struct{}
	logoutGate chan struct{}
}

func (ls *loopSess) cb(t string) {
	ls.cbMu.Lock()
	ls.cbs = append(ls.cbs, t)
	ls.cbMu.Unlock()
}

type loopApp struct {
	nullApp
	ls *loopSess
}

func (a loopApp) OnLogout(quickfix.SessionID) {
	atomic.AddInt32(&a.ls.logouts, 1)
	a.ls.cb("L")
	if a.ls.logoutGate != nil {
		select {
		case a.ls.inLogout <- struct{}{}:
		default:
		}
		<-a.ls.logoutGate
	}
}
func (a loopApp) ToAdmin(m *quickfix.Message, _ quickfix.SessionID) {
	if t, err := m.Header.GetString(quickfix.Tag(35)); err == nil && t == "0" {
		if id, err := m.Body.GetString(quickfix.Tag(112)); err == nil && id == "BUSY" {
			select {
			case a.ls.aboutToWrite <- struct{}{}:
			default:
			}
		}
	}
}
func (a loopApp) FromApp(m *quickfix.Message, _ quickfix.SessionID) quickfix.MessageRejectError {
	if v, err := m.Body.GetString(quickfix.Tag(58)); err == nil && v != "BLOCK" {
		a.ls.cb("F" + v)
	}
	if v, err := m.Body.GetString(quickfix.Tag(58)); err == nil && v == "BLOCK" {
		select {
		case a.ls.blocked <- struct{}{}:
		default:
		}
		<-a.ls.release
	}
	return nil
}

// ---------------------------------------------------------------- the peer's reader

type loopReader struct {
	mu     sync.Mutex
	toks   []string
	closed bool
	pause  chan chan struct{}
	resume chan struct{}
	done   chan struct{}
}

func newLoopReader() *loopReader {
	return &loopReader{pause: make(chan chan struct{}), resume: make(chan struct{}), done: make(chan struct{})}
}

func loopToken(b []byte) string {
	m, ok := safeScan(b)
	if !ok || m.kind == "" {
		return "X"
	}
	if m.kind == "0" && bytes.Contains(b, []byte("\x01112=")) {
		return "0r"
	}
	return m.kind
}

func (rd *loopReader) run(out <-chan []byte) {
	defer close(rd.done)
	for {
		select {
		case b, ok := <-out:
			rd.mu.Lock()
			if !ok {
				rd.closed = true
				rd.mu.Unlock()
				return
			}
			rd.toks = append(rd.toks, loopToken(b))
			rd.mu.Unlock()
		case ack := <-rd.pause:
			close(ack)
			<-rd.resume
		}
	}
}

// pauseNow returns when the reader is parked outside the connection channel (or has ended)
func (rd *loopReader) pauseNow() (paused, ok bool) {
	ack := make(chan struct{})
	select {
	case rd.pause <- ack:
		<-ack
		return true, true
	case <-rd.done:
		return false, true
	case <-time.After(loopWait):
		return false, false
	}
}

func (rd *loopReader) resumeNow() {
	select {
	case rd.resume <- struct{}{}:
	case <-rd.done:
	}
}

func waitUntil(cond func() bool, d time.Duration) bool {
	deadline := time.Now().Add(d)
	for i := 0; ; i++ {
		if cond() {
			return true
		}
		if time.Now().After(deadline) {
			return false
		}
		if i < 200 {
			time.Sleep(20 * time.Microsecond)
		} else {
			time.Sleep(500 * time.Microsecond)
		}
	}
}

// ---------------------------------------------------------------- session pool

type loopImpl struct {
	pool    map[string][]*loopSess
	nSess   int
	retried int
}

var loopBS = map[string]string{"2": "FIX.4.2", "4": "FIX.4.4"}

func (c *loopImpl) build(initiator bool, bs string) *loopSess {
	c.nSess++
	id := quickfix.SessionID{BeginString: loopBS[bs], SenderCompID: fmt.Sprintf("L%d", c.nSess), TargetCompID: "TGT"}
	st := quickfix.NewSessionSettings()
	st.Set(config.BeginString, id.BeginString)
	st.Set(config.SenderCompID, id.SenderCompID)
	st.Set(config.TargetCompID, id.TargetCompID)
	st.Set(config.HeartBtInt, "3600")
	if initiator {
		st.Set(config.SocketConnectHost, "127.0.0.1")
		st.Set(config.SocketConnectPort, "1")
	}
	ls := &loopSess{id: id, blocked: make(chan struct{}, 1), release: make(chan struct{}), aboutToWrite: make(chan struct{}, 1)}
	v, err := quickfix.VerifNewConcSession(initiator, id, quickfix.NewMemoryStoreFactory(), st, quickfix.NewNullLogFactory(), loopApp{ls: ls})
	mustf(err, "cannot build session")
	ls.v = v
	v.RunAsync()
	return ls
}

// take: run() sleeps until the next full second before it serves its channels, so the sessions of a run are started
// together, ahead of their use; a configuration that runs out is built on demand (and waits for that second).
func (c *loopImpl) take(initiator bool, bs string) *loopSess {
	key := func(i bool, b string) string { return fmt.Sprintf("%v/%s", i, b) }
	if c.pool == nil {
		c.pool = map[string][]*loopSess{}
		n := 0
		if !runReplay {
			n = min(runCases/2+4, 200)
		}
		for _, i := range []bool{false, true} {
			for _, b := range []string{"2", "4"} {
				for k := 0; k < n; k++ {
					c.pool[key(i, b)] = append(c.pool[key(i, b)], c.build(i, b))
				}
			}
		}
	}
	k := key(initiator, bs)
	if len(c.pool[k]) == 0 {
		return c.build(initiator, bs)
	}
	ls := c.pool[k][0]
	c.pool[k] = c.pool[k][1:]
	return ls
}

func (c *loopImpl) reset(string) {}

// ---------------------------------------------------------------- one round

func loopInbound(bs, to string, seq int, kind string, extra ...string) []byte {
	f := []string{"8=" + loopBS[bs], "35=" + kind, "49=TGT", "56=" + to, "34=" + strconv.Itoa(seq), "52=@0"}
	return wireBytes(append(f, extra...))
}

func loopLetters(s string) (string, bool) {
	if s == "-" {
		return "", true
	}
	if s == "" || len(s) > 6 || strings.Trim(s, "sp") != "" {
		return "", false
	}
	return s, true
}

func (c *loopImpl) round(kv map[string]string) string {
	initiator, bs, st, busy, via := kv["init"] == "1", kv["bs"], kv["st"], kv["busy"], kv["via"]
	fire, ok1 := loopLetters(kv["fire"])
	after, ok2 := loopLetters(kv["after"])
	outcap, err1 := strconv.Atoi(kv["outcap"])
	settle, err2 := strconv.Atoi(kv["settle"])
	if !ok1 || !ok2 || err1 != nil || err2 != nil || (kv["init"] != "0" && kv["init"] != "1") || loopBS[bs] == "" ||
		(st != "in" && st != "resend") || (busy != "callback" && busy != "writer" && busy != "no") || (via != "fn" && via != "timer") ||
		outcap < 0 || outcap > 64 || settle < 0 || settle > 50 || (busy == "writer" && outcap != 0) ||
		(via == "timer" && (strings.Count(fire, "s") > 1 || strings.Count(fire, "p") > 1)) {
		return "bad-op"
	}
	ls := c.take(initiator, bs)
	v := ls.v
	rd := newLoopReader()
	var releaseOnce sync.Once
	readerPaused := false
	releaseLoop := func() {
		releaseOnce.Do(func() {
			close(ls.release)
			if readerPaused {
				rd.resumeNow()
			}
		})
	}
	ended := int32(0)
	// whatever happens the loop is released, disconnected and stopped at the end of the round
	finish := func() {
		releaseLoop()
		done := make(chan struct{})
		go func() {
			defer func() { recover(); close(done) }()
			func() {
				defer func() { recover() }()
				v.CloseInbound()
			}()
			v.StopAsync()
		}()
		if waitCh(done, loopWait) && waitCh(v.Done(), loopWait) {
			atomic.StoreInt32(&ended, 1)
		}
	}
	stalled := func(stage string) string {
		finish()
		if v.Panicked() != "" {
			return "panic"
		}
		return "stalled " + stage
	}

	var out <-chan []byte
	connDone := make(chan error, 1)
	go func() {
		o, err := v.ConnectAsync(64, outcap)
		out = o
		connDone <- err
	}()
	select {
	case err := <-connDone:
		if err != nil {
			return stalled("connect")
		}
	case <-time.After(loopWait):
		return "stalled connect"
	}
	go rd.run(out)
	stT, prT := v.StateTimer(), v.PeerTimer()
	if !stT.Valid() || !prT.Valid() {
		return stalled("timers")
	}
	defer stT.Forget()
	defer prT.Forget()
	// the loop has served everything it received so far (for an initiator: its Logon is written)
	if !v.Barrier(loopWait) {
		return stalled("connect")
	}
	inSeq := 0
	injectSeq := func(seq int, kind string, extra ...string) {
		v.Inject(loopInbound(bs, ls.id.SenderCompID, seq, kind, extra...))
	}
	inject := func(kind string, extra ...string) { inSeq++; injectSeq(inSeq, kind, extra...) }
	// sync: every injected message has been taken by the loop and handled completely
	sync := func() bool {
		return waitUntil(func() bool { return v.InboxLen() == 0 }, loopWait) && v.Barrier(loopWait)
	}
	inject("A", "98=0", "108=3600")
	if !sync() {
		return stalled("logon")
	}
	if st == "resend" {
		// a Heartbeat two numbers ahead: ResendRequest, state Resend; the gap is never filled completely in this round
		injectSeq(inSeq+3, "0")
		if !sync() {
			return stalled("gap")
		}
	}

	nS, nP := int64(0), int64(0)
	fireOne := func(ch byte) {
		var t quickfix.VerifLoopTimer
		if ch == 's' {
			t, nS = stT, nS+1
		} else {
			t, nP = prT, nP+1
		}
		if via == "timer" {
			t.Expire()
		} else {
			t.Fire()
		}
	}
	counts := func() (es, rs, ep, rp int64) {
		es, rs = stT.Fired()
		ep, rp = prT.Fired()
		return
	}
	allEntered := func() bool { es, _, ep, _ := counts(); return es >= nS && ep >= nP }
	allReturned := func() bool { _, rs, _, rp := counts(); return rs >= nS && rp >= nP }

	// (1) busy
	switch busy {
	case "callback":
		inject("D", "58=BLOCK")
		if !waitCh(ls.blocked, loopWait) {
			return stalled("busy")
		}
	case "writer":
		p, ok := rd.pauseNow()
		if !ok {
			return stalled("busy")
		}
		readerPaused = p
		inject("1", "112=BUSY")
		if !waitCh(ls.aboutToWrite, loopWait) {
			return stalled("busy")
		}
	}
	// (2) expiries while the loop is busy
	// a busy loop cannot take anything: each callback is started and has entered before the next one is fired, so that
	// they park (and are normally delivered) in the order of `fire`; an idle loop gets them as one burst
	for i := 0; i < len(fire); i++ {
		fireOne(fire[i])
		if busy != "no" && !waitUntil(allEntered, loopWait) {
			return stalled("enter")
		}
	}
	parked := "-"
	if busy != "no" {
		time.Sleep(time.Duration(settle) * time.Millisecond)
		es, rs, ep, rp := counts()
		parked = fmt.Sprintf("%d/%d", es-rs, ep-rp)
	}
	// (3) release, (4) consequences
	releaseLoop()
	if !waitUntil(allReturned, loopWait) {
		return stalled("deliver")
	}
	if !sync() {
		return stalled("sync")
	}
	for i := 0; i < len(after); i++ {
		fireOne(after[i])
		if !waitUntil(allReturned, loopWait) {
			return stalled("deliver")
		}
		if !v.Barrier(loopWait) {
			return stalled("sync")
		}
	}
	// everything the loop wrote has been read: the loop is idle behind the barrier, so with the reader parked what is
	// left in the connection channel (and its close) can be taken here without waiting
	if p, ok := rd.pauseNow(); !ok {
		return stalled("flush")
	} else if p {
	drain:
		for {
			select {
			case b, ok := <-out:
				rd.mu.Lock()
				if !ok {
					rd.closed = true
					rd.mu.Unlock()
					break drain
				}
				rd.toks = append(rd.toks, loopToken(b))
				rd.mu.Unlock()
			default:
				break drain
			}
		}
		rd.resumeNow()
	}
	stName := stateNames[v.LoopStateName()]
	if stName == "" {
		stName = "?" + strings.ReplaceAll(v.LoopStateName(), " ", "_")
	}
	lo := atomic.LoadInt32(&ls.logouts)
	rd.mu.Lock()
	toks, closed := append([]string(nil), rd.toks...), rd.closed
	rd.mu.Unlock()
	wire := "-"
	if len(toks) > 0 {
		wire = strings.Join(toks, ",")
	}
	finish()
	if v.Panicked() != "" {
		return "panic"
	}
	b01 := map[bool]int{true: 1, false: 0}
	return fmt.Sprintf("ok fired=%d/%d parked=%s wire=%s st=%s lo=%d closed=%d end=%d", nS, nP, parked, wire, stName, lo, b01[closed], atomic.LoadInt32(&ended))
}

const loopRetryBudget = 6

// exec: a `stalled` round is repeated (same op, at most twice, at most loopRetryBudget per run): the bounded waits
// can only give up on a healthy engine when the machine is starved for seconds; a broken engine fails every attempt.
func (c *loopImpl) exec(op string) string {
	w := strings.Fields(op)
	if len(w) == 0 || (w[0] != "round" && w[0] != "drain") {
		return "bad-op"
	}
	kv := map[string]string{}
	for _, f := range w[1:] {
		if q := strings.SplitN(f, "=", 2); len(q) == 2 {
			kv[q[0]] = q[1]
		}
	}
	run := c.round
	if w[0] == "drain" {
		run = c.drainRound
	}
	obs := guard(func() string { return run(kv) })
	for i := 0; i < 2 && strings.HasPrefix(obs, "stalled") && c.retried < loopRetryBudget; i++ {
		c.retried++
		obs = guard(func() string { return run(kv) })
	}
	return obs
}

// ---------------------------------------------------------------- generation

// the shapes every run starts with (quick tier = these twelve, minor parameters from the case PRNG)
var loopCore = []struct{ init, busy, via, fire, after, st string }{
	{"0", "callback", "fn", "s", "-", "in"},
	{"0", "writer", "fn", "p", "-", "in"},
	{"1", "callback", "fn", "p", "p", "in"},
	{"0", "writer", "fn", "s", "-", "in"},
	{"0", "no", "fn", "-", "spp", "in"},
	{"1", "writer", "timer", "sp", "-", "in"},
	{"0", "callback", "timer", "s", "pp", "in"},
	{"0", "callback", "fn", "pp", "-", "in"},
	{"1", "callback", "fn", "ssp", "-", "resend"},
	{"0", "writer", "fn", "ps", "s", "in"},
	{"0", "no", "timer", "p", "p", "in"},
	{"1", "no", "fn", "spsp", "-", "in"},
}

func genLoop(r *rng, tier string, idx int, o *out, do func(string) string) string {
	letters := func(n int) string {
		if n == 0 {
			return "-"
		}
		b := make([]byte, n)
		for i := range b {
			b[i] = "sp"[r.intn(2)]
		}
		return string(b)
	}
	var init, busy, via, fire, after, st string
	if idx < len(loopCore) {
		k := loopCore[idx]
		init, busy, via, fire, after, st = k.init, k.busy, k.via, k.fire, k.after, k.st
	} else {
		init = []string{"0", "0", "1"}[r.intn(3)]
		busy = []string{"callback", "callback", "writer", "writer", "no"}[r.intn(5)]
		via = []string{"fn", "fn", "timer"}[r.intn(3)]
		st = []string{"in", "in", "in", "resend"}[r.intn(4)]
		if via == "timer" {
			fire = []string{"s", "p", "sp", "ps", "-"}[r.intn(5)]
		} else {
			fire = letters([]int{1, 1, 1, 2, 2, 3, 4, 0}[r.intn(8)])
		}
		after = letters([]int{0, 0, 0, 1, 1, 2, 3}[r.intn(7)])
		if fire == "-" && after == "-" {
			after = letters(1 + r.intn(2))
		}
	}
	bs := []string{"2", "4"}[r.intn(2)]
	outcap := []int{0, 0, 1, 4}[r.intn(4)]
	if busy == "writer" {
		outcap = 0
	}
	settle := []int{1, 2, 2, 3, 5}[r.intn(5)]
	op := fmt.Sprintf("round init=%s bs=%s st=%s busy=%s via=%s fire=%s after=%s outcap=%d settle=%d", init, bs, st, busy, via, fire, after, outcap, settle)
	obs := do(op)
	o.kind("busy=" + busy)
	o.kind("via=" + via)
	o.kind("initiator=" + init)
	o.kind("st=" + st)
	if strings.Contains(fire+after, "s") {
		o.kind("fires_state_timer")
	}
	if strings.Contains(fire+after, "p") {
		o.kind("fires_peer_timer")
	}
	w := strings.Fields(obs)
	o.kind("rounds_" + w[0])
	if w[0] == "ok" {
		if strings.Contains(obs, " st=Latent ") {
			o.kind("dead_peer_disconnect")
		}
		if strings.Contains(obs, " st=Pending:") {
			o.kind("ends_pending")
		}
		o.nontrivial(strings.Join([]string{init, st, busy, via, fire, after}, "/"))
	}
	return "loop"
}

// ---------------------------------------------------------------- drain rounds (C08)
//
// Op:  drain init=0|1 bs=2|4 incap=N queued=K late=J
//   a logged-on session on the real run loop whose FromApp is blocked; behind it the peer's Logout and K application
//   messages (58=m1..mK) are written by a reader that parks on the full inbound channel (capacity N); the loop is released:
//   the Logout ends the connection while the reader still has messages to hand over.  late=J: OnLogout is held at a gate
//   while J more messages (58=x1..xJ) arrive, then released.
// Obs: ok cb=<F<text>|L,…|-> lo=<OnLogout calls> closed=0|1 end=0|1   |   stalled <stage> | panic
// No clock decides: the harness waits for the callbacks, for the channel to fill and for the connection to be closed.
func (c *loopImpl) drainRound(kv map[string]string) string {
	initiator, bs := kv["init"] == "1", kv["bs"]
	incap, e1 := strconv.Atoi(kv["incap"])
	queued, e2 := strconv.Atoi(kv["queued"])
	late, e3 := strconv.Atoi(kv["late"])
	if e1 != nil || e2 != nil || e3 != nil || (kv["init"] != "0" && kv["init"] != "1") || loopBS[bs] == "" ||
		incap < 1 || incap > 8 || queued < 0 || queued > 8 || late < 0 || late > 4 {
		return "bad-op"
	}
	ls := c.take(initiator, bs)
	v := ls.v
	if late > 0 {
		ls.logoutGate, ls.inLogout = make(chan struct{}), make(chan struct{}, 1)
	}
	rd := newLoopReader()
	var releaseOnce, gateOnce sync.Once
	releaseLoop := func() { releaseOnce.Do(func() { close(ls.release) }) }
	openGate := func() {
		gateOnce.Do(func() {
			if ls.logoutGate != nil {
				close(ls.logoutGate)
			}
		})
	}
	ended := int32(0)
	finish := func() {
		releaseLoop()
		openGate()
		done := make(chan struct{})
		go func() {
			defer func() { recover(); close(done) }()
			func() {
				defer func() { recover() }()
				v.CloseInbound()
			}()
			v.StopAsync()
		}()
		if waitCh(done, loopWait) && waitCh(v.Done(), loopWait) {
			atomic.StoreInt32(&ended, 1)
		}
	}
	stalled := func(stage string) string {
		finish()
		if v.Panicked() != "" {
			return "panic"
		}
		return "stalled " + stage
	}
	var out <-chan []byte
	connDone := make(chan error, 1)
	go func() {
		o, err := v.ConnectAsync(incap, 8)
		out = o
		connDone <- err
	}()
	select {
	case err := <-connDone:
		if err != nil {
			return stalled("connect")
		}
	case <-time.After(loopWait):
		return "stalled connect"
	}
	go rd.run(out)
	if !v.Barrier(loopWait) {
		return stalled("connect")
	}
	inSeq := 0
	var seqMu sync.Mutex
	inject := func(kind string, extra ...string) {
		defer func() { recover() }() // the inbound channel may be closed by the end of the round
		seqMu.Lock()
		inSeq++
		n := inSeq
		seqMu.Unlock()
		v.Inject(loopInbound(bs, ls.id.SenderCompID, n, kind, extra...))
	}
	inject("A", "98=0", "108=3600")
	if !(waitUntil(func() bool { return v.InboxLen() == 0 }, loopWait) && v.Barrier(loopWait)) {
		return stalled("logon")
	}
	inject("D", "58=BLOCK")
	if !waitCh(ls.blocked, loopWait) {
		return stalled("busy")
	}
	// the reader: the peer's Logout, then `queued` application messages; it parks on the full channel
	prodDone := make(chan struct{})
	go func() {
		defer close(prodDone)
		inject("5")
		for i := 1; i <= queued; i++ {
			inject("D", "58=m"+strconv.Itoa(i))
		}
	}()
	parkedOrDone := func() bool {
		select {
		case <-prodDone:
			return true
		default:
		}
		return v.InboxLen() >= incap
	}
	if !waitUntil(parkedOrDone, loopWait) {
		return stalled("fill")
	}
	time.Sleep(2 * time.Millisecond) // the reader goroutine reaches its next channel send
	releaseLoop()
	lateDone := make(chan struct{})
	if late > 0 {
		if !waitCh(ls.inLogout, loopWait) {
			return stalled("onlogout")
		}
		go func() {
			defer close(lateDone)
			<-prodDone
			for i := 1; i <= late; i++ {
				inject("D", "58=x"+strconv.Itoa(i))
			}
		}()
		// at least one late message sits in the channel (or all were handed over) while the application is still in OnLogout
		waitUntil(func() bool {
			select {
			case <-lateDone:
				return true
			default:
			}
			return v.InboxLen() >= 1
		}, loopWait)
		time.Sleep(2 * time.Millisecond)
		openGate()
	} else {
		close(lateDone)
	}
	// the engine closes the connection at the end of its disconnect handling
	closedNow := func() bool { rd.mu.Lock(); defer rd.mu.Unlock(); return rd.closed }
	if !waitUntil(closedNow, loopWait) {
		return stalled("disconnect")
	}
	if !v.Barrier(loopWait) {
		return stalled("sync")
	}
	lo := atomic.LoadInt32(&ls.logouts)
	ls.cbMu.Lock()
	cb := "-"
	if len(ls.cbs) > 0 {
		cb = strings.Join(ls.cbs, ",")
	}
	ls.cbMu.Unlock()
	closed := closedNow()
	finish()
	if v.Panicked() != "" {
		return "panic"
	}
	b01 := map[bool]int{true: 1, false: 0}
	return fmt.Sprintf("ok cb=%s lo=%d closed=%d end=%d", cb, lo, b01[closed], atomic.LoadInt32(&ended))
}

func genDrain(r *rng, tier string, idx int, o *out, do func(string) string) string {
	init := []string{"0", "0", "1"}[r.intn(3)]
	bs := []string{"2", "4"}[r.intn(2)]
	incap := []int{1, 1, 1, 2, 4}[r.intn(5)]
	queued := []int{2, 3, 3, 4, 6, 1, 0}[r.intn(7)]
	late := []int{0, 0, 1, 2, 3}[r.intn(5)]
	if idx < 4 { // fixed shapes first: the default channel capacity with a parked reader, with and without late arrivals
		incap, queued, late = 1, 3+idx%2, []int{0, 0, 2, 1}[idx]
	}
	obs := do(fmt.Sprintf("drain init=%s bs=%s incap=%d queued=%d late=%d", init, bs, incap, queued, late))
	o.kind("drain.incap=" + strconv.Itoa(incap))
	if queued > incap {
		o.kind("drain.reader-parked")
	}
	if late > 0 {
		o.kind("drain.arrivals-during-OnLogout")
	}
	w := strings.Fields(obs)
	o.kind("drain.rounds_" + w[0])
	if w[0] == "ok" {
		o.nontrivial(fmt.Sprintf("drain/%s/%d/%d/%d", init, incap, queued, late))
	}
	return "drain"
}

func init() {
	families["loop"] = &family{newImpl: func() impl { return &loopImpl{} }, gen: genLoop}
	families["drain"] = &family{newImpl: func() impl { return &loopImpl{} }, gen: genDrain}
}
