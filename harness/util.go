package main

import (
	"bufio"
	"encoding/hex"
	"encoding/json"
	"fmt"
	"os"
	"path/filepath"
	"sort"
	"strings"
)

// splitmix64: every random choice of the harness comes from one of these, seeded by VERIF_SEED.
type rng struct{ s uint64 }

func newRng(seed uint64) *rng { return &rng{s: seed*0x9E3779B97F4A7C15 + 0x1234567} }
func (r *rng) u64() uint64 {
	r.s += 0x9E3779B97F4A7C15
	z := r.s
	z = (z ^ (z >> 30)) * 0xBF58476D1CE4E5B9
	z = (z ^ (z >> 27)) * 0x94D049BB133111EB
	return z ^ (z >> 31)
}
func (r *rng) intn(n int) int {
	if n <= 0 {
		return 0
	}
	return int(r.u64() % uint64(n))
}
func (r *rng) rangeInt(lo, hi int) int { return lo + r.intn(hi-lo+1) } // inclusive
func (r *rng) chance(num, den int) bool { return r.intn(den) < num }
func (r *rng) pick(xs []string) string  { return xs[r.intn(len(xs))] }
func (r *rng) pickByte(xs []byte) byte  { return xs[r.intn(len(xs))] }
func (r *rng) fork() *rng               { return newRng(r.u64()) }

func hx(b []byte) string {
	if len(b) == 0 {
		return "-"
	}
	return hex.EncodeToString(b)
}

func unhx(s string) []byte {
	if s == "-" {
		return nil
	}
	b, err := hex.DecodeString(s)
	if err != nil {
		panic("bad hex " + s)
	}
	return b
}

func yn(b bool) string {
	if b {
		return "y"
	}
	return "n"
}

// out collects the two line-aligned streams plus statistics for the evidence file.
type out struct {
	dir        string
	ops, impl  *bufio.Writer
	fo, fi     *os.File
	nOps       int
	nCases     int
	kinds      map[string]int // op / branch / error-kind distribution
	distinct   map[string]struct{}
	samples    []string
	sampleEach int
}

func newOut(dir string) *out {
	if err := os.MkdirAll(dir, 0o755); err != nil {
		panic(err)
	}
	fo, err := os.Create(filepath.Join(dir, "ops.txt"))
	if err != nil {
		panic(err)
	}
	fi, err := os.Create(filepath.Join(dir, "impl.txt"))
	if err != nil {
		panic(err)
	}
	return &out{dir: dir, fo: fo, fi: fi, ops: bufio.NewWriterSize(fo, 1<<20), impl: bufio.NewWriterSize(fi, 1<<20),
		kinds: map[string]int{}, distinct: map[string]struct{}{}, sampleEach: 1}
}

// caseMark starts a new case: state of the model driver is re-initialised by the family on this line.
func (o *out) caseMark(label string) {
	o.nCases++
	fmt.Fprintf(o.ops, "# case %d %s\n", o.nCases, label)
	fmt.Fprintf(o.impl, "# case %d %s\n", o.nCases, label)
}

// emit writes one operation and the implementation's canonical observation of it.
func (o *out) emit(op, obs string) {
	if strings.ContainsAny(op, "\n\r") || strings.ContainsAny(obs, "\n\r") {
		panic("newline in protocol line")
	}
	o.nOps++
	fmt.Fprintln(o.ops, op)
	fmt.Fprintln(o.impl, obs)
	if len(o.samples) < 6 && o.nOps%o.sampleEach == 0 {
		o.samples = append(o.samples, op+" => "+obs)
	}
}

func (o *out) kind(k string)           { o.kinds[k]++ }
func (o *out) nontrivial(shape string) { o.distinct[shape] = struct{}{} }

func (o *out) close(extra map[string]any) {
	o.ops.Flush()
	o.impl.Flush()
	o.fo.Close()
	o.fi.Close()
	keys := make([]string, 0, len(o.kinds))
	for k := range o.kinds {
		keys = append(keys, k)
	}
	sort.Strings(keys)
	dist := map[string]int{}
	for _, k := range keys {
		dist[k] = o.kinds[k]
	}
	st := map[string]any{
		"ops": o.nOps, "cases": o.nCases, "distinct_nontrivial": len(o.distinct),
		"distribution": dist, "samples": o.samples,
	}
	for k, v := range extra {
		st[k] = v
	}
	b, _ := json.MarshalIndent(st, "", " ")
	os.WriteFile(filepath.Join(o.dir, "stats.json"), b, 0o644)
}

// guard runs f and maps a panic to the observation "panic".
func guard(f func() string) (res string) {
	defer func() {
		if r := recover(); r != nil {
			res = "panic"
		}
	}()
	return f()
}

func getenv(k string) string { return os.Getenv(k) }
