package main

// a MessageStore wrapper that reports every mutation to a callback, so the session properties can see
// resets, saves and counter changes in their order relative to callbacks and wire writes.
import (
	"bytes"
	"fmt"
	"sort"
	"strconv"
	"strings"
	"time"

	"github.com/quickfixgo/quickfix"
)

type logStoreFactory struct {
	inner quickfix.MessageStoreFactory
	note  func(string)
	made  func(quickfix.MessageStore) // told about every store created (the harness may set its creation time)
	wrapped func(*logStore)           // told about the logging wrapper of every store created
}

func (f logStoreFactory) Create(id quickfix.SessionID) (quickfix.MessageStore, error) {
	st, err := f.inner.Create(id)
	if err != nil {
		return nil, err
	}
	if f.made != nil {
		f.made(st)
	}
	ls := &logStore{MessageStore: st, note: f.note}
	if f.wrapped != nil {
		f.wrapped(ls)
	}
	return ls, nil
}

type logStore struct {
	quickfix.MessageStore
	note func(string)
	mute bool
	// the harness's own copy of every message handed to the store in this epoch: what the store returns for a number must
	// stay what was saved under it (`changed`)
	saved map[int][]byte
}

func (s *logStore) keep(seq int, msg []byte) {
	if s.saved == nil {
		s.saved = map[int][]byte{}
	}
	s.saved[seq] = append([]byte(nil), msg...)
}

// changed: the numbers whose stored bytes are no longer the bytes that were saved under them (ascending)
func (s *logStore) changed() []int {
	var out []int
	for n, want := range s.saved {
		got, err := s.MessageStore.GetMessages(n, n)
		if err != nil || len(got) != 1 || !bytes.Equal(got[0], want) {
			out = append(out, n)
			s.saved[n] = nil
			if err == nil && len(got) == 1 {
				s.saved[n] = append([]byte(nil), got[0]...) // reported once
			}
		}
	}
	sort.Ints(out)
	return out
}

func (s *logStore) say(x string) {
	if !s.mute && s.note != nil {
		s.note("store " + x)
	}
}

// savedSendingTime: SendingTime (52) of every message handed to the store, by SenderCompID and number: a replay's
// OrigSendingTime (122) must equal it (C03).  Cleared with the store.
var savedSendingTime = map[string]string{}

func describeSaved(seq int, msg []byte) string {
	k, r := "?", "y"
	snd, st := "", ""
	defer func() {
		if st != "" {
			savedSendingTime[snd+"/"+strconv.Itoa(seq)] = st
		}
	}()
	for _, f := range strings.Split(string(msg), "\x01") {
		if strings.HasPrefix(f, "49=") {
			snd = f[3:]
		}
		if strings.HasPrefix(f, "52=") {
			st = f[3:]
		}
		if strings.HasPrefix(f, "35=") {
			k = f[3:]
		}
		if f == "9003=n" {
			r = "n"
		}
	}
	return fmt.Sprintf("save %d %s %s", seq, k, r)
}

func (s *logStore) IncrNextSenderMsgSeqNum() error {
	s.say("incS")
	return s.MessageStore.IncrNextSenderMsgSeqNum()
}
func (s *logStore) IncrNextTargetMsgSeqNum() error {
	s.say("incT")
	return s.MessageStore.IncrNextTargetMsgSeqNum()
}
func (s *logStore) SetNextSenderMsgSeqNum(n int) error {
	s.say(fmt.Sprintf("setS %d", n))
	return s.MessageStore.SetNextSenderMsgSeqNum(n)
}
func (s *logStore) SetNextTargetMsgSeqNum(n int) error {
	s.say(fmt.Sprintf("setT %d", n))
	return s.MessageStore.SetNextTargetMsgSeqNum(n)
}
func (s *logStore) SaveMessage(seq int, msg []byte) error {
	s.say(describeSaved(seq, msg))
	s.keep(seq, msg)
	return s.MessageStore.SaveMessage(seq, msg)
}
func (s *logStore) SaveMessageAndIncrNextSenderMsgSeqNum(seq int, msg []byte) error {
	s.say(describeSaved(seq, msg))
	s.keep(seq, msg)
	return s.MessageStore.SaveMessageAndIncrNextSenderMsgSeqNum(seq, msg)
}
func (s *logStore) Refresh() error {
	s.say("refresh")
	return s.MessageStore.Refresh()
}
func (s *logStore) Reset() error {
	for k := range savedSendingTime {
		delete(savedSendingTime, k)
	}
	s.say("reset")
	s.saved = nil
	return s.MessageStore.Reset()
}
func (s *logStore) SetCreationTime(t time.Time) { s.MessageStore.SetCreationTime(t) }
