package main

// family "robust" (C09): nothing from the wire, a file or the API may panic or hang.  Every op runs one entry point of
// the real code on attacker-controlled bytes under recover + timeout; observation = ok | err | panic | hang
// (plus `answered y|n` for the session probe).  Ops:
//   parse <none|app|fixt> <hex>     ParseMessage[WithDataDictionary] then every typed getter on every field of the result
//   validate <dict> <hex>           parse with the dictionary, then Validate with default settings
//   settings <hex>                  ParseSettings
//   dictxml <hex>                   datadictionary.ParseSrc
//   sessraw <state> <hex>           a session in <state> receives the bytes; then a well-formed in-sequence TestRequest
//                                   must still be answered when the session is still logged on
import (
	"bytes"
	"fmt"
	"path/filepath"
	"strconv"
	"strings"
	"sync"
	"time"

	"github.com/quickfixgo/quickfix"
	"github.com/quickfixgo/quickfix/config"
	"github.com/quickfixgo/quickfix/datadictionary"
)

type robustImpl struct {
	once  sync.Once
	dicts map[string]*datadictionary.DataDictionary
}

func (r *robustImpl) reset(string) {}

func robustRepoDir() string {
	if v := getenv("VERIF_REPO"); v != "" {
		return v
	}
	return "/repo"
}

func (r *robustImpl) load() {
	r.once.Do(func() {
		r.dicts = map[string]*datadictionary.DataDictionary{}
		for _, n := range []string{"FIX40", "FIX42", "FIX44", "FIX50SP2", "FIXT11"} {
			d, err := datadictionary.Parse(filepath.Join(robustRepoDir(), "spec", n+".xml"))
			mustf(err, "load "+n)
			r.dicts[n] = d
		}
	})
}

// guardT runs f under recover and a timeout; a hang leaves a goroutine behind (reported, the run continues).
func guardT(d time.Duration, f func() string) string {
	ch := make(chan string, 1)
	go func() {
		defer func() {
			if x := recover(); x != nil {
				ch <- "panic"
			}
		}()
		ch <- f()
	}()
	select {
	case s := <-ch:
		return s
	case <-time.After(d):
		return "hang"
	}
}

func touchAll(fm quickfix.FieldMap) {
	for _, t := range fm.Tags() {
		fm.GetInt(t)
		fm.GetString(t)
		fm.GetTime(t)
		fm.GetBytes(t)
		var b quickfix.FIXBoolean
		fm.GetField(t, &b)
		var fl quickfix.FIXFloat
		fm.GetField(t, &fl)
		var dec quickfix.FIXDecimal
		fm.GetField(t, &dec)
		fm.Has(t)
		// a group view with an arbitrary template
		g := quickfix.NewRepeatingGroup(t, quickfix.GroupTemplate{quickfix.GroupElement(t + 1), quickfix.GroupElement(t + 2)})
		fm.GetGroup(g)
	}
}

func (r *robustImpl) parse(mode string, b []byte) (*quickfix.Message, error) {
	m := quickfix.NewMessage()
	var err error
	switch mode {
	case "none":
		err = quickfix.ParseMessage(m, bytes.NewBuffer(b))
	case "app":
		err = quickfix.ParseMessageWithDataDictionary(m, bytes.NewBuffer(b), nil, r.dicts["FIX44"])
	case "app42":
		err = quickfix.ParseMessageWithDataDictionary(m, bytes.NewBuffer(b), nil, r.dicts["FIX42"])
	default:
		err = quickfix.ParseMessageWithDataDictionary(m, bytes.NewBuffer(b), r.dicts["FIXT11"], r.dicts["FIX50SP2"])
	}
	return m, err
}

func (r *robustImpl) exec(op string) string {
	r.load()
	w := strings.Fields(op)
	switch w[0] {
	case "parse":
		return guardT(5*time.Second, func() string {
			m, err := r.parse(w[1], unhx(w[2]))
			if err != nil {
				return "err"
			}
			touchAll(m.Header.FieldMap)
			touchAll(m.Body.FieldMap)
			touchAll(m.Trailer.FieldMap)
			_ = m.String()
			m.ToMessage().CopyInto(quickfix.NewMessage())
			return "ok"
		})
	case "validate":
		return guardT(5*time.Second, func() string {
			var v quickfix.Validator
			mode := "app"
			switch w[1] {
			case "FIX42":
				mode = "app42"
				v = quickfix.NewValidator(quickfix.ValidatorSettings{CheckFieldsOutOfOrder: true, CheckFieldsHaveValues: true, RejectInvalidMessage: true, CheckUserDefinedFields: true}, r.dicts["FIX42"], nil)
			case "FIX44":
				v = quickfix.NewValidator(quickfix.ValidatorSettings{CheckFieldsOutOfOrder: true, CheckFieldsHaveValues: true, RejectInvalidMessage: true, CheckUserDefinedFields: true}, r.dicts["FIX44"], nil)
			default:
				mode = "fixt"
				v = quickfix.NewValidator(quickfix.ValidatorSettings{CheckFieldsOutOfOrder: true, CheckFieldsHaveValues: true, RejectInvalidMessage: true, CheckUserDefinedFields: true}, r.dicts["FIX50SP2"], r.dicts["FIXT11"])
			}
			m, err := r.parse(mode, unhx(w[2]))
			if err != nil {
				return "err"
			}
			if rej := v.Validate(m); rej != nil {
				return "err"
			}
			return "ok"
		})
	case "settings":
		return guardT(5*time.Second, func() string {
			if _, err := quickfix.ParseSettings(bytes.NewReader(unhx(w[1]))); err != nil {
				return "err"
			}
			return "ok"
		})
	case "dictxml":
		return guardT(10*time.Second, func() string {
			if _, err := datadictionary.ParseSrc(bytes.NewReader(unhx(w[1]))); err != nil {
				return "err"
			}
			return "ok"
		})
	case "sessraw":
		return guardT(10*time.Second, func() string { return r.sessRaw(w[1], unhx(w[2])) })
	}
	return "bad-op"
}

// sessRaw: acceptor (FIX.4.2, or the BeginString behind `@` in <state>) brought into <state>, fed raw bytes, then probed
// with a TestRequest.
func (r *robustImpl) sessRaw(state string, raw []byte) string {
	bs := "FIX.4.2"
	if i := strings.IndexByte(state, '@'); i >= 0 {
		state, bs = state[:i], state[i+1:]
	}
	st := quickfix.NewSessionSettings()
	st.Set(config.BeginString, bs)
	st.Set(config.SenderCompID, "SND")
	st.Set(config.TargetCompID, "TGT")
	if bs == "FIXT.1.1" {
		st.Set(config.DefaultApplVerID, "9")
	}
	id := quickfix.SessionID{BeginString: bs, SenderCompID: "SND", TargetCompID: "TGT"}
	v, err := quickfix.VerifNewSession(false, id, quickfix.NewMemoryStoreFactory(), st, quickfix.NewNullLogFactory(), nullApp{})
	mustf(err, "session")
	defer v.Close()
	hdr := func(kind string, seq int, extra ...string) []byte {
		f := []string{"8=" + bs, "35=" + kind, "49=TGT", "56=SND", "34=" + strconv.Itoa(seq), "52=@0"}
		if bs == "FIXT.1.1" && kind == "A" {
			extra = append(extra, "1137=9")
		}
		return wireBytes(append(f, extra...))
	}
	if state != "latent" {
		v.Connect(8)
	}
	if state == "logongap" {
		// a Logon ahead of the expected number: logged on and recovering straight from the Logon state
		v.Incoming(hdr("A", 4, "98=0", "108=30"))
	} else if state != "latent" && state != "logon" {
		v.Incoming(hdr("A", 1, "98=0", "108=30"))
	}
	switch state {
	case "resend":
		v.Incoming(hdr("D", 5, "9000=1"))
	case "pending":
		v.Timeout(quickfix.VerifPeerTimeout)
	case "logout":
		v.Stop()
	}
	v.DrainOut()
	v.Incoming(raw)
	v.DrainOut()
	if !v.IsLoggedOn() {
		return "ok answered -"
	}
	seq := v.Store().NextTargetMsgSeqNum()
	before := v.Store().NextTargetMsgSeqNum()
	v.Incoming(hdr("1", seq, "112=PROBE"))
	outs, _ := v.DrainOut()
	for _, o := range outs {
		if bytes.Contains(o, []byte("\x0135=0\x01")) && bytes.Contains(o, []byte("\x01112=PROBE\x01")) {
			return "ok answered y"
		}
	}
	// in recovery the probe is processed but the answer is what inSession logic gives: it must at least be consumed
	if v.Store().NextTargetMsgSeqNum() == before+1 {
		return "ok answered y"
	}
	return fmt.Sprintf("ok answered n")
}

// ---------------------------------------------------------------- generator

func robustMsg(fields []string) []byte { return wireBytes(fields) }

func (g *robustGen) validMessage() []string {
	r := g.r
	kind := r.pick([]string{"D", "8", "A", "0", "1", "2", "4", "5", "AE", "V", "W", "j", "3"})
	f := []string{"8=" + r.pick([]string{"FIX.4.2", "FIX.4.4", "FIXT.1.1", "FIX.4.0"}), "35=" + kind, "49=TGT", "56=SND", "34=" + strconv.Itoa(r.intn(20)), "52=@0"}
	n := r.intn(10)
	for i := 0; i < n; i++ {
		tag := []int{11, 21, 38, 40, 54, 55, 60, 44, 58, 112, 7, 16, 36, 123, 43, 122, 98, 108, 141, 453, 448, 447, 452, 802, 523, 803, 78, 79, 80, 146, 268, 269, 270, 271, 1128, 1137, 212, 213, 95, 96, 9000, 5001, 1}[r.intn(43)]
		val := r.pick([]string{"1", "0", "Y", "N", "abc", "", "-1", "2", "3", "99999999999999999999", "20240101-10:00:00", "1.5", "A", "<x/>", "@0"})
		f = append(f, strconv.Itoa(tag)+"="+val)
	}
	return f
}

type robustGen struct{ r *rng }

// provoke: a well-formed message addressed to the session SND<-TGT of the given BeginString (next expected number 2 once
// logged on) that draws one of the session's refusals or administrative answers.
func (g *robustGen) provoke(bs string) ([]byte, string) {
	r := g.r
	kinds := []string{"sender", "target", "stale", "future", "seqreset-low", "gapfill-low", "too-low", "possdup-no-orig", "possdup-orig-later",
		"no-sendingtime", "msgtype", "resend-req", "resend-req-backwards", "testreq-no-id", "logon-again", "logout", "reject", "too-high",
		"empty-sender", "bad-seq", "bad-time", "app"}
	what := kinds[r.intn(len(kinds))]
	kind, snd, tgt, seq, tm := "D", "TGT", "SND", "2", "@0"
	var extra []string
	switch what {
	case "sender":
		snd = "BAD"
	case "target":
		tgt = "BAD"
	case "empty-sender":
		snd = ""
	case "stale":
		tm = "20000101-00:00:00"
	case "future":
		tm = "20990101-00:00:00"
	case "bad-time":
		tm = "yesterday"
	case "seqreset-low":
		kind, seq, extra = "4", r.pick([]string{"2", "9", "1"}), []string{"36=" + r.pick([]string{"1", "0"})}
	case "gapfill-low":
		kind, extra = "4", []string{"123=Y", "36=1"}
	case "too-low":
		seq = "1"
	case "too-high":
		seq = "7"
	case "bad-seq":
		seq = r.pick([]string{"", "x", "-3"})
	case "possdup-no-orig":
		seq, extra = "1", []string{"43=Y"}
	case "possdup-orig-later":
		seq, extra = r.pick([]string{"1", "2"}), []string{"43=Y", "122=20990101-00:00:00"}
	case "no-sendingtime":
		tm = "-"
	case "msgtype":
		kind = r.pick([]string{"ZZ", "~", "zzz"})
	case "resend-req":
		kind, extra = "2", []string{"7=1", "16=0"}
	case "resend-req-backwards":
		kind, extra = "2", []string{"7=5", "16=" + r.pick([]string{"2", "x", ""})}
	case "testreq-no-id":
		kind = "1"
	case "logon-again":
		kind, extra = "A", []string{"98=0", "108=30", "141=" + r.pick([]string{"Y", "N"})}
	case "logout":
		kind = "5"
	case "reject":
		kind, extra = "3", []string{"45=1"}
	case "app":
		kind = r.pick([]string{"D", "8", "AE"})
	}
	f := []string{"8=" + bs, "35=" + kind, "49=" + snd, "56=" + tgt, "34=" + seq}
	if tm != "-" {
		f = append(f, "52="+tm)
	}
	return wireBytes(append(f, extra...)), what
}

func (g *robustGen) mutate(b []byte) []byte {
	r := g.r
	b = append([]byte(nil), b...)
	switch r.intn(12) {
	case 0: // truncate
		if len(b) > 0 {
			b = b[:r.intn(len(b))]
		}
	case 1: // drop the CheckSum field
		if i := bytes.LastIndex(b, []byte("\x0110=")); i >= 0 {
			b = b[:i+1]
		}
	case 2: // change BodyLength
		if i := bytes.Index(b, []byte("\x019=")); i >= 0 {
			j := bytes.IndexByte(b[i+3:], 1)
			if j >= 0 {
				nl := r.pick([]string{"", "0", "-5", "99999999", "9223372036854775807", "abc", "5"})
				b = append(append(append([]byte(nil), b[:i+3]...), nl...), b[i+3+j:]...)
			}
		}
	case 3: // flip a byte
		if len(b) > 0 {
			b[r.intn(len(b))] = byte(r.intn(256))
		}
	case 4: // duplicate a field
		parts := bytes.Split(b, []byte{1})
		if len(parts) > 2 {
			k := r.intn(len(parts) - 1)
			parts = append(parts[:k+1], parts[k:]...)
			b = bytes.Join(parts, []byte{1})
		}
	case 5: // empty a value
		parts := bytes.Split(b, []byte{1})
		if len(parts) > 2 {
			k := r.intn(len(parts) - 1)
			if i := bytes.IndexByte(parts[k], '='); i >= 0 {
				parts[k] = parts[k][:i+1]
			}
			b = bytes.Join(parts, []byte{1})
		}
	case 6: // XMLData with a wrong length
		b = bytes.Replace(b, []byte("\x0110="), []byte("\x01212="+r.pick([]string{"9999", "0", "-1", "3", "x"})+"\x01213=<a/>\x0110="), 1)
	case 7: // remove all SOH
		b = bytes.ReplaceAll(b, []byte{1}, []byte{'|'})
	case 8: // tag without '=' or non-numeric tag
		b = bytes.Replace(b, []byte("\x0149="), []byte("\x01"+r.pick([]string{"49", "4x=", "=", "=="})), 1)
	case 9: // huge group counts
		b = bytes.Replace(b, []byte("\x0110="), []byte("\x01453="+r.pick([]string{"9999999", "-1", "", "2"})+"\x01448=a\x0110="), 1)
	}
	return b
}

func genRobust(r *rng, tier string, idx int, o *out, do func(string) string) string {
	g := &robustGen{r: r}
	for k := 0; k < 60; k++ {
		var b []byte
		switch r.intn(5) {
		case 0:
			n := r.intn(80)
			for i := 0; i < n; i++ {
				b = append(b, r.pickByte([]byte("8=FIX.4219035\x01\x01\x01=ADx-")))
			}
		default:
			b = g.mutate(robustMsg(g.validMessage()))
			if r.chance(1, 3) {
				b = g.mutate(b)
			}
		}
		var res string
		switch x := r.intn(100); {
		case x < 35:
			mode := r.pick([]string{"none", "app", "app42", "fixt"})
			res = do("parse " + mode + " " + hx(b))
			o.kind("parse." + mode + "." + res)
		case x < 55:
			d := r.pick([]string{"FIX42", "FIX44", "FIXT"})
			res = do("validate " + d + " " + hx(b))
			o.kind("validate." + res)
		case x < 70:
			res = do("settings " + hx(genSettingsText(r)))
			o.kind("settings." + res)
		case x < 78:
			res = do("dictxml " + hx(genDictText(r)))
			o.kind("dictxml." + res)
		default:
			stt := r.pick([]string{"latent", "logon", "insession", "resend", "pending", "logout", "logongap"})
			bs := r.pick([]string{"FIX.4.0", "FIX.4.1", "FIX.4.2", "FIX.4.3", "FIX.4.4", "FIXT.1.1"})
			switch {
			case r.chance(1, 2):
				// a well-formed message of this session that the session has to refuse or answer (every reject path, with
				// and without a tag to name), now and then damaged afterwards
				var what string
				b, what = g.provoke(bs)
				o.kind("sessraw.provoke." + what)
				if r.chance(1, 4) {
					b = g.mutate(b)
				}
			case r.chance(3, 4):
				if i := bytes.IndexByte(b, 1); i > 2 && bytes.HasPrefix(b, []byte("8=")) {
					b = append([]byte("8="+bs), b[i:]...) // BodyLength and CheckSum do not cover / are not checked before this field
				}
			}
			res = do("sessraw " + stt + "@" + bs + " " + hx(b))
			o.kind("sessraw." + stt + "." + strings.ReplaceAll(res, " ", "_"))
			o.kind("sessraw.bs." + bs)
		}
		o.nontrivial(strconv.Itoa(len(b)) + ":" + string(b))
	}
	return "robust"
}

func genSettingsText(r *rng) []byte {
	lines := []string{}
	n := r.intn(8)
	for i := 0; i < n; i++ {
		lines = append(lines, r.pick([]string{"[DEFAULT]", "[SESSION]", "[default]", "[Session] ", "BeginString=FIX.4.2", "SenderCompID=A", "TargetCompID=B",
			"k=v", "=", "novalue", "# comment", "", "   ", "[SESSION", "HeartBtInt=30", "BeginString=FIX.9", "a=b=c", "\t"}))
	}
	return []byte(strings.Join(lines, r.pick([]string{"\n", "\n", "\r\n"})))
}

func genDictText(r *rng) []byte {
	parts := []string{"<fix major='4' minor='2'>", "<fix>", "<header>", "</header>", "<trailer/>", "<messages>", "</messages>", "<message name='X' msgtype='X' msgcat='app'>",
		"</message>", "<field name='A' required='Y'/>", "<field name='B' required='N'/>", "<component name='C' required='Y'/>", "<components>", "</components>",
		"<component name='C'>", "<component name='D'>", "</component>", "<group name='G' required='N'>", "</group>", "<fields>", "</fields>",
		"<field number='1' name='A' type='STRING'/>", "<field number='2' name='B' type='INT'/>", "<field number='x' name='G' type='NUMINGROUP'/>",
		"<field number='3' name='G' type='NUMINGROUP'/>", "<value enum='1' description='ONE'/>", "</fix>", "<fix major='x' minor='y'>", "garbage", "<"}
	n := 2 + r.intn(14)
	var sb strings.Builder
	for i := 0; i < n; i++ {
		sb.WriteString(r.pick(parts))
	}
	return []byte(sb.String())
}

func init() {
	families["robust"] = &family{newImpl: func() impl { return &robustImpl{} }, gen: genRobust}
}
