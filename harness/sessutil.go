package main

// helpers shared by the families that build real sessions through the factory
import (
	"fmt"

	"github.com/quickfixgo/quickfix"
)

type nullApp struct{}

func (nullApp) OnCreate(quickfix.SessionID)                           {}
func (nullApp) OnLogon(quickfix.SessionID)                            {}
func (nullApp) OnLogout(quickfix.SessionID)                           {}
func (nullApp) ToAdmin(*quickfix.Message, quickfix.SessionID)         {}
func (nullApp) ToApp(*quickfix.Message, quickfix.SessionID) error     { return nil }
func (nullApp) FromAdmin(*quickfix.Message, quickfix.SessionID) quickfix.MessageRejectError {
	return nil
}
func (nullApp) FromApp(*quickfix.Message, quickfix.SessionID) quickfix.MessageRejectError {
	return nil
}

func mustf(err error, format string, a ...any) {
	if err != nil {
		panic(fmt.Sprintf(format, a...) + ": " + err.Error())
	}
}
