package main

// family "codec": tag=value codec, FieldMap, Message build/parse, repeating groups (C10, C11, C13, codec part of C09, byte layer of C03).
//
// One current message `m` (built through the API or produced by a parse).  Ops (one per line):
//   new | set|sets|setf|setw <sec> <tag> <hex> | seti <sec> <tag> <int> | setb <sec> <tag> y|n | rm <sec> <tag> | clear <sec>
//   setgrp <sec> <instance> | copy | fork | sidebuild | build | copybuild | reparse <mode> | parse <mode> <hex> | bytes | rebuild
//   has <sec> <tag> | get <sec> <tag> | geti <sec> <tag> | tags <sec> | getgrp <sec> <tag> <template>
//   ddef t <id> <hdr csv> <trl csv> | ddef a <id> <msgtype hex> <tree> | static
// <sec> = h|b|t;  <mode> = n | a:<app> | ta:<transport>:<app>
// template  := ( item* )          item := e:<tag> | g:<tag> template
// instance  := grp:<tag> template <n> entry*      entry := [ fld* ]     fld := f:<tag>:<hex> | instance
// tree      := ( node* )          node := n:<tag> [tree]
// Observations: ok | bytes <hex> wf:<y|n> | bytes <hex> <hex> | y|n | val <hex> | int <v> | err <reason> | tags <csv>
//   | grp <n> entry-obs* | parse: ok F <tag:valuehex:rawlen,…> B <hex> H <csv> D <csv> T <csv> | err | panic
import (
	"bytes"
	"fmt"
	"os"
	"path/filepath"
	"sort"
	"strconv"
	"strings"

	"github.com/quickfixgo/quickfix"
	"github.com/quickfixgo/quickfix/datadictionary"
)

// ------------------------------------------------------------------ independent tag=value scanner (no quickfix)

type codecField struct {
	tag string // text before the first '='
	val []byte
	raw []byte // whole field incl. SOH
}

// wireScan splits on SOH (a field following 212=<n>, n>0 is taken as tag= plus n bytes plus SOH). ok=false if malformed.
func wireScan(b []byte) (fs []codecField, ok bool) {
	xml := 0
	for len(b) > 0 {
		var end int
		if xml > 0 {
			eq := bytes.IndexByte(b, '=')
			if eq < 0 || eq+1+xml >= len(b) || b[eq+1+xml] != 1 {
				return fs, false
			}
			end = eq + 1 + xml
		} else {
			end = bytes.IndexByte(b, 1)
			if end < 0 {
				return fs, false
			}
		}
		raw := b[:end+1]
		eq := bytes.IndexByte(raw, '=')
		if eq <= 0 {
			return fs, false
		}
		f := codecField{tag: string(raw[:eq]), val: raw[eq+1 : end], raw: raw}
		fs = append(fs, f)
		xml = 0
		if f.tag == "212" {
			xml = smallNat(f.val)
		}
		b = b[end+1:]
	}
	return fs, true
}

// smallNat: value of a string of 1–9 digits, else 0
func smallNat(b []byte) int {
	if len(b) == 0 || len(b) > 9 {
		return 0
	}
	n := 0
	for _, c := range b {
		if c < '0' || c > '9' {
			return 0
		}
		n = n*10 + int(c-'0')
	}
	return n
}

// wireWF: 8,9,35 first, a single 10 last, BodyLength = bytes between the 9 field and the 10 field, CheckSum = sum mod 256 (3 digits).
func wireWF(b []byte) bool {
	fs, ok := wireScan(b)
	if !ok || len(fs) < 4 || fs[0].tag != "8" || fs[1].tag != "9" || fs[2].tag != "35" || fs[len(fs)-1].tag != "10" {
		return false
	}
	body, sum := 0, 0
	for i, f := range fs {
		if i >= 2 && i < len(fs)-1 {
			body += len(f.raw)
		}
		if i < len(fs)-1 {
			for _, c := range f.raw {
				sum += int(c)
			}
			if f.tag == "10" {
				return false
			}
		}
		if i > 1 && (f.tag == "8" || f.tag == "9") {
			return false
		}
	}
	return string(fs[1].val) == strconv.Itoa(body) && string(fs[len(fs)-1].val) == fmt.Sprintf("%03d", sum%256)
}

type kv struct {
	tag string
	val []byte
}

// wireEncode writes 8, 9, the given fields (35 first by convention of the caller), 10 with correct length and checksum.
func wireEncode(begin string, fields []kv) []byte {
	var body []byte
	for _, f := range fields {
		body = append(body, f.tag...)
		body = append(body, '=')
		body = append(body, f.val...)
		body = append(body, 1)
	}
	out := []byte("8=" + begin + "\x01" + "9=" + strconv.Itoa(len(body)) + "\x01")
	out = append(out, body...)
	sum := 0
	for _, c := range out {
		sum += int(c)
	}
	return append(out, fmt.Sprintf("10=%03d\x01", sum%256)...)
}

// ------------------------------------------------------------------ templates / instances (token syntax)

type tItem struct {
	tag     int
	isGroup bool
	sub     []tItem
}
type gFld struct {
	tag int
	val []byte
	grp *gInst
}
type gInst struct {
	tag     int
	tmpl    []tItem
	entries [][]gFld
}

func codecMustInt(s string) int {
	v, err := strconv.Atoi(s)
	if err != nil {
		panic("bad int " + s)
	}
	return v
}

func parseTemplate(t []string, p *int) []tItem {
	if t[*p] != "(" {
		panic("template: expected (")
	}
	*p++
	var items []tItem
	for t[*p] != ")" {
		tok := t[*p]
		*p++
		switch {
		case strings.HasPrefix(tok, "e:"):
			items = append(items, tItem{tag: codecMustInt(tok[2:])})
		case strings.HasPrefix(tok, "g:"):
			items = append(items, tItem{tag: codecMustInt(tok[2:]), isGroup: true, sub: parseTemplate(t, p)})
		default:
			panic("template: bad token " + tok)
		}
	}
	*p++
	return items
}

func parseInst(t []string, p *int) *gInst {
	if !strings.HasPrefix(t[*p], "grp:") {
		panic("instance: expected grp:")
	}
	g := &gInst{tag: codecMustInt(t[*p][4:])}
	*p++
	g.tmpl = parseTemplate(t, p)
	n := codecMustInt(t[*p])
	*p++
	for i := 0; i < n; i++ {
		if t[*p] != "[" {
			panic("instance: expected [")
		}
		*p++
		var e []gFld
		for t[*p] != "]" {
			if strings.HasPrefix(t[*p], "f:") {
				q := strings.SplitN(t[*p], ":", 3)
				e = append(e, gFld{tag: codecMustInt(q[1]), val: unhx(q[2])})
				*p++
			} else {
				sub := parseInst(t, p)
				e = append(e, gFld{tag: sub.tag, grp: sub})
			}
		}
		*p++
		g.entries = append(g.entries, e)
	}
	return g
}

func tmplString(items []tItem) string {
	var sb strings.Builder
	sb.WriteString("(")
	for _, it := range items {
		if it.isGroup {
			sb.WriteString(fmt.Sprintf(" g:%d %s", it.tag, tmplString(it.sub)))
		} else {
			sb.WriteString(fmt.Sprintf(" e:%d", it.tag))
		}
	}
	sb.WriteString(" )")
	return sb.String()
}

func (g *gInst) String() string {
	var sb strings.Builder
	sb.WriteString(fmt.Sprintf("grp:%d %s %d", g.tag, tmplString(g.tmpl), len(g.entries)))
	for _, e := range g.entries {
		sb.WriteString(" [")
		for _, f := range e {
			if f.grp != nil {
				sb.WriteString(" " + f.grp.String())
			} else {
				sb.WriteString(fmt.Sprintf(" f:%d:%s", f.tag, hx(f.val)))
			}
		}
		sb.WriteString(" ]")
	}
	return sb.String()
}

// nestedGroup: how the generated message packages put a nested group into a template — a wrapper VALUE embedding the
// group (cmd/generate-fix templates), not a bare *RepeatingGroup.  Any GroupItem has to work as a template item.
type nestedGroup struct{ *quickfix.RepeatingGroup }

func mkTemplate(items []tItem) quickfix.GroupTemplate {
	var gt quickfix.GroupTemplate
	for _, it := range items {
		if it.isGroup && it.tag%2 == 1 {
			gt = append(gt, nestedGroup{quickfix.NewRepeatingGroup(quickfix.Tag(it.tag), mkTemplate(it.sub))})
		} else if it.isGroup {
			gt = append(gt, quickfix.NewRepeatingGroup(quickfix.Tag(it.tag), mkTemplate(it.sub)))
		} else {
			gt = append(gt, quickfix.GroupElement(quickfix.Tag(it.tag)))
		}
	}
	return gt
}

func (g *gInst) build() *quickfix.RepeatingGroup {
	rg := quickfix.NewRepeatingGroup(quickfix.Tag(g.tag), mkTemplate(g.tmpl))
	for _, e := range g.entries {
		ge := rg.Add()
		for _, f := range e {
			if f.grp != nil {
				ge.SetGroup(f.grp.build())
			} else {
				ge.SetBytes(quickfix.Tag(f.tag), f.val)
			}
		}
	}
	return rg
}

type fmLike interface {
	GetGroup(quickfix.FieldGroupReader) quickfix.MessageRejectError
	Has(quickfix.Tag) bool
	GetBytes(quickfix.Tag) ([]byte, quickfix.MessageRejectError)
}

func obsEntries(rg *quickfix.RepeatingGroup, tmpl []tItem) string {
	var sb strings.Builder
	for i := 0; i < rg.Len(); i++ {
		e := rg.Get(i)
		sb.WriteString(" [")
		for _, it := range tmpl {
			if !e.Has(quickfix.Tag(it.tag)) {
				continue
			}
			if !it.isGroup {
				v, _ := e.GetBytes(quickfix.Tag(it.tag))
				sb.WriteString(fmt.Sprintf(" f:%d:%s", it.tag, hx(v)))
				continue
			}
			sub := quickfix.NewRepeatingGroup(quickfix.Tag(it.tag), mkTemplate(it.sub))
			if err := e.GetGroup(sub); err != nil {
				sb.WriteString(fmt.Sprintf(" gerr:%d:%d", it.tag, err.RejectReason()))
			} else {
				sb.WriteString(fmt.Sprintf(" g:%d:%d", it.tag, sub.Len()) + obsEntries(sub, it.sub))
			}
		}
		sb.WriteString(" ]")
	}
	return sb.String()
}

func obsGroup(fm fmLike, tag int, tmpl []tItem) string {
	rg := quickfix.NewRepeatingGroup(quickfix.Tag(tag), mkTemplate(tmpl))
	if err := fm.GetGroup(rg); err != nil {
		return fmt.Sprintf("err %d", err.RejectReason())
	}
	return fmt.Sprintf("grp %d", rg.Len()) + obsEntries(rg, tmpl)
}

// ------------------------------------------------------------------ dictionaries

var dictCache = map[string]*datadictionary.DataDictionary{}
var dictIDs = []string{"FIX40", "FIX41", "FIX42", "FIX43", "FIX44", "FIX50", "FIX50SP1", "FIX50SP2", "FIXT11"}

func repoDir() string {
	if d := os.Getenv("VERIF_REPO"); d != "" {
		return d
	}
	return "/repo"
}

// tenDictXML: a (pathological) application dictionary whose repeating group NoPartyIDs(453) lists CheckSum(10) as a member.
// Under it the well-formed message 35=D 453=1 448=a 10=… parses, but parseGroup takes 10= for a group member, runs out of fields, and
// doParsing ends on the field parsed last: the trailer has no CheckSum (Lean: ten_swallowed / C11_checksum_member_swallowed).
const tenDictXML = `<fix major='4' type='FIX' servicepack='0' minor='2'>
 <header>
  <field name='BeginString' required='Y' />
  <field name='BodyLength' required='Y' />
  <field name='MsgType' required='Y' />
 </header>
 <messages>
  <message name='NewOrderSingle' msgcat='app' msgtype='D'>
   <group name='NoPartyIDs' required='N'>
    <field name='PartyID' required='N' />
    <field name='CheckSum' required='N' />
   </group>
  </message>
 </messages>
 <trailer>
  <field name='CheckSum' required='Y' />
 </trailer>
 <components>
 </components>
 <fields>
  <field number='8' name='BeginString' type='STRING' />
  <field number='9' name='BodyLength' type='INT' />
  <field number='10' name='CheckSum' type='STRING' />
  <field number='35' name='MsgType' type='STRING' />
  <field number='448' name='PartyID' type='STRING' />
  <field number='453' name='NoPartyIDs' type='INT' />
 </fields>
</fix>
`

// custom (user-defined) transport tags: not in Tag.IsHeader()/IsTrailer(), known to a "+c" transport dictionary only
const customHeaderTag, customTrailerTag = 10030, 5050

// dict loads spec/<id>.xml.  An id with the suffix "+c" is a SEPARATE instance of that dictionary whose header additionally
// defines customHeaderTag and whose trailer defines customTrailerTag (the idiom of TestParseMessageWithDataDictionary).
func dict(id string) *datadictionary.DataDictionary {
	if d, ok := dictCache[id]; ok {
		return d
	}
	base := strings.TrimSuffix(id, "+c")
	path := filepath.Join(repoDir(), "spec", base+".xml")
	if base == "@TEN" { // the witness dictionary of C11_checksum_member_swallowed: group 453 lists CheckSum as a member
		f, ferr := os.CreateTemp("", "ten*.xml")
		if ferr != nil {
			panic(ferr)
		}
		f.WriteString(tenDictXML)
		f.Close()
		defer os.Remove(f.Name())
		path = f.Name()
	}
	d, err := datadictionary.Parse(path)
	if err != nil {
		panic("cannot load dictionary " + id + ": " + err.Error())
	}
	if base != id {
		d.Header.Fields[customHeaderTag] = nil
		d.Trailer.Fields[customTrailerTag] = nil
	}
	dictCache[id] = d
	return d
}

func sortedKeys(m map[int]*datadictionary.FieldDef) []int {
	ks := make([]int, 0, len(m))
	for k := range m {
		ks = append(ks, k)
	}
	sort.Ints(ks)
	return ks
}

func codecCsvInts(ks []int) string {
	if len(ks) == 0 {
		return "-"
	}
	s := make([]string, len(ks))
	for i, k := range ks {
		s[i] = strconv.Itoa(k)
	}
	return strings.Join(s, ",")
}

func treeOfList(fs []*datadictionary.FieldDef) string {
	var sb strings.Builder
	sb.WriteString("(")
	for _, f := range fs {
		sb.WriteString(fmt.Sprintf(" n:%d", f.Tag()))
		if len(f.Fields) > 0 {
			sb.WriteString(" " + treeOfList(f.Fields))
		}
	}
	sb.WriteString(" )")
	return sb.String()
}

func treeOfMap(m map[int]*datadictionary.FieldDef) string {
	var fs []*datadictionary.FieldDef
	for _, k := range sortedKeys(m) {
		fs = append(fs, m[k])
	}
	return treeOfList(fs)
}

func ddefT(id string) string {
	d := dict(id)
	return fmt.Sprintf("ddef t %s %s %s", id, codecCsvInts(sortedKeys(d.Header.Fields)), codecCsvInts(sortedKeys(d.Trailer.Fields)))
}

// ddefA returns "" when the dictionary does not define the message type.
func ddefA(id string, msgType []byte) string {
	mm, ok := dict(id).Messages[string(msgType)]
	if !ok {
		return ""
	}
	return fmt.Sprintf("ddef a %s %s %s", id, hx(msgType), treeOfMap(mm.Fields))
}

func modeDicts(mode string) (t, a *datadictionary.DataDictionary) {
	p := strings.Split(mode, ":")
	switch p[0] {
	case "n":
	case "a":
		a = dict(p[1])
	case "ta":
		t, a = dict(p[1]), dict(p[2])
	default:
		panic("bad mode " + mode)
	}
	return
}

// ------------------------------------------------------------------ the implementation driver

type codecImpl struct {
	m *quickfix.Message
	// the group objects handed to SetGroup in this case, by tag and template: `getgrp` reads some groups back through
	// `written.Clone()` (documented as "a fresh group with the same tag and template") instead of a newly built reader
	written map[string]*quickfix.RepeatingGroup
	// a copy taken by `fork` and kept aside while the source goes on being edited; `sidebuild` serialises it
	side *quickfix.Message
}

func (c *codecImpl) reset(string) {
	c.m = quickfix.NewMessage()
	c.written = map[string]*quickfix.RepeatingGroup{}
	c.side = nil
}

func grpKey(tag int, tmpl []tItem) string { return fmt.Sprintf("%d/%v", tag, tmpl) }

func (c *codecImpl) sec(s string) *quickfix.FieldMap {
	switch s {
	case "h":
		return &c.m.Header.FieldMap
	case "b":
		return &c.m.Body.FieldMap
	case "t":
		return &c.m.Trailer.FieldMap
	}
	panic("bad section " + s)
}

type rawWriter struct {
	tag quickfix.Tag
	v   []byte
}

func (w rawWriter) Tag() quickfix.Tag { return w.tag }
func (w rawWriter) Write() []byte     { return w.v }

func exactBuf(b []byte) *bytes.Buffer {
	c := make([]byte, len(b)) // len == cap: a read past the end panics instead of reading spare capacity
	copy(c, b)
	return bytes.NewBuffer(c)
}

func sortedTagsOf(fm *quickfix.FieldMap) string {
	var ks []int
	for _, t := range fm.Tags() {
		ks = append(ks, int(t))
	}
	sort.Ints(ks)
	return codecCsvInts(ks)
}

func (c *codecImpl) parseObs(mode string, wire []byte) string {
	t, a := modeDicts(mode)
	msg := quickfix.NewMessage()
	if err := quickfix.ParseMessageWithDataDictionary(msg, exactBuf(wire), t, a); err != nil {
		return "err"
	}
	c.m = msg
	tags, vals, raws := quickfix.VerifMsgFields(msg)
	fs := make([]string, len(tags))
	for i := range tags {
		fs[i] = fmt.Sprintf("%d:%s:%d", tags[i], hx(vals[i]), len(raws[i]))
	}
	return fmt.Sprintf("ok F %s B %s H %s D %s T %s", strings.Join(fs, ","), hx(quickfix.VerifBodyBytes(msg)),
		sortedTagsOf(&msg.Header.FieldMap), sortedTagsOf(&msg.Body.FieldMap), sortedTagsOf(&msg.Trailer.FieldMap))
}

func copyOf(m *quickfix.Message) *quickfix.Message {
	to := quickfix.NewMessage()
	m.CopyInto(to)
	return to
}

func (c *codecImpl) exec(op string) string {
	w := strings.Fields(op)
	return guard(func() string {
		switch w[0] {
		case "new":
			c.m = quickfix.NewMessage()
			c.side = nil
			return "ok"
		case "fork":
			c.side = copyOf(c.m)
			return "ok"
		case "sidebuild":
			if c.side == nil {
				return "none"
			}
			b := c.side.Bytes()
			return "bytes " + hx(b) + " wf:" + yn(wireWF(b))
		case "set":
			c.sec(w[1]).SetBytes(quickfix.Tag(codecMustInt(w[2])), unhx(w[3]))
			return "ok"
		case "sets":
			c.sec(w[1]).SetString(quickfix.Tag(codecMustInt(w[2])), string(unhx(w[3])))
			return "ok"
		case "setf":
			c.sec(w[1]).SetField(quickfix.Tag(codecMustInt(w[2])), quickfix.FIXBytes(unhx(w[3])))
			return "ok"
		case "setw":
			c.sec(w[1]).Set(rawWriter{quickfix.Tag(codecMustInt(w[2])), unhx(w[3])})
			return "ok"
		case "seti":
			c.sec(w[1]).SetInt(quickfix.Tag(codecMustInt(w[2])), codecMustInt(w[3]))
			return "ok"
		case "setb":
			c.sec(w[1]).SetBool(quickfix.Tag(codecMustInt(w[2])), w[3] == "y")
			return "ok"
		case "rm":
			c.sec(w[1]).Remove(quickfix.Tag(codecMustInt(w[2])))
			return "ok"
		case "clear":
			c.sec(w[1]).Clear()
			return "ok"
		case "setgrp":
			p := 2
			gi := parseInst(w, &p)
			rg := gi.build()
			c.sec(w[1]).SetGroup(rg)
			c.written[grpKey(gi.tag, gi.tmpl)] = rg
			return "ok"
		case "copy":
			c.m = copyOf(c.m)
			return "ok"
		case "build", "bytes":
			b := c.m.Bytes()
			return "bytes " + hx(b) + " wf:" + yn(wireWF(b))
		case "copybuild":
			src := append([]byte(nil), c.m.Bytes()...)
			return "bytes " + hx(src) + " " + hx(copyOf(c.m).Bytes())
		case "reparse":
			return c.parseObs(w[1], append([]byte(nil), c.m.Bytes()...))
		case "parse":
			return c.parseObs(w[1], unhx(w[2]))
		case "rebuild":
			return "bytes " + hx(quickfix.VerifBuildWithBodyBytes(c.m, quickfix.VerifBodyBytes(c.m)))
		case "has":
			return yn(c.sec(w[1]).Has(quickfix.Tag(codecMustInt(w[2]))))
		case "get":
			v, err := c.sec(w[1]).GetBytes(quickfix.Tag(codecMustInt(w[2])))
			if err != nil {
				return fmt.Sprintf("err %d", err.RejectReason())
			}
			res := "val " + hx(v)
			// what a caller may do with a slice it was handed: extend it (a key, a log line).  The message it came from
			// — its raw bytes, its other fields — has to stay what it was; later observations of this case tell.
			_ = append(v, "\x01~~=~\x01"...)
			return res
		case "geti":
			v, err := c.sec(w[1]).GetInt(quickfix.Tag(codecMustInt(w[2])))
			if err != nil {
				return fmt.Sprintf("err %d", err.RejectReason())
			}
			return fmt.Sprintf("int %d", v)
		case "tags":
			return "tags " + sortedTagsOf(c.sec(w[1]))
		case "getgrp":
			p := 3
			tag, tmpl := codecMustInt(w[2]), parseTemplate(w, &p)
			if wr, ok := c.written[grpKey(tag, tmpl)]; ok && len(op)%2 == 1 {
				// same observation through a clone of the group that was written (deterministic choice: replays repeat it)
				rg := wr.Clone().(*quickfix.RepeatingGroup)
				if err := c.sec(w[1]).GetGroup(rg); err != nil {
					return fmt.Sprintf("err %d", err.RejectReason())
				}
				return fmt.Sprintf("grp %d", rg.Len()) + obsEntries(rg, tmpl)
			}
			return obsGroup(c.sec(w[1]), tag, tmpl)
		case "ddef":
			// the dictionary content is an input of the model; here it is checked against the loaded dictionary
			var want string
			if w[1] == "t" {
				want = ddefT(w[2])
			} else {
				want = ddefA(w[2], unhx(w[3]))
			}
			if strings.Join(w, " ") != want {
				return "mismatch"
			}
			return "ok"
		case "static":
			var h, t []int
			for i := -5; i <= 6000; i++ {
				if quickfix.Tag(i).IsHeader() {
					h = append(h, i)
				}
				if quickfix.Tag(i).IsTrailer() {
					t = append(t, i)
				}
			}
			return "hdr " + codecCsvInts(h) + " trl " + codecCsvInts(t)
		}
		panic("bad op " + op)
	})
}

func init() {
	families["codec"] = &family{newImpl: func() impl { return &codecImpl{} }, gen: genCodec}
}
