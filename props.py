"""
per-property registry used by ./check — one fragment per property in props.d/Cnn.py, each doing PROPS["Cnn"] = {...}:
  families   : harness/driver family -> case budget per tier  ({"quick": n, "thorough": n})
  claim/note : texts for MANIFEST.json (what is a theorem, what is partial / trusted base)
  project    : (op, line) -> what this property compares between implementation and model (default: whole line)
  relevant   : op -> bool, which ops belong to this property (default: all)
  mon_clauses: prefixes of monitor clauses owned by this property (default: all)
  independent_ops : every op is its own case (no shrinking needed)
  rule, assumptions, trusted : texts for the evidence file
"""
import glob, os
PROPS = {}
for _f in sorted(glob.glob(os.path.join(os.path.dirname(os.path.abspath(__file__)), "props.d", "C*.py"))):
    exec(compile(open(_f).read(), _f, "exec"), {"PROPS": PROPS})
