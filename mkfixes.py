#!/usr/bin/env python3
# regenerates the fix table of DESIGN §13.3 (between FIXES markers) from known_findings.json and /repo's log
import json,subprocess
k=json.load(open('known_findings.json'))
rows={}
for f in k['fixed']:
    c=f['commit']; rows.setdefault(c,{'props':[], 'what':f['what']})
    if f['property'] not in rows[c]['props']: rows[c]['props'].append(f['property'])
order=[l.split()[0] for l in subprocess.check_output(['git','-C','/repo','log','--oneline','--reverse']).decode().splitlines()]
lines=["| commit | property | what |","|---|---|---|"]
for c in order:
    if c in rows:
        w=rows[c]['what'].replace('|','/')
        if len(w)>230: w=w[:227]+'…'
        lines.append(f"| {c} | {' '.join(rows[c]['props'])} | {w} |")
missing=[c for c in rows if c not in order]
if missing: print("WARNING: fixed entries with unknown commits:",missing)
d=open('DESIGN.md').read()
a="<!-- FIXES:BEGIN -->"; b="<!-- FIXES:END -->"
d=d[:d.index(a)+len(a)]+"\n"+"\n".join(lines)+"\n"+d[d.index(b):]
open('DESIGN.md','w').write(d)
print(len(lines)-2,"fix commits listed")
