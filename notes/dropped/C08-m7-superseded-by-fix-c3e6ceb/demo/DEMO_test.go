package quickfix

import (
	"bytes"
	"strings"
	"testing"
	"time"

	"github.com/quickfixgo/quickfix/internal"
)

// demoRecorder records the order of the application callbacks.
type demoRecorder struct{ events []string }

func (r *demoRecorder) OnCreate(SessionID)          {}
func (r *demoRecorder) OnLogon(SessionID)           { r.events = append(r.events, "OnLogon") }
func (r *demoRecorder) OnLogout(SessionID)          { r.events = append(r.events, "OnLogout") }
func (r *demoRecorder) ToAdmin(*Message, SessionID) {}
func (r *demoRecorder) ToApp(*Message, SessionID) error {
	return nil
}
func (r *demoRecorder) FromAdmin(m *Message, _ SessionID) MessageRejectError {
	t, _ := m.Header.GetString(tagMsgType)
	r.events = append(r.events, "FromAdmin("+t+")")
	return nil
}
func (r *demoRecorder) FromApp(m *Message, _ SessionID) MessageRejectError {
	n, _ := m.Header.GetInt(tagMsgSeqNum)
	r.events = append(r.events, "FromApp("+string(rune('0'+n))+")")
	return nil
}

// demoRun puts the session in the state "our Logout is out, waiting for the peer's answer" on a connection
// whose inbound channel has the default capacity 1, lets the reader goroutine (readLoop) block on the
// second message of a burst, and then fires the LogoutTimeout.
func demoRun(t *testing.T, second func(f *MessageFactory) *Message) []string {
	var rig SessionSuiteRig
	rig.Init()
	rec := &demoRecorder{}
	rig.session.application = rec
	rig.session.State = logoutState{}

	in := make(chan fixIn, 1) // InChanCapacity default
	rig.session.messageIn = in

	first := rig.NewOrderSingle() // MsgSeqNum 1
	next := second(&rig.MessageFactory)
	go func() { // what readLoop does with a burst of two frames
		in <- fixIn{bytes.NewBuffer(first.build()), time.Now()}
		in <- fixIn{bytes.NewBuffer(next.build()), time.Now()} // blocks: the buffer is full
	}()
	for len(in) < 1 {
		time.Sleep(time.Millisecond)
	}
	time.Sleep(50 * time.Millisecond) // the reader is now parked on the second send

	rig.session.Timeout(rig.session, internal.LogoutTimeout)

	if _, ok := rig.session.State.(latentState); !ok {
		t.Fatalf("expected latent state, got %v", rig.session.State)
	}
	return rec.events
}

func TestDemoNothingDeliveredAfterLogoutNotification(t *testing.T) {
	events := demoRun(t, func(f *MessageFactory) *Message { return f.NewOrderSingle() })
	t.Logf("callbacks: %s", strings.Join(events, " "))

	seenLogout := false
	for _, e := range events {
		if e == "OnLogout" {
			seenLogout = true
		} else if seenLogout && strings.HasPrefix(e, "FromApp") {
			t.Fatalf("application message delivered after the logout notification: %v", events)
		}
	}
	if !seenLogout {
		t.Fatalf("no logout notification: %v", events)
	}
}

func TestDemoExactlyOneLogoutNotification(t *testing.T) {
	events := demoRun(t, func(f *MessageFactory) *Message { return f.Logout() })
	t.Logf("callbacks: %s", strings.Join(events, " "))

	n := 0
	for _, e := range events {
		if e == "OnLogout" {
			n++
		}
	}
	if n != 1 {
		t.Fatalf("%d logout notifications for one connection: %v", n, events)
	}
}
