"""projections of sess-family observation lines: what each session property compares between implementation and model"""

def parse(line):
    if line == "panic" or " ; " not in line:
        return None
    parts = line.split(" ; ")
    head = parts[0].split(" | ")
    status, items = head[0].strip(), [x.strip() for x in head[1:]]
    after = {}
    for p in parts[1:]:
        w = p.split()
        after[w[0]] = w[1:]
    return status, items, after

def wire_kind(it):
    w = it.split()
    return w[1][3:] if len(w) > 1 and w[0] == "w" else None

def make(items_pred, after_keys, st_full=False):
    def proj(op, line):
        p = parse(line)
        if p is None:
            return line
        status, items, after = p
        keep = [i for i in items if items_pred(i)]
        a = []
        for k in after_keys:
            v = after.get(k, [])
            if k == "st" and not st_full:
                v = v[:1]
            if k == "ctrS":
                v = after.get("ctr", ["", ""])[:1]
            if k == "ctrT":
                v = after.get("ctr", ["", ""])[1:2]
            a.append(k + "=" + ",".join(v))
        return status + " | " + " | ".join(keep) + " ; " + " ".join(a)
    return proj

def is_cb(i, *names):
    w = i.split()
    return w[0] == "cb" and (not names or w[1] in names)

def is_store(i, *names):
    w = i.split()
    return w[0] == "store" and (not names or w[1] in names)

def is_wire(i, *kinds):
    k = wire_kind(i)
    return k is not None and (not kinds or k in kinds)

PROJ = {
    "C01": make(lambda i: is_cb(i, "fromApp") or is_store(i, "incT", "setT", "reset"), ["ctrT", "st"]),
    "C03": make(lambda i: is_wire(i), ["ctrS"]),
    "C04": make(lambda i: is_wire(i, "2") or is_cb(i, "fromApp", "fromAdmin"), ["ctrT", "st"], st_full=True),
    "C06": make(lambda i: is_cb(i) or is_wire(i, "3", "j", "5"), ["ctrT"]),
    "C07": make(lambda i: is_store(i) or is_wire(i, "A"), ["ctr"]),
    "C08": make(lambda i: is_cb(i, "onLogon", "onLogout", "fromApp") or is_wire(i) or i == "closed", ["st"]),
    "C20": make(lambda i: is_wire(i, "0", "1") or i.startswith("arm peer") or is_cb(i, "onLogout") or i == "closed", ["st"]),
}

# C08 compares only kind / PossDup of wire writes
_c08 = PROJ["C08"]
def _c08proj(op, line):
    out = _c08(op, line)
    parts = out.split(" | ")
    res = []
    for p in parts:
        if p.startswith("w 35="):
            w = p.split()
            res.append(" ".join([w[0], w[1]] + [x for x in w[2:] if x.startswith("43=")]))
        else:
            res.append(p)
    return " | ".join(res)
PROJ["C08"] = _c08proj
