#!/usr/bin/env python3
# regenerates the table between the STATUS markers of DESIGN.md from lean/Qfx/Props/*.lean and evidence/*.json
import re,json,os,glob
rows=["| id | theorems (kernel-checked) | statements kept as `def … : Prop` (not proved) | families run for the tie | quick wall s |","|---|---|---|---|---|"]
import importlib.util,sys
sys.path.insert(0,os.path.dirname(os.path.abspath(__file__)))
from props import PROPS
for i in range(1,21):
    pid=f"C{i:02d}"
    src=open(f"lean/Qfx/Props/{pid}.lean").read()
    src=re.sub(r'/-.*?-/','',src,flags=re.S)
    thms=re.findall(r'^theorem\s+(\S+)',src,flags=re.M)
    tf=f"lean/Qfx/Props/Ties/{pid}.lean"
    gen=re.findall(r'^theorem\s+('+pid+r'_gen_\S+)',open(tf).read(),flags=re.M) if os.path.exists(tf) else []
    fulls=re.findall(r'^def\s+(\S+_full)\b',src,flags=re.M)
    main=[t for t in thms if t.startswith(pid+"_")]
    ev={}
    try: ev=json.load(open(f"evidence/{pid}.json"))
    except Exception: pass
    fams=", ".join(PROPS[pid]["families"].keys())
    show=", ".join(f"`{t}`" for t in main[:60])
    if gen: show+=f" + {len(gen)} regenerated-fact obligations"
    rows.append(f"| {pid} | {len(main)} ({len(thms)+len(gen)} with helpers and fact obligations): {show} | {', '.join('`'+f+'`' for f in fulls) or '—'} | {fams} | {ev.get('wall_s','?')} |")
d=open("DESIGN.md").read()
a="<!-- STATUS:BEGIN -->"; b="<!-- STATUS:END -->"
if a in d:
    d=d[:d.index(a)+len(a)]+"\n"+"\n".join(rows)+"\n"+d[d.index(b):]
    open("DESIGN.md","w").write(d)
print("\n".join(r[:160] for r in rows))
