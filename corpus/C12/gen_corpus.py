#!/usr/bin/env python3
"""writes frame.ops: hand-made regression cases for the frame family (run first by ./check C12)."""
SOH = b"\x01"
def msg(body, begin=b"FIX.4.2", lentext=None):
    assert body.endswith(SOH)
    lt = str(len(body)).encode() if lentext is None else lentext
    head = b"8=" + begin + SOH + b"9=" + lt + SOH + body
    return head + b"10=%03d" % (sum(head) % 256) + SOH
def hx(b): return b.hex() if b else "-"
cases = []
def case(label, first, parts_ops):
    cases.append((label, first, parts_ops))
def stream(b): return "stream " + hx(b)
def parts(*toks): return "parts " + " ".join(("m" if k == "m" else "j") + hx(b) for k, b in toks)
std = ["cuts 1x%d n", "cuts 1x%d y", "cuts 2x%d n io", "cuts 3x%d y io", "cuts 7x%d n", "loop 5x%d n", "loop 4x%d y io"]
def stdops(n): return [o % (n + 1) for o in std]

hb = msg(b"35=0" + SOH)
# the defect fixed by "fix: jumpLength rejects a BodyLength whose end offset overflows int"
for lt in [b"9223372036854775807", b"9223372036854775806", b"9223372036854775790", b"9223372036854775789"]:
    s = b"8=FIX.4.2" + SOH + b"9=" + lt + SOH + b"35=0" + SOH + b"10=000" + SOH + hb
    case("overflow-" + lt.decode(), stream(s), stdops(len(s)))
# wrap-around lengths (>= 2^64) and other bad lengths
for lt in [b"18446744073709551621", b"18446744073709551616", b"", b"-", b"-5", b"0", b"+5", b"5x", b"99999999"]:
    s = b"zz" + msg(b"35=0" + SOH, lentext=lt) + hb
    case("len-" + (lt.decode() or "empty"), stream(s), stdops(len(s)))
# tiny streams
for s in [b"", b"8", b"8=", b"8=\x01", b"8=\x019=", b"8=\x019=1", b"8=\x019=1\x01", b"8=\x019=1\x01\x01", b"8=\x019=1\x01\x0110=", b"8=\x019=1\x01\x0110=\x01", b"\x0110=\x01", b"88=", b"8=8=8="]:
    case("tiny", stream(s), ["cuts 1x%d n" % (len(s) + 1), "cuts 1x%d y" % (len(s) + 1), "cuts 0,1,0,0,1,0x3,1x%d y" % (len(s) + 1), "loop 1x%d n" % (len(s) + 1)])
# separators ending in '8', containing SOH 10= and 9=, junk only
j1, j2, j3 = b"\r\n8", b"\x0110=123\x019=4\x01=8", b"8"
case("junk-ending-in-8", parts(("j", j1), ("m", hb), ("j", j2), ("m", hb), ("m", hb), ("j", j3)), stdops(len(j1 + j2 + j3) + 3 * len(hb)))
case("junk-only", parts(("j", b"no marker here 8 = 8\x01=")), stdops(23))
case("two-junk-tokens-form-a-marker", stream(b"abc8" + b"=def" + hb), stdops(30))
# bodies containing the markers
body = b"58=8=FIX\x019=3\x0110=000\x01" + b"96=\x0110=\x01" + SOH
m2 = msg(body)
case("markers-in-body", parts(("m", m2), ("m", hb)), stdops(len(m2) + len(hb)))
# the trailer straddling the first buffer boundary (4096) and the grown one (8192): every alignment
for target in (4096, 8192, 16384):
    for shift in range(-5, 3):
        # choose body length so that SOH of "SOH10=" sits at stream offset target+shift
        pre = len(b"8=FIX.4.2" + SOH + b"9=")
        bl = target + shift - pre - 5  # 4 digits + SOH; refined below
        for _ in range(3):
            head = pre + len(str(bl)) + 1
            bl = target + shift - head + 1
        m = msg(b"A" * (bl - 1) + SOH)
        assert m.index(b"\x0110=", head) == target + shift, (m.index(b"\x0110="), target, shift)
        s = m + hb
        n = len(s)
        case("trailer-at-%d%+d" % (target, shift), parts(("m", m), ("m", hb)),
             ["cuts %dx%d n" % (target, 5), "cuts %d,1x40 y" % (target + shift - 3), "cuts 4096x%d n" % (n // 4096 + 1), "cuts 4095x%d n" % (n // 4095 + 1),
              "cuts 4097x%d y" % (n // 4097 + 1), "cuts 1000x%d n" % (n // 1000 + 1), "cuts 13x%d n" % (n // 13 + 1), "loop 4096x%d y" % (n // 4096 + 1)])
# a long run of junk (several buffers) before a message; many small messages (buffer shifts)
junk = (b"0123456789abcdef" * 1000)
case("long-junk", parts(("j", junk), ("m", hb), ("j", junk[:5000])), ["cuts 4096x6 n", "cuts 1x100,4000x6 y", "cuts 17x1300 n", "loop 999x30 n"])
many = [("m", msg(b"35=0\x0134=%d\x01" % i)) for i in range(400)]
tot = sum(len(b) for _, b in many)
case("many-small", parts(*many), ["cuts 4096x%d n" % (tot // 4096 + 1), "cuts 100x%d y" % (tot // 100 + 1), "cuts 31x%d n" % (tot // 31 + 1), "loop 4097x%d n" % (tot // 4097 + 1)])

# frames that end exactly at the end of bigBuffer (window empty with zero capacity => shift of an empty window)
for target in (4096, 8192):
    ms = [msg(b"35=0\x0158=" + b"x" * 100 + SOH) for _ in range(target // 200)]
    used = sum(len(m) for m in ms)
    rest = target - used
    # last message of exactly `rest` bytes
    bl = rest - len(msg(b"A" + SOH)) + 2
    for _ in range(3):
        last = msg(b"A" * (bl - 1) + SOH)
        bl += rest - len(last)
    last = msg(b"A" * (bl - 1) + SOH)
    assert used + len(last) == target, (used, len(last), target)
    toks = [("m", m) for m in ms] + [("m", last), ("m", hb), ("j", b"tail")]
    case("frames-fill-%d-exactly" % target, parts(*toks), ["cuts %dx3 n" % target, "cuts %d,1x50 y" % target, "cuts 4096x4 n", "cuts 1x%d n" % (target + 60), "loop %dx3 y" % target])

# exact boundary of the overflow guard: offset of the SOH after the digits is 31 here; 31 + n = MaxInt64 is still fine (reads to EOF)
off = len(b"8=FIX.4.2" + SOH + b"9=") + 19
for n in (2**63 - 1 - off - 1, 2**63 - 1 - off, 2**63 - off, 2**63 - off + 1):
    s = b"8=FIX.4.2" + SOH + b"9=" + str(n).encode() + SOH + b"35=0" + SOH + b"10=000" + SOH + hb
    assert len(str(n)) == 19
    case("overflow-boundary-%d" % n, stream(s), stdops(len(s)))

with open(__file__.rsplit("/", 1)[0] + "/frame.ops", "w") as f:
    for i, (label, first, ops) in enumerate(cases, 1):
        f.write("# case %d %s\n%s\n" % (i, label, first))
        for o in ops:
            f.write(o + "\n")
print(len(cases), "cases")
