import Qfx.Model.Bytes
import Qfx.Model.Values
import Qfx.Model.TimeRange
