/-
  families `sock` / `sockj` (C05 / C09 through the REAL socket layer: quickfix.NewAcceptor + quickfix.NewInitiator, a TCP
  proxy of the harness between them, raw hostile connections next to them — harness/fam_sock.go).

  The goroutine scheduler and TCP timing are real, so the model does NOT predict the interleaving of a round.  It predicts
  only what the theorems give for EVERY schedule of the two-engine model (`C05_safety`: delivered is a prefix of submitted
  in both directions, whatever the fault history) and what C09 claims for every input (no panic): the verdict `ok`.
  Whether the observed round satisfies it is decided by the monitor (`Drv/SockMon.lean`, the clauses of `Qfx.Spec.Link`).
  This layer is SAMPLED: it ties acceptor.go / initiator.go / connection.go / the run loop to the theorems only through
  the monitor.  The driver checks that the op line is one the harness understands (`bad-op` otherwise).
-/
import Qfx.Drv.Util
import Qfx.Drv.Conc
namespace Qfx.Drv

def isHexStr (s : String) : Bool :=
  s == "-" || (s.length % 2 == 0 && s.toList.all (fun c => c.isDigit || (c.toNat ≥ 97 && c.toNat ≤ 102)))

def sockNumTok (pre t : String) : Bool :=
  t.startsWith pre && ((t.drop pre.length).toString.toNat?).isSome

def sockItemOk (it : String) : Bool :=
  (it.startsWith "m" || it.startsWith "r") && isHexStr (it.drop 1).toString

def sockEvOk (t : String) : Bool :=
  ["up", "cut", "hold", "holdAB", "holdBA", "rel", "down", "open", "rsA", "rsB", "cutpdAB", "cutpdBA"].contains t
  || sockNumTok "sA" t || sockNumTok "sB" t || sockNumTok "cA" t || sockNumTok "cB" t || sockNumTok "p" t || sockNumTok "w" t
  || (t.startsWith "jraw:" && isHexStr (t.drop 5).toString)
  || (t.startsWith "jmsg:" && isHexStr (t.drop 5).toString)
  || (t.startsWith "jses:" && ((t.drop 5).toString.splitOn "+").all sockItemOk)

def sockEvents (kv : List (String × String)) : Option (List String) :=
  match kv.lookup "ev" with
  | some "-" => some []
  | some ev => some (ev.splitOn ",")
  | none => none

def sockOpOk (kv : List (String × String)) : Bool :=
  ["id", "bs", "ca", "cb", "hb", "ri", "split", "quiet", "wait", "probe", "dyn", "val"].all (fun k => (kvNat? kv k).isSome)
  && (match kv.lookup "store" with | some s => s == "mem" || s == "file" | none => false)
  && (match kv.lookup "start" with | some s => s == "open" || s == "down" | none => false)
  && (match kv.lookup "stop" with | some s => s == "ia" || s == "ai" | none => false)
  && (match sockEvents kv with | some evs => evs.all sockEvOk | none => false)

/-- id lists of the observation: comma separated, a run of consecutive ids written `a1..a3000` -/
def sockIdNum? (s : String) : Option (String × Nat) :=
  match s.toList with
  | c :: rest => if rest.isEmpty then none else (String.ofList rest).toNat?.map (fun n => (String.singleton c, n))
  | [] => none

def sockIds (s : String) : List String :=
  if s == "-" then [] else
  (s.splitOn ",").flatMap fun part =>
    match part.splitOn ".." with
    | [a, b] =>
      (match sockIdNum? a, sockIdNum? b with
       | some (pa, na), some (pb, nb) =>
         if pa == pb && na ≤ nb then (List.range (nb + 1 - na)).map (fun i => pa ++ toString (na + i)) else [part]
       | _, _ => [part])
    | _ => [part]

def sockStep (_ : Unit) (w : List String) : Unit × String :=
  match w with
  | "round" :: rest => ((), if sockOpOk (kvOf rest) then "ok" else "bad-op")
  | _ => ((), "bad-op")

def sockFamily : Family := { σ := Unit, init := (), step := sockStep }
end Qfx.Drv
