import Qfx.Drv.Util
import Qfx.Model.TimeRange
namespace Qfx.Drv
open Qfx.TR

def schedStep (r : Range) (w : List String) : Range × String :=
  match w with
  | ["range", s, e, wd, sd, ed] =>
      (match s.toInt?, e.toInt?, csvInts? wd, optInt? sd, optInt? ed with
      | some s, some e, some wd, some sd, some ed =>
          ({ startS := s, endS := e, weekdays := wd, startDay := sd, endDay := ed }, "ok")
      | _, _, _, _, _ => (r, "bad-op"))
  | ["at", t] => (match t.toInt? with
      | some t => (r, "in " ++ yn (r.isInRange t))
      | none => (r, "bad-op"))
  | ["pair", a, b] => (match a.toInt?, b.toInt? with
      | some a, some b => (r, "same " ++ yn (r.isInSameRange a b))
      | _, _ => (r, "bad-op"))
  | _ => (r, "bad-op")

def schedFamily : Family :=
  { σ := Range, init := { startS := 0, endS := 0, weekdays := [], startDay := none, endDay := none },
    step := schedStep }
end Qfx.Drv
