/-
  family `conc` (C02 stress rounds): what the model predicts for a round WITHOUT knowing the schedule.
  By `C02_all_schedules` / `C02_final_store` the numbers handed out are 1, 2, 3, … whatever the interleaving, so the
  store's final next outbound number is one past the number of first-time messages of the round:
  Logon reply + accepted application sends + one Heartbeat per TestRequest + the Logout reply; with persistence the
  store holds exactly those numbers.  (When application sends race with a Logon-triggered reset the count of the last
  epoch depends on the schedule: the check's projection does not compare those rounds.)
-/
import Qfx.Drv.Util
namespace Qfx.Drv

def kvOf (w : List String) : List (String × String) :=
  w.filterMap fun x => match x.splitOn "=" with
    | [k, v] => some (k, v)
    | _ => none

def kvNat? (kv : List (String × String)) (k : String) : Option Nat := (kv.lookup k).bind (·.toNat?)

/-- the places of package quickfix that mutate the outbound side of the message store directly, as the lock-level model
    knows them: `dropAndReset` and `prepMessageForSend` (`storeReset`, inside sendMutex), `persist` (`persistIncr` /
    `incrOnly`, inside sendMutex), and the administrative API `SetNextSenderMsgSeqNum` (outside the model: not to be used
    while the session sends) -/
def concStoreMutators : List String :=
  ["SetNextSenderMsgSeqNum:SetNextSenderMsgSeqNum", "dropAndReset:Reset", "persist:IncrNextSenderMsgSeqNum",
   "persist:SaveMessageAndIncrNextSenderMsgSeqNum", "prepMessageForSend:Reset"]

def concStep (_ : Unit) (w : List String) : Unit × String :=
  match w with
  | ["srcfacts"] => ((), joinSp ("facts" :: concStoreMutators))
  | "round" :: rest =>
    let kv := kvOf rest
    match kvNat? kv "senders", kvNat? kv "per", kvNat? kv "tr", kvNat? kv "persist" with
    | some s, some p, some tr, some persist =>
      let ini := (kvNat? kv "init").getD 0
      let reset := (kvNat? kv "reset").getD 0
      -- an initiator round has one more TestRequest (the peer's "are you logged on" probe); when the peer's Logon
      -- reply resets an initiator (reset=1), the initiator's own Logon belongs to the previous epoch
      let logon := if ini == 1 && reset == 1 then 0 else 1
      let firstTime := logon + s * p + tr + ini + 1
      let sender := firstTime + 1
      let stored := if persist == 1 then s!"1-{firstTime}" else "-"
      ((), s!"ok {sender} {stored} {s * p}")
    | _, _, _, _ => ((), "bad-op")
  | _ => ((), "bad-op")

def concFamily : Family := { σ := Unit, init := (), step := concStep }
end Qfx.Drv
