import Qfx.Drv.Sess
import Qfx.Drv.ValMon
import Qfx.Drv.ValidMon
import Qfx.Spec.Session
namespace Qfx.Drv
open Qfx.Sess Qfx.SessSpec

def parseItem? (s : String) : Option Item :=
  match words s with
  | "w" :: k :: sq :: rest =>
    if k.startsWith "35=" && sq.startsWith "34=" then
      (parseFields? rest).map fun f => Item.wire (k.drop 3).toString (sq.drop 3).toString f
    else none
  | ["cb", "fromApp", seq, t] => if t.startsWith "T=" then ((t.drop 2).toString.toInt?).map (Item.fromApp seq) else none
  | ["cb", "fromAdmin", k, seq] => some (.fromAdmin k seq)
  | ["cb", "fromAdmin", k] => some (.fromAdmin k "")            -- (`34=` with an empty value, shown to the callback when
  | ["cb", "fromApp", t] =>                                      --  ValidateFieldsHaveValues=N lets it through)
    if t.startsWith "T=" then ((t.drop 2).toString.toInt?).map (Item.fromApp "") else none
  | ["cb", "onLogon"] => some .onLogon
  | ["cb", "onLogout"] => some .onLogout
  | ["arm", "peer", ms] => ms.toInt?.map Item.armPeer
  | ["closed"] => some .closed
  | "store" :: w => some (.store w)
  | _ => none

def csvIntList? (s : String) : Option (List Int) :=
  if s == "-" then some [] else (s.splitOn ",").mapM (·.toInt?)

def parseAfter? (status : String) (parts : List String) : Option After := do
  -- parts: "ctr S T", "st Name [stash ks cur fin]", "q n", "ib n", "stopped b"
  match parts.map words with
  | [["ctr", sS, sT], stw, ["q", q], ["ib", ib], ["stopped", sp]] =>
    let S ← sS.toInt?
    let T ← sT.toInt?
    let (name, stash, cur, fin) ← match stw with
      | ["st", n] => some (n, ([] : List Int), (0 : Int), (0 : Int))
      | ["st", n, "stash", ks, c, f] => do pure (n, ← csvIntList? ks, ← c.toInt?, ← f.toInt?)
      | _ => none
    pure { status := status, S := S, T := T, st := name, stash := stash, cur := cur, fin := fin,
           q := ← q.toNat?, ib := ← ib.toNat?, stopped := sp == "1" }
  | _ => none

def parseObsLine? (obs : List String) : Option (List Item × After) :=
  match obs with
  | ["panic"] => some ([], { status := "panic" })
  | _ =>
    let line := joinSp obs
    match line.splitOn " ; " with
    | first :: rest =>
      (match first.splitOn " | " with
       | status :: items => do
         let its ← items.mapM parseItem?
         let a ← parseAfter? (joinSp (words status)) rest
         pure (its, a)
       | [] => none)
    | [] => none

/-- the monitor does not look into the dictionaries (the validator spec it evaluates is C15's declarative one, on what the
    generator planted): a configured dictionary is represented by an empty one -/
def monDict : Validate.VDict := { msg? := fun _ => none, header := none, trailer := none, ftype := fun _ => none }

/-- `!<kind>,<tag>` (kinds as in family `valid`; `-` for no tag) -/
def parsePlant? (tok : String) : SessSpec.Plant :=
  if !tok.startsWith "!" then none else
  match ((tok.drop 1).toString.splitOn ",") with
  | [k, t] => (parseKind k "top").map fun kk => (kk, (t.toNat?).getD 0)
  | _ => none

def plantOfToks (toks : List String) : SessSpec.Plant :=
  match toks with
  | t :: _ => parsePlant? t
  | [] => none

def parseOp? (w : List String) : Option Op :=
  match w with
  | "cfg" :: rest => (parseCfg? (fun _ => some monDict) rest).map fun (c, s0, t0) => Op.cfg c s0 t0
  | ["connect"] => some .connect
  | ["in", "garbage"] => some .garbage
  | "in" :: rest => (parseFields? (dropPlant rest)).map fun f => Op.msgIn { f := f }
  | "arrive" :: rest => (parseFields? (dropPlant rest)).map fun f => Op.arrive { f := f }
  | ["pop"] => some .pop
  | ["timeout", e] => (timerOf? e).map Op.timeout
  | ["disc"] => some .disc
  | ["stop"] => some .stop
  | "send" :: rest => (parseFields? rest).map fun f => Op.send (f.filter (·.1 != 35))
  | ["flush"] => some .flush
  | ["stime", x] => some (.stime x)
  | ["rtime", n] => (rtimeOf? n).map Op.rtime
  | _ => none

def sessMonStep (ms : M) (w : List String) : M × String :=
  let (opw, obs) := splitObs w
  match opw with
  | "ddict" :: _ => (ms, if obs == ["loaded"] then "ok" else "bad dictionary_not_loaded")
  | _ =>
  match parseOp? opw, parseObsLine? obs with
  | some op, some (items, after) =>
    let (ms', bad) := monitorStep ms { op := op, items := items, after := after, plant := plantOfToks (opw.drop 1) }
    (ms', verdict bad)
  | none, _ => (ms, "bad-op")
  | _, none => (ms, "bad unparsed_observation")

def sessMonFamily : Family := { σ := M, init := {}, step := sessMonStep }
end Qfx.Drv
