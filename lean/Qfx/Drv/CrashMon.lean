/- family `crash-mon`: the C17 recovery monitor (Qfx.Spec.Store.monRecovered) on the implementation's observations -/
import Qfx.Drv.Util
import Qfx.Drv.ValMon
import Qfx.Drv.Store
import Qfx.Drv.StoreMon
import Qfx.Spec.Store
namespace Qfx.Drv
open Qfx Qfx.Store Qfx.Spec.Store

structure CrSess where
  kind : String := ""
  pre : AStore := {}                  -- abstract store before the last operation
  post : AStore := {}                 -- … after it (had it completed)
  inflight : Option (Nat × Bytes) := none
  savedPre : List (Nat × Bytes) := [] -- (number, bytes) handed to a save in this epoch, before / after the last op
  savedPost : List (Nat × Bytes) := []
  hiPre : Option Nat := none
  hiPost : Option Nat := none
  inHyp : Bool := true
  inHypPre : Bool := true             -- … of the state before the last operation
  resumed : Option String := none     -- window of the crash this store was recovered from
  dead : Bool := false                -- recovered from a power loss of a store without syncing: outside C17
  tainted : Bool := false             -- that image already violated a clause (reported there) or was cut inside a write
  deriving Inhabited

abbrev CrMon := List (String × CrSess)

/-- `CLS N hex*N rest…` -/
def parseIter : List String → Option (String × List Bytes × List String)
  | cls :: n :: rest => do
      let n ← n.toNat?
      if rest.length < n then none else
      let ms ← (rest.take n).mapM fromHex
      pure (cls, ms, rest.drop n)
  | _ => none

partial def parseQs : List String → Option (List (Nat × String × List Bytes))
  | [] => some []
  | "q" :: n :: rest => do
      let n ← n.toNat?
      let (cls, ms, rest') ← parseIter rest
      let tl ← parseQs rest'
      pure ((n, cls, ms) :: tl)
  | _ => none

/-- `rec ok at P C K c S T all CLS N hex* (q n CLS N hex*)*` -/
def parseRec (mode : String) : List String → Option RecObs
  | ["rec", "err", "at", p, c, k] => some ⟨false, p, c, k, mode, 0, 0, "err", [], []⟩
  | "rec" :: "ok" :: "at" :: p :: c :: k :: "c" :: s :: t :: "all" :: rest => do
      let s ← s.toInt?
      let t ← t.toInt?
      let (cls, ms, rest') ← parseIter rest
      let qs ← parseQs rest'
      pure ⟨true, p, c, k, mode, s, t, cls, ms, qs⟩
  | _ => none

def withCtx (ctx : String) (l : List String) : List String := l.map (· ++ ctx)

def savedOf : Op → List (Nat × Bytes)
  | .save n m => [(n, m)]
  | .saveIncr n m => [(n, m)]
  | _ => []

def crashMonStep (w : CrMon) (ws : List String) : CrMon × String :=
  let (opw, obsw) := splitObs ws
  if obsw == ["panic"] then (w, "bad panic") else
  match opw with
  | ["open", kind, sid] =>
      (match parseStoreObs obsw with
      | some (got, _) => (alSet w sid { kind := kind }, verdict (monOpen got))
      | none => (w, "bad-op"))
  | ["crash", sid, _, _, mode, _] =>
      (match w.lookup sid, parseRec mode obsw with
      | some cs, some r =>
        if cs.dead then (w, "ok") else
        if cs.tainted then (w, "ok")   -- already reported at the crash this store was recovered from
        else if !cs.inHyp ∨ !cs.inHypPre then (w, "ok")
        else if cs.kind = "filens" ∧ mode = "power" then (w, "ok")   -- C17 is about the store with syncing enabled
        else (w, verdict (withCtx r.window (monRecovered cs.pre cs.post cs.inflight (cs.savedPre ++ cs.savedPost) r)))
      | _, _ => (w, "bad-op"))
  | ["crashresume", sid, _, _, mode] =>
      (match w.lookup sid, parseStoreObs obsw with
      | some cs, some (got, rest) =>
        -- rest = f hdr body snd tgt sess at P C K all CLS N hex*
        (match rest.dropWhile (· ≠ "at") with
        | "at" :: p :: c :: k :: "all" :: it =>
          (match parseIter it with
          | some (cls, ms, _) =>
            let r : RecObs := ⟨got.ok, p, c, k, mode, got.sender, got.target, cls, ms, []⟩
            let bad := if cs.dead ∨ cs.tainted ∨ !cs.inHyp ∨ !cs.inHypPre ∨ (cs.kind = "filens" ∧ mode = "power") then [] else monRecovered cs.pre cs.post cs.inflight (cs.savedPre ++ cs.savedPost) r
            let usePost := decide (ms = values cs.post.msgs)
            let base := if usePost then cs.post else cs.pre
            let spec : AStore := { base with sender := got.sender.toNat, target := got.target.toNat }
            let saved := if usePost then cs.savedPost else cs.savedPre
            let cs' : CrSess := { cs with pre := spec, post := spec, inflight := none, savedPre := saved, savedPost := saved,
                                          hiPre := (if usePost then cs.hiPost else cs.hiPre), hiPost := (if usePost then cs.hiPost else cs.hiPre),
                                          resumed := (if cs.tainted then cs.resumed else some r.windowInner),   -- a tainted store stays attributed to the crash that tainted it
                                          inHyp := (if usePost then cs.inHyp else (cs.inHypPre && decide (ms = values cs.pre.msgs))),   -- the hypothesis status of the state adopted
                                          inHypPre := (if usePost then cs.inHyp else (cs.inHypPre && decide (ms = values cs.pre.msgs))),
                                          dead := cs.dead || (cs.kind == "filens" && mode == "power"),
                                          tainted := cs.tainted || bad.any (· ≠ "counter_neither_before_nor_after") || (cs.kind == "filens" && mode == "power") }
            (alSet w sid cs', verdict (withCtx r.window bad))
          | none => (w, "bad-op"))
        | _ => if got.ok then (w, "bad-op") else (w, "bad reopen_fails{phase=resume}"))
      | _, _ => (w, "bad-op"))
  | "sqlfail" :: sid :: _ :: rest =>
      (match w.lookup sid, parseStoreOp rest, parseStoreObs obsw with
      | some cs, some (_, o), some (got, _) =>
        if got.ok then
          let cs' : CrSess := { cs with pre := cs.post, post := (cs.post.step o).1 }
          (alSet w sid cs', verdict (withCtx "{phase=sql}" (monOp cs.post o got)))
        else
          -- the failed operation must leave nothing behind: the abstract store is unchanged
          let bad := if got.sender ≠ cs.post.sender ∨ got.target ≠ cs.post.target then ["sql_failure_left_increment{op=" ++ opName o ++ "}"] else []
          (w, verdict bad)
      | _, _, _ => (w, "bad-op"))
  | _ =>
    match parseStoreOp opw, parseStoreObs obsw with
    | some (sid, o), some (got, _) =>
      (match w.lookup sid with
      | none => (w, "bad-op")
      | some cs =>
        let inHyp := (cs.inHyp && ascendingOk cs.hiPost o) || o = .reset
        let savedNow := if o = .reset then [] else cs.savedPost ++ savedOf o
        let cs' : CrSess := { cs with pre := cs.post, post := (cs.post.step o).1,
                                      inflight := (match o with | .save n m => some (n, m) | .saveIncr n m => some (n, m) | _ => none),
                                      savedPre := cs.savedPost, savedPost := savedNow,
                                      hiPre := cs.hiPost, hiPost := hiAfter cs.hiPost o, inHyp := inHyp, inHypPre := cs.inHyp }
        let phase := match cs.resumed with
          | some win => "{phase=after-recovery," ++ win ++ "}"
          | none => if cs.kind = "sql" then "{phase=sql}" else "{phase=no-crash}"
        if cs.dead then (alSet w sid cs', "ok") else
        if cs.tainted then
          let bad := match o with
            | .get b e => monForeignRange cs.savedPost b e got.msgs
            | .iter b e _ => monForeignRange cs.savedPost b e got.msgs
            | _ => false
          (alSet w sid cs', verdict (if bad then ["torn_or_foreign_bytes" ++ phase] else []))
        else if !inHyp then (alSet w sid cs', "ok")
        else (alSet w sid cs', verdict (withCtx phase (monOp cs.post o got))))
    | _, _ => (w, "bad-op")

def crashMonFamily : Family := { σ := CrMon, init := [], step := crashMonStep }
end Qfx.Drv
