/-
  family `loop` (C20): delivery of timer expiries to the run loop.

  One round of the harness (harness/fam_loop.go) = a real session run by its own `session.run()` goroutine, logged on,
  made busy (application callback / stalled writer / not at all); the expiry callbacks of the state timer (`s` =
  NeedHeartbeat) and of the peer timer (`p` = PeerTimeout) that `run()` built are fired while it is busy (`fire`), the
  loop is released, then further expiries are fired one at a time (`after`).

  What has to come out is NOT a table: it is the session model (`Qfx.Sess.step`, the function the C20 theorems are about)
  run on the script of the round — connect, the peer's Logon, the message that makes the loop busy, then one
  `Ev.timeout` per expiry.  Callbacks that are outstanding together (`fire`) are parked senders on one unbuffered
  channel, each on a goroutine of its own: any delivery order is a schedule, so the round has one expected outcome per
  permutation of `fire`; `after` is ordered.  `loopOutcomes` is that set; the monitor (`LoopMon.lean`) decides.
  This family answers `ok` for a well-formed round and `bad-op` otherwise (the harness rejects the same lines).

  Not in this family: the DURATIONS (state timer = HeartBtInt after a send, peer timer = 1.2·HeartBtInt after a receive
  / after the TestRequest) — those are the model's `armPeer` observations compared by family `sess` through the
  timer-arm hook, and the theorems `C20_peer_timer_*` / `C20_acceptor_adopts_interval`.
-/
import Qfx.Drv.Conc
import Qfx.Model.Session
namespace Qfx.Drv
open Qfx.Sess

structure LoopOp where
  init : Bool
  bs : Nat
  resend : Bool
  busy : String            -- callback | writer | no
  viaTimer : Bool
  fire : List TimerEv
  after : List TimerEv
  outcap : Nat
  settle : Nat

def loopLetters? (s : String) : Option (List TimerEv) :=
  if s == "-" then some []
  else if s.length == 0 || s.length > 6 then none
  else s.toList.mapM fun c => if c == 's' then some TimerEv.needHeartbeat else if c == 'p' then some .peerTimeout else none

def parseLoopOp? (w : List String) : Option LoopOp := do
  let kv := kvOf w
  let init ← match kv.lookup "init" with | some "0" => some false | some "1" => some true | _ => none
  let bs ← match kv.lookup "bs" with | some "2" => some 2 | some "4" => some 4 | _ => none
  let resend ← match kv.lookup "st" with | some "in" => some false | some "resend" => some true | _ => none
  let busy ← match kv.lookup "busy" with
    | some "callback" => some "callback" | some "writer" => some "writer" | some "no" => some "no" | _ => none
  let viaTimer ← match kv.lookup "via" with | some "fn" => some false | some "timer" => some true | _ => none
  let fire ← (kv.lookup "fire").bind loopLetters?
  let after ← (kv.lookup "after").bind loopLetters?
  let outcap ← kvNat? kv "outcap"
  let settle ← kvNat? kv "settle"
  if outcap > 64 || settle > 50 then none
  else if busy == "writer" && outcap != 0 then none
  -- the real timer path coalesces expiries of ONE timer that are outstanding together: at most one each
  else if viaTimer && ((fire.filter (· == .needHeartbeat)).length > 1 || (fire.filter (· == .peerTimeout)).length > 1) then none
  else pure { init, bs, resend, busy, viaTimer, fire, after, outcap, settle }

/-! ## the script of a round on the session model -/

def loopCfg (op : LoopOp) : Cfg := { initiator := op.init, bs := op.bs, hb := 3600 }

def loopIn (op : LoopOp) (seq : Nat) (kind : String) (extra : Fields) : InMsg :=
  { f := [(8, bsName op.bs), (35, kind), (49, "TGT"), (56, "SND"), (34, toString seq), (52, "@0")] ++ extra }

/-- everything before the expiries: connect, the peer's Logon (an acceptor answers it, an initiator has sent its own on
    connect), optionally a Heartbeat two numbers ahead (ResendRequest, state Resend), then the message that keeps the loop busy -/
def loopPrefix (op : LoopOp) : List Ev :=
  [.connect, .incomingMsg (some (loopIn op 1 "A" [(98, "0"), (108, "3600")]))]
  ++ (if op.resend then [.incomingMsg (some (loopIn op 4 "0" []))] else [])
  ++ (if op.busy == "callback" then [.incomingMsg (some (loopIn op 2 "D" [(58, "BLOCK")]))]
      else if op.busy == "writer" then [.incomingMsg (some (loopIn op 2 "1" [(112, "BUSY")]))]
      else [])

structure LoopOut where
  wire : List String
  st : String
  lo : Nat
  closed : Bool
  deriving DecidableEq, Repr

def loopWireTok (m : OutMsg) : String := if m.kind == "0" && m.f.has 112 then "0r" else m.kind

/-- run the events through `Qfx.Sess.step` and keep what the harness observes -/
def loopRun (op : LoopOp) (evs : List Ev) : LoopOut :=
  let (s, obs) := evs.foldl (fun (acc : Sess × List Obs) e => let (s', o, _) := step acc.1 e; (s', acc.2 ++ o))
    (initSess (loopCfg op) 1 1, [])
  { wire := obs.filterMap (fun o => match o with | .wire m => some (loopWireTok m) | _ => none),
    st := s.st.name,
    lo := (obs.filter (fun o => match o with | .onLogout => true | _ => false)).length,
    closed := obs.any (fun o => match o with | .closed => true | _ => false) }

def insertEverywhere {α} (a : α) : List α → List (List α)
  | [] => [[a]]
  | b :: bs => (a :: b :: bs) :: (insertEverywhere a bs).map (b :: ·)

def perms {α} : List α → List (List α)
  | [] => [[]]
  | a :: as => (perms as).flatMap (insertEverywhere a)

/-- the outcomes the model allows: one per delivery order of the expiries that were outstanding together -/
def loopOutcomes (op : LoopOp) : List LoopOut :=
  ((perms op.fire).map fun p => loopRun op (loopPrefix op ++ p.map Ev.timeout ++ op.after.map Ev.timeout)).eraseDups

def loopStep (_ : Unit) (w : List String) : Unit × String :=
  match w with
  | "round" :: rest => ((), if (parseLoopOp? rest).isSome then "ok" else "bad-op")
  | _ => ((), "bad-op")

def loopFamily : Family := { σ := Unit, init := (), step := loopStep }

/-! ## what the model says for the canonical shapes (evaluated here; the general statements are the theorems of Props/C20) -/

private def opOf (s : String) : Option LoopOp := parseLoopOp? (s.splitOn " ")
private def outs (s : String) : List (List String × String × Nat × Bool) :=
  match opOf s with
  | some op => (loopOutcomes op).map fun o => (o.wire, o.st, o.lo, o.closed)
  | none => []

-- an expiry of the state timer that waited for a blocked callback: one Heartbeat, nothing else
#guard outs "init=0 bs=2 st=in busy=callback via=fn fire=s after=- outcap=0 settle=2" == [(["A", "0"], "InSession", 0, false)]
-- an expiry of the peer timer that waited for a stalled writer: the blocked answer, then TestRequest, pending
#guard outs "init=0 bs=2 st=in busy=writer via=fn fire=p after=- outcap=0 settle=2" == [(["A", "0r", "1"], "Pending:InSession", 0, false)]
-- two peer expiries: TestRequest, then the dead-peer disconnect with OnLogout
#guard outs "init=1 bs=4 st=in busy=callback via=fn fire=p after=p outcap=0 settle=2" == [(["A", "1"], "Latent", 1, true)]
#guard outs "init=0 bs=4 st=in busy=callback via=fn fire=pp after=- outcap=0 settle=2" == [(["A", "1"], "Latent", 1, true)]
-- both timers outstanding together: the Heartbeat is sent only if NeedHeartbeat is delivered first (pendingTimeout ignores it)
#guard outs "init=0 bs=2 st=in busy=writer via=timer fire=sp after=- outcap=0 settle=2" ==
  [(["A", "0r", "0", "1"], "Pending:InSession", 0, false), (["A", "0r", "1"], "Pending:InSession", 0, false)]
-- recovery (state Resend) keeps both behaviours, pending wraps the resend state
#guard outs "init=1 bs=2 st=resend busy=no via=fn fire=- after=sp outcap=0 settle=2" == [(["A", "2", "0", "1"], "Pending:Resend", 0, false)]
-- nothing fired: nothing comes out (the control of `timer_event_spurious`)
#guard outs "init=0 bs=2 st=in busy=callback via=fn fire=- after=- outcap=0 settle=2" == [(["A"], "InSession", 0, false)]
-- malformed rounds
#guard (opOf "init=0 bs=2 st=in busy=writer via=fn fire=s after=- outcap=1 settle=2").isNone
#guard (opOf "init=0 bs=2 st=in busy=no via=timer fire=ss after=- outcap=0 settle=2").isNone
#guard (opOf "init=0 bs=2 st=in busy=no via=fn fire=sx after=- outcap=0 settle=2").isNone

end Qfx.Drv
