import Qfx.Drv.Util
import Qfx.Spec.Values
namespace Qfx.Drv
open Qfx Qfx.Spec

def verdict (bad : List String) : String :=
  if bad.isEmpty then "ok" else "; ".intercalate (bad.map ("bad " ++ ·))

/-- split `op … => obs …` -/
def splitObs (w : List String) : List String × List String :=
  (w.takeWhile (· ≠ "=>"), (w.dropWhile (· ≠ "=>")).drop 1)

def valMonStep (_ : Unit) (w : List String) : Unit × String :=
  let (op, obs) := splitObs w
  ((), match op with
  | ["int", "read", h] => (match fromHex h with | some b => verdict (monInt b obs) | none => "bad-op")
  | ["int", "write", v] => (match v.toInt? with | some i => verdict (monIntWrite i obs) | none => "bad-op")
  | ["bool", "read", h] => (match fromHex h with | some b => verdict (monBool b obs) | none => "bad-op")
  | ["bool", "write", v] => if (v == "y" && obs == ["59"]) || (v == "n" && obs == ["4e"]) then "ok" else "bad bool_write_wrong"
  | ["float", "read", h] => (match fromHex h with | some b => verdict (monFloat b obs) | none => "bad-op")
  | ["str", "read", h] => if obs == ["ok", h] then "ok" else "bad str_not_identity"
  | ["ts", "read", h] => (match fromHex h with | some b => verdict (monTsRead b obs) | none => "bad-op")
  | "ts" :: "write" :: p :: rest => (match rest.mapM (·.toNat?) with
      | some t => verdict (monTsWrite p t obs)
      | none => "bad-op")
  | _ => "bad-op")

def valMonFamily : Family := { σ := Unit, init := (), step := valMonStep }
end Qfx.Drv
