import Qfx.Drv.Util
import Qfx.Spec.Values
import Qfx.Spec.Float
import Qfx.Model.Decimal
namespace Qfx.Drv
open Qfx Qfx.Spec

def verdict (bad : List String) : String :=
  if bad.isEmpty then "ok" else "; ".intercalate (bad.map ("bad " ++ ·))

/-- split `op … => obs …` -/
def splitObs (w : List String) : List String × List String :=
  (w.takeWhile (· ≠ "=>"), (w.dropWhile (· ≠ "=>")).drop 1)

/-- the written text reads back, has exactly `sc` decimals, and is the input rounded half away from zero
    (`trunc`: cut toward zero); a negative sign only on a non-zero result of a negative input -/
def monDecWrite (trunc : Bool) (b : Bytes) (sc : Nat) (obs : List String) : List String :=
  match Qfx.Dec.readDec b, obs with
  | .ok d, [h] =>
    (match fromHex h with
     | some o =>
       (match Qfx.Dec.readDec o with
        | .ok r =>
          let k := d.scale
          (if r.scale = sc then [] else ["dec_write_scale"]) ++
          (if trunc then
             (if r.mag * 10 ^ k ≤ d.mag * 10 ^ sc ∧ d.mag * 10 ^ sc < (r.mag + 1) * 10 ^ k then [] else ["udec_write_not_truncated"])
           else
             (if 2 * r.mag * 10 ^ k ≤ 2 * d.mag * 10 ^ sc + 10 ^ k ∧ 2 * d.mag * 10 ^ sc < 2 * r.mag * 10 ^ k + 10 ^ k then []
              else ["dec_write_not_half_away"])) ++
          (if r.neg = (d.neg && r.mag != 0) then [] else ["dec_write_sign"]) ++
          (if o.head? == some 43 || (o.head? == some 45 && !r.neg) then ["dec_write_not_canonical"] else [])
        | _ => ["dec_write_unreadable_output"])
     | none => ["dec_write_bad_obs"])
  | .ok _, _ => ["dec_write_failed_on_readable_input"]
  | _, _ => []

def valMonStep (_ : Unit) (w : List String) : Unit × String :=
  let (op, obs) := splitObs w
  ((), match op with
  | ["int", "read", h] => (match fromHex h with | some b => verdict (monInt b obs) | none => "bad-op")
  | ["int", "write", v] => (match v.toInt? with | some i => verdict (monIntWrite i obs) | none => "bad-op")
  | ["bool", "read", h] => (match fromHex h with | some b => verdict (monBool b obs) | none => "bad-op")
  | ["bool", "write", v] => if (v == "y" && obs == ["59"]) || (v == "n" && obs == ["4e"]) then "ok" else "bad bool_write_wrong"
  | ["float", "read", h] => (match fromHex h with | some b => verdict (monFloatRead b obs) | none => "bad-op")
  | ["float", "write", h] => (match bitsOfHex? h with
      | some bits => if Qfx.F64.ordOf bits < 9218868437227405312 then verdict (monFloatWrite bits obs) else "bad-op"
      | none => "bad-op")
  | ["dec", "write", h, sc] => (match fromHex h, sc.toNat? with
      | some b, some sc => verdict (monDecWrite false b sc obs) | _, _ => "bad-op")
  | ["udec", "write", h, sc] => (match fromHex h, sc.toNat? with
      | some b, some sc => verdict (monDecWrite true b sc obs) | _, _ => "bad-op")
  | ["dec", "read", _] => "ok"
  | ["str", "read", h] => if obs == ["ok", h] then "ok" else "bad str_not_identity"
  | ["ts", "read", h] => (match fromHex h with | some b => verdict (monTsRead b obs) | none => "bad-op")
  | "tsz" :: "write" :: _ :: p :: rest => (match rest.mapM (·.toNat?) with
      | some t => verdict (monTsWrite p t obs)
      | none => "bad-op")
  | "ts" :: "write" :: p :: rest => (match rest.mapM (·.toNat?) with
      | some t => verdict (monTsWrite p t obs)
      | none => "bad-op")
  | _ => "bad-op")

def valMonFamily : Family := { σ := Unit, init := (), step := valMonStep }
end Qfx.Drv
