/-
  families `sock-mon` / `sockj-mon`: the C05 prefix monitor (`Qfx.Link.monLink`, the predicate `C05_safety` is about) and
  the C09 clauses evaluated on what ONE round of two real engines behind real sockets produced.
  Input: `round k=v… ev=… => obs try= settled= subA= subB= dlvA= dlvB= mid= refused= lonA= loutA= lonB= loutB= pairA= pairB=
          panics= junk= serveJ= stopped= pdcuts= hung=`  (id lists: `a1,a2,a5..a3000`)   |   `=> crashed <class>`   |   `=> stalled`   |   `=> panic`
  Output `ok` or `bad <clause>; …`:
    C05.delivery_not_prefix{to=,kind=}            what a side's application received is not a prefix of what the other side
                                                  submitted (final lists; kind=sampled: at the moment of some delivery)
    C05.not_all_delivered_after_settle{to=}       the link was up and quiet for three heartbeat intervals, something is missing
    C05.sock_not_settled{why=}                    the bounded wait ran out (link never stayed up / Stop or SendToTarget did not return /
                                                  the worker did not answer), after the harness repeated the round
    C05.sock_logon_unpaired{side=,kind=}          an OnLogon without its OnLogout by the end, or two OnLogon in a row
    C09.panic{op=sock,kind=recovered|crashed-…}   a panic in a connection handler (recovered, logged) / the process died
    C09.hang{op=sock|sock-stop|sock-send}         the worker did not answer at all / Stop / SendToTarget did not return
    C09.sock_not_serving{who=real|J}              after hostile connections the acceptor did not get the real counterparty
                                                  logged on with everything delivered / did not answer session J's Logon
                                                  and TestRequest on a new connection
-/
import Qfx.Drv.Sock
import Qfx.Drv.Link
import Qfx.Drv.ValMon
import Qfx.Spec.Link
namespace Qfx.Drv
open Qfx.Link

def sockMonObs (hasJunk : Bool) (kv : List (String × String)) : String :=
  match kv.lookup "settled", kv.lookup "subA", kv.lookup "subB", kv.lookup "dlvA", kv.lookup "dlvB" with
  | some settled, some sa, some sb, some da, some db =>
    let sa := sockIds sa
    let sb := sockIds sb
    let da := sockIds da
    let db := sockIds db
    let st := settled == "y"
    let get (k : String) : String := (kv.lookup k).getD "?"
    let link := monLink st sa sb da db
    let allDelivered := isPrefix db sa && isPrefix da sb && db.length == sa.length && da.length == sb.length
    let sampled :=
      if get "mid" != "ok" && isPrefix db sa && isPrefix da sb then ["C05.delivery_not_prefix{to=?,kind=sampled}"] else []
    let unsettled :=
      (if st then [] else ["C05.sock_not_settled{why=link}"])
      ++ (if get "stopped" == "y" then [] else ["C05.sock_not_settled{why=stop}"])
      ++ (if (kv.lookup "hung").getD "0" == "0" then [] else ["C05.sock_not_settled{why=send}"])
    let pair (side : String) : List String :=
      let v := get ("pair" ++ side)
      if v == "ok" || get "stopped" != "y" then [] else ["C05.sock_logon_unpaired{side=" ++ side ++ ",kind=" ++ v ++ "}"]
    let panics := if get "panics" == "0" then [] else ["C09.panic{op=sock,kind=recovered}"]
    let serving :=
      (if hasJunk && !(st && allDelivered) then ["C09.sock_not_serving{who=real}"] else [])
      ++ (if get "serveJ" == "n" then ["C09.sock_not_serving{who=J}"] else [])
      -- a TestRequest written together with the Logon (one read at the acceptor) is framed and answered like one sent apart
      ++ (if (kv.lookup "pipeJ").getD "-" == "n" then ["C12.frames_depend_on_segmentation{where=acceptor-handshake}"] else [])
      ++ (if get "stopped" == "y" then [] else ["C09.hang{op=sock-stop}"])
      ++ (if (kv.lookup "hung").getD "0" == "0" then [] else ["C09.hang{op=sock-send}"])
    verdict (link ++ sampled ++ unsettled ++ pair "A" ++ pair "B" ++ panics ++ serving)
  | _, _, _, _, _ => "bad unparsed_observation"

def sockMonStep (_ : Unit) (w : List String) : Unit × String :=
  let (op, obs) := splitObs w
  match op with
  | "round" :: rest =>
    let kv := kvOf rest
    if !sockOpOk kv then ((), "bad-op") else
    let hasJunk := ((sockEvents kv).getD []).any (·.startsWith "j")
    (match obs with
     | "obs" :: fields => ((), sockMonObs hasJunk (kvOf fields))
     | ["crashed", c] => ((), "bad C09.panic{op=sock,kind=crashed-" ++ c ++ "}")
     | ["panic"] => ((), "bad C09.panic{op=sock,kind=driver}")
     | ["stalled"] => ((), "bad C05.sock_not_settled{why=stalled}; bad C09.hang{op=sock}")
     | _ => ((), "bad unparsed_observation"))
  | _ => ((), "bad-op")

def sockMonFamily : Family := { σ := Unit, init := (), step := sockMonStep }
end Qfx.Drv
