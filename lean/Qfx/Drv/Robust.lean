import Qfx.Drv.Util
import Qfx.Drv.ValMon
namespace Qfx.Drv

/-- C09 family: the model's whole prediction is "returns a value or an error" -/
def robustStep (_ : Unit) (w : List String) : Unit × String :=
  match w with
  | "parse" :: _ | "validate" :: _ | "settings" :: _ | "dictxml" :: _ | "sessraw" :: _ => ((), "nopanic")
  | _ => ((), "bad-op")
def robustFamily : Family := { σ := Unit, init := (), step := robustStep }

def robustMonStep (_ : Unit) (w : List String) : Unit × String :=
  let (op, obs) := splitObs w
  let name := op.head?.getD "?"
  let ctx := match op with
    | ["parse", mode, _] => "{op=parse,dict=" ++ mode ++ "}"
    | ["validate", d, _] => "{op=validate,dict=" ++ d ++ "}"
    | ["sessraw", st, _] => "{op=sessraw,state=" ++ st ++ "}"
    | _ => "{op=" ++ name ++ "}"
  ((), match obs with
  | ["panic"] => "bad C09.panic" ++ ctx
  | ["hang"] => "bad C09.hang" ++ ctx
  | ["ok", "answered", "n"] => "bad C09.next_message_not_processed" ++ ctx
  | "ok" :: _ => "ok"
  | ["err"] => "ok"
  | _ => "bad unparsed_observation")
def robustMonFamily : Family := { σ := Unit, init := (), step := robustMonStep }
end Qfx.Drv
