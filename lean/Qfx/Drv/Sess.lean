import Qfx.Drv.Util
import Qfx.Drv.Valid
import Qfx.Model.Session
namespace Qfx.Drv
open Qfx.Sess

/-- `tag=value` token; value may be empty -/
def parseField? (tok : String) : Option (Nat × String) :=
  match tok.splitOn "=" with
  | t :: rest => match t.toNat? with
    | some n => if rest.isEmpty then none else some (n, "=".intercalate rest)
    | none => none
  | [] => none

def parseFields? (toks : List String) : Option Fields := toks.mapM parseField?

def insertByTag (p : Nat × String) : Fields → Fields
  | [] => [p]
  | q :: qs => if p.1 ≤ q.1 then p :: q :: qs else q :: insertByTag p qs

def sortByTag (f : Fields) : Fields := f.foldr insertByTag []

def renderWire (cfg : Cfg) (m : OutMsg) : String :=
  let f := sortByTag (m.f ++ [(49, cfg.sender), (56, cfg.target)]
                      ++ (match m.last with | some v => [(369, toString v)] | none => []))
  "w 35=" ++ m.kind ++ " 34=" ++ toString m.seq ++ String.join (f.map fun p => " " ++ toString p.1 ++ "=" ++ p.2)

def renderObs (cfg : Cfg) : Obs → String
  | .wire m => renderWire cfg m
  | .fromApp seq t => "cb fromApp " ++ seq ++ " T=" ++ toString t
  | .fromAdmin k seq => "cb fromAdmin " ++ k ++ " " ++ seq
  | .onLogon => "cb onLogon"
  | .onLogout => "cb onLogout"
  | .armPeer ms => "arm peer " ++ toString ms
  | .closed => "closed"
  | .reset => "store reset"
  | .saved n k r => "store save " ++ toString n ++ " " ++ k ++ " " ++ (if r then "y" else "n")
  | .incS => "store incS"
  | .incT => "store incT"
  | .setT n => "store setT " ++ toString n
  | .refresh => "store refresh"

def insertInt (n : Int) : List Int → List Int
  | [] => [n]
  | q :: qs => if n ≤ q then n :: q :: qs else q :: insertInt n qs

def renderState (st : SState) : String :=
  let rs (stash : List (Int × InMsg)) (c f : Int) : String :=
    let ks := (stash.map (·.1)).foldr insertInt []
    " stash " ++ (if ks.isEmpty then "-" else ",".intercalate (ks.map toString)) ++ " " ++ toString c ++ " " ++ toString f
  match st with
  | .resend stash c f => st.name ++ rs stash c f
  | .pendingResend stash c f => st.name ++ rs stash c f
  | _ => st.name

def renderResult (s : Sess) (obs : List Obs) (status : String) : String :=
  -- the position of `closed` among the observations is not observable on the implementation: canonically last
  let isClosed : Obs → Bool := fun o => match o with | .closed => true | _ => false
  let obs := obs.filter (fun o => !isClosed o) ++ obs.filter isClosed
  " | ".intercalate (status :: obs.map (renderObs s.cfg))
  ++ " ; ctr " ++ toString s.store.sender ++ " " ++ toString s.store.target
  ++ " ; st " ++ renderState s.st
  ++ " ; q " ++ toString s.toSend.length
  ++ " ; ib " ++ toString s.inbox.length
  ++ " ; stopped " ++ (if s.stopped then "1" else "0")

def kvLookup (kv : List (String × String)) (k : String) : Option String := (kv.find? (·.1 == k)).map (·.2)

/-- the validator of a `cfg` line: `vs=<5 bits>` (CheckFieldsOutOfOrder RejectInvalidMessage AllowUnknownMessageFields
    CheckUserDefinedFields CheckFieldsHaveValues, as in family `valid`; absent = the defaults), `dd=<name>` the application
    dictionary (setting DataDictionary / AppDataDictionary) and `tdd=<name>` the transport dictionary, both loaded before by
    `ddict` ops; absent or `-` = none -/
def parseVCfg? (dicts : String → Option Validate.VDict) (kv : List (String × String)) : Option VCfg := do
  let st ← match kvLookup kv "vs" with
    | none => some Validate.defaultSettings
    | some b => parseBits b
  let dict (k : String) : Option (Option Validate.VDict) := match kvLookup kv k with
    | none => some none
    | some "-" => some none
    | some n => (dicts n).map some
  let app ← dict "dd"
  let tr ← dict "tdd"
  if app.isNone && tr.isSome then none else
  pure { app := app, tr := tr, settings := st }

def parseCfg? (dicts : String → Option Validate.VDict) (toks : List String) : Option (Cfg × Int × Int) := do
  let kv ← toks.mapM fun t => match t.splitOn "=" with
    | [k, v] => some (k, v)
    | _ => none
  let b (k : String) : Option Bool := (kvLookup kv k).bind fun v => if v == "1" then some true else if v == "0" then some false else none
  let n (k : String) : Option Nat := (kvLookup kv k).bind (·.toNat?)
  let i (k : String) : Option Int := (kvLookup kv k).bind (·.toInt?)
  -- ResetSeqTime: `rst=<seconds of the day>`; absent or `-` = not configured
  let rst : Option Nat ← match kvLookup kv "rst" with
    | none => some none
    | some "-" => some none
    | some v => (match v.toNat? with
      | some n => if n < 86400 then some (some n) else none
      | none => none)
  -- EnableLastMsgSeqNumProcessed: `lsp=0|1`; absent = off
  let lsp : Bool ← match kvLookup kv "lsp" with
    | none => some false
    | some "1" => some true
    | some "0" => some false
    | some _ => none
  -- EnableNextExpectedMsgSeqNum: `nx=0|1`; absent = off
  let nx : Bool ← match kvLookup kv "nx" with
    | none => some false
    | some "1" => some true
    | some "0" => some false
    | some _ => none
  let cfg : Cfg := {
    initiator := ← b "init", bs := ← n "bs", chunk := ← n "chunk",
    resetOnLogon := ← b "rol", resetOnLogout := ← b "rolo", resetOnDisconnect := ← b "rod",
    refreshOnLogon := ← b "refresh", persist := ← b "persist", skipLatency := ← b "skiplat",
    hb := ← i "hb", hbOverride := ← b "hbo", applVer := if (← n "bs") == 5 then "9" else "",
    lookThroughPending := ← b "ltp", resetSeqTime := rst, lastSeqProcessed := lsp, nextExpected := nx,
    validator := ← parseVCfg? dicts kv }
  pure (cfg, ← i "s0", ← i "t0")

def timerOf? : String → Option TimerEv
  | "hb" => some .needHeartbeat | "peer" => some .peerTimeout | "logon" => some .logonTimeout | "logout" => some .logoutTimeout
  | _ => none

/-- the clock of `rtime n`: n seconds after the harness's fixed UTC midnight, 0 ≤ n ≤ 10^9 -/
def rtimeOf? (w : String) : Option Int :=
  match w.toNat? with
  | some n => if n ≤ 1000000000 then some (Int.ofNat n) else none
  | none => none

/-- what the generator says it planted into an inbound message: `!<kind>,<tag>` in front of the fields (for the monitor;
    the model does not look at it) -/
def dropPlant (toks : List String) : List String :=
  match toks with
  | t :: rest => if t.startsWith "!" then rest else toks
  | [] => []

structure SessDrv where
  s : Sess
  dicts : List (String × Validate.VDict) := []

def SessDrv.dict? (d : SessDrv) (n : String) : Option Validate.VDict := (d.dicts.find? (·.1 == n)).map (·.2)

/-- `ddict app|tr <NAME> <serialised AST>`: the dictionary the harness wrote as an XML file, through the C19 builder model -/
def loadDict (toks : List String) : Option Validate.VDict :=
  match parseAst toks with
  | none => none
  | some a => match buildModel a with
    | .ok d => some (mkVDict a d)
    | .error _ => none

def sessStep (d : SessDrv) (w : List String) : SessDrv × String :=
  let s := d.s
  let run (e : Ev) : SessDrv × String := let (s', obs, status) := step s e; ({ d with s := s' }, renderResult s' obs status)
  match w with
  | "ddict" :: _ :: name :: toks => (match loadDict toks with
      | some vd => ({ d with dicts := (name, vd) :: d.dicts }, "loaded")
      | none => (d, "bad-op"))
  | "cfg" :: rest => (match parseCfg? d.dict? rest with
      | some (cfg, s0, t0) => let s' := initSess cfg s0 t0; ({ d with s := s' }, renderResult s' [] "ok")
      | none => (d, "bad-op"))
  | ["connect"] => run .connect
  | ["in", "garbage"] => run (.incomingMsg none)
  | "in" :: rest => (match parseFields? (dropPlant rest) with
      | some f => run (.incomingMsg (some { f := f }))
      | none => (d, "bad-op"))
  | "arrive" :: rest => (match parseFields? (dropPlant rest) with
      | some f => run (.arrive { f := f })
      | none => (d, "bad-op"))
  | ["pop"] => run .pop
  | ["timeout", e] => (match timerOf? e with | some e => run (.timeout e) | none => (d, "bad-op"))
  | ["disc"] => run .disconnected
  | ["stop"] => run .stop
  | "send" :: rest => (match parseFields? rest with
      | some f =>
        -- a leading `35=<type>` names the application message type (default D)
        run (.send { kind := ((f.find? (·.1 == 35)).map (·.2)).getD "D", seq := 0, f := f.filter (·.1 != 35) })
      | none => (d, "bad-op"))
  | ["flush"] => run .flush
  | ["stime", "in"] => run (.sessionTime true true)
  | ["stime", "out"] => run (.sessionTime false true)
  | ["stime", "new"] => run (.sessionTime true false)
  | ["rtime", n] => (match rtimeOf? n with | some t => run (.resetTime t) | none => (d, "bad-op"))
  | _ => (d, "bad-op")

def sessFamily : Family := { σ := SessDrv, init := { s := initSess {} 1 1 }, step := sessStep }
end Qfx.Drv
