import Qfx.Drv.Util
import Qfx.Model.Values
import Qfx.Model.Decimal
import Qfx.Model.Float
namespace Qfx.Drv
open Qfx

def precName : Prec → String
  | .seconds => "s" | .millis => "ms" | .micros => "us" | .nanos => "ns"
def precOf? : String → Option Prec
  | "s" => some .seconds | "ms" => some .millis | "us" => some .micros | "ns" => some .nanos | _ => none

def resStr {α} (f : α → String) : Res α → String
  | .ok a => "ok " ++ f a
  | .err _ => "err"
  | .fault _ => "panic"

/-- 64-bit pattern as 16 hex digits (big endian), and back -/
def hex16 (n : Nat) : String := toHex ((List.range 8).reverse.map fun i => n / 256 ^ i % 256)
def bits64? (h : String) : Option Nat :=
  match fromHex h with
  | some bs => if bs.length = 8 then some (bs.foldl (fun acc x => 256 * acc + x) 0) else none
  | none => none

def valStep (_ : Unit) (w : List String) : Unit × String :=
  ((), match w with
  | ["int", "read", h] => (match fromHex h with
      | some b => resStr toString (readInt b)
      | none => "bad-op")
  | ["int", "write", v] => (match v.toInt? with
      | some i => toHex (writeInt i)
      | none => "bad-op")
  | ["bool", "read", h] => (match fromHex h with
      | some b => resStr yn (readBool b)
      | none => "bad-op")
  | ["bool", "write", v] => (match parseYN? v with
      | some b => toHex (writeBool b)
      | none => "bad-op")
  | ["float", "read", h] => (match fromHex h with
      | some b => resStr hex16 (Qfx.F64.readFloat b)
      | none => "bad-op")
  | ["float", "write", h] => (match bits64? h with
      | some bits => if Qfx.F64.ordOf bits < 9218868437227405312 then toHex (Qfx.F64.writeFloat bits) else "bad-op"
      | none => "bad-op")
  | ["dec", "read", h] => (match fromHex h with
      | some b => resStr (fun (d : Qfx.Dec.Dec) => (if d.neg then "-" else "") ++ toString d.mag ++ " " ++ toString d.scale) (Qfx.Dec.readDec b)
      | none => "bad-op")
  | ["dec", "write", h, sc] => (match fromHex h, sc.toNat? with
      | some b, some sc => (match Qfx.Dec.readDec b with
          | .ok d => toHex (Qfx.Dec.writeDec d sc)
          | _ => "unreadable")
      | _, _ => "bad-op")
  | ["udec", "write", h, sc] => (match fromHex h, sc.toNat? with
      | some b, some sc => (match Qfx.Dec.readDec b with
          | .ok d => toHex (Qfx.Dec.writeUDec d sc)
          | _ => "unreadable")
      | _, _ => "bad-op")
  | ["str", "read", h] => (match fromHex h with
      | some b => resStr toHex (readStr b)
      | none => "bad-op")
  | ["ts", "read", h] => (match fromHex h with
      | some b => resStr (fun (tp : Ts × Prec) =>
          let t := tp.1
          joinSp [toString t.y, toString t.mo, toString t.d, toString t.h, toString t.mi, toString t.s,
                  toString t.ns, precName tp.2]) (readTs b)
      | none => "bad-op")
  -- `tsz write <zone> …`: the UTC civil fields of an instant that the implementation holds in another Location (the text
  -- written is about the instant, not about the Location it is held in)
  | ["tsz", "write", _, p, y, mo, d, h, mi, s, ns] =>
      (match precOf? p, y.toNat?, mo.toNat?, d.toNat?, h.toNat?, mi.toNat?, s.toNat?, ns.toNat? with
      | some p, some y, some mo, some d, some h, some mi, some s, some ns =>
          toHex (writeTs p { y, mo, d, h, mi, s, ns })
      | _, _, _, _, _, _, _, _ => "bad-op")
  | ["ts", "write", p, y, mo, d, h, mi, s, ns] =>
      (match precOf? p, y.toNat?, mo.toNat?, d.toNat?, h.toNat?, mi.toNat?, s.toNat?, ns.toNat? with
      | some p, some y, some mo, some d, some h, some mi, some s, some ns =>
          toHex (writeTs p { y, mo, d, h, mi, s, ns })
      | _, _, _, _, _, _, _, _ => "bad-op")
  | _ => "bad-op")

def valFamily : Family := { σ := Unit, init := (), step := valStep }
end Qfx.Drv
