/-
  family `drain` / `drain-mon` (C08): what reaches the application around the END of a connection, on the real run loop.

  One round of the harness (harness/fam_loop.go, `drainRound`) = a real session run by its own `session.run()` goroutine,
  logged on, its FromApp blocked; behind the blocked message the peer's Logout and `queued` application messages are
  written by a reader goroutine that parks on the full inbound channel (capacity `incap`, the engine's default is 1);
  the loop is released: the Logout ends the connection while the reader still has messages to hand over.  With `late`
  > 0 the application's OnLogout is held while `late` more messages arrive, then released.

  Observation: `ok cb=<F<text>|L,…> lo=<OnLogout calls> closed=0|1 end=0|1`.  The callback order is judged by the SAME two
  automata as the synchronous histories of family `sess`: the diagnostic `SessSpec.c08Item` (names the clause) and the typed
  `c8Step` / `c08Accepts` that `C08_step`, `C08_run`, `C08_trace_shape` are about (`C08.theorem_monitor_rejects` if only
  that one objects), both started in the logged-on state the round has established: a delivery after the logout notification is
  `C08.delivery_outside_logon{after=onLogout}`; and a logged-on period ends with exactly one notification.
  Which messages the engine still delivers (all, some, none of the queued ones) is NOT prescribed here — only that
  none comes after `L`.  The driver answers `ok` for a well-formed op (nothing to predict: the verdict is the monitor's).
-/
import Qfx.Drv.Conc
import Qfx.Drv.ValMon
import Qfx.Spec.Session
namespace Qfx.Drv
open Qfx.Sess Qfx.SessSpec

def drainOpOk (w : List String) : Bool :=
  let kv := kvOf w
  let inR (k : String) (lo hi : Nat) : Bool := match kvNat? kv k with | some n => lo ≤ n && n ≤ hi | none => false
  (kv.lookup "init" == some "0" || kv.lookup "init" == some "1")
  && (kv.lookup "bs" == some "2" || kv.lookup "bs" == some "4")
  && inR "incap" 1 8 && inR "queued" 0 8 && inR "late" 0 4

def drainStep (_ : Unit) (w : List String) : Unit × String :=
  match w with
  | "drain" :: rest => ((), if drainOpOk rest then "ok" else "bad-op")
  | _ => ((), "bad-op")

def drainFamily : Family := { σ := Unit, init := (), step := drainStep }

/-- callback tokens as items of the connection-shape automaton -/
def drainItem? (t : String) : Option Item :=
  if t == "L" then some .onLogout
  else if t.startsWith "F" then some (.fromApp (t.drop 1).toString 0)
  else none

/-- the logged-on state the round has established before anything is observed -/
def drainStart : C08St :=
  { connOpen := true, wiresOnConn := 1, sentLogout := false, handshake := true, cbLoggedOn := true, afterLogoutCb := false, bad := [] }

def drainVerdict (cbs : List String) (lo : Nat) (closed ended : Bool) : List String :=
  match cbs.mapM drainItem? with
  | none => ["C08.unparsed_observation"]
  | some items =>
    let s := items.foldl c08Item drainStart
    -- which arrivals were delivered too late: those queued before the connection ended, or those that came during OnLogout
    let afterL := (cbs.dropWhile (· != "L")).drop 1
    let ctx := if afterL.any (·.startsWith "Fm") then "{arrived=before-the-disconnect}"
               else if afterL.any (·.startsWith "Fx") then "{arrived=during-OnLogout}" else ""
    -- the typed automaton of the theorems (`c8Step`, `C08_trace_shape`) on the same connection: connected, our Logon on the
    -- wire, the logon notification, then the observed callbacks, then the close
    let trace : List Obs8 :=
      [Obs8.connected, .obs (.wire { kind := "A", seq := 1, f := [] }), .obs .onLogon]
      ++ (items.filterMap toObs).map Obs8.obs ++ (if closed then [Obs8.obs .closed] else [])
    let typed := if c08Accepts trace || !s.bad.isEmpty then [] else ["C08.theorem_monitor_rejects{family=drain}"]
    (s.bad.eraseDups.map (· ++ ctx)) ++ typed
    ++ (if lo == 1 && (cbs.filter (· == "L")).length == 1 then [] else ["C08.logout_notifications{n=" ++ toString lo ++ "}"])
    ++ (if closed then [] else ["C08.connection_not_closed"])
    ++ (if ended then [] else ["C08.loop_stalled{stop}"])

def drainMonStep (_ : Unit) (w : List String) : Unit × String :=
  let (opw, obs) := splitObs w
  match opw with
  | "drain" :: rest =>
    if !drainOpOk rest then ((), "bad-op") else
    (match obs with
     | ["panic"] => ((), "bad C09.panic{op=drain}")
     | "stalled" :: stage :: _ => ((), "bad C08.loop_stalled{" ++ stage ++ "}")
     | "ok" :: more =>
       let kv := kvOf more
       (match kv.lookup "cb", kvNat? kv "lo", kv.lookup "closed", kv.lookup "end" with
        | some cb, some lo, some c, some e =>
          let cbs := if cb == "-" then [] else cb.splitOn ","
          ((), verdict (drainVerdict cbs lo (c == "1") (e == "1")))
        | _, _, _, _ => ((), "bad C08.unparsed_observation"))
     | _ => ((), "bad C08.unparsed_observation"))
  | _ => ((), "bad-op")

def drainMonFamily : Family := { σ := Unit, init := (), step := drainMonStep }

private def mon (line : String) : String := (drainMonStep () (line.splitOn " ")).2

#guard mon "drain init=0 bs=2 incap=1 queued=3 late=0 => ok cb=Fm1,Fm2,Fm3,L lo=1 closed=1 end=1" == "ok"
#guard mon "drain init=0 bs=2 incap=1 queued=3 late=0 => ok cb=L lo=1 closed=1 end=1" == "ok"
#guard mon "drain init=0 bs=2 incap=1 queued=3 late=0 => ok cb=Fm1,L,Fm2 lo=1 closed=1 end=1"
  == "bad C08.delivery_outside_logon{after=onLogout}{arrived=before-the-disconnect}"
#guard mon "drain init=0 bs=2 incap=1 queued=3 late=2 => ok cb=Fm1,Fm2,Fm3,L,Fx1 lo=1 closed=1 end=1"
  == "bad C08.delivery_outside_logon{after=onLogout}{arrived=during-OnLogout}"
#guard mon "drain init=0 bs=2 incap=1 queued=1 late=0 => ok cb=Fm1,L,L lo=2 closed=1 end=1"
  == "bad C08.theorem_monitor_rejects{family=drain}; bad C08.logout_notifications{n=2}"
#guard mon "drain init=0 bs=2 incap=9 queued=1 late=0 => ok cb=- lo=1 closed=1 end=1" == "bad-op"

end Qfx.Drv
