import Qfx.Drv.Sess
import Qfx.Drv.ValMon
import Qfx.Spec.Link
namespace Qfx.Drv
open Qfx.Sess Qfx.Link

def csvStr (l : List String) : String := if l.isEmpty then "-" else ",".intercalate l
def parseCsvStr (s : String) : List String := if s == "-" then [] else s.splitOn ","

def renderLink (l : LSt) (status : String) : String :=
  status ++ " ; a2b " ++ toString l.a2b.length ++ " ; b2a " ++ toString l.b2a.length
  ++ " ; sentA " ++ csvStr l.sentA ++ " ; sentB " ++ csvStr l.sentB
  ++ " ; dlvA " ++ csvStr l.dlvA ++ " ; dlvB " ++ csvStr l.dlvB
  ++ " ; ctrA " ++ toString l.a.store.sender ++ " " ++ toString l.a.store.target
  ++ " ; ctrB " ++ toString l.b.store.sender ++ " " ++ toString l.b.store.target
  ++ " ; stA " ++ l.a.st.name ++ " ; stB " ++ l.b.st.name

def sideOf? : String → Option Side | "A" => some .A | "B" => some .B | _ => none

def linkStep (l : LSt) (w : List String) : LSt × String :=
  let run (e : LEv) : LSt × String := let (l', st) := lstep l e; (l', renderLink l' st)
  match w with
  | "cfg" :: bs :: chunkA :: chunkB :: hb :: rest =>
    (match bs.toNat?, chunkA.toNat?, chunkB.toNat?, hb.toInt? with
     | some bs, some ca, some cb, some hb =>
       let mk (ini : Bool) (snd tgt : String) (chunk : Nat) : Cfg :=
         { initiator := ini, bs := bs, sender := snd, target := tgt, chunk := chunk, hb := hb, applVer := if bs == 5 then "9" else "",
           nextExpected := rest.contains "nx=1" }
       let l' := linkInit (mk true "A" "B" ca) (mk false "B" "A" cb)
       (l', renderLink l' "ok")
     | _, _, _, _ => (l, "bad-op"))
  | ["connect"] => run .connect
  | ["send", sd, p] => (match sideOf? sd with | some sd => run (.send sd p) | none => (l, "bad-op"))
  | ["del", sd] => (match sideOf? sd with | some sd => run (.deliver sd) | none => (l, "bad-op"))
  | ["cut"] => run .cut
  | ["restart", sd] => (match sideOf? sd with | some sd => run (.restart sd) | none => (l, "bad-op"))
  | ["timer", sd, e] => (match sideOf? sd, timerOf? e with | some sd, some e => run (.timer sd e) | _, _ => (l, "bad-op"))
  | ["flush", sd] => (match sideOf? sd with | some sd => run (.flush sd) | none => (l, "bad-op"))
  | ["settled"] => (l, renderLink l "ok")
  | _ => (l, "bad-op")

def linkFamily : Family := { σ := LSt, init := linkInit {} {}, step := linkStep }

/-- monitor: reads sentA/sentB/dlvA/dlvB from the implementation's line -/
def linkMonStep (_ : Unit) (w : List String) : Unit × String :=
  let (op, obs) := splitObs w
  if obs == ["panic"] then ((), "bad C09.panic{op=link}") else
  let parts := (joinSp obs).splitOn " ; "
  let get (k : String) : Option (List String) :=
    (parts.find? (fun p => (words p).head? == some k)).map fun p => match words p with | [_, v] => parseCsvStr v | _ => []
  match get "sentA", get "sentB", get "dlvA", get "dlvB" with
  | some sa, some sb, some da, some db => ((), verdict (monLink (op == ["settled"]) sa sb da db))
  | _, _, _, _ => ((), "bad unparsed_observation")

def linkMonFamily : Family := { σ := Unit, init := (), step := linkMonStep }
end Qfx.Drv
