/- family `codec-mon`: the C10 / C11 / C13 (and codec C09, C03 byte layer) monitors of Qfx.Spec.Codec evaluated on the
   implementation's observations.  Input line: `op words… => observation words…`; output `ok` or `bad <clause>{ctx}; …` -/
import Qfx.Drv.Codec
import Qfx.Drv.ValMon
namespace Qfx.Drv
open Qfx Qfx.Spec

def kindOfParsed (st : MonSt) : String :=
  match st.parsedFrom with
  | some m => modeKind m
  | none => "api"

def avalObs : AVal → Option String
  | .plain v => some s!"val {toHex v}"
  | .cooked => none
  | .grp _ es => some s!"val {toHex (fmtNat es.length)}"

def absHasGroup (a : Abs) : Bool :=
  (a.h ++ a.b ++ a.t).any (fun p => match p.2 with | .grp _ _ => true | _ => false)

/-- header fields, then body fields, then trailer fields (repeated tags allowed: repeating groups) -/
def sectionsSorted (d : Dicts) (fs : List WField) : Bool :=
  let rank (t : Int) : Nat := match secOf d t with | .h => 0 | .b => 1 | .t => 2
  let rs := fs.map (fun f => rank ((tagNum f.tagText).getD 0))
  (rs.zip (rs.drop 1)).all (fun p => p.1 ≤ p.2)

/-- a further header field follows MsgType (as in every message a session builds and stores) -/
def headerAfterMsgType (d : Dicts) (fs : List WField) : Bool :=
  match fs[3]? with
  | some f => secOf d ((tagNum f.tagText).getD 0) == .h
  | none => false

/-- the bytes of the body fields, in wire order -/
def bodyRaw (d : Dicts) (fs : List WField) : Bytes :=
  (fs.filter (fun f => secOf d ((tagNum f.tagText).getD 0) == .b)).flatMap (·.raw)

/-- header fields, then body fields, then trailer fields; no tag twice -/
def sectionsInOrder (d : Dicts) (fs : List WField) : Bool :=
  let ts := fs.map (fun f => (tagNum f.tagText).getD 0)
  let rank (t : Int) : Nat := match secOf d t with | .h => 0 | .b => 1 | .t => 2
  let rs := ts.map rank
  nodupTags ts && (rs.zip (rs.drop 1)).all (fun p => p.1 ≤ p.2)

def mutate (st : MonSt) (obs : List String) (f : Abs → Abs) : MonSt × List String :=
  let bad := if obs == ["ok"] then [] else if obs == ["panic"] then ["no_panic{op=setter}"] else ["setter_failed"]
  if st.parsedFrom.isSome || st.wire.isSome then ({ st with abs := none, parsedFrom := none, wire := none }, bad)
  else ({ st with abs := st.abs.map f }, bad)

def codecMonStep (st : MonSt) (w : List String) : MonSt × String :=
  let (op, obs) := splitObs w
  let panicOf (name : String) : List String := if obs == ["panic"] then [s!"no_panic\{op={name}}"] else []
  let out (p : MonSt × List String) : MonSt × String := (p.1, verdict p.2)
  match op with
  | ["new"] => ({ MonSt.init with tdefs := st.tdefs, adefs := st.adefs }, "ok")
  | [k, s, t, v] =>
    (match secOf? s, t.toInt? with
     | some s, some t =>
       if k = "set" ∨ k = "sets" ∨ k = "setf" ∨ k = "setw" then
         (match fromHex v with
          | some v => out (mutate st obs (fun a => a.set s t (.plain v)))
          | none => (st, "bad-op"))
       else if k = "seti" then
         (match v.toInt? with
          | some v => out (mutate st obs (fun a => a.set s t (.plain (fmtInt v))))
          | none => (st, "bad-op"))
       else if k = "setb" then
         (match parseYN? v with
          | some v => out (mutate st obs (fun a => a.set s t (.plain (if v then [89] else [78]))))
          | none => (st, "bad-op"))
       else (st, "bad-op")
     | _, _ => (st, "bad-op"))
  | ["ddef", "t", id, h, t] =>
    (match csvInts? h, csvInts? t with
     | some h, some t => out ({ st with tdefs := (id, (h, t)) :: st.tdefs.filter (·.1 ≠ id) }, if obs == ["ok"] then [] else ["ddef_mismatch"])
     | _, _ => (st, "bad-op"))
  | "ddef" :: "a" :: id :: mt :: tree =>
    (match fromHex mt, pTree tree with
     | some mt, some (nodes, []) => out ({ st with adefs := st.adefs ++ [(id, [(mt, nodes)])] }, if obs == ["ok"] then [] else ["ddef_mismatch"])
     | _, _ => (st, "bad-op"))
  | ["rm", s, t] =>
    (match secOf? s, t.toInt? with
     | some s, some t => out (mutate st obs (fun a => a.remove s t))
     | _, _ => (st, "bad-op"))
  | ["clear", s] =>
    (match secOf? s with
     | some s => out (mutate st obs (fun a => a.clear s))
     | none => (st, "bad-op"))
  | "setgrp" :: s :: inst =>
    (match secOf? s, pInst inst with
     | some s, some (.grp t tm es, []) => out (mutate st obs (fun a => a.set s t (.grp tm es)))
     | _, _ => (st, "bad-op"))
  | ["copy"] =>
    if st.parsedFrom.isSome || st.wire.isSome then
      out ({ st with abs := none, parsedFrom := none, wire := none }, panicOf "copy")
    else out (st, panicOf "copy")
  | ["fork"] =>
    -- the copy kept aside is the message as it is now, whatever happens to the source afterwards
    if st.parsedFrom.isSome || st.wire.isSome then out ({ st with side := none }, panicOf "copy")
    else out ({ st with side := st.abs }, panicOf "copy")
  | ["sidebuild"] =>
    (match obs with
     | ["none"] => (st, "ok")
     | ["bytes", h, _] =>
       (match fromHex h, st.side with
        | some b, some a => out ({ st with side := some a.cook }, monBuild a b)
        | some _, none => (st, "ok")
        | none, _ => (st, "bad-op"))
     | _ => out (st, panicOf "build" ++ (if obs == ["panic"] then [] else ["build_failed"])))
  | [k] =>
    if k = "build" ∨ k = "bytes" then
      (match obs with
       | ["bytes", h, _] =>
         (match fromHex h with
          | none => (st, "bad-op")
          | some b =>
            match st.wire with
            | some (wr, _, _) => out (st, if b == wr then [] else ["raw_unchanged"])
            | none =>
              if st.parsedFrom.isSome then (st, "ok")
              else match st.abs with
                   | some a => out ({ st with abs := some a.cook }, monBuild a b)
                   | none => (st, "ok"))
       | _ => out (st, panicOf "build" ++ (if obs == ["panic"] then [] else ["build_failed"])))
    else if k = "copybuild" then
      (match obs with
       | ["bytes", h1, h2] =>
         (match fromHex h1, fromHex h2 with
          | some b1, some b2 =>
            if st.parsedFrom.isSome || st.wire.isSome then (st, "ok")
            else (match st.abs with
                  | some a =>
                    out ({ st with abs := some a.cook },
                         monBuild a b1 ++ (if b1 == b2 then [] else [s!"copy_identical\{group={yn (absHasGroup a)}}"]))
                  | none => (st, "ok"))
          | _, _ => (st, "bad-op"))
       | _ => out (st, panicOf "copybuild" ++ (if obs == ["panic"] then [] else ["build_failed"])))
    else if k = "rebuild" then
      (match obs with
       | ["bytes", h] =>
         (match fromHex h with
          | none => (st, "bad-op")
          | some b =>
            match st.wire with
            | some (wr, mode, d) =>
              let claim := match scanFields wr with
                           | some fs => wfScanned fs && sectionsInOrder d fs && !(fs.any (fun f => tagNum f.tagText == some 212))
                           | none => false
              -- the body of the rebuilt message (what a resend transmits) is byte for byte the body that was parsed
              let bodySame := match scanFields wr, scanFields b with
                | some fs, some gs =>
                  -- (claimed for messages shaped like the ones a session stores: further header fields follow MsgType —
                  --  doParsing records the start of the body while it walks those; with none, bodyBytes stays unset, both in
                  --  the code and in the model, which no stored message can show)
                  !(wfScanned fs && sectionsSorted d fs && !(fs.any (fun f => tagNum f.tagText == some 212)) && !tenMember d
                    && headerAfterMsgType d fs)
                  || bodyRaw d gs == bodyRaw d fs
                | some fs, none => !(wfScanned fs && sectionsSorted d fs)
                | none, _ => true
              out (st, (if claim && !wireWF b then [s!"c03_rebuild_wf\{dict={modeKind mode}}"] else [])
                       ++ (if bodySame then [] else [s!"c03_rebuild_body\{dict={modeKind mode}}"]))
            | none =>
              match st.parsedFrom, st.abs with
              | some mode, some a =>
                (match dictsOf st.tdefs st.adefs mode with
                 | some d => out (st, if reparsable d a && !wireWF b then [s!"c03_rebuild_wf\{dict={modeKind mode}}"] else [])
                 | none => (st, "bad-op"))
              | _, _ => (st, "ok"))
       | _ => out (st, panicOf "rebuild"))
    else if k = "static" then (st, "ok")
    else (st, "bad-op")
  | ["reparse", mode] =>
    (match dictsOf st.tdefs st.adefs mode with
     | none => (st, "bad-op")
     | some d =>
       if st.parsedFrom.isSome || st.wire.isSome then (st, verdict (panicOf "reparse"))
       else
         match st.abs with
         | none => (st, verdict (panicOf "reparse"))
         | some a0 =>
           let a := a0.cook
           let k := modeKind mode
           let isOk := obs.head? == some "ok"
           if reparsable d a then
             if !isOk then out ({ st with abs := some a }, panicOf "reparse" ++ [s!"reparse_ok\{dict={k}}"])
             else
               let same : Bool :=
                 match obs with
                 | ["ok", "F", f, "B", _, "H", _, "D", _, "T", _] =>
                   (match parseF f with
                    | some l =>
                      let got : List (Int × Option Bytes) := l.map (fun p => (p.1, if p.1 = 9 ∨ p.1 = 10 then none else some p.2.1))
                      let exp : List (Int × Option Bytes) := a.flat.map (fun p => (p.1, if p.1 = 9 ∨ p.1 = 10 then none else p.2))
                      got.isPerm exp
                    | none => false)
                 | _ => false
               out ({ st with abs := some a, parsedFrom := some mode }, if same then [] else [s!"reparse_same_fields\{dict={k}}"])
           else
             if isOk then out ({ st with abs := none, parsedFrom := some mode }, [])
             else out ({ st with abs := some a }, panicOf "reparse"))
  | ["parse", mode, h] =>
    (match fromHex h, dictsOf st.tdefs st.adefs mode with
     | some b, some d =>
       let bad := monParse d mode b obs
       if obs.head? == some "ok" then out ({ st with abs := none, parsedFrom := none, wire := some (b, mode, d) }, bad)
       else out (st, bad)
     | _, _ => (st, "bad-op"))
  | [k, s, t] =>
    (match secOf? s, t.toInt? with
     | some s, some t =>
       if k = "geti" then out (st, panicOf "geti")
       else if k = "has" ∨ k = "get" then
         let isHas := k = "has"
         match st.wire with
         | some (wr, mode, d) =>
           (match expectGet d wr s t with
            | some x =>
              let exp : List String := if isHas then [yn x.isSome] else (match x with | some v => ["val", toHex v] | none => ["err", "8"])
              out (st, panicOf k ++ (if obs == exp || obs == ["panic"] then [] else [s!"retrievable\{dict={modeKind mode}}"]))
            | none => out (st, panicOf k))
         | none =>
           match st.abs with
           | none => out (st, panicOf k)
           | some a =>
             let v := alFind (a.sec s) t
             let okObs : Bool :=
               if isHas then obs == [yn v.isSome]
               else match v with
                    | none => obs == ["err", "8"]
                    | some av => (match avalObs av with
                                  | some e => joinSp obs == e
                                  | none => obs.head? == some "val")
             if st.parsedFrom.isSome then
               -- after the trip through the wire: what was set must still be found (members of groups are not claimed)
               if v.isSome && !(memberTags a).contains t && !okObs && obs != ["panic"] then out (st, [s!"followers_found\{dict={kindOfParsed st}}"])
               else out (st, panicOf k)
             else out (st, panicOf k ++ (if okObs || obs == ["panic"] then [] else ["api_latest"]))
       else (st, "bad-op")
     | _, _ => (st, "bad-op"))
  | ["tags", s] =>
    (match secOf? s with
     | some s =>
       (match st.abs, st.parsedFrom with
        | some a, none => out (st, if obs == ["tags", csvOf (sortInts ((a.sec s).map (·.1)))] then [] else ["api_latest"])
        | _, _ => (st, "ok"))
     | none => (st, "bad-op"))
  | "getgrp" :: s :: t :: tmpl =>
    (match secOf? s, t.toInt?, pTemplate tmpl with
     | some s, some t, some (tm, []) =>
       (match st.abs with
        | some a =>
          (match alFind (a.sec s) t with
           | some (.grp tm' es) =>
             if s == .b && tmplEq tm tm' && groupClaimable a t tm es then
               out (st, panicOf "getgrp" ++
                 (if obs == expectGrpObs tm es || obs == ["panic"] then []
                  else [s!"group_roundtrip\{dict={kindOfParsed st},nested={yn (hasNested tm)}}"]))
             else out (st, panicOf "getgrp")
           | _ => out (st, panicOf "getgrp"))
        | none => out (st, panicOf "getgrp"))
     | _, _, _ => (st, "bad-op"))
  | _ => (st, "bad-op")

def codecMonFamily : Family := { σ := MonSt, init := MonSt.init, step := codecMonStep }
end Qfx.Drv
