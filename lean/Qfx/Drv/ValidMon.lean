/- family `valid-mon`: the C15 monitor on `op => verdict of the real validator` -/
import Qfx.Drv.Valid
import Qfx.Drv.ValMon
import Qfx.Spec.ValidateTree
namespace Qfx.Drv
open Qfx Qfx.Dict Qfx.Validate

def parseKind (k aux : String) : Option Kind :=
  match k with
  | "conforming" => some .conforming
  | "unknown_msgtype" => some .unknownMsgType
  | "required_missing" => some (.requiredMissing (aux == "grp" || aux == "grptail"))
  | "not_defined_for_type" => some .notDefinedForType
  | "not_in_dictionary" => some .notInDictionary
  | "empty_value" => some .emptyValue
  | "bad_enum" => some .badEnum
  | "bad_format" => some .badFormat
  | "group_count" => some .groupCount
  | "member_order" => some .memberOrder
  | "section_order" => some .sectionOrder
  | "duplicate_tag" => some .duplicateTag
  | _ => none

def parseValidObs : List String → Option Obs
  | ["accept"] => some .accept
  | ["reject", r, t] =>
    (match r.toNat?, (if t == "-" then some none else t.toNat?.map some) with
     | some rr, some tt => some (.reject ⟨rr, tt⟩)
     | _, _ => none)
  | ["panic"] => some .panic
  | ["parse-error"] => some .parseError
  | _ => none

/-- the dictionary hypotheses of `C15_accepts` (`WalkOK`: `FDef.TagsNodup`, `maxWidth + 3 ≤ 4000`, child tags apart from the
    top-level tags, top-level tags distinct), evaluated on every really loaded dictionary -/
def mdefWF (m : MDef) : List String :=
  let top := m.flat.map (·.tag)
  (if decide top.Nodup then [] else ["dict_wf{top_level_tags_repeat}"]) ++
  (if m.flat.all (fun fd => decide fd.allTags.Nodup) then [] else ["dict_wf{tags_repeat_in_definition}"]) ++
  (if m.flat.all (fun fd => decide (fd.maxWidth + 3 ≤ 4000)) then [] else ["dict_wf{member_list_too_long}"]) ++
  (if m.flat.all (fun fd => fd.childTags.all (fun t => !top.contains t)) then [] else ["dict_wf{group_member_also_top_level}"])

def dictWF (d : Dict String) : List String :=
  ((d.msgs.map (·.2) ++ d.header.toList ++ d.trailer.toList).flatMap mdefWF).eraseDups

def validMonStep (s : ValidSt) (w : List String) : ValidSt × String :=
  let (op, obs) := splitObs w
  match op with
  | "ddict" :: _ =>
    -- the monitor needs the same dictionaries; they come from the AST on the line through the C19 builder model
    let (s', out) := validStep s op
    (s', if obs == ["loaded"] && out == "loaded" then
      (match op with
       | _ :: _ :: _ :: toks =>
         (match parseAst toks with
          | some a => (match buildModel a with | .ok d => verdict (dictWF d) | .error _ => "bad-op")
          | none => "bad-op")
       | _ => "bad-op")
      else "bad-op")
  | ["v", bits, k, tag, aux, hex, h, b, t] =>
    (s, match s.app with
      | none => "bad-op"
      | some app =>
        match parseBits bits, parseKind k aux, parsePMsg hex h b t, parseValidObs obs with
        | some st, some kind, some m, some o =>
          verdict (monValid app s.tr st kind ((tag.toNat?).getD 0) m o (if aux == "grptail" then ",grptail" else ""))
        | _, _, _, _ => "bad-op")
  | _ => (s, "bad-op")

def validMonFamily : Family := { σ := ValidSt, init := {}, step := validMonStep }
end Qfx.Drv
