/- family `valid-mon`: the C15 monitor on `op => verdict of the real validator` -/
import Qfx.Drv.Valid
import Qfx.Drv.ValMon
namespace Qfx.Drv
open Qfx Qfx.Dict Qfx.Validate

def parseKind (k aux : String) : Option Kind :=
  match k with
  | "conforming" => some .conforming
  | "unknown_msgtype" => some .unknownMsgType
  | "required_missing" => some (.requiredMissing (aux == "grp" || aux == "grptail"))
  | "not_defined_for_type" => some .notDefinedForType
  | "not_in_dictionary" => some .notInDictionary
  | "empty_value" => some .emptyValue
  | "bad_enum" => some .badEnum
  | "bad_format" => some .badFormat
  | "group_count" => some .groupCount
  | "member_order" => some .memberOrder
  | "section_order" => some .sectionOrder
  | "duplicate_tag" => some .duplicateTag
  | _ => none

def parseObs : List String → Option Obs
  | ["accept"] => some .accept
  | ["reject", r, t] =>
    (match r.toNat?, (if t == "-" then some none else t.toNat?.map some) with
     | some rr, some tt => some (.reject ⟨rr, tt⟩)
     | _, _ => none)
  | ["panic"] => some .panic
  | ["parse-error"] => some .parseError
  | _ => none

def validMonStep (s : ValidSt) (w : List String) : ValidSt × String :=
  let (op, obs) := splitObs w
  match op with
  | "ddict" :: _ =>
    -- the monitor needs the same dictionaries; they come from the AST on the line through the C19 builder model
    let (s', out) := validStep s op
    (s', if obs == ["loaded"] && out == "loaded" then "ok" else "bad-op")
  | ["v", bits, k, tag, aux, hex, h, b, t] =>
    (s, match s.app with
      | none => "bad-op"
      | some app =>
        match parseBits bits, parseKind k aux, parsePMsg hex h b t, parseObs obs with
        | some st, some kind, some m, some o =>
          verdict (monValid app s.tr st kind ((tag.toNat?).getD 0) m o (if aux == "grptail" then ",grptail" else ""))
        | _, _, _, _ => "bad-op")
  | _ => (s, "bad-op")

def validMonFamily : Family := { σ := ValidSt, init := {}, step := validMonStep }
end Qfx.Drv
