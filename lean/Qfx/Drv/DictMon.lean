/- family `dict-mon`: the C19 monitor on `op => observation of the real loader` -/
import Qfx.Drv.Dict
import Qfx.Drv.ValMon
namespace Qfx.Drv
open Qfx.Dict

/-- `453Y` → (453, true) -/
def parseTagFlag (s : String) : Option (Nat × Bool) :=
  let cs := s.toList
  match cs.reverse with
  | 'Y' :: r => (String.ofList r.reverse).toNat?.map (·, true)
  | 'N' :: r => (String.ofList r.reverse).toNat?.map (·, false)
  | _ => none

partial def parseFDefs : List String → Option (List FDef × List String)
  | "(" :: tf :: rq :: rest =>
    match parseTagFlag tf, csvNats? rq, parseFDefs rest with
    | some (t, r), some rqs, some (kids, ")" :: rest') =>
      (parseFDefs rest').map (fun p => (FDef.mk t r kids rqs :: p.1, p.2))
    | _, _, _ => none
  | ")" :: rest => some ([], ")" :: rest)
  | [] => some ([], [])
  | tf :: rest =>
    match parseTagFlag tf with
    | some (t, r) => (parseFDefs rest).map (fun p => (FDef.mk t r [] [] :: p.1, p.2))
    | none => none

def stripPrefix? (p s : String) : Option String :=
  if s.startsWith p then some (s.drop p.length).toString else none

def parseMsgDump : List String → Option MsgDump
  | "def" :: tg :: rq :: fm :: "flat" :: rest =>
    match stripPrefix? "tags=" tg, stripPrefix? "req=" rq, parseFDefs rest with
    | some t, some r, some (flat, []) =>
      match csvNats? t, csvNats? r with
      | some ts, some rs => some { tags := ts, req := rs, fmapOK := fm == "fmap=ok", flat := flat }
      | _, _ => none
    | _, _, _ => none
  | _ => none

partial def parseTypeDumps : List String → List (TypeDump String) → Option (List (TypeDump String))
  | [], acc => some acc.reverse
  | "(" :: t :: n :: ty :: rest, acc =>
    match t.toNat? with
    | none => none
    | some k => parseTypeDumps ((rest.dropWhile (· ≠ ")")).drop 1)
                  ({ tag := k, name := n, type := ty, enums := rest.takeWhile (· ≠ ")") } :: acc)
  | _, _ => none

def parseLoadObs : List String → Option (LoadObs String)
  | ["loaded", mts, h, t] =>
    some (.loaded (if mts == "-" then [] else mts.splitOn ",") (h == "hdr=y") (t == "trl=y"))
  | "refused" :: _ => some .refused
  | ["crash"] => some .crash
  | _ => none

/-- monitor state: the AST of the case, whether its names are unique (judged once), the expansion budget -/
structure MonSt where
  ast : Ast String
  wf : Bool
  fuel : Nat

def monBody (st : MonSt) (body : Option (List (Member String))) (obs : List String) : String :=
  let a := st.ast
  if !st.wf then "ok" else
  match body, obs with
  | none, ["none"] => "ok"
  | none, _ => "bad messages{unexpected-def}"
  | some _, ["none"] => "bad messages{missing-def}"
  | some ms, _ =>
    match parseMsgDump obs with
    | some d => verdict (monMsg a st.fuel ms d)
    | none => "bad-op"

def dictMonStep (s : Option MonSt) (w : List String) : Option MonSt × String :=
  let (op, obs) := splitObs w
  if obs == ["panic"] then (s, "bad c09_panic") else
  if obs.head? == some "harness-error" || obs == ["stale-op"] then (s, "bad-op") else
  match op with
  | "ast" :: toks | "file" :: _ :: toks =>
    (match parseAst toks, parseLoadObs obs with
     | some a, some o => (some { ast := a, wf := wfNamesB a, fuel := a.size + 1 }, verdict (monLoad a o))
     | _, _ => (none, "bad-op"))
  | ["msg", mt] => (s, match s with
      | none => "ok"
      | some st => if obs == ["nodict"] then "ok" else monBody st (specMsg st.ast mt) obs)
  | ["header"] => (s, match s with
      | none => "ok"
      | some st => if obs == ["nodict"] then "ok" else monBody st st.ast.header obs)
  | ["trailer"] => (s, match s with
      | none => "ok"
      | some st => if obs == ["nodict"] then "ok" else monBody st st.ast.trailer obs)
  | ["types"] => (s, match s with
      | none => "ok"
      | some st =>
        match obs with
        | ["nodict"] => "ok"
        | "types" :: bn :: rest =>
          (match parseTypeDumps rest [] with
           | some ds => if st.wf then verdict (monTypes st.ast (bn == "byname=ok") ds) else "ok"
           | none => "bad-op")
        | _ => "bad-op")
  | _ => (s, "bad-op")

def dictMonFamily : Family := { σ := Option MonSt, init := none, step := dictMonStep }
end Qfx.Drv
