/- line-protocol helpers shared by the family drivers (core only) -/
import Qfx.Model.Bytes
namespace Qfx.Drv

def words (line : String) : List String :=
  (line.splitOn " ").filter (· ≠ "")

def parseInt? (s : String) : Option Int := s.toInt?
def parseNat? (s : String) : Option Nat := s.toNat?

def yn (b : Bool) : String := if b then "y" else "n"

def parseYN? (s : String) : Option Bool :=
  if s = "y" then some true else if s = "n" then some false else none

def csvInts? (s : String) : Option (List Int) :=
  if s = "-" then some [] else (s.splitOn ",").mapM (·.toInt?)

def csvNats? (s : String) : Option (List Nat) :=
  if s = "-" then some [] else (s.splitOn ",").mapM (·.toNat?)

def optInt? (s : String) : Option (Option Int) :=
  if s = "-" then some none else s.toInt?.map some

def joinSp (l : List String) : String := " ".intercalate l

/-- a family driver: state, initial state, one line in → one line out -/
structure Family where
  σ : Type
  init : σ
  step : σ → List String → σ × String

end Qfx.Drv
