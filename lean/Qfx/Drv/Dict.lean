/- family `dict`: the dictionary builder model on an `ast`/`file` line, then dumps of the built definitions (C19) -/
import Qfx.Drv.Util
import Qfx.Model.Dict
import Qfx.Spec.Dict
namespace Qfx.Drv
open Qfx.Dict

/-! ### reading the serialised AST (tokens) -/

partial def parseMembers : List String → Option (List (Member String) × List String)
  | "(" :: k :: n :: r :: rest =>
    let req := r == "Y"
    if k == "f" then
      match rest with
      | ")" :: rest' => (parseMembers rest').map (fun p => (Member.field n req :: p.1, p.2))
      | _ => none
    else if k == "c" then
      match rest with
      | ")" :: rest' => (parseMembers rest').map (fun p => (Member.comp n req :: p.1, p.2))
      | _ => none
    else if k == "g" then
      match parseMembers rest with
      | some (kids, ")" :: rest') => (parseMembers rest').map (fun p => (Member.group n req kids :: p.1, p.2))
      | _ => none
    else none
  | toks => some ([], toks)

partial def parseFieldDecls : List String → List (FieldDecl String) → Option (List (FieldDecl String) × List String)
  | "(" :: n :: num :: ty :: rest, acc =>
    match num.toNat? with
    | none => none
    | some k =>
      let enums := rest.takeWhile (· ≠ ")")
      parseFieldDecls ((rest.dropWhile (· ≠ ")")).drop 1) ({ name := n, num := k, type := ty, enums := enums } :: acc)
  | toks, acc => some (acc.reverse, toks)

partial def parseNamed (skip : Nat) : List String → List (String × List (Member String)) →
    Option (List (String × List (Member String)) × List String)
  | "(" :: rest, acc =>
    -- comps: ( name members… ) ; msgs: ( name msgtype members… ) keyed by msgtype
    match rest.drop skip with
    | key :: rest' =>
      match parseMembers rest' with
      | some (ms, ")" :: rest'') => parseNamed skip rest'' ((key, ms) :: acc)
      | _ => none
    | [] => none
  | toks, acc => some (acc.reverse, toks)

def parseOptBody (yes no : String) : List String → Option (Option (List (Member String)) × List String)
  | "(" :: k :: rest =>
    if k == no then (match rest with | ")" :: r => some (none, r) | _ => none)
    else if k == yes then
      match parseMembers rest with
      | some (ms, ")" :: r) => some (some ms, r)
      | _ => none
    else none
  | _ => none

def parseAst (toks : List String) : Option (Ast String) :=
  match toks with
  | "(" :: "root" :: _ :: _ :: _ :: ")" :: "(" :: "fields" :: rest =>
    match parseFieldDecls rest [] with
    | some (fields, ")" :: "(" :: "comps" :: rest1) =>
      match parseNamed 0 rest1 [] with
      | some (comps, ")" :: "(" :: "msgs" :: rest2) =>
        match parseNamed 1 rest2 [] with
        | some (msgs, ")" :: rest3) =>
          match parseOptBody "header" "noheader" rest3 with
          | some (hdr, rest4) =>
            match parseOptBody "trailer" "notrailer" rest4 with
            | some (trl, []) => some { fields, comps, msgs, header := hdr, trailer := trl }
            | _ => none
          | none => none
        | _ => none
      | _ => none
    | _ => none
  | _ => none

/-! ### printing built definitions like the harness does -/

def csvNat (l : List Nat) : String := if l.isEmpty then "-" else ",".intercalate (l.map toString)

def ynU (b : Bool) : String := if b then "Y" else "N"

mutual
partial def fdefToks : FDef → List String
  | .mk t r [] _ => [toString t ++ ynU r]
  | .mk t r fs rq => ["(", toString t ++ ynU r, csvNat rq] ++ fdefsToks fs ++ [")"]
partial def fdefsToks : List FDef → List String
  | [] => []
  | f :: r => fdefToks f ++ fdefsToks r
end

def mdefLine (m : MDef) : String :=
  joinSp (["def", "tags=" ++ csvNat (canonSet m.tags), "req=" ++ csvNat (canonSet m.reqTags), "fmap=ok", "flat"] ++ fdefsToks m.flat)

def sortStrings (l : List String) : List String := l.mergeSort (fun a b => !(decide (b < a)))

/-- sorted input: drop adjacent repetitions -/
def dedupStrings : List String → List String
  | [] => []
  | [x] => [x]
  | x :: y :: r => if x == y then dedupStrings (y :: r) else x :: dedupStrings (y :: r)

def loadedLine (d : Dict String) : String :=
  let mts := dedupStrings (sortStrings (d.msgs.map (·.1)))
  joinSp ["loaded", if mts.isEmpty then "-" else ",".intercalate mts, "hdr=" ++ yn d.header.isSome, "trl=" ++ yn d.trailer.isSome]

def errLine : BErr → String
  | .unknownField => "refused field"
  | .unknownComp => "refused component"
  | .cycle => "refused cycle"
  | .overflow => "crash"

def typesLine (a : Ast String) : String :=
  let tags := canonSet (a.fields.map (·.num))
  let ok := distinctB (·.name) a.fields && distinctB (·.num) a.fields
  let ents := tags.flatMap (fun t =>
    match a.fieldByTag t with
    | none => []
    | some f => ["(", toString t, f.name, f.type] ++ dedupStrings (sortStrings f.enums) ++ [")"])
  joinSp (["types", "byname=" ++ (if ok then "ok" else "bad")] ++ ents)

structure DictSt where
  ast : Option (Ast String) := none
  dict : Option (Dict String) := none

/-- the builder of the tree under test: D10 fix and circular-reference check -/
def buildModel (a : Ast String) : Except BErr (Dict String) := buildS a

def dictLoad (a : Ast String) : DictSt × String :=
  match buildModel a with
  | .ok d => ({ ast := some a, dict := some d }, loadedLine d)
  | .error e => ({ ast := some a, dict := none }, errLine e)

def optMdefLine : Option MDef → String
  | none => "none"
  | some m => mdefLine m

def dictStep (s : DictSt) (w : List String) : DictSt × String :=
  match w with
  | "ast" :: toks => (match parseAst toks with | some a => dictLoad a | none => ({}, "bad-op"))
  | "file" :: _ :: toks => (match parseAst toks with | some a => dictLoad a | none => ({}, "bad-op"))
  | ["msg", mt] => (s, match s.dict with | none => "nodict" | some d => optMdefLine (d.msg? mt))
  | ["header"] => (s, match s.dict with | none => "nodict" | some d => optMdefLine d.header)
  | ["trailer"] => (s, match s.dict with | none => "nodict" | some d => optMdefLine d.trailer)
  | ["types"] => (s, match s.dict, s.ast with | some _, some a => typesLine a | _, _ => "nodict")
  | _ => (s, "bad-op")

def dictFamily : Family := { σ := DictSt, init := {}, step := dictStep }
end Qfx.Drv
