import Qfx.Drv.Util
import Qfx.Drv.ValMon
import Qfx.Spec.TimeRange
namespace Qfx.Drv
open Qfx.TR

def schedMonStep (r : Range) (w : List String) : Range × String :=
  let (op, obs) := splitObs w
  match op with
  | ["range", s, e, wd, sd, ed] =>
      (match s.toInt?, e.toInt?, csvInts? wd, optInt? sd, optInt? ed with
      | some s, some e, some wd, some sd, some ed =>
          ({ startS := s, endS := e, weekdays := wd, startDay := sd, endDay := ed }, if obs == ["ok"] then "ok" else "bad range_refused")
      | _, _, _, _, _ => (r, "bad-op"))
  | ["at", t] => (match t.toInt? with
      | some t => (r, verdict (monAt r t obs))
      | none => (r, "bad-op"))
  | ["pair", a, b] => (match a.toInt?, b.toInt? with
      | some a, some b => (r, verdict (monPair r a b obs))
      | _, _ => (r, "bad-op"))
  | _ => (r, "bad-op")

def schedMonFamily : Family :=
  { σ := Range, init := { startS := 0, endS := 0, weekdays := [], startDay := none, endDay := none },
    step := schedMonStep }
end Qfx.Drv
