/- family `store-mon`: the C16 monitor (Qfx.Spec.Store.monOp) on lines `op … => observation of the implementation` -/
import Qfx.Drv.Util
import Qfx.Drv.ValMon
import Qfx.Drv.Store
import Qfx.Spec.Store
namespace Qfx.Drv
open Qfx Qfx.Store Qfx.Spec.Store

/-- parse `r ok c S T e y m N hex… [f …]` -/
def parseStoreObs : List String → Option (Obs × List String)
  | "r" :: r :: "c" :: s :: t :: "e" :: e :: "m" :: n :: rest => do
      let ok ← if r = "ok" then some true else if r = "err" then some false else none
      let s ← s.toInt?
      let t ← t.toInt?
      let e ← parseYN? e
      let n ← n.toNat?
      if rest.length < n then none else
      let msgs ← (rest.take n).mapM fromHex
      pure (⟨ok, s, t, e, msgs⟩, rest.drop n)
  | _ => none

structure MonSess where
  spec : AStore := {}
  hi : Option Nat := none
  inHyp : Bool := true       -- the history so far satisfies "ascending save numbers per epoch"
  kind : String := ""
  deriving Inhabited

abbrev StMon := List (String × MonSess)

/-- another open file-store session of this case whose files have the same names (`filePrefixKey` is not injective: a
    SenderSubID and a SenderLocationID with the same value, likewise on the target side).  The two sessions then are ONE store
    on disk: the known finding `sessions_share_files`; nothing else is judged about either of them. -/
def sharesFiles (w : StMon) (kind sid : String) : Bool :=
  (kind == "file" || kind == "filens") &&
  w.any fun (s', m') => s' != sid && (m'.kind == "file" || m'.kind == "filens") && filePrefixKey s' == filePrefixKey sid

def sharedVerdict : String := "bad sessions_share_files{cause=subid-locationid-ambiguity}"

def storeMonStep (w : StMon) (ws : List String) : StMon × String :=
  let (opw, obsw) := splitObs ws
  match parseStoreObs obsw with
  | none => (w, if obsw == ["panic"] then "bad panic" else "bad-op")
  | some (got, _) =>
    match opw with
    | ["open", kind, sid] =>
      if sharesFiles w kind sid then (alSet w sid { kind := kind }, sharedVerdict)
      else (alSet w sid { kind := kind }, verdict (monOpen got))
    | "sqlinter" :: _ :: _ :: rest =>
      (match rest.span (· != "/") with
       | (o1, _ :: o2) =>
         (match parseStoreOp o1, parseStoreOp o2 with
          | some (sid, a), some (sid2, b) =>
            if sid ≠ sid2 then (w, "bad-op") else
            (match w.lookup sid with
             | none => (w, "bad-op")
             | some ms =>
               -- the other goroutine's op first, then the reported one (see Drv/Store.lean)
               let inHyp := ms.inHyp && ascendingOk ms.hi b
               let mid : MonSess := { ms with spec := (ms.spec.step b).1, hi := hiAfter ms.hi b, inHyp := inHyp }
               let inHyp2 := mid.inHyp && ascendingOk mid.hi a
               let fin : MonSess := { mid with spec := (mid.spec.step a).1, hi := hiAfter mid.hi a, inHyp := inHyp2 }
               (alSet w sid fin, if inHyp2 then verdict (monOp mid.spec a got) else "ok"))
          | _, _ => (w, "bad-op"))
       | _ => (w, "bad-op"))
    | _ => match parseStoreOp opw with
      | none => (w, "bad-op")
      | some (sid, o) =>
        match w.lookup sid with
        | none => (w, "bad-op")
        | some ms =>
          if sharesFiles w ms.kind sid then (w, sharedVerdict) else
          if o = .reopen ∧ ms.kind = "mem" then
            -- a memory store does not persist: a new one is a fresh store
            (alSet w sid { kind := ms.kind, spec := { epoch := ms.spec.epoch + 1 } }, verdict (monOpen got))
          else
          let inHyp := (ms.inHyp && ascendingOk ms.hi o) || o = .reset
          let ms' : MonSess := { ms with spec := (ms.spec.step o).1, hi := hiAfter ms.hi o, inHyp := inHyp }
          (alSet w sid ms', if inHyp then verdict (monOp ms.spec o got) else "ok")

def storeMonFamily : Family := { σ := StMon, init := [], step := storeMonStep }
end Qfx.Drv
