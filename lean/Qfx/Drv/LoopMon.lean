/-
  family `loop-mon`: the monitor of the `loop` rounds (C20, delivery of timer expiries to the run loop).
  Input: `round k=v… => ok fired=<s>/<p> parked=… wire=<tokens> st=<state> lo=<n> closed=0|1 end=0|1`
         (or `stalled <stage>` / `panic`); output `ok` or `bad <clause>{ctx}; …`.

  The observed outcome (wire writes in order, final state, OnLogout calls, connection closed) must be one of
  `loopOutcomes` — the session model run on the round's script, one outcome per delivery order of the expiries that
  were outstanding together.  Otherwise the difference is named:
    C20.timer_event_lost{which=heartbeat,busy=…}  fewer Heartbeats than in every allowed outcome
    C20.timer_event_lost{which=peer,busy=…}       fewer TestRequests than in every allowed outcome, or the session got
                                                  less far (InSession/Resend < Pending < Latent) than in every allowed one
    C20.timer_event_spurious                      more Heartbeats / TestRequests / OnLogout calls, or further, than allowed
    C20.loop_outcome_unexpected                   anything else (other messages, order, closed flag)
    C20.loop_stalled{stage}                       a bounded wait of the harness gave up, or run() did not return on stop
  `busy` is the round's busy variant if an expiry of that timer was fired while the loop was busy, else `no`.
  `parked` is informative only (a loop that buffers its events does not park the callbacks and loses nothing).
-/
import Qfx.Drv.Loop
import Qfx.Drv.ValMon
namespace Qfx.Drv
open Qfx.Sess

def loopProgress (st : String) : Nat :=
  if st == "InSession" || st == "Resend" then 0
  else if st.startsWith "Pending:" then 1
  else if st == "Latent" then 2
  else 3

def countTok (t : String) (l : List String) : Nat := (l.filter (· == t)).length

def listMin (l : List Nat) : Nat := l.foldl Nat.min (l.headD 0)
def listMax (l : List Nat) : Nat := l.foldl Nat.max 0

def parseLoopObs? (obs : List String) : Option (Nat × Nat × LoopOut × Bool) := do
  let kv := kvOf obs
  let fired ← kv.lookup "fired"
  let (fs, fp) ← match (fired.splitOn "/").map String.toNat? with
    | [some a, some b] => some (a, b)
    | _ => none
  let wire ← kv.lookup "wire"
  let st ← kv.lookup "st"
  let lo ← kvNat? kv "lo"
  let closed ← match kv.lookup "closed" with | some "0" => some false | some "1" => some true | _ => none
  let ended ← match kv.lookup "end" with | some "0" => some false | some "1" => some true | _ => none
  pure (fs, fp, { wire := if wire == "-" then [] else wire.splitOn ",", st, lo, closed }, ended)

/-- the clauses violated by an observed outcome that is not among the allowed ones -/
def loopClassify (op : LoopOp) (allowed : List LoopOut) (o : LoopOut) : List String :=
  let hb (x : LoopOut) := countTok "0" x.wire
  let tr (x : LoopOut) := countTok "1" x.wire
  let pr (x : LoopOut) := loopProgress x.st
  let busyOf (e : TimerEv) := if op.fire.contains e then op.busy else "no"
  let lostHb := hb o < listMin (allowed.map hb)
  let lostPeer := tr o < listMin (allowed.map tr) || pr o < listMin (allowed.map pr)
  let spurious := hb o > listMax (allowed.map hb) || tr o > listMax (allowed.map tr) || pr o > listMax (allowed.map pr)
    || o.lo > listMax (allowed.map (·.lo))
  let b := (if lostHb then ["C20.timer_event_lost{which=heartbeat,busy=" ++ busyOf .needHeartbeat ++ "}"] else [])
    ++ (if lostPeer then ["C20.timer_event_lost{which=peer,busy=" ++ busyOf .peerTimeout ++ "}"] else [])
    ++ (if spurious then ["C20.timer_event_spurious"] else [])
  if b.isEmpty then ["C20.loop_outcome_unexpected"] else b

def loopMonStep (_ : Unit) (w : List String) : Unit × String :=
  let (opw, obs) := splitObs w
  match opw with
  | "round" :: rest =>
    (match parseLoopOp? rest with
     | none => ((), "bad-op")
     | some op =>
       match obs with
       | ["panic"] => ((), "bad C20.loop_panic")
       | "stalled" :: stage :: _ => ((), "bad C20.loop_stalled{" ++ stage ++ "}")
       | "ok" :: more =>
         (match parseLoopObs? more with
          | none => ((), "bad C20.unparsed_observation")
          | some (fs, fp, o, ended) =>
            let ns := ((op.fire ++ op.after).filter (· == .needHeartbeat)).length
            let np := ((op.fire ++ op.after).filter (· == .peerTimeout)).length
            if fs != ns || fp != np then ((), "bad C20.unparsed_observation") else
            let allowed := loopOutcomes op
            let b1 := if allowed.contains o then [] else loopClassify op allowed o
            let b2 := if ended then [] else ["C20.loop_stalled{stop}"]
            ((), verdict (b1 ++ b2)))
       | _ => ((), "bad C20.unparsed_observation"))
  | _ => ((), "bad-op")

def loopMonFamily : Family := { σ := Unit, init := (), step := loopMonStep }

/-! the monitor on hand-made observations: accepts what the model allows, names what is missing or too much -/
private def mon (line : String) : String := (loopMonStep () (line.splitOn " ")).2

#guard mon "round init=0 bs=2 st=in busy=callback via=fn fire=s after=- outcap=0 settle=2 => ok fired=1/0 parked=1/0 wire=A,0 st=InSession lo=0 closed=0 end=1" == "ok"
#guard mon "round init=0 bs=2 st=in busy=callback via=fn fire=s after=- outcap=0 settle=2 => ok fired=1/0 parked=0/0 wire=A st=InSession lo=0 closed=0 end=1"
  == "bad C20.timer_event_lost{which=heartbeat,busy=callback}"
#guard mon "round init=0 bs=2 st=in busy=writer via=fn fire=p after=- outcap=0 settle=2 => ok fired=0/1 parked=0/0 wire=A,0r st=InSession lo=0 closed=0 end=1"
  == "bad C20.timer_event_lost{which=peer,busy=writer}"
-- TestRequest went out but the second expiry never disconnected
#guard mon "round init=0 bs=2 st=in busy=callback via=fn fire=p after=p outcap=0 settle=2 => ok fired=0/2 parked=0/1 wire=A,1 st=Pending:InSession lo=0 closed=0 end=1"
  == "bad C20.timer_event_lost{which=peer,busy=callback}"
-- either order of a state and a peer expiry that waited together
#guard mon "round init=0 bs=2 st=in busy=writer via=timer fire=sp after=- outcap=0 settle=2 => ok fired=1/1 parked=1/1 wire=A,0r,1 st=Pending:InSession lo=0 closed=0 end=1" == "ok"
#guard mon "round init=0 bs=2 st=in busy=writer via=timer fire=sp after=- outcap=0 settle=2 => ok fired=1/1 parked=1/1 wire=A,0r,0,1 st=Pending:InSession lo=0 closed=0 end=1" == "ok"
#guard mon "round init=0 bs=2 st=in busy=no via=fn fire=- after=s outcap=0 settle=2 => ok fired=1/0 parked=- wire=A,0,0 st=InSession lo=0 closed=0 end=1"
  == "bad C20.timer_event_spurious"
#guard mon "round init=0 bs=2 st=in busy=no via=fn fire=- after=s outcap=0 settle=2 => ok fired=1/0 parked=- wire=A,0 st=Latent lo=1 closed=1 end=1"
  == "bad C20.timer_event_spurious"
#guard mon "round init=0 bs=2 st=in busy=no via=fn fire=- after=s outcap=0 settle=2 => ok fired=1/0 parked=- wire=A,0 st=InSession lo=0 closed=0 end=0"
  == "bad C20.loop_stalled{stop}"
#guard mon "round init=0 bs=2 st=in busy=no via=fn fire=- after=s outcap=0 settle=2 => stalled deliver" == "bad C20.loop_stalled{deliver}"
#guard mon "round init=0 bs=2 st=in busy=no via=fn fire=- after=s outcap=0 settle=2 => ok fired=1/0 parked=- wire=A,0,5 st=InSession lo=0 closed=0 end=1"
  == "bad C20.loop_outcome_unexpected"

end Qfx.Drv
