/- family `crash`: store ops + crash exploration on the file-store model (C17), SQL statement failures -/
import Qfx.Drv.Util
import Qfx.Drv.Store
namespace Qfx.Drv
open Qfx Qfx.Store

structure Trace where
  fs0 : FS
  dur0 : FS
  prims : List Prim
  deriving Inhabited

structure CrWorld where
  w : StWorld := {}
  dur : List (String × FS) := []
  traces : List (String × Trace) := []
  deriving Inhabited

def extName : Ext → String
  | .header => "header" | .body => "body" | .session => "session" | .sender => "senderseqnums" | .target => "targetseqnums"

def primLabel : Prim → String
  | .write f _ _ => "write-" ++ extName f
  | .sync f => "sync-" ++ extName f
  | .create f => "create-" ++ extName f
  | .remove f => "remove-" ++ extName f
  | .truncate f _ => "truncate-" ++ extName f

def iterStr (r : List Bytes × IterEnd) : String :=
  joinSp ([match r.2 with | .ok => "ok" | .err => "err" | .fault => "panic", toString r.1.length] ++ r.1.map toHex)

def wholeRangeEnd : Int := 9223372036854775807

/-- record the primitives of an op on a file store, then run it -/
def crTraced (c : CrWorld) (sid : String) (prims : List Prim) (run : StWorld → Option (StWorld × String)) : CrWorld × String :=
  let fs0 := c.w.fsOf sid
  let dur0 := (c.dur.lookup sid).getD {}
  match run c.w with
  | none => (c, "bad-op")
  | some (w', out) =>
    let d := applyPrimsD ⟨fs0, dur0⟩ prims
    ({ w := w', dur := alSet c.dur sid d.dur, traces := alSet c.traces sid ⟨fs0, dur0, prims⟩ }, out)

def crModeOf? : String → Option Mode
  | "process" => some .process | "power" => some .power | _ => none

def crWindow (t : Trace) (i cut : Nat) : String :=
  let prev := if i = 0 then "start" else (match t.prims[i - 1]? with | some p => primLabel p | none => "?")
  let cur := match t.prims[i]? with | some p => primLabel p | none => "end"
  joinSp ["at", prev, cur, if cut = 0 then "none" else "mid"]

def crValidPoint (t : Trace) (i cut : Nat) : Bool :=
  i ≤ t.prims.length && (cut == 0 || (match t.prims[i]? with
    | some (.write _ _ d) => decide (cut < d.length)
    | _ => false))

def crashStep (c : CrWorld) (ws : List String) : CrWorld × String :=
  match ws with
  | ["open", kind, sid] =>
      if kind = "file" ∨ kind = "filens" then
        crTraced c sid (fileOpenPrims (kind == "file") (c.w.fsOf sid) c.w.clock).2 (fun w => storeOpen w kind sid)
      else (match storeOpen c.w kind sid with
        | some (w', out) => ({ c with w := w' }, out)
        | none => (c, "bad-op"))
  | ["crash", sid, i, cut, mode, seqs] =>
      (match c.traces.lookup sid, i.toNat?, cut.toNat?, crModeOf? mode, csvNats? seqs with
      | some t, some i, some cut, some mode, some seqs =>
        if !crValidPoint t i cut then (c, "bad-op") else
        let img := crashImage ⟨t.fs0, t.dur0⟩ t.prims i cut mode
        let r := FileW.open false img c.w.clock
        let hdr := r.fs.header.getD []
        let body := r.fs.body.getD []
        let qs := seqs.map fun (n : Nat) => joinSp ["q", toString n, iterStr (fileIterate hdr body (n : Int) (n : Int) 0)]
        (c, joinSp (["rec", "ok", crWindow t i cut, "c", toString r.st.cache.nextS, toString r.st.cache.nextT,
                     "all", iterStr (fileIterate hdr body 0 wholeRangeEnd 0)] ++ qs))
      | _, _, _, _, _ => (c, "bad-op"))
  | ["crashresume", sid, i, cut, mode] =>
      (match c.traces.lookup sid, c.w.stores.lookup sid, i.toNat?, cut.toNat?, crModeOf? mode with
      | some t, some (.file old), some i, some cut, some mode =>
        if !crValidPoint t i cut then (c, "bad-op") else
        let img := crashImage ⟨t.fs0, t.dur0⟩ t.prims i cut mode
        let w1 : StWorld := { c.w with dir := alSet c.w.dir (filePrefixKey sid) img }
        let c1 : CrWorld := { c with w := w1, dur := alSet c.dur sid img }
        let prims := (fileOpenPrims old.sync img w1.clock).2
        let f := FileW.open old.sync img w1.clock
        let ob : Obs := ⟨true, f.st.cache.nextS, f.st.cache.nextT, decide (f.st.cache.ctime ≠ old.cache.ctime), []⟩
        let w2 : StWorld := { w1 with clock := f.clock, dir := alSet w1.dir (filePrefixKey sid) f.fs, stores := alSet w1.stores sid (.file f.st) }
        let d := applyPrimsD ⟨img, img⟩ prims
        ({ w := w2, dur := alSet c1.dur sid d.dur, traces := alSet c1.traces sid ⟨img, img, prims⟩ },
         joinSp [obsStr ob (some (filesStr f.fs f.st.cache.ctime)), crWindow t i cut, "all",
                 iterStr (fileIterate (f.fs.header.getD []) (f.fs.body.getD []) 0 wholeRangeEnd 0)])
      | _, _, _, _, _ => (c, "bad-op"))
  | "sqlfail" :: sid :: k :: rest =>
      (match k.toNat?, parseStoreOp rest, c.w.stores.lookup sid with
      | some k, some (sid', o), some (.sql st) =>
        if sid' ≠ sid then (c, "bad-op") else
        let (s, ob) := (SqlW.mk st (c.w.dbOf sid) c.w.clock).stepF (some k) o
        ({ c with w := { c.w with clock := s.clock, db := alSet c.w.db sid s.db, stores := alSet c.w.stores sid (.sql s.st) } },
         obsStr ob none)
      | _, _, _ => (c, "bad-op"))
  | _ =>
    match parseStoreOp ws with
    | none => (c, "bad-op")
    | some (sid, o) =>
      match c.w.stores.lookup sid with
      | some (.file st) => crTraced c sid (fileOpPrims st (c.w.fsOf sid) c.w.clock o).2.1 (fun w => storeApply w sid o)
      | _ => (match storeApply c.w sid o with
        | some (w', out) => ({ c with w := w' }, out)
        | none => (c, "bad-op"))

def crashFamily : Family := { σ := CrWorld, init := {}, step := crashStep }
end Qfx.Drv
