/- family `store`: the store models of Qfx.Model.Store run on the op lines of harness/fam_store.go -/
import Qfx.Drv.Util
import Qfx.Model.Store
namespace Qfx.Drv
open Qfx Qfx.Store

inductive Inst where
  | mem (st : MemStore)
  | file (st : FStore)
  | sql (st : SStore)
  deriving Inhabited

/-- all stores of one case: one clock, one directory (files per session id), one database (rows per session id) -/
structure StWorld where
  clock : Nat := 1
  dir : List (String × FS) := []
  db : List (String × Tables) := []
  stores : List (String × Inst) := []
  deriving Inhabited

def alSet {α} (l : List (String × α)) (k : String) (v : α) : List (String × α) := bset l k v

/-- store/file `createFilenamePrefix` on the session names of the line protocol (`<SenderCompID>[.ss<sub>][.sl<loc>][.ts<sub>]
    [.tl<loc>][.q<qualifier>]`, BeginString FIX.4.2, TargetCompID TW): the non-empty sender parts joined by `_`, the non-empty target
    parts joined by `_`, the qualifier if any.  The files of a session are found under THIS key — which is not injective: a
    SenderSubID `X` and a SenderLocationID `X` (likewise on the target side) give the same names. -/
def filePrefixKey (sid : String) : String :=
  let parts := sid.splitOn "."
  let comp (tag : String) : Option String :=
    (parts.drop 1).findSome? fun p => if p.startsWith tag && (tag != "q" || true) then some (p.drop tag.length).toString else none
  let snd := [some (parts.headD ""), comp "ss", comp "sl"].filterMap id
  let tgt := [some "TW", comp "ts", comp "tl"].filterMap id
  let q := (parts.drop 1).findSome? fun p =>
    if p.startsWith "q" then some (p.drop 1).toString else none
  "-".intercalate (["FIX.4.2", "_".intercalate snd, "_".intercalate tgt] ++ (match q with | some x => [x] | none => []))

-- the ambiguity behind the known finding `C16/sessions_share_files` (the real store gives both sessions these names), and the keys of
-- ordinary sessions
#guard filePrefixKey "R.slX" == "FIX.4.2-R_X-TW" && filePrefixKey "R.ssX" == "FIX.4.2-R_X-TW"
#guard filePrefixKey "R.tlX" == filePrefixKey "R.tsX" && filePrefixKey "R.tlX" != filePrefixKey "R.tlY"
#guard filePrefixKey "AB" == "FIX.4.2-AB-TW" && filePrefixKey "AB.ssS.slL.tsT.tlU.qQ" == "FIX.4.2-AB_S_L-TW_T_U-Q"

def StWorld.fsOf (w : StWorld) (sid : String) : FS := (w.dir.lookup (filePrefixKey sid)).getD {}
def StWorld.dbOf (w : StWorld) (sid : String) : Tables := (w.db.lookup sid).getD {}

def parseStoreOp : List String → Option (String × Op)
  | ["setS", sid, n] => n.toNat?.map fun n => (sid, .setS n)
  | ["setT", sid, n] => n.toNat?.map fun n => (sid, .setT n)
  | ["incS", sid] => some (sid, .incS)
  | ["incT", sid] => some (sid, .incT)
  | ["save", sid, n, h] => do let n ← n.toNat?; let b ← fromHex h; pure (sid, .save n b)
  | ["saveIncr", sid, n, h] => do let n ← n.toNat?; let b ← fromHex h; pure (sid, .saveIncr n b)
  | ["get", sid, b, e] => do let b ← b.toInt?; let e ← e.toInt?; pure (sid, .get b e)
  | ["iter", sid, b, e, k] => do let b ← b.toInt?; let e ← e.toInt?; let k ← k.toNat?; pure (sid, .iter b e k)
  | ["refresh", sid] => some (sid, .refresh)
  | ["reset", sid] => some (sid, .reset)
  | ["reopen", sid] => some (sid, .reopen)
  | _ => none

def imgStr : Option Bytes → String
  | none => "absent"
  | some b => toHex b

def sessClass (fs : FS) (ctime : Nat) : String :=
  match fs.session with
  | none => "absent"
  | some [] => "empty"
  | some b => match parseTime b with
    | none => "bad"
    | some t => if t = ctime then "cur" else "other"

def filesStr (fs : FS) (ctime : Nat) : String :=
  joinSp ["f", imgStr fs.header, imgStr fs.body, imgStr fs.sender, imgStr fs.target, sessClass fs ctime]

def obsStr (o : Obs) (files : Option String) : String :=
  joinSp (["r", if o.ok then "ok" else "err", "c", toString o.sender, toString o.target, "e", yn o.renewed,
           "m", toString o.msgs.length] ++ o.msgs.map toHex ++ (match files with | some f => [f] | none => []))

def storeOpen (w : StWorld) (kind sid : String) : Option (StWorld × String) :=
  match kind with
  | "mem" =>
      let m := MemW.create w.clock
      some ({ w with clock := m.clock, stores := alSet w.stores sid (.mem m.st) },
            obsStr ⟨true, m.st.nextS, m.st.nextT, true, []⟩ none)
  | "file" | "filens" =>
      let f := FileW.open (kind == "file") (w.fsOf sid) w.clock
      some ({ w with clock := f.clock, dir := alSet w.dir (filePrefixKey sid) f.fs, stores := alSet w.stores sid (.file f.st) },
            obsStr ⟨true, f.st.cache.nextS, f.st.cache.nextT, true, []⟩ (some (filesStr f.fs f.st.cache.ctime)))
  | "sql" =>
      let s := SqlW.open (w.dbOf sid) w.clock
      some ({ w with clock := s.clock, db := alSet w.db sid s.db, stores := alSet w.stores sid (.sql s.st) },
            obsStr ⟨true, s.st.cache.nextS, s.st.cache.nextT, true, []⟩ none)
  | _ => none

def storeApply (w : StWorld) (sid : String) (o : Op) : Option (StWorld × String) :=
  match w.stores.lookup sid with
  | none => none
  | some (.mem st) =>
      let (m, ob) := (MemW.mk st w.clock).step o
      some ({ w with clock := m.clock, stores := alSet w.stores sid (.mem m.st) }, obsStr ob none)
  | some (.file st) =>
      let (f, ob) := (FileW.mk st (w.fsOf sid) w.clock).step o
      some ({ w with clock := f.clock, dir := alSet w.dir (filePrefixKey sid) f.fs, stores := alSet w.stores sid (.file f.st) },
            obsStr ob (some (filesStr f.fs f.st.cache.ctime)))
  | some (.sql st) =>
      let (s, ob) := (SqlW.mk st (w.dbOf sid) w.clock).step o
      some ({ w with clock := s.clock, db := alSet w.db sid s.db, stores := alSet w.stores sid (.sql s.st) }, obsStr ob none)

def storeStep (w : StWorld) (ws : List String) : StWorld × String :=
  match ws with
  | ["open", kind, sid] => (match storeOpen w kind sid with
      | some r => r
      | none => (w, "bad-op"))
  | "sqlinter" :: _ :: _ :: rest =>
      -- `sqlinter <sid> <k> <op1> / <op2>`: op2 (what another goroutine of the engine does on the same store) runs to completion
      -- while op1 is about to execute its k-th SQL statement.  The pairs generated are a target-side op against a sender-side op
      -- (the engine's event loop against a sending application goroutine): they touch different columns and different cache
      -- fields, so the outcome is that of running them one after the other — op2, then op1, whose observation is reported.
      (match rest.span (· != "/") with
       | (o1, _ :: o2) =>
         (match parseStoreOp o1, parseStoreOp o2 with
          | some (sid1, a), some (sid2, b) =>
            if sid1 ≠ sid2 then (w, "bad-op") else
            (match storeApply w sid2 b with
             | some (w1, _) => (match storeApply w1 sid1 a with
                                | some r => r
                                | none => (w, "bad-op"))
             | none => (w, "bad-op"))
          | _, _ => (w, "bad-op"))
       | _ => (w, "bad-op"))
  | _ => match parseStoreOp ws with
      | some (sid, o) => (match storeApply w sid o with
          | some r => r
          | none => (w, "bad-op"))
      | none => (w, "bad-op")

def storeFamily : Family := { σ := StWorld, init := {}, step := storeStep }
end Qfx.Drv
