/- family `valid`: the validator model on generated messages against dictionaries built by the C19 builder model (C15) -/
import Qfx.Drv.Dict
import Qfx.Model.Validate
import Qfx.Spec.Validate
namespace Qfx.Drv
open Qfx Qfx.Dict Qfx.Validate

/-- inverse of the harness' `encName` (percent escapes), to bytes -/
def decNameBytes (s : String) : Bytes :=
  if s == "%" then [] else
  let rec go : List Char → Bytes
    | '%' :: a :: b :: rest =>
      (match hexVal a, hexVal b with
       | some x, some y => (x * 16 + y) :: go rest
       | _, _ => 37 :: go (a :: b :: rest))
    | c :: rest => c.toNat :: go rest
    | [] => []
  go s.toList

def isMultiTypeName (t : String) : Bool :=
  t == "MULTIPLESTRINGVALUE" || t == "MULTIPLEVALUESTRING" || t == "MULTIPLECHARVALUE"

/-- the validator's view of a dictionary built by `Qfx.Dict.build` from the AST -/
def mkVDict (a : Ast String) (d : Dict String) : VDict :=
  let msgs : List (Bytes × MDef) := d.msgs.map (fun p => (decNameBytes p.1, p.2))
  let maxTag := a.fields.foldl (fun m f => max m f.num) 0
  let table : Array (Option FType) := a.fields.foldl (fun (arr : Array (Option FType)) f =>
      arr.set! f.num (some { proto := protoOfType f.type, enums := f.enums.map decNameBytes, multi := isMultiTypeName f.type }))
    (Array.replicate (maxTag + 1) none)
  { msg? := fun mt => (msgs.find? (fun p => p.1 == mt)).map (·.2)
    header := d.header
    trailer := d.trailer
    ftype := fun t => (table[t]?).join }

structure ValidSt where
  app : Option VDict := none
  tr : Option VDict := none

def parseBits (s : String) : Option Settings :=
  match s.toList with
  | [a, b, c, d, e] =>
    if [a, b, c, d, e].all (fun x => x == '0' || x == '1') then
      some { checkOrder := a == '1', rejectInvalid := b == '1', allowUnknown := c == '1',
             checkUserDefined := d == '1', checkHaveValues := e == '1' }
    else none
  | _ => none

/-- split `tag=value<SOH>` fields -/
def splitFields (b : Bytes) : Option (List TV) :=
  let rec go (rest : Bytes) (cur : Bytes) (acc : List TV) : Option (List TV) :=
    match rest with
    | [] => if cur.isEmpty then some acc.reverse else none
    | c :: r =>
      if c = 1 then
        let fld := cur.reverse
        let tagB := fld.takeWhile (· ≠ 61)
        let val := (fld.dropWhile (· ≠ 61)).drop 1
        if tagB.isEmpty || !tagB.all isDigit then none
        else go r [] ({ tag := digitsVal tagB, value := val } :: acc)
      else go r (c :: cur) acc
  go b [] []

def parsePMsg (hex h b t : String) : Option PMsg :=
  match fromHex hex, csvNats? h, csvNats? b, csvNats? t with
  | some raw, some hs, some bs, some ts => (splitFields raw).map (fun fs => { fields := fs, hdr := hs, body := bs, trl := ts })
  | _, _, _, _ => none

def verdictLine : V Unit → String
  | .ok _ => "accept"
  | .error (.reject r) => "reject " ++ toString r.reason ++ " " ++ (match r.ref with | some t => toString t | none => "-")
  | .error .panic => "panic"
  | .error .fuelOut => "fuel-out"

def validStep (s : ValidSt) (w : List String) : ValidSt × String :=
  match w with
  | "ddict" :: which :: _ :: toks =>
    (match parseAst toks with
     | none => (s, "bad-op")
     | some a =>
       match buildModel a with
       | .error e => (s, errLine e)
       | .ok d =>
         let vd := mkVDict a d
         if which == "app" then ({ s with app := some vd }, "loaded")
         else if which == "tr" then ({ s with tr := some vd }, "loaded")
         else (s, "bad-op"))
  | ["v", bits, _, _, _, hex, h, b, t] =>
    (s, match s.app with
      | none => "nodict"
      | some app =>
        match parseBits bits, parsePMsg hex h b t with
        | some st, some m => verdictLine (validate app s.tr st m)
        | _, _ => "bad-op")
  | _ => (s, "bad-op")

def validFamily : Family := { σ := ValidSt, init := {}, step := validStep }
end Qfx.Drv
