/-
  family `conc-mon`: the monitor of C02 (`Qfx.Conc.MonitorC02`, the predicate `C02_all_schedules` is about) evaluated on
  the event list a stress round of the REAL engine produced, plus the final-store and liveness clauses.
  Input: `round k=v… => ok <finalSender> <storedRanges> <accepted> <live> <tokens…>`; output `ok` or `bad <clause>; …`.
-/
import Qfx.Drv.Conc
import Qfx.Drv.ValMon
import Qfx.Spec.Conc
namespace Qfx.Drv
open Qfx.Conc

def parseTok? (t : String) : Option Ev :=
  if t == "R" then some .reset
  else if t == "L" then some .lockR
  else if t == "U" then some .unlockR
  else if t.startsWith "a" then
    match ((t.drop 1).toString.splitOn ".").map String.toNat? with
    | [some n, some sn, some b] => some (.assign n sn (b == 1))
    | _ => none
  else if t.startsWith "w" then
    let body := (t.drop 1).toString
    if body.endsWith "f" then (String.ofList body.toList.dropLast).toNat?.map (fun n => .wire n .first)
    else match (body.splitOn "d").map String.toNat? with
      | [some n, some r] => some (.wire n (.dup r))
      | _ => none
  else none

def parseRanges? (s : String) : Option (List Nat) :=
  if s == "-" then some [] else
  (s.splitOn ",").foldlM (fun acc part =>
    match (part.splitOn "-").map String.toNat? with
    | [some a, some b] => some (acc ++ (List.range (b + 1 - a)).map (· + a))
    | _ => none) []

/-- numbers handed out since the last reset, and the first-time numbers seen on the connection since then -/
def lastEpoch (evs : List Ev) : List Nat × List Nat :=
  evs.foldl (fun (acc : List Nat × List Nat) e => match e with
    | .reset => ([], [])
    | .assign n _ _ => (n :: acc.1, acc.2)
    | .wire n .first => (acc.1, n :: acc.2)
    | _ => acc) ([], [])

def sortedNats (l : List Nat) : List Nat := (l.toArray.qsort (· < ·)).toList

def concMonStep (_ : Unit) (w : List String) : Unit × String :=
  let (op, obs) := splitObs w
  match op with
  | ["srcfacts"] => ((), if obs.head? == some "facts" then "ok" else "bad C02.unparsed_observation")
  | "round" :: rest =>
    let kv := kvOf rest
    match kvNat? kv "persist", obs with
    | some persist, "ok" :: snd :: stored :: _acc :: live :: toks =>
      if toks.contains "X" then ((), "bad C02.wire_garbled") else
      (match snd.toNat?, parseRanges? stored, toks.mapM parseTok? with
       | some sender, some storedNums, some evs =>
         let p := persist == 1
         let b1 := match monitorVerdict p 1 evs with
           | some c => [c]
           | none => []
         let b2 := match monitorFinal p 1 evs with
           | some (cur, saved) =>
             (if cur != sender then ["C02.final_sender"] else []) ++
             (if sortedNats saved != sortedNats storedNums then ["C02.final_store"] else [])
           | none => []
         let b3 :=
           if live == "1" then
             let (asg, wired) := lastEpoch evs
             if asg.all (fun n => wired.contains n) then [] else ["C02.not_transmitted"]
           else []
         ((), verdict (b1 ++ b2 ++ b3))
       | _, _, _ => ((), "bad C02.unparsed_observation"))
    | some _, "stalled" :: stage :: _ => ((), "bad C02.stalled{" ++ stage ++ "}")
    | some _, ["panic"] => ((), "bad C02.engine_panic")
    | some _, ["crashed"] => ((), "bad C02.engine_crashed")
    | _, _ => ((), "bad C02.unparsed_observation")
  | _ => ((), "bad-op")

def concMonFamily : Family := { σ := Unit, init := (), step := concMonStep }
end Qfx.Drv
