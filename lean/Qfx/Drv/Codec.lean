/- line-protocol driver of family `codec`: the model (Qfx.Model.{TagValue,FieldMap,Group,Message}) run on one op line -/
import Qfx.Drv.Util
import Qfx.Spec.Codec
namespace Qfx.Drv
open Qfx

structure CodecSt where
  m : Message
  /-- the copy taken by `fork`, kept aside while `m` goes on being edited -/
  side : Option Message := none
  tdefs : List (String × (List Tag × List Tag))
  adefs : List (String × List (Bytes × List DNode))
  deriving Inhabited

def CodecSt.init : CodecSt := { m := Message.new, tdefs := [], adefs := [] }

def secOf? : String → Option Sec
  | "h" => some .h | "b" => some .b | "t" => some .t | _ => none

/-! token parsers: template, instance, dictionary tree -/

def tokTag? (pre : String) (tok : String) : Option Int :=
  if tok.startsWith pre then (tok.drop pre.length).toInt? else none

mutual
  partial def pTemplate : List String → Option (List Item × List String)
    | "(" :: r => pItems r []
    | _ => none
  partial def pItems : List String → List Item → Option (List Item × List String)
    | ")" :: r, acc => some (acc.reverse, r)
    | tok :: r, acc =>
      (match tokTag? "e:" tok with
       | some t => pItems r (.elem t :: acc)
       | none =>
         match tokTag? "g:" tok with
         | some t => (match pTemplate r with
                      | some (sub, r') => pItems r' (.group t sub :: acc)
                      | none => none)
         | none => none)
    | [], _ => none
end

mutual
  partial def pInst : List String → Option (GFld × List String)
    | tok :: r =>
      (match tokTag? "grp:" tok with
       | some t =>
         (match pTemplate r with
          | some (tm, n :: r') =>
            (match n.toNat? with
             | some n => (match pEntries n r' [] with
                          | some (es, r'') => some (.grp t tm es, r'')
                          | none => none)
             | none => none)
          | _ => none)
       | none => none)
    | [] => none
  partial def pEntries : Nat → List String → List (List GFld) → Option (List (List GFld) × List String)
    | 0, r, acc => some (acc.reverse, r)
    | n + 1, "[" :: r, acc =>
      (match pFlds r [] with
       | some (e, r') => pEntries n r' (e :: acc)
       | none => none)
    | _, _, _ => none
  partial def pFlds : List String → List GFld → Option (List GFld × List String)
    | "]" :: r, acc => some (acc.reverse, r)
    | tok :: r, acc =>
      if tok.startsWith "f:" then
        (match tok.splitOn ":" with
         | [_, t, v] => (match t.toInt?, fromHex v with
                         | some t, some v => pFlds r (.fld t v :: acc)
                         | _, _ => none)
         | _ => none)
      else
        (match pInst (tok :: r) with
         | some (g, r') => pFlds r' (g :: acc)
         | none => none)
    | [], _ => none
end

mutual
  partial def pTree : List String → Option (List DNode × List String)
    | "(" :: r => pNodes r []
    | _ => none
  partial def pNodes : List String → List DNode → Option (List DNode × List String)
    | ")" :: r, acc => some (acc.reverse, r)
    | tok :: r, acc =>
      (match tokTag? "n:" tok with
       | some t =>
         (match r with
          | "(" :: _ => (match pTree r with
                         | some (ch, r') => pNodes r' (.mk t ch :: acc)
                         | none => none)
          | _ => pNodes r (.mk t [] :: acc))
       | none => none)
    | [], _ => none
end

/-! observations -/

def csvTags (l : List Tag) : String := Spec.csvOf (Spec.sortInts l)

def parseObs (m : Message) : String :=
  let f := ",".intercalate (m.fields.map (fun tv => s!"{tv.tag}:{toHex tv.value}:{tv.bytes.length}"))
  s!"ok F {f} B {toHex m.bodyBytes} H {csvTags (alKeys m.header.lookup)} D {csvTags (alKeys m.body.lookup)} T {csvTags (alKeys m.trailer.lookup)}"

mutual
  partial def obsEntriesM (tmpl : List Item) : List GEntry → List String
    | [] => []
    | e :: es => ("[" :: obsEntryM e tmpl) ++ ["]"] ++ obsEntriesM tmpl es
  partial def obsEntryM (e : GEntry) : List Item → List String
    | [] => []
    | it :: r =>
      (match alFind e.lookup it.tag with
       | none => []
       | some range =>
         match it with
         | .elem t => (match range with
                       | tv :: _ => [s!"f:{t}:{toHex tv.value}"]
                       | [] => ["fault"])
         | .group t sub =>
           (match getGroup sub range with
            | .ok gs => s!"g:{t}:{gs.length}" :: obsEntriesM sub gs
            | .err r => [s!"gerr:{t}:{r}"]
            | .fault _ => ["fault"])) ++ obsEntryM e r
end

def grpObs (arr : List TagValue) (fm : FieldMap) (tag : Tag) (tmpl : List Item) : String :=
  match alFind fm.lookup tag with
  | none => "err 8"
  | some f =>
    match getGroup tmpl (f.full arr) with
    | .ok gs =>
      let toks := obsEntriesM tmpl gs
      if toks.contains "fault" then "panic" else joinSp ("grp" :: toString gs.length :: toks)
    | .err r => s!"err {r}"
    | .fault _ => "panic"

def resMsg (st : CodecSt) (r : Res Message) : CodecSt × String :=
  match r with
  | .ok m => ({ st with m := m }, "ok")
  | .err _ => (st, "err")
  | .fault _ => (st, "panic")

def doParse (st : CodecSt) (mode : String) (w : Bytes) : CodecSt × String :=
  match Spec.dictsOf st.tdefs st.adefs mode with
  | none => (st, "bad-op")
  | some d =>
    match parseMessage Fixes.cur d w with
    | .ok m => ({ st with m := m }, parseObs m)
    | .err _ => (st, "err")
    | .fault _ => (st, "panic")

def codecStep (st : CodecSt) (w : List String) : CodecSt × String :=
  let fx := Fixes.cur
  match w with
  | ["new"] => ({ st with m := Message.new, side := none }, "ok")
  | [k, s, t, v] =>
    (match secOf? s, t.toInt? with
     | some s, some t =>
       if k = "set" ∨ k = "sets" ∨ k = "setf" ∨ k = "setw" then
         (match fromHex v with
          | some v => resMsg st (st.m.setBytes fx s t v)
          | none => (st, "bad-op"))
       else if k = "seti" then
         (match v.toInt? with
          | some v => resMsg st (st.m.setInt fx s t v)
          | none => (st, "bad-op"))
       else if k = "setb" then
         (match parseYN? v with
          | some v => resMsg st (st.m.setBool fx s t v)
          | none => (st, "bad-op"))
       else (st, "bad-op")
     | _, _ =>
       if k = "ddef" ∧ s = "t" then
         (match csvInts? v with
          | some _ => (st, "bad-op")   -- `ddef t id hdr trl` has five words
          | none => (st, "bad-op"))
       else (st, "bad-op"))
  | ["ddef", "t", id, h, t] =>
    (match csvInts? h, csvInts? t with
     | some h, some t => ({ st with tdefs := (id, (h, t)) :: st.tdefs.filter (·.1 ≠ id) }, "ok")
     | _, _ => (st, "bad-op"))
  | "ddef" :: "a" :: id :: mt :: tree =>
    (match fromHex mt, pTree tree with
     | some mt, some (nodes, []) => ({ st with adefs := st.adefs ++ [(id, [(mt, nodes)])] }, "ok")
     | _, _ => (st, "bad-op"))
  | ["rm", s, t] =>
    (match secOf? s, t.toInt? with
     | some s, some t => ({ st with m := st.m.remove fx s t }, "ok")
     | _, _ => (st, "bad-op"))
  | ["clear", s] =>
    (match secOf? s with
     | some s => ({ st with m := st.m.clear s }, "ok")
     | none => (st, "bad-op"))
  | "setgrp" :: s :: inst =>
    (match secOf? s, pInst inst with
     | some s, some (.grp t tm es, []) => resMsg st (st.m.setGroup s t tm es)
     | _, _ => (st, "bad-op"))
  | ["copy"] => resMsg st (st.m.copy fx)
  | ["fork"] =>
    (match st.m.copy fx with
     | .ok c => ({ st with side := some c }, "ok")
     | .err _ => (st, "err")
     | .fault _ => (st, "panic"))
  | ["sidebuild"] =>
    (match st.side with
     | none => (st, "none")
     | some c =>
       match c.bytes fx with
       | .ok (b, c') => ({ st with side := some c' }, s!"bytes {toHex b} wf:{yn (Spec.wireWF b)}")
       | .err _ => (st, "err")
       | .fault _ => (st, "panic"))
  | [k] =>
    if k = "build" ∨ k = "bytes" then
      (match st.m.bytes fx with
       | .ok (b, m') => ({ st with m := m' }, s!"bytes {toHex b} wf:{yn (Spec.wireWF b)}")
       | .err _ => (st, "err")
       | .fault _ => (st, "panic"))
    else if k = "copybuild" then
      (match st.m.bytes fx with
       | .ok (b, m') =>
         (match m'.copy fx with
          | .ok c => (match c.bytes fx with
                      | .ok (b2, _) => ({ st with m := m' }, s!"bytes {toHex b} {toHex b2}")
                      | .err _ => ({ st with m := m' }, "err")
                      | .fault _ => ({ st with m := m' }, "panic"))
          | .err _ => ({ st with m := m' }, "err")
          | .fault _ => ({ st with m := m' }, "panic"))
       | .err _ => (st, "err")
       | .fault _ => (st, "panic"))
    else if k = "rebuild" then
      (match st.m.buildWithBodyBytes fx st.m.bodyBytes with
       | .ok (b, m') => ({ st with m := m' }, s!"bytes {toHex b}")
       | .err _ => (st, "err")
       | .fault _ => (st, "panic"))
    else if k = "static" then
      (st, s!"hdr {csvTags staticHeaderTags} trl {csvTags staticTrailerTags}")
    else (st, "bad-op")
  | ["reparse", mode] =>
    (match st.m.bytes fx with
     | .ok (b, m') => doParse { st with m := m' } mode b
     | .err _ => (st, "err")
     | .fault _ => (st, "panic"))
  | ["parse", mode, h] =>
    (match fromHex h with
     | some b => doParse st mode b
     | none => (st, "bad-op"))
  | ["has", s, t] =>
    (match secOf? s, t.toInt? with
     | some s, some t => (st, yn ((st.m.sec s).has t))
     | _, _ => (st, "bad-op"))
  | ["get", s, t] =>
    (match secOf? s, t.toInt? with
     | some s, some t =>
       (st, match (st.m.sec s).getBytes st.m.fields t with
            | .ok v => s!"val {toHex v}"
            | .err _ => "err 8"
            | .fault _ => "panic")
     | _, _ => (st, "bad-op"))
  | ["geti", s, t] =>
    (match secOf? s, t.toInt? with
     | some s, some t =>
       (st, match (st.m.sec s).getInt st.m.fields t with
            | .ok v => s!"int {v}"
            | .err e => if e = "missing" then "err 8" else "err 6"
            | .fault _ => "panic")
     | _, _ => (st, "bad-op"))
  | ["tags", s] =>
    (match secOf? s with
     | some s => (st, s!"tags {csvTags (alKeys (st.m.sec s).lookup)}")
     | none => (st, "bad-op"))
  | "getgrp" :: s :: t :: tmpl =>
    (match secOf? s, t.toInt?, pTemplate tmpl with
     | some s, some t, some (tm, []) => (st, grpObs st.m.fields (st.m.sec s) t tm)
     | _, _, _ => (st, "bad-op"))
  | _ => (st, "bad-op")

def codecFamily : Family := { σ := CodecSt, init := CodecSt.init, step := codecStep }
end Qfx.Drv
