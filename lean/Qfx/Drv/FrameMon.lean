/- family `frame-mon`: the C12 monitor (Qfx.Spec.Framer.monRead) on `op … => observation …` lines -/
import Qfx.Drv.Util
import Qfx.Drv.Frame
import Qfx.Drv.ValMon
import Qfx.Spec.Framer
namespace Qfx.Drv
open Qfx Qfx.Framer Qfx.Spec

def parseFrames? (s : String) : Option (List Bytes) :=
  if s = "-" then some [] else (s.splitOn ",").mapM fromHex

/-- `frames <list> end <class>` -/
def parseObs? (obs : List String) : Option (List Bytes × String) :=
  match obs with
  | ["frames", fs, "end", e] => (parseFrames? fs).map (fun f => (f, e))
  | _ => none

def frameMonStep (st : MonState) (w : List String) : MonState × String :=
  let (op, obs) := splitObs w
  match parseObs? obs with
  | none => (st, "bad-op")
  | some (frames, e) =>
    let startStream (s : Bytes) (parts : Option Parts) (name : String) : MonState × String :=
      let st1 : MonState := { stream := s, parts := parts, ref := none, spec := framesWhole s }
      let bad := monRead st1 name false "eof" frames e
      ({ st1 with ref := if e = "panic" ∨ e = "hang" then none else some (frames, e) }, verdict bad)
    match op with
    | ["stream", h] => (match fromHex h with
        | some s => startStream s none "stream"
        | none => (st, "bad-op"))
    | "parts" :: toks => (match toks.mapM parsePart? with
        | some toks =>
          let ps := mkParts toks
          -- the claimed decomposition is checked here, not trusted: messages well-formed, separators without "8="
          if ps.ok then startStream ps.stream (some ps) "parts" else (st, "bad-op")
        | none => (st, "bad-op"))
    | ["cuts", sz, ed] => (match parseSizes? sz, parseYN? ed with
        | some _, some _ => (st, verdict (monRead st "cuts" false "eof" frames e))
        | _, _ => (st, "bad-op"))
    | ["loop", sz, ed] => (match parseSizes? sz, parseYN? ed with
        | some _, some _ => (st, verdict (monRead st "loop" true "eof" frames e))
        | _, _ => (st, "bad-op"))
    | ["cuts", sz, ed, ee] => (match parseSizes? sz, parseYN? ed, parseEndErr? ee with
        | some _, some _, some ee => (st, verdict (monRead st "cuts" false ee frames e))
        | _, _, _ => (st, "bad-op"))
    | ["loop", sz, ed, ee] => (match parseSizes? sz, parseYN? ed, parseEndErr? ee with
        | some _, some _, some ee => (st, verdict (monRead st "loop" true ee frames e))
        | _, _, _ => (st, "bad-op"))
    | _ => (st, "bad-op")

def frameMonFamily : Family := { σ := MonState, init := {}, step := frameMonStep }
end Qfx.Drv
