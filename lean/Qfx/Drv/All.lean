/- registry of line-protocol families compiled into the driver: one import + one list entry per family -/
import Qfx.Drv.Util
import Qfx.Drv.Val
import Qfx.Drv.ValMon
import Qfx.Drv.Sched
import Qfx.Drv.Codec
import Qfx.Drv.CodecMon
namespace Qfx.Drv

def families : List (String × Family) :=
  [ ("val", valFamily), ("val-mon", valMonFamily)
  , ("sched", schedFamily)
  , ("codec", codecFamily), ("codec-mon", codecMonFamily)
  ]

end Qfx.Drv
