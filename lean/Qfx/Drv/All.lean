/- registry of line-protocol families compiled into the driver: one import + one list entry per family -/
import Qfx.Drv.Util
import Qfx.Drv.Val
import Qfx.Drv.ValMon
import Qfx.Drv.Sched
import Qfx.Drv.SchedMon
import Qfx.Drv.Sess
import Qfx.Drv.SessMon
import Qfx.Drv.Link
import Qfx.Drv.Robust
import Qfx.Drv.Dict
import Qfx.Drv.DictMon
import Qfx.Drv.Valid
import Qfx.Drv.ValidMon
import Qfx.Drv.Frame
import Qfx.Drv.FrameMon
import Qfx.Drv.Store
import Qfx.Drv.StoreMon
import Qfx.Drv.Crash
import Qfx.Drv.CrashMon
import Qfx.Drv.Conc
import Qfx.Drv.ConcMon
import Qfx.Drv.Codec
import Qfx.Drv.CodecMon
import Qfx.Drv.Sock
import Qfx.Drv.SockMon
import Qfx.Drv.Loop
import Qfx.Drv.LoopMon
import Qfx.Drv.Drain
namespace Qfx.Drv

def families : List (String × Family) :=
  [ ("val", valFamily), ("val-mon", valMonFamily)
  , ("sched", schedFamily), ("sched-mon", schedMonFamily)
  , ("sess", sessFamily), ("sess-mon", sessMonFamily)
  , ("link", linkFamily), ("link-mon", linkMonFamily)
  , ("robust", robustFamily), ("robust-mon", robustMonFamily)
  , ("dict", dictFamily), ("dict-mon", dictMonFamily)
  , ("valid", validFamily), ("valid-mon", validMonFamily)
  , ("frame", frameFamily), ("frame-mon", frameMonFamily)
  , ("store", storeFamily), ("store-mon", storeMonFamily)
  , ("crash", crashFamily), ("crash-mon", crashMonFamily)
  , ("conc", concFamily), ("conc-mon", concMonFamily)
  , ("codec", codecFamily), ("codec-mon", codecMonFamily)
  , ("sock", sockFamily), ("sock-mon", sockMonFamily)
  , ("sockj", sockFamily), ("sockj-mon", sockMonFamily)
  , ("loop", loopFamily), ("loop-mon", loopMonFamily)
  , ("drain", drainFamily), ("drain-mon", drainMonFamily)
  ]

end Qfx.Drv
