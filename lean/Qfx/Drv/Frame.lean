/- family `frame`: the model of parser.go run on one op line (see harness/fam_frame.go for the protocol) -/
import Qfx.Drv.Util
import Qfx.Model.Framer
namespace Qfx.Drv
open Qfx Qfx.Framer

/-- `n` or `nxk` (k chunks of n bytes), comma separated; `-` = none -/
def parseSizes? (s : String) : Option (List Nat) :=
  if s = "-" then some [] else
  (s.splitOn ",").foldr (fun t acc => do
    let rest ← acc
    match t.splitOn "x" with
    | [n] => do let n ← n.toNat?; pure (n :: rest)
    | [n, k] => do let n ← n.toNat?; let k ← k.toNat?; pure (List.replicate k n ++ rest)
    | _ => none) (some [])

/-- chunk i takes min(size_i, what is left); what is left after the last size is one more chunk -/
def cutStream : Bytes → List Nat → List Bytes
  | [], [] => []
  | s, [] => [s]
  | s, n :: ns => s.take n :: cutStream (s.drop n) ns

def hexList (fs : List Bytes) : String :=
  if fs.isEmpty then "-" else ",".intercalate (fs.map toHex)

def endStr : End → String
  | .err c => if c = "eof" then "eof" else if c = "io" then "io" else "length"
  | .fault _ => "panic"

def showOut (o : Out) : String := "frames " ++ hexList o.frames ++ " end " ++ endStr o.end_

def showLoop (o : Out) : String :=
  match o.end_ with
  | .fault _ => "frames - end panic"
  | .err _ => "frames " ++ hexList o.frames ++ " end closed"

/-- `j<hex>` / `m<hex>` tokens of a `parts` op -/
def parsePart? (t : String) : Option (Bool × Bytes) :=
  match t.toList with
  | 'j' :: r => (fromHex (String.ofList r)).map (fun b => (false, b))
  | 'm' :: r => (fromHex (String.ofList r)).map (fun b => (true, b))
  | _ => none

/-- how the reader ends: io.EOF or a connection error -/
def parseEndErr? (s : String) : Option String := if s = "eof" ∨ s = "io" then some s else none

def readOp (stream : Bytes) (sh : Out → String) (sz e ee : String) : String :=
  match parseSizes? sz, parseYN? e, parseEndErr? ee with
  | some sizes, some eofd, some ee => sh (framesRead { chunks := cutStream stream sizes, eofd := eofd, endErr := ee })
  | _, _, _ => "bad-op"

def frameStep (stream : Bytes) (w : List String) : Bytes × String :=
  match w with
  | ["stream", h] => (match fromHex h with
      | some s => (s, showOut (framesChunked false [s]))
      | none => (stream, "bad-op"))
  | "parts" :: toks => (match toks.mapM parsePart? with
      | some ps => let s := (ps.map (·.2)).flatten; (s, showOut (framesChunked false [s]))
      | none => (stream, "bad-op"))
  | ["cuts", sz, e] => (stream, readOp stream showOut sz e "eof")
  | ["loop", sz, e] => (stream, readOp stream showLoop sz e "eof")
  | ["cuts", sz, e, ee] => (stream, readOp stream showOut sz e ee)
  | ["loop", sz, e, ee] => (stream, readOp stream showLoop sz e ee)
  | _ => (stream, "bad-op")

def frameFamily : Family := { σ := Bytes, init := [], step := frameStep }
end Qfx.Drv
