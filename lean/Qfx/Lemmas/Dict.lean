/-
  Qfx.Lemmas.Dict — helper lemmas for C19 (data dictionary builder against the declarative spec).
  Property theorems are in Qfx/Props/C19.lean.
-/
import Qfx.Spec.Dict
namespace Qfx.Dict

/-! ## 1. lookups by key -/
section Lookup
variable {α κ : Type} [DecidableEq κ]

theorem find?_key_some {key : α → κ} {l : List α} {k : κ} {x : α}
    (h : l.find? (fun x => key x == k) = some x) : x ∈ l ∧ key x = k := by
  refine ⟨List.mem_of_find?_eq_some h, ?_⟩
  have := List.find?_some h
  simpa using this

theorem find?_key_of_mem {key : α → κ} {l : List α} {x : α}
    (hp : l.Pairwise (fun x y => key x ≠ key y)) (hx : x ∈ l) :
    l.find? (fun y => key y == key x) = some x := by
  induction l with
  | nil => cases hx
  | cons y r ih =>
    rw [List.pairwise_cons] at hp
    rw [List.find?_cons]
    rcases List.mem_cons.1 hx with rfl | hx'
    · simp
    · have h1 : key y ≠ key x := hp.1 x hx'
      have h2 : (key y == key x) = false := by simpa using h1
      rw [h2]; exact ih hp.2 hx'

theorem find?_key_of_mem_reverse {key : α → κ} {l : List α} {x : α}
    (hp : l.Pairwise (fun x y => key x ≠ key y)) (hx : x ∈ l) :
    l.reverse.find? (fun y => key y == key x) = some x := by
  apply find?_key_of_mem (key := key)
  · rw [List.pairwise_reverse]; exact hp.imp (fun h => fun e => h e.symm)
  · simpa using hx

theorem eq_of_key_eq {key : α → κ} {l : List α} (hp : l.Pairwise (fun x y => key x ≠ key y))
    {x y : α} (hx : x ∈ l) (hy : y ∈ l) (h : key x = key y) : x = y := by
  have h1 := find?_key_of_mem hp hx
  have h2 := find?_key_of_mem hp hy
  rw [h] at h1; rw [h1] at h2; exact Option.some.inj h2

theorem find?_key_isSome {key : α → κ} {l : List α} {k : κ} :
    (l.find? (fun x => key x == k)).isSome = true ↔ ∃ x ∈ l, key x = k := by
  rw [List.find?_isSome]
  constructor
  · rintro ⟨x, hx, hk⟩; exact ⟨x, hx, by simpa using hk⟩
  · rintro ⟨x, hx, hk⟩; exact ⟨x, hx, by simpa using hk⟩

end Lookup

section
variable {ν : Type} [DecidableEq ν]

/-! ### the tables of the file -/

theorem fieldByName_sound {a : Ast ν} {n : ν} {fd : FieldDecl ν}
    (h : a.fieldByName n = some fd) : FieldNum a n fd.num := by
  unfold Ast.fieldByName at h
  have := find?_key_some (key := FieldDecl.name) h
  exact ⟨fd, by simpa using this.1, this.2, rfl⟩

theorem fieldByName_mem {a : Ast ν} {n : ν} {fd : FieldDecl ν}
    (h : a.fieldByName n = some fd) : fd ∈ a.fields ∧ fd.name = n := by
  unfold Ast.fieldByName at h
  have := find?_key_some (key := FieldDecl.name) h
  exact ⟨by simpa using this.1, this.2⟩

theorem FieldNum.unique {a : Ast ν} (wf : WFNames a) {n : ν} {t t' : Nat}
    (h : FieldNum a n t) (h' : FieldNum a n t') : t = t' := by
  obtain ⟨f, hf, hn, ht⟩ := h
  obtain ⟨f', hf', hn', ht'⟩ := h'
  have : f = f' := eq_of_key_eq (key := FieldDecl.name) wf.fieldNames hf hf' (hn.trans hn'.symm)
  subst this; exact ht.symm.trans ht'

theorem fieldByName_complete {a : Ast ν} (wf : WFNames a) {n : ν} {t : Nat} {fd : FieldDecl ν}
    (h : FieldNum a n t) (hfd : a.fieldByName n = some fd) : t = fd.num :=
  FieldNum.unique wf h (fieldByName_sound hfd)

theorem fieldByName_of_mem {a : Ast ν} (wf : WFNames a) {f : FieldDecl ν} (hf : f ∈ a.fields) :
    a.fieldByName f.name = some f :=
  find?_key_of_mem_reverse (key := FieldDecl.name) wf.fieldNames hf

omit [DecidableEq ν] in
theorem fieldByTag_of_mem {a : Ast ν} (wf : WFNames a) {f : FieldDecl ν} (hf : f ∈ a.fields) :
    a.fieldByTag f.num = some f :=
  find?_key_of_mem_reverse (key := FieldDecl.num) wf.fieldNums hf

theorem fieldByName_isSome {a : Ast ν} {n : ν} :
    (a.fieldByName n).isSome = true ↔ ∃ t, FieldNum a n t := by
  unfold Ast.fieldByName
  rw [find?_key_isSome (key := FieldDecl.name)]
  constructor
  · rintro ⟨f, hf, hn⟩; exact ⟨f.num, f, by simpa using hf, hn, rfl⟩
  · rintro ⟨t, f, hf, hn, _⟩; exact ⟨f, by simpa using hf, hn⟩

theorem compByName_sound {a : Ast ν} {n : ν} {cms : List (Member ν)}
    (h : a.compByName n = some cms) : CompDef a n cms := by
  unfold Ast.compByName at h
  rw [Option.map_eq_some_iff] at h
  obtain ⟨c, hc, rfl⟩ := h
  have := find?_key_some (key := fun c : ν × List (Member ν) => c.1) hc
  obtain ⟨hm, hk⟩ := this
  unfold CompDef
  rw [← hk]; simpa using hm

theorem CompDef.unique {a : Ast ν} (wf : WFNames a) {n : ν} {cms cms' : List (Member ν)}
    (h : CompDef a n cms) (h' : CompDef a n cms') : cms = cms' := by
  have := eq_of_key_eq (key := fun c : ν × List (Member ν) => c.1) wf.compNames h h' rfl
  exact (Prod.mk.inj this).2

theorem compByName_of_def {a : Ast ν} (wf : WFNames a) {n : ν} {cms : List (Member ν)}
    (h : CompDef a n cms) : a.compByName n = some cms := by
  unfold Ast.compByName
  have := find?_key_of_mem_reverse (key := fun c : ν × List (Member ν) => c.1) wf.compNames h
  simp only at this
  rw [this]; rfl

theorem MsgDef.unique {a : Ast ν} (wf : WFNames a) {n : ν} {ms ms' : List (Member ν)}
    (h : MsgDef a n ms) (h' : MsgDef a n ms') : ms = ms' := by
  have := eq_of_key_eq (key := fun c : ν × List (Member ν) => c.1) wf.msgTypes h h' rfl
  exact (Prod.mk.inj this).2

theorem specFieldNum_sound {a : Ast ν} {n : ν} {t : Nat}
    (h : specFieldNum a n = some t) : FieldNum a n t := by
  unfold specFieldNum at h
  rw [Option.map_eq_some_iff] at h
  obtain ⟨f, hf, rfl⟩ := h
  have := find?_key_some (key := FieldDecl.name) hf
  exact ⟨f, this.1, this.2, rfl⟩

theorem specFieldNum_isSome {a : Ast ν} {n : ν} :
    (specFieldNum a n).isSome = true ↔ ∃ t, FieldNum a n t := by
  unfold specFieldNum
  rw [Option.isSome_map, find?_key_isSome (key := FieldDecl.name)]
  constructor
  · rintro ⟨f, hf, hn⟩; exact ⟨f.num, f, hf, hn, rfl⟩
  · rintro ⟨t, f, hf, hn, _⟩; exact ⟨f, hf, hn⟩

theorem specComp_sound {a : Ast ν} {n : ν} {cms : List (Member ν)}
    (h : specComp a n = some cms) : CompDef a n cms := by
  unfold specComp at h
  rw [Option.map_eq_some_iff] at h
  obtain ⟨c, hc, rfl⟩ := h
  obtain ⟨hm, hk⟩ := find?_key_some (key := fun c : ν × List (Member ν) => c.1) hc
  unfold CompDef
  rw [← hk]; exact hm

theorem specComp_of_def {a : Ast ν} (wf : WFNames a) {n : ν} {cms : List (Member ν)}
    (h : CompDef a n cms) : specComp a n = some cms := by
  unfold specComp
  have := find?_key_of_mem (key := fun c : ν × List (Member ν) => c.1) wf.compNames h
  simp only at this
  rw [this]; rfl

theorem specMsg_sound {a : Ast ν} {n : ν} {ms : List (Member ν)}
    (h : specMsg a n = some ms) : MsgDef a n ms := by
  unfold specMsg at h
  rw [Option.map_eq_some_iff] at h
  obtain ⟨c, hc, rfl⟩ := h
  obtain ⟨hm, hk⟩ := find?_key_some (key := fun c : ν × List (Member ν) => c.1) hc
  unfold MsgDef
  rw [← hk]; exact hm

theorem specMsg_of_def {a : Ast ν} (wf : WFNames a) {n : ν} {ms : List (Member ν)}
    (h : MsgDef a n ms) : specMsg a n = some ms := by
  unfold specMsg
  have := find?_key_of_mem (key := fun c : ν × List (Member ν) => c.1) wf.msgTypes h
  simp only at this
  rw [this]; rfl

end

/-! ## 2. inversion of the declarative relations -/
section Inversion
variable {ν : Type} {a : Ast ν}

theorem reqM_nil {x : Nat} : ¬ ReqM a [] x := by intro h; cases h

theorem reqM_field {n : ν} {r : Bool} {rest : List (Member ν)} {x : Nat} :
    ReqM a (.field n r :: rest) x ↔ (r = true ∧ FieldNum a n x) ∨ ReqM a rest x := by
  constructor
  · intro h
    cases h with
    | field hf => exact .inl ⟨rfl, hf⟩
    | tail ht => exact .inr ht
  · rintro (⟨rfl, hf⟩ | ht)
    · exact .field hf
    · exact .tail ht

theorem reqM_group {n : ν} {r : Bool} {gms rest : List (Member ν)} {x : Nat} :
    ReqM a (.group n r gms :: rest) x ↔ (r = true ∧ FieldNum a n x) ∨ ReqM a rest x := by
  constructor
  · intro h
    cases h with
    | group hf => exact .inl ⟨rfl, hf⟩
    | tail ht => exact .inr ht
  · rintro (⟨rfl, hf⟩ | ht)
    · exact .group hf
    · exact .tail ht

theorem reqM_comp {n : ν} {r : Bool} {rest : List (Member ν)} {x : Nat} :
    ReqM a (.comp n r :: rest) x ↔
      (r = true ∧ ∃ cms, CompDef a n cms ∧ ReqM a cms x) ∨ ReqM a rest x := by
  constructor
  · intro h
    cases h with
    | comp hc hr => exact .inl ⟨rfl, _, hc, hr⟩
    | tail ht => exact .inr ht
  · rintro (⟨rfl, cms, hc, hr⟩ | ht)
    · exact .comp hc hr
    · exact .tail ht

theorem reachM_nil {x : Nat} : ¬ ReachM a [] x := by intro h; cases h

theorem reachM_field {n : ν} {r : Bool} {rest : List (Member ν)} {x : Nat} :
    ReachM a (.field n r :: rest) x ↔ FieldNum a n x ∨ ReachM a rest x := by
  constructor
  · intro h
    cases h with
    | field hf => exact .inl hf
    | tail ht => exact .inr ht
  · rintro (hf | ht)
    · exact .field hf
    · exact .tail ht

theorem reachM_group {n : ν} {r : Bool} {gms rest : List (Member ν)} {x : Nat} :
    ReachM a (.group n r gms :: rest) x ↔ FieldNum a n x ∨ ReachM a gms x ∨ ReachM a rest x := by
  constructor
  · intro h
    cases h with
    | group hf => exact .inl hf
    | inGroup hg => exact .inr (.inl hg)
    | tail ht => exact .inr (.inr ht)
  · rintro (hf | hg | ht)
    · exact .group hf
    · exact .inGroup hg
    · exact .tail ht

theorem reachM_comp {n : ν} {r : Bool} {rest : List (Member ν)} {x : Nat} :
    ReachM a (.comp n r :: rest) x ↔
      (∃ cms, CompDef a n cms ∧ ReachM a cms x) ∨ ReachM a rest x := by
  constructor
  · intro h
    cases h with
    | comp hc hr => exact .inl ⟨_, hc, hr⟩
    | tail ht => exact .inr ht
  · rintro (⟨cms, hc, hr⟩ | ht)
    · exact .comp hc hr
    · exact .tail ht

/-- an expansion exists only if every direct reference resolves -/
theorem Expands.refsOK {ms : List (Member ν)} {fs : List FDef} (h : Expands a ms fs) : RefsOK a ms := by
  induction h with
  | nil => exact .nil
  | field hf _ ih => exact .field hf ih
  | group hf _ _ _ ihg ihr => exact .group hf ihg ihr
  | comp hc _ _ _ ihr => exact .comp hc ihr

end Inversion

/-! ## 3. the member loop is sound -/
section
variable {ν : Type} [DecidableEq ν]

/-- every memoised component type is the expansion of the declared component of that name -/
def MemoOK (a : Ast ν) (memo : Memo ν) : Prop :=
  ∀ n ct, Memo.get? memo n = some ct →
    ∃ cms, CompDef a n cms ∧ Expands a cms ct.fields ∧ ∀ x, x ∈ ct.reqFields ↔ ReqM a cms x

theorem MemoOK_nil (a : Ast ν) : MemoOK a [] := by
  intro n ct h; simp [Memo.get?] at h

theorem Memo.get?_cons (memo : Memo ν) (n n' : ν) (ct : CType) :
    Memo.get? ((n, ct) :: memo) n' = if n = n' then some ct else Memo.get? memo n' := by
  unfold Memo.get?
  rw [List.find?_cons]
  by_cases h : n = n'
  · simp [h]
  · have : (n == n') = false := by simpa using h
    simp [h, this]

theorem MemoOK_cons {a : Ast ν} {memo : Memo ν} {n : ν} {ct : CType} {cms : List (Member ν)}
    (h : MemoOK a memo) (hc : CompDef a n cms) (he : Expands a cms ct.fields)
    (hr : ∀ x, x ∈ ct.reqFields ↔ ReqM a cms x) : MemoOK a ((n, ct) :: memo) := by
  intro n' ct' hg
  rw [Memo.get?_cons] at hg
  split at hg
  · rename_i hn; subst hn; cases hg; exact ⟨cms, hc, he, hr⟩
  · exact h n' ct' hg

omit [DecidableEq ν] in
theorem mem_reqTags_fld {t : Nat} {r : Bool} {fs : List FDef} {rq : List Nat} {x : Nat} :
    x ∈ Part.reqTags (.fld (.mk t r fs rq)) ↔ r = true ∧ x = t := by
  cases r <;> simp [Part.reqTags, FDef.req, FDef.tag]

omit [DecidableEq ν] in
theorem mem_reqTags_cmp {c : CType} {r : Bool} {x : Nat} :
    x ∈ Part.reqTags (.cmp c r) ↔ r = true ∧ x ∈ c.reqFields := by
  cases r <;> simp [Part.reqTags]

theorem fieldNum_iff {a : Ast ν} (wf : WFNames a) {n : ν} {t x : Nat} (h : FieldNum a n t) :
    FieldNum a n x ↔ x = t :=
  ⟨fun hx => FieldNum.unique wf hx h, fun e => e ▸ h⟩

theorem compDef_exists_iff {a : Ast ν} (wf : WFNames a) {n : ν} {cms : List (Member ν)}
    (hc : CompDef a n cms) {P : List (Member ν) → Prop} :
    (∃ cms', CompDef a n cms' ∧ P cms') ↔ P cms :=
  ⟨fun ⟨_, h, p⟩ => CompDef.unique wf hc h ▸ p, fun p => ⟨cms, hc, p⟩⟩

theorem buildParts_sound (a : Ast ν) (wf : WFNames a) : ∀ fuel top memo ms ps memo',
    MemoOK a memo → buildParts a fuel top memo ms = .ok (ps, memo') →
    MemoOK a memo' ∧ Expands a ms (ps.flatMap Part.fields) ∧
      (∀ x, x ∈ ps.flatMap Part.reqTags ↔ ReqM a ms x) := by
  intro fuel
  induction fuel with
  | zero => intro top memo ms ps memo' _ h; simp [buildParts] at h
  | succ fuel ih =>
    intro top memo ms ps memo' hm h
    cases ms with
    | nil =>
      simp only [buildParts] at h
      cases h
      exact ⟨hm, .nil, fun x => by simp [reqM_nil]⟩
    | cons m rest =>
      cases m with
      | field n r =>
        simp only [buildParts] at h
        split at h
        · cases h
        · rename_i fd hfd
          split at h
          · cases h
          · rename_i ps1 memo1 h1
            obtain ⟨hm1, he1, hr1⟩ := ih top memo rest ps1 memo1 hm h1
            cases h
            have hfn := fieldByName_sound hfd
            refine ⟨hm1, ?_, ?_⟩
            · simp only [List.flatMap_cons, Part.fields]
              exact .field hfn he1
            · intro x
              simp only [List.flatMap_cons, mem_reqTags_fld, List.mem_append,
                hr1, reqM_field, fieldNum_iff wf hfn]
      | group n r gms =>
        simp only [buildParts] at h
        split at h
        · cases h
        · rename_i fd hfd
          split at h
          · cases h
          · rename_i gps memo1 h1
            split at h
            · cases h
            · rename_i ps2 memo2 h2
              obtain ⟨hm1, he1, hr1⟩ := ih false memo gms gps memo1 hm h1
              obtain ⟨hm2, he2, hr2⟩ := ih top memo1 rest ps2 memo2 hm1 h2
              cases h
              have hfn := fieldByName_sound hfd
              refine ⟨hm2, ?_, ?_⟩
              · simp only [List.flatMap_cons, Part.fields, newGroupFieldDef]
                exact .group hfn he1 hr1 he2
              · intro x
                simp only [List.flatMap_cons, newGroupFieldDef, mem_reqTags_fld,
                  List.mem_append, hr2, reqM_group, fieldNum_iff wf hfn]
      | comp n r =>
        simp only [buildParts] at h
        split at h
        · rename_i ct hct
          split at h
          · cases h
          · rename_i ps1 memo1 h1
            obtain ⟨hm1, he1, hr1⟩ := ih top memo rest ps1 memo1 hm h1
            cases h
            obtain ⟨cms, hc, hce, hcr⟩ := hm n ct hct
            refine ⟨hm1, ?_, ?_⟩
            · simp only [List.flatMap_cons, Part.fields]
              exact .comp hc hce he1
            · intro x
              simp only [List.flatMap_cons, mem_reqTags_cmp, List.mem_append, hr1,
                reqM_comp, hcr, compDef_exists_iff wf hc]
        · split at h
          · cases h
          · split at h
            · cases h
            · rename_i cms hcms
              split at h
              · cases h
              · rename_i cps memo1 h1
                split at h
                · cases h
                · rename_i ps2 memo2 h2
                  have hc := compByName_sound hcms
                  obtain ⟨hm1, he1, hr1⟩ := ih false memo cms cps memo1 hm h1
                  have hm1' : MemoOK a ((n, newComponentType cps) :: memo1) :=
                    MemoOK_cons hm1 hc he1 hr1
                  obtain ⟨hm2, he2, hr2⟩ := ih top _ rest ps2 memo2 hm1' h2
                  cases h
                  refine ⟨hm2, ?_, ?_⟩
                  · simp only [List.flatMap_cons, Part.fields]
                    exact .comp hc he1 he2
                  · intro x
                    simp only [List.flatMap_cons, mem_reqTags_cmp, List.mem_append, hr2,
                      reqM_comp, compDef_exists_iff wf hc, ← hr1, newComponentType]

/-! ## 4. tags of an expansion -/

omit [DecidableEq ν] in
theorem childTagsL_eq (fs : List FDef) : childTagsL fs = fs.flatMap FDef.allTags := by
  induction fs with
  | nil => simp [childTagsL]
  | cons f r ih => simp only [childTagsL, List.flatMap_cons, FDef.allTags, ih]

omit [DecidableEq ν] in
theorem allTags_mk (t : Nat) (r : Bool) (ks : List FDef) (rq : List Nat) :
    FDef.allTags (.mk t r ks rq) = t :: ks.flatMap FDef.allTags := by
  simp only [FDef.allTags, FDef.tag, FDef.childTags, childTagsL_eq]

theorem Expands.tags_iff {a : Ast ν} (wf : WFNames a) {ms : List (Member ν)} {fs : List FDef}
    (h : Expands a ms fs) : ∀ t, t ∈ fs.flatMap FDef.allTags ↔ ReachM a ms t := by
  induction h with
  | nil => intro t; simp [reachM_nil]
  | field hf _ ih =>
    intro t
    simp only [List.flatMap_cons, allTags_mk, List.flatMap_nil, List.mem_append, List.mem_cons,
      List.not_mem_nil, or_false, ih, reachM_field, fieldNum_iff wf hf]
  | group hf _ _ _ ihg ihr =>
    intro t
    simp only [List.flatMap_cons, allTags_mk, List.mem_append, List.mem_cons, ihg, ihr,
      reachM_group, fieldNum_iff wf hf, or_assoc]
  | comp hc _ _ ihc ihr =>
    intro t
    simp only [List.flatMap_append, List.mem_append, ihc, ihr, reachM_comp, compDef_exists_iff wf hc]

/-! ## 5. components, messages, header, trailer -/

theorem buildComponents_sound (a : Ast ν) (wf : WFNames a) (fuel : Nat) : ∀ l memo memo',
    MemoOK a memo → (∀ c ∈ l, c ∈ a.comps) → buildComponents a fuel l memo = .ok memo' →
    MemoOK a memo' := by
  intro l
  induction l with
  | nil => intro memo memo' hm _ h; simp only [buildComponents] at h; cases h; exact hm
  | cons c rest ih =>
    obtain ⟨n, ms⟩ := c
    intro memo memo' hm hl h
    have hrest : ∀ c ∈ rest, c ∈ a.comps := fun c hc => hl c (List.mem_cons_of_mem _ hc)
    simp only [buildComponents] at h
    split at h
    · exact ih memo memo' hm hrest h
    · split at h
      · cases h
      · rename_i ps memo1 h1
        obtain ⟨hm1, he1, hr1⟩ := buildParts_sound a wf fuel false memo ms ps memo1 hm h1
        have hc : CompDef a n ms := hl (n, ms) (List.mem_cons_self ..)
        exact ih _ memo' (MemoOK_cons hm1 hc he1 hr1) hrest h

theorem buildMsgs_find_of_not_mem (a : Ast ν) (fuel : Nat) (mk : List Part → MDef) (memo : Memo ν)
    (mt : ν) : ∀ l acc msgs, buildMsgs a fuel mk memo l acc = .ok msgs → (∀ c ∈ l, c.1 ≠ mt) →
    msgs.find? (fun c => c.1 == mt) = acc.find? (fun c => c.1 == mt) := by
  intro l
  induction l with
  | nil => intro acc msgs h _; simp only [buildMsgs] at h; cases h; rfl
  | cons c rest ih =>
    obtain ⟨mt', ms⟩ := c
    intro acc msgs h hl
    simp only [buildMsgs] at h
    split at h
    · cases h
    · rename_i ps memo1 h1
      rw [ih _ msgs h (fun c hc => hl c (List.mem_cons_of_mem _ hc)), List.find?_cons]
      have : mt' ≠ mt := hl (mt', ms) (List.mem_cons_self ..)
      have : (mt' == mt) = false := by simpa using this
      simp only [this]

theorem buildMsgs_sound (a : Ast ν) (fuel : Nat) (mk : List Part → MDef) (memo : Memo ν) :
    ∀ l acc msgs, l.Pairwise (fun x y => x.1 ≠ y.1) → buildMsgs a fuel mk memo l acc = .ok msgs →
    ∀ mt ms, (mt, ms) ∈ l → ∃ ps memo', buildParts a fuel true memo ms = .ok (ps, memo') ∧
      msgs.find? (fun c => c.1 == mt) = some (mt, mk ps) := by
  intro l
  induction l with
  | nil => intro acc msgs _ _ mt ms hmem; cases hmem
  | cons c rest ih =>
    obtain ⟨mt', ms'⟩ := c
    intro acc msgs hp h mt ms hmem
    rw [List.pairwise_cons] at hp
    simp only [buildMsgs] at h
    split at h
    · cases h
    · rename_i ps memo1 h1
      rcases List.mem_cons.1 hmem with heq | hmem'
      · cases heq
        refine ⟨ps, memo1, h1, ?_⟩
        rw [buildMsgs_find_of_not_mem a fuel mk memo _ rest _ msgs h
          (fun c hc => (hp.1 c hc).symm), List.find?_cons]
        simp
      · exact ih _ msgs hp.2 h mt ms hmem'

theorem buildOpt_some {a : Ast ν} {fuel : Nat} {mk : List Part → MDef} {memo : Memo ν}
    {ms : List (Member ν)} {o : Option MDef} (h : buildOpt a fuel mk memo (some ms) = .ok o) :
    ∃ ps memo', buildParts a fuel true memo ms = .ok (ps, memo') ∧ o = some (mk ps) := by
  simp only [buildOpt] at h
  split at h
  · cases h
  · rename_i ps memo1 h1
    cases h
    exact ⟨ps, memo1, h1, rfl⟩

theorem buildWith_inv {a : Ast ν} {fuel : Nat} {mk : List Part → MDef} {d : Dict ν}
    (h : buildWith a fuel mk = .ok d) :
    buildComponents a fuel a.comps [] = .ok d.comps ∧
    buildMsgs a fuel mk d.comps a.msgs [] = .ok d.msgs ∧
    buildOpt a fuel mk d.comps a.header = .ok d.header ∧
    buildOpt a fuel mk d.comps a.trailer = .ok d.trailer := by
  unfold buildWith at h
  split at h
  · cases h
  · rename_i memo hc
    split at h
    · cases h
    · rename_i msgs hmsgs
      split at h
      · cases h
      · rename_i hd hh
        split at h
        · cases h
        · rename_i tr ht
          cases h
          exact ⟨hc, hmsgs, hh, ht⟩

theorem buildWith_memoOK {a : Ast ν} (wf : WFNames a) {fuel : Nat} {mk : List Part → MDef} {d : Dict ν}
    (h : buildWith a fuel mk = .ok d) : MemoOK a d.comps :=
  buildComponents_sound a wf fuel a.comps [] d.comps (MemoOK_nil a) (fun _ hc => hc) (buildWith_inv h).1

/-- the loaded message of a declared type is `mk` of parts that expand the declared members -/
theorem buildWith_msg {a : Ast ν} (wf : WFNames a) {fuel : Nat} {mk : List Part → MDef} {d : Dict ν}
    (h : buildWith a fuel mk = .ok d) {mt : ν} {ms : List (Member ν)} (hm : MsgDef a mt ms) :
    ∃ ps, d.msg? mt = some (mk ps) ∧ Expands a ms (ps.flatMap Part.fields) ∧
      ∀ x, x ∈ ps.flatMap Part.reqTags ↔ ReqM a ms x := by
  obtain ⟨_, hmsgs, _, _⟩ := buildWith_inv h
  obtain ⟨ps, memo', hps, hfind⟩ :=
    buildMsgs_sound a fuel mk d.comps a.msgs [] d.msgs wf.msgTypes hmsgs mt ms hm
  obtain ⟨_, he, hr⟩ := buildParts_sound a wf fuel true d.comps ms ps memo' (buildWith_memoOK wf h) hps
  refine ⟨ps, ?_, he, hr⟩
  unfold Dict.msg?
  rw [hfind]; rfl

theorem buildWith_header {a : Ast ν} (wf : WFNames a) {fuel : Nat} {mk : List Part → MDef} {d : Dict ν}
    (h : buildWith a fuel mk = .ok d) {ms : List (Member ν)} (hm : a.header = some ms) :
    ∃ ps, d.header = some (mk ps) ∧ Expands a ms (ps.flatMap Part.fields) ∧
      ∀ x, x ∈ ps.flatMap Part.reqTags ↔ ReqM a ms x := by
  obtain ⟨_, _, hh, _⟩ := buildWith_inv h
  rw [hm] at hh
  obtain ⟨ps, memo', hps, ho⟩ := buildOpt_some hh
  obtain ⟨_, he, hr⟩ := buildParts_sound a wf fuel true d.comps ms ps memo' (buildWith_memoOK wf h) hps
  exact ⟨ps, ho, he, hr⟩

theorem buildWith_trailer {a : Ast ν} (wf : WFNames a) {fuel : Nat} {mk : List Part → MDef} {d : Dict ν}
    (h : buildWith a fuel mk = .ok d) {ms : List (Member ν)} (hm : a.trailer = some ms) :
    ∃ ps, d.trailer = some (mk ps) ∧ Expands a ms (ps.flatMap Part.fields) ∧
      ∀ x, x ∈ ps.flatMap Part.reqTags ↔ ReqM a ms x := by
  obtain ⟨_, _, _, ht⟩ := buildWith_inv h
  rw [hm] at ht
  obtain ⟨ps, memo', hps, ho⟩ := buildOpt_some ht
  obtain ⟨_, he, hr⟩ := buildParts_sound a wf fuel true d.comps ms ps memo' (buildWith_memoOK wf h) hps
  exact ⟨ps, ho, he, hr⟩

/-! ## 6. the executable spec is sound for the declarative one -/

omit [DecidableEq ν] in
theorem mem_ite_cons {r : Bool} {t x : Nat} {l : List Nat} :
    x ∈ (if r = true then t :: l else l) ↔ (r = true ∧ x = t) ∨ x ∈ l := by
  cases r <;> simp

omit [DecidableEq ν] in
theorem mem_ite_append {r : Bool} {x : Nat} {l₁ l : List Nat} :
    x ∈ (if r = true then l₁ ++ l else l) ↔ (r = true ∧ x ∈ l₁) ∨ x ∈ l := by
  cases r <;> simp

theorem expandSpec_sound (a : Ast ν) (wf : WFNames a) : ∀ f ms fs rq,
    expandSpec a f ms = some (fs, rq) → Expands a ms fs ∧ ∀ x, x ∈ rq ↔ ReqM a ms x := by
  intro f
  induction f with
  | zero => intro ms fs rq h; simp [expandSpec] at h
  | succ f ih =>
    intro ms fs rq h
    cases ms with
    | nil =>
      simp only [expandSpec] at h
      cases h
      exact ⟨.nil, fun x => by simp [reqM_nil]⟩
    | cons m rest =>
      cases m with
      | field n r =>
        simp only [expandSpec] at h
        split at h
        · cases h
        · rename_i t ht
          split at h
          · cases h
          · rename_i fs1 rq1 h1
            obtain ⟨he1, hr1⟩ := ih rest fs1 rq1 h1
            cases h
            have hfn := specFieldNum_sound ht
            refine ⟨.field hfn he1, fun x => ?_⟩
            simp only [mem_ite_cons, hr1, reqM_field, fieldNum_iff wf hfn]
      | group n r gms =>
        simp only [expandSpec] at h
        split at h
        · cases h
        · rename_i t ht
          split at h
          · cases h
          · rename_i ks krq h1
            split at h
            · cases h
            · rename_i fs2 rq2 h2
              obtain ⟨he1, hr1⟩ := ih gms ks krq h1
              obtain ⟨he2, hr2⟩ := ih rest fs2 rq2 h2
              cases h
              have hfn := specFieldNum_sound ht
              refine ⟨.group hfn he1 hr1 he2, fun x => ?_⟩
              simp only [mem_ite_cons, hr2, reqM_group, fieldNum_iff wf hfn]
      | comp n r =>
        simp only [expandSpec] at h
        split at h
        · cases h
        · rename_i cms hcms
          split at h
          · cases h
          · rename_i cs crq h1
            split at h
            · cases h
            · rename_i fs2 rq2 h2
              obtain ⟨he1, hr1⟩ := ih cms cs crq h1
              obtain ⟨he2, hr2⟩ := ih rest fs2 rq2 h2
              cases h
              have hc := specComp_sound hcms
              refine ⟨.comp hc he1 he2, fun x => ?_⟩
              simp only [mem_ite_append, hr1, hr2, reqM_comp, compDef_exists_iff wf hc]

/-! ## 7. the memo table only grows; after `buildComponents` it holds every declared name -/

def MemoLe (m m' : Memo ν) : Prop := ∀ n, (Memo.get? m n).isSome = true → (Memo.get? m' n).isSome = true

theorem MemoLe.refl (m : Memo ν) : MemoLe m m := fun _ h => h

theorem MemoLe.trans {m₁ m₂ m₃ : Memo ν} (h₁ : MemoLe m₁ m₂) (h₂ : MemoLe m₂ m₃) : MemoLe m₁ m₃ :=
  fun n h => h₂ n (h₁ n h)

theorem MemoLe.cons (m : Memo ν) (n : ν) (ct : CType) : MemoLe m ((n, ct) :: m) := by
  intro n' h
  rw [Memo.get?_cons]
  split
  · rfl
  · exact h

theorem Memo.get?_cons_self (m : Memo ν) (n : ν) (ct : CType) :
    (Memo.get? ((n, ct) :: m) n).isSome = true := by
  rw [Memo.get?_cons]; simp

theorem buildParts_memoLe (a : Ast ν) : ∀ fuel top memo ms ps memo',
    buildParts a fuel top memo ms = .ok (ps, memo') → MemoLe memo memo' := by
  intro fuel
  induction fuel with
  | zero => intro top memo ms ps memo' h; simp [buildParts] at h
  | succ fuel ih =>
    intro top memo ms ps memo' h
    cases ms with
    | nil => simp only [buildParts] at h; cases h; exact MemoLe.refl _
    | cons m rest =>
      cases m with
      | field n r =>
        simp only [buildParts] at h
        split at h
        · cases h
        · split at h
          · cases h
          · rename_i ps1 memo1 h1
            have := ih top memo rest ps1 memo1 h1
            cases h; exact this
      | group n r gms =>
        simp only [buildParts] at h
        split at h
        · cases h
        · split at h
          · cases h
          · rename_i gps memo1 h1
            split at h
            · cases h
            · rename_i ps2 memo2 h2
              have := (ih false memo gms gps memo1 h1).trans (ih top memo1 rest ps2 memo2 h2)
              cases h; exact this
      | comp n r =>
        simp only [buildParts] at h
        split at h
        · split at h
          · cases h
          · rename_i ps1 memo1 h1
            have := ih top memo rest ps1 memo1 h1
            cases h; exact this
        · split at h
          · cases h
          · split at h
            · cases h
            · split at h
              · cases h
              · rename_i cps memo1 h1
                split at h
                · cases h
                · rename_i ps2 memo2 h2
                  have := ((ih false memo _ cps memo1 h1).trans (MemoLe.cons memo1 n _)).trans
                    (ih top _ rest ps2 memo2 h2)
                  cases h; exact this

theorem buildComponents_complete (a : Ast ν) (fuel : Nat) : ∀ l memo memo',
    buildComponents a fuel l memo = .ok memo' →
    MemoLe memo memo' ∧ ∀ c ∈ l, (Memo.get? memo' c.1).isSome = true := by
  intro l
  induction l with
  | nil =>
    intro memo memo' h; simp only [buildComponents] at h; cases h
    exact ⟨MemoLe.refl _, fun c hc => by cases hc⟩
  | cons c rest ih =>
    obtain ⟨n, ms⟩ := c
    intro memo memo' h
    simp only [buildComponents] at h
    split at h
    · rename_i ct hct
      obtain ⟨hle, hall⟩ := ih memo memo' h
      refine ⟨hle, fun c hc => ?_⟩
      rcases List.mem_cons.1 hc with rfl | hc'
      · exact hle n (by rw [hct]; rfl)
      · exact hall c hc'
    · split at h
      · cases h
      · rename_i ps memo1 h1
        obtain ⟨hle, hall⟩ := ih _ memo' h
        have h01 := buildParts_memoLe a fuel false memo ms ps memo1 h1
        refine ⟨(h01.trans (MemoLe.cons memo1 n _)).trans hle, fun c hc => ?_⟩
        rcases List.mem_cons.1 hc with rfl | hc'
        · exact hle n (Memo.get?_cons_self ..)
        · exact hall c hc'

/-- a dictionary is only built from a file all of whose references resolve -/
theorem buildWith_refsOK {a : Ast ν} (wf : WFNames a) {fuel : Nat} {mk : List Part → MDef} {d : Dict ν}
    (h : buildWith a fuel mk = .ok d) : ∀ ms ∈ a.bodies, RefsOK a ms := by
  intro ms hms
  have hmo := buildWith_memoOK wf h
  obtain ⟨hc, hmsgs, hh, ht⟩ := buildWith_inv h
  unfold Ast.bodies at hms
  simp only [List.mem_append, List.mem_map, Option.mem_toList] at hms
  rcases hms with ((⟨c, hc', rfl⟩ | ⟨c, hc', rfl⟩) | hhd) | htr
  · obtain ⟨_, hall⟩ := buildComponents_complete a fuel a.comps [] d.comps hc
    have hs := hall c hc'
    rw [Option.isSome_iff_exists] at hs
    obtain ⟨ct, hct⟩ := hs
    obtain ⟨cms, hcd, he, _⟩ := hmo c.1 ct hct
    have : cms = c.2 := CompDef.unique wf hcd (show CompDef a c.1 c.2 from hc')
    subst this; exact he.refsOK
  · obtain ⟨ps, _, he, _⟩ := buildWith_msg wf h (show MsgDef a c.1 c.2 from hc')
    exact he.refsOK
  · obtain ⟨ps, _, he, _⟩ := buildWith_header wf h hhd
    exact he.refsOK
  · obtain ⟨ps, _, he, _⟩ := buildWith_trailer wf h htr
    exact he.refsOK

/-! ## 8. the expansion is unique up to the representation of required-sets -/

omit [DecidableEq ν] in
theorem sameShapeL_append : ∀ (cs cs' fs fs' : List FDef), sameShapeL cs cs' = true →
    sameShapeL fs fs' = true → sameShapeL (cs ++ fs) (cs' ++ fs') = true := by
  intro cs
  induction cs with
  | nil =>
    intro cs' fs fs' h1 h2
    cases cs' with
    | nil => simpa using h2
    | cons c' r' => simp [sameShapeL] at h1
  | cons c r ih =>
    intro cs' fs fs' h1 h2
    cases cs' with
    | nil => simp [sameShapeL] at h1
    | cons c' r' =>
      simp only [sameShapeL, Bool.and_eq_true] at h1
      simp only [List.cons_append, sameShapeL, Bool.and_eq_true]
      exact ⟨h1.1, ih r' fs fs' h1.2 h2⟩

theorem Expands.sameShape {a : Ast ν} (wf : WFNames a) {ms : List (Member ν)} {fs : List FDef}
    (h : Expands a ms fs) : ∀ fs', Expands a ms fs' → sameShapeL fs fs' = true := by
  induction h with
  | nil => intro fs' h'; cases h'; simp [sameShapeL]
  | field hf _ ih =>
    intro fs' h'
    cases h' with
    | field hf' hr' =>
      have := FieldNum.unique wf hf hf'
      subst this
      simp [sameShapeL, FDef.sameShape, ih _ hr']
  | group hf _ _ _ ihg ihr =>
    intro fs' h'
    cases h' with
    | group hf' hg' _ hr' =>
      have := FieldNum.unique wf hf hf'
      subst this
      simp [sameShapeL, FDef.sameShape, ihg _ hg', ihr _ hr']
  | comp hc _ _ ihc ihr =>
    intro fs' h'
    cases h' with
    | comp hc' hcs' hr' =>
      have := CompDef.unique wf hc hc'
      subst this
      exact sameShapeL_append _ _ _ _ (ihc _ hcs') (ihr _ hr')

/-! ## 9. Bool-valued observers for closed witnesses -/

/-- message `mt` was loaded and its `RequiredTags` contain `t` -/
def obsReqHas (r : Except BErr (Dict ν)) (mt : ν) (t : Nat) : Bool :=
  match r with
  | .ok d => match d.msg? mt with
    | some m => m.reqTags.contains t
    | none => false
  | .error _ => false

/-- message `mt` was loaded and its `RequiredTags` do not contain `t` -/
def obsReqLacks (r : Except BErr (Dict ν)) (mt : ν) (t : Nat) : Bool :=
  match r with
  | .ok d => match d.msg? mt with
    | some m => !m.reqTags.contains t
    | none => false
  | .error _ => false

theorem obsReqHas_iff {r : Except BErr (Dict ν)} {mt : ν} {t : Nat} :
    obsReqHas r mt t = true ↔ ∃ d m, r = .ok d ∧ d.msg? mt = some m ∧ t ∈ m.reqTags := by
  unfold obsReqHas
  split
  · rename_i d
    split
    · rename_i m hm
      constructor
      · intro h; exact ⟨d, m, rfl, hm, by simpa using h⟩
      · rintro ⟨d', m', hd, hm', ht⟩
        cases hd; rw [hm] at hm'; cases hm'; simpa using ht
    · rename_i hm
      constructor
      · intro h; cases h
      · rintro ⟨d', m', hd, hm', _⟩
        cases hd; rw [hm] at hm'; cases hm'
  · constructor
    · intro h; cases h
    · rintro ⟨d', m', hd, _⟩; cases hd

theorem obsReqLacks_iff {r : Except BErr (Dict ν)} {mt : ν} {t : Nat} :
    obsReqLacks r mt t = true ↔ ∃ d m, r = .ok d ∧ d.msg? mt = some m ∧ t ∉ m.reqTags := by
  unfold obsReqLacks
  split
  · rename_i d
    split
    · rename_i m hm
      constructor
      · intro h; exact ⟨d, m, rfl, hm, by simpa using h⟩
      · rintro ⟨d', m', hd, hm', ht⟩
        cases hd; rw [hm] at hm'; cases hm'; simpa using ht
    · rename_i hm
      constructor
      · intro h; cases h
      · rintro ⟨d', m', hd, hm', _⟩
        cases hd; rw [hm] at hm'; cases hm'
  · constructor
    · intro h; cases h
    · rintro ⟨d', m', hd, _⟩; cases hd

def Except.isOkB {ε α : Type} : Except ε α → Bool
  | .ok _ => true
  | .error _ => false

theorem Except.isOkB_iff {ε α : Type} {r : Except ε α} : Except.isOkB r = true ↔ ∃ x, r = .ok x := by
  cases r <;> simp [Except.isOkB]

/-! ## 10. fuel adequacy: a well-formed file loads -/

theorem fieldByName_of_fieldNum {a : Ast ν} {n : ν} {t : Nat} (h : FieldNum a n t) :
    ∃ fd, a.fieldByName n = some fd :=
  Option.isSome_iff_exists.1 (fieldByName_isSome.2 ⟨t, h⟩)

omit [DecidableEq ν] in
theorem membersSize_pos (ms : List (Member ν)) : 1 ≤ membersSize ms := by
  cases ms with
  | nil => simp [membersSize]
  | cons m r =>
    simp only [membersSize]
    cases m <;> simp only [Member.size] <;> omega

/-- whatever the naive expansion reaches within a budget, the member loop of a component / group
    (`top = false`) builds within the same budget, whatever the memo table holds -/
theorem buildParts_of_expandSpec (a : Ast ν) (wf : WFNames a) : ∀ f memo ms fs rq,
    expandSpec a f ms = some (fs, rq) → ∃ r, buildParts a f false memo ms = .ok r := by
  intro f
  induction f with
  | zero => intro memo ms fs rq h; simp [expandSpec] at h
  | succ f ih =>
    intro memo ms fs rq h
    cases ms with
    | nil => exact ⟨_, by simp only [buildParts]; rfl⟩
    | cons m rest =>
      cases m with
      | field n r =>
        simp only [expandSpec] at h
        split at h
        · cases h
        · rename_i t ht
          split at h
          · cases h
          · rename_i fs1 rq1 h1
            obtain ⟨fd, hfd⟩ := fieldByName_of_fieldNum (specFieldNum_sound ht)
            obtain ⟨⟨ps, memo1⟩, hb⟩ := ih memo rest fs1 rq1 h1
            exact ⟨_, by simp only [buildParts, hfd, hb]; rfl⟩
      | group n r gms =>
        simp only [expandSpec] at h
        split at h
        · cases h
        · rename_i t ht
          split at h
          · cases h
          · rename_i ks krq h1
            split at h
            · cases h
            · rename_i fs2 rq2 h2
              obtain ⟨fd, hfd⟩ := fieldByName_of_fieldNum (specFieldNum_sound ht)
              obtain ⟨⟨gps, memo1⟩, hb1⟩ := ih memo gms ks krq h1
              obtain ⟨⟨ps, memo2⟩, hb2⟩ := ih memo1 rest fs2 rq2 h2
              exact ⟨_, by simp only [buildParts, hfd, hb1, hb2]; rfl⟩
      | comp n r =>
        simp only [expandSpec] at h
        split at h
        · cases h
        · rename_i cms hcms
          split at h
          · cases h
          · rename_i cs crq h1
            split at h
            · cases h
            · rename_i fs2 rq2 h2
              cases hg : Memo.get? memo n with
              | some ct =>
                obtain ⟨⟨ps, memo1⟩, hb⟩ := ih memo rest fs2 rq2 h2
                exact ⟨_, by simp only [buildParts, hg, hb]; rfl⟩
              | none =>
                have hcn := compByName_of_def wf (specComp_sound hcms)
                obtain ⟨⟨cps, memo1⟩, hb1⟩ := ih memo cms cs crq h1
                obtain ⟨⟨ps, memo2⟩, hb2⟩ := ih ((n, newComponentType cps) :: memo1) rest fs2 rq2 h2
                exact ⟨_, by simp [buildParts, hg, hcn, hb1, hb2]; rfl⟩

/-- every declared component is in the memo table -/
def MemoFull (a : Ast ν) (memo : Memo ν) : Prop :=
  ∀ n cms, CompDef a n cms → (Memo.get? memo n).isSome = true

/-- with every component memoised, the member loop needs only the syntactic depth of the members -/
theorem buildParts_of_full (a : Ast ν) : ∀ f top memo ms, MemoFull a memo → RefsOK a ms →
    membersSize ms ≤ f → ∃ ps, buildParts a f top memo ms = .ok (ps, memo) := by
  intro f
  induction f with
  | zero =>
    intro top memo ms _ _ hsz
    have := membersSize_pos ms; omega
  | succ f ih =>
    intro top memo ms hfull hrefs hsz
    cases hrefs with
    | nil => exact ⟨_, by simp only [buildParts]; rfl⟩
    | @field n r rest t hf hrest =>
      simp only [membersSize, Member.size] at hsz
      obtain ⟨fd, hfd⟩ := fieldByName_of_fieldNum hf
      obtain ⟨ps, hb⟩ := ih top memo rest hfull hrest (by omega)
      exact ⟨_, by simp only [buildParts, hfd, hb]; rfl⟩
    | @group n r gms rest t hf hg hrest =>
      simp only [membersSize, Member.size] at hsz
      have := membersSize_pos rest
      have := membersSize_pos gms
      obtain ⟨fd, hfd⟩ := fieldByName_of_fieldNum hf
      obtain ⟨gps, hb1⟩ := ih false memo gms hfull hg (by omega)
      obtain ⟨ps, hb2⟩ := ih top memo rest hfull hrest (by omega)
      exact ⟨_, by simp only [buildParts, hfd, hb1, hb2]; rfl⟩
    | @comp n r rest cms hc hrest =>
      simp only [membersSize, Member.size] at hsz
      obtain ⟨ct, hct⟩ := Option.isSome_iff_exists.1 (hfull n cms hc)
      obtain ⟨ps, hb⟩ := ih top memo rest hfull hrest (by omega)
      exact ⟨_, by simp only [buildParts, hct, hb]; rfl⟩

theorem buildComponents_ok (a : Ast ν) (wf : WFNames a) (fuel : Nat) : ∀ l memo,
    (∀ c ∈ l, (expandSpec a fuel c.2).isSome = true) → ∃ memo', buildComponents a fuel l memo = .ok memo' := by
  intro l
  induction l with
  | nil => intro memo _; exact ⟨memo, by simp only [buildComponents]⟩
  | cons c rest ih =>
    obtain ⟨n, ms⟩ := c
    intro memo hl
    have hrest : ∀ c ∈ rest, (expandSpec a fuel c.2).isSome = true :=
      fun c hc => hl c (List.mem_cons_of_mem _ hc)
    cases hg : Memo.get? memo n with
    | some ct =>
      obtain ⟨memo', h⟩ := ih memo hrest
      exact ⟨memo', by simp only [buildComponents, hg, h]⟩
    | none =>
      obtain ⟨⟨fs, rq⟩, he⟩ := Option.isSome_iff_exists.1 (hl (n, ms) (List.mem_cons_self ..))
      obtain ⟨⟨ps, memo1⟩, hb⟩ := buildParts_of_expandSpec a wf fuel memo ms fs rq he
      obtain ⟨memo', h⟩ := ih ((n, newComponentType ps) :: memo1) hrest
      exact ⟨memo', by simp only [buildComponents, hg, hb, h]⟩

theorem buildMsgs_ok (a : Ast ν) (fuel : Nat) (mk : List Part → MDef) (memo : Memo ν)
    (hfull : MemoFull a memo) : ∀ l acc, (∀ c ∈ l, RefsOK a c.2 ∧ membersSize c.2 ≤ fuel) →
    ∃ msgs, buildMsgs a fuel mk memo l acc = .ok msgs := by
  intro l
  induction l with
  | nil => intro acc _; exact ⟨acc, by simp only [buildMsgs]⟩
  | cons c rest ih =>
    obtain ⟨mt, ms⟩ := c
    intro acc hl
    obtain ⟨hr, hsz⟩ := hl (mt, ms) (List.mem_cons_self ..)
    obtain ⟨ps, hb⟩ := buildParts_of_full a fuel true memo ms hfull hr hsz
    obtain ⟨msgs, h⟩ := ih ((mt, mk ps) :: acc) (fun c hc => hl c (List.mem_cons_of_mem _ hc))
    exact ⟨msgs, by simp only [buildMsgs, hb, h]⟩

theorem buildOpt_ok (a : Ast ν) (fuel : Nat) (mk : List Part → MDef) (memo : Memo ν)
    (hfull : MemoFull a memo) (o : Option (List (Member ν)))
    (ho : ∀ ms, o = some ms → RefsOK a ms ∧ membersSize ms ≤ fuel) :
    ∃ r, buildOpt a fuel mk memo o = .ok r := by
  cases o with
  | none => exact ⟨none, by simp only [buildOpt]⟩
  | some ms =>
    obtain ⟨hr, hsz⟩ := ho ms rfl
    obtain ⟨ps, hb⟩ := buildParts_of_full a fuel true memo ms hfull hr hsz
    exact ⟨_, by simp only [buildOpt, hb]; rfl⟩

omit [DecidableEq ν] in
theorem le_sum_map_of_mem {α : Type} (f : α → Nat) {l : List α} {x : α} (hx : x ∈ l) :
    f x ≤ (l.map f).sum := by
  induction l with
  | nil => cases hx
  | cons y r ih =>
    simp only [List.map_cons, List.sum_cons]
    rcases List.mem_cons.1 hx with rfl | hx'
    · omega
    · have := ih hx'; omega

/-- `builder.build` with any budget above the size of the file loads a file with unique names, no undefined
    reference and no component that reaches itself -/
theorem buildWith_ok (a : Ast ν) (wf : WFNames a) (hd : ¬ Dangling a) (fuel : Nat) (hfuel : a.size < fuel)
    (hac : ∀ c ∈ a.comps, (expandSpec a fuel c.2).isSome = true) (mk : List Part → MDef) :
    ∃ d, buildWith a fuel mk = .ok d := by
  have hrefs : ∀ ms ∈ a.bodies, RefsOK a ms :=
    fun ms hms => Classical.byContradiction (fun hn => hd ⟨ms, hms, hn⟩)
  obtain ⟨memo, hc⟩ := buildComponents_ok a wf fuel a.comps [] hac
  have hfull : MemoFull a memo := fun n cms hcd =>
    (buildComponents_complete a fuel a.comps [] memo hc).2 (n, cms) hcd
  have hmsz : ∀ c ∈ a.msgs, RefsOK a c.2 ∧ membersSize c.2 ≤ fuel := by
    intro c hc
    refine ⟨hrefs c.2 ?_, ?_⟩
    · unfold Ast.bodies
      simp only [List.mem_append, List.mem_map]
      exact .inl (.inl (.inr ⟨c, hc, rfl⟩))
    · have := le_sum_map_of_mem (fun c : ν × List (Member ν) => membersSize c.2) hc
      unfold Ast.size at hfuel
      omega
  obtain ⟨msgs, hm⟩ := buildMsgs_ok a fuel mk memo hfull a.msgs [] hmsz
  obtain ⟨h, hh⟩ := buildOpt_ok a fuel mk memo hfull a.header (by
    intro ms hms
    refine ⟨hrefs ms ?_, ?_⟩
    · unfold Ast.bodies
      simp only [List.mem_append, Option.mem_toList]
      exact .inl (.inr hms)
    · unfold Ast.size at hfuel
      rw [hms] at hfuel
      simp only at hfuel
      omega)
  obtain ⟨t, ht⟩ := buildOpt_ok a fuel mk memo hfull a.trailer (by
    intro ms hms
    refine ⟨hrefs ms ?_, ?_⟩
    · unfold Ast.bodies
      simp only [List.mem_append, Option.mem_toList]
      exact .inr hms
    · unfold Ast.size at hfuel
      rw [hms] at hfuel
      simp only at hfuel
      omega)
  exact ⟨_, by simp only [buildWith, hc, hm, hh, ht]; rfl⟩

/-! ## 11. canonical sets; required-sets of groups are determined up to membership -/

omit [DecidableEq ν] in
theorem mem_dedupSorted (x : Nat) : ∀ l, x ∈ dedupSorted l ↔ x ∈ l := by
  intro l
  induction l with
  | nil => simp [dedupSorted]
  | cons a r ih =>
    cases r with
    | nil => simp [dedupSorted]
    | cons b r' =>
      rw [dedupSorted.eq_3]
      split
      · rename_i hab; subst hab
        rw [ih]; simp
      · rw [List.mem_cons, ih, List.mem_cons (a := x) (b := a)]

omit [DecidableEq ν] in
theorem dedupSorted_strict : ∀ l : List Nat, l.Pairwise (fun x y => x ≤ y) →
    (dedupSorted l).Pairwise (fun x y => x < y) := by
  intro l
  induction l with
  | nil => intro _; simp [dedupSorted]
  | cons a r ih =>
    intro hp
    cases r with
    | nil => simp [dedupSorted]
    | cons b r' =>
      rw [List.pairwise_cons] at hp
      obtain ⟨ha, hp'⟩ := hp
      rw [dedupSorted.eq_3]
      split
      · exact ih hp'
      · rename_i hab
        rw [List.pairwise_cons]
        refine ⟨fun y hy => ?_, ih hp'⟩
        rw [mem_dedupSorted] at hy
        have hab' : a ≤ b := ha b (List.mem_cons_self ..)
        rw [List.pairwise_cons] at hp'
        rcases List.mem_cons.1 hy with rfl | hy'
        · omega
        · have := hp'.1 y hy'; omega

omit [DecidableEq ν] in
theorem strict_sorted_ext : ∀ l₁ l₂ : List Nat, l₁.Pairwise (fun x y => x < y) →
    l₂.Pairwise (fun x y => x < y) → (∀ x, x ∈ l₁ ↔ x ∈ l₂) → l₁ = l₂ := by
  intro l₁
  induction l₁ with
  | nil =>
    intro l₂ _ _ h
    cases l₂ with
    | nil => rfl
    | cons b r => exact absurd ((h b).2 (List.mem_cons_self ..)) (by simp)
  | cons a r₁ ih =>
    intro l₂ h₁ h₂ h
    cases l₂ with
    | nil => exact absurd ((h a).1 (List.mem_cons_self ..)) (by simp)
    | cons b r₂ =>
      rw [List.pairwise_cons] at h₁ h₂
      have hab : a = b := by
        have h1 := (h a).1 (List.mem_cons_self ..)
        have h2 := (h b).2 (List.mem_cons_self ..)
        rcases List.mem_cons.1 h1 with e | h1'
        · exact e
        · rcases List.mem_cons.1 h2 with e | h2'
          · exact e.symm
          · have := h₁.1 b h2'; have := h₂.1 a h1'; omega
      subst hab
      congr 1
      apply ih r₂ h₁.2 h₂.2
      intro x
      constructor
      · intro hx
        rcases List.mem_cons.1 ((h x).1 (List.mem_cons_of_mem _ hx)) with e | hx'
        · have := h₁.1 x hx; omega
        · exact hx'
      · intro hx
        rcases List.mem_cons.1 ((h x).2 (List.mem_cons_of_mem _ hx)) with e | hx'
        · have := h₂.1 x hx; omega
        · exact hx'

omit [DecidableEq ν] in
theorem mem_canonSet {x : Nat} {l : List Nat} : x ∈ canonSet l ↔ x ∈ l := by
  unfold canonSet
  rw [mem_dedupSorted, List.mem_mergeSort]

omit [DecidableEq ν] in
theorem canonSet_strict (l : List Nat) : (canonSet l).Pairwise (fun x y => x < y) := by
  unfold canonSet
  apply dedupSorted_strict
  have := List.pairwise_mergeSort (le := fun a b : Nat => decide (a ≤ b))
    (fun a b c h1 h2 => by simp only [decide_eq_true_eq] at *; omega)
    (fun a b => by simp only [Bool.or_eq_true, decide_eq_true_eq]; omega) l
  exact this.imp (fun h => by simpa using h)

/-- the canonical form depends on the members only -/
theorem canonSet_congr {l₁ l₂ : List Nat} (h : ∀ x, x ∈ l₁ ↔ x ∈ l₂) : canonSet l₁ = canonSet l₂ :=
  strict_sorted_ext _ _ (canonSet_strict l₁) (canonSet_strict l₂)
    (fun x => by rw [mem_canonSet, mem_canonSet]; exact h x)

omit [DecidableEq ν] in
theorem sameSet_of_mem_iff {l₁ l₂ : List Nat} (h : ∀ x, x ∈ l₁ ↔ x ∈ l₂) : sameSet l₁ l₂ = true := by
  unfold sameSet
  rw [canonSet_congr h]; simp

omit [DecidableEq ν] in
theorem sameReqL_append : ∀ (cs cs' fs fs' : List FDef), sameReqL cs cs' = true →
    sameReqL fs fs' = true → sameReqL (cs ++ fs) (cs' ++ fs') = true := by
  intro cs
  induction cs with
  | nil =>
    intro cs' fs fs' h1 h2
    cases cs' with
    | nil => simpa using h2
    | cons c' r' => simp [sameReqL] at h1
  | cons c r ih =>
    intro cs' fs fs' h1 h2
    cases cs' with
    | nil => simp [sameReqL] at h1
    | cons c' r' =>
      simp only [sameReqL, Bool.and_eq_true] at h1
      simp only [List.cons_append, sameReqL, Bool.and_eq_true]
      exact ⟨h1.1, ih r' fs fs' h1.2 h2⟩

theorem Expands.sameReq {a : Ast ν} (wf : WFNames a) {ms : List (Member ν)} {fs : List FDef}
    (h : Expands a ms fs) : ∀ fs', Expands a ms fs' → sameReqL fs fs' = true := by
  induction h with
  | nil => intro fs' h'; cases h'; simp [sameReqL]
  | field hf _ ih =>
    intro fs' h'
    cases h' with
    | field hf' hr' =>
      simp only [sameReqL, FDef.sameReq, Bool.and_eq_true]
      exact ⟨⟨sameSet_of_mem_iff (fun _ => Iff.rfl), trivial⟩, ih _ hr'⟩
  | group hf _ hrq _ ihg ihr =>
    intro fs' h'
    cases h' with
    | group hf' hg' hrq' hr' =>
      simp only [sameReqL, FDef.sameReq, Bool.and_eq_true]
      exact ⟨⟨sameSet_of_mem_iff (fun x => (hrq x).trans (hrq' x).symm), ihg _ hg'⟩, ihr _ hr'⟩
  | comp hc _ _ ihc ihr =>
    intro fs' h'
    cases h' with
    | comp hc' hcs' hr' =>
      have := CompDef.unique wf hc hc'
      subst this
      exact sameReqL_append _ _ _ _ (ihc _ hcs') (ihr _ hr')

/-- the monitor has nothing to say about a dump that expands the members and has the spec's tag sets -/
theorem monMsg_silent {a : Ast ν} (wf : WFNames a) (f : Nat) {ms : List (Member ν)} {d : MsgDump}
    (hflat : Expands a ms d.flat) (htags : ∀ t, t ∈ d.tags ↔ ReachM a ms t)
    (hreq : ∀ t, t ∈ d.req ↔ ReqM a ms t) (hmap : d.fmapOK = true) : monMsg a f ms d = [] := by
  unfold monMsg
  split
  · rfl
  · rename_i fs rq he
    obtain ⟨hexp, hrq⟩ := expandSpec_sound a wf f ms fs rq he
    have h1 : canonSet (fs.flatMap FDef.allTags) = canonSet d.tags :=
      canonSet_congr (fun x => (hexp.tags_iff wf x).trans (htags x).symm)
    have h2 : canonSet rq = canonSet d.req :=
      canonSet_congr (fun x => (hrq x).trans (hreq x).symm)
    simp [h1, h2, hexp.sameShape wf _ hflat, hexp.sameReq wf _ hflat, hmap]

/-! ## 12. the Bool guards of the monitor are the declarative predicates -/

omit [DecidableEq ν] in
theorem distinctB_iff {α β : Type} [DecidableEq β] (key : α → β) (l : List α) :
    distinctB key l = true ↔ l.Pairwise (fun x y => key x ≠ key y) := by
  induction l with
  | nil => simp [distinctB]
  | cons x r ih => simp [distinctB, List.pairwise_cons, List.all_eq_true, ih]

theorem wfNamesB_iff (a : Ast ν) : wfNamesB a = true ↔ WFNames a := by
  unfold wfNamesB
  simp only [Bool.and_eq_true, distinctB_iff]
  constructor
  · rintro ⟨⟨⟨h1, h2⟩, h3⟩, h4⟩; exact ⟨h1, h2, h3, h4⟩
  · rintro ⟨h1, h2, h3, h4⟩; exact ⟨⟨⟨h1, h2⟩, h3⟩, h4⟩

theorem specComp_isSome {a : Ast ν} {n : ν} :
    (specComp a n).isSome = true ↔ ∃ cms, CompDef a n cms := by
  unfold specComp
  rw [Option.isSome_map, find?_key_isSome (key := fun c : ν × List (Member ν) => c.1)]
  constructor
  · rintro ⟨c, hc, hn⟩; exact ⟨c.2, by unfold CompDef; rw [← hn]; exact hc⟩
  · rintro ⟨cms, hc⟩; exact ⟨(n, cms), hc, rfl⟩

theorem refsOKB_sound (a : Ast ν) : ∀ f ms, refsOKB a f ms = true → RefsOK a ms := by
  intro f
  induction f with
  | zero => intro ms h; simp [refsOKB] at h
  | succ f ih =>
    intro ms h
    cases ms with
    | nil => exact .nil
    | cons m rest =>
      cases m with
      | field n r =>
        simp only [refsOKB, Bool.and_eq_true] at h
        obtain ⟨t, ht⟩ := specFieldNum_isSome.1 h.1
        exact .field ht (ih rest h.2)
      | group n r gms =>
        simp only [refsOKB, Bool.and_eq_true] at h
        obtain ⟨t, ht⟩ := specFieldNum_isSome.1 h.1.1
        exact .group ht (ih gms h.1.2) (ih rest h.2)
      | comp n r =>
        simp only [refsOKB, Bool.and_eq_true] at h
        obtain ⟨cms, hc⟩ := specComp_isSome.1 h.1
        exact .comp hc (ih rest h.2)

theorem refsOKB_complete (a : Ast ν) : ∀ f ms, RefsOK a ms → membersSize ms ≤ f → refsOKB a f ms = true := by
  intro f
  induction f with
  | zero => intro ms _ hsz; have := membersSize_pos ms; omega
  | succ f ih =>
    intro ms hr hsz
    cases hr with
    | nil => simp [refsOKB]
    | @field n r rest t hf hrest =>
      simp only [membersSize, Member.size] at hsz
      simp only [refsOKB, Bool.and_eq_true]
      exact ⟨specFieldNum_isSome.2 ⟨t, hf⟩, ih rest hrest (by omega)⟩
    | @group n r gms rest t hf hg hrest =>
      simp only [membersSize, Member.size] at hsz
      have := membersSize_pos rest
      have := membersSize_pos gms
      simp only [refsOKB, Bool.and_eq_true]
      exact ⟨⟨specFieldNum_isSome.2 ⟨t, hf⟩, ih gms hg (by omega)⟩, ih rest hrest (by omega)⟩
    | @comp n r rest cms hc hrest =>
      simp only [membersSize, Member.size] at hsz
      simp only [refsOKB, Bool.and_eq_true]
      exact ⟨specComp_isSome.2 ⟨cms, hc⟩, ih rest hrest (by omega)⟩

theorem danglingB_iff (a : Ast ν) : danglingB a = true ↔ Dangling a := by
  unfold danglingB Dangling
  rw [List.any_eq_true]
  constructor
  · rintro ⟨ms, hms, h⟩
    refine ⟨ms, hms, fun hr => ?_⟩
    rw [refsOKB_complete a _ ms hr (Nat.le_succ _)] at h
    cases h
  · rintro ⟨ms, hms, h⟩
    refine ⟨ms, hms, ?_⟩
    cases hb : refsOKB a (membersSize ms + 1) ms with
    | true => exact absurd (refsOKB_sound a _ ms hb) h
    | false => rfl

/-! ## 13. what is loaded: the declared message types, header and trailer -/

theorem buildMsgs_keys (a : Ast ν) (fuel : Nat) (mk : List Part → MDef) (memo : Memo ν) :
    ∀ l acc msgs, buildMsgs a fuel mk memo l acc = .ok msgs →
    msgs.map (·.1) = (l.map (·.1)).reverse ++ acc.map (·.1) := by
  intro l
  induction l with
  | nil => intro acc msgs h; simp only [buildMsgs] at h; cases h; simp
  | cons c rest ih =>
    obtain ⟨mt, ms⟩ := c
    intro acc msgs h
    simp only [buildMsgs] at h
    split at h
    · cases h
    · rw [ih _ msgs h]; simp

theorem buildOpt_isSome {a : Ast ν} {fuel : Nat} {mk : List Part → MDef} {memo : Memo ν}
    {o : Option (List (Member ν))} {r : Option MDef} (h : buildOpt a fuel mk memo o = .ok r) :
    r.isSome = o.isSome := by
  cases o with
  | none => simp only [buildOpt] at h; cases h; rfl
  | some ms => obtain ⟨ps, _, _, rfl⟩ := buildOpt_some h; rfl

theorem specMsg_isSome {a : Ast ν} {mt : ν} :
    (specMsg a mt).isSome = true ↔ ∃ c ∈ a.msgs, c.1 = mt := by
  unfold specMsg
  rw [Option.isSome_map, find?_key_isSome (key := fun c : ν × List (Member ν) => c.1)]

theorem buildWith_loaded {a : Ast ν} {fuel : Nat} {mk : List Part → MDef} {d : Dict ν}
    (h : buildWith a fuel mk = .ok d) :
    (∀ mt, mt ∈ d.msgs.map (·.1) ↔ ∃ c ∈ a.msgs, c.1 = mt) ∧
    d.header.isSome = a.header.isSome ∧ d.trailer.isSome = a.trailer.isSome := by
  obtain ⟨_, hm, hh, ht⟩ := buildWith_inv h
  refine ⟨fun mt => ?_, buildOpt_isSome hh, buildOpt_isSome ht⟩
  rw [buildMsgs_keys a fuel mk d.comps a.msgs [] d.msgs hm]
  simp

theorem monLoad_loaded_silent {a : Ast ν} (wf : WFNames a) {fuel : Nat} {mk : List Part → MDef} {d : Dict ν}
    (h : buildWith a fuel mk = .ok d) :
    monLoad a (.loaded (d.msgs.map (·.1)) d.header.isSome d.trailer.isSome) = [] := by
  obtain ⟨hk, hh, ht⟩ := buildWith_loaded h
  have hdang : danglingB a = false := by
    cases hb : danglingB a with
    | false => rfl
    | true =>
      obtain ⟨ms, hms, hn⟩ := (danglingB_iff a).1 hb
      exact absurd (buildWith_refsOK wf h ms hms) hn
  have h1 : (d.msgs.map (·.1)).all (fun m => (specMsg a m).isSome) = true := by
    rw [List.all_eq_true]
    intro m hm
    exact specMsg_isSome.2 ((hk m).1 hm)
  have h2 : a.msgs.all (fun m => (d.msgs.map (·.1)).contains m.1) = true := by
    rw [List.all_eq_true]
    intro c hc
    rw [List.contains_iff_mem]
    exact (hk c.1).2 ⟨c, hc, rfl⟩
  unfold monLoad
  simp only [hdang, h1, h2, hh, ht]
  simp

end
end Qfx.Dict
