/-
  The WRITER side of the dictionary round trip: `RepeatingGroup.Write` of entries that conform (`Spec.entriesOK`) to a template that
  describes the dictionary's member list (`TmplDict`) is a WELL-NESTED member sequence for that dictionary (`GWU` / `GroupWalk`), at any
  nesting depth — by the mutual functional induction of `buildEntry` / `writeEntries`.
-/
import Qfx.Lemmas.CodecDictItems
import Qfx.Lemmas.CodecGroupNested
namespace Qfx
open Qfx.Spec

/-- the template describes the dictionary's member list: element items are leaf members, group items are nested groups whose
    template describes the nested member list (order and completeness are not required) -/
inductive TmplDict : List Item → List DNode → Prop where
  | nil (C : List DNode) : TmplDict [] C
  | elem {t : Tag} {r : List Item} {C : List DNode} : isGroupMember t C = true → groupOf C t = none → TmplDict r C → TmplDict (.elem t :: r) C
  | group {t : Tag} {tm r : List Item} {C CN : List DNode} : groupOf C t = some CN → TmplDict tm CN → TmplDict r C →
      TmplDict (.group t tm :: r) C

/-- `GroupWalk` without the wire-form requirement on the fields -/
inductive GWU : List DNode → List TagValue → Prop where
  | nil (C : List DNode) : GWU C []
  | leaf {C : List DNode} {tv : TagValue} {r : List TagValue} : isGroupMember tv.tag C = true → groupOf C tv.tag = none →
      GWU C r → GWU C (tv :: r)
  | nest {C CN : List DNode} {tv : TagValue} {MN r : List TagValue} : groupOf C tv.tag = some CN →
      GWU CN MN → GWU C r → GWU C (tv :: (MN ++ r))

theorem GWU.append {C : List DNode} {a b : List TagValue} (ha : GWU C a) (hb : GWU C b) : GWU C (a ++ b) := by
  induction ha with
  | nil C => simpa using hb
  | leaf h1 h2 _ ih => exact .leaf h1 h2 (ih hb)
  | nest h1 h2 _ _ ih2 =>
    have := GWU.nest h1 h2 (ih2 hb)
    simpa [List.append_assoc] using this

theorem GWU.wire {C : List DNode} {M : List TagValue} (h : GWU C M) (hw : ∀ tv ∈ M, IsWire tv) : GroupWalk C M := by
  induction h with
  | nil C => exact .nil _
  | leaf h1 h2 _ ih => exact .leaf (hw _ (by simp)) h1 h2 (ih (fun x hx => hw x (by simp [hx])))
  | nest h1 _ _ ih1 ih2 =>
    exact .nest (hw _ (by simp)) h1 (ih1 (fun x hx => hw x (by simp [hx]))) (ih2 (fun x hx => hw x (by simp [hx])))

theorem tmplDict_find_elem {tmpl : List Item} {C : List DNode} (h : TmplDict tmpl C) (t t' : Tag)
    (hf : findItem tmpl t = some (.elem t')) : isGroupMember t C = true ∧ groupOf C t = none := by
  induction h with
  | nil C => simp [findItem] at hf
  | @elem t0 r C h1 h2 _ ih =>
    simp only [findItem, Item.tag] at hf
    by_cases e : t0 = t
    · subst e; exact ⟨h1, h2⟩
    · simp only [e, if_false] at hf; exact ih hf
  | @group t0 tm r C CN h1 _ _ _ ih =>
    simp only [findItem, Item.tag] at hf
    by_cases e : t0 = t
    · simp [e] at hf
    · simp only [e, if_false] at hf; exact ih hf

theorem tmplDict_find_group {tmpl : List Item} {C : List DNode} (h : TmplDict tmpl C) (t t' : Tag) (tm : List Item)
    (hf : findItem tmpl t = some (.group t' tm)) : ∃ CN, groupOf C t = some CN ∧ TmplDict tm CN := by
  induction h with
  | nil C => simp [findItem] at hf
  | @elem t0 r C h1 h2 _ ih =>
    simp only [findItem, Item.tag] at hf
    by_cases e : t0 = t
    · simp [e] at hf
    · simp only [e, if_false] at hf; exact ih hf
  | @group t0 tm0 r C CN h1 h2 _ _ ih =>
    simp only [findItem, Item.tag] at hf
    by_cases e : t0 = t
    · simp only [e, if_true, Option.some.injEq, Item.group.injEq] at hf
      obtain ⟨_, h⟩ := hf
      subst h; subst e
      exact ⟨CN, h1, h2⟩
    · simp only [e, if_false] at hf; exact ih hf

/-- every field of the entry under construction is an owned list that is well nested for `C` -/
def FMgw (C : List DNode) (fm : FieldMap) : Prop := ∀ k f, alFind fm.lookup k = some f → ∃ l, f = .owned l ∧ GWU C l

theorem FMgw.empty (C : List DNode) (o : OrdKind) : FMgw C (FieldMap.empty o) := by
  intro k f h; simp [FieldMap.empty, alFind] at h

theorem FMgw.insert {C : List DNode} {fm : FieldMap} (h : FMgw C fm) (t : Tag) (l : List TagValue) (tags : List Tag) (hl : GWU C l) :
    FMgw C { fm with lookup := alInsert fm.lookup t (.owned l), tags := tags } := by
  intro k f hf
  simp only at hf
  by_cases e : k = t
  · subst e; rw [alFind_insert_self] at hf; injection hf with hf; exact ⟨l, hf.symm, hl⟩
  · rw [alFind_insert_other _ _ _ _ e] at hf; exact h k f hf

theorem FMgw.setTV {C : List DNode} {fm : FieldMap} (h : FMgw C fm) (tv : TagValue) (s : SetRes) (hs : fm.setTV tv = .ok s)
    (hl : GWU C [tv]) : FMgw C s.fm := by
  unfold FieldMap.setTV at hs
  cases hf : alFind fm.lookup tv.tag with
  | none => rw [hf] at hs; injection hs with hs; subst hs; exact h.insert _ _ _ hl
  | some f =>
    rw [hf] at hs
    obtain ⟨l, e, _⟩ := h _ _ hf
    subst e
    cases l with
    | nil => cases hs
    | cons x r => injection hs with hs; subst hs; exact h.insert _ _ _ hl


theorem tmplEq_eq : ∀ (a b : List Item), tmplEq a b = true → a = b := by
  intro a b
  fun_induction tmplEq a b with
  | case1 => intro _; rfl
  | case2 x r y r' ih =>
    intro h
    simp only [Bool.and_eq_true, beq_iff_eq] at h
    rw [h.1, ih h.2]
  | case3 x ta r y tb r' ih1 ih2 =>
    intro h
    simp only [Bool.and_eq_true, beq_iff_eq] at h
    rw [h.1.1, ih1 h.1.2, ih2 h.2]
  | case4 => intro h; cases h

theorem collectTags_gwu {C : List DNode} {fm : FieldMap} (h : FMgw C fm) : ∀ l : List Tag, GWU C (collectTags fm.lookup l) := by
  intro l
  induction l with
  | nil => exact .nil _
  | cons t r ih =>
    simp only [collectTags]
    cases hf : alFind fm.lookup t with
    | none => simpa using ih
    | some f =>
      obtain ⟨x, e, hx⟩ := h t f hf
      subst e
      exact GWU.append (by simpa [Field.items] using hx) ih

/-- `Write` OF ENTRIES THAT CONFORM TO A TEMPLATE THAT DESCRIBES THE DICTIONARY IS WELL NESTED FOR THE DICTIONARY (any depth) -/
theorem write_gwu :
    (∀ (e : List GFld) (fm : FieldMap), ∀ (tmpl : List Item) (C : List DNode), TmplDict tmpl C → entryOK tmpl e = true → FMgw C fm →
      ∀ fm', buildEntry e fm = .ok fm' → FMgw C fm') ∧
    (∀ (tmpl : List Item) (es : List (List GFld)), ∀ (C : List DNode), TmplDict tmpl C → entriesOK tmpl es = true →
      ∀ W, writeEntries tmpl es = .ok W → GWU C W) := by
  apply buildEntry.mutual_induct
    (motive1 := fun e fm => ∀ (tmpl : List Item) (C : List DNode), TmplDict tmpl C → entryOK tmpl e = true → FMgw C fm →
      ∀ fm', buildEntry e fm = .ok fm' → FMgw C fm')
    (motive2 := fun tmpl es => ∀ (C : List DNode), TmplDict tmpl C → entriesOK tmpl es = true →
      ∀ W, writeEntries tmpl es = .ok W → GWU C W)
  · intro fm tmpl C _ _ h fm' hb
    simp only [buildEntry] at hb; injection hb with hb; subst hb; exact h
  · intro t v r fm s hs ih tmpl C htd hok h fm' hb
    simp only [entryOK, Bool.and_eq_true] at hok
    simp only [buildEntry, hs] at hb
    cases hfi : findItem tmpl t with
    | none => rw [hfi] at hok; simp at hok
    | some it =>
      cases it with
      | group _ _ => rw [hfi] at hok; simp at hok
      | elem t' =>
        obtain ⟨h1, h2⟩ := tmplDict_find_elem htd t t' hfi
        have hl : GWU C [TagValue.init t v] := .leaf (by simpa [TagValue.init] using h1) (by simpa [TagValue.init] using h2) (.nil _)
        exact ih tmpl C htd hok.2 (h.setTV _ s hs hl) fm' hb
  · intro t v r fm e hs tmpl C _ _ _ fm' hb
    simp only [buildEntry, hs] at hb; cases hb
  · intro t v r fm w hs tmpl C _ _ _ fm' hb
    simp only [buildEntry, hs] at hb; cases hb
  · intro t tm es r fm tvs hw ih2 ih1 tmpl C htd hok h fm' hb
    simp only [entryOK, Bool.and_eq_true] at hok
    simp only [buildEntry, hw] at hb
    cases hfi : findItem tmpl t with
    | none => rw [hfi] at hok; simp at hok
    | some it =>
      cases it with
      | elem _ => rw [hfi] at hok; simp at hok
      | group t' tm' =>
        rw [hfi] at hok
        simp only at hok
        have etm : tm = tm' := tmplEq_eq tm tm' hok.1.1
        subst etm
        obtain ⟨CN, hg, htdN⟩ := tmplDict_find_group htd t t' tm hfi
        have hW : GWU CN tvs := ih2 CN htdN hok.1.2 tvs hw
        have hl : GWU C (countTV t es.length :: tvs) := by
          have := GWU.nest (C := C) (tv := countTV t es.length) (r := []) (by simpa [countTV, TagValue.init] using hg) hW (.nil _)
          simpa using this
        exact ih1 tmpl C htd hok.2 (h.insert _ _ _ hl) fm' hb
  · intro t tm es r fm e hw _ tmpl C _ _ _ fm' hb
    simp only [buildEntry, hw] at hb; cases hb
  · intro t tm es r fm w hw _ tmpl C _ _ _ fm' hb
    simp only [buildEntry, hw] at hb; cases hb
  · intro tmpl C _ _ W hW
    simp only [writeEntries] at hW; injection hW with hW; subst hW; exact .nil _
  · intro tmpl e es fm hb tvs hw ih1 ih2 C htd hok W hW
    simp only [writeEntries, hb, hw] at hW
    injection hW with hW; subst hW
    have hok' : entryOK tmpl e = true ∧ entriesOK tmpl es = true := by
      unfold entriesOK at hok
      simp only [Bool.and_eq_true] at hok
      exact ⟨hok.1.2, hok.2⟩
    have hfm := ih1 tmpl C htd hok'.1 (FMgw.empty C _) fm hb
    exact GWU.append (collectTags_gwu hfm _) (ih2 C htd hok'.2 tvs hw)
  · intro tmpl e es fm hb e1 hw _ _ C _ _ W hW
    simp only [writeEntries, hb, hw] at hW; cases hW
  · intro tmpl e es fm hb w hw _ _ C _ _ W hW
    simp only [writeEntries, hb, hw] at hW; cases hW
  · intro tmpl e es e1 hb _ C _ _ W hW
    simp only [writeEntries, hb] at hW; cases hW
  · intro tmpl e es w hb _ C _ _ W hW
    simp only [writeEntries, hb] at hW; cases hW


/-- `Write(G, template, entries)` = the count field followed by a well-nested member sequence for the dictionary's member list `C` -/
theorem writeGroup_groupWalk (G : Tag) (tmpl : List Item) (es : List (List GFld)) (C : List DNode) (htd : TmplDict tmpl C)
    (hok : entriesOK tmpl es = true) (tvs : List TagValue) (hw : writeGroup G tmpl es = .ok tvs)
    (hwire : ∀ tv ∈ tvs, IsWire tv) :
    ∃ W, tvs = countTV G es.length :: W ∧ GroupWalk C W := by
  unfold writeGroup at hw
  cases hW : writeEntries tmpl es with
  | ok W =>
    rw [hW] at hw
    injection hw with hw; subst hw
    exact ⟨W, rfl, (write_gwu.2 tmpl es C htd hok W hW).wire (fun tv h => hwire tv (by simp [h]))⟩
  | err e => rw [hW] at hw; cases hw
  | fault w => rw [hW] at hw; cases hw

end Qfx
