/-
  C06, whole histories: the generic frame theorem (Lemmas/SessPool.lean, SessRun.lean) instantiated with the gate monitor
  `gateObs` (Spec/SessionTypedC06.lean) and the trivial store relation.
-/
import Qfx.Lemmas.SessRun
namespace Qfx.Sess
open Qfx

instance gatePolicy (cfg : Cfg) (P : InMsg → Prop) : Policy (gateObs cfg P) (fun _ _ => True) where
  sRefl := fun _ => trivial
  sTrans := fun _ _ => trivial
  nWire := fun _ => trivial
  nSaved := fun _ _ _ => trivial
  nIncS := trivial
  nIncT := trivial
  nSetT := fun _ => trivial
  nArm := fun _ => trivial
  nClosed := trivial
  nOnLogout := trivial
  nRefresh := trivial
  sPersist := fun _ _ _ => trivial
  sIncS := fun _ => trivial
  sTarget := fun _ _ _ => trivial

theorem gate_resetOK (cfg : Cfg) (P : InMsg → Prop) : ResetOK (gateObs cfg P) (fun _ _ => True) := ⟨trivial, fun _ => trivial⟩

theorem gate_msgHyp (cfg : Cfg) (P : InMsg → Prop) (m : InMsg) (hm : P m) : MsgHyp (gateObs cfg P) (fun _ _ => True) P cfg m where
  p := hm
  cb := by
    intro hg s'
    unfold cbObs
    split
    · exact ⟨m, hm, rfl, rfl, hg.valid, fun _ => hg⟩
    · rename_i hk
      exact ⟨m, hm, rfl, by simpa using hk, hg⟩
  cbA := by
    intro hk hne s'
    unfold cbObs
    have : isAdminKind (kindOf m) = true := by rw [hk]; decide
    simp only [this, if_true]
    exact ⟨m, hm, rfl, rfl, hne, fun h => absurd hk h⟩
  onLogon := fun hk hg hv => ⟨m, hm, hk, hg, hv⟩
  ro := Or.inl (gate_resetOK cfg P)

theorem mem_msgsOf_incoming (evs : List Ev) (m : InMsg) (h : Ev.incomingMsg (some m) ∈ evs) : m ∈ msgsOf evs := by
  induction evs with
  | nil => cases h
  | cons e es ih =>
    rcases List.mem_cons.1 h with rfl | h
    · simp [msgsOf]
    · have := ih h
      cases e with
      | incomingMsg o => cases o <;> simp [msgsOf, this]
      | arrive m' => simp [msgsOf, this]
      | _ => simpa [msgsOf] using this

theorem mem_msgsOf_arrive (evs : List Ev) (m : InMsg) (h : Ev.arrive m ∈ evs) : m ∈ msgsOf evs := by
  induction evs with
  | nil => cases h
  | cons e es ih =>
    rcases List.mem_cons.1 h with rfl | h
    · simp [msgsOf]
    · have := ih h
      cases e with
      | incomingMsg o => cases o <;> simp [msgsOf, this]
      | arrive m' => simp [msgsOf, this]
      | _ => simpa [msgsOf] using this

theorem gate_evOK (cfg : Cfg) (evs : List Ev) : ∀ e ∈ evs, EvOK (gateObs cfg (· ∈ msgsOf evs)) (fun _ _ => True) (· ∈ msgsOf evs) cfg e := by
  intro e he
  cases e with
  | incomingMsg o => intro x hx; subst hx; exact mem_msgsOf_incoming evs x he
  | arrive m => exact mem_msgsOf_arrive evs m he
  | send m => exact Or.inl (gate_resetOK _ _)
  | sessionTime a b => exact Or.inr (gate_resetOK _ _)
  | resetTime now => exact Or.inl (gate_resetOK _ _)
  | _ => trivial

theorem gate_all_histories (cfg : Cfg) (s0 t0 : Int) (evs : List Ev) :
    ∀ o ∈ _root_.traceOf (initSess cfg s0 t0) evs, gateObs cfg (· ∈ msgsOf evs) o :=
  (run_good (N := gateObs cfg (· ∈ msgsOf evs)) (S := fun _ _ => True) (P := (· ∈ msgsOf evs)) (initSess cfg s0 t0) evs
    (fun m hm => gate_msgHyp cfg _ m hm) (Or.inl (gate_resetOK _ _)) (poolInv_init cfg s0 t0) (gate_evOK cfg evs)).1

/-! ## the Logon site -/

/-- does this Logon reset the store before its number is checked? (acceptor with ResetOnLogon, or ResetSeqNumFlag=Y that
    is not the echo of our own) -/
def logonResets (s : Sess) (m : InMsg) : Bool :=
  (if s.cfg.initiator then false else s.cfg.resetOnLogon) || (logonResetFlag m && !s.sentReset)

/-- "no logon notification" policy, used to see that replies / resets never emit one -/
instance noLogonPolicy : Policy (fun o => o ≠ Obs.onLogon) (fun _ _ => True) where
  sRefl := fun _ => trivial
  sTrans := fun _ _ => trivial
  nWire := fun _ => by simp
  nSaved := fun _ _ _ => by simp
  nIncS := by simp
  nIncT := by simp
  nSetT := fun _ => by simp
  nArm := fun _ => by simp
  nClosed := by simp
  nOnLogout := by simp
  nRefresh := by simp
  sPersist := fun _ _ _ => trivial
  sIncS := fun _ => trivial
  sTarget := fun _ _ _ => trivial

theorem noLogon_of_relF {s s' : Sess} (h : RelF (fun o => o ≠ Obs.onLogon) (fun _ _ => True) s s') (h0 : Obs.onLogon ∉ s.log) :
    Obs.onLogon ∉ s'.log := by
  obtain ⟨extra, hl, hn⟩ := h.log
  rw [hl]
  intro hc
  rcases List.mem_append.1 hc with hc | hc
  · exact hn _ hc rfl
  · exact h0 hc

theorem cbObs_ne_onLogon (s : Sess) (m : InMsg) : cbObs s m ≠ Obs.onLogon := by
  unfold cbObs; split <;> simp

theorem gate_logon (s : Sess) (m : InMsg) (h0 : Obs.onLogon ∉ s.log) (h : Obs.onLogon ∈ (handleLogon s m).1.log) :
    GateMsg s.cfg m ∧ TimeGate s m ∧ callbackVerdict m = none ∧
      ∃ n, getInt m 34 = .val n ∧ (if logonResets s m then 1 else s.store.target) ≤ n := by
  have hro : ResetOK (fun o => o ≠ Obs.onLogon) (fun _ _ => True) := ⟨by simp, fun _ => trivial⟩
  unfold handleLogon at h
  split at h
  · exact absurd h h0
  · generalize hs1 : (if (!s.cfg.initiator && s.cfg.refreshOnLogon) = true then s.emit Obs.refresh else s) = s1 at h
    have h1 : RelF (fun o => o ≠ Obs.onLogon) (fun _ _ => True) s s1 := by rw [← hs1]; rel_peel
    have a1 : s1.store = s.store ∧ s1.sentReset = s.sentReset := by rw [← hs1]; split <;> exact ⟨rfl, rfl⟩
    simp only [] at h
    rcases verifyAppImpl_cases s1 m with ⟨hne, he⟩ | ⟨_, r, he⟩
    · rw [he] at h
      have h2 : RelF (fun o => o ≠ Obs.onLogon) (fun _ _ => True) s (s1.emit (cbObs s1 m)) := h1.trans (RelF.emit _ _ (cbObs_ne_onLogon s1 m))
      have a2 : (s1.emit (cbObs s1 m)).store = s.store ∧ (s1.emit (cbObs s1 m)).sentReset = s.sentReset := a1
      generalize s1.emit (cbObs s1 m) = s2 at h h2 a2
      cases hcv : callbackVerdict m with
      | some r => rw [hcv] at h; exact absurd h (noLogon_of_relF h2 h0)
      | none =>
        rw [hcv] at h
        simp only [] at h
        have hreset : ((if s2.cfg.initiator = true then false else s2.cfg.resetOnLogon) || logonResetFlag m && !s2.sentReset) = logonResets s m := by
          unfold logonResets; rw [h2.cfg, a2.2]
        rw [hreset] at h
        generalize hs3 : (if logonResets s m = true then dropAndReset s2 else s2) = s3 at h
        have h3 : RelF (fun o => o ≠ Obs.onLogon) (fun _ _ => True) s s3 := by rw [← hs3]; rel_peel
        have a3 : s3.store.target = if logonResets s m then 1 else s.store.target := by
          rw [← hs3]; split
          · rfl
          · rw [a2.1]
        have hv1 := verifySelect_noApp s3 m false true
        have hv2 := verifySelect_pass s3 m false true false
        generalize verifySelect s3 m false true false = r2 at hv1 hv2 h
        obtain ⟨s4, o2⟩ := r2
        simp only [] at hv1 hv2 h
        subst hv1
        cases o2 with
        | some r => exact absurd h (noLogon_of_relF h3 h0)
        | none =>
          obtain ⟨hb, hcc, ht, hsq, _⟩ := hv2 rfl
          rw [h3.cfg] at hb hcc
          rw [h1.cfg] at hne
          refine ⟨⟨hb, hcc, hne⟩, ?_, rfl, ?_⟩
          · unfold TimeGate at ht ⊢
            have : curResend s4 = curResend s := by unfold curResend; rw [h3.st, h3.cfg]
            rw [h3.cfg, this] at ht; exact ht
          · obtain ⟨n, hn, hle⟩ := hsq.1 rfl
            exact ⟨n, hn, by rw [a3] at hle; exact hle⟩
    · rw [he] at h; exact absurd h (noLogon_of_relF h1 h0)
end Qfx.Sess
