/-
  C06, whole histories: the generic frame theorem (Lemmas/SessPool.lean, SessRun.lean) instantiated with the gate monitor
  `gateObs` (Spec/SessionTypedC06.lean) and the trivial store relation.
-/
import Qfx.Lemmas.SessRun
namespace Qfx.Sess
open Qfx

instance gatePolicy (cfg : Cfg) (P : InMsg → Prop) : Policy (gateObs cfg P) (fun _ _ => True) where
  sRefl := fun _ => trivial
  sTrans := fun _ _ => trivial
  nWire := fun _ => trivial
  nSaved := fun _ _ _ => trivial
  nIncS := trivial
  nIncT := trivial
  nSetT := fun _ => trivial
  nArm := fun _ => trivial
  nClosed := trivial
  nOnLogout := trivial
  nRefresh := trivial
  sPersist := fun _ _ _ => trivial
  sIncS := fun _ => trivial
  sTarget := fun _ _ _ => trivial

theorem gate_resetOK (cfg : Cfg) (P : InMsg → Prop) : ResetOK (gateObs cfg P) (fun _ _ => True) := ⟨trivial, fun _ => trivial⟩

theorem gate_msgHyp (cfg : Cfg) (P : InMsg → Prop) (m : InMsg) (hm : P m) : MsgHyp (gateObs cfg P) (fun _ _ => True) P cfg m where
  p := hm
  cb := by
    intro hg s'
    unfold cbObs
    split
    · exact ⟨m, hm, rfl, rfl, hg.valid, fun _ => hg⟩
    · rename_i hk
      exact ⟨m, hm, rfl, by simpa using hk, hg⟩
  cbA := by
    intro hk hne s'
    unfold cbObs
    have : isAdminKind (kindOf m) = true := by rw [hk]; decide
    simp only [this, if_true]
    exact ⟨m, hm, rfl, rfl, hne, fun h => absurd hk h⟩
  onLogon := fun hk hg hv => ⟨m, hm, hk, hg, hv⟩
  ro := Or.inl (gate_resetOK cfg P)

theorem mem_msgsOf_incoming (evs : List Ev) (m : InMsg) (h : Ev.incomingMsg (some m) ∈ evs) : m ∈ msgsOf evs := by
  induction evs with
  | nil => cases h
  | cons e es ih =>
    rcases List.mem_cons.1 h with rfl | h
    · simp [msgsOf]
    · have := ih h
      cases e with
      | incomingMsg o => cases o <;> simp [msgsOf, this]
      | arrive m' => simp [msgsOf, this]
      | _ => simpa [msgsOf] using this

theorem mem_msgsOf_arrive (evs : List Ev) (m : InMsg) (h : Ev.arrive m ∈ evs) : m ∈ msgsOf evs := by
  induction evs with
  | nil => cases h
  | cons e es ih =>
    rcases List.mem_cons.1 h with rfl | h
    · simp [msgsOf]
    · have := ih h
      cases e with
      | incomingMsg o => cases o <;> simp [msgsOf, this]
      | arrive m' => simp [msgsOf, this]
      | _ => simpa [msgsOf] using this

theorem gate_evOK (cfg : Cfg) (evs : List Ev) : ∀ e ∈ evs, EvOK (gateObs cfg (· ∈ msgsOf evs)) (fun _ _ => True) (· ∈ msgsOf evs) e := by
  intro e he
  cases e with
  | incomingMsg o => intro x hx; subst hx; exact mem_msgsOf_incoming evs x he
  | arrive m => exact mem_msgsOf_arrive evs m he
  | send m => exact Or.inl (gate_resetOK _ _)
  | sessionTime a b => exact Or.inr (gate_resetOK _ _)
  | _ => trivial

theorem gate_all_histories (cfg : Cfg) (s0 t0 : Int) (evs : List Ev) :
    ∀ o ∈ _root_.traceOf (initSess cfg s0 t0) evs, gateObs cfg (· ∈ msgsOf evs) o :=
  (run_good (N := gateObs cfg (· ∈ msgsOf evs)) (S := fun _ _ => True) (P := (· ∈ msgsOf evs)) (initSess cfg s0 t0) evs
    (fun m hm => gate_msgHyp cfg _ m hm) (Or.inl (gate_resetOK _ _)) (poolInv_init cfg s0 t0) (gate_evOK cfg evs)).1
end Qfx.Sess
