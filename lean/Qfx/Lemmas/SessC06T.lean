/-
  C06, the SendingTime clause over whole histories (contrapositive form): with latency checking on and every inbound message
  outside the window, the session never leaves the states Latent / NotSessionTime / Logon, so nothing is ever delivered and
  no Logon is accepted.  Same structure as the generic frame theorem, with the state invariant `Cold` added.
-/
import Qfx.Lemmas.SessC06H
namespace Qfx.Sess
open Qfx

def Rej.isHigh : Rej → Bool
  | .tooHigh .. => true
  | _ => false

theorem checkBeginString_notHigh {s : Sess} {m : InMsg} {r : Rej} (h : checkBeginString s m = some r) : r.isHigh = false := by
  unfold checkBeginString at h
  repeat' split at h
  all_goals first | (cases h; rfl) | cases h

theorem checkCompID_notHigh {s : Sess} {m : InMsg} {r : Rej} (h : checkCompID s m = some r) : r.isHigh = false := by
  unfold checkCompID at h
  repeat' split at h
  all_goals first | (cases h; rfl) | cases h

theorem checkSendingTime_notHigh {s : Sess} {m : InMsg} {r : Rej} (h : checkSendingTime s m = some r) : r.isHigh = false := by
  unfold checkSendingTime at h
  repeat' split at h
  all_goals first | (cases h; rfl) | cases h

theorem checkTooLow_notHigh {s : Sess} {m : InMsg} {r : Rej} (h : checkTooLow s m = some r) : r.isHigh = false := by
  unfold checkTooLow at h
  repeat' split at h
  all_goals first | (cases h; rfl) | cases h

theorem verifyAppImpl_notHigh {s : Sess} {m : InMsg} {r : Rej} (h : (verifyAppImpl s m).2 = some r) : r.isHigh = false := by
  unfold verifyAppImpl at h
  split at h
  · rename_i r' hv
    simp only [] at h
    cases h
    obtain ⟨_, _, rfl⟩ := validate_plain hv
    rfl
  · simp only [] at h
    unfold callbackVerdict at h
    repeat' split at h
    all_goals first | (cases h; rfl) | cases h

/-- without the "too high" check the pipeline never reports "too high" -/
theorem verifySelect_notHigh {s : Sess} {m : InMsg} {tl : Bool} {r : Rej} (h : (verifySelect s m false tl false).2 = some r) :
    r.isHigh = false := by
  unfold verifySelect at h
  split at h
  · rename_i hh; cases h; exact checkBeginString_notHigh hh
  · split at h
    · rename_i hh; cases h; exact checkCompID_notHigh hh
    · split at h
      · rename_i hh
        cases h
        split at hh
        · cases hh
        · exact checkSendingTime_notHigh hh
      · split at h
        · rename_i hh
          cases h
          split at hh
          · exact checkTooLow_notHigh hh
          · cases hh
        · simp at h

theorem ite_storeReset_frame (c : Prop) [Decidable c] (s : Sess) :
    (if c then dropAndReset s else s).cfg = s.cfg ∧ (if c then dropAndReset s else s).st = s.st := by
  split <;> exact ⟨rfl, rfl⟩

/-- a Logon is accepted, or found "too high" (which also establishes the session and starts recovery), only past the
    SendingTime check -/
theorem handleLogon_time (s : Sess) (m : InMsg)
    (h : (handleLogon s m).2 = none ∨ ∃ r, (handleLogon s m).2 = some (.rej r) ∧ r.isHigh = true) : TimeGate s m := by
  unfold handleLogon at h
  split at h
  · rcases h with h | ⟨r, h, _⟩ <;> cases h
  · generalize hs1 : (if (!s.cfg.initiator && s.cfg.refreshOnLogon) = true then s.emit Obs.refresh else s) = s1 at h
    have a1 : s1.cfg = s.cfg ∧ s1.st = s.st := by rw [← hs1]; split <;> exact ⟨rfl, rfl⟩
    simp only [] at h
    have hnh := @verifyAppImpl_notHigh s1 m
    rcases verifyAppImpl_cases s1 m with ⟨hne, he⟩ | ⟨_, r, he⟩
    · rw [he] at h hnh
      have a2 : (s1.emit (cbObs s1 m)).cfg = s.cfg ∧ (s1.emit (cbObs s1 m)).st = s.st := a1
      generalize s1.emit (cbObs s1 m) = s2 at h a2
      cases hcv : callbackVerdict m with
      | some r =>
        rw [hcv] at h hnh
        rcases h with h | ⟨r', h, hh⟩
        · cases h
        · simp only [] at h; cases h
          rw [hnh rfl] at hh; cases hh
      | none =>
        rw [hcv] at h
        simp only [] at h
        generalize hs3 : (if ((if s2.cfg.initiator = true then false else s2.cfg.resetOnLogon) || logonResetFlag m && !s2.sentReset) = true
            then dropAndReset s2 else s2) = s3 at h
        have a3 : s3.cfg = s.cfg ∧ s3.st = s.st := by
          rw [← hs3]; exact ⟨(ite_storeReset_frame _ s2).1.trans a2.1, (ite_storeReset_frame _ s2).2.trans a2.2⟩
        have hv2 := verifySelect_pass s3 m false true false
        have hv3 := @verifySelect_notHigh s3 m true
        generalize verifySelect s3 m false true false = r2 at hv2 hv3 h
        obtain ⟨s4, o2⟩ := r2
        cases o2 with
        | some r =>
          simp only [] at h hv3
          rcases h with h | ⟨r', h, hh⟩
          · cases h
          · cases h; rw [hv3 rfl] at hh; cases hh
        | none =>
          exact timeGate_congr m a3.2.symm a3.1.symm (hv2 rfl).2.2.1
    · rw [he] at h hnh
      rcases h with h | ⟨r', h, hh⟩
      · cases h
      · simp only [] at h; cases h
        rw [hnh rfl] at hh; cases hh

/-! ### the cold session: latency checking on, every inbound message outside the window -/

/-- no callback except FromAdmin for a Logon (which precedes the session-level checks), no logon notification -/
def coldObs : Obs → Prop
  | .fromApp .. => False
  | .fromAdmin k _ => k = "A"
  | .onLogon => False
  | _ => True

instance coldPolicy : Policy coldObs (fun _ _ => True) where
  sRefl := fun _ => trivial
  sTrans := fun _ _ => trivial
  nWire := fun _ => trivial
  nSaved := fun _ _ _ => trivial
  nIncS := trivial
  nIncT := trivial
  nSetT := fun _ => trivial
  nArm := fun _ => trivial
  nClosed := trivial
  nOnLogout := trivial
  nRefresh := trivial
  sPersist := fun _ _ _ => trivial
  sIncS := fun _ => trivial
  sTarget := fun _ _ _ => trivial

theorem cold_resetOK : ResetOK coldObs (fun _ _ => True) := ⟨trivial, fun _ => trivial⟩

/-- states in which no Logon has been accepted on the current connection (if any) -/
def ColdSt (st : SState) : Prop := st = .latent ∨ st = .notSessionTime ∨ st = .logon

/-- a message whose SendingTime is missing, unreadable or outside the window -/
def Late (m : InMsg) : Prop := ¬ TimeOK m

structure Cold (s : Sess) : Prop where
  lat : s.cfg.skipLatency = false
  st : ColdSt s.st
  inbox : ∀ m ∈ s.inbox, Late m

theorem coldSt_noResend {s : Sess} (h : ColdSt s.st) : curResend s = none := by
  unfold curResend
  rcases h with h | h | h <;> rw [h]

theorem cold_noTimeGate {s : Sess} {m : InMsg} (hc : Cold s) (hm : Late m) : ¬ TimeGate s m := by
  intro h
  rcases h with h | h | h
  · rw [hc.lat] at h; cases h
  · rw [coldSt_noResend hc.st] at h; cases h
  · exact hm h

theorem cold_logonHyp {s : Sess} {m : InMsg} (hc : Cold s) (hm : Late m) (hk : kindOf m = "A") : LogonHyp coldObs (fun _ _ => True) s m where
  cbA := by
    intro _ s'
    unfold cbObs
    have : isAdminKind (kindOf m) = true := by rw [hk]; decide
    simp only [this, if_true]
    exact hk
  onLogon := fun _ ht _ => absurd ht (cold_noTimeGate hc hm)
  ro := Or.inl cold_resetOK

theorem shutdownWithReason_latent (s : Sess) (m : InMsg) (b : Bool) : (shutdownWithReason s m b).2 = .latent := rfl

theorem cold_logonFixMsgIn {s : Sess} {m : InMsg} (hc : Cold s) (hm : Late m) :
    RelF coldObs (fun _ _ => True) s (logonFixMsgIn s m).1 ∧ (logonFixMsgIn s m).2 = .latent := by
  refine ⟨relF_logonFixMsgIn' s m (fun hk => cold_logonHyp hc hm hk) (Or.inl cold_resetOK), ?_⟩
  have ht := handleLogon_time s m
  unfold logonFixMsgIn
  split
  · rfl
  · generalize handleLogon s m = r at ht
    obtain ⟨s', o⟩ := r
    simp only [] at ht
    split
    · exact absurd (ht (Or.inl (by simp_all))) (cold_noTimeGate hc hm)
    · rfl
    · rfl
    · rename_i heq
      simp only [Prod.mk.injEq] at heq
      exact absurd (ht (Or.inr ⟨_, heq.2, rfl⟩)) (cold_noTimeGate hc hm)
    · rfl

theorem cold_fixMsgInCore {s : Sess} {m : InMsg} (hc : Cold s) (hm : Late m) :
    RelF coldObs (fun _ _ => True) s (fixMsgInCore s m).1 ∧ ColdSt (fixMsgInCore s m).2 := by
  unfold fixMsgInCore
  rcases hc.st with h | h | h
  · rw [h]; exact ⟨RelF.refl s, Or.inl rfl⟩
  · rw [h]; exact ⟨RelF.refl s, Or.inr (Or.inl rfl)⟩
  · rw [h]
    have := cold_logonFixMsgIn hc hm
    exact ⟨this.1, Or.inl this.2⟩

abbrev CRel := Rel coldObs (fun _ _ => True)
abbrev CRelF := RelF coldObs (fun _ _ => True)

/-- related to `s` under the cold policy, and still cold -/
def CGood (s s' : Sess) : Prop := CRel s s' ∧ Cold s'

theorem CGood.refl {s : Sess} (h : Cold s) : CGood s s := ⟨Rel.refl s, h⟩
theorem CGood.trans {a b c : Sess} (h1 : CGood a b) (h2 : CGood b c) : CGood a c := ⟨h1.1.trans h2.1, h2.2⟩
theorem CGood.relF {a b c : Sess} (h1 : CGood a b) (h2 : CRelF b c) : CGood a c :=
  ⟨h1.1.trans h2.toRel, ⟨by rw [h2.cfg]; exact h1.2.lat, by rw [h2.st]; exact h1.2.st, by rw [h2.inbox]; exact h1.2.inbox⟩⟩
theorem CGood.setSt {a b : Sess} (h1 : CGood a b) (next : SState) (hn : ColdSt next) : CGood a (b.setSt next) :=
  ⟨h1.1.trans (Rel.of_eq rfl rfl rfl), ⟨h1.2.lat, hn, h1.2.inbox⟩⟩
theorem CGood.closeInbox {a b : Sess} (h1 : CGood a b) : CGood a b.closeInbox :=
  ⟨h1.1.trans (Rel.of_eq rfl rfl rfl), ⟨h1.2.lat, h1.2.st, (by intro m hm; cases hm)⟩⟩
theorem CGood.setInbox {a b : Sess} (h1 : CGood a b) (ib : List InMsg) (hib : ∀ m ∈ ib, Late m) : CGood a (b.setInbox ib) :=
  ⟨h1.1.trans (Rel.of_eq rfl rfl rfl), ⟨h1.2.lat, h1.2.st, hib⟩⟩

theorem cold_mutual : ∀ fuel : Nat,
    (∀ s next, Cold s → ColdSt next → CGood s (setState fuel s next)) ∧
    (∀ s, Cold s → CGood s (drainIn fuel s)) ∧
    (∀ s m, Cold s → (∀ x, m = some x → Late x) → CGood s (incoming fuel s m)) ∧
    (∀ s a b, Cold s → CGood s (checkSessionTime fuel s a b)) := by
  intro fuel
  induction fuel with
  | zero =>
    refine ⟨?_, ?_, ?_, ?_⟩
    · intro s next h hn; unfold setState; exact (CGood.refl h).setSt next hn
    · intro s h; unfold drainIn; exact CGood.refl h
    · intro s m h _; unfold incoming; exact CGood.refl h
    · intro s a b h; unfold checkSessionTime; exact CGood.refl h
  | succ n ih =>
    obtain ⟨ihS, ihD, ihI, ihC⟩ := ih
    refine ⟨?_, ?_, ?_, ?_⟩
    · intro s next h hn
      unfold setState
      simp only []
      split
      · generalize hx : (if s.st.connected = true then (drainIn n (discMid (drainIn n s))).closeInbox else s) = x
        have hxG : CGood s x := by
          rw [← hx]; split
          · have g1 := ihD s h
            have g2 := g1.relF (relF_discMid _ (Or.inl cold_resetOK))
            have g3 := g2.trans (ihD _ g2.2)
            exact g3.closeInbox
          · exact CGood.refl h
        have hx2 : CGood s (if x.pendingStop = true then x.setStopped else x) := by
          split
          · exact hxG.relF (RelF.of_eq rfl rfl rfl rfl rfl)
          · exact hxG
        exact hx2.setSt next hn
      · exact (CGood.refl h).setSt next hn
    · intro s h
      unfold drainIn
      split
      · exact CGood.refl h
      · split
        · exact CGood.refl h
        · rename_i m rest heq
          have hm : Late m := h.inbox m (by rw [heq]; exact List.mem_cons_self)
          have hrest : ∀ x ∈ rest, Late x := fun x hx => h.inbox x (by rw [heq]; exact List.mem_cons_of_mem _ hx)
          have g1 : CGood s (s.setInbox rest) := (CGood.refl h).setInbox rest hrest
          have g2 := g1.trans (ihI _ (some m) g1.2 (by intro x hx; cases hx; exact hm))
          exact g2.trans (ihD _ g2.2)
    · intro s m h hm
      unfold incoming
      simp only []
      have g1 := ihC s true true h
      generalize checkSessionTime n s true true = s1 at g1
      split
      · exact g1
      · cases m with
        | none => exact g1.relF (by rel_peel)
        | some m =>
          simp only []
          have hf := cold_fixMsgInCore (m := m) g1.2 (hm m rfl)
          generalize fixMsgInCore s1 m = r at hf
          obtain ⟨s2, nx⟩ := r
          obtain ⟨hfr, hfs⟩ := hf
          have g2 := g1.relF hfr
          have g3 := g2.trans (ihS s2 nx g2.2 hfs)
          exact g3.relF (by rel_peel)
    · intro s a b h
      unfold checkSessionTime
      simp only []
      split
      · have g1 : CGood s (if s.st.loggedOn = true then sendLogout s else s) := (CGood.refl h).relF (by rel_peel)
        exact g1.trans (ihS _ _ g1.2 (Or.inr (Or.inl rfl)))
      · generalize hx : (if (!s.st.sessionTime) = true then setState n s SState.latent else s) = x
        have hxG : CGood s x := by
          rw [← hx]; split
          · exact ihS _ _ h (Or.inl rfl)
          · exact CGood.refl h
        split
        · have hro := cold_resetOK
          have g2 : CGood s (dropAndReset (if x.st.loggedOn = true then sendLogout x else x)) := hxG.relF (by rel_peel)
          exact g2.trans (ihS _ _ g2.2 (Or.inl rfl))
        · exact hxG

theorem cold_timeoutCore {s : Sess} (e : TimerEv) (hc : Cold s) : (timeoutCore s e).1 = s ∧ ColdSt (timeoutCore s e).2 := by
  unfold timeoutCore
  rcases hc.st with h | h | h
  · rw [h]; exact ⟨rfl, Or.inl rfl⟩
  · rw [h]; exact ⟨rfl, Or.inr (Or.inl rfl)⟩
  · rw [h]
    refine ⟨rfl, ?_⟩
    dsimp only
    split
    · exact Or.inl rfl
    · exact Or.inr (Or.inr rfl)

theorem cold_stopNext {s : Sess} (hc : Cold s) : (stopNext s).1 = s ∧ ColdSt (stopNext s).2 := by
  unfold stopNext
  rcases hc.st with h | h | h
  · rw [h]; exact ⟨rfl, Or.inl rfl⟩
  · rw [h]; exact ⟨rfl, Or.inr (Or.inl rfl)⟩
  · rw [h]; exact ⟨rfl, Or.inl rfl⟩

theorem cold_connect {s : Sess} (hc : Cold s) : CGood s (connect s).1 := by
  have hg := good_connect (N := coldObs) (S := fun _ _ => True) (P := fun _ => True) s (Or.inl cold_resetOK)
    ⟨fun _ _ => trivial, fun _ _ => trivial⟩
  refine ⟨hg.1, ⟨by rw [hg.1.cfg]; exact hc.lat, ?_, ?_⟩⟩
  · unfold connect
    split
    · exact hc.st
    · split
      · dsimp only
        have : ∀ x : Sess, x.st = s.st → ColdSt x.st := fun x hx => by rw [hx]; exact hc.st
        split
        · exact this _ (relF_dropAndReset (N := coldObs) (S := fun _ _ => True) s cold_resetOK).st
        · exact hc.st
      · dsimp only
        split
        · exact Or.inr (Or.inr rfl)
        · exact Or.inr (Or.inr rfl)
  · unfold connect
    split
    · exact hc.inbox
    · split
      · dsimp only
        split
        · rw [(relF_dropAndReset (N := coldObs) (S := fun _ _ => True) s cold_resetOK).inbox]; exact hc.inbox
        · exact hc.inbox
      · dsimp only
        have hin : ∀ x : Sess, x.inbox = s.openConn.inbox → ∀ m ∈ x.inbox, Late m := by
          intro x hx m hm; rw [hx] at hm; cases hm
        split
        · exact hin _ rfl
        · refine hin _ ?_
          show (sendLogonInReplyTo _ _).inbox = _
          generalize hs1 : (if s.openConn.cfg.refreshOnLogon = true then s.openConn.emit Obs.refresh else s.openConn) = s1
          have h1 : s1.inbox = s.openConn.inbox := by rw [← hs1]; split <;> rfl
          generalize hs2 : (if s1.cfg.resetOnLogon = true then dropAndReset s1 else s1) = s2
          have h2 : s2.inbox = s.openConn.inbox := by rw [← hs2]; split <;> exact h1
          rw [(relF_sendLogonInReplyTo (N := coldObs) (S := fun _ _ => True) s2 _ (Or.inl cold_resetOK)).inbox]
          exact h2

/-- an event whose inbound message (if any) is late -/
def LateEv : Ev → Prop
  | .incomingMsg (some m) => Late m
  | .arrive m => Late m
  | _ => True

theorem cold_stepCore (s : Sess) (e : Ev) (h : Cold s) (he : LateEv e) : CGood s (stepCore s e).1 := by
  obtain ⟨hS, hD, hI, hC⟩ := cold_mutual (fuelOf s)
  unfold stepCore
  simp only []
  cases e with
  | connect => exact cold_connect h
  | incomingMsg m => exact hI s m h (by intro x hx; subst hx; exact he)
  | arrive m =>
    dsimp only; split
    · exact (CGood.refl h).setInbox _ (by
        intro x hx
        rcases List.mem_append.1 hx with hx | hx
        · exact h.inbox x hx
        · simp at hx; subst hx; exact he)
    · exact CGood.refl h
  | pop =>
    dsimp only
    split
    · exact CGood.refl h
    · split
      · exact CGood.refl h
      · rename_i m rest heq
        have hm : Late m := h.inbox m (by rw [heq]; exact List.mem_cons_self)
        have hrest : ∀ x ∈ rest, Late x := fun x hx => h.inbox x (by rw [heq]; exact List.mem_cons_of_mem _ hx)
        have g1 : CGood s (s.setInbox rest) := (CGood.refl h).setInbox rest hrest
        exact g1.trans (hI _ (some m) g1.2 (by intro x hx; cases hx; exact hm))
  | timeout ev =>
    dsimp only
    have g1 := hC s true true h
    have h2 := cold_timeoutCore ev g1.2
    generalize timeoutCore (checkSessionTime (fuelOf s) s true true) ev = r at h2
    obtain ⟨s2, nx⟩ := r
    simp only [] at h2
    rw [h2.1]
    exact g1.trans (hS _ nx g1.2 h2.2)
  | disconnected =>
    dsimp only; split
    · exact hS _ _ h (Or.inl rfl)
    · exact CGood.refl h
  | stop =>
    dsimp only
    have g1 : CGood s s.setPendingStop := (CGood.refl h).relF (RelF.of_eq rfl rfl rfl rfl rfl)
    have h2 := cold_stopNext g1.2
    generalize stopNext s.setPendingStop = r at h2
    obtain ⟨s2, nx⟩ := r
    simp only [] at h2
    rw [h2.1]
    exact g1.trans (hS _ nx g1.2 h2.2)
  | send m =>
    dsimp only
    have h1 := relF_prep (N := coldObs) (S := fun _ _ => True) s m (Or.inl cold_resetOK)
    generalize prep s m = r at h1
    obtain ⟨o, s2⟩ := r
    cases o with
    | none => exact (CGood.refl h).relF h1
    | some m' => exact ((CGood.refl h).relF h1).relF (RelF.of_eq rfl rfl rfl rfl rfl)
  | flush =>
    dsimp only
    have g1 := hC s true true h
    split
    · exact g1.relF (relF_sendQueued _)
    · exact g1.relF (RelF.of_eq rfl rfl rfl rfl rfl)
  | sessionTime r sm => exact hC s r sm h
  | resetTime now =>
    exact (CGood.refl h).relF (relF_checkResetTime (N := coldObs) (S := fun _ _ => True) s now (Or.inl cold_resetOK))

theorem cold_step (s : Sess) (e : Ev) (h : Cold s) (he : LateEv e) : (∀ o ∈ (step s e).2.1, coldObs o) ∧ Cold (step s e).1 := by
  have g := cold_stepCore s.clearLog e ⟨h.lat, h.st, h.inbox⟩ he
  unfold step
  simp only []
  generalize stepCore s.clearLog e = r at g
  obtain ⟨s', status⟩ := r
  obtain ⟨⟨_, ⟨extra, hl, hn⟩, _⟩, hcold⟩ := g
  simp only [] at hl hcold ⊢
  refine ⟨?_, ⟨hcold.lat, hcold.st, hcold.inbox⟩⟩
  intro o ho
  rw [hl] at ho
  simp [Sess.clearLog] at ho
  exact hn o ho

theorem cold_run (s : Sess) (evs : List Ev) (h : Cold s) (he : ∀ e ∈ evs, LateEv e) :
    (∀ o ∈ _root_.traceOf s evs, coldObs o) ∧ Cold (_root_.runEvents s evs) := by
  induction evs generalizing s with
  | nil => exact ⟨(by intro o ho; cases ho), h⟩
  | cons e es ih =>
    obtain ⟨h1, h2⟩ := cold_step s e h (he e List.mem_cons_self)
    obtain ⟨i1, i2⟩ := ih (step s e).1 h2 (fun e' he' => he e' (List.mem_cons_of_mem _ he'))
    simp only [_root_.traceOf, _root_.runEvents]
    refine ⟨?_, i2⟩
    intro o ho
    rcases List.mem_append.1 ho with ho | ho
    · exact h1 o ho
    · exact i1 o ho

theorem cold_init (cfg : Cfg) (s0 t0 : Int) (h : cfg.skipLatency = false) : Cold (initSess cfg s0 t0) :=
  ⟨h, Or.inl rfl, (by intro m hm; cases hm)⟩

theorem lateEv_of_mem (evs : List Ev) (h : ∀ m ∈ msgsOf evs, Late m) : ∀ e ∈ evs, LateEv e := by
  intro e he
  cases e with
  | incomingMsg o =>
    cases o with
    | none => trivial
    | some m => exact h m (mem_msgsOf_incoming evs m he)
  | arrive m => exact h m (mem_msgsOf_arrive evs m he)
  | _ => trivial

end Qfx.Sess
