/- C13: `RepeatingGroup.Read` inverts the serialisation of a repeating group (flat templates) -/
import Qfx.Lemmas.Codec
import Qfx.Lemmas.Values
namespace Qfx

/-- a flat template: elements only -/
def flatTmpl (ts : List Tag) : List Item := ts.map Item.elem

theorem findItem_flat (ts : List Tag) (t : Tag) : findItem (flatTmpl ts) t = if t ∈ ts then some (.elem t) else none := by
  induction ts with
  | nil => simp [flatTmpl, findItem]
  | cons x r ih =>
    simp only [flatTmpl, List.map_cons, findItem, Item.tag] at ih ⊢
    by_cases h : x = t
    · subst h; simp
    · have h' : ¬ t = x := fun e => h e.symm
      simp only [h, if_false, List.mem_cons, h', false_or]
      exact ih

def serEntry (e : List (Tag × Bytes)) : List TagValue := e.map (fun p => TagValue.init p.1 p.2)

/-- the entry `Read` builds from the remaining fields `r` of an entry, `after` being everything behind the entry -/
def putAll : GEntry → List (Tag × Bytes) → List TagValue → GEntry
  | g, [], _ => g
  | g, (t, v) :: r, after => putAll (g.put t (TagValue.init t v :: (serEntry r ++ after))) r after

/-- what `Read` returns for the entries `es` followed by `after` -/
def readSpec (after : List TagValue) : List (List (Tag × Bytes)) → List GEntry
  | [] => []
  | [] :: es => GEntry.empty :: readSpec after es
  | ((t, v) :: e) :: es =>
    putAll (GEntry.empty.put t (TagValue.init t v :: (serEntry e ++ ((es.flatMap serEntry) ++ after)))) e ((es.flatMap serEntry) ++ after)
      :: readSpec after es

theorem readSpec_length (after : List TagValue) (es : List (List (Tag × Bytes))) : (readSpec after es).length = es.length := by
  induction es with
  | nil => rfl
  | cons e r ih =>
    cases e with
    | nil => simp [readSpec, ih]
    | cons p e => obtain ⟨t, v⟩ := p; simp [readSpec, ih]

/-- a well-formed entry: starts with the delimiter, which does not occur again, template tags only -/
def EntryOK (d : Tag) (ts : List Tag) (e : List (Tag × Bytes)) : Prop :=
  ∃ v e', e = (d, v) :: e' ∧ ∀ p ∈ e', p.1 ≠ d ∧ p.1 ∈ ts

def stepsOf (es : List (List (Tag × Bytes))) : Nat := (es.map List.length).sum

/-- the follower: nothing, or a field whose tag is not in the template -/
def FollowerOK (ts : List Tag) (rest : List TagValue) : Prop := ∀ f r, rest = f :: r → f.tag ∉ ts

theorem init_tag (t : Tag) (v : Bytes) : (TagValue.init t v).tag = t := rfl

theorem step_member (fuel : Nat) (d : Item) (tmpl : List Item) (f : TagValue) (rest : List TagValue)
    (done : List GEntry) (g : GEntry) (t : Tag) (hf : findItem (d :: tmpl) f.tag = some (.elem t)) (hd : f.tag ≠ d.tag) :
    readLoop (fuel + 1) (d :: tmpl) (f :: rest) done (some g) =
      readLoop fuel (d :: tmpl) rest done (some (g.put f.tag (f :: rest))) := by
  simp [readLoop, hf, hd]

theorem step_delim (fuel : Nat) (d : Tag) (tmpl : List Item) (f : TagValue) (rest : List TagValue)
    (done : List GEntry) (cur : Option GEntry) (hd : f.tag = d) :
    readLoop (fuel + 1) (.elem d :: tmpl) (f :: rest) done cur =
      readLoop fuel (.elem d :: tmpl) rest (finishGroups done cur) (some (GEntry.empty.put f.tag (f :: rest))) := by
  simp [readLoop, findItem, Item.tag, hd]

theorem step_stop (fuel : Nat) (tmpl : List Item) (f : TagValue) (rest : List TagValue)
    (done : List GEntry) (cur : Option GEntry) (hf : findItem tmpl f.tag = none) :
    readLoop (fuel + 1) tmpl (f :: rest) done cur = .ok (f :: rest, finishGroups done cur) := by
  simp [readLoop, hf]

theorem step_nil (fuel : Nat) (tmpl : List Item) (done : List GEntry) (cur : Option GEntry) :
    readLoop (fuel + 1) tmpl [] done cur = .ok ([], finishGroups done cur) := by
  simp [readLoop]

theorem flatTmpl_cons (d : Tag) (ts : List Tag) : flatTmpl (d :: ts) = .elem d :: flatTmpl ts := rfl

theorem serEntry_cons (t : Tag) (v : Bytes) (r : List (Tag × Bytes)) : serEntry ((t, v) :: r) = TagValue.init t v :: serEntry r := rfl

theorem readLoop_entries (d : Tag) (ts : List Tag) (rest : List TagValue) (hrest : FollowerOK (d :: ts) rest) :
    ∀ (es : List (List (Tag × Bytes))), (∀ e ∈ es, EntryOK d (d :: ts) e) →
    ∀ (r : List (Tag × Bytes)), (∀ p ∈ r, p.1 ≠ d ∧ p.1 ∈ d :: ts) →
    ∀ (g : GEntry) (done : List GEntry) (fuel : Nat), fuel ≥ r.length + stepsOf es + 1 →
      readLoop fuel (flatTmpl (d :: ts)) (serEntry r ++ (es.flatMap serEntry ++ rest)) done (some g) =
        .ok (rest, done ++ [putAll g r (es.flatMap serEntry ++ rest)] ++ readSpec rest es) := by
  have member : ∀ (r : List (Tag × Bytes)) (t : Tag) (v : Bytes) (tail : List TagValue) (g : GEntry) (done : List GEntry) (fuel : Nat),
      t ≠ d → t ∈ d :: ts →
      readLoop (fuel + 1) (flatTmpl (d :: ts)) (serEntry ((t, v) :: r) ++ tail) done (some g) =
        readLoop fuel (flatTmpl (d :: ts)) (serEntry r ++ tail) done (some (g.put t (TagValue.init t v :: (serEntry r ++ tail)))) := by
    intro r t v tail g done fuel hne hmem
    rw [serEntry_cons, List.cons_append, flatTmpl_cons]
    have hf : findItem (.elem d :: flatTmpl ts) (TagValue.init t v).tag = some (.elem t) := by
      rw [← flatTmpl_cons, findItem_flat, init_tag]; simp [hmem]
    rw [step_member fuel (.elem d) (flatTmpl ts) _ _ done g t hf (by simpa [Item.tag, init_tag] using hne)]
    rfl
  intro es
  induction es with
  | nil =>
    intro _ r
    induction r with
    | nil =>
      intro _ g done fuel hf
      cases fuel with
      | zero => simp [stepsOf] at hf
      | succ fuel =>
        simp only [serEntry, List.map_nil, List.flatMap_nil, List.nil_append, putAll, readSpec, List.append_nil]
        cases rest with
        | nil => rw [step_nil]; rfl
        | cons f rr =>
          have hnot := hrest f rr rfl
          rw [step_stop _ _ _ _ _ _ (by rw [findItem_flat]; simp [hnot])]; rfl
    | cons p r ih =>
      intro hr g done fuel hf
      obtain ⟨t, v⟩ := p
      have ht := hr (t, v) (by simp)
      cases fuel with
      | zero => simp at hf
      | succ fuel =>
        rw [member r t v _ g done fuel ht.1 ht.2,
          ih (fun q hq => hr q (by simp [hq])) _ done fuel (by simp [stepsOf] at hf ⊢; omega)]
        rfl
  | cons e es ih =>
    intro hes r
    have he := hes e (by simp)
    obtain ⟨v0, e', hee, he'⟩ := he
    subst hee
    induction r with
    | nil =>
      intro _ g done fuel hf
      cases fuel with
      | zero => simp at hf
      | succ fuel =>
        have e1 : serEntry [] ++ ((((d, v0) :: e') :: es).flatMap serEntry ++ rest) =
            TagValue.init d v0 :: (serEntry e' ++ (es.flatMap serEntry ++ rest)) := by
          simp [serEntry, List.flatMap_cons, List.append_assoc]
        rw [e1, flatTmpl_cons, step_delim fuel d (flatTmpl ts) _ _ done (some g) (init_tag d v0), ← flatTmpl_cons, init_tag,
          ih (fun x hx => hes x (by simp [hx])) e' he' _ _ fuel (by simp [stepsOf] at hf ⊢; omega)]
        simp [putAll, readSpec, finishGroups, List.append_assoc]
    | cons p r ihr =>
      intro hr g done fuel hf
      obtain ⟨t, v⟩ := p
      have ht := hr (t, v) (by simp)
      cases fuel with
      | zero => simp at hf
      | succ fuel =>
        rw [member r t v _ g done fuel ht.1 ht.2,
          ihr (fun q hq => hr q (by simp [hq])) _ done fuel (by simp [stepsOf] at hf ⊢; omega)]
        rfl


theorem atoi_fmtNat (n : Nat) (h : n < 9223372036854775808) : atoi (fmtNat n) = .ok (n : Int) := by
  have hne := fmtNat_ne_nil n
  have hd := fmtNat_all_digits n
  cases hf : fmtNat n with
  | nil => exact absurd hf hne
  | cons c cs =>
    have hc : c ≠ cMinus := by
      have : isDigit c = true := by
        have := hd; rw [hf] at this; simp only [List.all_cons, Bool.and_eq_true] at this; exact this.1
      have := (isDigit_iff c).1 this
      unfold cMinus; omega
    simp only [atoi, hc, if_false]
    rw [← hf, parseUInt_digits _ hne hd, digitsVal_fmtNat]
    have hw : wrap64 ((n : Nat) : Int) = (n : Int) := wrap64_of_in _ ⟨by omega, by omega⟩
    rw [hw]

theorem readGroup_flat (gtag d : Tag) (ts : List Tag) (rest : List TagValue) (hrest : FollowerOK (d :: ts) rest)
    (es : List (List (Tag × Bytes))) (hes : ∀ e ∈ es, EntryOK d (d :: ts) e) (hn : es.length < 9223372036854775808)
    (fuel : Nat) (hf : fuel ≥ stepsOf es + 3) :
    readGroup fuel (flatTmpl (d :: ts)) (countTV gtag es.length :: (es.flatMap serEntry ++ rest)) = .ok (rest, readSpec rest es) := by
  cases fuel with
  | zero => omega
  | succ fuel =>
    have hval : (countTV gtag es.length).value = fmtNat es.length := rfl
    simp only [readGroup, hval, atoi_fmtNat _ hn]
    cases es with
    | nil => simp [readSpec]
    | cons e es =>
      have hne : ¬ (((e :: es).length : Nat) : Int) = 0 := by simp; omega
      simp only [hne, if_false]
      obtain ⟨v0, e', hee, he'⟩ := hes e (by simp)
      subst hee
      cases fuel with
      | zero => simp [stepsOf] at hf
      | succ fuel =>
        have e1 : (((d, v0) :: e') :: es).flatMap serEntry ++ rest =
            TagValue.init d v0 :: (serEntry e' ++ (es.flatMap serEntry ++ rest)) := by
          simp [serEntry, List.flatMap_cons, List.append_assoc]
        rw [e1, flatTmpl_cons, step_delim fuel d (flatTmpl ts) _ _ [] none (init_tag d v0), ← flatTmpl_cons, init_tag,
          readLoop_entries d ts rest hrest es (fun x hx => hes x (by simp [hx])) e' he' _ _ fuel
            (by simp [stepsOf] at hf ⊢; omega)]
        have hl := readSpec_length rest (((d, v0) :: e') :: es)
        simp only [finishGroups, List.nil_append, readSpec] at hl ⊢
        simp only [List.length_cons] at hl
        simp [hl]

theorem putAll_tags (g : GEntry) (r : List (Tag × Bytes)) (after : List TagValue) :
    (putAll g r after).tags = g.tags ++ r.map (·.1) := by
  induction r generalizing g with
  | nil => simp [putAll]
  | cons p r ih => obtain ⟨t, v⟩ := p; simp [putAll, ih, GEntry.put, List.append_assoc]

theorem putAll_find_absent (g : GEntry) (r : List (Tag × Bytes)) (after : List TagValue) (t : Tag) (h : ∀ p ∈ r, p.1 ≠ t) :
    alFind (putAll g r after).lookup t = alFind g.lookup t := by
  induction r generalizing g with
  | nil => rfl
  | cons p r ih =>
    obtain ⟨t', v'⟩ := p
    simp only [putAll]
    rw [ih _ (fun q hq => h q (by simp [hq]))]
    exact alFind_insert_other _ _ _ _ (Ne.symm (h (t', v') (by simp)))

theorem putAll_find (g : GEntry) (r : List (Tag × Bytes)) (after : List TagValue) (t : Tag) (v : Bytes)
    (hnd : (r.map (·.1)).Nodup) (hm : (t, v) ∈ r) :
    ∃ tail, alFind (putAll g r after).lookup t = some (TagValue.init t v :: tail) := by
  induction r generalizing g with
  | nil => simp at hm
  | cons p r ih =>
    obtain ⟨t', v'⟩ := p
    simp only [List.map_cons, List.nodup_cons] at hnd
    simp only [putAll]
    rcases List.mem_cons.1 hm with e | hm'
    · injection e with e1 e2; subst e1; subst e2
      refine ⟨serEntry r ++ after, ?_⟩
      rw [putAll_find_absent _ r after t (fun q hq e => hnd.1 (by rw [← e]; exact List.mem_map_of_mem hq))]
      exact alFind_insert_self _ _ _
    · exact ih _ hnd.2 hm'


/-- entry `i` of what `Read` returns: the tags of the i-th wire entry in wire order; every tag (distinct inside the entry)
    maps to a range that starts with that field -/
theorem readSpec_entry (d : Tag) (ts : List Tag) (rest : List TagValue) :
    ∀ (es : List (List (Tag × Bytes))), (∀ e ∈ es, EntryOK d (d :: ts) e) →
    ∀ (i : Nat) (e : List (Tag × Bytes)), es[i]? = some e →
      ∃ g : GEntry, (readSpec rest es)[i]? = some g ∧ g.tags = e.map (·.1) ∧
        ((e.map (·.1)).Nodup → ∀ t v, (t, v) ∈ e → ∃ tail, alFind g.lookup t = some (TagValue.init t v :: tail)) := by
  intro es
  induction es with
  | nil => intro _ i e hi; simp at hi
  | cons e0 es ih =>
    intro hes i e hi
    obtain ⟨v0, e', hee, _⟩ := hes e0 (by simp)
    subst hee
    cases i with
    | zero =>
      simp only [List.getElem?_cons_zero, Option.some.injEq] at hi
      subst hi
      refine ⟨putAll GEntry.empty ((d, v0) :: e') (es.flatMap serEntry ++ rest), rfl, ?_, ?_⟩
      · rw [putAll_tags]; simp [GEntry.empty]
      · intro hnd t v hm
        exact putAll_find _ _ _ t v hnd hm
    | succ i =>
      obtain ⟨g, hg, h2⟩ := ih (fun x hx => hes x (by simp [hx])) i e (by simpa using hi)
      exact ⟨g, by simpa [readSpec] using hg, h2⟩


theorem flatMap_serEntry_length (es : List (List (Tag × Bytes))) : (es.flatMap serEntry).length = stepsOf es := by
  induction es with
  | nil => rfl
  | cons e r ih => simp [stepsOf, serEntry, List.flatMap_cons] at ih ⊢; first | omega | done

end Qfx
