/- C13: `RepeatingGroup.Read` inverts the serialisation of a repeating group (flat templates) -/
import Qfx.Lemmas.CodecBuild
import Qfx.Lemmas.Values
namespace Qfx

/-- a flat template: elements only -/
def flatTmpl (ts : List Tag) : List Item := ts.map Item.elem

theorem findItem_flat (ts : List Tag) (t : Tag) : findItem (flatTmpl ts) t = if t ∈ ts then some (.elem t) else none := by
  induction ts with
  | nil => simp [flatTmpl, findItem]
  | cons x r ih =>
    simp only [flatTmpl, List.map_cons, findItem, Item.tag] at ih ⊢
    by_cases h : x = t
    · subst h; simp
    · have h' : ¬ t = x := fun e => h e.symm
      simp only [h, if_false, List.mem_cons, h', false_or]
      exact ih

def serEntry (e : List (Tag × Bytes)) : List TagValue := e.map (fun p => TagValue.init p.1 p.2)

/-- the entry `Read` builds from the remaining fields `r` of an entry, `after` being everything behind the entry -/
def putAll : GEntry → List (Tag × Bytes) → List TagValue → GEntry
  | g, [], _ => g
  | g, (t, v) :: r, after => putAll (g.put t (TagValue.init t v :: (serEntry r ++ after))) r after

/-- what `Read` returns for the entries `es` followed by `after` -/
def readSpec (after : List TagValue) : List (List (Tag × Bytes)) → List GEntry
  | [] => []
  | [] :: es => GEntry.empty :: readSpec after es
  | ((t, v) :: e) :: es =>
    putAll (GEntry.empty.put t (TagValue.init t v :: (serEntry e ++ ((es.flatMap serEntry) ++ after)))) e ((es.flatMap serEntry) ++ after)
      :: readSpec after es

theorem readSpec_length (after : List TagValue) (es : List (List (Tag × Bytes))) : (readSpec after es).length = es.length := by
  induction es with
  | nil => rfl
  | cons e r ih =>
    cases e with
    | nil => simp [readSpec, ih]
    | cons p e => obtain ⟨t, v⟩ := p; simp [readSpec, ih]

/-- a well-formed entry: starts with the delimiter, which does not occur again, template tags only -/
def EntryOK (d : Tag) (ts : List Tag) (e : List (Tag × Bytes)) : Prop :=
  ∃ v e', e = (d, v) :: e' ∧ ∀ p ∈ e', p.1 ≠ d ∧ p.1 ∈ ts

def stepsOf (es : List (List (Tag × Bytes))) : Nat := (es.map List.length).sum

/-- the follower: nothing, or a field whose tag is not in the template -/
def FollowerOK (ts : List Tag) (rest : List TagValue) : Prop := ∀ f r, rest = f :: r → f.tag ∉ ts

theorem init_tag (t : Tag) (v : Bytes) : (TagValue.init t v).tag = t := rfl

theorem step_member (fuel : Nat) (d : Item) (tmpl : List Item) (f : TagValue) (rest : List TagValue)
    (done : List GEntry) (g : GEntry) (t : Tag) (hf : findItem (d :: tmpl) f.tag = some (.elem t)) (hd : f.tag ≠ d.tag) :
    readLoop (fuel + 1) (d :: tmpl) (f :: rest) done (some g) =
      readLoop fuel (d :: tmpl) rest done (some (g.put f.tag (f :: rest))) := by
  simp [readLoop, hf, hd]

theorem step_delim (fuel : Nat) (d : Tag) (tmpl : List Item) (f : TagValue) (rest : List TagValue)
    (done : List GEntry) (cur : Option GEntry) (hd : f.tag = d) :
    readLoop (fuel + 1) (.elem d :: tmpl) (f :: rest) done cur =
      readLoop fuel (.elem d :: tmpl) rest (finishGroups done cur) (some (GEntry.empty.put f.tag (f :: rest))) := by
  simp [readLoop, findItem, Item.tag, hd]

theorem step_stop (fuel : Nat) (tmpl : List Item) (f : TagValue) (rest : List TagValue)
    (done : List GEntry) (cur : Option GEntry) (hf : findItem tmpl f.tag = none) :
    readLoop (fuel + 1) tmpl (f :: rest) done cur = .ok (f :: rest, finishGroups done cur) := by
  simp [readLoop, hf]

theorem step_nil (fuel : Nat) (tmpl : List Item) (done : List GEntry) (cur : Option GEntry) :
    readLoop (fuel + 1) tmpl [] done cur = .ok ([], finishGroups done cur) := by
  simp [readLoop]

theorem flatTmpl_cons (d : Tag) (ts : List Tag) : flatTmpl (d :: ts) = .elem d :: flatTmpl ts := rfl

theorem serEntry_cons (t : Tag) (v : Bytes) (r : List (Tag × Bytes)) : serEntry ((t, v) :: r) = TagValue.init t v :: serEntry r := rfl

theorem readLoop_entries (d : Tag) (ts : List Tag) (rest : List TagValue) (hrest : FollowerOK (d :: ts) rest) :
    ∀ (es : List (List (Tag × Bytes))), (∀ e ∈ es, EntryOK d (d :: ts) e) →
    ∀ (r : List (Tag × Bytes)), (∀ p ∈ r, p.1 ≠ d ∧ p.1 ∈ d :: ts) →
    ∀ (g : GEntry) (done : List GEntry) (fuel : Nat), fuel ≥ r.length + stepsOf es + 1 →
      readLoop fuel (flatTmpl (d :: ts)) (serEntry r ++ (es.flatMap serEntry ++ rest)) done (some g) =
        .ok (rest, done ++ [putAll g r (es.flatMap serEntry ++ rest)] ++ readSpec rest es) := by
  have member : ∀ (r : List (Tag × Bytes)) (t : Tag) (v : Bytes) (tail : List TagValue) (g : GEntry) (done : List GEntry) (fuel : Nat),
      t ≠ d → t ∈ d :: ts →
      readLoop (fuel + 1) (flatTmpl (d :: ts)) (serEntry ((t, v) :: r) ++ tail) done (some g) =
        readLoop fuel (flatTmpl (d :: ts)) (serEntry r ++ tail) done (some (g.put t (TagValue.init t v :: (serEntry r ++ tail)))) := by
    intro r t v tail g done fuel hne hmem
    rw [serEntry_cons, List.cons_append, flatTmpl_cons]
    have hf : findItem (.elem d :: flatTmpl ts) (TagValue.init t v).tag = some (.elem t) := by
      rw [← flatTmpl_cons, findItem_flat, init_tag]; simp [hmem]
    rw [step_member fuel (.elem d) (flatTmpl ts) _ _ done g t hf (by simpa [Item.tag, init_tag] using hne)]
    rfl
  intro es
  induction es with
  | nil =>
    intro _ r
    induction r with
    | nil =>
      intro _ g done fuel hf
      cases fuel with
      | zero => simp [stepsOf] at hf
      | succ fuel =>
        simp only [serEntry, List.map_nil, List.flatMap_nil, List.nil_append, putAll, readSpec, List.append_nil]
        cases rest with
        | nil => rw [step_nil]; rfl
        | cons f rr =>
          have hnot := hrest f rr rfl
          rw [step_stop _ _ _ _ _ _ (by rw [findItem_flat]; simp [hnot])]; rfl
    | cons p r ih =>
      intro hr g done fuel hf
      obtain ⟨t, v⟩ := p
      have ht := hr (t, v) (by simp)
      cases fuel with
      | zero => simp at hf
      | succ fuel =>
        rw [member r t v _ g done fuel ht.1 ht.2,
          ih (fun q hq => hr q (by simp [hq])) _ done fuel (by simp [stepsOf] at hf ⊢; omega)]
        rfl
  | cons e es ih =>
    intro hes r
    have he := hes e (by simp)
    obtain ⟨v0, e', hee, he'⟩ := he
    subst hee
    induction r with
    | nil =>
      intro _ g done fuel hf
      cases fuel with
      | zero => simp at hf
      | succ fuel =>
        have e1 : serEntry [] ++ ((((d, v0) :: e') :: es).flatMap serEntry ++ rest) =
            TagValue.init d v0 :: (serEntry e' ++ (es.flatMap serEntry ++ rest)) := by
          simp [serEntry, List.flatMap_cons, List.append_assoc]
        rw [e1, flatTmpl_cons, step_delim fuel d (flatTmpl ts) _ _ done (some g) (init_tag d v0), ← flatTmpl_cons, init_tag,
          ih (fun x hx => hes x (by simp [hx])) e' he' _ _ fuel (by simp [stepsOf] at hf ⊢; omega)]
        simp [putAll, readSpec, finishGroups, List.append_assoc]
    | cons p r ihr =>
      intro hr g done fuel hf
      obtain ⟨t, v⟩ := p
      have ht := hr (t, v) (by simp)
      cases fuel with
      | zero => simp at hf
      | succ fuel =>
        rw [member r t v _ g done fuel ht.1 ht.2,
          ihr (fun q hq => hr q (by simp [hq])) _ done fuel (by simp [stepsOf] at hf ⊢; omega)]
        rfl


theorem atoi_fmtNat (n : Nat) (h : n < 9223372036854775808) : atoi (fmtNat n) = .ok (n : Int) := by
  have hne := fmtNat_ne_nil n
  have hd := fmtNat_all_digits n
  cases hf : fmtNat n with
  | nil => exact absurd hf hne
  | cons c cs =>
    have hc : c ≠ cMinus := by
      have : isDigit c = true := by
        have := hd; rw [hf] at this; simp only [List.all_cons, Bool.and_eq_true] at this; exact this.1
      have := (isDigit_iff c).1 this
      unfold cMinus; omega
    simp only [atoi, hc, if_false]
    rw [← hf, parseUInt_digits _ hne hd, digitsVal_fmtNat]
    have hw : wrap64 ((n : Nat) : Int) = (n : Int) := wrap64_of_in _ ⟨by omega, by omega⟩
    rw [hw]

theorem readGroup_flat (gtag d : Tag) (ts : List Tag) (rest : List TagValue) (hrest : FollowerOK (d :: ts) rest)
    (es : List (List (Tag × Bytes))) (hes : ∀ e ∈ es, EntryOK d (d :: ts) e) (hn : es.length < 9223372036854775808)
    (fuel : Nat) (hf : fuel ≥ stepsOf es + 3) :
    readGroup fuel (flatTmpl (d :: ts)) (countTV gtag es.length :: (es.flatMap serEntry ++ rest)) = .ok (rest, readSpec rest es) := by
  cases fuel with
  | zero => omega
  | succ fuel =>
    have hval : (countTV gtag es.length).value = fmtNat es.length := rfl
    simp only [readGroup, hval, atoi_fmtNat _ hn]
    cases es with
    | nil => simp [readSpec]
    | cons e es =>
      have hne : ¬ (((e :: es).length : Nat) : Int) = 0 := by simp; omega
      simp only [hne, if_false]
      obtain ⟨v0, e', hee, he'⟩ := hes e (by simp)
      subst hee
      cases fuel with
      | zero => simp [stepsOf] at hf
      | succ fuel =>
        have e1 : (((d, v0) :: e') :: es).flatMap serEntry ++ rest =
            TagValue.init d v0 :: (serEntry e' ++ (es.flatMap serEntry ++ rest)) := by
          simp [serEntry, List.flatMap_cons, List.append_assoc]
        rw [e1, flatTmpl_cons, step_delim fuel d (flatTmpl ts) _ _ [] none (init_tag d v0), ← flatTmpl_cons, init_tag,
          readLoop_entries d ts rest hrest es (fun x hx => hes x (by simp [hx])) e' he' _ _ fuel
            (by simp [stepsOf] at hf ⊢; omega)]
        have hl := readSpec_length rest (((d, v0) :: e') :: es)
        simp only [finishGroups, List.nil_append, readSpec] at hl ⊢
        simp only [List.length_cons] at hl
        simp [hl]

theorem putAll_tags (g : GEntry) (r : List (Tag × Bytes)) (after : List TagValue) :
    (putAll g r after).tags = g.tags ++ r.map (·.1) := by
  induction r generalizing g with
  | nil => simp [putAll]
  | cons p r ih => obtain ⟨t, v⟩ := p; simp [putAll, ih, GEntry.put, List.append_assoc]

theorem putAll_find_absent (g : GEntry) (r : List (Tag × Bytes)) (after : List TagValue) (t : Tag) (h : ∀ p ∈ r, p.1 ≠ t) :
    alFind (putAll g r after).lookup t = alFind g.lookup t := by
  induction r generalizing g with
  | nil => rfl
  | cons p r ih =>
    obtain ⟨t', v'⟩ := p
    simp only [putAll]
    rw [ih _ (fun q hq => h q (by simp [hq]))]
    exact alFind_insert_other _ _ _ _ (Ne.symm (h (t', v') (by simp)))

theorem putAll_find (g : GEntry) (r : List (Tag × Bytes)) (after : List TagValue) (t : Tag) (v : Bytes)
    (hnd : (r.map (·.1)).Nodup) (hm : (t, v) ∈ r) :
    ∃ tail, alFind (putAll g r after).lookup t = some (TagValue.init t v :: tail) := by
  induction r generalizing g with
  | nil => simp at hm
  | cons p r ih =>
    obtain ⟨t', v'⟩ := p
    simp only [List.map_cons, List.nodup_cons] at hnd
    simp only [putAll]
    rcases List.mem_cons.1 hm with e | hm'
    · injection e with e1 e2; subst e1; subst e2
      refine ⟨serEntry r ++ after, ?_⟩
      rw [putAll_find_absent _ r after t (fun q hq e => hnd.1 (by rw [← e]; exact List.mem_map_of_mem hq))]
      exact alFind_insert_self _ _ _
    · exact ih _ hnd.2 hm'


/-- entry `i` of what `Read` returns: the tags of the i-th wire entry in wire order; every tag (distinct inside the entry)
    maps to a range that starts with that field -/
theorem readSpec_entry (d : Tag) (ts : List Tag) (rest : List TagValue) :
    ∀ (es : List (List (Tag × Bytes))), (∀ e ∈ es, EntryOK d (d :: ts) e) →
    ∀ (i : Nat) (e : List (Tag × Bytes)), es[i]? = some e →
      ∃ g : GEntry, (readSpec rest es)[i]? = some g ∧ g.tags = e.map (·.1) ∧
        ((e.map (·.1)).Nodup → ∀ t v, (t, v) ∈ e → ∃ tail, alFind g.lookup t = some (TagValue.init t v :: tail)) := by
  intro es
  induction es with
  | nil => intro _ i e hi; simp at hi
  | cons e0 es ih =>
    intro hes i e hi
    obtain ⟨v0, e', hee, _⟩ := hes e0 (by simp)
    subst hee
    cases i with
    | zero =>
      simp only [List.getElem?_cons_zero, Option.some.injEq] at hi
      subst hi
      refine ⟨putAll GEntry.empty ((d, v0) :: e') (es.flatMap serEntry ++ rest), rfl, ?_, ?_⟩
      · rw [putAll_tags]; simp [GEntry.empty]
      · intro hnd t v hm
        exact putAll_find _ _ _ t v hnd hm
    | succ i =>
      obtain ⟨g, hg, h2⟩ := ih (fun x hx => hes x (by simp [hx])) i e (by simpa using hi)
      exact ⟨g, by simpa [readSpec] using hg, h2⟩


theorem flatMap_serEntry_length (es : List (List (Tag × Bytes))) : (es.flatMap serEntry).length = stepsOf es := by
  induction es with
  | nil => rfl
  | cons e r ih => simp [stepsOf, serEntry, List.flatMap_cons] at ih ⊢; first | omega | done


/-! ## the group comparator on template tags -/

theorem idxOf_cons_ne' (x t : Tag) (r : List Tag) (h : x ≠ t) : (x :: r).idxOf t = r.idxOf t + 1 := by
  rw [List.idxOf_cons]
  have : (x == t) = false := by simpa using h
  simp [this]

theorem idxOf_inj' (l : List Tag) (a b : Tag) (ha : a ∈ l) (hb : b ∈ l) (h : l.idxOf a = l.idxOf b) : a = b := by
  have h3 : l[l.idxOf a]? = some a := by
    rw [List.getElem?_eq_getElem (List.idxOf_lt_length_of_mem ha), List.getElem_idxOf]
  have h4 : l[l.idxOf b]? = some b := by
    rw [List.getElem?_eq_getElem (List.idxOf_lt_length_of_mem hb), List.getElem_idxOf]
  rw [h, h4] at h3
  exact (Option.some.inj h3).symm

theorem groupRankAux_notMem (xs : List Tag) (i : Nat) (t : Tag) (acc : Nat) (h : t ∉ xs) : groupRankAux xs i t acc = acc := by
  induction xs generalizing i acc with
  | nil => rfl
  | cons x r ih =>
    have hx : ¬ x = t := fun e => h (by simp [e])
    simp only [groupRankAux, hx, if_false]
    exact ih _ _ (fun hm => h (by simp [hm]))

theorem groupRankAux_nodup (xs : List Tag) (i : Nat) (t : Tag) (acc : Nat) (hn : xs.Nodup) (h : t ∈ xs) :
    groupRankAux xs i t acc = i + xs.idxOf t := by
  induction xs generalizing i acc with
  | nil => simp at h
  | cons x r ih =>
    rw [List.nodup_cons] at hn
    by_cases hx : x = t
    · subst hx
      simp only [groupRankAux, if_true]
      rw [groupRankAux_notMem r _ _ _ hn.1]; simp
    · have hm : t ∈ r := by
        rcases List.mem_cons.1 h with e | e
        · exact absurd e.symm hx
        · exact e
      simp only [groupRankAux, hx, if_false]
      rw [ih _ _ hn.2 hm, idxOf_cons_ne' _ _ _ hx]; omega

theorem groupRank_mem (ts : List Tag) (t : Tag) (hn : ts.Nodup) (h : t ∈ ts) : groupRank ts t = ts.idxOf t := by
  unfold groupRank; rw [groupRankAux_nodup ts 0 t _ hn h]; simp

theorem idxOf_pairwise (l : List Tag) (hn : l.Nodup) : l.Pairwise (fun a b => l.idxOf a < l.idxOf b) := by
  induction l with
  | nil => simp
  | cons x r ih =>
    rw [List.nodup_cons] at hn
    rw [List.pairwise_cons]
    constructor
    · intro b hb
      have hxb : x ≠ b := fun e => hn.1 (e ▸ hb)
      rw [List.idxOf_cons_self, idxOf_cons_ne' _ _ _ hxb]; omega
    · refine List.Pairwise.imp_of_mem ?_ (ih hn.2)
      intro a b ha hb hab
      have hxa : x ≠ a := fun e => hn.1 (e ▸ ha)
      have hxb : x ≠ b := fun e => hn.1 (e ▸ hb)
      rw [idxOf_cons_ne' _ _ _ hxa, idxOf_cons_ne' _ _ _ hxb]; omega

/-- sorting a duplicate-free list of template tags with `groupTagOrder` yields them in template order -/
theorem sortTags_group (ts tags : List Tag) (hts : ts.Nodup) (hn : tags.Nodup) (hsub : ∀ t ∈ tags, t ∈ ts) :
    sortTags (.group ts) tags = ts.filter (fun t => tags.contains t) := by
  have hle : ∀ a b, OrdKind.le (.group ts) a b = decide (groupRank ts a ≤ groupRank ts b) := by
    intro a b
    by_cases h : groupRank ts b < groupRank ts a
    · have : ¬ groupRank ts a ≤ groupRank ts b := by omega
      simp [OrdKind.le, OrdKind.less, h, this]
    · have : groupRank ts a ≤ groupRank ts b := by omega
      simp [OrdKind.le, OrdKind.less, h, this]
  apply List.Perm.eq_of_pairwise (le := fun a b => OrdKind.le (.group ts) a b = true)
  · intro a b ha hb h1 h2
    have hma : a ∈ ts := hsub a ((sortTags_perm _ _).mem_iff.1 ha)
    have hmb : b ∈ ts := (List.mem_filter.1 hb).1
    rw [hle] at h1 h2
    simp only [decide_eq_true_eq] at h1 h2
    rw [groupRank_mem ts a hts hma, groupRank_mem ts b hts hmb] at h1 h2
    exact idxOf_inj' ts a b hma hmb (by omega)
  · exact List.pairwise_mergeSort (le := fun a b => !(OrdKind.group ts).less b a)
      (fun a b c h1 h2 => by
        have := hle a b; have := hle b c; have := hle a c
        simp only [OrdKind.le] at *
        simp_all only [decide_eq_true_eq]; omega)
      (fun a b => by
        have := hle a b; have := hle b a
        simp only [OrdKind.le] at *
        simp_all only [Bool.or_eq_true, decide_eq_true_eq]; omega) tags
  · refine List.Pairwise.sublist List.filter_sublist ?_
    refine List.Pairwise.imp_of_mem ?_ (idxOf_pairwise ts hts)
    intro a b ha hb hab
    rw [hle]; simp only [decide_eq_true_eq]
    rw [groupRank_mem ts a hts ha, groupRank_mem ts b hts hb]; omega
  · refine (sortTags_perm _ _).trans ?_
    apply (List.perm_ext_iff_of_nodup hn (hts.sublist List.filter_sublist)).2
    intro x
    simp only [List.mem_filter, List.contains_iff_mem]
    exact ⟨fun h => ⟨hsub x h, h⟩, fun h => h.2⟩


/-! ## `Write` of entries built by plain setter calls (flat template) -/

/-- the latest value a sequence of setter calls gives to `t` -/
def latest : List (Tag × Bytes) → Tag → Option Bytes
  | [], _ => none
  | (k, v) :: r, t => match latest r t with
                      | some x => some x
                      | none => if k = t then some v else none

def fldsOf (e : List (Tag × Bytes)) : List GFld := e.map (fun p => GFld.fld p.1 p.2)

def putAllF : FieldMap → List (Tag × Bytes) → FieldMap
  | fm, [] => fm
  | fm, (t, v) :: r => putAllF (fm.put t (.owned [TagValue.init t v])) r

def FieldMap.ownedNE (fm : FieldMap) : Prop := ∀ k f, alFind fm.lookup k = some f → ∃ tv l, f = .owned (tv :: l)

theorem ownedNE_put {fm : FieldMap} (h : fm.ownedNE) (t : Tag) (tv : TagValue) (l : List TagValue) : (fm.put t (.owned (tv :: l))).ownedNE := by
  intro k f hf
  by_cases e : k = t
  · subst e; rw [put_find_self] at hf; injection hf with hf; exact ⟨_, _, hf.symm⟩
  · rw [put_find_other _ _ _ _ e] at hf; exact h k f hf

theorem ownedNE_allOwned {fm : FieldMap} (h : fm.ownedNE) : fm.allOwned := by
  intro k f hf; obtain ⟨tv, l, hl⟩ := h k f hf; exact ⟨_, hl⟩

theorem setBytes_ownedNE {fm : FieldMap} (h : fm.ownedNE) (t : Tag) (v : Bytes) :
    ∃ sr, fm.setBytes t v = .ok sr ∧ sr.fm = fm.put t (.owned [TagValue.init t v]) := by
  have hex : ∃ sr, fm.setTV (TagValue.init t v) = .ok sr := by
    unfold FieldMap.setTV
    split
    · exact ⟨_, rfl⟩
    · rename_i hf; obtain ⟨tv, l, hl⟩ := h _ _ hf; cases hl
    · rename_i s n hf; obtain ⟨tv, l, hl⟩ := h _ _ hf; cases hl
    · exact ⟨_, rfl⟩
  obtain ⟨sr, hsr⟩ := hex
  exact ⟨sr, hsr, (setTV_owned_form (ownedNE_allOwned h) hsr).1⟩

theorem buildEntry_flat (e : List (Tag × Bytes)) : ∀ (fm : FieldMap), fm.ownedNE → buildEntry (fldsOf e) fm = .ok (putAllF fm e) := by
  induction e with
  | nil => intro fm _; simp [fldsOf, buildEntry, putAllF]
  | cons p r ih =>
    intro fm ho
    obtain ⟨t, v⟩ := p
    obtain ⟨sr, hs, hfm⟩ := setBytes_ownedNE ho t v
    simp only [fldsOf, List.map_cons, buildEntry, hs, hfm, putAllF]
    exact ih _ (ownedNE_put ho _ _ _)


theorem putAllF_inv (e : List (Tag × Bytes)) : ∀ (fm : FieldMap), FMInv fm → FMInv (putAllF fm e) := by
  induction e with
  | nil => intro fm h; exact h
  | cons p r ih => intro fm h; obtain ⟨t, v⟩ := p; exact ih _ (h.put' _ _)

theorem putAllF_ord (e : List (Tag × Bytes)) : ∀ (fm : FieldMap), (putAllF fm e).ord = fm.ord := by
  induction e with
  | nil => intro fm; rfl
  | cons p r ih => intro fm; obtain ⟨t, v⟩ := p; simp only [putAllF]; rw [ih]; rfl

theorem putAllF_find (e : List (Tag × Bytes)) (t : Tag) : ∀ (fm : FieldMap),
    alFind (putAllF fm e).lookup t =
      (match latest e t with
       | some v => some (.owned [TagValue.init t v])
       | none => alFind fm.lookup t) := by
  induction e with
  | nil => intro fm; rfl
  | cons p r ih =>
    intro fm
    obtain ⟨k, v⟩ := p
    simp only [putAllF, latest]
    rw [ih]
    cases hl : latest r t with
    | some x => rfl
    | none =>
      by_cases hk : k = t
      · subst hk; simp [put_find_self]
      · simp [hk, put_find_other _ _ _ _ (Ne.symm hk)]

theorem latest_mem (e : List (Tag × Bytes)) (t : Tag) (v : Bytes) (h : latest e t = some v) : (t, v) ∈ e := by
  induction e with
  | nil => simp [latest] at h
  | cons p r ih =>
    obtain ⟨k, x⟩ := p
    simp only [latest] at h
    cases hl : latest r t with
    | some y => rw [hl] at h; injection h with h; subst h; exact List.mem_cons_of_mem _ (ih hl)
    | none =>
      rw [hl] at h
      by_cases hk : k = t
      · simp only [hk, if_true] at h; injection h with h; subst h; subst hk; simp
      · simp [hk] at h

/-- the fields of an entry as `Write` emits them: template order, each tag once, latest value -/
def canon (ts : List Tag) (e : List (Tag × Bytes)) : List (Tag × Bytes) :=
  ts.filterMap (fun t => (latest e t).map (fun v => (t, v)))

theorem filterMap_filter_isSome {α β} (l : List α) (F : α → Option β) :
    (l.filter (fun a => (F a).isSome)).filterMap F = l.filterMap F := by
  induction l with
  | nil => rfl
  | cons a r ih =>
    cases h : F a with
    | none => simp [List.filter_cons, List.filterMap_cons, h, ih]
    | some b => simp [List.filter_cons, List.filterMap_cons, h, ih]

theorem collectTags_putAllF (e : List (Tag × Bytes)) (o : OrdKind) (l : List Tag) :
    collectTags (putAllF (FieldMap.empty o) e).lookup l = serEntry (l.filterMap (fun t => (latest e t).map (fun v => (t, v)))) := by
  induction l with
  | nil => rfl
  | cons t r ih =>
    simp only [collectTags, putAllF_find, List.filterMap_cons]
    cases hl : latest e t with
    | none =>
      have : alFind (FieldMap.empty o).lookup t = none := rfl
      simp only [this, List.nil_append, Option.map_none]
      exact ih
    | some v => simp [ih, Field.items, serEntry]

theorem tmplTags_flat (ts : List Tag) : tmplTags (flatTmpl ts) = ts := by
  simp [tmplTags, flatTmpl, List.map_map, Function.comp_def, Item.tag]

theorem entryTVs_flat (ts : List Tag) (hts : ts.Nodup) (e : List (Tag × Bytes)) (hsub : ∀ p ∈ e, p.1 ∈ ts) :
    entryTVs (putAllF (FieldMap.empty (.group ts)) e) = serEntry (canon ts e) := by
  have hi := putAllF_inv e _ (FMInv.empty (.group ts))
  have hmem : ∀ t, t ∈ (putAllF (FieldMap.empty (.group ts)) e).tags ↔ (latest e t).isSome = true := by
    intro t
    rw [hi.same, mem_alKeys_iff, putAllF_find]
    cases latest e t <;> simp [FieldMap.empty, alFind]
  have hsubT : ∀ t ∈ (putAllF (FieldMap.empty (.group ts)) e).tags, t ∈ ts := by
    intro t ht
    have := (hmem t).1 ht
    cases hl : latest e t with
    | none => rw [hl] at this; cases this
    | some v => exact hsub _ (latest_mem e t v hl)
  unfold entryTVs
  rw [putAllF_ord, show (FieldMap.empty (OrdKind.group ts)).ord = .group ts from rfl,
    sortTags_group ts _ hts hi.tagsNodup hsubT, collectTags_putAllF]
  unfold canon
  have hf : ts.filter (fun t => (putAllF (FieldMap.empty (.group ts)) e).tags.contains t) =
      ts.filter (fun t => ((latest e t).map (fun v => (t, v))).isSome) := by
    apply List.filter_congr
    intro t _
    have := hmem t
    cases hc : (putAllF (FieldMap.empty (.group ts)) e).tags.contains t <;> cases hs : (latest e t).isSome <;> simp_all
  rw [hf, filterMap_filter_isSome]

theorem writeEntries_flat (ts : List Tag) (hts : ts.Nodup) : ∀ (es : List (List (Tag × Bytes))), (∀ e ∈ es, ∀ p ∈ e, p.1 ∈ ts) →
    writeEntries (flatTmpl ts) (es.map fldsOf) = .ok (es.flatMap (fun e => serEntry (canon ts e))) := by
  intro es
  induction es with
  | nil => intro _; simp [writeEntries]
  | cons e r ih =>
    intro h
    have hne : (FieldMap.empty (.group ts)).ownedNE := by
      intro k f hf; simp [FieldMap.empty, alFind] at hf
    simp only [List.map_cons, writeEntries, tmplTags_flat]
    rw [buildEntry_flat e _ hne, ih (fun x hx => h x (by simp [hx]))]
    simp only [entryTVs_flat ts hts e (h e (by simp)), List.flatMap_cons]



theorem canon_mem (ts : List Tag) (e : List (Tag × Bytes)) (t : Tag) (v : Bytes) :
    (t, v) ∈ canon ts e ↔ t ∈ ts ∧ latest e t = some v := by
  unfold canon
  rw [List.mem_filterMap]
  constructor
  · rintro ⟨a, ha, hm⟩
    cases hl : latest e a with
    | none => rw [hl] at hm; cases hm
    | some x =>
      rw [hl] at hm; simp only [Option.map_some, Option.some.injEq, Prod.mk.injEq] at hm
      obtain ⟨h1, h2⟩ := hm; subst h1; subst h2; exact ⟨ha, hl⟩
  · rintro ⟨ha, hl⟩
    exact ⟨t, ha, by rw [hl]; rfl⟩

theorem canon_tags_sublist (ts : List Tag) (e : List (Tag × Bytes)) : ((canon ts e).map (·.1)).Sublist ts := by
  unfold canon
  induction ts with
  | nil => simp
  | cons t r ih =>
    rw [List.filterMap_cons]
    cases hl : latest e t with
    | none => simp only [Option.map_none]; exact ih.cons _
    | some v => simp only [Option.map_some, List.map_cons]; exact ih.cons_cons _

theorem canon_entryOK (d : Tag) (ts : List Tag) (hn : (d :: ts).Nodup) (e : List (Tag × Bytes)) (hd : (latest e d).isSome = true) :
    EntryOK d (d :: ts) (canon (d :: ts) e) := by
  cases hl : latest e d with
  | none => rw [hl] at hd; cases hd
  | some v0 =>
    refine ⟨v0, canon ts e, ?_, ?_⟩
    · unfold canon; rw [List.filterMap_cons, hl]; rfl
    · intro p hp
      obtain ⟨t, v⟩ := p
      have hm := ((canon_mem ts e t v).1 hp).1
      rw [List.nodup_cons] at hn
      exact ⟨fun e' => hn.1 (e' ▸ hm), List.mem_cons_of_mem _ hm⟩


end Qfx
