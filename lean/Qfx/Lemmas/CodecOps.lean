/-
  Totality of the API side (C10 "whatever API calls produced them", C09 codec part): setters, SetGroup/Write, Remove, Clear,
  CopyInto and build never return an error and never fault — on a fresh message and on any message the fixed parser returns.
  Invariant: every field is an owned non-empty list or a non-empty view inside `Message.fields`.
-/
import Qfx.Lemmas.CodecBuild
import Qfx.Lemmas.CodecTotal
namespace Qfx

/-- every field of the map is an owned non-empty TagValue list, or a non-empty view inside a field array of length `n`
    (`n = 0`: owned fields only — messages and group entries built through the API) -/
def FMOK (n : Nat) (fm : FieldMap) : Prop :=
  ∀ k f, alFind fm.lookup k = some f → (∃ tv rest, f = .owned (tv :: rest)) ∨ (∃ s l, f = .view s l ∧ 1 ≤ l ∧ s + l ≤ n)

theorem FMOK.empty (n : Nat) (o : OrdKind) : FMOK n (FieldMap.empty o) := by intro k f h; simp [FieldMap.empty, alFind] at h

theorem FMOK.insert {n : Nat} {fm : FieldMap} (h : FMOK n fm) (t : Tag) (g : Field) (tags : List Tag)
    (hg : (∃ tv rest, g = .owned (tv :: rest)) ∨ (∃ s l, g = .view s l ∧ 1 ≤ l ∧ s + l ≤ n)) :
    FMOK n { fm with lookup := alInsert fm.lookup t g, tags := tags } := by
  intro k f hf
  simp only at hf
  by_cases e : k = t
  · subst e; rw [alFind_insert_self] at hf; injection hf with hf; subst hf; exact hg
  · rw [alFind_insert_other _ _ _ _ e] at hf; exact h k f hf

theorem FMOK.setTV {n : Nat} {fm : FieldMap} (h : FMOK n fm) (tv : TagValue) : ∃ r, fm.setTV tv = .ok r ∧ FMOK n r.fm := by
  unfold FieldMap.setTV
  cases hf : alFind fm.lookup tv.tag with
  | none => exact ⟨_, rfl, h.insert _ _ _ (Or.inl ⟨_, _, rfl⟩)⟩
  | some f =>
    rcases h _ _ hf with ⟨x, rest, e⟩ | ⟨s, l, e, h1, h2⟩
    · subst e; exact ⟨_, rfl, h.insert _ _ _ (Or.inl ⟨_, _, rfl⟩)⟩
    · subst e; exact ⟨_, rfl, h.insert _ _ _ (Or.inr ⟨s, 1, rfl, by omega, by omega⟩)⟩

theorem FMOK.setGroup {n : Nat} {fm : FieldMap} (h : FMOK n fm) (t : Tag) (tv : TagValue) (rest : List TagValue) :
    FMOK n (fm.setGroup t (tv :: rest)) :=
  h.insert _ _ _ (Or.inl ⟨_, _, rfl⟩)

theorem FMOK.remove {n : Nat} {fm : FieldMap} (h : FMOK n fm) (t : Tag) : FMOK n (fm.remove t) := by
  intro k f hf
  simp only [FieldMap.remove] at hf
  by_cases e : k = t
  · subst e; rw [alFind_erase_self] at hf; cases hf
  · rw [alFind_erase_other _ _ _ e] at hf; exact h k f hf

theorem FMOK.clear (n : Nat) (fm : FieldMap) : FMOK n fm.clear := by intro k f h; simp [FieldMap.clear, alFind] at h

theorem alFind_map_owned (arr : List TagValue) (l : List (Tag × Field)) (k : Tag) :
    alFind (l.map (fun p => (p.1, Field.owned (p.2.items arr)))) k = (alFind l k).map (fun f => Field.owned (f.items arr)) := by
  induction l with
  | nil => rfl
  | cons p r ih =>
    obtain ⟨a, b⟩ := p
    simp only [List.map_cons, alFind]
    by_cases e : a = k
    · simp [e]
    · simp [e, ih]

theorem FMOK.copy {fm : FieldMap} {arr : List TagValue} (h : FMOK arr.length fm) (n : Nat) : FMOK n (fm.copy arr) := by
  intro k f hf
  simp only [FieldMap.copy, alFind_map_owned] at hf
  cases hk : alFind fm.lookup k with
  | none => rw [hk] at hf; cases hf
  | some g =>
    rw [hk] at hf
    simp only [Option.map_some, Option.some.injEq] at hf
    subst hf
    rcases h k g hk with ⟨tv, rest, e⟩ | ⟨s, l, e, h1, h2⟩
    · subst e; exact Or.inl ⟨tv, rest, rfl⟩
    · subst e
      left
      simp only [Field.items]
      cases hd : (arr.drop s).take l with
      | cons x r => exact ⟨x, r, rfl⟩
      | nil =>
        have := congrArg List.length hd
        simp at this; omega

theorem FMOK.write {n : Nat} {fm : FieldMap} (h : FMOK n fm) (arr : List TagValue) : FMOK n (fm.write arr).2 := by
  intro k f hf; exact h k f hf

/-- `RepeatingGroup.Write` and the setter calls inside it always succeed -/
theorem write_total :
    (∀ (e : List GFld) (fm : FieldMap), FMOK 0 fm → ∃ fm', buildEntry e fm = .ok fm' ∧ FMOK 0 fm') ∧
    (∀ (tmpl : List Item) (es : List (List GFld)), ∃ tvs, writeEntries tmpl es = .ok tvs) := by
  apply buildEntry.mutual_induct
    (motive1 := fun e fm => FMOK 0 fm → ∃ fm', buildEntry e fm = .ok fm' ∧ FMOK 0 fm')
    (motive2 := fun tmpl es => ∃ tvs, writeEntries tmpl es = .ok tvs)
  · intro fm h; exact ⟨fm, by simp [buildEntry], h⟩
  · intro t v r fm s hs ih h
    obtain ⟨r', hr', hne⟩ := h.setTV (TagValue.init t v)
    have : s = r' := by
      have : fm.setBytes t v = .ok r' := hr'
      rw [hs] at this; injection this
    subst this
    obtain ⟨fm', h1, h2⟩ := ih hne
    exact ⟨fm', by simp only [buildEntry, hs, h1], h2⟩
  · intro t v r fm e hs h
    obtain ⟨r', hr', _⟩ := h.setTV (TagValue.init t v)
    have : fm.setBytes t v = .ok r' := hr'
    rw [hs] at this; cases this
  · intro t v r fm w hs h
    obtain ⟨r', hr', _⟩ := h.setTV (TagValue.init t v)
    have : fm.setBytes t v = .ok r' := hr'
    rw [hs] at this; cases this
  · intro t tm es r fm tvs hw _ ih h
    obtain ⟨fm', h1, h2⟩ := ih (h.setGroup t _ _)
    exact ⟨fm', by simp only [buildEntry, hw, h1], h2⟩
  · intro t tm es r fm e hw ih _
    obtain ⟨tvs, h⟩ := ih; rw [hw] at h; cases h
  · intro t tm es r fm w hw ih _
    obtain ⟨tvs, h⟩ := ih; rw [hw] at h; cases h
  · intro tmpl; exact ⟨[], by simp [writeEntries]⟩
  · intro tmpl e es fm hb tvs hw _ _
    exact ⟨entryTVs fm ++ tvs, by simp only [writeEntries, hb, hw]⟩
  · intro tmpl e es fm hb e1 hw _ ih
    obtain ⟨tvs, h⟩ := ih; rw [hw] at h; cases h
  · intro tmpl e es fm hb w hw _ ih
    obtain ⟨tvs, h⟩ := ih; rw [hw] at h; cases h
  · intro tmpl e es e1 hb ih
    obtain ⟨fm', h, _⟩ := ih (FMOK.empty _ _); rw [hb] at h; cases h
  · intro tmpl e es w hb ih
    obtain ⟨fm', h, _⟩ := ih (FMOK.empty _ _); rw [hb] at h; cases h

theorem writeGroup_total (t : Tag) (tmpl : List Item) (es : List (List GFld)) :
    ∃ tvs, writeGroup t tmpl es = .ok (countTV t es.length :: tvs) := by
  obtain ⟨tvs, h⟩ := write_total.2 tmpl es
  exact ⟨tvs, by simp [writeGroup, h]⟩

/-- every section of the message holds non-empty fields inside `Message.fields` -/
def MOK (m : Message) : Prop := ∀ s, FMOK m.fields.length (m.sec s)

theorem MOK.new : MOK Message.new := by intro s; cases s <;> exact FMOK.empty _ _

theorem withSec_fields (m : Message) (s : Sec) (fm : FieldMap) : (m.withSec s fm).fields = m.fields := by cases s <;> rfl

theorem MOK.withSec {m : Message} (h : MOK m) (s : Sec) (fm : FieldMap) (hf : FMOK m.fields.length fm) : MOK (m.withSec s fm) := by
  intro s'
  rw [withSec_fields]
  cases s <;> cases s' <;> first | exact hf | exact h .h | exact h .b | exact h .t

theorem MOK.setFields {m : Message} (h : MOK m) (i : Nat) (tv : TagValue) : MOK { m with fields := m.fields.set i tv } := by
  intro s
  have e : ({ m with fields := m.fields.set i tv } : Message).fields.length = m.fields.length := by simp
  rw [e]
  cases s <;> first | exact h .h | exact h .b | exact h .t

theorem MOK.setBytes {m : Message} (h : MOK m) (s : Sec) (t : Tag) (v : Bytes) :
    ∃ m', m.setBytes Fixes.cur s t v = .ok m' ∧ MOK m' := by
  obtain ⟨r, hr, hne⟩ := (h s).setTV (TagValue.init t v)
  have hr' : (m.sec s).setBytes t v = .ok r := hr
  simp only [Message.setBytes, Fixes.cur, if_true, hr']
  cases hw : r.arrWrite with
  | none => exact ⟨_, rfl, h.withSec s _ hne⟩
  | some p =>
    obtain ⟨i, tv⟩ := p
    exact ⟨_, rfl, (h.withSec s _ hne).setFields i tv⟩

theorem MOK.setGroup {m : Message} (h : MOK m) (s : Sec) (t : Tag) (tmpl : List Item) (es : List (List GFld)) :
    ∃ m', m.setGroup s t tmpl es = .ok m' ∧ MOK m' := by
  obtain ⟨tvs, hw⟩ := writeGroup_total t tmpl es
  exact ⟨m.withSec s ((m.sec s).setGroup t (countTV t es.length :: tvs)), by simp only [Message.setGroup, hw], h.withSec s _ ((h s).setGroup t _ _)⟩

theorem MOK.copy {m : Message} (h : MOK m) : ∃ m', m.copy Fixes.cur = .ok m' ∧ MOK m' := by
  simp only [Message.copy, copyFM, Fixes.cur, if_true]
  refine ⟨_, rfl, ?_⟩
  intro s; cases s
  · exact (h .h).copy _
  · exact (h .b).copy _
  · exact (h .t).copy _

theorem MOK.cook {m : Message} (h : MOK m) (bl bt : Nat) : ∃ m', m.cook Fixes.cur bl bt = .ok m' ∧ MOK m' := by
  simp only [Message.cook, Message.setInt]
  obtain ⟨m1, h1, hn1⟩ := h.setBytes .h 9 (fmtInt ((m.header.length m.fields + bl + m.trailer.length m.fields : Nat) : Int))
  rw [h1]
  exact hn1.setBytes .t 10 _

theorem MOK.build {m : Message} (h : MOK m) : ∃ bytes m', m.build Fixes.cur = .ok (bytes, m') ∧ MOK m' := by
  obtain ⟨m1, h1, hn1⟩ := h.cook (m.body.length m.fields) (m.body.total m.fields)
  refine ⟨(m1.writeAll none).1, (m1.writeAll none).2, by simp only [Message.build, h1], ?_⟩
  intro s
  cases s
  · exact (hn1 .h).write m1.fields
  · exact (hn1 .b).write m1.fields
  · exact (hn1 .t).write m1.fields

theorem MOp.apply_total {m : Message} (h : MOK m) (op : MOp) : ∃ m', op.apply m = .ok m' ∧ MOK m' := by
  cases op with
  | set s t v => exact h.setBytes s t v
  | setInt s t v => exact h.setBytes s t _
  | setBool s t v => exact h.setBytes s t _
  | setGroup s t tm es => exact h.setGroup s t tm es
  | remove s t =>
    refine ⟨_, rfl, ?_⟩
    simp only [Message.remove, Fixes.cur, if_true]
    exact h.withSec s _ ((h s).remove t)
  | clear s => exact ⟨_, rfl, h.withSec s _ (FMOK.clear _ _)⟩
  | copy => exact h.copy
  | build =>
    obtain ⟨bytes, m', hb, hn⟩ := h.build
    exact ⟨m', by simp only [MOp.apply, hb], hn⟩

/-- every sequence of API calls succeeds: no call returns an error, none faults -/
theorem runMOps_total (ops : List MOp) : ∀ m, MOK m → ∃ m', runMOps ops m = .ok m' ∧ MOK m' := by
  induction ops with
  | nil => intro m h; exact ⟨m, rfl, h⟩
  | cons op r ih =>
    intro m h
    obtain ⟨m1, h1, hn1⟩ := MOp.apply_total h op
    obtain ⟨m', h2, hn2⟩ := ih m1 hn1
    exact ⟨m', by simp only [runMOps, h1, h2], hn2⟩

/-- a message returned by the (fixed) parser qualifies -/
theorem parse_MOK (d : Dicts) (w : Bytes) (m : Message) (hm : parseMessage Fixes.cur d w = .ok m) : MOK m := by
  obtain ⟨hh, hb, ht⟩ := parseMessage_views d w m hm
  intro s
  cases s
  · intro k f hf; obtain ⟨s, n, e, h1, h2⟩ := hh k f hf; exact Or.inr ⟨s, n, e, h1, h2⟩
  · intro k f hf; obtain ⟨s, n, e, h1, h2⟩ := hb k f hf; exact Or.inr ⟨s, n, e, h1, h2⟩
  · intro k f hf; obtain ⟨s, n, e, h1, h2⟩ := ht k f hf; exact Or.inr ⟨s, n, e, h1, h2⟩

end Qfx
