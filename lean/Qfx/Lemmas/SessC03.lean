/-
  Lemmas for C03 (range logic of the reply to a ResendRequest): the model's `resendLoop` / `resendMessages` follow the
  pure plan of Spec/SessionTypedC03; the plan is a coverage chain; facts about `Store.range`, `gapFill`, `resent`.
-/
import Qfx.Spec.SessionTypedC03
import Qfx.Lemmas.SessStore
namespace Qfx.Sess
open Qfx

/-! ### the model follows the plan -/

theorem enqAll_append (s : Sess) (a b : List OutMsg) : enqAll s (a ++ b) = enqAll (enqAll s a) b := by
  simp [enqAll, List.foldl_append]

theorem enqueueAndSend_replyLast (s : Sess) (m : OutMsg) : (enqueueAndSend s m).replyLast = s.replyLast := by
  unfold enqueueAndSend sendQueued Sess.setToSend
  simp only []
  repeat' split
  all_goals rfl

theorem enqAll_replyLast (s : Sess) (l : List OutMsg) : (enqAll s l).replyLast = s.replyLast := by
  induction l generalizing s with
  | nil => rfl
  | cons m rest ih => show (enqAll (enqueueAndSend s m) rest).replyLast = _; rw [ih, enqueueAndSend_replyLast]

theorem foldl_enq_replyLast (s : Sess) (l : List OutMsg) : (List.foldl enqueueAndSend s l).replyLast = s.replyLast :=
  enqAll_replyLast s l

/-- without tag 369 the tagged plan is the plain one -/
theorem Rep.outR_none (r : Rep) : Rep.outR none r = Rep.out r := by cases r <;> rfl
theorem replyPlanR_none (p : Bool) (st : Store) (b e : Int) : replyPlanR none p st b e = replyPlan p st b e := by
  unfold replyPlanR replyPlan
  exact List.map_congr_left (fun r _ => Rep.outR_none r)
/-- the tag is all that differs -/
theorem Rep.outR_view (l : Option Int) (r : Rep) :
    (Rep.outR l r).kind = (Rep.out r).kind ∧ (Rep.outR l r).seq = (Rep.out r).seq ∧ (Rep.outR l r).f = (Rep.out r).f := by
  cases r <;> exact ⟨rfl, rfl, rfl⟩

theorem resendLoop_eq (s : Sess) (a b : Int) (l : List (Int × OutMsg)) :
    resendLoop s a b l = (enqAll s (replayPlanR s.replyLast a b l).1, (replayPlanR s.replyLast a b l).2) := by
  induction l generalizing s a b with
  | nil => simp [resendLoop, replayPlanR, replayReps, enqAll]
  | cons p rest ih =>
    obtain ⟨n, m⟩ := p
    simp only [resendLoop, replayPlanR, replayReps]
    split
    · rw [ih]; rfl
    · split
      · rw [ih]; rfl
      · rw [ih]
        simp only [replayPlanR, closeGap]
        split <;> simp [enqAll, Rep.outR, gapFillR, enqueueAndSend_replyLast]

theorem resendMessages_eq (s : Sess) (b e : Int) :
    resendMessages s b e = enqAll s (replyPlanR s.replyLast s.cfg.persist s.store b e) := by
  unfold resendMessages replyPlanR replyReps
  split
  · rfl
  · split
    · simp [enqAll, Rep.outR, gapFillR]
    · rw [resendLoop_eq]
      simp only [closeReps, replayPlanR, closeGap]
      split <;> simp_all [enqAll, Rep.outR, gapFillR, List.foldl_append, foldl_enq_replyLast]

/-- write `ms` to the connection: the queue is gone -/
def Sess.wrote (s : Sess) (ms : List OutMsg) : Sess := { s with log := (ms.map Obs.wire).reverse ++ s.log, toSend := [] }
/-- queue `ms` -/
def Sess.queued (s : Sess) (ms : List OutMsg) : Sess := { s with toSend := ms }

/-- what is in front of a replay: the queue if logged on, nothing otherwise (`enqueueAndSend` drops it) -/
def Sess.keptQueue (s : Sess) : List OutMsg := if s.st.loggedOn then s.toSend else []

/-- with a connection, `enqueueAndSend` writes the queue (dropped first unless logged on) and the message -/
theorem enqueueAndSend_out (s : Sess) (m : OutMsg) (ho : s.out = true) :
    enqueueAndSend s m = s.wrote (s.keptQueue ++ [m]) := by
  unfold enqueueAndSend sendQueued Sess.setToSend Sess.wrote Sess.keptQueue
  cases hl : s.st.loggedOn <;> simp [ho]

theorem enqueueAndSend_wrote (s : Sess) (a : List OutMsg) (m : OutMsg) (ho : s.out = true) :
    enqueueAndSend (s.wrote a) m = s.wrote (a ++ [m]) := by
  unfold enqueueAndSend sendQueued Sess.setToSend Sess.wrote
  cases hl : s.st.loggedOn <;> simp [ho]

theorem enqAll_wrote (s : Sess) (a l : List OutMsg) (ho : s.out = true) : enqAll (s.wrote a) l = s.wrote (a ++ l) := by
  induction l generalizing a with
  | nil => simp [enqAll]
  | cons m rest ih =>
    have h1 : enqAll (s.wrote a) (m :: rest) = enqAll (enqueueAndSend (s.wrote a) m) rest := rfl
    rw [h1, enqueueAndSend_wrote s a m ho, ih]
    simp

/-- with a connection the wires of a non-empty batch are: the queue (if logged on), then the batch -/
theorem enqAll_out (s : Sess) (m : OutMsg) (l : List OutMsg) (ho : s.out = true) :
    enqAll s (m :: l) = s.wrote (s.keptQueue ++ m :: l) := by
  have h1 : enqAll s (m :: l) = enqAll (enqueueAndSend s m) l := rfl
  rw [h1, enqueueAndSend_out s m ho, enqAll_wrote _ _ l ho]
  simp

theorem enqueueAndSend_noconn (s : Sess) (m : OutMsg) (ho : s.out = false) :
    enqueueAndSend s m = s.queued (s.keptQueue ++ [m]) := by
  unfold enqueueAndSend sendQueued Sess.setToSend Sess.queued Sess.keptQueue
  cases hl : s.st.loggedOn <;> simp [ho]

/-! ### the plan is a coverage chain -/

/-- ascending by number -/
def Asc (l : List (Int × OutMsg)) : Prop := l.Pairwise (fun p q => p.1 < q.1)

/-- where the coverage of a walk over `l` ends: after the last stored number visited (`next` if none) -/
def endOf (next : Int) (l : List (Int × OutMsg)) : Int :=
  match l.getLast? with
  | some p => p.1 + 1
  | none => next

theorem endOf_cons (next : Int) (p : Int × OutMsg) (l : List (Int × OutMsg)) : endOf next (p :: l) = endOf (p.1 + 1) l := by
  unfold endOf
  cases l with
  | nil => simp
  | cons q r => rw [List.getLast?_cons_cons]; simp [List.getLast?_cons]

theorem Chain.append {a b c : Int} {x y : List Rep} (h1 : Chain a x b) (h2 : Chain b y c) : Chain a (x ++ y) c := by
  induction h1 with
  | nil => exact h2
  | cons hlo hne _ ih => exact .cons hlo hne (ih h2)

theorem Chain.single (r : Rep) (h : r.lo < r.hi) : Chain r.lo [r] r.hi := .cons rfl h (.nil _)

theorem chain_closeGap (a b : Int) (hab : a ≤ b) : Chain a (closeGap a b) b := by
  unfold closeGap
  by_cases hne : a = b
  · subst hne; simp; exact .nil _
  · have : (a != b) = true := by simpa using hne
    simp only [this, if_true]
    exact Chain.single (.gap a b) (by simp only [Rep.lo, Rep.hi]; omega)

theorem chain_close (a b : Int) (hab : a ≤ b) : Chain a (closeReps ([], a, b)) b := by
  simpa [closeReps] using chain_closeGap a b hab

theorem closeGap_msgs (a b : Int) : (closeGap a b).filterMap Rep.msg? = [] := by
  unfold closeGap; split <;> simp [Rep.msg?]

theorem mem_closeGap {a b x y : Int} (h : Rep.gap x y ∈ closeGap a b) : x = a ∧ y = b ∧ a ≠ b := by
  unfold closeGap at h
  split at h
  · rename_i hne
    simp only [List.mem_singleton, Rep.gap.injEq] at h
    exact ⟨h.1, h.2, by simpa using hne⟩
  · simp at h

/-- the walk, closed by the final gap fill, covers exactly `[seqNum, end)`: `seqNum ≤ next`, every stored number of
    the walk is `≥ next`, the list is ascending -/
theorem chain_closeReps (l : List (Int × OutMsg)) : ∀ (seqNum next : Int), seqNum ≤ next → (∀ p ∈ l, next ≤ p.1) → Asc l →
    Chain seqNum (closeReps (replayReps seqNum next l)) (endOf next l) := by
  induction l with
  | nil =>
    intro a b hab _ _
    exact chain_close a b hab
  | cons p rest ih =>
    obtain ⟨n, m⟩ := p
    intro a b hab hge hasc
    have hn : b ≤ n := hge (n, m) (by simp)
    have hrest : ∀ q ∈ rest, n + 1 ≤ q.1 := by
      intro q hq
      have := (List.pairwise_cons.1 hasc).1 q hq
      simp only at this; omega
    have hasc' : Asc rest := (List.pairwise_cons.1 hasc).2
    rw [endOf_cons]
    simp only [replayReps]
    split
    · exact ih a (n + 1) (by omega) hrest hasc'
    · split
      · exact ih a (n + 1) (by omega) hrest hasc'
      · have hc := ih (n + 1) (n + 1) (Int.le_refl _) hrest hasc'
        have hm : Chain n (Rep.msg n m :: closeReps (replayReps (n + 1) (n + 1) rest)) (endOf (n + 1) rest) :=
          .cons rfl (by simp only [Rep.lo, Rep.hi]; omega) hc
        simp only [closeReps] at hm ⊢
        simpa [List.append_assoc] using (chain_closeGap a n (by omega)).append hm

/-- every element of a chain lies inside the chain's interval -/
theorem Chain.within {a c : Int} {l : List Rep} (h : Chain a l c) : a ≤ c ∧ ∀ r ∈ l, a ≤ r.lo ∧ r.lo < r.hi ∧ r.hi ≤ c := by
  induction h with
  | nil => exact ⟨Int.le_refl _, by simp⟩
  | cons hlo hne _ ih =>
    obtain ⟨h1, h2⟩ := ih
    refine ⟨by omega, ?_⟩
    intro r hr
    rcases List.mem_cons.1 hr with rfl | hr
    · omega
    · have := h2 r hr; omega

/-! ### what is replayed, what is gap-filled -/

theorem replayable_false_of_admin (p : Int × OutMsg) (h : isAdminKind p.2.kind = true) : replayable p = false := by
  simp [replayable, h]

theorem replayable_false_of_declined (p : Int × OutMsg) (h : (p.2.f.get? 9003 == some "n") = true) : replayable p = false := by
  have : p.2.f.get? 9003 = some "n" := by simpa using h
  simp [replayable, resendable, this]

theorem replayable_true (p : Int × OutMsg) (h1 : ¬ isAdminKind p.2.kind = true) (h2 : ¬ (p.2.f.get? 9003 == some "n") = true) :
    replayable p = true := by
  have h2' : ¬ p.2.f.get? 9003 = some "n" := by simpa using h2
  simp [replayable, resendable, h1, h2']

/-- the resent messages are exactly the stored application messages the application does not decline, in order -/
theorem msgs_closeReps (l : List (Int × OutMsg)) (a b : Int) :
    (closeReps (replayReps a b l)).filterMap Rep.msg? = l.filter replayable := by
  induction l generalizing a b with
  | nil => simp [replayReps, closeReps, closeGap_msgs]
  | cons p rest ih =>
    obtain ⟨n, m⟩ := p
    simp only [replayReps]
    split
    · rename_i h
      rw [ih, List.filter_cons_of_neg (by simp [replayable_false_of_admin (n, m) h])]
    · split
      · rename_i h
        rw [ih, List.filter_cons_of_neg (by simp [replayable_false_of_declined (n, m) h])]
      · rename_i h1 h2
        have hr := replayable_true (n, m) h1 h2
        rw [List.filter_cons_of_pos hr, ← ih (n + 1) (n + 1)]
        simp [closeReps, Rep.msg?, List.filterMap_append, closeGap_msgs]

/-- a gap fill of the plan never covers a stored message that is replayable -/
theorem gaps_closeReps (l : List (Int × OutMsg)) : ∀ (a b : Int), a ≤ b → (∀ p ∈ l, b ≤ p.1) → Asc l →
    ∀ x y, Rep.gap x y ∈ closeReps (replayReps a b l) → ∀ p ∈ l, x ≤ p.1 → p.1 < y → replayable p = false := by
  induction l with
  | nil => intro _ _ _ _ _ _ _ _ p hp; simp at hp
  | cons q rest ih =>
    obtain ⟨n, m⟩ := q
    intro a b hab hge hasc x y hg p hp hx hy
    have hn : b ≤ n := hge (n, m) (by simp)
    have hrest : ∀ q ∈ rest, n + 1 ≤ q.1 := by
      intro q hq
      have := (List.pairwise_cons.1 hasc).1 q hq
      simp only at this; omega
    have hasc' : Asc rest := (List.pairwise_cons.1 hasc).2
    simp only [replayReps] at hg
    split at hg
    · rename_i h
      rcases List.mem_cons.1 hp with rfl | hp
      · exact replayable_false_of_admin _ h
      · exact ih a (n + 1) (by omega) hrest hasc' x y hg p hp hx hy
    · split at hg
      · rename_i h
        rcases List.mem_cons.1 hp with rfl | hp
        · exact replayable_false_of_declined _ h
        · exact ih a (n + 1) (by omega) hrest hasc' x y hg p hp hx hy
      · have hc := chain_closeReps rest (n + 1) (n + 1) (Int.le_refl _) hrest hasc'
        have hpn : n ≤ p.1 := by
          rcases List.mem_cons.1 hp with rfl | hp
          · exact Int.le_refl _
          · have := hrest p hp; omega
        simp only [closeReps, List.append_assoc, List.cons_append, List.mem_append, List.mem_cons] at hg
        rcases hg with hg | hg | hg
        · have := mem_closeGap hg
          omega
        · cases hg
        · have hg' : Rep.gap x y ∈ closeReps (replayReps (n + 1) (n + 1) rest) := by
            simp only [closeReps, List.mem_append]; exact hg
          have hw := (hc.within).2 _ hg'
          simp only [Rep.lo] at hw
          rcases List.mem_cons.1 hp with rfl | hp
          · simp only at hx; omega
          · exact ih (n + 1) (n + 1) (Int.le_refl _) hrest hasc' x y hg' p hp hx hy

/-! ### the stored range -/

theorem range_mem (st : Store) (b e : Int) (p : Int × OutMsg) :
    p ∈ st.range b e ↔ (b ≤ p.1 ∧ p.1 ≤ e ∧ st.lookup p.1 = some p.2) := by
  unfold Store.range
  split
  · simp only [List.not_mem_nil, false_iff]; omega
  · simp only [List.mem_filterMap, List.mem_range, Option.map_eq_some_iff, Int.ofNat_eq_natCast]
    constructor
    · rintro ⟨k, hk, m, hm, rfl⟩
      refine ⟨by simp only; omega, ?_, hm⟩
      simp only; omega
    · rintro ⟨h1, h2, h3⟩
      refine ⟨(p.1 - b).toNat, by omega, p.2, ?_, ?_⟩
      · have : b + ((p.1 - b).toNat : Int) = p.1 := by omega
        rw [this]; exact h3
      · have : b + ((p.1 - b).toNat : Int) = p.1 := by omega
        rw [this]

theorem range_asc (st : Store) (b e : Int) : Asc (st.range b e) := by
  unfold Store.range Asc
  split
  · exact List.Pairwise.nil
  · refine List.Pairwise.filterMap _ ?_ List.pairwise_lt_range
    intro k k' hk p hp q hq
    simp only [Option.map_eq_some_iff, Int.ofNat_eq_natCast] at hp hq
    obtain ⟨_, _, rfl⟩ := hp
    obtain ⟨_, _, rfl⟩ := hq
    simp only; omega

/-- with every number of `[b, e]` stored, the last element of the range is numbered `e` -/
theorem endOf_range (st : Store) (b e : Int) (hbe : b ≤ e) (hall : st.HoldsAll b e) : endOf b (st.range b e) = e + 1 := by
  have hasc := range_asc st b e
  have hmem := range_mem st b e
  obtain ⟨m, hm⟩ := Option.isSome_iff_exists.1 (hall e hbe (Int.le_refl _))
  have he : (e, m) ∈ st.range b e := (hmem (e, m)).2 ⟨hbe, Int.le_refl _, hm⟩
  generalize st.range b e = l at hasc hmem he
  unfold endOf
  cases hl : l.getLast? with
  | none => rw [List.getLast?_eq_none_iff] at hl; subst hl; simp at he
  | some p =>
    simp only
    have hp : p ∈ l := List.mem_of_getLast? hl
    have h1 := ((hmem p).1 hp).2.1
    -- nothing in an ascending list is above its last element
    have h2 : ∀ q ∈ l, q.1 ≤ p.1 := by
      obtain ⟨l', rfl⟩ : ∃ l', l = l' ++ [p] := by
        have := List.getLast?_eq_some_iff.1 hl
        obtain ⟨l', h⟩ := this; exact ⟨l', h⟩
      intro q hq
      rcases List.mem_append.1 hq with hq | hq
      · have := (List.pairwise_append.1 hasc).2.2 q hq p (by simp)
        omega
      · simp only [List.mem_singleton] at hq; subst hq; exact Int.le_refl _
    have := h2 _ he
    simp only at this; omega

/-! ### `Fields.set` -/

theorem Fields.get?_map_set (f : Fields) (t : Nat) (v : String) (t' : Nat) :
    Fields.get? (f.map (fun p => if p.1 == t then (t, v) else p)) t' =
      if t' = t then (if f.has t then some v else none) else Fields.get? f t' := by
  induction f with
  | nil => simp [Fields.get?, Fields.has]
  | cons p rest ih =>
    simp only [Fields.get?, Fields.has, List.map_cons, List.find?_cons, List.any_cons] at ih ⊢
    by_cases hp : p.1 = t
    · simp only [hp, beq_self_eq_true, if_true, Bool.true_or]
      by_cases ht : t' = t
      · simp [ht]
      · have : (t == t') = false := by simp; omega
        simp only [this, ht, if_false]
        rw [ih]; simp [ht]
    · have hpt : (p.1 == t) = false := by simpa using hp
      simp only [hpt, Bool.false_or]
      by_cases hpt' : p.1 = t'
      · have hne : t' ≠ t := by omega
        simp [hpt', hne]
      · have : (p.1 == t') = false := by simpa using hpt'
        simp only [this, Bool.false_eq_true, if_false]
        exact ih

theorem Fields.get?_append_of_not_has (f : Fields) (t : Nat) (v : String) (t' : Nat) (h : f.has t = false) :
    Fields.get? (f ++ [(t, v)]) t' = if t' = t then some v else Fields.get? f t' := by
  induction f with
  | nil => by_cases ht : t' = t <;> simp [Fields.get?, ht]; omega
  | cons p rest ih =>
    simp only [Fields.has, List.any_cons, Bool.or_eq_false_iff] at h
    have hp : p.1 ≠ t := by simpa using h.1
    simp only [Fields.get?, List.cons_append, List.find?_cons] at ih ⊢
    by_cases hpt' : p.1 = t'
    · have : t' ≠ t := by omega
      simp [hpt', this]
    · have : (p.1 == t') = false := by simpa using hpt'
      simp only [this]
      exact ih h.2

theorem Fields.get?_set (f : Fields) (t : Nat) (v : String) (t' : Nat) :
    Fields.get? (Fields.set f t v) t' = if t' = t then some v else Fields.get? f t' := by
  unfold Fields.set
  split
  · rename_i h; rw [Fields.get?_map_set]; simp [h]
  · rename_i h
    exact Fields.get?_append_of_not_has f t v t' (by simpa using h)

theorem Fields.filter_map_set (f : Fields) (t : Nat) (v : String) (q : Nat → Bool) (hq : q t = false) :
    (f.map (fun p => if p.1 == t then (t, v) else p)).filter (fun p => q p.1) = f.filter (fun p => q p.1) := by
  induction f with
  | nil => rfl
  | cons p rest ih =>
    simp only [List.map_cons, List.filter_cons]
    by_cases hp : p.1 = t
    · simp only [hp, beq_self_eq_true, if_true, hq, Bool.false_eq_true, if_false]; exact ih
    · have hpt : (p.1 == t) = false := by simpa using hp
      simp only [hpt, Bool.false_eq_true, if_false, ih]

theorem Fields.filter_set (f : Fields) (t : Nat) (v : String) (q : Nat → Bool) (hq : q t = false) :
    (Fields.set f t v).filter (fun p => q p.1) = f.filter (fun p => q p.1) := by
  unfold Fields.set
  split
  · exact Fields.filter_map_set f t v q hq
  · simp [List.filter_append, hq]

/-! ### the messages of a reply -/

theorem gapFill_kind (a b : Int) : (gapFill a b).kind = "4" := rfl
theorem gapFill_seq (a b : Int) : (gapFill a b).seq = a := rfl
theorem gapFill_fields (a b : Int) :
    (gapFill a b).f.get? 36 = some (toString b) ∧ (gapFill a b).f.get? 43 = some "Y" ∧
    ((gapFill a b).f.get? 122).isSome = true ∧ (gapFill a b).f.get? 123 = some "Y" := by
  simp [gapFill, Fields.get?]

theorem resent_kind (m : OutMsg) : (resent m).kind = m.kind := rfl
theorem resent_seq (m : OutMsg) : (resent m).seq = m.seq := rfl
theorem resent_possDup (m : OutMsg) : (resent m).f.get? 43 = some "Y" := by
  simp [resent, Fields.get?_set]
theorem resent_origSendingTime (m : OutMsg) : ((resent m).f.get? 122).isSome = true := by
  simp [resent, Fields.get?_set]
/-- every other field keeps its value … -/
theorem resent_get? (m : OutMsg) (t : Nat) (h43 : t ≠ 43) (h122 : t ≠ 122) : (resent m).f.get? t = m.f.get? t := by
  simp [resent, Fields.get?_set, h43, h122]
/-- … and the fields other than 43 and 122 are the stored ones, same order, same multiplicity -/
theorem resent_body (m : OutMsg) :
    (resent m).f.filter (fun p => p.1 != 43 && p.1 != 122) = m.f.filter (fun p => p.1 != 43 && p.1 != 122) := by
  unfold resent
  simp only
  rw [Fields.filter_set _ 122 "+" (fun t => t != 43 && t != 122) (by simp),
      Fields.filter_set _ 43 "Y" (fun t => t != 43 && t != 122) (by simp)]

theorem rep_out_possDup (r : Rep) : r.out.f.get? 43 = some "Y" ∧ (r.out.f.get? 122).isSome = true := by
  cases r with
  | gap a b => exact ⟨(gapFill_fields a b).2.1, (gapFill_fields a b).2.2.1⟩
  | msg n m => exact ⟨resent_possDup m, resent_origSendingTime m⟩

/-! ### the store holds every number it has used (persistence on) -/

/-- persistence on ⇒ the store is filed by MsgSeqNum, strictly descending (latest first), all numbers in `[1, sender)`,
    and every number of `[1, sender)` is present -/
def StoredAllInv (p : Bool) (st : Store) : Prop :=
  p = true → 1 ≤ st.sender ∧ st.Filed ∧ st.msgs.Pairwise (fun a b => b.1 < a.1) ∧
    (∀ q ∈ st.msgs, 1 ≤ q.1 ∧ q.1 < st.sender) ∧ st.HoldsAll 1 (st.sender - 1)

theorem lookup_cons (st : Store) (k : Int) (m : OutMsg) (n : Int) (x y : Int) :
    Store.lookup { sender := x, target := y, msgs := (k, m) :: st.msgs, epoch := st.epoch } n =
      if k = n then some m else st.lookup n := by
  unfold Store.lookup
  simp only [List.find?_cons]
  by_cases h : k = n
  · simp [h]
  · have : (k == n) = false := by simpa using h
    simp [this, h]

theorem storedAllInv_closed : StoreClosed StoredAllInv where
  reset := by
    intro p st _ _
    refine ⟨by simp [Store.reset], ?_, ?_, ?_, ?_⟩
    · intro q hq; simp [Store.reset] at hq
    · simp [Store.reset]
    · intro q hq; simp [Store.reset] at hq
    · intro n h1 h2; simp [Store.reset] at h2; omega
  save := by
    intro st m h hm _
    obtain ⟨h1, h2, h3, h4, h5⟩ := h rfl
    refine ⟨by simp only; omega, ?_, ?_, ?_, ?_⟩
    · intro q hq
      simp only [List.mem_cons] at hq
      rcases hq with rfl | hq
      · exact hm
      · exact h2 q hq
    · simp only [List.pairwise_cons]
      exact ⟨fun q hq => (h4 q hq).2, h3⟩
    · intro q hq
      simp only [List.mem_cons] at hq
      rcases hq with rfl | hq
      · simp only; omega
      · have := h4 q hq; simp only; omega
    · intro n hn1 hn2
      simp only at hn2
      rw [lookup_cons]
      split
      · rfl
      · exact h5 n hn1 (by omega)
  inc := by intro st _ h; cases h
  target := by
    intro p st n h hp
    exact h hp

theorem verifyAppImpl_emit (s : Sess) (m : InMsg) : (verifyAppImpl s m).1 = s ∨ ∃ o, (verifyAppImpl s m).1 = s.emit o := by
  unfold verifyAppImpl
  split
  · exact Or.inl rfl
  · simp only []
    split <;> exact Or.inr ⟨_, rfl⟩

/-- verification changes nothing but the observation log, by at most one callback observation -/
theorem verifySelect_emit (s : Sess) (m : InMsg) (a b c : Bool) :
    (verifySelect s m a b c).1 = s ∨ ∃ o, (verifySelect s m a b c).1 = s.emit o := by
  unfold verifySelect
  repeat' split
  all_goals first | exact Or.inl rfl | exact verifyAppImpl_emit s m

/-! ### one event -/

theorem setState_connected (fuel : Nat) (s : Sess) (next : SState) (h : next.connected = true) :
    setState fuel s next = s.setSt next := by
  cases fuel with
  | zero => rfl
  | succ n => unfold setState; simp [h]

theorem checkSessionTime_inrange (n : Nat) (s : Sess) (h : s.st.sessionTime = true) : checkSessionTime (n + 1) s true true = s := by
  unfold checkSessionTime
  simp [h]

theorem checkTooLow_store (s x : Sess) (m : InMsg) (h : x.store.target = s.store.target) : checkTooLow x m = checkTooLow s m := by
  unfold checkTooLow; rw [h]
theorem checkTooHigh_store (s x : Sess) (m : InMsg) (h : x.store.target = s.store.target) : checkTooHigh x m = checkTooHigh s m := by
  unfold checkTooHigh; rw [h]

theorem resendMessages_shape (s : Sess) (b e : Int) (ho : s.out = true) (hq : s.toSend = []) :
    resendMessages s b e = { s with log := ((replyPlanR s.replyLast s.cfg.persist s.store b e).map Obs.wire).reverse ++ s.log } := by
  rw [resendMessages_eq]
  cases hp : replyPlanR s.replyLast s.cfg.persist s.store b e with
  | nil => simp [enqAll]
  | cons m rest =>
    rw [enqAll_out s m rest ho]
    simp [Sess.wrote, Sess.keptQueue, hq]

end Qfx.Sess
