/- the buffer primitives of Qfx.Model.Framer are the images of the array-level primitives (Qfx.Model.FramerMem) -/
import Qfx.Model.FramerMem
import Qfx.Lemmas.Framer
namespace Qfx.Framer
open Qfx

/-- the window lies inside the array -/
def M.Inv (m : M) : Prop := m.lo + m.len ≤ m.mem.length

theorem window_mk (mem : Bytes) (lo len : Nat) (rd : Reader) :
    M.window ⟨mem, lo, len, rd⟩ = (mem.drop lo).take len := rfl

theorem M.window_length (m : M) (h : m.Inv) : m.window.length = m.len := by
  unfold M.window M.Inv at *
  simp only [List.length_take, List.length_drop]; omega

theorem M.toP_inv (m : M) (h : m.Inv) : Framer.Inv m.toP := by
  unfold Framer.Inv M.toP
  simp only [M.window_length m h]
  unfold M.Inv at h; omega

/-- shifting to the front / reallocating keeps the bytes of the window -/
theorem growM_toP (m : M) (h : m.Inv) : (growM m).toP = grow m.toP ∧ (growM m).Inv := by
  have hw := M.window_length m h
  unfold M.Inv at h
  unfold growM grow
  simp only [M.toP, hw]
  by_cases hs : m.mem.length - m.lo - m.len = 0
  · simp only [hs, if_true]
    by_cases hb : m.mem.length = 0
    · simp only [hb, if_true]
      refine ⟨?_, by simp [M.Inv]⟩
      simp only [window_mk, List.length_replicate, P.mk.injEq, List.take_zero, true_and]
      first | omega | exact ⟨by omega, trivial⟩
    · simp only [hb, if_false]
      by_cases h2 : 2 * m.len ≤ m.mem.length
      · simp only [h2, if_true]
        have hl : (m.window ++ m.mem.drop m.len).length = m.mem.length := by
          simp only [List.length_append, hw, List.length_drop]; omega
        refine ⟨?_, by simp only [M.Inv, hl]; omega⟩
        simp only [window_mk, hl, List.drop_zero, List.take_left' hw, P.mk.injEq, true_and]
        first | omega | exact ⟨by omega, trivial⟩
      · simp only [h2, if_false]
        have hl : (m.window ++ List.replicate m.len 0).length = 2 * m.len := by
          simp only [List.length_append, hw, List.length_replicate]; omega
        refine ⟨?_, by simp only [M.Inv, hl]; omega⟩
        simp only [window_mk, hl, List.drop_zero, List.take_left' hw, P.mk.injEq, true_and]
        first | omega | exact ⟨by omega, trivial⟩
  · simp only [hs, if_false]
    exact ⟨trivial, h⟩

/-- the read lands behind the window (`buffer[len:cap]`) and extends it; the window's bytes are untouched -/
theorem fillM_toP (m : M) (h : m.Inv) :
    match fillM m with
    | .ok (n, e, m') => fill m.toP = .ok (n, e, m'.toP) ∧ m'.Inv
    | .err x => fill m.toP = .err x
    | .fault w => fill m.toP = .fault w := by
  have hw := M.window_length m h
  unfold M.Inv at h
  unfold fillM fill
  simp only [M.toP]
  by_cases hr : m.mem.length - m.lo - m.len = 0
  · simp only [hr, if_true]
  · simp only [hr, if_false]
    have hroom : 0 < m.mem.length - m.lo - m.len := by omega
    obtain ⟨_, hle, _⟩ := read_spec m.rd (m.mem.length - m.lo - m.len) hroom
    generalize m.rd.read (m.mem.length - m.lo - m.len) = r at hle
    have hl : (m.mem.take (m.lo + m.len) ++ r.1 ++ m.mem.drop (m.lo + m.len + r.1.length)).length = m.mem.length := by
      simp only [List.length_append, List.length_take, List.length_drop]; omega
    refine ⟨?_, by simp only [M.Inv, hl]; omega⟩
    have hwin : (List.drop m.lo (m.mem.take (m.lo + m.len) ++ r.1 ++ m.mem.drop (m.lo + m.len + r.1.length))).take
        (m.len + r.1.length) = m.window ++ r.1 := by
      have e1 : m.mem.take (m.lo + m.len) = m.mem.take m.lo ++ m.window := by
        rw [List.take_add]; rfl
      rw [e1, List.append_assoc, List.append_assoc]
      have hlo : (m.mem.take m.lo).length = m.lo := by simp only [List.length_take]; omega
      rw [List.drop_left' hlo, ← List.append_assoc]
      exact List.take_left' (by simp only [List.length_append, hw])
    simp only [window_mk, hl, hwin, Res.ok.injEq, Prod.mk.injEq, P.mk.injEq, true_and]
    first | omega | exact ⟨by omega, trivial⟩

/-- `p.buffer = p.buffer[k:]` -/
theorem sliceM_toP (k : Nat) (m : M) (h : m.Inv) (hk : k ≤ m.len) :
    (sliceM k m).toP = { m.toP with buf := m.toP.buf.drop k } ∧ (sliceM k m).Inv := by
  unfold M.Inv at h
  refine ⟨?_, by simp only [sliceM, M.Inv]; omega⟩
  simp only [sliceM, M.toP, M.window, P.mk.injEq, true_and]
  refine ⟨?_, ?_⟩
  · rw [List.drop_take, List.drop_drop]
  · first | omega | exact ⟨by omega, trivial⟩

/-- `readMore` = `fill ∘ grow` on both levels -/
theorem readMoreM_toP (m : M) (h : m.Inv) :
    match fillM (growM m) with
    | .ok (n, e, m') => readMore m.toP = .ok (n, e, m'.toP) ∧ m'.Inv
    | .err x => readMore m.toP = .err x
    | .fault w => readMore m.toP = .fault w := by
  obtain ⟨e, hi⟩ := growM_toP m h
  unfold readMore
  rw [← e]
  exact fillM_toP (growM m) hi

end Qfx.Framer
