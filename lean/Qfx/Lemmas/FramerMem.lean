/- the buffer primitives of Qfx.Model.Framer are the images of the array-level primitives (Qfx.Model.FramerMem) -/
import Qfx.Model.FramerMem
import Qfx.Lemmas.Framer
namespace Qfx.Framer
open Qfx

/-- the window lies inside the array -/
def M.Inv (m : M) : Prop := m.lo + m.len ≤ m.mem.length

theorem window_mk (mem : Bytes) (lo len : Nat) (rd : Reader) :
    M.window ⟨mem, lo, len, rd⟩ = (mem.drop lo).take len := rfl

theorem M.window_length (m : M) (h : m.Inv) : m.window.length = m.len := by
  unfold M.window M.Inv at *
  simp only [List.length_take, List.length_drop]; omega

theorem M.toP_inv (m : M) (h : m.Inv) : Framer.Inv m.toP := by
  unfold Framer.Inv M.toP
  simp only [M.window_length m h]
  unfold M.Inv at h; omega

/-- shifting to the front / reallocating keeps the bytes of the window -/
theorem growM_toP (m : M) (h : m.Inv) : (growM m).toP = grow m.toP ∧ (growM m).Inv := by
  have hw := M.window_length m h
  unfold M.Inv at h
  unfold growM grow
  simp only [M.toP, hw]
  by_cases hs : m.mem.length - m.lo - m.len = 0
  · simp only [hs, if_true]
    by_cases hb : m.mem.length = 0
    · simp only [hb, if_true]
      refine ⟨?_, by simp [M.Inv]⟩
      simp only [window_mk, List.length_replicate, P.mk.injEq, List.take_zero, true_and]
      first | omega | exact ⟨by omega, trivial⟩
    · simp only [hb, if_false]
      by_cases h2 : 2 * m.len ≤ m.mem.length
      · simp only [h2, if_true]
        have hl : (m.window ++ m.mem.drop m.len).length = m.mem.length := by
          simp only [List.length_append, hw, List.length_drop]; omega
        refine ⟨?_, by simp only [M.Inv, hl]; omega⟩
        simp only [window_mk, hl, List.drop_zero, List.take_left' hw, P.mk.injEq, true_and]
        first | omega | exact ⟨by omega, trivial⟩
      · simp only [h2, if_false]
        have hl : (m.window ++ List.replicate m.len 0).length = 2 * m.len := by
          simp only [List.length_append, hw, List.length_replicate]; omega
        refine ⟨?_, by simp only [M.Inv, hl]; omega⟩
        simp only [window_mk, hl, List.drop_zero, List.take_left' hw, P.mk.injEq, true_and]
        first | omega | exact ⟨by omega, trivial⟩
  · simp only [hs, if_false]
    exact ⟨trivial, h⟩

/-- the read lands behind the window (`buffer[len:cap]`) and extends it; the window's bytes are untouched -/
theorem fillM_toP (m : M) (h : m.Inv) :
    match fillM m with
    | .ok (n, e, m') => fill m.toP = .ok (n, e, m'.toP) ∧ m'.Inv
    | .err x => fill m.toP = .err x
    | .fault w => fill m.toP = .fault w := by
  have hw := M.window_length m h
  unfold M.Inv at h
  unfold fillM fill
  simp only [M.toP]
  by_cases hr : m.mem.length - m.lo - m.len = 0
  · simp only [hr, if_true]
  · simp only [hr, if_false]
    have hroom : 0 < m.mem.length - m.lo - m.len := by omega
    obtain ⟨_, hle, _⟩ := read_spec m.rd (m.mem.length - m.lo - m.len) hroom
    generalize m.rd.read (m.mem.length - m.lo - m.len) = r at hle
    have hl : (m.mem.take (m.lo + m.len) ++ r.1 ++ m.mem.drop (m.lo + m.len + r.1.length)).length = m.mem.length := by
      simp only [List.length_append, List.length_take, List.length_drop]; omega
    refine ⟨?_, by simp only [M.Inv, hl]; omega⟩
    have hwin : (List.drop m.lo (m.mem.take (m.lo + m.len) ++ r.1 ++ m.mem.drop (m.lo + m.len + r.1.length))).take
        (m.len + r.1.length) = m.window ++ r.1 := by
      have e1 : m.mem.take (m.lo + m.len) = m.mem.take m.lo ++ m.window := by
        rw [List.take_add]; rfl
      rw [e1, List.append_assoc, List.append_assoc]
      have hlo : (m.mem.take m.lo).length = m.lo := by simp only [List.length_take]; omega
      rw [List.drop_left' hlo, ← List.append_assoc]
      exact List.take_left' (by simp only [List.length_append, hw])
    simp only [window_mk, hl, hwin, Res.ok.injEq, Prod.mk.injEq, P.mk.injEq, true_and]
    first | omega | exact ⟨by omega, trivial⟩

/-- `p.buffer = p.buffer[k:]` -/
theorem sliceM_toP (k : Nat) (m : M) (h : m.Inv) (hk : k ≤ m.len) :
    (sliceM k m).toP = { m.toP with buf := m.toP.buf.drop k } ∧ (sliceM k m).Inv := by
  unfold M.Inv at h
  refine ⟨?_, by simp only [sliceM, M.Inv]; omega⟩
  simp only [sliceM, M.toP, M.window, P.mk.injEq, true_and]
  refine ⟨?_, ?_⟩
  · rw [List.drop_take, List.drop_drop]
  · first | omega | exact ⟨by omega, trivial⟩

/-- `readMore` = `fill ∘ grow` on both levels -/
theorem readMoreM_toP (m : M) (h : m.Inv) :
    match fillM (growM m) with
    | .ok (n, e, m') => readMore m.toP = .ok (n, e, m'.toP) ∧ m'.Inv
    | .err x => readMore m.toP = .err x
    | .fault w => readMore m.toP = .fault w := by
  obtain ⟨e, hi⟩ := growM_toP m h
  unfold readMore
  rw [← e]
  exact fillM_toP (growM m) hi

end Qfx.Framer

namespace Qfx.Framer
open Qfx

/-! ## the array-level parser is simulated by the model, step for step -/

/-- `r` (array level) is matched by `q` (model level): same value / error / fault, states related by `toP` -/
def Sim {α : Type} (r : Res (α × M)) (q : Res (α × P)) : Prop :=
  match r with
  | .ok (a, m') => q = .ok (a, m'.toP) ∧ m'.Inv
  | .err x => q = .err x
  | .fault w => q = .fault w

/-- the refill step of `findIdx`, without the proof-carrying match -/
def moreThen (off : Nat) (d : Bytes) (p : P) : Res (Nat × P) :=
  match readMore p with
  | .ok (n, e, p') => if n = 0 ∧ e = true then .err p.rd.endErr else findIdx off d p'
  | .err x => .err x
  | .fault w => .fault w

theorem findIdx_eq (off : Nat) (d : Bytes) (p : P) :
    findIdx off d p =
      if off > p.buf.length then moreThen off d p
      else match indexOf d (p.buf.drop off) with
        | some i => .ok (i + off, p)
        | none => moreThen off d p := by
  rw [findIdx]
  unfold moreThen
  split
  · split <;> simp_all
  · split
    · rename_i heq; simp only [heq]
    · rename_i heq; simp only [heq]; split <;> simp_all

theorem M.toP_len (m : M) (h : m.Inv) : m.toP.buf.length = m.len := M.window_length m h

theorem moreThen_sim (off : Nat) (d : Bytes) (m : M) (h : m.Inv)
    (ih : ∀ n e m', readMoreM m = .ok (n, e, m') → ¬ (n = 0 ∧ e = true) → m'.Inv →
      Sim (findIdxM off d m') (findIdx off d m'.toP)) :
    Sim (match readMoreM m with
         | .ok (n, e, m') => if n = 0 ∧ e = true then .err m.rd.endErr else findIdxM off d m'
         | .err x => .err x
         | .fault w => .fault w) (moreThen off d m.toP) := by
  have hs := readMoreM_toP m h
  unfold moreThen
  unfold readMoreM at ih ⊢
  cases hr : fillM (growM m) with
  | ok v =>
    obtain ⟨n, e, m'⟩ := v
    rw [hr] at hs
    simp only at hs
    obtain ⟨hq, hi⟩ := hs
    simp only [hq]
    by_cases hne : n = 0 ∧ e = true
    · simp only [hne, and_self, if_true]
      rfl
    · simp only [hne, if_false]
      exact ih n e m' hr hne hi
  | err x => rw [hr] at hs; simp only at hs; simp only [hs]; rfl
  | fault w => rw [hr] at hs; simp only at hs; simp only [hs]; rfl

theorem findIdxM_sim (off : Nat) (d : Bytes) (m : M) (h : m.Inv) :
    Sim (findIdxM off d m) (findIdx off d m.toP) := by
  induction hw : m.rd.weight using Nat.strongRecOn generalizing m with
  | _ w ih =>
    rw [findIdxM, findIdx_eq, M.toP_len m h]
    have hmore := moreThen_sim off d m h (by
      intro n e m' hr hne hi
      rcases readMoreM_weight hr with h1 | h1
      · exact absurd h1 hne
      · exact ih _ (by omega) m' hi rfl)
    have hmore' : Sim (match hh : readMoreM m with
         | .ok (n, e, m') => if hne : n = 0 ∧ e = true then .err m.rd.endErr else findIdxM off d m'
         | .err x => .err x
         | .fault w => .fault w) (moreThen off d m.toP) := by
      have e : (match hh : readMoreM m with
         | .ok (n, e, m') => if hne : n = 0 ∧ e = true then (.err m.rd.endErr : Res (Nat × M)) else findIdxM off d m'
         | .err x => .err x
         | .fault w => .fault w) =
        (match readMoreM m with
         | .ok (n, e, m') => if n = 0 ∧ e = true then .err m.rd.endErr else findIdxM off d m'
         | .err x => .err x
         | .fault w => .fault w) := by
        split <;> simp_all
      rw [e]; exact hmore
    by_cases hgt : off > m.len
    · simp only [hgt, if_true]
      exact hmore'
    · simp only [hgt, if_false]
      have hwd : m.toP.buf = m.window := rfl
      rw [hwd]
      cases hi : indexOf d (m.window.drop off) with
      | some i => simp only; exact ⟨rfl, h⟩
      | none => simp only; exact hmore'

end Qfx.Framer

namespace Qfx.Framer
open Qfx

theorem findIndexAfterOffsetM_sim (offset : Int) (d : Bytes) (m : M) (h : m.Inv) :
    Sim (findIndexAfterOffsetM offset d m) (findIndexAfterOffset offset d m.toP) := by
  unfold findIndexAfterOffsetM findIndexAfterOffset
  by_cases hneg : offset < 0
  · simp only [hneg, if_true]; rfl
  · simp only [hneg, if_false]; exact findIdxM_sim _ d m h

theorem findEndAfterOffsetM_sim (offset : Int) (m : M) (h : m.Inv) :
    Sim (findEndAfterOffsetM offset m) (findEndAfterOffset offset m.toP) := by
  unfold findEndAfterOffsetM findEndAfterOffset
  have s1 := findIndexAfterOffsetM_sim offset dCk m h
  cases r1 : findIndexAfterOffsetM offset dCk m with
  | ok v =>
    obtain ⟨index, m1⟩ := v
    rw [r1] at s1
    obtain ⟨q1, i1⟩ := s1
    simp only [q1]
    have s2 := findIndexAfterOffsetM_sim ((index : Int) + 1) dSOH m1 i1
    cases r2 : findIndexAfterOffsetM ((index : Int) + 1) dSOH m1 with
    | ok v2 =>
      obtain ⟨index2, m2⟩ := v2
      rw [r2] at s2
      obtain ⟨q2, i2⟩ := s2
      simp only [q2]
      exact ⟨rfl, i2⟩
    | err x => rw [r2] at s2; simp only [Sim] at s2; simp only [s2]; rfl
    | fault w => rw [r2] at s2; simp only [Sim] at s2; simp only [s2]; rfl
  | err x => rw [r1] at s1; simp only [Sim] at s1; simp only [s1]; rfl
  | fault w => rw [r1] at s1; simp only [Sim] at s1; simp only [s1]; rfl

theorem jumpLengthGM_sim (g : Bool) (m : M) (h : m.Inv) :
    Sim (jumpLengthGM g m) (jumpLengthG g m.toP) := by
  unfold jumpLengthGM jumpLengthG
  have s1 := findIndexAfterOffsetM_sim 0 dLen m h
  cases r1 : findIndexAfterOffsetM 0 dLen m with
  | ok v =>
    obtain ⟨li, m1⟩ := v
    rw [r1] at s1
    obtain ⟨q1, i1⟩ := s1
    simp only [q1]
    have s2 := findIndexAfterOffsetM_sim ((li + 3 : Nat) : Int) dSOH m1 i1
    cases r2 : findIndexAfterOffsetM ((li + 3 : Nat) : Int) dSOH m1 with
    | ok v2 =>
      obtain ⟨offset, m2⟩ := v2
      rw [r2] at s2
      obtain ⟨q2, i2⟩ := s2
      simp only [q2, M.toP_len m2 i2]
      have hwd : m2.toP.buf = m2.window := rfl
      rw [hwd]
      by_cases h1 : offset = li + 3
      · simp only [h1, if_true]; rfl
      · simp only [h1, if_false]
        by_cases h2 : ¬ (li + 3 ≤ offset ∧ offset ≤ m2.len)
        · simp only [h2, not_false_eq_true, if_true]; rfl
        · simp only [h2, if_false]
          cases hat : atoi (List.drop (li + 3) (List.take offset m2.window)) with
          | ok n =>
            simp only
            by_cases h3 : n ≤ 0
            · simp only [h3, if_true]; rfl
            · simp only [h3, if_false]
              by_cases h4 : (g && decide (wrap64 ((offset : Int) + n) < (offset : Int))) = true
              · simp only [h4, if_true]; rfl
              · simp only [h4]; exact ⟨rfl, i2⟩
          | err x => simp only; rfl
          | fault w => simp only; rfl
    | err x => rw [r2] at s2; simp only [Sim] at s2; simp only [s2]; rfl
    | fault w => rw [r2] at s2; simp only [Sim] at s2; simp only [s2]; rfl
  | err x => rw [r1] at s1; simp only [Sim] at s1; simp only [s1]; rfl
  | fault w => rw [r1] at s1; simp only [Sim] at s1; simp only [s1]; rfl

theorem readMessageGM_sim (g : Bool) (m : M) (h : m.Inv) :
    Sim (readMessageGM g m) (readMessageG g m.toP) := by
  unfold readMessageGM readMessageG findStart
  have s1 := findIndexAfterOffsetM_sim 0 dBegin m h
  cases r1 : findIndexAfterOffsetM 0 dBegin m with
  | ok v =>
    obtain ⟨start, m1⟩ := v
    rw [r1] at s1
    obtain ⟨q1, i1⟩ := s1
    simp only [q1, M.toP_len m1 i1]
    by_cases hst : start > m1.len
    · simp only [hst, if_true]; rfl
    · simp only [hst, if_false]
      obtain ⟨e2, i2⟩ := sliceM_toP start m1 i1 (by omega)
      rw [← e2]
      have s3 := jumpLengthGM_sim g (sliceM start m1) i2
      cases r3 : jumpLengthGM g (sliceM start m1) with
      | ok v3 =>
        obtain ⟨index, m3⟩ := v3
        rw [r3] at s3
        obtain ⟨q3, i3⟩ := s3
        simp only [q3]
        have s4 := findEndAfterOffsetM_sim index m3 i3
        cases r4 : findEndAfterOffsetM index m3 with
        | ok v4 =>
          obtain ⟨index', m4⟩ := v4
          rw [r4] at s4
          obtain ⟨q4, i4⟩ := s4
          simp only [q4, M.toP_len m4 i4]
          by_cases hidx : index' > m4.len
          · simp only [hidx, if_true]; rfl
          · simp only [hidx, if_false]
            obtain ⟨e5, i5⟩ := sliceM_toP index' m4 i4 (by omega)
            rw [← e5]
            exact ⟨rfl, i5⟩
        | err x => rw [r4] at s4; simp only [Sim] at s4; simp only [s4]; rfl
        | fault w => rw [r4] at s4; simp only [Sim] at s4; simp only [s4]; rfl
      | err x => rw [r3] at s3; simp only [Sim] at s3; simp only [s3]; rfl
      | fault w => rw [r3] at s3; simp only [Sim] at s3; simp only [s3]; rfl
  | err x => rw [r1] at s1; simp only [Sim] at s1; simp only [s1]; rfl
  | fault w => rw [r1] at s1; simp only [Sim] at s1; simp only [s1]; rfl

theorem runG_unfold (g : Bool) (p : P) :
    runG g p = match readMessageG g p with
      | .ok (m, p') => { frames := m :: (runG g p').frames, end_ := (runG g p').end_ }
      | .err c => { frames := [], end_ := .err c }
      | .fault w => { frames := [], end_ := .fault w } := by
  rw [runG]
  split <;> simp_all

theorem M.toP_weight (m : M) (h : m.Inv) : m.toP.weight = m.weight := by
  unfold P.weight M.weight
  rw [M.toP_len m h]; rfl

/-- `readLoop` over the array-level parser delivers what the model delivers -/
theorem runGM_eq (g : Bool) (m : M) (h : m.Inv) : runGM g m = runG g m.toP := by
  induction hw : m.weight using Nat.strongRecOn generalizing m with
  | _ w ih =>
    rw [runGM, runG_unfold]
    have s := readMessageGM_sim g m h
    cases r : readMessageGM g m with
    | ok v =>
      obtain ⟨fr, m'⟩ := v
      rw [r] at s
      obtain ⟨q, i'⟩ := s
      simp only [q]
      have hlt := readMessageG_weight q
      rw [M.toP_weight m h, M.toP_weight m' i'] at hlt
      simp only [hlt, if_true]
      rw [ih _ (by omega) m' i' rfl]
    | err x => rw [r] at s; simp only [Sim] at s; simp only [s]
    | fault w => rw [r] at s; simp only [Sim] at s; simp only [s]

theorem M.init_toP (rd : Reader) : (M.init rd).toP = P.init rd := by
  simp [M.init, M.toP, P.init, M.window]

theorem framesReadM_eq (rd : Reader) : framesReadM rd = framesRead rd := by
  unfold framesReadM framesRead framesReadG
  rw [runGM_eq true _ (by simp [M.Inv, M.init]), M.init_toP]

end Qfx.Framer
