import Qfx.Lemmas.Bytes
import Qfx.Model.Values
import Qfx.Spec.Values
namespace Qfx
open Qfx.Spec

/-! ### 64-bit wrap-around -/
theorem wrap64_of_in (x : Int) (h : inInt64 x) : wrap64 x = x := by
  unfold inInt64 at h; unfold wrap64; omega

theorem wrap64_step (a b : Int) : wrap64 (wrap64 a * 10 + b) = wrap64 (a * 10 + b) := by
  unfold wrap64; omega

theorem wrap64_neg_wrap (a : Int) : wrap64 (-(wrap64 a)) = wrap64 (-a) := by
  unfold wrap64; omega

/-- unbounded left fold of `parseUInt` -/
def digitsValI (cs : Bytes) (acc : Int) : Int := List.foldl (fun (a : Int) (c : Nat) => a * 10 + ((c : Int) - 48)) acc cs

theorem parseUIntLoop_digits (cs : Bytes) (acc : Int) (h : cs.all isDigit = true) :
    parseUIntLoop cs (wrap64 acc) = .ok (wrap64 (digitsValI cs acc)) := by
  induction cs generalizing acc with
  | nil => simp [parseUIntLoop, digitsValI]
  | cons c cs ih =>
    simp only [List.all_cons, Bool.and_eq_true] at h
    simp only [parseUIntLoop, h.1, if_true, wrap64_step]
    rw [ih _ h.2]; simp [digitsValI]

theorem parseUIntLoop_nondigit (cs : Bytes) (n : Int) (h : cs.all isDigit = false) :
    parseUIntLoop cs n = .err "invalid format" := by
  induction cs generalizing n with
  | nil => simp at h
  | cons c cs ih =>
    simp only [parseUIntLoop]
    by_cases hc : isDigit c = true
    · simp only [hc, if_true]; apply ih; simpa [hc] using h
    · simp [hc]

theorem digitsValI_eq (cs : Bytes) (acc : Nat) (h : cs.all isDigit = true) :
    digitsValI cs (acc : Int) = ((cs.foldl (fun a c => 10 * a + (c - 48)) acc : Nat) : Int) := by
  induction cs generalizing acc with
  | nil => simp [digitsValI]
  | cons c cs ih =>
    simp only [List.all_cons, Bool.and_eq_true] at h
    have hc := (isDigit_iff c).1 h.1
    simp only [digitsValI, List.foldl_cons]
    have : (acc : Int) * 10 + ((c : Int) - 48) = ((10 * acc + (c - 48) : Nat) : Int) := by omega
    rw [this]; exact ih _ h.2

theorem digitsValI_zero (cs : Bytes) (h : cs.all isDigit = true) : digitsValI cs 0 = (digitsVal cs : Int) := by
  have := digitsValI_eq cs 0 h; simpa [digitsVal] using this

theorem wrap64_zero : wrap64 0 = 0 := by unfold wrap64; omega

theorem parseUInt_digits (cs : Bytes) (hne : cs ≠ []) (h : cs.all isDigit = true) :
    parseUInt cs = .ok (wrap64 (digitsVal cs)) := by
  unfold parseUInt
  have : cs.isEmpty = false := by cases cs <;> simp_all
  simp only [this]
  have := parseUIntLoop_digits cs 0 h
  rw [wrap64_zero] at this
  rw [this, digitsValI_zero cs h]; simp

theorem parseUInt_isOk_iff (cs : Bytes) : (parseUInt cs).isOk = allDigitsNE cs := by
  unfold parseUInt allDigitsNE
  cases cs with
  | nil => simp [Res.isOk]
  | cons c cs =>
    simp only [List.isEmpty_cons, Bool.not_false, Bool.true_and]
    by_cases h : (c :: cs).all isDigit = true
    · have := parseUIntLoop_digits (c :: cs) 0 h
      rw [wrap64_zero] at this
      simp [this, Res.isOk, h]
    · have h' : (c :: cs).all isDigit = false := by simpa using h
      simp [parseUIntLoop_nondigit _ _ h', Res.isOk, h']


theorem foldl_digits_bound (cs : Bytes) (acc : Nat) (h : cs.all isDigit = true) :
    cs.foldl (fun a c => 10 * a + (c - 48)) acc + 1 ≤ (acc + 1) * 10 ^ cs.length := by
  induction cs generalizing acc with
  | nil => simp
  | cons c cs ih =>
    simp only [List.all_cons, Bool.and_eq_true] at h
    have hc := (isDigit_iff c).1 h.1
    simp only [List.foldl_cons, List.length_cons]
    refine Nat.le_trans (ih _ h.2) ?_
    have : 10 * acc + (c - 48) + 1 ≤ (acc + 1) * 10 := by omega
    calc (10 * acc + (c - 48) + 1) * 10 ^ cs.length
        ≤ ((acc + 1) * 10) * 10 ^ cs.length := Nat.mul_le_mul_right _ this
      _ = (acc + 1) * 10 ^ (cs.length + 1) := by rw [Nat.pow_succ, Nat.mul_assoc, Nat.mul_comm 10]

theorem digitsVal_lt (cs : Bytes) (h : cs.all isDigit = true) : digitsVal cs < 10 ^ cs.length := by
  have := foldl_digits_bound cs 0 h
  simp at this; unfold digitsVal; omega

theorem parseUIntLoop_not_fault (cs : Bytes) (n : Int) : (parseUIntLoop cs n).isFault = false := by
  induction cs generalizing n with
  | nil => simp [parseUIntLoop, Res.isFault]
  | cons c cs ih =>
    simp only [parseUIntLoop]; split
    · exact ih _
    · simp [Res.isFault]

theorem parseUInt_not_fault (cs : Bytes) : (parseUInt cs).isFault = false := by
  unfold parseUInt; split
  · simp [Res.isFault]
  · exact parseUIntLoop_not_fault _ _

theorem atoi_not_fault (b : Bytes) : (atoi b).isFault = false := by
  unfold atoi
  split
  · exact parseUInt_not_fault _
  · split
    · have := parseUInt_not_fault ‹Bytes›
      revert this; cases parseUInt ‹Bytes› <;> simp [Res.isFault]
    · exact parseUInt_not_fault _

end Qfx
