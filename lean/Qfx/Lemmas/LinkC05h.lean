/-
  C05 helper lemmas, part h: the invariant of the whole link (`LInv`), preserved by every link event, hence by every
  fault history along which the sequence numbers stay within Go's `int`.
-/
import Qfx.Lemmas.LinkC05g
namespace Qfx.Link
open Qfx Qfx.Sess

structure LInv (cfgA cfgB : Cfg) (l : LSt) : Prop where
  ca : l.a.cfg = cfgA
  cb : l.b.cfg = cfgB
  ab : Half l.a l.b l.a2b l.sentA l.dlvB l.rcvB
  ba : Half l.b l.a l.b2a l.sentB l.dlvA l.rcvA

/-- both engines' next outbound numbers are still within Go's `int` -/
def Bnd (l : LSt) : Prop := l.a.store.sender ≤ maxSeq ∧ l.b.store.sender ≤ maxSeq

theorem LInv_onSide_B {cfgA cfgB : Cfg} (hcf : CfgsOK cfgA cfgB) {l : LSt} (h : LInv cfgA cfgB l) (hb : l.a.store.sender ≤ maxSeq)
    (e : Ev) (he : LinkEv (mkCtx l.b l.a l.rcvB l.dlvB) e) : LInv cfgA cfgB (onSide l .B e).1 := by
  obtain ⟨h1, h2, h3⟩ := halves_step hcf h.ca h.cb h.ab h.ba hb e he
  unfold onSide
  simp only []
  exact ⟨h.ca, h3, h1, h2⟩

theorem LInv_onSide_A {cfgA cfgB : Cfg} (hcf : CfgsOK cfgA cfgB) {l : LSt} (h : LInv cfgA cfgB l) (hb : l.b.store.sender ≤ maxSeq)
    (e : Ev) (he : LinkEv (mkCtx l.a l.b l.rcvA l.dlvA) e) : LInv cfgA cfgB (onSide l .A e).1 := by
  obtain ⟨h1, h2, h3⟩ := halves_step hcf.symm h.cb h.ca h.ba h.ab hb e he
  unfold onSide
  simp only []
  exact ⟨h3, h.cb, h2, h1⟩

theorem onSide_A_b (l : LSt) (e : Ev) : (onSide l .A e).1.b = l.b := rfl
theorem onSide_B_a (l : LSt) (e : Ev) : (onSide l .B e).1.a = l.a := rfl

/-- emptying the links keeps the invariant -/
theorem LInv_cutLinks {cfgA cfgB : Cfg} {l : LSt} (h : LInv cfgA cfgB l) : LInv cfgA cfgB { l with a2b := [], b2a := [] } :=
  ⟨h.ca, h.cb, ⟨h.ab.sok, h.ab.q, (by intro m hm; cases hm), h.ab.t1, h.ab.t2, h.ab.dlv, h.ab.sent, h.ab.pool⟩,
    ⟨h.ba.sok, h.ba.q, (by intro m hm; cases hm), h.ba.t1, h.ba.t2, h.ba.dlv, h.ba.sent, h.ba.pool⟩⟩

/-! ### sending -/

def appMsg (n : Int) (p : String) : OutMsg := { kind := "D", seq := n, f := [(9000, p)] }

/-- the application message as `prepMessageForSend` stores and queues it: numbered, header filled (tag 369 when the
    option is on) -/
def appMsgS (s : Sess) (p : String) : OutMsg := { stamp s (appMsg 0 p) with seq := s.store.sender }

theorem appMsgS_view (s : Sess) (p : String) :
    (appMsgS s p).kind = "D" ∧ (appMsgS s p).f = [(9000, p)] ∧ (appMsgS s p).seq = s.store.sender := ⟨rfl, rfl, rfl⟩

/-- the engine after accepting an application message with payload `p` -/
def sentSess (s : Sess) (p : String) : Sess :=
  { s with
    store := { s.store with msgs := (s.store.sender, appMsgS s p) :: s.store.msgs, sender := s.store.sender + 1 },
    toSend := s.toSend ++ [appMsgS s p],
    log := [] }

theorem step_send (s : Sess) (p : String) (hp : s.cfg.persist = true) :
    step s (.send (appMsg 0 p)) = (sentSess s p, [Obs.saved s.store.sender "D" true], "ok") := by
  have hadm : isAdminKind "D" = false := by decide
  have h9002 : (Fields.get? [(9000, p)] 9002 == some "dns") = false := by simp [get?_cons, get?_nil]
  have hres : resendable (appMsgS s p) = true := by
    simp [resendable, appMsgS, appMsg, get?_cons, get?_nil]
  have hadm' : isAdminKind (stamp s.clearLog (appMsg 0 p)).kind = false := hadm
  have h9002' : ((stamp s.clearLog (appMsg 0 p)).f.get? 9002 == some "dns") = false := h9002
  have hst : ({ stamp s.clearLog (appMsg 0 p) with seq := s.clearLog.store.sender } : OutMsg) = appMsgS s p := rfl
  simp only [step, stepCore, prep, prepCore, hadm', h9002', Bool.false_eq_true, if_false, hst]
  rw [persistOut_eq _ _ _ (show s.clearLog.cfg.persist = true from hp)]
  have hk : (appMsgS s p).kind = "D" := rfl
  simp [Sess.clearLog, Sess.emit, Sess.setToSend, sentSess, hres, hk]

theorem msgOK_appS (s : Sess) (p : String) (hp : p ≠ "") : MsgOK (appMsgS s p) := by
  refine ⟨?_, SecOrd.body rfl, (show "D" ≠ "" by decide), (show "D" ≠ "4" by decide), fun _ => ⟨p, rfl⟩, fun h => absurd (show "D" = "2" from h) (by decide)⟩
  intro q hq
  have : q ∈ [(9000, p)] := hq
  simp only [List.mem_singleton] at this; subst this
  exact ⟨hp, by simp, by simp, fun h => absurd (show isAdminKind "D" = true from h) (by decide), by simp⟩

theorem msgOK_app (p : String) (n : Int) (hp : p ≠ "") : MsgOK (appMsg n p) := by
  refine ⟨?_, SecOrd.body rfl, (show "D" ≠ "" by decide), (show "D" ≠ "4" by decide), fun _ => ⟨p, rfl⟩, fun h => absurd (show "D" = "2" from h) (by decide)⟩
  intro q hq
  simp only [appMsg, List.mem_singleton] at hq; subst hq
  exact ⟨hp, by simp, by simp, fun h => absurd (show isAdminKind "D" = true from h) (by decide), by simp⟩

/-- `x` accepts an application message for sending -/
theorem halves_send {x y : Sess} {x2y y2x : List OutMsg} {sentX sentY dlvX dlvY : List String} {rcvX rcvY : List (String × String)}
    (hxy : Half x y x2y sentX dlvY rcvY) (hyx : Half y x y2x sentY dlvX rcvX) (p : String) (hp : p ≠ "") :
    Half (sentSess x p) y x2y (sentX ++ [p]) dlvY rcvY ∧ Half y (sentSess x p) y2x sentY dlvX rcvX := by
  have hg : Grow false x.store (sentSess x p).store := Grow.save false x.store _ (fun h => by cases h)
  refine ⟨⟨hxy.sok.save _ (msgOK_appS x p hp) rfl, ?_, fun m hm => (hxy.fl m hm).mono hg, hxy.t1, ?_, ?_, ?_, ?_⟩,
    ⟨hyx.sok, hyx.q, hyx.fl, hyx.t1, hyx.t2, hyx.dlv, hyx.sent, ⟨hyx.pool.1, hyx.pool.2⟩⟩⟩
  · intro m hm
    simp only [sentSess, List.mem_append, List.mem_singleton] at hm
    rcases hm with hm | hm
    · exact (hxy.q m hm).mono hg
    · rw [hm]; exact .stored List.mem_cons_self
  · have := hxy.t2; simp only [sentSess]; omega
  · rw [hg.below _ hxy.t2]; exact hxy.dlv
  · simp only [sentSess, appPay, pay, (appMsgS_view x p).1, (appMsgS_view x p).2.1]
    rw [← hxy.sent]
    simp [get?_cons, show isAdminKind "D" = false by decide]
  · exact poolInv_mono (fun im h => poolP_mono (y := y) (x := x) (x' := sentSess x p) (d := dlvY) (d' := dlvY) rfl hg h) hxy.pool

theorem lstep_send_A (l : LSt) (p : String) (hp : l.a.cfg.persist = true) :
    (lstep l (.send .A p)).1 = { l with a := sentSess l.a p, sentA := l.sentA ++ [p] } := by
  have hs := step_send l.a p hp
  unfold appMsg at hs
  simp [lstep, onSide, hs, wiresOf, deliveredSeqs]

theorem lstep_send_B (l : LSt) (p : String) (hp : l.b.cfg.persist = true) :
    (lstep l (.send .B p)).1 = { l with b := sentSess l.b p, sentB := l.sentB ++ [p] } := by
  have hs := step_send l.b p hp
  unfold appMsg at hs
  simp [lstep, onSide, hs, wiresOf, deliveredSeqs]

theorem LInv_send_A {cfgA cfgB : Cfg} (hcf : CfgsOK cfgA cfgB) {l : LSt} (h : LInv cfgA cfgB l) (p : String) (hp : p ≠ "") :
    LInv cfgA cfgB (lstep l (.send .A p)).1 := by
  obtain ⟨h1, h2⟩ := halves_send h.ab h.ba p hp
  rw [lstep_send_A l p (by rw [h.ca]; exact hcf.pa)]
  exact ⟨h.ca, h.cb, h1, h2⟩

theorem LInv_send_B {cfgA cfgB : Cfg} (hcf : CfgsOK cfgA cfgB) {l : LSt} (h : LInv cfgA cfgB l) (p : String) (hp : p ≠ "") :
    LInv cfgA cfgB (lstep l (.send .B p)).1 := by
  obtain ⟨h1, h2⟩ := halves_send h.ba h.ab p hp
  rw [lstep_send_B l p (by rw [h.cb]; exact hcf.pb)]
  exact ⟨h.ca, h.cb, h2, h1⟩

/-! ### delivery, restart -/

/-- the oldest message in flight is taken off the link and noted in the receiver's ghost table -/
theorem half_note {x y : Sess} {m : OutMsg} {rest : List OutMsg} {sentX dlvY : List String} {rcvY : List (String × String)}
    (hxy : Half x y (m :: rest) sentX dlvY rcvY) :
    Half x y rest sentX dlvY (noteRcv rcvY (toIn x.cfg m)) ∧ PoolP (mkCtx y x (noteRcv rcvY (toIn x.cfg m)) dlvY) (toIn x.cfg m) := by
  have hw : Wire x.store m := hxy.fl m List.mem_cons_self
  refine ⟨⟨hxy.sok, hxy.q, fun k hk => hxy.fl k (List.mem_cons_of_mem _ hk), hxy.t1, hxy.t2, hxy.dlv, hxy.sent, ?_⟩,
    ⟨m, rfl, hw, noted_self _ _ _⟩⟩
  exact poolInv_mono (fun im h => by
    obtain ⟨m', he, hw', hn⟩ := h
    exact ⟨m', he, hw', noted_mono hxy.sok _ _ hw hw' hn⟩) hxy.pool

theorem half_restart_sender {x y : Sess} {x2y : List OutMsg} {sentX dlvY : List String} {rcvY : List (String × String)}
    (hxy : Half x y x2y sentX dlvY rcvY) : Half (restartSess x) y x2y sentX dlvY rcvY :=
  ⟨hxy.sok, (by intro m hm; cases hm), hxy.fl, hxy.t1, hxy.t2, hxy.dlv, hxy.sent, hxy.pool⟩

theorem half_restart_receiver {x y : Sess} {y2x : List OutMsg} {sentY dlvX : List String} {rcvX : List (String × String)}
    (hyx : Half y x y2x sentY dlvX rcvX) : Half y (restartSess x) y2x sentY dlvX [] :=
  ⟨hyx.sok, hyx.q, hyx.fl, hyx.t1, hyx.t2, hyx.dlv, hyx.sent, ⟨(by intro m hm; cases hm), (by intro p hp; cases hp)⟩⟩

/-- payloads handed to `send` are non-empty (an empty tag value is rejected by the peer as malformed) -/
def EvOKL : LEv → Prop
  | .send _ p => p ≠ ""
  | _ => True

/-- **one link event** keeps the invariant, as long as the sequence numbers stay within Go's `int` -/
theorem LInv_lstep {cfgA cfgB : Cfg} (hcf : CfgsOK cfgA cfgB) {l : LSt} (h : LInv cfgA cfgB l) (e : LEv) (hev : EvOKL e)
    (hb0 : Bnd l) (hb1 : Bnd (lstep l e).1) : LInv cfgA cfgB (lstep l e).1 := by
  cases e with
  | connect =>
    have h1 := LInv_onSide_A hcf h hb0.2 .connect trivial
    have e1 : (lstep l .connect).1 = (onSide (onSide l .A .connect).1 .B .connect).1 := rfl
    rw [e1] at hb1 ⊢
    exact LInv_onSide_B hcf h1 hb1.1 .connect trivial
  | send side p =>
    cases side with
    | A => exact LInv_send_A hcf h p hev
    | B => exact LInv_send_B hcf h p hev
  | deliver to =>
    cases to with
    | A =>
      cases hq : l.b2a with
      | nil => simp only [lstep, hq]; exact h
      | cons m rest =>
        simp only [lstep, hq]
        have hba := h.ba
        rw [hq] at hba
        obtain ⟨k1, k2⟩ := half_note hba
        have h1 : LInv cfgA cfgB { l with b2a := rest, rcvA := noteRcv l.rcvA (toIn l.b.cfg m) } :=
          ⟨h.ca, h.cb, ⟨h.ab.sok, h.ab.q, h.ab.fl, h.ab.t1, h.ab.t2, h.ab.dlv, h.ab.sent, h.ab.pool⟩, k1⟩
        exact LInv_onSide_A hcf h1 hb0.2 _ k2
    | B =>
      cases hq : l.a2b with
      | nil => simp only [lstep, hq]; exact h
      | cons m rest =>
        simp only [lstep, hq]
        have hab := h.ab
        rw [hq] at hab
        obtain ⟨k1, k2⟩ := half_note hab
        have h1 : LInv cfgA cfgB { l with a2b := rest, rcvB := noteRcv l.rcvB (toIn l.a.cfg m) } :=
          ⟨h.ca, h.cb, k1, ⟨h.ba.sok, h.ba.q, h.ba.fl, h.ba.t1, h.ba.t2, h.ba.dlv, h.ba.sent, h.ba.pool⟩⟩
        exact LInv_onSide_B hcf h1 hb0.1 _ k2
  | cut =>
    have h0 := LInv_cutLinks h
    have h1 := LInv_onSide_A hcf h0 hb0.2 .disconnected trivial
    have e1 : (lstep l .cut).1 = { (onSide (onSide { l with a2b := [], b2a := [] } .A .disconnected).1 .B .disconnected).1 with a2b := [], b2a := [] } := rfl
    rw [e1] at hb1 ⊢
    exact LInv_cutLinks (LInv_onSide_B hcf h1 hb1.1 .disconnected trivial)
  | restart side =>
    cases side with
    | A => exact ⟨h.ca, h.cb, half_restart_sender h.ab, half_restart_receiver h.ba⟩
    | B => exact ⟨h.ca, h.cb, half_restart_receiver h.ab, half_restart_sender h.ba⟩
  | timer side ev =>
    cases side with
    | A => exact LInv_onSide_A hcf h hb0.2 (.timeout ev) trivial
    | B => exact LInv_onSide_B hcf h hb0.1 (.timeout ev) trivial
  | flush side =>
    cases side with
    | A => exact LInv_onSide_A hcf h hb0.2 .flush trivial
    | B => exact LInv_onSide_B hcf h hb0.1 .flush trivial

/-! ### whole histories -/

def runL (l : LSt) : List LEv → LSt
  | [] => l
  | e :: es => runL (lstep l e).1 es

/-- along the whole history both engines' next outbound numbers stay within Go's `int` -/
def AllBnd (l : LSt) : List LEv → Prop
  | [] => Bnd l
  | e :: es => Bnd l ∧ AllBnd (lstep l e).1 es

theorem AllBnd.head {l : LSt} {evs : List LEv} (h : AllBnd l evs) : Bnd l := by
  cases evs with
  | nil => exact h
  | cons e es => exact h.1

theorem LInv_run {cfgA cfgB : Cfg} (hcf : CfgsOK cfgA cfgB) (evs : List LEv) : ∀ l : LSt, LInv cfgA cfgB l → (∀ e ∈ evs, EvOKL e) →
    AllBnd l evs → LInv cfgA cfgB (runL l evs) := by
  induction evs with
  | nil => intro l h _ _; exact h
  | cons e es ih =>
    intro l h hev hb
    exact ih _ (LInv_lstep hcf h e (hev e List.mem_cons_self) hb.1 hb.2.head) (fun e' he' => hev e' (List.mem_cons_of_mem _ he')) hb.2

theorem storeOK_init : StoreOK ({ sender := 1, target := 1 } : Store) :=
  ⟨Int.le_refl _, List.Pairwise.nil, by intro p hp; cases hp⟩

theorem LInv_init (cfgA cfgB : Cfg) : LInv cfgA cfgB (linkInit cfgA cfgB) := by
  have hh : ∀ (x y : Cfg), Half (initSess x 1 1) (initSess y 1 1) [] [] [] [] :=
    fun x y => ⟨storeOK_init, (by intro m hm; cases hm), (by intro m hm; cases hm), Int.le_refl _, Int.le_refl _, rfl, rfl,
      ⟨(by intro m hm; cases hm), (by intro p hp; cases hp)⟩⟩
  exact ⟨rfl, rfl, hh cfgA cfgB, hh cfgB cfgA⟩

/-- the invariant gives the monitor's safety clause -/
theorem safe_of_LInv {cfgA cfgB : Cfg} {l : LSt} (h : LInv cfgA cfgB l) : safe l.sentA l.sentB l.dlvA l.dlvB = true := by
  unfold safe
  rw [h.ab.dlv, h.ab.sent, h.ba.dlv, h.ba.sent, isPrefix_below _ _ h.ab.sok.desc, isPrefix_below _ _ h.ba.sok.desc]
  rfl

end Qfx.Link
