/-
  C05 liveness, part p: resynchronisation after a reconnect, no chunking.  `phase1`: connect, both Logons, one flush per
  side; `phase2`: the ResendRequests are answered and the replays worked off; every case of gaps on neither / either /
  both sides ends `Settled`.
-/
import Qfx.Lemmas.LinkC05o
namespace Qfx.Link
open Qfx Qfx.Sess

/-- the configurations of the liveness theorems: as for safety, plus the roles, no ResendRequest chunking, and a
    DefaultApplVerID when the transport is FIXT.1.1 (a Logon without it is refused) -/
structure LiveCfg (cfgA cfgB : Cfg) : Prop where
  ok : CfgsOK cfgA cfgB
  ia : cfgA.initiator = true
  ib : cfgB.initiator = false
  cha : cfgA.chunk = 0
  chb : cfgB.chunk = 0
  va : cfgA.bs = 5 → cfgA.applVer ≠ ""
  vb : cfgA.bs = 5 → cfgB.applVer ≠ ""

/-- both engines disconnected, nothing in flight, three numbers of head-room below Go's largest `int` -/
structure Down (cfgA cfgB : Cfg) (l : LSt) : Prop where
  inv : LInv cfgA cfgB l
  full : LFull l
  sa : l.a.st = .latent
  sb : l.b.st = .latent
  ea : l.a2b = []
  eb : l.b2a = []
  ba : l.a.store.sender + 3 ≤ maxSeq
  bb : l.b.store.sender + 3 ≤ maxSeq

/-- after the Logon exchange and one flush on each side: each engine is in session (no gap) or in the resend state with
    its ResendRequest on the wire -/
structure Mid (cfgA cfgB : Cfg) (l : LSt) (nA nB tA tB : Int) : Prop where
  inv : LInv cfgA cfgB l
  full : LFull l
  oa : l.a.out = true
  ob : l.b.out = true
  qa : l.a.toSend = []
  qb : l.b.toSend = []
  rA : 1 ≤ tA ∧ tA ≤ nB
  rB : 1 ≤ tB ∧ tB ≤ nA
  bA : nA + 3 ≤ maxSeq
  bB : nB + 3 ≤ maxSeq
  a0 : tA = nB → l.a.st = .inSession ∧ l.a.store.target = nB + 1 ∧ l.a.store.sender = nA + 1 ∧ l.a2b = []
  a1 : tA < nB → l.a.st = .resend [] 0 (nB - 1) ∧ l.a.store.target = tA ∧ l.a.store.sender = nA + 2 ∧
        ∃ rr, IsRR cfgA tA rr ∧ rr.seq = nA + 1 ∧ l.a2b = [rr]
  b0 : tB = nA → l.b.st = .inSession ∧ l.b.store.target = nA + 1 ∧ l.b.store.sender = nB + 1 ∧ l.b2a = []
  b1 : tB < nA → l.b.st = .resend [] 0 (nA - 1) ∧ l.b.store.target = tB ∧ l.b.store.sender = nB + 2 ∧
        ∃ rr, IsRR cfgB tB rr ∧ rr.seq = nB + 1 ∧ l.b2a = [rr]

theorem persist_of {cfgA cfgB : Cfg} (hcf : CfgsOK cfgA cfgB) {l : LSt} (h : LInv cfgA cfgB l) :
    l.a.cfg.persist = true ∧ l.b.cfg.persist = true := ⟨by rw [h.ca]; exact hcf.pa, by rw [h.cb]; exact hcf.pb⟩

theorem runL_one (l : LSt) (e : LEv) : runL l [e] = (lstep l e).1 := rfl
theorem runL_cons (l : LSt) (e : LEv) (es : List LEv) : runL l (e :: es) = runL (lstep l e).1 es := rfl

/-- connect, both Logons delivered, both queues flushed -/
theorem phase1 {cfgA cfgB : Cfg} (hl : LiveCfg cfgA cfgB) {l : LSt} (hd : Down cfgA cfgB l) :
    let l5 := runL l [.connect, .deliver .B, .deliver .A, .flush .A, .flush .B]
    Mid cfgA cfgB l5 l.a.store.sender l.b.store.sender l.a.store.target l.b.store.target ∧ l5.sentA = l.sentA ∧ l5.sentB = l.sentB := by
  intro l5
  have hcf := hl.ok
  have hb0 : Bnd l := ⟨by have := hd.ba; omega, by have := hd.bb; omega⟩
  have htB : l.b.store.target ≤ l.a.store.sender := hd.inv.ab.t2
  have htA : l.a.store.target ≤ l.b.store.sender := hd.inv.ba.t2
  have htB1 := hd.inv.ab.t1
  have htA1 := hd.inv.ba.t1
  -- connect
  obtain ⟨mA, hA1, hA2, i1, c1, c2, c3, c4, c5, c6, c7, c8, c9, c10, c11, c12, c13, c14, _, _⟩ :=
    connect_gen hcf hl.ia hl.ib hd.inv hd.sa hd.sb hb0 (by have := hd.ba; omega)
  generalize hl1 : (lstep l .connect).1 = l1 at i1 c1 c2 c3 c4 c5 c6 c7 c8 c9 c10 c11 c12 c13 c14
  have p0 := persist_of hcf hd.inv
  have f1 : LFull l1 := by rw [← hl1]; exact LFull_lstep p0.1 p0.2 hd.full .connect
  have hb1 : Bnd l1 := ⟨by rw [c5]; have := hd.ba; omega, by rw [c10]; have := hd.bb; omega⟩
  rw [hd.ea] at c1; rw [hd.eb] at c2
  -- A's Logon reaches B
  obtain ⟨n0, W, q0, hrole, i2, d1, d2, d3, d4, d5, d6, _, dcase⟩ :=
    logonB hcf hl.chb (by intro h5; exact hl.va (by rw [hcf.bs]; exact h5)) i1 (by simpa using c1) hA1 c8 c12
      (by rw [c9, hA2]; exact htB) hb1 (by rw [c10]; have := hd.bb; omega)
  generalize hl2 : (lstep l1 (.deliver .B)).1 = l2 at i2 d1 d2 d3 d4 d5 d6 dcase
  have hroleB : n0 = 1 ∧ q0 = [] ∧ ∃ mB, IsLogon cfgB mB ∧ mB.seq = l.b.store.sender ∧ W = [mB] := by
    rcases hrole with ⟨hi, _⟩ | ⟨_, h1, h2, mB, h3, h4, h5⟩
    · rw [i1.cb, hl.ib] at hi; cases hi
    · exact ⟨h1, h2, mB, by rw [← i1.cb]; exact h3, by rw [h4, c10], h5⟩
  obtain ⟨hn0, hq0, mB, hB1, hB2, hW⟩ := hroleB
  subst hn0 hq0 hW
  have p1 := persist_of hcf i1
  have f2 : LFull l2 := by rw [← hl2]; exact LFull_lstep p1.1 p1.2 f1 (.deliver .B)
  rw [c2] at d3
  have hb2 : Bnd l2 := by
    refine ⟨by rw [d1]; exact hb1.1, ?_⟩
    rcases dcase with ⟨_, _, _, h4, _⟩ | ⟨_, _, _, h4, _⟩ <;> (rw [h4, c10]; have := hd.bb; omega)
  -- B's Logon reaches A
  obtain ⟨n0', W', q0', hrole', i3, e1, e2, e3, e4, e5, e6, _, ecase⟩ :=
    logonA hcf hl.cha hl.vb i2 (by simpa using d3) hB1 (by rw [d1]; exact c3) (by rw [d1]; exact c7)
      (by rw [d1, c4, hB2]; exact htA) hb2 (by rw [d1, c5]; have := hd.ba; omega)
  generalize hl3 : (lstep l2 (.deliver .A)).1 = l3 at i3 e1 e2 e3 e4 e5 e6 ecase
  have hroleA : n0' = 0 ∧ W' = [] ∧ q0' = [] := by
    rcases hrole' with ⟨_, h1, h2, h3⟩ | ⟨hi, _⟩
    · exact ⟨h1, h2, by rw [h3, d1]; exact c6⟩
    · rw [i2.ca, hl.ia] at hi; cases hi
  obtain ⟨hn0', hW', hq0'⟩ := hroleA
  subst hn0' hW' hq0'
  have p2 := persist_of hcf i2
  have f3 : LFull l3 := by rw [← hl3]; exact LFull_lstep p2.1 p2.2 f2 (.deliver .A)
  rw [d2] at e3
  simp only [List.append_nil] at e3
  have hb3 : Bnd l3 := by
    refine ⟨?_, by rw [e1]; exact hb2.2⟩
    rcases ecase with ⟨_, _, _, h4, _⟩ | ⟨_, _, _, h4, _⟩ <;> (rw [h4, d1, c5]; have := hd.ba; omega)
  have hla3 : l3.a.st.loggedOn = true := by
    rcases ecase with ⟨_, h2, _⟩ | ⟨_, h2, _⟩ <;> (rw [h2]; rfl)
  -- flush A
  obtain ⟨i4, g1, g2, g3, g4, g5, g6, g7, g8, g9, g10, _⟩ := flushA_gen hcf i3 hla3 e4 hb3
  generalize hl4 : (lstep l3 (.flush .A)).1 = l4 at i4 g1 g2 g3 g4 g5 g6 g7 g8 g9 g10
  have p3 := persist_of hcf i3
  have f4 : LFull l4 := by rw [← hl4]; exact LFull_lstep p3.1 p3.2 f3 (.flush .A)
  have hb4 : Bnd l4 := ⟨by rw [g6]; exact hb3.1, by rw [g1]; exact hb3.2⟩
  have hlb4 : l4.b.st.loggedOn = true := by
    rw [g1, e1]
    rcases dcase with ⟨_, h2, _⟩ | ⟨_, h2, _⟩ <;> (rw [h2]; rfl)
  -- flush B
  obtain ⟨i5, k1, k2, k3, k4, k5, k6, k7, k8, k9, k10, _⟩ := flushB_gen hcf i4 hlb4 (by rw [g1, e1]; exact d4) hb4
  generalize hl5' : (lstep l4 (.flush .B)).1 = l5' at i5 k1 k2 k3 k4 k5 k6 k7 k8 k9 k10
  have p4 := persist_of hcf i4
  have f5 : LFull l5' := by rw [← hl5']; exact LFull_lstep p4.1 p4.2 f4 (.flush .B)
  have h5eq : l5 = l5' := by
    show runL l _ = _
    simp only [runL_cons, hl1, hl2, hl3, hl4, hl5']
    rfl
  rw [h5eq]
  refine ⟨⟨i5, f5, by rw [k1]; exact g8, k8, by rw [k1]; exact g7, k7, ⟨htA1, htA⟩, ⟨htB1, htB⟩, hd.ba, hd.bb, ?_, ?_, ?_, ?_⟩,
    by rw [k9, g9, e5, d5, c13], by rw [k10, g10, e6, d6, c14]⟩
  · intro heq
    rcases ecase with ⟨_, h2, h3, h4, h5⟩ | ⟨hlt, _⟩
    · refine ⟨by rw [k1, g4]; exact h2, by rw [k1, g5, h3, d1, c4, heq], by rw [k1, g6, h4, d1, c5]; omega, ?_⟩
      rw [k2, g3, e3, h5]; rfl
    · rw [d1, c4, hB2] at hlt; omega
  · intro hlt
    rcases ecase with ⟨heq, _⟩ | ⟨_, h2, h3, h4, rr, h5, h6, h7⟩
    · rw [d1, c4, hB2] at heq; omega
    · refine ⟨by rw [k1, g4, h2, hB2], by rw [k1, g5, h3, d1, c4], by rw [k1, g6, h4, d1, c5]; omega, rr, ?_, ?_, ?_⟩
      · rw [d1, c4] at h5; exact h5
      · rw [h6, d1, c5]; omega
      · rw [k2, g3, e3, h7]; rfl
  · intro heq
    rcases dcase with ⟨_, h2, h3, h4, h5⟩ | ⟨hlt, _⟩
    · refine ⟨by rw [k4, g1, e1]; exact h2, by rw [k5, g1, e1, h3, c9, heq], by rw [k6, g1, e1, h4, c10], ?_⟩
      rw [k3, g2, e2, g1, e1, h5]; rfl
    · rw [c9, hA2] at hlt; omega
  · intro hlt
    rcases dcase with ⟨heq, _⟩ | ⟨_, h2, h3, h4, rr, h5, h6, h7⟩
    · rw [c9, hA2] at heq; omega
    · refine ⟨by rw [k4, g1, e1, h2, hA2], by rw [k5, g1, e1, h3, c9], by rw [k6, g1, e1, h4, c10]; omega, rr, ?_, ?_, ?_⟩
      · rw [c9] at h5; exact h5
      · rw [h6, c10]
      · rw [k3, g2, e2, g1, e1, h7]; rfl

theorem stAt_resend_fix (fin t : Int) (h : t ≤ fin) : stAt (.resend [] 0 fin) t = .resend [] 0 fin := by
  simp [stAt, h]

theorem stAt_resend_done (fin t : Int) (h : fin < t) : stAt (.resend [] 0 fin) t = .inSession := by
  have : ¬ fin ≥ t := by omega
  simp [stAt, this]

def IsDeliver (e : LEv) : Prop := ∃ side, e = .deliver side

theorem isDeliver_replicate (n : Nat) (side : Side) : ∀ e ∈ List.replicate n (LEv.deliver side), IsDeliver e := by
  intro e he; exact ⟨side, (List.mem_replicate.1 he).2⟩

/-- what "settled" means: everything submitted has been delivered in both directions, nothing is in flight, both
    engines are in session -/
structure Settled (cfgA cfgB : Cfg) (l : LSt) : Prop where
  inv : LInv cfgA cfgB l
  db : l.dlvB = l.sentA
  da : l.dlvA = l.sentB
  ea : l.a2b = []
  eb : l.b2a = []
  sa : l.a.st = .inSession
  sb : l.b.st = .inSession

/-- the replays: each ResendRequest is answered, each replay is worked off -/
theorem phase2 {cfgA cfgB : Cfg} (hl : LiveCfg cfgA cfgB) {l : LSt} {nA nB tA tB : Int} (hm : Mid cfgA cfgB l nA nB tA tB) :
    ∃ sched, (∀ e ∈ sched, IsDeliver e) ∧ Settled cfgA cfgB (runL l sched) ∧
      (runL l sched).sentA = l.sentA ∧ (runL l sched).sentB = l.sentB := by
  have hcf := hl.ok
  by_cases hA : tA = nB <;> by_cases hB : tB = nA
  · -- no gap on either side
    obtain ⟨a1, a2, a3, a4⟩ := hm.a0 hA
    obtain ⟨b1, b2, b3, b4⟩ := hm.b0 hB
    refine ⟨[], (by intro e he; cases he), ⟨hm.inv, delivered_all_B hm.inv (show l.b.store.target = l.a.store.sender by rw [b2, a3]), delivered_all_A hm.inv (show l.a.store.target = l.b.store.sender by rw [a2, b3]), a4, b4, a1, b1⟩, rfl, rfl⟩
  · -- B has a gap: its ResendRequest reaches A (in session), A replays, B works the replay off
    have hBlt : tB < nA := by have := hm.rB.2; omega
    obtain ⟨a1, a2, a3, a4⟩ := hm.a0 hA
    obtain ⟨b1, b2, b3, rr, r1, r2, b4⟩ := hm.b1 hBlt
    have hbnd : Bnd l := ⟨by rw [a3]; have := hm.bA; omega, by rw [b3]; have := hm.bB; omega⟩
    obtain ⟨plan, s0, i1, c1, c2, c3, c4, c5, c6, c7, c8, c9, c10, _⟩ :=
      rrA hcf hm.inv hm.full b4 tB r1 hm.rB.1 (by rw [a3]; omega) (by rw [a1]; exact Or.inl rfl) hm.oa (by rw [a2, r2]; omega) hbnd
    generalize hl1 : (lstep l (.deliver .A)).1 = l1 at s0 i1 c1 c2 c3 c4 c5 c6 c7 c8 c9 c10
    rw [a4, hm.qa] at c3
    simp only [List.nil_append] at c3
    have ht1 : l1.a.store.target = nB + 2 := by rw [c5, a2, r2, if_pos rfl]; omega
    have hb1 : Bnd l1 := ⟨by rw [c6]; exact hbnd.1, by rw [c1]; exact hbnd.2⟩
    rw [a3] at s0
    obtain ⟨j1, j2, j3, j4, j5, j6, j7, j8, j9, j10, j11, _⟩ :=
      chain_B hcf s0 l1 [] i1 rfl (by rw [c3]; simp) (by rw [c1, b1]; exact Or.inr ⟨_, rfl⟩)
        (by rw [c1, b1]; exact stAt_resend_fix _ _ (by omega)) (by rw [c1]; exact b2) (by rw [c1]; exact hm.ob) hb1
    refine ⟨.deliver .A :: List.replicate plan.length (.deliver .B), ?_, ?_, ?_, ?_⟩
    · intro e he
      rcases List.mem_cons.1 he with rfl | he
      · exact ⟨.A, rfl⟩
      · exact isDeliver_replicate _ _ e he
    · rw [runL_cons, hl1]
      refine ⟨j1, delivered_all_B j1 (by rw [j6, j2, c6, a3]), delivered_all_A j1 (by rw [j2, ht1, j7, c1, b3]), j3, by rw [j4, c2], ?_, ?_⟩
      · rw [j2, c4, a1]; rfl
      · rw [j5, c1, b1]; exact stAt_resend_done _ _ (by omega)
    · rw [runL_cons, hl1, j10, c9]
    · rw [runL_cons, hl1, j11, c10]
  · -- A has a gap: symmetric
    have hAlt : tA < nB := by have := hm.rA.2; omega
    obtain ⟨b1, b2, b3, b4⟩ := hm.b0 hB
    obtain ⟨a1, a2, a3, rr, r1, r2, a4⟩ := hm.a1 hAlt
    have hbnd : Bnd l := ⟨by rw [a3]; have := hm.bA; omega, by rw [b3]; have := hm.bB; omega⟩
    obtain ⟨plan, s0, i1, c1, c2, c3, c4, c5, c6, c7, c8, c9, c10, _⟩ :=
      rrB hcf hm.inv hm.full a4 tA r1 hm.rA.1 (by rw [b3]; omega) (by rw [b1]; exact Or.inl rfl) hm.ob (by rw [b2, r2]; omega) hbnd
    generalize hl1 : (lstep l (.deliver .B)).1 = l1 at s0 i1 c1 c2 c3 c4 c5 c6 c7 c8 c9 c10
    rw [b4, hm.qb] at c3
    simp only [List.nil_append] at c3
    have ht1 : l1.b.store.target = nA + 2 := by rw [c5, b2, r2, if_pos rfl]; omega
    have hb1 : Bnd l1 := ⟨by rw [c1]; exact hbnd.1, by rw [c6]; exact hbnd.2⟩
    rw [b3] at s0
    obtain ⟨j1, j2, j3, j4, j5, j6, j7, j8, j9, j10, j11, _⟩ :=
      chain_A hcf s0 l1 [] i1 rfl (by rw [c3]; simp) (by rw [c1, a1]; exact Or.inr ⟨_, rfl⟩)
        (by rw [c1, a1]; exact stAt_resend_fix _ _ (by omega)) (by rw [c1]; exact a2) (by rw [c1]; exact hm.oa) hb1
    refine ⟨.deliver .B :: List.replicate plan.length (.deliver .A), ?_, ?_, ?_, ?_⟩
    · intro e he
      rcases List.mem_cons.1 he with rfl | he
      · exact ⟨.B, rfl⟩
      · exact isDeliver_replicate _ _ e he
    · rw [runL_cons, hl1]
      refine ⟨j1, delivered_all_B j1 (by rw [j2, ht1, j7, c1, a3]), delivered_all_A j1 (by rw [j6, j2, c6, b3]), by rw [j4, c2], j3, ?_, ?_⟩
      · rw [j5, c1, a1]; exact stAt_resend_done _ _ (by omega)
      · rw [j2, c4, b1]; rfl
    · rw [runL_cons, hl1, j10, c9]
    · rw [runL_cons, hl1, j11, c10]
  · -- gaps on both sides: both requests are answered first, then both replays are worked off
    have hAlt : tA < nB := by have := hm.rA.2; omega
    have hBlt : tB < nA := by have := hm.rB.2; omega
    obtain ⟨a1, a2, a3, rrA', ra1, ra2, a4⟩ := hm.a1 hAlt
    obtain ⟨b1, b2, b3, rrB', rb1, rb2, b4⟩ := hm.b1 hBlt
    have hbnd : Bnd l := ⟨by rw [a3]; have := hm.bA; omega, by rw [b3]; have := hm.bB; omega⟩
    -- A's request reaches B (still in the resend state): B replays
    obtain ⟨planB, sB, i1, c1, c2, c3, c4, c5, c6, c7, c8, c9, c10, _⟩ :=
      rrB hcf hm.inv hm.full a4 tA ra1 hm.rA.1 (by rw [b3]; omega) (by rw [b1]; exact Or.inr ⟨_, rfl⟩) hm.ob (by rw [b2, ra2]; omega) hbnd
    generalize hl1 : (lstep l (.deliver .B)).1 = l1 at sB i1 c1 c2 c3 c4 c5 c6 c7 c8 c9 c10
    have hne1 : ¬ rrA'.seq = l.b.store.target := by rw [ra2, b2]; omega
    simp only [hne1, if_false] at c4 c5
    rw [b4, hm.qb] at c3
    simp only [List.nil_append, List.singleton_append] at c3
    have hb1 : Bnd l1 := ⟨by rw [c1]; exact hbnd.1, by rw [c6]; exact hbnd.2⟩
    have p0 := persist_of hcf hm.inv
    have f1 : LFull l1 := by rw [← hl1]; exact LFull_lstep p0.1 p0.2 hm.full (.deliver .B)
    -- B's request reaches A (still in the resend state): A replays
    obtain ⟨planA, sA, i2, d1, d2, d3, d4, d5, d6, d7, d8, d9, d10, _⟩ :=
      rrA hcf i1 f1 c3 tB rb1 hm.rB.1 (by rw [c1, a3]; omega) (by rw [c1, a1]; exact Or.inr ⟨_, rfl⟩) (by rw [c1]; exact hm.oa)
        (by rw [c1, a2, rb2]; omega) hb1
    generalize hl2 : (lstep l1 (.deliver .A)).1 = l2 at sA i2 d1 d2 d3 d4 d5 d6 d7 d8 d9 d10
    have hne2 : ¬ rrB'.seq = l1.a.store.target := by rw [rb2, c1, a2]; omega
    simp only [hne2, if_false] at d4 d5
    rw [c2, c1, hm.qa] at d3
    simp only [List.nil_append] at d3
    have hb2 : Bnd l2 := ⟨by rw [d6]; exact hb1.1, by rw [d1]; exact hb1.2⟩
    rw [c1, a3] at sA
    rw [b3] at sB
    -- B works A's replay off
    obtain ⟨j1, j2, j3, j4, j5, j6, j7, j8, j9, j10, j11, j12⟩ :=
      chain_B hcf sA l2 [] i2 rfl (by rw [d3]; simp) (by rw [d1, c4, b1, b2]; rw [stAt_resend_fix _ _ (by omega)]; exact Or.inr ⟨_, rfl⟩)
        (by rw [d1, c4, b1, b2, stAt_resend_fix _ _ (by omega)]; exact stAt_resend_fix _ _ (by omega))
        (by rw [d1, c5, b2]) (by rw [d1]; exact c8) hb2
    generalize hl3 : runL l2 (List.replicate planA.length (.deliver .B)) = l3 at j1 j2 j3 j4 j5 j6 j7 j8 j9 j10 j11 j12
    have hb3 : Bnd l3 := ⟨by rw [j2]; exact hb2.1, by rw [j7]; exact hb2.2⟩
    -- A works B's replay off
    have sB3 : Seg l3.b.store tA planB (nB + 2) := by
      have : Seg l2.b.store tA planB (nB + 2) := by rw [d1]; exact sB
      exact this.mono j12
    obtain ⟨k1, k2, k3, k4, k5, k6, k7, k8, k9, k10, k11, _⟩ :=
      chain_A hcf sB3 l3 [] j1 rfl (by rw [j4, d2]; simp) (by rw [j2, d4, c1, a1, a2]; rw [stAt_resend_fix _ _ (by omega)]; exact Or.inr ⟨_, rfl⟩)
        (by rw [j2, d4, c1, a1, a2, stAt_resend_fix _ _ (by omega)]; exact stAt_resend_fix _ _ (by omega))
        (by rw [j2, d5, c1, a2]) (by rw [j2]; exact d8) hb3
    have hrun : runL l (.deliver .B :: .deliver .A :: (List.replicate planA.length (.deliver .B) ++ List.replicate planB.length (.deliver .A))) =
        runL l3 (List.replicate planB.length (.deliver .A)) := by
      rw [runL_cons, hl1, runL_cons, hl2, runL_append, hl3]
    have hstB : l1.b.st = .resend [] 0 (nA - 1) := by rw [c4, b1, b2]; exact stAt_resend_fix _ _ (by omega)
    have hstA : l2.a.st = .resend [] 0 (nB - 1) := by rw [d4, c1, a1, a2]; exact stAt_resend_fix _ _ (by omega)
    refine ⟨.deliver .B :: .deliver .A :: (List.replicate planA.length (.deliver .B) ++ List.replicate planB.length (.deliver .A)), ?_, ?_, ?_, ?_⟩
    · intro e he
      rcases List.mem_cons.1 he with rfl | he
      · exact ⟨.B, rfl⟩
      · rcases List.mem_cons.1 he with rfl | he
        · exact ⟨.A, rfl⟩
        · rcases List.mem_append.1 he with he | he
          · exact isDeliver_replicate _ _ e he
          · exact isDeliver_replicate _ _ e he
    · rw [hrun]
      refine ⟨k1, delivered_all_B k1 ?_, delivered_all_A k1 ?_, by rw [k4, j3], k3, ?_, ?_⟩
      · rw [k2, j6, k7, j2, d6, c1, a3]
      · rw [k6, k2, j7, d1, c6, b3]
      · rw [k5, j2, hstA]; exact stAt_resend_done _ _ (by omega)
      · rw [k2, j5, d1, hstB]; exact stAt_resend_done _ _ (by omega)
    · rw [hrun, k10, j10, d9, c9]
    · rw [hrun, k11, j11, d10, c10]

end Qfx.Link
