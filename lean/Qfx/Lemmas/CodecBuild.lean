/- C10: structure of the bytes of a built message (8, 9, 35 first; 10 last; BodyLength and CheckSum correct) -/
import Qfx.Lemmas.Codec
namespace Qfx

def nonSpecial (t : Tag) : Bool := !(t == 8 || t == 9 || t == 35)

theorem nonSpecial_iff (t : Int) : nonSpecial t = true ↔ t ≠ 8 ∧ t ≠ 9 ∧ t ≠ 35 := by
  simp [nonSpecial, and_assoc]

theorem rank8 : headerRank 8 = 1 := by simp [headerRank]
theorem rank9 : headerRank 9 = 2 := by simp [headerRank]
theorem rank35 : headerRank 35 = 3 := by simp [headerRank]

theorem hle8 (x : Int) : OrdKind.header.le 8 x = true := by
  rcases headerRank_cases x with ⟨e, hx⟩ | ⟨e, hx⟩ | ⟨e, hx⟩ | ⟨a, b, c, hx⟩ <;>
    simp only [OrdKind.le, OrdKind.less, hx, rank8] <;> simp <;> (first | omega | simp_all)

theorem hle9 (x : Int) (h : x ≠ 8) : OrdKind.header.le 9 x = true := by
  rcases headerRank_cases x with ⟨e, hx⟩ | ⟨e, hx⟩ | ⟨e, hx⟩ | ⟨a, b, c, hx⟩ <;>
    simp only [OrdKind.le, OrdKind.less, hx, rank9] <;> simp <;> (first | omega | simp_all)

theorem hle35 (x : Int) (h : x ≠ 8) (h' : x ≠ 9) : OrdKind.header.le 35 x = true := by
  rcases headerRank_cases x with ⟨e, hx⟩ | ⟨e, hx⟩ | ⟨e, hx⟩ | ⟨a, b, c, hx⟩ <;>
    simp only [OrdKind.le, OrdKind.less, hx, rank35] <;> simp <;> (first | omega | simp_all)

theorem hle_ns (a b : Int) (ha : nonSpecial a = true) (hb : nonSpecial b = true) :
    OrdKind.header.le a b = OrdKind.normal.le a b := by
  rw [nonSpecial_iff] at ha hb
  have ra : headerRank a = 4294967295 := by simp [headerRank, ha.1, ha.2.1, ha.2.2]
  have rb : headerRank b = 4294967295 := by simp [headerRank, hb.1, hb.2.1, hb.2.2]
  simp [OrdKind.le, OrdKind.less, ra, rb]

theorem header_sorted_decomp (ks : List Tag) (hn : ks.Nodup) (h8 : (8 : Int) ∈ ks) (h9 : (9 : Int) ∈ ks) (h35 : (35 : Int) ∈ ks) :
    sortTags .header ks = 8 :: 9 :: 35 :: sortTags .normal (ks.filter nonSpecial) := by
  have hrest : (sortTags .normal (ks.filter nonSpecial)).Perm (ks.filter nonSpecial) := sortTags_perm _ _
  have hmem : ∀ x, x ∈ sortTags .normal (ks.filter nonSpecial) ↔ (x ∈ ks ∧ nonSpecial x = true) := by
    intro x; rw [hrest.mem_iff, List.mem_filter]
  apply List.Perm.eq_of_pairwise (le := fun a b => OrdKind.header.le a b = true)
  · intro a b _ _ h1 h2; exact le_antisymm .header rfl a b h1 h2
  · exact sortTags_sorted .header rfl ks
  · rw [List.pairwise_cons, List.pairwise_cons, List.pairwise_cons]
    refine ⟨fun x _ => hle8 x, ⟨?_, ⟨?_, ?_⟩⟩⟩
    · intro x hx
      apply hle9
      rcases List.mem_cons.1 hx with e | hx
      · subst e; decide
      · have := ((hmem x).1 hx).2; rw [nonSpecial_iff] at this; exact this.1
    · intro x hx
      have := ((hmem x).1 hx).2; rw [nonSpecial_iff] at this
      exact hle35 x this.1 this.2.1
    · refine List.Pairwise.imp_of_mem ?_ (sortTags_sorted .normal rfl _)
      intro a b ha hb hab
      rw [hle_ns a b ((hmem a).1 ha).2 ((hmem b).1 hb).2]; exact hab
  · refine (sortTags_perm _ _).trans ?_
    apply (List.perm_ext_iff_of_nodup hn ?_).2
    · intro x
      simp only [List.mem_cons, hmem, nonSpecial_iff]
      constructor
      · intro hx
        by_cases e8 : x = 8
        · exact Or.inl e8
        · by_cases e9 : x = 9
          · exact Or.inr (Or.inl e9)
          · by_cases e35 : x = 35
            · exact Or.inr (Or.inr (Or.inl e35))
            · exact Or.inr (Or.inr (Or.inr ⟨hx, e8, e9, e35⟩))
      · rintro (e | e | e | ⟨hx, _⟩)
        · subst e; exact h8
        · subst e; exact h9
        · subst e; exact h35
        · exact hx
    · have hnr : (sortTags .normal (ks.filter nonSpecial)).Nodup := hrest.nodup_iff.2 (hn.sublist List.filter_sublist)
      have n8 : (8 : Int) ∉ sortTags .normal (ks.filter nonSpecial) := fun h => by
        have := ((hmem 8).1 h).2; simp [nonSpecial] at this
      have n9 : (9 : Int) ∉ sortTags .normal (ks.filter nonSpecial) := fun h => by
        have := ((hmem 9).1 h).2; simp [nonSpecial] at this
      have n35 : (35 : Int) ∉ sortTags .normal (ks.filter nonSpecial) := fun h => by
        have := ((hmem 35).1 h).2; simp [nonSpecial] at this
      simp only [List.nodup_cons, List.mem_cons]
      refine ⟨?_, ?_, n35, hnr⟩
      · rintro (e | e | h) <;> first | (exact absurd e (by decide)) | exact n8 h
      · rintro (e | h) <;> first | (exact absurd e (by decide)) | exact n9 h

theorem trailer_sorted_decomp (ks : List Tag) (hn : ks.Nodup) (h10 : (10 : Int) ∈ ks) :
    sortTags .trailer ks = sortTags .trailer (ks.filter (fun t => t != 10)) ++ [10] := by
  have hrest : (sortTags .trailer (ks.filter (fun t => t != 10))).Perm (ks.filter (fun t => t != 10)) := sortTags_perm _ _
  have hmem : ∀ x, x ∈ sortTags .trailer (ks.filter (fun t => t != 10)) ↔ (x ∈ ks ∧ x ≠ 10) := by
    intro x; rw [hrest.mem_iff, List.mem_filter]; simp
  apply List.Perm.eq_of_pairwise (le := fun a b => OrdKind.trailer.le a b = true)
  · intro a b _ _ h1 h2; exact le_antisymm .trailer rfl a b h1 h2
  · exact sortTags_sorted .trailer rfl ks
  · rw [List.pairwise_append]
    refine ⟨sortTags_sorted .trailer rfl _, List.pairwise_singleton _ _, ?_⟩
    intro a _ b hb
    simp only [List.mem_singleton] at hb; subst hb
    simp [OrdKind.le, OrdKind.less]
  · refine (sortTags_perm _ _).trans ?_
    apply (List.perm_ext_iff_of_nodup hn ?_).2
    · intro x
      simp only [List.mem_append, hmem, List.mem_singleton]
      constructor
      · intro hx
        by_cases e : x = 10
        · exact Or.inr e
        · exact Or.inl ⟨hx, e⟩
      · rintro (⟨hx, _⟩ | e)
        · exact hx
        · subst e; exact h10
    · have hnr := hrest.nodup_iff.2 (hn.sublist List.filter_sublist)
      rw [List.nodup_append]
      refine ⟨hnr, by simp, ?_⟩
      intro a ha b hb
      simp only [List.mem_singleton] at hb; subst hb
      exact ((hmem a).1 ha).2



/-! ## per-field contributions -/

def lenAll (arr : List TagValue) (f : Field) : Nat := ((f.items arr).map tvLen).sum
def lenKeep (arr : List TagValue) (f : Field) : Nat :=
  (((f.items arr).filter (fun tv => tv.tag ≠ 8 ∧ tv.tag ≠ 9 ∧ tv.tag ≠ 10)).map TagValue.length).sum
def sumAll (arr : List TagValue) (f : Field) : Nat := ((f.items arr).map tvSum).sum
def sumKeep (arr : List TagValue) (f : Field) : Nat :=
  (((f.items arr).filter (fun tv => tv.tag ≠ 10)).map TagValue.total).sum

/-- no TagValue of the field carries tag 8, 9 or 10 -/
def cleanField (arr : List TagValue) (f : Field) : Prop := ∀ tv ∈ f.items arr, tv.tag ≠ 8 ∧ tv.tag ≠ 9 ∧ tv.tag ≠ 10

theorem lenKeep_clean {arr f} (h : cleanField arr f) : lenKeep arr f = lenAll arr f := by
  unfold lenKeep lenAll
  have : (f.items arr).filter (fun tv => tv.tag ≠ 8 ∧ tv.tag ≠ 9 ∧ tv.tag ≠ 10) = f.items arr := by
    apply List.filter_eq_self.2
    intro tv htv; simpa using h tv htv
  rw [this]; rfl

theorem sumKeep_clean {arr f} (h : ∀ tv ∈ f.items arr, tv.tag ≠ 10) : sumKeep arr f = sumAll arr f := by
  unfold sumKeep sumAll
  have : (f.items arr).filter (fun tv => tv.tag ≠ 10) = f.items arr := by
    apply List.filter_eq_self.2
    intro tv htv; simpa using h tv htv
  rw [this]; rfl

theorem FieldMap.length_eq (arr : List TagValue) (m : FieldMap) : m.length arr = ((m.lookup.map (·.2)).map (lenKeep arr)).sum := by
  simp [FieldMap.length, lenKeep, List.map_map, Function.comp_def]

theorem FieldMap.total_eq (arr : List TagValue) (m : FieldMap) : m.total arr = ((m.lookup.map (·.2)).map (sumKeep arr)).sum := by
  simp [FieldMap.total, sumKeep, List.map_map, Function.comp_def]

/-- `length` / `total` as sums over the fields in WRITTEN order -/
theorem FieldMap.length_written {m : FieldMap} (h : FMInv m) (arr : List TagValue) :
    m.length arr = ((((sortTags m.ord m.tags).filterMap (alFind m.lookup))).map (lenKeep arr)).sum := by
  rw [FieldMap.length_eq]; exact (((written_fields_perm h).map (lenKeep arr)).sum_nat).symm

theorem FieldMap.total_written {m : FieldMap} (h : FMInv m) (arr : List TagValue) :
    m.total arr = ((((sortTags m.ord m.tags).filterMap (alFind m.lookup))).map (sumKeep arr)).sum := by
  rw [FieldMap.total_eq]; exact (((written_fields_perm h).map (sumKeep arr)).sum_nat).symm

theorem fieldBytes_length' (arr : List TagValue) (f : Field) : (fieldBytes arr f).length = lenAll arr f := fieldBytes_length arr f
theorem fieldBytes_sum' (arr : List TagValue) (f : Field) : (fieldBytes arr f).sum = sumAll arr f := fieldBytes_sum arr f

theorem writeTags_append (arr : List TagValue) (l : List (Tag × Field)) (a b : List Tag) :
    writeTags arr l (a ++ b) = writeTags arr l a ++ writeTags arr l b := by
  induction a with
  | nil => rfl
  | cons t r ih => simp [writeTags, ih, List.append_assoc]

/-- bytes written for a tag list all of whose fields are clean: length and byte sum are the kept contributions -/
theorem writeTags_length_clean (arr : List TagValue) (l : List (Tag × Field)) (ts : List Tag)
    (h : ∀ t ∈ ts, ∀ f, alFind l t = some f → cleanField arr f) :
    (writeTags arr l ts).length = ((ts.filterMap (alFind l)).map (lenKeep arr)).sum := by
  induction ts with
  | nil => rfl
  | cons t r ih =>
    have ihr := ih (fun t' ht' => h t' (by simp [ht']))
    cases hf : alFind l t with
    | none => simp [writeTags, hf, ihr]
    | some f =>
      have hc := h t (by simp) f hf
      simp [writeTags, hf, ihr, List.filterMap_cons, lenKeep_clean hc, fieldBytes_length']

theorem writeTags_sum_clean (arr : List TagValue) (l : List (Tag × Field)) (ts : List Tag)
    (h : ∀ t ∈ ts, ∀ f, alFind l t = some f → ∀ tv ∈ f.items arr, tv.tag ≠ 10) :
    (writeTags arr l ts).sum = ((ts.filterMap (alFind l)).map (sumKeep arr)).sum := by
  induction ts with
  | nil => rfl
  | cons t r ih =>
    have ihr := ih (fun t' ht' => h t' (by simp [ht']))
    cases hf : alFind l t with
    | none => simp [writeTags, hf, ihr]
    | some f =>
      have hc := h t (by simp) f hf
      simp [writeTags, hf, ihr, List.filterMap_cons, sumKeep_clean hc, fieldBytes_sum', List.sum_append]


/-! ## inserting a field that contributes nothing -/

theorem sum_map_alInsert_zero {β} (g : β → Nat) (l : List (Tag × β)) (k : Tag) (v : β)
    (hv : g v = 0) (hold : ∀ o, alFind l k = some o → g o = 0) :
    ((alInsert l k v).map (fun p => g p.2)).sum = (l.map (fun p => g p.2)).sum := by
  induction l with
  | nil => simp [alInsert, hv]
  | cons p r ih =>
    obtain ⟨k', x⟩ := p
    by_cases h : k' = k
    · have hx : g x = 0 := hold x (by simp [alFind, h])
      simp [alInsert, h, hv, hx]
    · have := ih (fun o ho => hold o (by simpa [alFind, h] using ho))
      simp [alInsert, h, this]

/-- `getOrCreate` + `initField` on a section without views -/
def FieldMap.put (m : FieldMap) (t : Tag) (f : Field) : FieldMap :=
  { m with tags := if (alFind m.lookup t).isSome then m.tags else m.tags ++ [t], lookup := alInsert m.lookup t f }

def FieldMap.allOwned (m : FieldMap) : Prop := ∀ k f, alFind m.lookup k = some f → ∃ l, f = .owned l

theorem setTV_owned_form {m : FieldMap} (ho : m.allOwned) {tv : TagValue} {r : SetRes} (h : m.setTV tv = .ok r) :
    r.fm = m.put tv.tag (.owned [tv]) ∧ r.arrWrite = none := by
  unfold FieldMap.setTV at h
  split at h
  · rename_i x y hf; injection h with h; subst h; simp [FieldMap.put, hf]
  · cases h
  · rename_i s n hf; obtain ⟨l, hl⟩ := ho _ _ hf; cases hl
  · rename_i hf; injection h with h; subst h; simp [FieldMap.put, hf]

theorem put_find_self (m : FieldMap) (t : Tag) (f : Field) : alFind (m.put t f).lookup t = some f := alFind_insert_self _ _ _
theorem put_find_other (m : FieldMap) (t t' : Tag) (f : Field) (h : t' ≠ t) : alFind (m.put t f).lookup t' = alFind m.lookup t' :=
  alFind_insert_other _ _ _ _ h
theorem put_ord (m : FieldMap) (t : Tag) (f : Field) : (m.put t f).ord = m.ord := rfl

theorem FMInv.put' {m : FieldMap} (h : FMInv m) (t : Tag) (f : Field) : FMInv (m.put t f) := h.put t f

theorem put_mem_tags {m : FieldMap} (h : FMInv m) (t : Tag) (f : Field) (x : Tag) :
    x ∈ (m.put t f).tags ↔ (x = t ∨ (alFind m.lookup x).isSome = true) := by
  have hi := (h.put' t f)
  rw [hi.same x, mem_alKeys_iff]
  by_cases e : x = t
  · subst e; simp [put_find_self]
  · simp [put_find_other _ _ _ _ e, e]

theorem put_length_special (arr : List TagValue) (m : FieldMap) (t : Tag) (f : Field)
    (hf : lenKeep arr f = 0) (hold : ∀ o, alFind m.lookup t = some o → lenKeep arr o = 0) :
    (m.put t f).length arr = m.length arr := by
  rw [FieldMap.length_eq, FieldMap.length_eq, List.map_map, List.map_map]
  exact sum_map_alInsert_zero (lenKeep arr) m.lookup t f hf hold

theorem put_total_special (arr : List TagValue) (m : FieldMap) (t : Tag) (f : Field)
    (hf : sumKeep arr f = 0) (hold : ∀ o, alFind m.lookup t = some o → sumKeep arr o = 0) :
    (m.put t f).total arr = m.total arr := by
  rw [FieldMap.total_eq, FieldMap.total_eq, List.map_map, List.map_map]
  exact sum_map_alInsert_zero (sumKeep arr) m.lookup t f hf hold


/-! ## sections of a message built through the API -/

def isSpecialTag (t : Tag) : Prop := t = 8 ∨ t = 9 ∨ t = 10

/-- a section without views in which every field starts with a TagValue carrying the key, and TagValues tagged 8 / 9 / 10
    occur only as one-element fields under their own key, 8 and 9 in the header, 10 in the trailer -/
structure SecProper (s : Sec) (fm : FieldMap) : Prop where
  owned : fm.allOwned
  head : ∀ k l, alFind fm.lookup k = some (.owned l) → ∃ tv rest, l = tv :: rest ∧ tv.tag = k
  special : ∀ k l, alFind fm.lookup k = some (.owned l) → ∀ tv ∈ l, isSpecialTag tv.tag →
      l = [tv] ∧ k = tv.tag ∧ (tv.tag = 10 → s = .t) ∧ (tv.tag ≠ 10 → s = .h)

theorem SecProper.put {s : Sec} {fm : FieldMap} (h : SecProper s fm) (tv : TagValue)
    (hs : isSpecialTag tv.tag → (tv.tag = 10 → s = .t) ∧ (tv.tag ≠ 10 → s = .h)) : SecProper s (fm.put tv.tag (.owned [tv])) := by
  refine ⟨?_, ?_, ?_⟩
  · intro k f hf
    by_cases e : k = tv.tag
    · subst e; rw [put_find_self] at hf; injection hf with hf; exact ⟨_, hf.symm⟩
    · rw [put_find_other _ _ _ _ e] at hf; exact h.owned k f hf
  · intro k l hf
    by_cases e : k = tv.tag
    · subst e; rw [put_find_self] at hf; injection hf with hf; injection hf with hf; subst hf; exact ⟨tv, [], rfl, rfl⟩
    · rw [put_find_other _ _ _ _ e] at hf; exact h.head k l hf
  · intro k l hf x hx hsp
    by_cases e : k = tv.tag
    · subst e; rw [put_find_self] at hf; injection hf with hf; injection hf with hf; subst hf
      simp only [List.mem_singleton] at hx; subst hx
      exact ⟨rfl, rfl, (hs hsp).1, (hs hsp).2⟩
    · rw [put_find_other _ _ _ _ e] at hf; exact h.special k l hf x hx hsp

/-- a field under a key that is not 8 / 9 / 10 is clean -/
theorem SecProper.clean {s : Sec} {fm : FieldMap} (h : SecProper s fm) (arr : List TagValue) (k : Tag) (f : Field)
    (hf : alFind fm.lookup k = some f) (hk : ¬ isSpecialTag k) : cleanField arr f := by
  obtain ⟨l, hl⟩ := h.owned k f hf
  subst hl
  intro tv htv
  have htv' : tv ∈ l := htv
  by_cases hsp : isSpecialTag tv.tag
  · have := (h.special k l hf tv htv' hsp).2.1
    exact absurd (this ▸ hsp) hk
  · simp only [isSpecialTag, not_or] at hsp; exact hsp

/-- in the header and the body no TagValue is tagged 10 -/
theorem SecProper.no10 {s : Sec} {fm : FieldMap} (h : SecProper s fm) (hs : s ≠ .t) (arr : List TagValue) (k : Tag) (f : Field)
    (hf : alFind fm.lookup k = some f) : ∀ tv ∈ f.items arr, tv.tag ≠ 10 := by
  obtain ⟨l, hl⟩ := h.owned k f hf
  subst hl
  intro tv htv e
  have htv' : tv ∈ l := htv
  exact hs ((h.special k l hf tv htv' (Or.inr (Or.inr e))).2.2.1 e)

theorem lenKeep_special (arr : List TagValue) (tv : TagValue) (h : isSpecialTag tv.tag) : lenKeep arr (.owned [tv]) = 0 := by
  rcases h with e | e | e <;> simp [lenKeep, Field.items, e]

theorem sumKeep_10 (arr : List TagValue) (tv : TagValue) (h : tv.tag = 10) : sumKeep arr (.owned [tv]) = 0 := by
  simp [sumKeep, Field.items, h]

/-- the old field under a special key contributes nothing to `length` -/
theorem SecProper.old_len {s : Sec} {fm : FieldMap} (h : SecProper s fm) (arr : List TagValue) (k : Tag) (hk : isSpecialTag k)
    (o : Field) (ho : alFind fm.lookup k = some o) : lenKeep arr o = 0 := by
  obtain ⟨l, hl⟩ := h.owned k o ho
  subst hl
  obtain ⟨tv, rest, hl, ht⟩ := h.head k l ho
  subst hl
  have hsp : isSpecialTag tv.tag := ht ▸ hk
  have := (h.special k _ ho tv (by simp) hsp).1
  rw [this]; exact lenKeep_special arr tv hsp

theorem SecProper.old_sum {s : Sec} {fm : FieldMap} (h : SecProper s fm) (arr : List TagValue)
    (o : Field) (ho : alFind fm.lookup 10 = some o) : sumKeep arr o = 0 := by
  obtain ⟨l, hl⟩ := h.owned 10 o ho
  subst hl
  obtain ⟨tv, rest, hl, ht⟩ := h.head 10 l ho
  subst hl
  have hsp : isSpecialTag tv.tag := ht ▸ (Or.inr (Or.inr rfl))
  have := (h.special 10 _ ho tv (by simp) hsp).1
  rw [this]; exact sumKeep_10 arr tv ht


/-- which special keys a section can hold -/
theorem SecProper.key_special {s : Sec} {fm : FieldMap} (h : SecProper s fm) (k : Tag) (f : Field)
    (hf : alFind fm.lookup k = some f) (hk : isSpecialTag k) : (k = 10 → s = .t) ∧ (k ≠ 10 → s = .h) := by
  obtain ⟨l, hl⟩ := h.owned k f hf
  subst hl
  obtain ⟨tv, rest, hl, ht⟩ := h.head k l hf
  subst hl
  have := h.special k _ hf tv (by simp) (ht ▸ hk)
  rw [ht] at this
  exact ⟨this.2.2.1, this.2.2.2⟩

theorem fieldBytes_single (arr : List TagValue) (tv : TagValue) : fieldBytes arr (.owned [tv]) = tv.bytes := by
  simp [fieldBytes, Field.items]

theorem body_written {fm : FieldMap} (hi : FMInv fm) (hp : SecProper .b fm) (arr : List TagValue) :
    (fm.write arr).1.length = fm.length arr ∧ (fm.write arr).1.sum = fm.total arr := by
  have hns : ∀ k f, alFind fm.lookup k = some f → ¬ isSpecialTag k := by
    intro k f hf hk
    have := hp.key_special k f hf hk
    by_cases e : k = 10
    · exact absurd (this.1 e) (by decide)
    · exact absurd (this.2 e) (by decide)
  constructor
  · rw [FieldMap.length_written hi arr]
    exact writeTags_length_clean arr _ _ (fun t _ f hf => hp.clean arr t f hf (hns t f hf))
  · rw [FieldMap.total_written hi arr]
    exact writeTags_sum_clean arr _ _ (fun t _ f hf => hp.no10 (by decide) arr t f hf)

theorem header_written {fm : FieldMap} (hi : FMInv fm) (ho : fm.ord = .header) (hp : SecProper .h fm) (arr : List TagValue)
    (tv8 tv9 : TagValue) (f35 : Field) (h8 : alFind fm.lookup 8 = some (.owned [tv8]))
    (h9 : alFind fm.lookup 9 = some (.owned [tv9])) (h35 : alFind fm.lookup 35 = some f35) :
    ∃ rest, (fm.write arr).1 = tv8.bytes ++ tv9.bytes ++ (fieldBytes arr f35 ++ rest) ∧
      (fieldBytes arr f35 ++ rest).length = fm.length arr ∧ (fm.write arr).1.sum = fm.total arr := by
  have mem : ∀ k f, alFind fm.lookup k = some f → k ∈ fm.tags := by
    intro k f hf; rw [hi.same, mem_alKeys_iff, hf]; rfl
  have hs := header_sorted_decomp fm.tags hi.tagsNodup (mem 8 _ h8) (mem 9 _ h9) (mem 35 _ h35)
  have hperm : (sortTags .normal (fm.tags.filter nonSpecial)).Perm (fm.tags.filter nonSpecial) := sortTags_perm _ _
  have hclean : ∀ t ∈ (35 : Int) :: sortTags .normal (fm.tags.filter nonSpecial), ∀ f, alFind fm.lookup t = some f → cleanField arr f := by
    intro t ht f hf
    apply hp.clean arr t f hf
    intro hk
    have hks := hp.key_special t f hf hk
    rcases List.mem_cons.1 ht with e | ht
    · subst e; rcases hk with e | e | e <;> exact absurd e (by decide)
    · have := (List.mem_filter.1 (hperm.mem_iff.1 ht)).2
      rw [nonSpecial_iff] at this
      rcases hk with e | e | e
      · exact this.1 e
      · exact this.2.1 e
      · exact absurd (hks.1 e) (by decide)
  refine ⟨writeTags arr fm.lookup (sortTags .normal (fm.tags.filter nonSpecial)), ?_, ?_, ?_⟩
  · simp only [FieldMap.write, ho, hs, writeTags, h8, h9, h35, fieldBytes_single, List.append_assoc]
  · rw [FieldMap.length_written hi arr, ho, hs]
    have := writeTags_length_clean arr fm.lookup _ hclean
    simp only [writeTags, h35] at this
    rw [this]
    simp [List.filterMap_cons, h8, h9, h35, lenKeep_special arr tv8 (Or.inl ((hp.head 8 _ h8).elim fun tv h => by
        obtain ⟨rest, hl, ht⟩ := h; injection hl with a b; subst a; exact ht)),
      lenKeep_special arr tv9 (Or.inr (Or.inl ((hp.head 9 _ h9).elim fun tv h => by
        obtain ⟨rest, hl, ht⟩ := h; injection hl with a b; subst a; exact ht)))]
  · rw [FieldMap.total_written hi arr]
    exact writeTags_sum_clean arr _ _ (fun t _ f hf => hp.no10 (by decide) arr t f hf)

theorem trailer_written {fm : FieldMap} (hi : FMInv fm) (ho : fm.ord = .trailer) (hp : SecProper .t fm) (arr : List TagValue)
    (tv10 : TagValue) (h10 : alFind fm.lookup 10 = some (.owned [tv10])) :
    ∃ w, (fm.write arr).1 = w ++ tv10.bytes ∧ w.length = fm.length arr ∧ w.sum = fm.total arr := by
  have mem10 : (10 : Int) ∈ fm.tags := by rw [hi.same, mem_alKeys_iff, h10]; rfl
  have hs := trailer_sorted_decomp fm.tags hi.tagsNodup mem10
  have hperm : (sortTags .trailer (fm.tags.filter (fun t => t != 10))).Perm (fm.tags.filter (fun t => t != 10)) := sortTags_perm _ _
  have hne : ∀ t ∈ sortTags .trailer (fm.tags.filter (fun t => t != 10)), t ≠ 10 := by
    intro t ht; have := (List.mem_filter.1 (hperm.mem_iff.1 ht)).2; simpa using this
  have hclean : ∀ t ∈ sortTags .trailer (fm.tags.filter (fun t => t != 10)), ∀ f, alFind fm.lookup t = some f → cleanField arr f := by
    intro t ht f hf
    apply hp.clean arr t f hf
    intro hk
    have hks := hp.key_special t f hf hk
    exact absurd (hks.2 (hne t ht)) (by decide)
  have t10 : tv10.tag = 10 := by
    obtain ⟨tv, rest, hl, ht⟩ := hp.head 10 _ h10
    injection hl with a b; subst a; exact ht
  refine ⟨writeTags arr fm.lookup (sortTags .trailer (fm.tags.filter (fun t => t != 10))), ?_, ?_, ?_⟩
  · simp only [FieldMap.write, ho, hs, writeTags_append, writeTags, h10, fieldBytes_single, List.append_nil]
  · rw [FieldMap.length_written hi arr, ho, hs, List.filterMap_append, List.map_append, List.sum_append,
      writeTags_length_clean arr fm.lookup _ hclean]
    simp [List.filterMap_cons, h10, lenKeep_special arr tv10 (Or.inr (Or.inr t10))]
  · rw [FieldMap.total_written hi arr, ho, hs, List.filterMap_append, List.map_append, List.sum_append,
      writeTags_sum_clean arr fm.lookup _ (fun t ht f hf tv htv => (hclean t ht f hf tv htv).2.2)]
    simp [List.filterMap_cons, h10, sumKeep_10 arr tv10 t10]


/-! ## the whole message -/

structure Built (m : Message) : Prop where
  inv : MInv m
  ph : SecProper .h m.header
  pb : SecProper .b m.body
  pt : SecProper .t m.trailer

theorem fmtInt_ofNat (n : Nat) : fmtInt (n : Int) = fmtNat n := by
  unfold fmtInt
  have : ¬ ((n : Int) < 0) := by omega
  simp [this]

theorem Built.secOwned {m : Message} (hb : Built m) (s : Sec) : (m.sec s).allOwned := by
  cases s
  · exact hb.ph.owned
  · exact hb.pb.owned
  · exact hb.pt.owned

theorem setBytes_built_form {m m' : Message} (hb : Built m) (s : Sec) (t : Tag) (v : Bytes)
    (h : m.setBytes Fixes.cur s t v = .ok m') : m' = m.withSec s ((m.sec s).put t (.owned [TagValue.init t v])) := by
  simp only [Message.setBytes, Fixes.cur, if_true, FieldMap.setBytes] at h
  split at h
  · rename_i r hr
    obtain ⟨hfm, harr⟩ := setTV_owned_form (hb.secOwned s) hr
    rw [harr] at h
    injection h with h
    rw [← h, hfm]; rfl
  · cases h
  · cases h

/-- THE STRUCTURE OF A BUILT MESSAGE.  For a message held in owned fields whose tags 8 / 9 / 10 occur only as the header's
    BeginString / BodyLength and the trailer's CheckSum, with BeginString and MsgType set:
    `build` = BeginString field ++ `9=<N>` ++ MID ++ `10=<ddd>` where MID starts with the MsgType field,
    N is the length of MID and ddd the three-digit byte sum mod 256 of everything before the CheckSum field. -/
theorem build_structure (m : Message) (hb : Built m) (tv8 : TagValue) (f35 : Field)
    (h8 : alFind m.header.lookup 8 = some (.owned [tv8])) (h35 : alFind m.header.lookup 35 = some f35)
    (bytes : Bytes) (m' : Message) (h : m.build Fixes.cur = .ok (bytes, m')) :
    ∃ mid rest : Bytes,
      mid = fieldBytes m.fields f35 ++ rest ∧
      bytes = (tv8.bytes ++ (TagValue.init 9 (fmtNat mid.length)).bytes ++ mid) ++
        (TagValue.init 10 (digitsW 3 ((tv8.bytes ++ (TagValue.init 9 (fmtNat mid.length)).bytes ++ mid).sum % 256))).bytes := by
  obtain ⟨_, m2, hcook, _, hbytes⟩ := hb.inv.build bytes m' h
  -- the two setter calls of cook
  simp only [Message.cook, Message.setInt] at hcook
  split at hcook
  case h_2 => cases hcook
  case h_3 => cases hcook
  rename_i m1 h1
  have e1 := setBytes_built_form hb _ _ _ h1
  -- m1: header with 9 put
  have hb1 : Built m1 := by
    rw [e1]
    exact ⟨hb.inv.withSec .h _ (hb.inv.h.put' _ _) rfl,
           hb.ph.put (TagValue.init 9 _) (fun _ => ⟨fun e => absurd e (by simp [TagValue.init]), fun _ => rfl⟩), hb.pb, hb.pt⟩
  have e2 := setBytes_built_form hb1 _ _ _ hcook
  -- name the pieces
  have hH : m2.header = m.header.put 9 (.owned [TagValue.init 9 (fmtInt ((m.header.length m.fields + m.body.length m.fields + m.trailer.length m.fields : Nat) : Int))]) := by
    rw [e2, e1]; rfl
  have hB : m2.body = m.body := by rw [e2, e1]; rfl
  have hF : m2.fields = m.fields := by rw [e2, e1]; rfl
  have hT : m2.trailer = m.trailer.put 10 (.owned [TagValue.init 10 (digitsW 3 ((m1.header.total m1.fields + m.body.total m.fields + m1.trailer.total m1.fields) % 256))]) := by
    rw [e2, e1]; rfl
  have hH1 : m1.header = m2.header := by rw [hH, e1]; rfl
  have hT1 : m1.trailer = m.trailer := by rw [e1]; rfl
  have hF1 : m1.fields = m.fields := by rw [e1]; rfl
  -- sections of the cooked message
  have iH : FMInv m2.header := by rw [hH]; exact hb.inv.h.put' _ _
  have iT : FMInv m2.trailer := by rw [hT]; exact hb.inv.t.put' _ _
  have pH : SecProper .h m2.header := by
    rw [hH]; exact hb.ph.put (TagValue.init 9 _) (fun _ => ⟨fun e => absurd e (by simp [TagValue.init]), fun _ => rfl⟩)
  have pT : SecProper .t m2.trailer := by
    rw [hT]; exact hb.pt.put (TagValue.init 10 _) (fun _ => ⟨fun _ => rfl, fun e => absurd rfl e⟩)
  have oH : m2.header.ord = .header := by rw [hH]; exact hb.inv.oh
  have oT : m2.trailer.ord = .trailer := by rw [hT]; exact hb.inv.ot
  have h8' : alFind m2.header.lookup 8 = some (.owned [tv8]) := by
    rw [hH]; exact (put_find_other _ _ _ _ (by decide)).trans h8
  have h35' : alFind m2.header.lookup 35 = some f35 := by
    rw [hH]; exact (put_find_other _ _ _ _ (by decide)).trans h35
  have h9' := put_find_self m.header 9 (.owned [TagValue.init 9 (fmtInt ((m.header.length m.fields + m.body.length m.fields + m.trailer.length m.fields : Nat) : Int))])
  rw [← hH] at h9'
  have h10' := put_find_self m.trailer 10 (.owned [TagValue.init 10 (digitsW 3 ((m1.header.total m1.fields + m.body.total m.fields + m1.trailer.total m1.fields) % 256))])
  rw [← hT] at h10'
  obtain ⟨restH, wH, lH, sH⟩ := header_written iH oH pH m.fields tv8 _ f35 h8' h9' h35'
  obtain ⟨lB, sB⟩ := body_written hb.inv.b hb.pb m.fields
  obtain ⟨wT, eT, lT, sT⟩ := trailer_written iT oT pT m.fields _ h10'
  -- length / total are not changed by the two puts
  have lenH : m2.header.length m.fields = m.header.length m.fields := by
    rw [hH]; exact put_length_special _ _ _ _ (lenKeep_special _ _ (Or.inr (Or.inl rfl))) (fun o ho => hb.ph.old_len _ 9 (Or.inr (Or.inl rfl)) o ho)
  have lenT : m2.trailer.length m.fields = m.trailer.length m.fields := by
    rw [hT]; exact put_length_special _ _ _ _ (lenKeep_special _ _ (Or.inr (Or.inr rfl))) (fun o ho => hb.pt.old_len _ 10 (Or.inr (Or.inr rfl)) o ho)
  have totT : m2.trailer.total m.fields = m.trailer.total m.fields := by
    rw [hT]; exact put_total_special _ _ _ _ (sumKeep_10 _ _ rfl) (fun o ho => hb.pt.old_sum _ o ho)
  refine ⟨(fieldBytes m.fields f35 ++ restH) ++ (m.body.write m.fields).1 ++ wT, restH ++ (m.body.write m.fields).1 ++ wT, by simp [List.append_assoc], ?_⟩
  have hlen : ((fieldBytes m.fields f35 ++ restH) ++ (m.body.write m.fields).1 ++ wT).length =
      m.header.length m.fields + m.body.length m.fields + m.trailer.length m.fields := by
    rw [List.length_append, List.length_append, lH, lB, lT, lenH, lenT]
  rw [hlen, ← fmtInt_ofNat]
  have hsum : (tv8.bytes ++ (TagValue.init 9 (fmtInt ((m.header.length m.fields + m.body.length m.fields + m.trailer.length m.fields : Nat) : Int))).bytes ++
        ((fieldBytes m.fields f35 ++ restH) ++ (m.body.write m.fields).1 ++ wT)).sum =
      m1.header.total m1.fields + m.body.total m.fields + m1.trailer.total m1.fields := by
    rw [hH1, hT1, hF1, ← totT, ← sH, ← sB, ← sT, wH]
    simp only [List.sum_append]
    omega
  rw [hsum, hbytes, hF, hB, wH, eT]
  simp only [List.append_assoc]


/-! ## `Built` is an invariant of the API operations whose tags are in their proper section -/

theorem SecProper.empty (s : Sec) (o : OrdKind) : SecProper s (FieldMap.empty o) :=
  ⟨fun k f h => by simp [FieldMap.empty, alFind] at h, fun k l h => by simp [FieldMap.empty, alFind] at h,
   fun k l h => by simp [FieldMap.empty, alFind] at h⟩

/-- a property of the map that only restricts the entries present survives anything that shrinks the map pointwise -/
theorem SecProper.of_sub {s : Sec} {fm fm' : FieldMap} (h : SecProper s fm)
    (hsub : ∀ k f, alFind fm'.lookup k = some f → alFind fm.lookup k = some f) : SecProper s fm' :=
  ⟨fun k f hf => h.owned k f (hsub k f hf), fun k l hf => h.head k l (hsub k _ hf), fun k l hf => h.special k l (hsub k _ hf)⟩

theorem SecProper.remove {s : Sec} {fm : FieldMap} (h : SecProper s fm) (t : Tag) : SecProper s (fm.remove t) := by
  apply h.of_sub
  intro k f hf
  by_cases e : k = t
  · subst e; simp [FieldMap.remove, alFind_erase_self] at hf
  · simpa [FieldMap.remove, alFind_erase_other _ _ _ e] using hf

theorem SecProper.clear {s : Sec} {fm : FieldMap} : SecProper s fm.clear :=
  ⟨fun k f h => by simp [FieldMap.clear, alFind] at h, fun k l h => by simp [FieldMap.clear, alFind] at h,
   fun k l h => by simp [FieldMap.clear, alFind] at h⟩

theorem alFind_copy (arr : List TagValue) (l : List (Tag × Field)) (t : Tag) :
    alFind (l.map (fun p => (p.1, Field.owned (p.2.items arr)))) t = (alFind l t).map (fun f => Field.owned (f.items arr)) := by
  induction l with
  | nil => rfl
  | cons p q ihq =>
    obtain ⟨k, f⟩ := p
    by_cases hk : k = t
    · simp [alFind, hk]
    · simpa [alFind, hk] using ihq

theorem SecProper.copy {s : Sec} {fm : FieldMap} (h : SecProper s fm) (arr : List TagValue) : SecProper s (fm.copy arr) := by
  have key : ∀ k f, alFind (fm.copy arr).lookup k = some f → alFind fm.lookup k = some f := by
    intro k f hf
    simp only [FieldMap.copy, alFind_copy] at hf
    cases hfind : alFind fm.lookup k with
    | none => rw [hfind] at hf; cases hf
    | some g =>
      rw [hfind] at hf
      obtain ⟨l, hl⟩ := h.owned k g hfind
      subst hl
      simpa [Field.items] using hf
  exact ⟨fun k f hf => h.owned k f (key k f hf), fun k l hf => h.head k l (key k _ hf), fun k l hf => h.special k l (key k _ hf)⟩

theorem SecProper.write {s : Sec} {fm : FieldMap} (h : SecProper s fm) (arr : List TagValue) : SecProper s (fm.write arr).2 :=
  ⟨h.owned, h.head, h.special⟩

/-- a group field: the NumInGroup TagValue carries the (non-special) key, no member is tagged 8 / 9 / 10 -/
theorem SecProper.setGroup {s : Sec} {fm : FieldMap} (h : SecProper s fm) (t : Tag) (tv0 : TagValue) (rest : List TagValue)
    (h0 : tv0.tag = t) (hns : ∀ tv ∈ tv0 :: rest, ¬ isSpecialTag tv.tag) : SecProper s (fm.setGroup t (tv0 :: rest)) := by
  have hform : fm.setGroup t (tv0 :: rest) = fm.put t (.owned (tv0 :: rest)) := rfl
  rw [hform]
  refine ⟨?_, ?_, ?_⟩
  · intro k f hf
    by_cases e : k = t
    · subst e; rw [put_find_self] at hf; injection hf with hf; exact ⟨_, hf.symm⟩
    · rw [put_find_other _ _ _ _ e] at hf; exact h.owned k f hf
  · intro k l hf
    by_cases e : k = t
    · subst e; rw [put_find_self] at hf; injection hf with hf; injection hf with hf; subst hf; exact ⟨tv0, rest, rfl, h0⟩
    · rw [put_find_other _ _ _ _ e] at hf; exact h.head k l hf
  · intro k l hf x hx hsp
    by_cases e : k = t
    · subst e; rw [put_find_self] at hf; injection hf with hf; injection hf with hf; subst hf
      exact absurd hsp (hns x hx)
    · rw [put_find_other _ _ _ _ e] at hf; exact h.special k l hf x hx hsp

theorem Built.new : Built Message.new := ⟨MInv.new, SecProper.empty _ _, SecProper.empty _ _, SecProper.empty _ _⟩

theorem Built.sec {m : Message} (hb : Built m) (s : Sec) : SecProper s (m.sec s) := by
  cases s
  · exact hb.ph
  · exact hb.pb
  · exact hb.pt

theorem Built.withSec {m : Message} (hb : Built m) (s : Sec) (fm : FieldMap) (hi : MInv (m.withSec s fm)) (hp : SecProper s fm) :
    Built (m.withSec s fm) := by
  cases s
  · exact ⟨hi, hp, hb.pb, hb.pt⟩
  · exact ⟨hi, hb.ph, hp, hb.pt⟩
  · exact ⟨hi, hb.ph, hb.pb, hp⟩

/-- "tags in the proper section": 8 and 9 only in the header, 10 only in the trailer; group fields and their members are
    never tagged 8 / 9 / 10 -/
def MOp.proper : MOp → Prop
  | .set s t _ => isSpecialTag t → (t = 10 → s = .t) ∧ (t ≠ 10 → s = .h)
  | .setInt s t _ => isSpecialTag t → (t = 10 → s = .t) ∧ (t ≠ 10 → s = .h)
  | .setBool s t _ => isSpecialTag t → (t = 10 → s = .t) ∧ (t ≠ 10 → s = .h)
  | .setGroup _ t tm es => ∀ tvs, writeGroup t tm es = .ok tvs → ∀ tv ∈ tvs, ¬ isSpecialTag tv.tag
  | _ => True

theorem Built.setBytes {m m' : Message} (hb : Built m) (s : Sec) (t : Tag) (v : Bytes)
    (hp : isSpecialTag t → (t = 10 → s = .t) ∧ (t ≠ 10 → s = .h)) (h : m.setBytes Fixes.cur s t v = .ok m') : Built m' := by
  have hi := hb.inv.setBytes s t v h
  have e := setBytes_built_form hb s t v h
  rw [e] at hi ⊢
  exact hb.withSec s _ hi ((hb.sec s).put (TagValue.init t v) hp)

theorem Built.build {m m' : Message} (hb : Built m) (bytes : Bytes) (h : m.build Fixes.cur = .ok (bytes, m')) : Built m' := by
  simp only [Message.build] at h
  split at h
  case h_2 => cases h
  case h_3 => cases h
  rename_i m2 hcook
  simp only [Message.cook, Message.setInt] at hcook
  split at hcook
  case h_2 => cases hcook
  case h_3 => cases hcook
  rename_i m1 h1
  have hb1 := hb.setBytes .h 9 _ (fun _ => ⟨fun e => absurd e (by decide), fun _ => rfl⟩) h1
  have hb2 := hb1.setBytes .t 10 _ (fun _ => ⟨fun _ => rfl, fun e => absurd rfl e⟩) hcook
  injection h with h
  have hm' : m' = (m2.writeAll none).2 := by rw [h]
  subst hm'
  exact ⟨hb2.inv.writeAll, by simpa [Message.writeAll] using hb2.ph.write m2.fields,
         by simpa [Message.writeAll] using hb2.pb.write m2.fields, by simpa [Message.writeAll] using hb2.pt.write m2.fields⟩

theorem MOp.apply_built {m m' : Message} (hb : Built m) (op : MOp) (hp : op.proper) (h : op.apply m = .ok m') : Built m' := by
  cases op with
  | set s t v => exact hb.setBytes s t v hp h
  | setInt s t v => exact hb.setBytes s t _ hp h
  | setBool s t v => exact hb.setBytes s t _ hp h
  | setGroup s t tm es =>
    have hi := hb.inv.setGroup s t tm es h
    simp only [MOp.apply, Message.setGroup] at h
    split at h
    · rename_i tvs hw
      injection h with h; subst h
      have hns := hp tvs hw
      unfold writeGroup at hw
      split at hw
      · rename_i ents _
        injection hw with hw; subst hw
        exact hb.withSec s _ hi ((hb.sec s).setGroup t _ _ rfl hns)
      · cases hw
      · cases hw
    · cases h
    · cases h
  | remove s t =>
    simp only [MOp.apply] at h; injection h with h; subst h
    have hi := hb.inv.remove s t
    simp only [Message.remove, Fixes.cur, if_true] at hi ⊢
    exact hb.withSec s _ hi ((hb.sec s).remove t)
  | clear s =>
    simp only [MOp.apply] at h; injection h with h; subst h
    exact hb.withSec s _ (hb.inv.clear s) SecProper.clear
  | copy =>
    have hi := hb.inv.copy h
    simp only [MOp.apply, Message.copy, copyFM, Fixes.cur, if_true] at h
    injection h with h; subst h
    exact ⟨hi, hb.ph.copy _, hb.pb.copy _, hb.pt.copy _⟩
  | build =>
    simp only [MOp.apply] at h
    split at h
    · rename_i r hr; injection h with h; subst h; exact hb.build r.1 hr
    · cases h
    · cases h

theorem runMOps_built (ops : List MOp) : ∀ (m m' : Message), Built m → (∀ op ∈ ops, op.proper) → runMOps ops m = .ok m' → Built m' := by
  induction ops with
  | nil => intro m m' h _ hr; simp only [runMOps] at hr; injection hr with hr; subst hr; exact h
  | cons op r ih =>
    intro m m' h hp hr
    simp only [runMOps] at hr
    cases ha : op.apply m with
    | ok m1 => rw [ha] at hr; exact ih m1 m' (MOp.apply_built h op (hp op (by simp)) ha) (fun o ho => hp o (by simp [ho])) hr
    | err e => rw [ha] at hr; cases hr
    | fault w => rw [ha] at hr; cases hr


/-! ## a copy of a built message is the message -/

theorem alFind_of_mem_nodup {β} (l : List (Tag × β)) (h : (alKeys l).Nodup) (p : Tag × β) (hp : p ∈ l) : alFind l p.1 = some p.2 := by
  induction l with
  | nil => simp at hp
  | cons q r ih =>
    obtain ⟨k, x⟩ := q
    have hcons : alKeys ((k, x) :: r) = k :: alKeys r := rfl
    rw [hcons, List.nodup_cons] at h
    rcases List.mem_cons.1 hp with e | e
    · subst e; simp [alFind]
    · have hk : k ≠ p.1 := by
        intro e'; apply h.1; rw [e']; exact List.mem_map_of_mem e
      simp [alFind, hk, ih h.2 e]

theorem copy_id {fm : FieldMap} (hi : FMInv fm) (ho : fm.allOwned) (arr : List TagValue) : fm.copy arr = fm := by
  have : fm.lookup.map (fun p => (p.1, Field.owned (p.2.items arr))) = fm.lookup := by
    have hid : ∀ p ∈ fm.lookup, (fun p : Tag × Field => (p.1, Field.owned (p.2.items arr))) p = p := by
      intro p hp
      obtain ⟨l, hl⟩ := ho p.1 p.2 (alFind_of_mem_nodup _ hi.keysNodup p hp)
      obtain ⟨k, f⟩ := p
      simp only at hl; subst hl; rfl
    rw [List.map_congr_left hid]; simp
  simp only [FieldMap.copy, this]

/-- a message built through the API holds no parsed field array and no raw buffer -/
structure Plain (m : Message) : Prop where
  nofields : m.fields = []
  noraw : m.raw = none

theorem Plain.new : Plain Message.new := ⟨rfl, rfl⟩

theorem Plain.withSec {m : Message} (h : Plain m) (s : Sec) (fm : FieldMap) : Plain (m.withSec s fm) := by
  cases s <;> exact ⟨h.nofields, h.noraw⟩

theorem copy_self (m : Message) (hb : Built m) (hp : Plain m) : m.copy Fixes.cur = .ok m := by
  simp only [Message.copy, copyFM, Fixes.cur, if_true, copy_id hb.inv.h hb.ph.owned, copy_id hb.inv.b hb.pb.owned,
    copy_id hb.inv.t hb.pt.owned, hp.nofields, List.map_nil]
  have : m = { header := m.header, body := m.body, trailer := m.trailer, bodyBytes := m.bodyBytes, fields := [], raw := none } := by
    have h1 := hp.nofields; have h2 := hp.noraw
    cases m; simp only at h1 h2; subst h1; subst h2; rfl
  rw [← this]

theorem MOp.apply_plain {m m' : Message} (hb : Built m) (hp : Plain m) (op : MOp) (h : op.apply m = .ok m') : Plain m' := by
  cases op with
  | set s t v => rw [setBytes_built_form hb s t v h]; exact hp.withSec _ _
  | setInt s t v => rw [setBytes_built_form hb s t _ h]; exact hp.withSec _ _
  | setBool s t v => rw [setBytes_built_form hb s t _ h]; exact hp.withSec _ _
  | setGroup s t tm es =>
    simp only [MOp.apply, Message.setGroup] at h
    split at h
    · injection h with h; subst h; exact hp.withSec _ _
    · cases h
    · cases h
  | remove s t => simp only [MOp.apply] at h; injection h with h; subst h; exact hp.withSec _ _
  | clear s => simp only [MOp.apply] at h; injection h with h; subst h; exact hp.withSec _ _
  | copy =>
    simp only [MOp.apply] at h
    rw [copy_self m hb hp] at h; injection h with h; subst h; exact hp
  | build =>
    simp only [MOp.apply, Message.build] at h
    split at h
    · rename_i r hr
      split at hr
      · rename_i m2 hcook
        injection hr with hr; subst hr; injection h with h; subst h
        simp only [Message.cook, Message.setInt] at hcook
        split at hcook
        · rename_i m1 h1
          have e1 := setBytes_built_form hb _ _ _ h1
          have hb1 : Built m1 := hb.setBytes .h 9 _ (fun _ => ⟨fun e => absurd e (by decide), fun _ => rfl⟩) h1
          have e2 := setBytes_built_form hb1 _ _ _ hcook
          have p2 : Plain m2 := by rw [e2, e1]; exact (hp.withSec _ _).withSec _ _
          exact ⟨by simpa [Message.writeAll] using p2.nofields, by simpa [Message.writeAll] using p2.noraw⟩
        · cases hcook
        · cases hcook
      · cases hr
      · cases hr
    · cases h
    · cases h


theorem runMOps_plain (ops : List MOp) : ∀ (m m' : Message), Built m → Plain m → (∀ op ∈ ops, op.proper) →
    runMOps ops m = .ok m' → Built m' ∧ Plain m' := by
  induction ops with
  | nil => intro m m' hb hp _ hr; simp only [runMOps] at hr; injection hr with hr; subst hr; exact ⟨hb, hp⟩
  | cons op r ih =>
    intro m m' hb hp hpr hr
    simp only [runMOps] at hr
    cases ha : op.apply m with
    | ok m1 =>
      rw [ha] at hr
      exact ih m1 m' (MOp.apply_built hb op (hpr op (by simp)) ha) (MOp.apply_plain hb hp op ha) (fun o ho => hpr o (by simp [ho])) hr
    | err e => rw [ha] at hr; cases hr
    | fault w => rw [ha] at hr; cases hr

end Qfx
