/-
  Lemmas for C12_exact: on  junk ++ frame ++ rest  with junk free of "8=" and a well-formed frame,
  `nextFrame` returns exactly (frame, rest).
-/
import Qfx.Lemmas.Framer
namespace Qfx.Framer
open Qfx Qfx.Spec

/-! ## searching in lists of known shape -/

theorem indexOf_here (d b : Bytes) (h : d.isPrefixOf b = true) (hb : b ≠ []) : indexOf d b = some 0 := by
  cases b with
  | nil => exact absurd rfl hb
  | cons x xs => simp [indexOf, h]

/-- a needle starting with `d0` is not found inside a stretch free of `d0` -/
theorem indexOf_skip (d0 : Nat) (dt : Bytes) : ∀ (a b : Bytes), (∀ x ∈ a, x ≠ d0) → (d0 :: dt).isPrefixOf b = true →
    indexOf (d0 :: dt) (a ++ b) = some a.length := by
  intro a
  induction a with
  | nil =>
    intro b _ hb
    cases b with
    | nil => simp [List.isPrefixOf] at hb
    | cons y ys => simp [indexOf, hb]
  | cons x xs ih =>
    intro b ha hb
    have hx : x ≠ d0 := ha x (by simp)
    have hnp : (d0 :: dt).isPrefixOf (x :: (xs ++ b)) = false := by
      simp only [List.isPrefixOf, Bool.and_eq_false_imp, beq_iff_eq]
      intro h; exact absurd h.symm hx
    simp only [List.cons_append, indexOf, hnp, Bool.false_eq_true, if_false]
    rw [ih b (fun y hy => ha y (by simp [hy])) hb]
    simp

theorem findFrom_split (A B d : Bytes) (i : Nat) (h : indexOf d B = some i) :
    findFrom A.length d (A ++ B) = some (i + A.length) := by
  unfold findFrom
  simp [h]

theorem findFrom_split' (A B d : Bytes) (i k : Nat) (hk : A.length = k) (h : indexOf d B = some i) :
    findFrom k d (A ++ B) = some (i + k) := by
  subst hk; exact findFrom_split A B d i h

theorem findFrom_zero (d s : Bytes) : findFrom 0 d s = indexOf d s := by
  unfold findFrom; simp

/-- junk free of "8=" followed by something that starts with "8=": the first "8=" is right after the junk
    (even when the junk ends with '8') -/
theorem indexOf_begin_junk : ∀ (j rest : Bytes), noBegin j = true → indexOf dBegin (j ++ 56 :: 61 :: rest) = some j.length := by
  intro j
  induction j with
  | nil => intro rest _; simp [indexOf, dBegin, List.isPrefixOf]
  | cons x xs ih =>
    intro rest hj
    unfold noBegin at hj
    simp only [indexOf] at hj
    split at hj
    · simp at hj
    · rename_i hnp
      have hxs : noBegin xs = true := by
        unfold noBegin
        cases hi : indexOf dBegin xs with
        | none => rfl
        | some k => simp [hi] at hj
      have hnp2 : dBegin.isPrefixOf (x :: (xs ++ 56 :: 61 :: rest)) = false := by
        cases xs with
        | nil => simp [dBegin, List.isPrefixOf]
        | cons y ys =>
          simp only [dBegin, List.isPrefixOf, Bool.and_true, List.cons_append] at hnp ⊢
          simpa using hnp
      simp only [List.cons_append, indexOf, hnp2, Bool.false_eq_true, if_false, ih rest hxs]
      simp

theorem noBegin_findFrom (j : Bytes) (h : noBegin j = true) : findFrom 0 dBegin j = none := by
  rw [findFrom_zero]
  unfold noBegin at h
  cases hi : indexOf dBegin j with
  | none => rfl
  | some k => simp [hi] at h

/-! ## decimal BodyLength -/

theorem atoi_digits' (ds : Bytes) (hne : ds ≠ []) (h : ds.all isDigit = true) :
    atoi ds = .ok (wrap64 (digitsVal ds)) := by
  cases ds with
  | nil => exact absurd rfl hne
  | cons c cs =>
    have hc : c ≠ cMinus := by
      have := (isDigit_iff c).1 (by simp only [List.all_cons, Bool.and_eq_true] at h; exact h.1)
      unfold cMinus; omega
    simp only [atoi, hc, if_false]
    exact parseUInt_digits _ hne h

/-! ## the shape of a well-formed frame -/

theorem splitSOH_spec : ∀ (b a r : Bytes), splitSOH b = some (a, r) → b = a ++ 1 :: r ∧ (∀ x ∈ a, x ≠ 1) := by
  intro b
  induction b with
  | nil => intro a r h; simp [splitSOH] at h
  | cons x xs ih =>
    intro a r h
    simp only [splitSOH] at h
    split at h
    · rename_i hx
      simp only [Option.some.injEq, Prod.mk.injEq] at h
      obtain ⟨ha, hr⟩ := h
      subst ha hr hx
      simp
    · rename_i hx
      cases hs : splitSOH xs with
      | none => simp [hs] at h
      | some ar =>
        obtain ⟨a', r'⟩ := ar
        simp only [hs, Option.map_some, Option.some.injEq, Prod.mk.injEq] at h
        obtain ⟨ha, hr⟩ := h
        subst ha hr
        obtain ⟨e, hn⟩ := ih a' r' hs
        refine ⟨by rw [e]; simp, ?_⟩
        intro y hy
        simp only [List.mem_cons] at hy
        rcases hy with hy | hy
        · subst hy; exact hx
        · exact hn y hy

/-- "8=" v SOH "9=" ds SOH body' SOH "10=" ck SOH, right-nested, followed by `r` -/
def frameThen (v ds body' ck r : Bytes) : Bytes :=
  56 :: 61 :: (v ++ 1 :: 57 :: 61 :: (ds ++ 1 :: (body' ++ 1 :: 49 :: 48 :: 61 :: (ck ++ 1 :: r))))

theorem frameThen_append (v ds body' ck r : Bytes) : frameThen v ds body' ck [] ++ r = frameThen v ds body' ck r := by
  simp [frameThen]

theorem frameThen_length (v ds body' ck r : Bytes) :
    (frameThen v ds body' ck r).length = v.length + ds.length + body'.length + ck.length + 11 + r.length := by
  simp [frameThen]; omega

/-- what `wfFrame` accepts -/
theorem wfFrame_shape (m : Bytes) (h : wfFrame m = true) :
    ∃ v ds body' ck, m = frameThen v ds body' ck [] ∧ (∀ x ∈ v, x ≠ 1) ∧ ds ≠ [] ∧ ds.all isDigit = true ∧
      digitsVal ds = body'.length + 1 ∧ (∀ x ∈ ck, x ≠ 1) ∧ m.length < 9223372036854775807 := by
  unfold wfFrame at h
  simp only [Bool.and_eq_true, decide_eq_true_eq] at h
  obtain ⟨hlen, h⟩ := h
  unfold wfShape at h
  split at h
  · rename_i r1
    split at h
    · rename_i v r2 hs1
      obtain ⟨e1, hv⟩ := splitSOH_spec _ _ _ hs1
      split at h
      · rename_i ds r3 hs2
        obtain ⟨e2, hds⟩ := splitSOH_spec _ _ _ hs2
        simp only [Bool.and_eq_true, Bool.not_eq_true', List.isEmpty_eq_false_iff, decide_eq_true_eq, beq_iff_eq] at h
        obtain ⟨⟨hne, hdd⟩, hpos, hlast, htr⟩ := h
        split at htr
        · rename_i r4 htr4
          split at htr
          · rename_i ck hs3
            obtain ⟨e3, hck⟩ := splitSOH_spec _ _ _ hs3
            -- body = r3.take n ends with SOH
            have hr3 : r3 = r3.take (digitsVal ds) ++ r3.drop (digitsVal ds) := (List.take_append_drop _ _).symm
            have hn : digitsVal ds < r3.length := by
              rcases Nat.lt_or_ge (digitsVal ds) r3.length with hlt | hge
              · exact hlt
              · rw [List.drop_eq_nil_of_le hge] at htr4; cases htr4
            have hbl : (r3.take (digitsVal ds)).length = digitsVal ds := by
              rw [List.length_take]; omega
            obtain ⟨body', hb'⟩ : ∃ body', r3.take (digitsVal ds) = body' ++ [1] :=
              List.getLast?_eq_some_iff.1 hlast
            refine ⟨v, ds, body', ck, ?_, hv, hne, hdd, ?_, hck, hlen⟩
            · unfold frameThen
              rw [e1, e2, hr3, hb', htr4, e3]
              simp
            · rw [← hbl, hb']; simp
          · simp at htr
        · simp at htr
      · simp at h
    · simp at h
  · simp at h

theorem take_drop_mid (A X R : Bytes) : ((A ++ (X ++ R)).take (A.length + X.length)).drop A.length = X := by
  rw [← List.append_assoc, List.take_left' (by simp), List.drop_left]

theorem digit_ne_soh (ds : Bytes) (h : ds.all isDigit = true) : ∀ x ∈ ds, x ≠ 1 := by
  intro x hx
  have := (isDigit_iff x).1 (List.all_eq_true.1 h x hx)
  omega

/-- on a well-formed frame `jumpLength` lands on the SOH that ends the body -/
theorem bodyEnd_shape (ee : String) (v ds body' ck r : Bytes) (hv : ∀ x ∈ v, x ≠ 1) (hne : ds ≠ []) (hdd : ds.all isDigit = true)
    (hval : digitsVal ds = body'.length + 1)
    (hlen : (frameThen v ds body' ck []).length < 9223372036854775807) :
    bodyEnd true ee (frameThen v ds body' ck r) = .ok ((v.length + ds.length + body'.length + 6 : Nat) : Int) := by
  have h2 : findFrom 0 dLen (frameThen v ds body' ck r) = some (v.length + 2) := by
    rw [findFrom_zero]
    have := indexOf_skip 1 [57, 61] (56 :: 61 :: v)
      (1 :: 57 :: 61 :: (ds ++ 1 :: (body' ++ 1 :: 49 :: 48 :: 61 :: (ck ++ 1 :: r))))
      (by intro x hx
          simp only [List.mem_cons] at hx
          rcases hx with hx | hx | hx
          · omega
          · omega
          · exact hv x hx)
      (by simp [List.isPrefixOf])
    simpa [frameThen, dLen] using this
  have h3 : findFrom (v.length + 2 + 3) dSOH (frameThen v ds body' ck r) = some (ds.length + (v.length + 2 + 3)) := by
    have e : frameThen v ds body' ck r = (56 :: 61 :: (v ++ [1, 57, 61])) ++
        (ds ++ 1 :: (body' ++ 1 :: 49 :: 48 :: 61 :: (ck ++ 1 :: r))) := by simp [frameThen]
    rw [e]
    apply findFrom_split'
    · simp
    · exact indexOf_skip 1 [] ds _ (digit_ne_soh ds hdd) (by simp [List.isPrefixOf])
  have h4 : ((frameThen v ds body' ck r).take (ds.length + (v.length + 2 + 3))).drop (v.length + 2 + 3) = ds := by
    have e : frameThen v ds body' ck r = (56 :: 61 :: (v ++ [1, 57, 61])) ++
        (ds ++ 1 :: (body' ++ 1 :: 49 :: 48 :: 61 :: (ck ++ 1 :: r))) := by simp [frameThen]
    have hl : (56 :: 61 :: (v ++ [1, 57, 61])).length = v.length + 2 + 3 := by simp
    rw [e, Nat.add_comm ds.length, ← hl]
    exact take_drop_mid _ _ _
  have hdl : 0 < ds.length := by
    cases ds with
    | nil => exact absurd rfl hne
    | cons _ _ => simp
  have hfl := frameThen_length v ds body' ck []
  simp only [List.length_nil] at hfl
  unfold bodyEnd
  simp only [h2, h3, h4]
  have hne3 : ¬ (ds.length + (v.length + 2 + 3) = v.length + 2 + 3) := by omega
  simp only [hne3, if_false, atoi_digits' ds hne hdd, hval]
  have hw : wrap64 (((body'.length + 1 : Nat)) : Int) = ((body'.length + 1 : Nat) : Int) :=
    wrap64_of_in _ (by unfold inInt64; omega)
  rw [hw]
  have hpos : ¬ (((body'.length + 1 : Nat) : Int) ≤ 0) := by omega
  simp only [hpos, if_false]
  have hw2 : wrap64 (((ds.length + (v.length + 2 + 3) : Nat) : Int) + ((body'.length + 1 : Nat) : Int)) =
      ((v.length + ds.length + body'.length + 6 : Nat) : Int) := by
    rw [wrap64_of_in _ (by unfold inInt64; omega)]; omega
  rw [hw2]
  have hg : ¬ ((true && decide (((v.length + ds.length + body'.length + 6 : Nat) : Int) < ((ds.length + (v.length + 2 + 3) : Nat) : Int))) = true) := by
    simp only [Bool.true_and, decide_eq_true_eq]; omega
  simp
  omega

/-- junk without "8=", then a well-formed frame: the next frame is exactly that frame -/
theorem nextFrame_shape (ee : String) (j v ds body' ck r : Bytes) (hj : noBegin j = true) (hv : ∀ x ∈ v, x ≠ 1) (hne : ds ≠ [])
    (hdd : ds.all isDigit = true) (hval : digitsVal ds = body'.length + 1) (hck : ∀ x ∈ ck, x ≠ 1)
    (hlen : (frameThen v ds body' ck []).length < 9223372036854775807) :
    nextFrame true ee (j ++ frameThen v ds body' ck r) = .ok (frameThen v ds body' ck [], r) := by
  have h1 : findFrom 0 dBegin (j ++ frameThen v ds body' ck r) = some j.length := by
    rw [findFrom_zero]; exact indexOf_begin_junk j _ hj
  have hd : (j ++ frameThen v ds body' ck r).drop j.length = frameThen v ds body' ck r := List.drop_left
  have hbe := bodyEnd_shape ee v ds body' ck r hv hne hdd hval hlen
  have h4 : findFrom (v.length + ds.length + body'.length + 6) dCk (frameThen v ds body' ck r) =
      some (v.length + ds.length + body'.length + 6) := by
    have e : frameThen v ds body' ck r = (56 :: 61 :: (v ++ 1 :: 57 :: 61 :: (ds ++ 1 :: body'))) ++
        (1 :: 49 :: 48 :: 61 :: (ck ++ 1 :: r)) := by simp [frameThen]
    rw [e]
    have := findFrom_split' (56 :: 61 :: (v ++ 1 :: 57 :: 61 :: (ds ++ 1 :: body')))
      (1 :: 49 :: 48 :: 61 :: (ck ++ 1 :: r)) dCk 0 (v.length + ds.length + body'.length + 6)
      (by simp; omega) (indexOf_here _ _ (by simp [dCk, List.isPrefixOf]) (by simp))
    simpa using this
  have h5 : findFrom (v.length + ds.length + body'.length + 6 + 1) dSOH (frameThen v ds body' ck r) =
      some (ck.length + 3 + (v.length + ds.length + body'.length + 6 + 1)) := by
    have e : frameThen v ds body' ck r = (56 :: 61 :: (v ++ 1 :: 57 :: 61 :: (ds ++ 1 :: (body' ++ [1])))) ++
        ((49 :: 48 :: 61 :: ck) ++ 1 :: r) := by simp [frameThen]
    rw [e]
    apply findFrom_split'
    · simp; omega
    · have := indexOf_skip 1 [] (49 :: 48 :: 61 :: ck) (1 :: r)
        (by intro x hx
            simp only [List.mem_cons] at hx
            rcases hx with hx | hx | hx | hx
            · omega
            · omega
            · omega
            · exact hck x hx)
        (by simp [List.isPrefixOf])
      simpa [dSOH] using this
  have hfl := frameThen_length v ds body' ck []
  simp only [List.length_nil] at hfl
  unfold nextFrame
  simp only [h1, hd, hbe]
  have hn : ¬ (((v.length + ds.length + body'.length + 6 : Nat) : Int) < 0) := by omega
  simp only [hn, if_false, Int.toNat_natCast, h4, h5]
  rw [← frameThen_append v ds body' ck r]
  have hl : (frameThen v ds body' ck []).length = ck.length + 3 + (v.length + ds.length + body'.length + 6 + 1) + 1 := by
    omega
  rw [List.take_left' hl, List.drop_left' hl]

theorem nextFrame_wf (ee : String) (j m r : Bytes) (hj : noBegin j = true) (hm : wfFrame m = true) :
    nextFrame true ee (j ++ (m ++ r)) = .ok (m, r) := by
  obtain ⟨v, ds, body', ck, e, hv, hne, hdd, hval, hck, hlen⟩ := wfFrame_shape m hm
  subst e
  rw [frameThen_append]
  exact nextFrame_shape ee j v ds body' ck r hj hv hne hdd hval hck hlen

/-- the frames of  junk₀ m₁ junk₁ m₂ …  are m₁ m₂ … and the stream ends with EOF -/
theorem framesWhole_parts (ee : String) : ∀ (ms : List (Bytes × Bytes)) (j0 : Bytes),
    Parts.ok ⟨j0, ms⟩ = true →
    framesWholeG true ee (Parts.stream ⟨j0, ms⟩) = { frames := Parts.msgs ⟨j0, ms⟩, end_ := .err ee } := by
  intro ms
  induction ms with
  | nil =>
    intro j0 h
    simp only [Parts.ok, List.all_nil, Bool.and_true] at h
    simp only [Parts.stream, List.map_nil, List.flatten_nil, List.append_nil, Parts.msgs]
    rw [framesWholeG]
    have : nextFrame true ee j0 = .err ee := by
      unfold nextFrame; simp only [noBegin_findFrom j0 h]
    split
    · rename_i hh; rw [this] at hh; cases hh
    · rename_i hh; rw [this] at hh; cases hh; rfl
    · rename_i hh; rw [this] at hh; cases hh
  | cons mj rest ih =>
    intro j0 h
    obtain ⟨m, j⟩ := mj
    simp only [Parts.ok, List.all_cons, Bool.and_eq_true] at h
    obtain ⟨hj0, ⟨hm, hj⟩, hrest⟩ := h
    have hok : Parts.ok ⟨j, rest⟩ = true := by
      simp only [Parts.ok, Bool.and_eq_true]; exact ⟨hj, hrest⟩
    have hs : Parts.stream ⟨j0, (m, j) :: rest⟩ = j0 ++ (m ++ Parts.stream ⟨j, rest⟩) := by
      simp [Parts.stream]
    have hnf := nextFrame_wf ee j0 m (Parts.stream ⟨j, rest⟩) hj0 hm
    rw [hs, framesWholeG]
    split
    · rename_i m2 r2 hh
      rw [hnf] at hh
      simp only [Res.ok.injEq, Prod.mk.injEq] at hh
      obtain ⟨e1, e2⟩ := hh
      subst e1 e2
      rw [ih j hok]
      simp [Parts.msgs]
    · rename_i hh; rw [hnf] at hh; cases hh
    · rename_i hh; rw [hnf] at hh; cases hh

theorem mkParts_stream : ∀ (toks : List (Bool × Bytes)), (mkParts toks).stream = (toks.map (·.2)).flatten := by
  intro toks
  induction toks with
  | nil => simp [mkParts, Parts.stream]
  | cons t r ih =>
    obtain ⟨b, x⟩ := t
    cases b with
    | false =>
      simp only [mkParts, List.map_cons, List.flatten_cons, ← ih]
      simp [Parts.stream]
    | true =>
      simp only [mkParts, List.map_cons, List.flatten_cons, ← ih]
      simp [Parts.stream]

end Qfx.Framer

namespace Qfx.Framer
open Qfx Qfx.Spec

/-! ## `indexOf` is "first occurrence" (so the whole-stream spec means what it says) -/

theorem indexOf_some_iff (d : Bytes) : ∀ (s : Bytes) (i : Nat),
    indexOf d s = some i ↔ (i ≤ s.length ∧ d <+: s.drop i ∧ ∀ k, k < i → ¬ d <+: s.drop k) := by
  intro s
  induction s with
  | nil =>
    intro i
    simp only [indexOf, List.length_nil, Nat.le_zero_eq, List.drop_nil, List.prefix_nil]
    constructor
    · intro h
      split at h
      · rename_i hd
        cases h
        have : d = [] := by simpa using hd
        exact ⟨rfl, this, by intro k hk; omega⟩
      · cases h
    · rintro ⟨hi, hd, _⟩
      subst hi hd
      simp
  | cons x xs ih =>
    intro i
    simp only [indexOf]
    by_cases hp : d.isPrefixOf (x :: xs) = true
    · simp only [hp, if_true, Option.some.injEq]
      constructor
      · intro h; subst h
        exact ⟨by simp, by simpa using (isPrefixOf_iff _ _).1 hp, by intro k hk; omega⟩
      · rintro ⟨_, _, hmin⟩
        rcases Nat.eq_zero_or_pos i with h0 | h0
        · exact h0.symm
        · exact absurd (by simpa using (isPrefixOf_iff _ _).1 hp) (hmin 0 h0)
    · simp only [hp, Bool.false_eq_true, if_false]
      have hp' : ¬ d <+: (x :: xs) := fun h => hp ((isPrefixOf_iff _ _).2 h)
      constructor
      · intro h
        cases hx : indexOf d xs with
        | none => simp [hx] at h
        | some j =>
          simp only [hx, Option.map_some, Option.some.injEq] at h
          subst h
          obtain ⟨h1, h2, h3⟩ := (ih j).1 hx
          refine ⟨by simp only [List.length_cons]; omega, by simpa using h2, ?_⟩
          intro k hk
          cases k with
          | zero => simpa using hp'
          | succ k => simpa using h3 k (by omega)
      · rintro ⟨h1, h2, h3⟩
        cases i with
        | zero => exact absurd (by simpa using h2) hp'
        | succ j =>
          have : indexOf d xs = some j := (ih j).2
            ⟨by simp only [List.length_cons] at h1; omega, by simpa using h2,
             by intro k hk; simpa using h3 (k + 1) (by omega)⟩
          simp [this]

theorem indexOf_none_iff (d : Bytes) : ∀ (s : Bytes),
    indexOf d s = none ↔ ∀ k, k ≤ s.length → ¬ d <+: s.drop k := by
  intro s
  induction s with
  | nil =>
    simp only [indexOf, List.length_nil, Nat.le_zero_eq, List.drop_nil, List.prefix_nil]
    constructor
    · intro h k _
      split at h
      · cases h
      · rename_i hd; simpa using hd
    · intro h
      have := h 0 rfl
      simp [this]
  | cons x xs ih =>
    simp only [indexOf]
    by_cases hp : d.isPrefixOf (x :: xs) = true
    · simp only [hp, if_true]
      constructor
      · intro h; cases h
      · intro h
        exact absurd (by simpa using (isPrefixOf_iff _ _).1 hp) (h 0 (by simp))
    · simp only [hp, Bool.false_eq_true, if_false, Option.map_eq_none_iff]
      have hp' : ¬ d <+: (x :: xs) := fun h => hp ((isPrefixOf_iff _ _).2 h)
      rw [ih]
      constructor
      · intro h k hk
        cases k with
        | zero => simpa using hp'
        | succ k => simpa using h k (by simp only [List.length_cons] at hk; omega)
      · intro h k hk
        simpa using h (k + 1) (by simp only [List.length_cons]; omega)

/-- `findFrom off d s = some i`: `i` is the first position ≥ `off` where `d` occurs in `s` -/
theorem findFrom_some_iff (off : Nat) (d s : Bytes) (i : Nat) :
    findFrom off d s = some i ↔
      (off ≤ i ∧ i ≤ s.length ∧ d <+: s.drop i ∧ ∀ k, off ≤ k → k < i → ¬ d <+: s.drop k) := by
  unfold findFrom
  by_cases hle : off ≤ s.length
  · simp only [hle, if_true]
    constructor
    · intro h
      cases hx : indexOf d (s.drop off) with
      | none => simp [hx] at h
      | some j =>
        simp only [hx, Option.map_some, Option.some.injEq] at h
        subst h
        obtain ⟨h1, h2, h3⟩ := (indexOf_some_iff d _ j).1 hx
        simp only [List.length_drop, List.drop_drop] at h1 h2 h3
        refine ⟨by omega, by omega, by rw [Nat.add_comm]; exact h2, ?_⟩
        intro k hk1 hk2
        have := h3 (k - off) (by omega)
        rwa [show off + (k - off) = k by omega] at this
    · rintro ⟨h1, h2, h3, h4⟩
      have : indexOf d (s.drop off) = some (i - off) := by
        rw [indexOf_some_iff]
        simp only [List.length_drop, List.drop_drop]
        refine ⟨by omega, by rw [show off + (i - off) = i by omega]; exact h3, ?_⟩
        intro k hk
        exact h4 (off + k) (by omega) (by omega)
      simp only [this, Option.map_some, Option.some.injEq]; omega
  · simp only [hle, if_false]
    constructor
    · intro h; cases h
    · rintro ⟨h1, h2, _⟩; omega

/-! ## `wfFrame` accepts every frame of the stated shape -/

theorem splitSOH_append : ∀ (a r : Bytes), (∀ x ∈ a, x ≠ 1) → splitSOH (a ++ 1 :: r) = some (a, r) := by
  intro a
  induction a with
  | nil => intro r _; simp [splitSOH]
  | cons x xs ih =>
    intro r h
    have hx : x ≠ 1 := h x (by simp)
    simp only [List.cons_append, splitSOH, hx, if_false, ih r (fun y hy => h y (by simp [hy]))]
    rfl

theorem wfFrame_of_shape (v ds body' ck : Bytes) (hv : ∀ x ∈ v, x ≠ 1) (hne : ds ≠ []) (hdd : ds.all isDigit = true)
    (hval : digitsVal ds = body'.length + 1) (hck : ∀ x ∈ ck, x ≠ 1)
    (hlen : (frameThen v ds body' ck []).length < 9223372036854775807) :
    wfFrame (frameThen v ds body' ck []) = true := by
  have hds := digit_ne_soh ds hdd
  have e3 : ds ++ 1 :: (body' ++ 1 :: 49 :: 48 :: 61 :: (ck ++ [1])) =
      ds ++ 1 :: ((body' ++ [1]) ++ 49 :: 48 :: 61 :: (ck ++ [1])) := by simp
  have hl : (body' ++ [1]).length = body'.length + 1 := by simp
  unfold wfFrame
  simp only [hlen, decide_true, Bool.true_and]
  unfold wfShape
  simp only [frameThen]
  rw [splitSOH_append v _ hv]
  simp only
  rw [e3, splitSOH_append ds _ hds]
  simp only [hval, ← hl, List.take_left, List.drop_left, splitSOH_append ck [] hck]
  have : ds.isEmpty = false := by cases ds <;> simp_all
  simp [this, hdd]

end Qfx.Framer
