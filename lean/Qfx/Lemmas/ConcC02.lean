/-
  Qfx.Lemmas.ConcC02 — the invariant behind `C02_all_schedules` (lock-level model `Qfx.Conc`).

  * `wf`: a static lock discipline on thread programs (which steps may occur with which locks held), checked by a
    structural recursion over the remaining steps of a thread from a context `Ctx`.
  * `Inv`: the monitor has accepted the trace so far, its state mirrors the store (`Glob`), every thread's remaining
    program is well-formed from a context that agrees with the actual lock state (`ThreadOK`), the holder of
    `sendMutex` knows what its register is worth (`HeldOK`), and the queue is ordered (`QOK`).
  * `inv_step1`: `Inv` is preserved by every scheduled step of every thread; `inv_run`: by every schedule.
-/
import Qfx.Spec.Conc
namespace Qfx.Conc

/-! ### static discipline -/

/-- what the holder of sendMutex knows about its register -/
inductive RS | none | fresh | used
  deriving DecidableEq, Repr
/-- what the holder of sendMutex knows about the queue: ordered / empty / possibly holding numbers of the previous epoch -/
inductive QS | normal | empty | stale
  deriving DecidableEq, Repr
inductive SM | free | held (rs : RS) (qs : QS)
  deriving DecidableEq, Repr
inductive RM | none | read | write
  deriving DecidableEq, Repr
structure Ctx where
  s : SM
  r : RM
  deriving DecidableEq, Repr

/-- one step of the discipline; `sess` = the thread is the session goroutine, `p` = message persistence enabled -/
def wfStep (sess p : Bool) (c : Ctx) : Step → Option Ctx
  | .rlockR   => if c.s = .free ∧ c.r = .none then some ⟨.free, .read⟩ else none
  | .runlockR => if c.s = .free ∧ c.r = .read then some ⟨.free, .none⟩ else none
  | .lockR    => if sess = true ∧ c.s = .free ∧ c.r = .none then some ⟨.free, .write⟩ else none
  | .unlockR  => if c.s = .free ∧ c.r = .write then some ⟨.free, .none⟩ else none
  | .lockS    => if c.s = .free then some ⟨.held .none .normal, c.r⟩ else none
  | .unlockS  => match c.s with
      | .held _ qs => if qs ≠ .stale then some ⟨.free, c.r⟩ else none
      | .free => none
  | .readSeq  => match c.s with
      | .held _ qs => some ⟨.held .fresh qs, c.r⟩
      | .free => none
  | .storeReset => match c.s with
      | .held _ qs => some ⟨.held .none (if qs = .empty then .empty else .stale), c.r⟩
      | .free => none
  | .persistIncr => match c.s with
      | .held .fresh qs => if p = true then some ⟨.held .used qs, c.r⟩ else none
      | _ => none
  | .incrOnly => match c.s with
      | .held .fresh qs => if p = false then some ⟨.held .used qs, c.r⟩ else none
      | _ => none
  | .enqueue => match c.s with
      | .held .used qs => if qs ≠ .stale ∧ c.r ≠ .write ∧ (sess = true ∨ c.r = .read) then some ⟨.held .none .normal, c.r⟩ else none
      | _ => none
  | .enqueueDup _ => match c.s with
      | .held rs qs => if sess = true ∧ qs ≠ .stale then some ⟨.held rs .normal, c.r⟩ else none
      | .free => none
  | .flush _ => match c.s with
      | .held _ qs => if qs ≠ .stale then some c else none
      | .free => none
  | .dropQ => match c.s with
      | .held rs _ => some ⟨.held rs .empty, c.r⟩
      | .free => none
  | .notify => some c

def wfTo (sess p : Bool) : Ctx → List Step → Option Ctx
  | c, [] => some c
  | c, st :: l => match wfStep sess p c st with
      | some c' => wfTo sess p c' l
      | none => none

/-- the remaining program respects the discipline and ends with all locks released -/
def wf (sess p : Bool) (c : Ctx) (l : List Step) : Bool :=
  wfTo sess p c l == some ⟨.free, .none⟩

theorem wfTo_append (sess p : Bool) (c : Ctx) (l1 l2 : List Step) :
    wfTo sess p c (l1 ++ l2) = (wfTo sess p c l1).bind (fun c' => wfTo sess p c' l2) := by
  induction l1 generalizing c with
  | nil => simp [wfTo]
  | cons st l ih =>
    simp only [List.cons_append, wfTo]
    cases wfStep sess p c st with
    | none => simp
    | some c' => simp [ih]

theorem wf_cons {sess p : Bool} {c : Ctx} {st : Step} {l : List Step} (h : wf sess p c (st :: l) = true) :
    ∃ c', wfStep sess p c st = some c' ∧ wf sess p c' l = true := by
  unfold wf at h
  simp only [wfTo] at h
  cases hs : wfStep sess p c st with
  | none => simp [hs] at h
  | some c' => exact ⟨c', rfl, by simpa [hs, wf] using h⟩

/-- only the session goroutine ever write-holds resendMutex -/
def CtxValid (sess : Bool) (c : Ctx) : Prop := c.r = .write → sess = true

theorem wfStep_valid {sess p : Bool} {c c' : Ctx} {st : Step} (h : wfStep sess p c st = some c')
    (hv : CtxValid sess c) : CtxValid sess c' := by
  obtain ⟨cs, cr⟩ := c
  unfold CtxValid at *
  cases st <;> simp only [wfStep] at h <;> (try split at h) <;> (try split at h) <;> simp_all
  all_goals (first | (obtain ⟨_, rfl⟩ := h; simp_all) | (subst h; simp_all) | skip)

/-! ### the monitor over an appended trace -/

theorem mrun_append (p : Bool) (m : MState) (a b : List Ev) :
    mrun p m (a ++ b) = match mrun p m a with
      | .ok m' => mrun p m' b
      | .error c => .error c := by
  induction a generalizing m with
  | nil => simp [mrun]
  | cons e es ih =>
    simp only [List.cons_append, mrun]
    cases mstep p m e with
    | error c => simp
    | ok m' => simp [ih]

theorem mrun_snoc_ok {p : Bool} {m0 m m' : MState} {tr : List Ev} {evs : List Ev}
    (h : mrun p m0 tr = .ok m) (h2 : mrun p m evs = .ok m') : mrun p m0 (tr ++ evs) = .ok m' := by
  rw [mrun_append, h]; exact h2

/-! ### queue facts -/

/-- the first-time numbers in the queue increase strictly from `lo` and stay below `b` -/
def QInc : Nat → List QEntry → Nat → Prop
  | lo, [], b => lo < b
  | lo, e :: q, b => match e.tag with
      | .first => lo < e.num ∧ QInc e.num q b
      | .dup _ => QInc lo q b

/-- once a replayed message of replay `r` is in the queue, only such messages follow -/
def TailDup (r : Nat) : List QEntry → Prop
  | [] => True
  | e :: q => (e.tag = .dup r → ∀ x ∈ q, x.tag = .dup r) ∧ TailDup r q

theorem QInc.lt {lo b : Nat} {q : List QEntry} (h : QInc lo q b) : lo < b := by
  induction q generalizing lo with
  | nil => exact h
  | cons e q ih =>
    unfold QInc at h
    split at h
    · exact Nat.lt_trans h.1 (ih h.2)
    · exact ih h

theorem QInc.mono {lo b b' : Nat} {q : List QEntry} (h : QInc lo q b) (hb : b ≤ b') : QInc lo q b' := by
  induction q generalizing lo with
  | nil => exact Nat.lt_of_lt_of_le h hb
  | cons e q ih =>
    unfold QInc at h ⊢
    split at h
    · exact ⟨h.1, ih h.2⟩
    · exact ih h

theorem QInc.snoc_first {lo n b : Nat} {q : List QEntry} (h : QInc lo q n) (hb : n < b) :
    QInc lo (q ++ [⟨n, .first⟩]) b := by
  induction q generalizing lo with
  | nil => simp only [List.nil_append, QInc]; exact ⟨h, hb⟩
  | cons e q ih =>
    simp only [List.cons_append]
    unfold QInc at h ⊢
    split at h
    · exact ⟨h.1, ih h.2⟩
    · exact ih h

theorem QInc.snoc_dup {lo n r b : Nat} {q : List QEntry} (h : QInc lo q b) :
    QInc lo (q ++ [⟨n, .dup r⟩]) b := by
  induction q generalizing lo with
  | nil => simp only [List.nil_append, QInc]; exact h
  | cons e q ih =>
    simp only [List.cons_append]
    unfold QInc at h ⊢
    split at h
    · exact ⟨h.1, ih h.2⟩
    · exact ih h

theorem TailDup.snoc {r n : Nat} {q : List QEntry} (h : TailDup r q) : TailDup r (q ++ [⟨n, .dup r⟩]) := by
  induction q with
  | nil => simp [TailDup]
  | cons e q ih =>
    simp only [List.cons_append, TailDup] at h ⊢
    refine ⟨fun he x hx => ?_, ih h.2⟩
    rcases List.mem_append.1 hx with hx | hx
    · exact h.1 he x hx
    · simp at hx; subst hx; rfl

theorem TailDup.of_notag {r : Nat} {q : List QEntry} (h : ∀ e ∈ q, e.tag ≠ .dup r) : TailDup r q := by
  induction q with
  | nil => trivial
  | cons e q ih =>
    refine ⟨fun he => absurd he (h e (by simp)), ih (fun x hx => h x (by simp [hx]))⟩

/-- the part of the state and of the monitor state that the queue facts speak about -/
structure View where
  sender : Nat
  persisted : List Nat
  queue : List QEntry
  rcount : Nat
  wr : Bool
  lastFirst : Nat
  inRegion : Bool

def view (s : State) (m : MState) : View :=
  { sender := s.sender, persisted := s.persisted, queue := s.queue, rcount := s.rcount, wr := s.writerR.isSome,
    lastFirst := m.lastFirst, inRegion := m.inRegion }

structure QOK (p : Bool) (v : View) (b : Nat) : Prop where
  inc  : QInc v.lastFirst v.queue b
  sav  : p = true → ∀ e ∈ v.queue, e.tag = .first → e.num ∈ v.persisted
  tags : ∀ e ∈ v.queue, ∀ r, e.tag = .dup r → r ≤ v.rcount
  tail : v.wr = true → TailDup v.rcount v.queue
  reg  : v.inRegion = true → ∀ e ∈ v.queue, e.tag = .dup v.rcount

def bound (rs : RS) (reg sender : Nat) : Nat :=
  match rs with
  | .used => reg
  | _ => sender

/-- what holds while a thread with register `reg` is inside sendMutex in context `held rs qs` -/
structure HeldOK (p : Bool) (reg : Nat) (v : View) (rs : RS) (qs : QS) : Prop where
  fresh : rs = .fresh → reg = v.sender
  used  : rs = .used → reg + 1 = v.sender ∧ (p = true → reg ∈ v.persisted)
  lo    : v.lastFirst < bound rs reg v.sender
  q     : qs ≠ .stale → QOK p v (bound rs reg v.sender)
  emp   : qs = .empty → v.queue = []

/-- the monitor state mirrors the store and the resend lock -/
structure Glob (s : State) (m : MState) : Prop where
  cur   : m.cur = s.sender
  saved : m.saved = s.persisted
  rid   : m.rid = s.rcount
  rheld : m.rheld = s.writerR.isSome
  reg   : m.inRegion = true → m.rheld = true
  wr    : ∀ w, s.writerR = some w → w = 0 ∧ s.readersR = []

/-- thread `u` in context `c` -/
structure ThreadOKc (p : Bool) (s : State) (m : MState) (u : Nat) (c : Ctx) : Prop where
  wf    : wf (u == 0) p c (s.th u).todo = true
  hS    : c.s ≠ .free ↔ s.holderS = some u
  hW    : c.r = .write ↔ s.writerR = some u
  hR    : c.r = .read → u ∈ s.readersR
  valid : CtxValid (u == 0) c
  held  : ∀ rs qs, c.s = .held rs qs → HeldOK p (s.th u).reg (view s m) rs qs

def ThreadOK (p : Bool) (s : State) (m : MState) (u : Nat) : Prop := ∃ c, ThreadOKc p s m u c

structure InvM (p : Bool) (n0 : Nat) (s : State) (m : MState) : Prop where
  run  : mrun p (minit n0) s.trace = .ok m
  glob : Glob s m
  thr  : ∀ u, ThreadOK p s m u
  free : s.holderS = none → QOK p (view s m) s.sender

def Inv (p : Bool) (n0 : Nat) (s : State) : Prop := ∃ m, InvM p n0 s m

/-- a thread other than the one that moved keeps its facts when what it knows as holder of sendMutex carries over -/
theorem ThreadOK.frame {p : Bool} {s s' : State} {m m' : MState} {u : Nat} (h : ThreadOK p s m u)
    (hth : s'.th u = s.th u)
    (hS : s'.holderS = some u ↔ s.holderS = some u)
    (hW : s'.writerR = some u ↔ s.writerR = some u)
    (hR : u ∈ s.readersR → u ∈ s'.readersR)
    (hV : s.holderS = some u → ∀ rs qs, HeldOK p (s.th u).reg (view s m) rs qs → HeldOK p (s.th u).reg (view s' m') rs qs) :
    ThreadOK p s' m' u := by
  obtain ⟨c, hc⟩ := h
  refine ⟨c, ?_⟩
  constructor
  · rw [hth]; exact hc.wf
  · rw [hS]; exact hc.hS
  · rw [hW]; exact hc.hW
  · exact fun h => hR (hc.hR h)
  · exact hc.valid
  · intro rs qs hq
    have : s.holderS = some u := hc.hS.1 (by rw [hq]; simp)
    rw [hth]; exact hV this rs qs (hc.held rs qs hq)

/-! ### flushing a prefix of an ordered queue is accepted by the monitor -/

theorem QOK.mono {p : Bool} {v : View} {b b' : Nat} (h : QOK p v b) (hb : b ≤ b') : QOK p v b' :=
  ⟨h.inc.mono hb, h.sav, h.tags, h.tail, h.reg⟩

theorem flush_mon (p : Bool) (sender : Nat) (pers : List Nat) (rc : Nat) (wr : Bool) (b : Nat) :
    ∀ (q : List QEntry) (k : Nat) (m : MState), m.saved = pers → m.rid = rc → m.rheld = wr →
      (m.inRegion = true → m.rheld = true) →
      QOK p ⟨sender, pers, q, rc, wr, m.lastFirst, m.inRegion⟩ b →
      ∃ m', mrun p m ((q.take k).map wireEv) = .ok m' ∧ m'.cur = m.cur ∧ m'.saved = m.saved ∧ m'.rid = m.rid ∧
        m'.rheld = m.rheld ∧ (m'.inRegion = true → m'.rheld = true) ∧
        QOK p ⟨sender, pers, q.drop k, rc, wr, m'.lastFirst, m'.inRegion⟩ b := by
  intro q
  induction q with
  | nil =>
    intro k m _ _ _ hreg hq
    exact ⟨m, by simp [mrun], rfl, rfl, rfl, rfl, hreg, by simpa using hq⟩
  | cons e q ih =>
    intro k m hsav hrid hrh hreg hq
    cases k with
    | zero => exact ⟨m, by simp [mrun], rfl, rfl, rfl, rfl, hreg, by simpa using hq⟩
    | succ k =>
      obtain ⟨n, tg⟩ := e
      cases tg with
      | first =>
        have hinc := hq.inc
        simp only [QInc] at hinc
        have h1 : m.lastFirst < n := hinc.1
        have h2 : p = true → n ∈ m.saved := fun hp => by
          rw [hsav]; exact hq.sav hp ⟨n, .first⟩ (by simp) rfl
        have h3 : m.inRegion = false := by
          cases hr : m.inRegion with
          | false => rfl
          | true =>
            have := hq.reg hr ⟨n, .first⟩ (by simp)
            simp at this
        let m1 : MState := { m with lastFirst := n }
        have hstep : mstep p m (Ev.wire n .first) = .ok m1 := by
          simp only [mstep]
          rw [if_neg (by simpa using h1), if_neg (by intro ⟨hp, hn⟩; exact hn (h2 hp)), if_neg (by simp [h3])]
        have hq1 : QOK p ⟨sender, pers, q, rc, wr, m1.lastFirst, m1.inRegion⟩ b := by
          refine ⟨hinc.2, fun hp x hx => hq.sav hp x (by simp [hx]), fun x hx => hq.tags x (by simp [hx]),
            fun hw => (hq.tail hw).2, fun hr => ?_⟩
          simp [m1, h3] at hr
        obtain ⟨m', hr', a1, a2, a3, a4, a5, a6⟩ := ih k m1 hsav hrid hrh (by simpa [m1] using hreg) hq1
        refine ⟨m', ?_, a1, a2, a3, a4, a5, by simpa using a6⟩
        simp only [List.take_succ_cons, List.map_cons, wireEv, mrun, hstep]
        exact hr'
      | dup r =>
        let m1 : MState := { m with inRegion := m.inRegion || (m.rheld && r == m.rid) }
        have hstep : mstep p m (Ev.wire n (.dup r)) = .ok m1 := rfl
        have hinc := hq.inc
        simp only [QInc] at hinc
        have hreg1 : m1.inRegion = true → m1.rheld = true := by
          intro h
          simp only [m1, Bool.or_eq_true, Bool.and_eq_true] at h
          rcases h with h | h
          · exact hreg h
          · exact h.1
        have hq1 : QOK p ⟨sender, pers, q, rc, wr, m1.lastFirst, m1.inRegion⟩ b := by
          refine ⟨hinc, fun hp x hx => hq.sav hp x (by simp [hx]), fun x hx => hq.tags x (by simp [hx]),
            fun hw => (hq.tail hw).2, fun hr x hx => ?_⟩
          simp only [m1, Bool.or_eq_true, Bool.and_eq_true, beq_iff_eq] at hr
          rcases hr with hr | ⟨hr1, hr2⟩
          · exact hq.reg hr x (by simp [hx])
          · have hw : wr = true := by rw [← hrh]; exact hr1
            have := (hq.tail hw).1 (by simp [hr2, hrid]) x hx
            exact this
        obtain ⟨m', hr', a1, a2, a3, a4, a5, a6⟩ := ih k m1 hsav hrid hrh hreg1 hq1
        refine ⟨m', ?_, a1, a2, a3, a4, a5, by simpa using a6⟩
        simp only [List.take_succ_cons, List.map_cons, wireEv, mrun, hstep]
        exact hr'

/-! ### one scheduled step preserves the invariant -/

@[simp] theorem upd_self (f : Nat → Thread) (t : Nat) (v : Thread) : upd f t v t = v := by simp [upd]
theorem upd_ne (f : Nat → Thread) {t u : Nat} (v : Thread) (h : u ≠ t) : upd f t v u = f u := by simp [upd, h]

theorem step1_cons {s : State} {t : Nat} {st : Step} {rest : List Step} (h : (s.th t).todo = st :: rest) :
    step1 s t = match act s t (s.th t).reg st with
      | none => s
      | some (s', reg') => { s' with th := upd s.th t ⟨rest, reg'⟩ } := by
  unfold step1; simp only [h]; rfl

theorem bound_le {rs : RS} {reg sender : Nat} (h : rs = .used → reg + 1 = sender) : bound rs reg sender ≤ sender := by
  cases rs <;> simp [bound]
  have := h rfl; omega

/-- the threads that did not move, when the mover `t` holds sendMutex and touches no lock -/
theorem others_data {p : Bool} {s s' : State} {m m' : MState} {t : Nat} (hT : ∀ u, ThreadOK p s m u)
    (hh : s.holderS = some t) (hth : ∀ u, u ≠ t → s'.th u = s.th u)
    (hS : s'.holderS = s.holderS) (hW : s'.writerR = s.writerR) (hR : s'.readersR = s.readersR) :
    ∀ u, u ≠ t → ThreadOK p s' m' u := by
  intro u hu
  refine (hT u).frame (hth u hu) (by rw [hS]) (by rw [hW]) (by rw [hR]; exact id) ?_
  intro h; rw [hh] at h; exact absurd (Option.some.inj h).symm hu

/-- the threads that did not move, when the step leaves the view alone -/
theorem others_lock {p : Bool} {s s' : State} {m : MState} {t : Nat} (hT : ∀ u, ThreadOK p s m u)
    (hth : ∀ u, u ≠ t → s'.th u = s.th u)
    (hS : ∀ u, u ≠ t → (s'.holderS = some u ↔ s.holderS = some u))
    (hW : ∀ u, u ≠ t → (s'.writerR = some u ↔ s.writerR = some u))
    (hR : ∀ u, u ≠ t → u ∈ s.readersR → u ∈ s'.readersR)
    (hV : view s' m = view s m) :
    ∀ u, u ≠ t → ThreadOK p s' m u :=
  fun u hu => (hT u).frame (hth u hu) (hS u hu) (hW u hu) (hR u hu) (fun _ rs qs h => by rw [hV]; exact h)

/-- a thread that may enqueue a first-time message (the session goroutine outside a replay, or a reader of
    resendMutex) excludes every resend writer -/
theorem no_writer_of_held {p : Bool} {s : State} {m : MState} {t : Nat} {c : Ctx} (hG : Glob s m)
    (hc : ThreadOKc p s m t c) (h2 : c.r ≠ .write) (h3 : (t == 0) = true ∨ c.r = .read) : s.writerR = none := by
  cases hw : s.writerR with
  | none => rfl
  | some w =>
    obtain ⟨hw0, hr⟩ := hG.wr w hw
    have hne : t ≠ w := fun h => h2 (hc.hW.2 (by rw [hw, h]))
    rcases h3 with h3 | h3
    · have : t = 0 := by simpa using h3
      omega
    · have := hc.hR h3; rw [hr] at this; simp at this

/-- what a holder of sendMutex knows survives the start and the end of a replay by another thread -/
theorem QOK.lockR {p : Bool} {v : View} {b : Nat} (h : QOK p v b) :
    QOK p { v with rcount := v.rcount + 1, wr := true, inRegion := false } b := by
  refine ⟨h.inc, h.sav, fun e he r hr => Nat.le_succ_of_le (h.tags e he r hr), fun _ => ?_, (fun h => by cases h)⟩
  refine TailDup.of_notag (fun e he hr => ?_)
  have := h.tags e he _ hr
  simp at this
  omega

theorem QOK.unlockR {p : Bool} {v : View} {b : Nat} (h : QOK p v b) :
    QOK p { v with wr := false, inRegion := false } b :=
  ⟨h.inc, h.sav, h.tags, (fun h => by cases h), (fun h => by cases h)⟩

theorem HeldOK.lockR {p : Bool} {reg : Nat} {v : View} {rs : RS} {qs : QS} (h : HeldOK p reg v rs qs) :
    HeldOK p reg { v with rcount := v.rcount + 1, wr := true, inRegion := false } rs qs :=
  ⟨h.fresh, h.used, h.lo, fun hq => (h.q hq).lockR, h.emp⟩

theorem HeldOK.unlockR {p : Bool} {reg : Nat} {v : View} {rs : RS} {qs : QS} (h : HeldOK p reg v rs qs) :
    HeldOK p reg { v with wr := false, inRegion := false } rs qs :=
  ⟨h.fresh, h.used, h.lo, fun hq => (h.q hq).unlockR, h.emp⟩

section cases
variable {p : Bool} {n0 : Nat} {s : State} {m : MState} {t : Nat} {c c' : Ctx} {rest : List Step}

theorem case_notify (hI : InvM p n0 s m) (htodo : (s.th t).todo = .notify :: rest) (hc : ThreadOKc p s m t c)
    (hws : wfStep (t == 0) p c .notify = some c') (hwf : wf (t == 0) p c' rest = true) : Inv p n0 (step1 s t) := by
  rw [step1_cons htodo]
  simp only [wfStep, Option.some.injEq] at hws
  subst hws
  simp only [act]
  refine ⟨m, hI.run, ⟨hI.glob.cur, hI.glob.saved, hI.glob.rid, hI.glob.rheld, hI.glob.reg, hI.glob.wr⟩, ?_, hI.free⟩
  intro u
  by_cases hu : u = t
  · subst hu
    exact ⟨c, ⟨by simpa using hwf, hc.hS, hc.hW, hc.hR, hc.valid, fun rs qs h => by simp only [upd_self]; exact hc.held rs qs h⟩⟩
  · refine others_lock hI.thr ?_ ?_ ?_ ?_ ?_ u hu
    · exact fun u hu => upd_ne _ _ hu
    · exact fun _ _ => Iff.rfl
    · exact fun _ _ => Iff.rfl
    · exact fun _ _ h => h
    · rfl

theorem case_rlockR (hI : InvM p n0 s m) (htodo : (s.th t).todo = .rlockR :: rest) (hc : ThreadOKc p s m t c)
    (hws : wfStep (t == 0) p c .rlockR = some c') (hwf : wf (t == 0) p c' rest = true) : Inv p n0 (step1 s t) := by
  rw [step1_cons htodo]
  obtain ⟨cs, cr⟩ := c
  simp only [wfStep] at hws
  split at hws <;> simp at hws
  rename_i hcond
  obtain ⟨h1, h2⟩ := hcond
  subst h1 h2 hws
  simp only [act]
  by_cases hwn : s.writerR = none
  · rw [if_pos hwn]
    dsimp only
    have hnh : s.holderS ≠ some t := fun h => (hc.hS.2 h) rfl
    refine ⟨m, hI.run, ⟨hI.glob.cur, hI.glob.saved, hI.glob.rid, hI.glob.rheld, hI.glob.reg, ?_⟩, ?_, hI.free⟩
    · intro w hw; simp only at hw; rw [hwn] at hw; cases hw
    · intro u
      by_cases hu : u = t
      · subst hu
        refine ⟨⟨.free, .read⟩, ⟨by simpa using hwf, ?_, ?_, ?_, ?_, ?_⟩⟩
        · simp; exact hnh
        · simp; rw [hwn]; simp
        · intro _; simp
        · intro h; simp at h
        · intro rs qs h; cases h
      · refine others_lock hI.thr ?_ ?_ ?_ ?_ ?_ u hu
        · exact fun u hu => upd_ne _ _ hu
        · exact fun _ _ => Iff.rfl
        · exact fun _ _ => Iff.rfl
        · exact fun _ _ h => List.mem_cons_of_mem _ h
        · rfl
  · rw [if_neg hwn]
    exact ⟨m, hI⟩

theorem case_runlockR (hI : InvM p n0 s m) (htodo : (s.th t).todo = .runlockR :: rest) (hc : ThreadOKc p s m t c)
    (hws : wfStep (t == 0) p c .runlockR = some c') (hwf : wf (t == 0) p c' rest = true) : Inv p n0 (step1 s t) := by
  rw [step1_cons htodo]
  obtain ⟨cs, cr⟩ := c
  simp only [wfStep] at hws
  split at hws <;> simp at hws
  rename_i hcond
  obtain ⟨h1, h2⟩ := hcond
  subst h1 h2 hws
  simp only [act]
  have hnh : s.holderS ≠ some t := fun h => (hc.hS.2 h) rfl
  have hnw : s.writerR ≠ some t := fun h => by have := hc.hW.2 h; simp at this
  refine ⟨m, hI.run, ⟨hI.glob.cur, hI.glob.saved, hI.glob.rid, hI.glob.rheld, hI.glob.reg, ?_⟩, ?_, hI.free⟩
  · intro w hw
    obtain ⟨a, b⟩ := hI.glob.wr w hw
    exact ⟨a, by simp [b]⟩
  · intro u
    by_cases hu : u = t
    · subst hu
      refine ⟨⟨.free, .none⟩, ⟨by simpa using hwf, ?_, ?_, ?_, ?_, ?_⟩⟩
      · simp; exact hnh
      · simp; exact hnw
      · intro h; simp at h
      · intro h; simp at h
      · intro rs qs h; cases h
    · refine others_lock hI.thr ?_ ?_ ?_ ?_ ?_ u hu
      · exact fun u hu => upd_ne _ _ hu
      · exact fun _ _ => Iff.rfl
      · exact fun _ _ => Iff.rfl
      · exact fun u hu h => (List.mem_erase_of_ne hu).2 h
      · rfl

theorem case_lockR (hI : InvM p n0 s m) (htodo : (s.th t).todo = .lockR :: rest) (hc : ThreadOKc p s m t c)
    (hws : wfStep (t == 0) p c .lockR = some c') (hwf : wf (t == 0) p c' rest = true) : Inv p n0 (step1 s t) := by
  rw [step1_cons htodo]
  obtain ⟨cs, cr⟩ := c
  simp only [wfStep] at hws
  split at hws <;> simp at hws
  rename_i hcond
  obtain ⟨h0, h1, h2⟩ := hcond
  subst h1 h2 hws
  have ht : t = 0 := by simpa using h0
  simp only [act]
  by_cases hen : s.writerR = none ∧ s.readersR = []
  · rw [if_pos hen]
    dsimp only
    obtain ⟨hwn, hrn⟩ := hen
    have hnh : s.holderS ≠ some t := fun h => (hc.hS.2 h) rfl
    have hrh : m.rheld = false := by rw [hI.glob.rheld, hwn]; rfl
    have hir : m.inRegion = false := by
      cases h : m.inRegion with
      | false => rfl
      | true => have := hI.glob.reg h; rw [hrh] at this; cases this
    let m' : MState := { m with rid := m.rid + 1, rheld := true, inRegion := false }
    have hstep : mrun p m [Ev.lockR] = .ok m' := by simp [mrun, mstep, hrh, m']
    refine ⟨m', mrun_snoc_ok hI.run hstep, ⟨hI.glob.cur, hI.glob.saved, ?_, rfl, fun _ => rfl, ?_⟩, ?_, ?_⟩
    · show m.rid + 1 = s.rcount + 1
      rw [hI.glob.rid]
    · intro w hw
      simp only [Option.some.injEq] at hw
      exact ⟨by omega, hrn⟩
    · intro u
      by_cases hu : u = t
      · subst hu
        refine ⟨⟨.free, .write⟩, ⟨by simpa using hwf, ?_, ?_, ?_, ?_, ?_⟩⟩
        · simp; exact hnh
        · simp
        · intro h; simp at h
        · exact fun _ => h0
        · intro rs qs h; cases h
      · refine (hI.thr u).frame (upd_ne _ _ hu) Iff.rfl ?_ (fun h => h) ?_
        · show some t = some u ↔ s.writerR = some u
          rw [hwn]; simp; exact fun h => hu h.symm
        · intro _ rs qs h
          have := h.lockR
          simpa [view, hwn, hir, m'] using this
    · intro hn
      have := (hI.free hn).lockR
      simpa [view, hwn, hir, m'] using this
  · rw [if_neg hen]
    exact ⟨m, hI⟩

theorem case_unlockR (hI : InvM p n0 s m) (htodo : (s.th t).todo = .unlockR :: rest) (hc : ThreadOKc p s m t c)
    (hws : wfStep (t == 0) p c .unlockR = some c') (hwf : wf (t == 0) p c' rest = true) : Inv p n0 (step1 s t) := by
  rw [step1_cons htodo]
  obtain ⟨cs, cr⟩ := c
  simp only [wfStep] at hws
  split at hws <;> simp at hws
  rename_i hcond
  obtain ⟨h1, h2⟩ := hcond
  subst h1 h2 hws
  simp only [act]
  have hw : s.writerR = some t := hc.hW.1 rfl
  obtain ⟨ht, hrn⟩ := hI.glob.wr t hw
  have hnh : s.holderS ≠ some t := fun h => (hc.hS.2 h) rfl
  let m' : MState := { m with rheld := false, inRegion := false }
  have hstep : mrun p m [Ev.unlockR] = .ok m' := by simp [mrun, mstep, m']
  refine ⟨m', mrun_snoc_ok hI.run hstep, ⟨hI.glob.cur, hI.glob.saved, hI.glob.rid, rfl, (fun h => by cases h), ?_⟩, ?_, ?_⟩
  · intro w hw; cases hw
  · intro u
    by_cases hu : u = t
    · subst hu
      refine ⟨⟨.free, .none⟩, ⟨by simpa using hwf, ?_, ?_, ?_, ?_, ?_⟩⟩
      · simp; exact hnh
      · simp
      · intro h; simp at h
      · intro h; simp at h
      · intro rs qs h; cases h
    · refine (hI.thr u).frame (upd_ne _ _ hu) Iff.rfl ?_ (fun h => h) ?_
      · show none = some u ↔ s.writerR = some u
        rw [hw]; simp; exact fun h => hu h.symm
      · intro _ rs qs h
        have := h.unlockR
        simpa [view, m'] using this
  · intro hn
    have := (hI.free hn).unlockR
    simpa [view, m'] using this

theorem case_lockS (hI : InvM p n0 s m) (htodo : (s.th t).todo = .lockS :: rest) (hc : ThreadOKc p s m t c)
    (hws : wfStep (t == 0) p c .lockS = some c') (hwf : wf (t == 0) p c' rest = true) : Inv p n0 (step1 s t) := by
  rw [step1_cons htodo]
  obtain ⟨cs, cr⟩ := c
  simp only [wfStep] at hws
  split at hws <;> simp at hws
  rename_i h1
  subst h1 hws
  simp only [act]
  by_cases hen : s.holderS = none
  · rw [if_pos hen]
    dsimp only
    have hQ := hI.free hen
    refine ⟨m, hI.run, ⟨hI.glob.cur, hI.glob.saved, hI.glob.rid, hI.glob.rheld, hI.glob.reg, hI.glob.wr⟩, ?_, ?_⟩
    · intro u
      by_cases hu : u = t
      · subst hu
        refine ⟨⟨.held .none .normal, cr⟩, ⟨by simpa using hwf, ?_, hc.hW, hc.hR, hc.valid, ?_⟩⟩
        · simp
        · intro rs qs h
          simp only [SM.held.injEq] at h
          obtain ⟨rfl, rfl⟩ := h
          exact ⟨(fun h => by cases h), (fun h => by cases h), hQ.inc.lt, fun _ => hQ, (fun h => by cases h)⟩
      · refine (hI.thr u).frame (upd_ne _ _ hu) ?_ Iff.rfl (fun h => h) ?_
        · show some t = some u ↔ s.holderS = some u
          rw [hen]; simp; exact fun h => hu h.symm
        · intro h; rw [hen] at h; cases h
    · intro h; cases h
  · rw [if_neg hen]
    exact ⟨m, hI⟩

theorem case_unlockS (hI : InvM p n0 s m) (htodo : (s.th t).todo = .unlockS :: rest) (hc : ThreadOKc p s m t c)
    (hws : wfStep (t == 0) p c .unlockS = some c') (hwf : wf (t == 0) p c' rest = true) : Inv p n0 (step1 s t) := by
  rw [step1_cons htodo]
  obtain ⟨cs, cr⟩ := c
  cases cs with
  | free => simp [wfStep] at hws
  | held rs qs =>
    simp only [wfStep] at hws
    split at hws <;> simp at hws
    rename_i hqs
    subst hws
    have hh : s.holderS = some t := hc.hS.1 (by simp)
    have hH := hc.held rs qs rfl
    simp only [act]
    refine ⟨m, hI.run, ⟨hI.glob.cur, hI.glob.saved, hI.glob.rid, hI.glob.rheld, hI.glob.reg, hI.glob.wr⟩, ?_, ?_⟩
    · intro u
      by_cases hu : u = t
      · subst hu
        refine ⟨⟨.free, cr⟩, ⟨by simpa using hwf, ?_, hc.hW, hc.hR, hc.valid, ?_⟩⟩
        · simp
        · intro rs qs h; cases h
      · refine (hI.thr u).frame (upd_ne _ _ hu) ?_ Iff.rfl (fun h => h) ?_
        · show none = some u ↔ s.holderS = some u
          rw [hh]; simp; exact fun h => hu h.symm
        · intro h; rw [hh] at h; exact absurd (Option.some.inj h).symm hu
    · intro _
      exact (hH.q hqs).mono (bound_le (fun h => (hH.used h).1))

/-- assembling the invariant after a step of the holder `t` of sendMutex that touches no lock -/
theorem assemble_data {s' : State} {m' : MState} {reg' : Nat} {rs' : RS} {qs' : QS} {cr : RM}
    (hI : InvM p n0 s m) (hh : s.holderS = some t)
    (hW : (cr = .write ↔ s.writerR = some t)) (hR : cr = .read → t ∈ s.readersR)
    (hV : cr = .write → (t == 0) = true)
    (hwf : wf (t == 0) p ⟨.held rs' qs', cr⟩ rest = true)
    (hS' : s'.holderS = s.holderS) (hW' : s'.writerR = s.writerR) (hR' : s'.readersR = s.readersR)
    (hth : s'.th = upd s.th t ⟨rest, reg'⟩)
    (hrun : mrun p (minit n0) s'.trace = .ok m') (hG : Glob s' m')
    (hH : HeldOK p reg' (view s' m') rs' qs') : Inv p n0 s' := by
  refine ⟨m', hrun, hG, ?_, ?_⟩
  · intro u
    by_cases hu : u = t
    · subst hu
      refine ⟨⟨.held rs' qs', cr⟩, ⟨by rw [hth]; simpa using hwf, ?_, ?_, ?_, hV, ?_⟩⟩
      · rw [hS']; simpa using hh
      · rw [hW']; exact hW
      · rw [hR']; exact hR
      · intro rs qs h
        simp only [SM.held.injEq] at h
        obtain ⟨rfl, rfl⟩ := h
        rw [hth]; simpa using hH
    · exact others_data hI.thr hh (fun u hu => by rw [hth]; exact upd_ne _ _ hu) hS' hW' hR' u hu
  · intro h; rw [hS', hh] at h; cases h

theorem case_readSeq (hI : InvM p n0 s m) (htodo : (s.th t).todo = .readSeq :: rest) (hc : ThreadOKc p s m t c)
    (hws : wfStep (t == 0) p c .readSeq = some c') (hwf : wf (t == 0) p c' rest = true) : Inv p n0 (step1 s t) := by
  rw [step1_cons htodo]
  obtain ⟨cs, cr⟩ := c
  cases cs with
  | free => simp [wfStep] at hws
  | held rs qs =>
    simp only [wfStep, Option.some.injEq] at hws
    subst hws
    have hh : s.holderS = some t := hc.hS.1 (by simp)
    have hH := hc.held rs qs rfl
    simp only [act]
    refine assemble_data hI hh hc.hW hc.hR hc.valid hwf rfl rfl rfl rfl hI.run
      ⟨hI.glob.cur, hI.glob.saved, hI.glob.rid, hI.glob.rheld, hI.glob.reg, hI.glob.wr⟩ ?_
    have hb := bound_le (fun h => (hH.used h).1)
    exact ⟨fun _ => rfl, (fun h => by cases h), Nat.lt_of_lt_of_le hH.lo hb, fun h => (hH.q h).mono hb, hH.emp⟩

theorem case_storeReset (hI : InvM p n0 s m) (htodo : (s.th t).todo = .storeReset :: rest) (hc : ThreadOKc p s m t c)
    (hws : wfStep (t == 0) p c .storeReset = some c') (hwf : wf (t == 0) p c' rest = true) : Inv p n0 (step1 s t) := by
  rw [step1_cons htodo]
  obtain ⟨cs, cr⟩ := c
  cases cs with
  | free => simp [wfStep] at hws
  | held rs qs =>
    simp only [wfStep, Option.some.injEq] at hws
    subst hws
    have hh : s.holderS = some t := hc.hS.1 (by simp)
    have hH := hc.held rs qs rfl
    simp only [act]
    let m' : MState := { m with cur := 1, saved := [], lastFirst := 0 }
    have hstep : mrun p m [Ev.reset] = .ok m' := by simp [mrun, mstep, m']
    refine assemble_data (m' := m') hI hh hc.hW hc.hR hc.valid hwf rfl rfl rfl rfl
      (mrun_snoc_ok hI.run hstep) ⟨rfl, rfl, hI.glob.rid, hI.glob.rheld, hI.glob.reg, hI.glob.wr⟩ ?_
    have hemp : (if qs = QS.empty then QS.empty else QS.stale) ≠ .stale → s.queue = [] := by
      intro h; split at h
      · rename_i hq; exact hH.emp hq
      · exact absurd rfl h
    refine ⟨(fun h => by cases h), (fun h => by cases h), by simp [bound, view, m'], fun h => ?_, fun h => ?_⟩
    · have hq := hemp h
      refine ⟨?_, ?_, ?_, ?_, ?_⟩ <;> simp [view, hq, QInc, TailDup, bound, m']
    · exact hemp (by rw [h]; simp)

theorem case_persistIncr (hI : InvM p n0 s m) (htodo : (s.th t).todo = .persistIncr :: rest) (hc : ThreadOKc p s m t c)
    (hws : wfStep (t == 0) p c .persistIncr = some c') (hwf : wf (t == 0) p c' rest = true) : Inv p n0 (step1 s t) := by
  rw [step1_cons htodo]
  obtain ⟨cs, cr⟩ := c
  cases cs with
  | free => simp [wfStep] at hws
  | held rs qs =>
    cases rs <;> simp only [wfStep] at hws <;> (try (simp at hws; done))
    split at hws <;> simp at hws
    rename_i hp
    subst hws
    have hh : s.holderS = some t := hc.hS.1 (by simp)
    have hH := hc.held .fresh qs rfl
    have hreg : (s.th t).reg = s.sender := hH.fresh rfl
    simp only [act]
    let m' : MState := { m with cur := s.sender + 1, saved := m.saved ++ [(s.th t).reg] }
    have hstep : mrun p m [Ev.assign (s.th t).reg (s.sender + 1) true] = .ok m' := by
      simp [mrun, mstep, m', hI.glob.cur, hreg]
    refine assemble_data (m' := m') hI hh hc.hW hc.hR hc.valid hwf rfl rfl rfl rfl
      (mrun_snoc_ok hI.run hstep) ⟨rfl, ?_, hI.glob.rid, hI.glob.rheld, hI.glob.reg, hI.glob.wr⟩ ?_
    · show m.saved ++ [(s.th t).reg] = s.persisted ++ [(s.th t).reg]
      rw [hI.glob.saved]
    · have hlo : m.lastFirst < (s.th t).reg := by rw [hreg]; exact hH.lo
      refine ⟨(fun h => by cases h), fun _ => ⟨by simp [view, hreg], fun _ => by simp [view]⟩, hlo, fun h => ?_, hH.emp⟩
      have hq := hH.q h
      refine ⟨?_, fun hp e he hf => ?_, hq.tags, hq.tail, hq.reg⟩
      · have := hq.inc
        simp only [bound, view] at this ⊢
        rw [hreg]; exact this
      · have := hq.sav hp e he hf
        simp only [view] at this ⊢
        exact List.mem_append_left _ this

theorem case_incrOnly (hI : InvM p n0 s m) (htodo : (s.th t).todo = .incrOnly :: rest) (hc : ThreadOKc p s m t c)
    (hws : wfStep (t == 0) p c .incrOnly = some c') (hwf : wf (t == 0) p c' rest = true) : Inv p n0 (step1 s t) := by
  rw [step1_cons htodo]
  obtain ⟨cs, cr⟩ := c
  cases cs with
  | free => simp [wfStep] at hws
  | held rs qs =>
    cases rs <;> simp only [wfStep] at hws <;> (try (simp at hws; done))
    split at hws <;> simp at hws
    rename_i hp
    subst hws
    have hh : s.holderS = some t := hc.hS.1 (by simp)
    have hH := hc.held .fresh qs rfl
    have hreg : (s.th t).reg = s.sender := hH.fresh rfl
    simp only [act]
    let m' : MState := { m with cur := s.sender + 1 }
    have hstep : mrun p m [Ev.assign (s.th t).reg (s.sender + 1) false] = .ok m' := by
      simp [mrun, mstep, m', hI.glob.cur, hreg]
    refine assemble_data (m' := m') hI hh hc.hW hc.hR hc.valid hwf rfl rfl rfl rfl
      (mrun_snoc_ok hI.run hstep) ⟨rfl, hI.glob.saved, hI.glob.rid, hI.glob.rheld, hI.glob.reg, hI.glob.wr⟩ ?_
    have hlo : m.lastFirst < (s.th t).reg := by rw [hreg]; exact hH.lo
    refine ⟨(fun h => by cases h), fun _ => ⟨by simp [view, hreg], fun h => by rw [hp] at h; cases h⟩, hlo, fun h => ?_, hH.emp⟩
    have hq := hH.q h
    refine ⟨?_, hq.sav, hq.tags, hq.tail, hq.reg⟩
    have := hq.inc
    simp only [bound, view] at this ⊢
    rw [hreg]; exact this

theorem case_enqueue (hI : InvM p n0 s m) (htodo : (s.th t).todo = .enqueue :: rest) (hc : ThreadOKc p s m t c)
    (hws : wfStep (t == 0) p c .enqueue = some c') (hwf : wf (t == 0) p c' rest = true) : Inv p n0 (step1 s t) := by
  rw [step1_cons htodo]
  obtain ⟨cs, cr⟩ := c
  cases cs with
  | free => simp [wfStep] at hws
  | held rs qs =>
    cases rs <;> simp only [wfStep] at hws <;> (try (simp at hws; done))
    split at hws <;> simp at hws
    rename_i hcond
    obtain ⟨hqs, hcr, hsr⟩ := hcond
    subst hws
    have hh : s.holderS = some t := hc.hS.1 (by simp)
    have hH := hc.held .used qs rfl
    obtain ⟨hreg, hsv⟩ := hH.used rfl
    have hnw : s.writerR = none := no_writer_of_held hI.glob hc hcr hsr
    have hnr : m.inRegion = false := by
      cases h : m.inRegion with
      | false => rfl
      | true => have := hI.glob.reg h; rw [hI.glob.rheld, hnw] at this; cases this
    simp only [act]
    refine assemble_data hI hh hc.hW hc.hR hc.valid hwf rfl rfl rfl rfl hI.run
      ⟨hI.glob.cur, hI.glob.saved, hI.glob.rid, hI.glob.rheld, hI.glob.reg, hI.glob.wr⟩ ?_
    have hq := hH.q hqs
    have hlt : (s.th t).reg < s.sender := by simp only [view] at hreg; omega
    refine ⟨(fun h => by cases h), (fun h => by cases h), ?_, fun _ => ?_, (fun h => by cases h)⟩
    · exact Nat.lt_trans hH.lo hlt
    · refine ⟨?_, ?_, ?_, ?_, ?_⟩
      · exact QInc.snoc_first hq.inc hlt
      · intro hp e he hf
        simp only [view] at he
        rcases List.mem_append.1 he with he | he
        · exact hq.sav hp e he hf
        · simp at he; subst he; exact hsv hp
      · intro e he r hr
        simp only [view] at he
        rcases List.mem_append.1 he with he | he
        · exact hq.tags e he r hr
        · simp at he; subst he; cases hr
      · intro hw; simp [view, hnw] at hw
      · intro hr; simp [view, hnr] at hr

theorem case_enqueueDup {n : Nat} (hI : InvM p n0 s m) (htodo : (s.th t).todo = .enqueueDup n :: rest)
    (hc : ThreadOKc p s m t c)
    (hws : wfStep (t == 0) p c (.enqueueDup n) = some c') (hwf : wf (t == 0) p c' rest = true) : Inv p n0 (step1 s t) := by
  rw [step1_cons htodo]
  obtain ⟨cs, cr⟩ := c
  cases cs with
  | free => simp [wfStep] at hws
  | held rs qs =>
    simp only [wfStep] at hws
    split at hws <;> simp at hws
    rename_i hcond
    obtain ⟨_, hqs⟩ := hcond
    subst hws
    have hh : s.holderS = some t := hc.hS.1 (by simp)
    have hH := hc.held rs qs rfl
    simp only [act]
    refine assemble_data hI hh hc.hW hc.hR hc.valid hwf rfl rfl rfl rfl hI.run
      ⟨hI.glob.cur, hI.glob.saved, hI.glob.rid, hI.glob.rheld, hI.glob.reg, hI.glob.wr⟩ ?_
    have hq := hH.q hqs
    refine ⟨hH.fresh, hH.used, hH.lo, fun _ => ?_, (fun h => by cases h)⟩
    refine ⟨?_, ?_, ?_, ?_, ?_⟩
    · exact QInc.snoc_dup hq.inc
    · intro hp e he hf
      simp only [view] at he
      rcases List.mem_append.1 he with he | he
      · exact hq.sav hp e he hf
      · simp at he; subst he; cases hf
    · intro e he r hr
      simp only [view] at he
      rcases List.mem_append.1 he with he | he
      · exact hq.tags e he r hr
      · simp at he; subst he; simp at hr; subst hr; exact Nat.le_refl _
    · intro hw; exact TailDup.snoc (hq.tail hw)
    · intro hr e he
      simp only [view] at he
      rcases List.mem_append.1 he with he | he
      · exact hq.reg hr e he
      · simp at he; subst he; rfl

theorem case_dropQ (hI : InvM p n0 s m) (htodo : (s.th t).todo = .dropQ :: rest) (hc : ThreadOKc p s m t c)
    (hws : wfStep (t == 0) p c .dropQ = some c') (hwf : wf (t == 0) p c' rest = true) : Inv p n0 (step1 s t) := by
  rw [step1_cons htodo]
  obtain ⟨cs, cr⟩ := c
  cases cs with
  | free => simp [wfStep] at hws
  | held rs qs =>
    simp only [wfStep, Option.some.injEq] at hws
    subst hws
    have hh : s.holderS = some t := hc.hS.1 (by simp)
    have hH := hc.held rs qs rfl
    simp only [act]
    refine assemble_data hI hh hc.hW hc.hR hc.valid hwf rfl rfl rfl rfl hI.run
      ⟨hI.glob.cur, hI.glob.saved, hI.glob.rid, hI.glob.rheld, hI.glob.reg, hI.glob.wr⟩ ?_
    refine ⟨hH.fresh, hH.used, hH.lo, fun _ => ?_, fun _ => rfl⟩
    refine ⟨?_, ?_, ?_, ?_, ?_⟩
    · exact hH.lo
    · intro _ e he; simp [view] at he
    · intro e he; simp [view] at he
    · intro _; trivial
    · intro _ e he; simp [view] at he

theorem case_flush {lim : Option Nat} (hI : InvM p n0 s m) (htodo : (s.th t).todo = .flush lim :: rest)
    (hc : ThreadOKc p s m t c)
    (hws : wfStep (t == 0) p c (.flush lim) = some c') (hwf : wf (t == 0) p c' rest = true) : Inv p n0 (step1 s t) := by
  rw [step1_cons htodo]
  obtain ⟨cs, cr⟩ := c
  cases cs with
  | free => simp [wfStep] at hws
  | held rs qs =>
    simp only [wfStep] at hws
    split at hws <;> simp at hws
    rename_i hqs
    subst hws
    have hh : s.holderS = some t := hc.hS.1 (by simp)
    have hH := hc.held rs qs rfl
    simp only [act]
    have hq := hH.q hqs
    obtain ⟨m', hr', a1, a2, a3, a4, a5, a6⟩ :=
      flush_mon p s.sender s.persisted s.rcount s.writerR.isSome (bound rs (s.th t).reg s.sender) s.queue
        (lim.getD s.queue.length) m hI.glob.saved hI.glob.rid hI.glob.rheld hI.glob.reg hq
    refine assemble_data (m' := m') hI hh hc.hW hc.hR hc.valid hwf rfl rfl rfl rfl
      (mrun_snoc_ok hI.run hr') ⟨?_, ?_, ?_, ?_, a5, hI.glob.wr⟩ ?_
    · rw [a1]; exact hI.glob.cur
    · rw [a2]; exact hI.glob.saved
    · rw [a3]; exact hI.glob.rid
    · rw [a4]; exact hI.glob.rheld
    · refine ⟨hH.fresh, hH.used, a6.inc.lt, fun _ => a6, fun h => ?_⟩
      have := hH.emp h
      simp only [view] at this ⊢
      rw [this]; simp

end cases

/-- every scheduled step of every thread preserves the invariant -/
theorem inv_step1 {p : Bool} {n0 : Nat} {s : State} (h : Inv p n0 s) (t : Nat) : Inv p n0 (step1 s t) := by
  obtain ⟨m, hI⟩ := h
  cases htodo : (s.th t).todo with
  | nil => unfold step1; rw [htodo]; exact ⟨m, hI⟩
  | cons st rest =>
    obtain ⟨c, hc⟩ := hI.thr t
    have hwf := hc.wf
    rw [htodo] at hwf
    obtain ⟨c', hws, hwf'⟩ := wf_cons hwf
    cases st with
    | rlockR => exact case_rlockR hI htodo hc hws hwf'
    | runlockR => exact case_runlockR hI htodo hc hws hwf'
    | lockR => exact case_lockR hI htodo hc hws hwf'
    | unlockR => exact case_unlockR hI htodo hc hws hwf'
    | lockS => exact case_lockS hI htodo hc hws hwf'
    | unlockS => exact case_unlockS hI htodo hc hws hwf'
    | readSeq => exact case_readSeq hI htodo hc hws hwf'
    | storeReset => exact case_storeReset hI htodo hc hws hwf'
    | persistIncr => exact case_persistIncr hI htodo hc hws hwf'
    | incrOnly => exact case_incrOnly hI htodo hc hws hwf'
    | enqueue => exact case_enqueue hI htodo hc hws hwf'
    | enqueueDup n => exact case_enqueueDup hI htodo hc hws hwf'
    | flush lim => exact case_flush hI htodo hc hws hwf'
    | dropQ => exact case_dropQ hI htodo hc hws hwf'
    | notify => exact case_notify hI htodo hc hws hwf'

/-- … hence every schedule -/
theorem inv_run {p : Bool} {n0 : Nat} (sched : List Nat) {s : State} (h : Inv p n0 s) : Inv p n0 (run s sched) := by
  induction sched generalizing s with
  | nil => exact h
  | cons t ts ih => exact ih (inv_step1 h t)

/-- the initial state of well-formed programs satisfies the invariant (any initial outbound number ≥ 1) -/
theorem inv_init {p : Bool} {n0 : Nat} (hn : 0 < n0) {progs : Nat → List Step}
    (hwf : ∀ t, wf (t == 0) p ⟨.free, .none⟩ (progs t) = true) : Inv p n0 (initRaw n0 progs) := by
  refine ⟨minit n0, rfl, ⟨rfl, rfl, rfl, rfl, (fun h => by cases h), (fun w h => by cases h)⟩, ?_, ?_⟩
  · intro u
    refine ⟨⟨.free, .none⟩, ⟨hwf u, ?_, ?_, ?_, ?_, ?_⟩⟩
    · simp [initRaw]
    · simp [initRaw]
    · intro h; cases h
    · intro h; cases h
    · intro rs qs h; cases h
  · intro _
    refine ⟨hn, ?_, ?_, ?_, ?_⟩ <;> simp [view, initRaw, minit]

theorem Inv.monitor {p : Bool} {n0 : Nat} {s : State} (h : Inv p n0 s) : MonitorC02 p n0 s.trace = true := by
  obtain ⟨m, hI⟩ := h
  simp [MonitorC02, hI.run]

/-! ### the entry points respect the lock discipline -/

theorem wfTo_queueForSend (sess p : Bool) :
    wfTo sess p ⟨.free, .none⟩ (prog_queueForSend p) = some ⟨.free, .none⟩ := by
  cases sess <;> cases p <;> rfl

theorem wfTo_sendInReplyTo (sess p : Bool) (lim : Option Nat) :
    wfTo sess p ⟨.free, .none⟩ (prog_sendInReplyTo p lim) = some ⟨.free, .none⟩ := by
  cases sess <;> cases p <;> simp [prog_sendInReplyTo, prog_prep, wfTo, wfStep]

theorem wfTo_dropAndReset (sess p : Bool) :
    wfTo sess p ⟨.free, .none⟩ prog_dropAndReset = some ⟨.free, .none⟩ := by
  simp [prog_dropAndReset, wfTo, wfStep]

/-- a foreign goroutine's calls: SendToTarget, and ResetSession with any ShutdownNow outcome -/
theorem wfTo_acall (p : Bool) (c : ACall) :
    wfTo false p ⟨.free, .none⟩ (c.prog p) = some ⟨.free, .none⟩ := by
  cases c with
  | queueForSend => exact wfTo_queueForSend false p
  | resetSession sd =>
    simp only [ACall.prog, prog_resetSession, wfTo_append]
    cases sd with
    | nothing => simp [prog_shutdownNow, wfTo, wfTo_dropAndReset]
    | logout l lim =>
      cases l
      · simp [prog_shutdownNow, prog_sendInReplyToFull, wfTo_queueForSend, wfTo_dropAndReset]
      · simp [prog_shutdownNow, prog_sendInReplyToFull, wfTo_sendInReplyTo, wfTo_dropAndReset]

theorem wfTo_apps (p : Bool) (calls : List ACall) :
    wfTo false p ⟨.free, .none⟩ (calls.flatMap (ACall.prog p)) = some ⟨.free, .none⟩ := by
  induction calls with
  | nil => rfl
  | cons c cs ih => simp only [List.flatMap_cons, wfTo_append, wfTo_acall, Option.bind_some, ih]

theorem wfTo_ebs (p l : Bool) (n : Nat) (lim : Option Nat) (r : RM) :
    wfTo true p ⟨.free, r⟩ (prog_enqueueBytesAndSend l n lim) = some ⟨.free, r⟩ := by
  cases l <;> simp [prog_enqueueBytesAndSend, wfTo, wfStep]

theorem wfTo_items (p : Bool) (items : List Item) :
    wfTo true p ⟨.free, .write⟩ (items.flatMap (fun it => prog_enqueueBytesAndSend it.loggedOn it.num it.lim))
      = some ⟨.free, .write⟩ := by
  induction items with
  | nil => rfl
  | cons it items ih => simp only [List.flatMap_cons, wfTo_append, wfTo_ebs, Option.bind_some, ih]

theorem wfTo_scall (p : Bool) (c : SCall) :
    wfTo true p ⟨.free, .none⟩ (c.prog p) = some ⟨.free, .none⟩ := by
  cases c with
  | queueForSend => exact wfTo_queueForSend true p
  | sendInReplyTo lim => exact wfTo_sendInReplyTo true p lim
  | dropAndSendInReplyTo reset lim =>
    cases p <;> cases reset <;> simp [SCall.prog, prog_dropAndSendInReplyTo, prog_prep, wfTo, wfStep]
  | sendAppMessages l lim => cases l <;> simp [SCall.prog, prog_sendAppMessages, wfTo, wfStep]
  | dropAndReset => exact wfTo_dropAndReset true p
  | enqueueBytesAndSend l n lim => exact wfTo_ebs p l n lim .none
  | resendMessages items =>
    simp only [SCall.prog, prog_resendMessages, wfTo_append]
    simp [wfTo, wfStep, wfTo_items]

theorem wfTo_sess (p : Bool) (calls : List SCall) :
    wfTo true p ⟨.free, .none⟩ (calls.flatMap (SCall.prog p)) = some ⟨.free, .none⟩ := by
  induction calls with
  | nil => rfl
  | cons c cs ih => simp only [List.flatMap_cons, wfTo_append, wfTo_scall, Option.bind_some, ih]


end Qfx.Conc
