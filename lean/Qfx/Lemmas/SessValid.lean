/-
  Qfx.Lemmas.SessValid — the validator inside the session model (`Qfx.Sess.validate`): what it reduces to when no data
  dictionary is configured (the default validator: `validateFieldContent` under the two settings), and a sufficient
  condition for its acceptance that the towers over well-formed wire traffic (C05) use: no empty value, header fields
  first (`SecOrd`).
-/
import Qfx.Spec.SessionTypedC06
import Qfx.Lemmas.ValidateReasons
namespace Qfx.Sess
open Qfx Qfx.Validate

/-! ## tag classes -/

theorem trailer_not_header (t : Nat) (h : isTrailerTag t = true) : isHeaderTag t = false := by
  unfold isTrailerTag trailerTags at h
  simp only [List.contains_cons, List.contains_nil, Bool.or_false, Bool.or_eq_true, beq_iff_eq] at h
  rcases h with rfl | rfl | rfl <;> decide

def hdrOnly (f : Fields) : Bool := f.all fun p => isHeaderTag p.1
def bodyOnly (f : Fields) : Bool := f.all fun p => !isHeaderTag p.1 && !isTrailerTag p.1

/-- header fields first, then body fields; no trailer field (BodyLength and CheckSum are not part of `InMsg`) -/
def SecOrd (f : Fields) : Prop := ∃ h b, f = h ++ b ∧ hdrOnly h = true ∧ bodyOnly b = true

theorem SecOrd.body {f : Fields} (h : bodyOnly f = true) : SecOrd f := ⟨[], f, rfl, rfl, h⟩

theorem hdrOnly_append {a b : Fields} (ha : hdrOnly a = true) (hb : hdrOnly b = true) : hdrOnly (a ++ b) = true := by
  unfold hdrOnly at *; rw [List.all_append, ha, hb]; rfl

theorem bodyOnly_append {a b : Fields} (ha : bodyOnly a = true) (hb : bodyOnly b = true) : bodyOnly (a ++ b) = true := by
  unfold bodyOnly at *; rw [List.all_append, ha, hb]; rfl

theorem SecOrd.hdr_append {h f : Fields} (hh : hdrOnly h = true) (ho : SecOrd f) : SecOrd (h ++ f) := by
  obtain ⟨h', b, rfl, h1, h2⟩ := ho
  exact ⟨h ++ h', b, (List.append_assoc _ _ _).symm, hdrOnly_append hh h1, h2⟩

theorem all_filter_of_all {α} (p q : α → Bool) (l : List α) (h : l.all p = true) : (l.filter q).all p = true := by
  rw [List.all_eq_true] at h ⊢
  intro x hx
  exact h x (List.mem_filter.1 hx).1

theorem SecOrd.filter {f : Fields} (q : Nat × String → Bool) (ho : SecOrd f) : SecOrd (f.filter q) := by
  obtain ⟨h, b, rfl, h1, h2⟩ := ho
  exact ⟨h.filter q, b.filter q, List.filter_append .., all_filter_of_all _ q h h1, all_filter_of_all _ q b h2⟩

/-! ## values on the wire -/

theorem toList_ne_nil_of_ne_empty (v : String) (h : v ≠ "") : v.toList ≠ [] := by
  intro hl
  apply h
  have : v.toList = "".toList := by rw [hl]; rfl
  exact String.toList_inj.1 this

theorem wireValue_nonempty (v : String) (h : v.isEmpty = false) : (wireValue v).isEmpty = false := by
  have hne : v ≠ "" := by
    intro hs; rw [hs] at h; simp at h
  have hl := toList_ne_nil_of_ne_empty v hne
  unfold wireValue
  split
  · split
    · rfl
    · unfold strBytes
      cases hv : v.toList with
      | nil => exact absurd hv hl
      | cons c r => rfl
  · unfold strBytes
    cases hv : v.toList with
    | nil => exact absurd hv hl
    | cons c r => rfl

/-! ## `validateFieldContent` on header* body* trailer* -/

theorem bnot_true {b : Bool} (h : (!b) = true) : b = false := by cases b <;> simp_all

def tvHdr (l : List TV) : Bool := l.all fun f => isHeaderTag f.tag
def tvBody (l : List TV) : Bool := l.all fun f => !isHeaderTag f.tag && !isTrailerTag f.tag
def tvTrl (l : List TV) : Bool := l.all fun f => isTrailerTag f.tag
def tvVals (hv : Bool) (l : List TV) : Bool := l.all fun f => !(hv && f.value.isEmpty)

theorem fcl_t (hv ord : Bool) : ∀ (T : List TV) (it : Bool), tvTrl T = true → tvVals hv T = true →
    fieldContentLoop hv ord T false it = .ok ()
  | [], _, _, _ => by unfold fieldContentLoop; rfl
  | f :: T, it, ht, hvv => by
    unfold tvTrl at ht; unfold tvVals at hvv
    simp only [List.all_cons, Bool.and_eq_true] at ht hvv
    have hh := trailer_not_header _ ht.1
    have hval : (hv && f.value.isEmpty) = false := bnot_true hvv.1
    unfold fieldContentLoop
    simp only [hval, Bool.false_eq_true, if_false, Bool.false_and, hh, Bool.not_false, Bool.and_true, Bool.not_true, ht.1, if_true]
    exact fcl_t hv ord T true ht.2 hvv.2

theorem fcl_bt (hv ord : Bool) : ∀ (B T : List TV), tvBody B = true → tvTrl T = true → tvVals hv B = true → tvVals hv T = true →
    fieldContentLoop hv ord (B ++ T) false false = .ok ()
  | [], T, _, ht, _, hvt => by simpa using fcl_t hv ord T false ht hvt
  | f :: B, T, hb, ht, hvb, hvt => by
    unfold tvBody at hb; unfold tvVals at hvb
    simp only [List.all_cons, Bool.and_eq_true, Bool.not_eq_true'] at hb hvb
    have hval : (hv && f.value.isEmpty) = false := by simpa using hvb.1
    rw [List.cons_append]
    unfold fieldContentLoop
    simp only [hval, Bool.false_eq_true, if_false, Bool.false_and, hb.1.1, hb.1.2, Bool.not_false, Bool.and_true, Bool.true_and]
    exact fcl_bt hv ord B T (by unfold tvBody; simpa using hb.2) ht (by unfold tvVals; simpa using hvb.2) hvt

theorem fcl_hbt (hv ord : Bool) : ∀ (H B T : List TV), tvHdr H = true → tvBody B = true → tvTrl T = true →
    tvVals hv H = true → tvVals hv B = true → tvVals hv T = true →
    fieldContentLoop hv ord (H ++ B ++ T) true false = .ok ()
  | f :: H, B, T, hh, hb, ht, hvh, hvb, hvt => by
    unfold tvHdr at hh; unfold tvVals at hvh
    simp only [List.all_cons, Bool.and_eq_true] at hh hvh
    have hval : (hv && f.value.isEmpty) = false := bnot_true hvh.1
    rw [List.cons_append, List.cons_append]
    unfold fieldContentLoop
    simp only [hval, Bool.false_eq_true, if_false, hh.1, Bool.and_self, if_true]
    exact fcl_hbt hv ord H B T (by unfold tvHdr; exact hh.2) hb ht (by unfold tvVals; exact hvh.2) hvb hvt
  | [], f :: B, T, _, hb, ht, _, hvb, hvt => by
    have hb' := hb
    unfold tvBody at hb; unfold tvVals at hvb
    simp only [List.all_cons, Bool.and_eq_true, Bool.not_eq_true'] at hb hvb
    have hval : (hv && f.value.isEmpty) = false := by simpa using hvb.1
    rw [List.nil_append, List.cons_append]
    unfold fieldContentLoop
    simp only [hval, Bool.false_eq_true, if_false, hb.1.1, Bool.and_false, Bool.not_false, Bool.and_true, if_true, hb.1.2]
    exact fcl_bt hv ord B T (by unfold tvBody; simpa using hb.2) ht (by unfold tvVals; simpa using hvb.2) hvt
  | [], [], [], _, _, _, _, _, _ => by unfold fieldContentLoop; rfl
  | [], [], f :: T, _, _, ht, _, _, hvt => by
    unfold tvTrl at ht; unfold tvVals at hvt
    simp only [List.all_cons, Bool.and_eq_true] at ht hvt
    have hh := trailer_not_header _ ht.1
    have hval : (hv && f.value.isEmpty) = false := bnot_true hvt.1
    rw [List.nil_append, List.nil_append]
    unfold fieldContentLoop
    simp only [hval, Bool.false_eq_true, if_false, hh, Bool.and_false, Bool.not_false, Bool.and_true, if_true, ht.1]
    exact fcl_t hv ord T true ht.2 hvt.2

/-! ## the session's validator without a dictionary -/

theorem validate_noDict (cfg : Cfg) (m : InMsg) (h : cfg.validator.app = none) :
    validate cfg m = rejOfV (
      if !(toPMsg cfg.validator.tr m).hdr.contains 35 then Validate.rej 1 35
      else validateFieldContent (toPMsg cfg.validator.tr m) cfg.validator.settings.checkHaveValues cfg.validator.settings.checkOrder) := by
  unfold validate runValidator
  rw [h]

theorem tvVals_map (hv : Bool) (f : Fields) (h : ∀ p ∈ f, p.2.isEmpty = false) : tvVals hv (f.map tvOf) = true := by
  unfold tvVals
  rw [List.all_eq_true]
  intro x hx
  obtain ⟨p, hp, rfl⟩ := List.mem_map.1 hx
  have := wireValue_nonempty p.2 (h p hp)
  simp [tvOf, this]

theorem tvHdr_map (f : Fields) (h : hdrOnly f = true) : tvHdr (f.map tvOf) = true := by
  unfold tvHdr hdrOnly at *
  rw [List.all_map]; exact h

theorem tvBody_map (f : Fields) (h : bodyOnly f = true) : tvBody (f.map tvOf) = true := by
  unfold tvBody bodyOnly at *
  rw [List.all_map]; exact h

theorem hdr_has35 (tr : Option VDict) (m : InMsg) (h : m.f.has 35 = true) : (toPMsg tr m).hdr.contains 35 = true := by
  unfold Fields.has at h
  rw [List.any_eq_true] at h
  obtain ⟨p, hp, hp35⟩ := h
  have hp35' : p.1 = 35 := by simpa using hp35
  rw [List.contains_iff_mem]
  unfold toPMsg
  simp only [List.mem_filter, List.mem_map]
  refine ⟨⟨tvOf p, ?_, by simp [tvOf, hp35']⟩, by unfold isHeaderField; rw [show isHeaderTag 35 = true by decide]; rfl⟩
  unfold wireFields
  cases hf : m.f with
  | nil => rw [hf] at hp; cases hp
  | cons q r =>
    rw [hf] at hp
    simp only []
    rcases List.mem_cons.1 hp with rfl | hp
    · exact List.mem_cons_self ..
    · exact List.mem_cons_of_mem _ (List.mem_cons_of_mem _ (List.mem_append_left _ (List.mem_map_of_mem hp)))

/-- **the default validator accepts** (any of its settings): a message whose first field is a header field, whose further
    fields are header fields then body fields, without an empty value, and with a MsgType -/
theorem validate_noDict_ok (cfg : Cfg) (m : InMsg) (p : Nat × String) (r : Fields) (hf : m.f = p :: r)
    (hp : isHeaderTag p.1 = true) (ho : SecOrd r) (hne : NoEmpty m) (h35 : m.f.has 35 = true)
    (happ : cfg.validator.app = none) : validate cfg m = none := by
  rw [validate_noDict cfg m happ, hdr_has35 _ m h35]
  simp only [Bool.not_true, Bool.false_eq_true, if_false]
  obtain ⟨h, b, rfl, hh, hb⟩ := ho
  have hfields : (toPMsg cfg.validator.tr m).fields =
      (tvOf p :: { tag := 9, value := [48] } :: h.map tvOf) ++ b.map tvOf ++ [{ tag := 10, value := [48, 48, 48] }] := by
    unfold toPMsg wireFields
    rw [hf]
    simp [List.map_append]
  unfold validateFieldContent
  split
  · rfl
  · rw [hfields]
    have hne' : ∀ q ∈ p :: (h ++ b), q.2.isEmpty = false := by rw [← hf]; exact hne
    have e := fcl_hbt cfg.validator.settings.checkHaveValues cfg.validator.settings.checkOrder
      (tvOf p :: { tag := 9, value := [48] } :: h.map tvOf) (b.map tvOf) [{ tag := 10, value := [48, 48, 48] }]
      (by
        unfold tvHdr
        simp only [List.all_cons, Bool.and_eq_true]
        exact ⟨by simpa [tvOf] using hp, by decide, tvHdr_map h hh⟩)
      (tvBody_map b hb) (by decide)
      (by
        have h1 := tvVals_map cfg.validator.settings.checkHaveValues [p] (by
          intro q hq; exact hne' q (by simp only [List.mem_singleton] at hq; subst hq; exact List.mem_cons_self ..))
        have h2 := tvVals_map cfg.validator.settings.checkHaveValues h (by
          intro q hq; exact hne' q (List.mem_cons_of_mem _ (List.mem_append_left _ hq)))
        unfold tvVals at h1 h2 ⊢
        simp only [List.map_cons, List.map_nil, List.all_cons, List.all_nil, Bool.and_true] at h1
        simp only [List.all_cons, Bool.and_eq_true]
        exact ⟨h1, by simp, h2⟩)
      (tvVals_map _ b (by intro q hq; exact hne' q (List.mem_cons_of_mem _ (List.mem_append_right _ hq))))
      (by unfold tvVals; simp)
    rw [e]; rfl

/-- with ValidateFieldsHaveValues on (the default), acceptance by the validator rules out empty values — with or without
    a dictionary the first stage that looks at values is `validateFieldContent` -/
theorem rejOfV_none {v : V Unit} (h : rejOfV v = none) : v = .ok () := by
  unfold rejOfV at h
  split at h
  · rfl
  · cases h
  · cases h

/-! ## the reasons a validator reject can carry -/

theorem rsn_runValidator (v : VCfg) (m : InMsg) : RsnOK (runValidator v m) := by
  unfold runValidator
  simp only []
  split
  · split
    · exact rsn_rej _ _ (by decide)
    · exact rsn_validateFieldContent _ _ _
  · exact rsn_validate _ _ _ _

/-- a validator reject never carries reason 9 (CompID problem) or 10 (SendingTime accuracy problem): `processReject` always
    answers it with a Reject and consumes the number, never with a Logout -/
theorem validate_reason_ok {cfg : Cfg} {m : InMsg} {reason : Nat} {t : Option Nat} {b : Bool}
    (h : validate cfg m = some (.plain reason t b)) : reason ≠ 9 ∧ reason ≠ 10 := by
  unfold validate at h
  have hr := rsn_runValidator cfg.validator m
  generalize runValidator cfg.validator m = v at h hr
  unfold rejOfV at h
  split at h
  · cases h
  · rename_i r
    simp only [Option.some.injEq, Rej.plain.injEq] at h
    obtain ⟨rfl, _, _⟩ := h
    exact hr r rfl
  · simp only [Option.some.injEq, Rej.plain.injEq] at h
    obtain ⟨rfl, _, _⟩ := h
    decide

end Qfx.Sess
