/-
  Frame facts: the handler functions of the model (everything below `setState`) never touch the state, the
  configuration, the connection or the inbound buffer.  One relation `Fr s s'`, one lemma per model function
  (same shape as the store tower in SessStore.lean).
-/
import Qfx.Model.Session
namespace Qfx.Sess
open Qfx

structure Fr (s s' : Sess) : Prop where
  st : s'.st = s.st
  cfg : s'.cfg = s.cfg
  out : s'.out = s.out
  inbox : s'.inbox = s.inbox
  inboxOpen : s'.inboxOpen = s.inboxOpen

theorem Fr.refl (s : Sess) : Fr s s := ⟨rfl, rfl, rfl, rfl, rfl⟩
theorem Fr.trans {a b c : Sess} (h1 : Fr a b) (h2 : Fr b c) : Fr a c :=
  ⟨h2.st.trans h1.st, h2.cfg.trans h1.cfg, h2.out.trans h1.out, h2.inbox.trans h1.inbox, h2.inboxOpen.trans h1.inboxOpen⟩

theorem fr_storeReset (s : Sess) : Fr s s.storeReset := ⟨rfl, rfl, rfl, rfl, rfl⟩
theorem fr_setTarget (s : Sess) (n : Int) : Fr s (s.setTarget n) := ⟨rfl, rfl, rfl, rfl, rfl⟩
theorem fr_incrTarget (s : Sess) : Fr s (incrTarget s) := ⟨rfl, rfl, rfl, rfl, rfl⟩
theorem fr_persistOut (s : Sess) (seq : Int) (m : OutMsg) : Fr s (s.persistOut seq m) := by
  unfold Sess.persistOut; split <;> exact ⟨rfl, rfl, rfl, rfl, rfl⟩

theorem fr_sendQueued (s : Sess) : Fr s (sendQueued s) := by
  unfold sendQueued; split
  · exact Fr.mk rfl rfl rfl rfl rfl
  · exact Fr.refl s

theorem fr_prep (s : Sess) (m : OutMsg) : Fr s (prep s m).2 := by
  unfold prep prepCore
  simp only []
  split
  · split
    · exact ((fr_storeReset s).trans (Fr.mk (s := s.storeReset) (s' := s.storeReset.setSentReset true) rfl rfl rfl rfl rfl)).trans
        (fr_persistOut _ _ _)
    · exact fr_persistOut _ _ _
  · split
    · exact Fr.refl s
    · exact fr_persistOut _ _ _

section peel
variable {s x : Sess}
theorem fpeel_emit (o : Obs) (h : Fr s x) : Fr s (x.emit o) := h.trans (Fr.mk rfl rfl rfl rfl rfl)
theorem fpeel_setToSend (q : List OutMsg) (h : Fr s x) : Fr s (x.setToSend q) := h.trans (Fr.mk rfl rfl rfl rfl rfl)
theorem fpeel_setSentReset (b : Bool) (h : Fr s x) : Fr s (x.setSentReset b) := h.trans (Fr.mk rfl rfl rfl rfl rfl)
theorem fpeel_setPendingStop (h : Fr s x) : Fr s x.setPendingStop := h.trans (Fr.mk rfl rfl rfl rfl rfl)
theorem fpeel_setStopped (h : Fr s x) : Fr s x.setStopped := h.trans (Fr.mk rfl rfl rfl rfl rfl)
theorem fpeel_setHb (hb : Int) (h : Fr s x) : Fr s (x.setHb hb) := h.trans (Fr.mk rfl rfl rfl rfl rfl)
theorem fpeel_clearLog (h : Fr s x) : Fr s x.clearLog := h.trans (Fr.mk rfl rfl rfl rfl rfl)
theorem fpeel_setTarget (n : Int) (h : Fr s x) : Fr s (x.setTarget n) := h.trans (fr_setTarget x n)
theorem fpeel_storeReset (h : Fr s x) : Fr s x.storeReset := h.trans (fr_storeReset x)
theorem fpeel_incrTarget (h : Fr s x) : Fr s (incrTarget x) := h.trans (fr_incrTarget x)
theorem fpeel_sendQueued (h : Fr s x) : Fr s (sendQueued x) := h.trans (fr_sendQueued x)
theorem fpeel_ite (c : Prop) [Decidable c] {a b : Sess} (ha : Fr s a) (hb : Fr s b) : Fr s (if c then a else b) := by
  split <;> assumption
end peel

syntax "fr_step" : tactic
macro_rules | `(tactic| fr_step) => `(tactic| assumption)
macro_rules | `(tactic| fr_step) => `(tactic| exact Fr.refl _)
macro_rules | `(tactic| fr_step) => `(tactic| apply fpeel_emit)
macro_rules | `(tactic| fr_step) => `(tactic| apply fpeel_setToSend)
macro_rules | `(tactic| fr_step) => `(tactic| apply fpeel_setSentReset)
macro_rules | `(tactic| fr_step) => `(tactic| apply fpeel_setPendingStop)
macro_rules | `(tactic| fr_step) => `(tactic| apply fpeel_setStopped)
macro_rules | `(tactic| fr_step) => `(tactic| apply fpeel_setHb)
macro_rules | `(tactic| fr_step) => `(tactic| apply fpeel_clearLog)
macro_rules | `(tactic| fr_step) => `(tactic| apply fpeel_setTarget)
macro_rules | `(tactic| fr_step) => `(tactic| apply fpeel_storeReset)
macro_rules | `(tactic| fr_step) => `(tactic| apply fpeel_incrTarget)
macro_rules | `(tactic| fr_step) => `(tactic| apply fpeel_sendQueued)
macro_rules | `(tactic| fr_step) => `(tactic| apply fpeel_ite)

macro "fr_peel" : tactic => `(tactic| with_reducible (repeat fr_step))
macro "fr_cases" : tactic => `(tactic| (
  (repeat' split)
  all_goals (try dsimp only)
  all_goals (repeat' split)
  all_goals (try dsimp only)
  all_goals (repeat' split)
  all_goals (try dsimp only)
  all_goals fr_peel))

theorem fr_queueForSend (s : Sess) (m : OutMsg) : Fr s (queueForSend s m) := by
  unfold queueForSend
  have hp := fr_prep s m
  generalize prep s m = r at hp
  obtain ⟨o, s'⟩ := r
  cases o <;> fr_peel

theorem fr_sendInReplyTo (s : Sess) (m : OutMsg) : Fr s (sendInReplyTo s m) := by
  unfold sendInReplyTo
  split
  · exact fr_queueForSend s _
  · have hp := fr_prep s m
    generalize prep s m = r at hp
    obtain ⟨o, s'⟩ := r
    cases o <;> fr_peel

theorem fr_dropAndSend (s : Sess) (m : OutMsg) : Fr s (dropAndSend s m) := by
  unfold dropAndSend
  have hp := fr_prep s m
  generalize prep s m = r at hp
  obtain ⟨o, s'⟩ := r
  cases o <;> fr_peel

theorem fr_enqueueAndSend (s : Sess) (m : OutMsg) : Fr s (enqueueAndSend s m) := by
  unfold enqueueAndSend
  simp only []
  fr_peel

theorem fr_dropAndReset (s : Sess) : Fr s (dropAndReset s) := by unfold dropAndReset; fr_peel

section peel2
variable {s x : Sess}
theorem fpeel_sendInReplyTo (m : OutMsg) (h : Fr s x) : Fr s (sendInReplyTo x m) := h.trans (fr_sendInReplyTo x m)
theorem fpeel_dropAndSend (m : OutMsg) (h : Fr s x) : Fr s (dropAndSend x m) := h.trans (fr_dropAndSend x m)
theorem fpeel_enqueueAndSend (m : OutMsg) (h : Fr s x) : Fr s (enqueueAndSend x m) := h.trans (fr_enqueueAndSend x m)
theorem fpeel_dropAndReset (h : Fr s x) : Fr s (dropAndReset x) := h.trans (fr_dropAndReset x)
theorem fpeel_sendLogonInReplyTo (r : Bool) (h : Fr s x) : Fr s (sendLogonInReplyTo x r) := h.trans (fr_dropAndSend x _)
theorem fpeel_sendLogonRe (r : Bool) (m : InMsg) (h : Fr s x) : Fr s (sendLogonRe x r m) := h.trans (fr_dropAndSend x _)
theorem fpeel_setReplyLast (v : Option Int) (h : Fr s x) : Fr s (x.setReplyLast v) := h.trans ⟨rfl, rfl, rfl, rfl, rfl⟩
theorem fpeel_sendLogout (h : Fr s x) : Fr s (sendLogout x) := h.trans (fr_sendInReplyTo x (mkOut "5" []))
theorem fpeel_initiateLogout (h : Fr s x) : Fr s (initiateLogout x) := h.trans (fr_sendInReplyTo x (mkOut "5" []))
theorem fpeel_doReject (m : InMsg) (r : Nat) (t : Option Nat) (b : Bool) (h : Fr s x) : Fr s (doReject x m r t b) :=
  h.trans (fr_sendInReplyTo x _)
theorem fr_sendResendRequest (s : Sess) (b e : Int) : Fr s (sendResendRequest s b e).1 := by
  unfold sendResendRequest; simp only []; split <;> exact fr_sendInReplyTo s _
theorem fpeel_sendResendRequest (b e : Int) (h : Fr s x) : Fr s (sendResendRequest x b e).1 := h.trans (fr_sendResendRequest x b e)
end peel2
macro_rules | `(tactic| fr_step) => `(tactic| apply fpeel_sendInReplyTo)
macro_rules | `(tactic| fr_step) => `(tactic| apply fpeel_dropAndSend)
macro_rules | `(tactic| fr_step) => `(tactic| apply fpeel_enqueueAndSend)
macro_rules | `(tactic| fr_step) => `(tactic| apply fpeel_dropAndReset)
macro_rules | `(tactic| fr_step) => `(tactic| apply fpeel_sendLogonInReplyTo)
macro_rules | `(tactic| fr_step) => `(tactic| apply fpeel_sendLogonRe)
macro_rules | `(tactic| fr_step) => `(tactic| apply fpeel_setReplyLast)
macro_rules | `(tactic| fr_step) => `(tactic| apply fpeel_sendLogout)
macro_rules | `(tactic| fr_step) => `(tactic| apply fpeel_initiateLogout)
macro_rules | `(tactic| fr_step) => `(tactic| apply fpeel_doReject)
macro_rules | `(tactic| fr_step) => `(tactic| apply fpeel_sendResendRequest)

theorem fr_sRR_eq {s : Sess} {b e : Int} {r : Sess × Int × Int} (hr : sendResendRequest s b e = r) : Fr s r.1 := by
  rw [← hr]; exact fr_sendResendRequest s b e

theorem fr_verifyAppImpl (s : Sess) (m : InMsg) : Fr s (verifyAppImpl s m).1 := by
  unfold verifyAppImpl; fr_cases

theorem fr_verifySelect (s : Sess) (m : InMsg) (a b c : Bool) : Fr s (verifySelect s m a b c).1 := by
  unfold verifySelect
  repeat' split
  all_goals first | exact Fr.refl s | exact fr_verifyAppImpl s m

theorem fr_doTargetTooLow (s : Sess) (m : InMsg) : Fr s (doTargetTooLow s m).1 := by
  unfold doTargetTooLow; fr_cases

theorem fr_processReject (s : Sess) (m : InMsg) (r : Rej) : Fr s (processReject s m r).1 := by
  unfold processReject
  split
  · split
    · exact Fr.refl s
    · split
      rename_i recv exp _ _ _ _ _ _ heq
      have := fr_sendResendRequest s exp (recv - 1)
      rw [heq] at this; exact this
  · exact fr_doTargetTooLow s m
  all_goals fr_cases

theorem fpeel_processReject {s x : Sess} (m : InMsg) (r : Rej) (h : Fr s x) : Fr s (processReject x m r).1 :=
  h.trans (fr_processReject x m r)
macro_rules | `(tactic| fr_step) => `(tactic| apply fpeel_processReject)

theorem fr_resendLoop (s : Sess) (a b : Int) (l : List (Int × OutMsg)) : Fr s (resendLoop s a b l).1 := by
  induction l generalizing s a b with
  | nil => exact Fr.refl s
  | cons p rest ih =>
    obtain ⟨n, m⟩ := p
    simp only [resendLoop]
    split
    · exact ih s a (n + 1)
    · split
      · exact ih s a (n + 1)
      · try dsimp only
        split
        · exact ((fr_enqueueAndSend s _).trans (fr_enqueueAndSend _ _)).trans (ih _ _ _)
        · exact (fr_enqueueAndSend s _).trans (ih _ _ _)

theorem fr_resendMessages (s : Sess) (b e : Int) : Fr s (resendMessages s b e) := by
  unfold resendMessages
  split
  · exact Fr.refl s
  · split
    · exact fr_enqueueAndSend s _
    · have hl := fr_resendLoop s b b (s.store.range b e)
      generalize resendLoop s b b (s.store.range b e) = r at hl
      obtain ⟨s', x, y⟩ := r
      try dsimp only at hl ⊢
      split
      · exact hl.trans (fr_enqueueAndSend s' _)
      · exact hl

theorem fpeel_resendMessages {s x : Sess} (b e : Int) (h : Fr s x) : Fr s (resendMessages x b e) := h.trans (fr_resendMessages x b e)
macro_rules | `(tactic| fr_step) => `(tactic| apply fpeel_resendMessages)

/-- the four handlers that start with `verifySelect` -/
theorem fr_handleLogout (s : Sess) (m : InMsg) : Fr s (handleLogout s m).1 := by
  unfold handleLogout
  have hv := fr_verifySelect s m false false true
  generalize verifySelect s m false false true = r at hv
  obtain ⟨s', o⟩ := r
  cases o with
  | some r => exact fpeel_processReject m r hv
  | none => dsimp only; fr_cases

theorem fr_handleTestRequest (s : Sess) (m : InMsg) : Fr s (handleTestRequest s m).1 := by
  unfold handleTestRequest
  have hv := fr_verifySelect s m true true true
  generalize verifySelect s m true true true = r at hv
  obtain ⟨s', o⟩ := r
  cases o with
  | some r => exact fpeel_processReject m r hv
  | none => dsimp only; fr_cases

theorem fr_handleSequenceReset_core (s : Sess) (m : InMsg) (gf : Bool) :
    Fr s (match verifySelect s m gf gf true with
      | (s, some r) => processReject s m r
      | (s, none) =>
        match getInt m 36 with
        | .val n =>
          if n > s.store.target then ((s.setTarget n).emit (.setT n), SState.inSession)
          else if n < s.store.target then (doReject s m 5 none false, SState.inSession)
          else (s, SState.inSession)
        | _ => (s, SState.inSession)).1 := by
  have hv := fr_verifySelect s m gf gf true
  generalize verifySelect s m gf gf true = r at hv
  obtain ⟨s', o⟩ := r
  cases o with
  | some r => exact fpeel_processReject m r hv
  | none => dsimp only; fr_cases

theorem fr_handleSequenceReset (s : Sess) (m : InMsg) : Fr s (handleSequenceReset s m).1 := by
  unfold handleSequenceReset
  split
  · exact fr_processReject s m _
  · exact fr_handleSequenceReset_core s m _

theorem fr_handleResendRequest (s : Sess) (m : InMsg) : Fr s (handleResendRequest s m).1 := by
  unfold handleResendRequest
  have hv := fr_verifySelect s m false false true
  generalize verifySelect s m false false true = r at hv
  obtain ⟨s', o⟩ := r
  simp only [] at hv
  cases o with
  | some r => exact fpeel_processReject m r hv
  | none => dsimp only; fr_cases

theorem fr_logonReply (s : Sess) (m : InMsg) (flag : Bool) : Fr s (logonReply s m flag) := by
  unfold logonReply; fr_cases

theorem fr_nxEval (s : Sess) (m : InMsg) (ns : Int) : Fr s (nxEval s m ns).1 := by
  unfold nxEval
  fr_cases

theorem fr_logonFinish (s : Sess) (m : InMsg) (ns : Int) : Fr s (logonFinish s m ns).1 := by
  unfold logonFinish
  have h : Fr s (nxEval (((s.setSentReset false).emit (.armPeer (1200 * s.hb))).emit .onLogon) m ns).1 :=
    Fr.trans (by fr_peel) (fr_nxEval _ m ns)
  generalize nxEval _ m ns = r at h
  obtain ⟨x, o⟩ := r
  cases o with
  | some r => exact h
  | none =>
    dsimp only at h ⊢
    fr_cases

theorem fr_logonRefused (s : Sess) (m : InMsg) : Fr s (logonRefused s m) := by
  unfold logonRefused
  fr_cases

theorem fr_logonTail (s : Sess) (m : InMsg) (ns : Int) : Fr s (logonTail s m ns).1 := by
  unfold logonTail
  split
  · exact fr_logonRefused s m
  · exact (fr_logonReply s m _).trans (fr_logonFinish _ m _)

theorem fr_handleLogon (s : Sess) (m : InMsg) : Fr s (handleLogon s m).1 := by
  unfold handleLogon
  split
  · exact Fr.refl s
  · generalize hs1 : (if (!s.cfg.initiator && s.cfg.refreshOnLogon) = true then s.emit Obs.refresh else s) = s1
    have h1 : Fr s s1 := by rw [← hs1]; fr_peel
    simp only []
    have hv := fr_verifyAppImpl s1 m
    generalize verifyAppImpl s1 m = r at hv
    obtain ⟨s2, o⟩ := r
    simp only [] at hv
    have h2 := h1.trans hv
    cases o with
    | some r => exact h2
    | none =>
      simp only []
      generalize hs3 : (if ((if s2.cfg.initiator = true then false else s2.cfg.resetOnLogon) || logonResetFlag m && !s2.sentReset) = true
          then dropAndReset s2 else s2) = s3
      have h3 : Fr s s3 := by rw [← hs3]; fr_peel
      have hv2 := fr_verifySelect s3 m false true false
      generalize verifySelect s3 m false true false = r2 at hv2
      obtain ⟨s4, o2⟩ := r2
      simp only [] at hv2
      have h4 := h3.trans hv2
      cases o2 with
      | some r => exact h4
      | none => exact h4.trans (fr_logonTail s4 m _)

theorem fr_inSessionFixMsgIn (s : Sess) (m : InMsg) : Fr s (inSessionFixMsgIn s m).1 := by
  unfold inSessionFixMsgIn
  simp only []
  split
  · have hl := fr_handleLogon s m
    generalize handleLogon s m = r at hl
    obtain ⟨s', o⟩ := r
    cases o with
    | some e => exact fpeel_sendInReplyTo ((mkOut "5" []).inReplyTo m) hl
    | none => exact hl
  · split
    · exact fr_handleLogout s m
    · split
      · exact fr_handleResendRequest s m
      · split
        · exact fr_handleSequenceReset s m
        · split
          · exact fr_handleTestRequest s m
          · have hv := fr_verifySelect s m true true true
            generalize verifySelect s m true true true = r at hv
            obtain ⟨s', o⟩ := r
            cases o with
            | some r => exact fpeel_processReject m r hv
            | none => exact fpeel_incrTarget hv

theorem fr_drainStash (fuel : Nat) (s : Sess) (stash : List (Int × InMsg)) (last : SState) :
    Fr s (drainStash fuel s stash last).1 := by
  induction fuel generalizing s stash last with
  | zero => exact Fr.refl s
  | succ n ih =>
    unfold drainStash
    split
    · exact Fr.refl s
    · simp only []
      rename_i nn m _
      have h1 := fr_inSessionFixMsgIn s m
      generalize inSessionFixMsgIn s m = r at h1
      obtain ⟨s', nx⟩ := r
      simp only [] at h1 ⊢
      split
      · exact h1
      · exact h1.trans (ih _ _ _)

theorem fr_drain_eq {fuel : Nat} {s : Sess} {stash : List (Int × InMsg)} {last : SState} {r : Sess × SState × List (Int × InMsg)}
    (hr : drainStash fuel s stash last = r) : Fr s r.1 := by
  rw [← hr]; exact fr_drainStash fuel s stash last

theorem fr_resendFixMsgIn (s : Sess) (stash : List (Int × InMsg)) (cur fin : Int) (m : InMsg) :
    Fr s (resendFixMsgIn s stash cur fin m).1 := by
  unfold resendFixMsgIn
  have h1 := fr_inSessionFixMsgIn s m
  generalize inSessionFixMsgIn s m = r at h1
  obtain ⟨s', nx⟩ := r
  simp only [] at h1 ⊢
  repeat' split
  all_goals (try dsimp only)
  all_goals first
    | exact h1
    | exact h1.trans (fr_sendResendRequest _ _ _)
    | exact h1.trans (fr_sRR_eq (by assumption))
    | exact h1.trans (fr_drain_eq (by assumption))

theorem fr_shutdownWithReason (s : Sess) (m : InMsg) (incr : Bool) : Fr s (shutdownWithReason s m incr).1 := by
  unfold shutdownWithReason
  show Fr s (if incr = true then incrTarget (dropAndSend s ((mkOut "5" []).inReplyTo m)) else dropAndSend s ((mkOut "5" []).inReplyTo m))
  fr_peel

theorem fr_handleLogon_eq {s : Sess} {m : InMsg} {r : Sess × Option LogonErr} (hr : handleLogon s m = r) : Fr s r.1 := by
  rw [← hr]; exact fr_handleLogon s m

theorem fr_logonFixMsgIn (s : Sess) (m : InMsg) : Fr s (logonFixMsgIn s m).1 := by
  unfold logonFixMsgIn
  split
  · exact Fr.refl s
  · repeat' split
    all_goals (try dsimp only)
    all_goals (
      have hh := fr_handleLogon_eq (by assumption : handleLogon s m = _)
      first
        | exact hh
        | exact hh.trans (fr_shutdownWithReason _ _ _)
        | exact hh.trans (fr_sRR_eq (by assumption)))

theorem fr_fixMsgInCore (s : Sess) (m : InMsg) : Fr s (fixMsgInCore s m).1 := by
  unfold fixMsgInCore
  split
  · exact Fr.refl s
  · exact Fr.refl s
  · exact fr_logonFixMsgIn s m
  · have h1 := fr_inSessionFixMsgIn s m
    generalize inSessionFixMsgIn s m = r at h1
    obtain ⟨s', nx⟩ := r
    dsimp only
    split <;> exact h1
  · exact fr_inSessionFixMsgIn s m
  · exact fr_inSessionFixMsgIn s m
  · exact fr_resendFixMsgIn s _ _ _ m
  · exact fr_resendFixMsgIn s _ _ _ m

theorem fr_inSessionTimeout (s : Sess) (e : TimerEv) : Fr s (inSessionTimeout s e).1 := by
  unfold inSessionTimeout; fr_cases

theorem fr_ist_eq {s : Sess} {e : TimerEv} {r : Sess × Bool} (hr : inSessionTimeout s e = r) : Fr s r.1 := by
  rw [← hr]; exact fr_inSessionTimeout s e

theorem fr_timeoutCore (s : Sess) (e : TimerEv) : Fr s (timeoutCore s e).1 := by
  unfold timeoutCore
  repeat' split
  all_goals (try dsimp only)
  all_goals first
    | exact Fr.refl s
    | exact fr_inSessionTimeout s e
    | exact fr_ist_eq (by assumption)

theorem fr_stopNext (s : Sess) : Fr s (stopNext s).1 := by
  unfold stopNext
  repeat' split
  all_goals (try dsimp only)
  all_goals fr_peel

