/-
  Qfx.Lemmas.DictCycle — the builder that refuses circular component references (`buildPartsS … buildS`)
  against the unchecked builder (`buildParts … build`) and against the executable spec.
  Property theorems are in Qfx/Props/C19.lean.
-/
import Qfx.Lemmas.Dict
namespace Qfx.Dict

section
variable {ν : Type} [DecidableEq ν]

/-! ## 1. a successful checked build is a successful unchecked build with the same result -/

theorem buildPartsS_ok (a : Ast ν) : ∀ fuel top memo stack ms r,
    buildPartsS a fuel top memo stack ms = .ok r → buildParts a fuel top memo ms = .ok r := by
  intro fuel
  induction fuel with
  | zero => intro top memo stack ms r h; simp [buildPartsS] at h
  | succ fuel ih =>
    intro top memo stack ms r h
    cases ms with
    | nil => simp only [buildPartsS] at h; simp only [buildParts]; exact h
    | cons m rest =>
      cases m with
      | field n rq =>
        simp only [buildPartsS] at h
        split at h
        · cases h
        · rename_i fd hfd
          split at h
          · cases h
          · rename_i ps1 memo1 h1
            simp only [buildParts, hfd, ih _ _ _ _ _ h1]; exact h
      | group n rq gms =>
        simp only [buildPartsS] at h
        split at h
        · cases h
        · rename_i fd hfd
          split at h
          · cases h
          · rename_i gps memo1 h1
            split at h
            · cases h
            · rename_i ps2 memo2 h2
              simp only [buildParts, hfd, ih _ _ _ _ _ h1, ih _ _ _ _ _ h2]; exact h
      | comp n rq =>
        simp only [buildPartsS] at h
        split at h
        · rename_i ct hct
          split at h
          · cases h
          · rename_i ps1 memo1 h1
            simp only [buildParts, hct, ih _ _ _ _ _ h1]; exact h
        · rename_i hct
          split at h
          · rename_i htop
            simp only [buildParts, hct, htop]; exact h
          · rename_i htop
            have ht : top = false := by simpa using htop
            subst ht
            split at h
            · cases h
            · rename_i cms hcms
              split at h
              · cases h
              · split at h
                · cases h
                · rename_i cps memo1 h1
                  split at h
                  · cases h
                  · rename_i ps2 memo2 h2
                    simp [buildParts, hct, hcms, ih _ _ _ _ _ h1, ih _ _ _ _ _ h2]
                    simpa using h

theorem buildComponentsS_ok (a : Ast ν) (fuel : Nat) : ∀ l memo memo',
    buildComponentsS a fuel l memo = .ok memo' → buildComponents a fuel l memo = .ok memo' := by
  intro l
  induction l with
  | nil => intro memo memo' h; simp only [buildComponentsS] at h; simp only [buildComponents]; exact h
  | cons c rest ih =>
    obtain ⟨n, ms⟩ := c
    intro memo memo' h
    simp only [buildComponentsS] at h
    split at h
    · rename_i ct hct
      simp only [buildComponents, hct]; exact ih _ _ h
    · rename_i hct
      split at h
      · cases h
      · rename_i ps memo1 h1
        simp only [buildComponents, hct, buildPartsS_ok a _ _ _ _ _ _ h1]; exact ih _ _ h

theorem buildMsgsS_ok (a : Ast ν) (fuel : Nat) (mk : List Part → MDef) (memo : Memo ν) : ∀ l acc msgs,
    buildMsgsS a fuel mk memo l acc = .ok msgs → buildMsgs a fuel mk memo l acc = .ok msgs := by
  intro l
  induction l with
  | nil => intro acc msgs h; simp only [buildMsgsS] at h; simp only [buildMsgs]; exact h
  | cons c rest ih =>
    obtain ⟨mt, ms⟩ := c
    intro acc msgs h
    simp only [buildMsgsS] at h
    split at h
    · cases h
    · rename_i ps memo1 h1
      simp only [buildMsgs, buildPartsS_ok a _ _ _ _ _ _ h1]; exact ih _ _ h

theorem buildOptS_ok (a : Ast ν) (fuel : Nat) (mk : List Part → MDef) (memo : Memo ν)
    (o : Option (List (Member ν))) (r : Option MDef)
    (h : buildOptS a fuel mk memo o = .ok r) : buildOpt a fuel mk memo o = .ok r := by
  cases o with
  | none => simp only [buildOptS] at h; simp only [buildOpt]; exact h
  | some ms =>
    simp only [buildOptS] at h
    split at h
    · cases h
    · rename_i ps memo1 h1
      simp only [buildOpt, buildPartsS_ok a _ _ _ _ _ _ h1]; exact h

/-- every dictionary built with the circular-reference check is built, identically, without it -/
theorem buildWithS_ok {a : Ast ν} {fuel : Nat} {mk : List Part → MDef} {d : Dict ν}
    (h : buildWithS a fuel mk = .ok d) : buildWith a fuel mk = .ok d := by
  unfold buildWithS at h
  split at h
  · cases h
  · rename_i memo hc
    split at h
    · cases h
    · rename_i msgs hm
      split at h
      · cases h
      · rename_i hd hh
        split at h
        · cases h
        · rename_i tr ht
          simp only [buildWith, buildComponentsS_ok a _ _ _ _ hc, buildMsgsS_ok a _ _ _ _ _ _ hm,
            buildOptS_ok a _ _ _ _ _ hh, buildOptS_ok a _ _ _ _ _ ht]
          exact h

/-! ## 2. one step of the naive expansion -/

theorem expandSpec_zero (a : Ast ν) (ms : List (Member ν)) : expandSpec a 0 ms = none := by
  simp [expandSpec]

theorem expandSpec_isSome_nil (a : Ast ν) (f : Nat) : (expandSpec a (f + 1) []).isSome = true := by
  simp [expandSpec]

theorem expandSpec_isSome_field (a : Ast ν) (f : Nat) (n : ν) (r : Bool) (rest : List (Member ν)) :
    (expandSpec a (f + 1) (.field n r :: rest)).isSome =
      ((specFieldNum a n).isSome && (expandSpec a f rest).isSome) := by
  simp only [expandSpec]
  cases specFieldNum a n with
  | none => rfl
  | some t =>
    cases expandSpec a f rest with
    | none => rfl
    | some x => obtain ⟨fs, rq⟩ := x; rfl

theorem expandSpec_isSome_group (a : Ast ν) (f : Nat) (n : ν) (r : Bool) (gms rest : List (Member ν)) :
    (expandSpec a (f + 1) (.group n r gms :: rest)).isSome =
      ((specFieldNum a n).isSome && (expandSpec a f gms).isSome && (expandSpec a f rest).isSome) := by
  simp only [expandSpec]
  cases specFieldNum a n with
  | none => rfl
  | some t =>
    cases expandSpec a f gms with
    | none => rfl
    | some x =>
      obtain ⟨ks, krq⟩ := x
      cases expandSpec a f rest with
      | none => rfl
      | some y => obtain ⟨fs, rq⟩ := y; rfl

theorem expandSpec_isSome_comp (a : Ast ν) (f : Nat) (n : ν) (r : Bool) (rest : List (Member ν)) :
    (expandSpec a (f + 1) (.comp n r :: rest)).isSome =
      (match specComp a n with
       | none => false
       | some cms => (expandSpec a f cms).isSome && (expandSpec a f rest).isSome) := by
  simp only [expandSpec]
  cases specComp a n with
  | none => rfl
  | some cms =>
    dsimp only
    cases expandSpec a f cms with
    | none => rfl
    | some x =>
      obtain ⟨cs, crq⟩ := x
      cases expandSpec a f rest with
      | none => rfl
      | some y => obtain ⟨fs, rq⟩ := y; rfl

theorem expandSpec_tail {a : Ast ν} {g : Nat} {m : Member ν} {rest : List (Member ν)}
    (h : (expandSpec a (g + 1) (m :: rest)).isSome = true) : (expandSpec a g rest).isSome = true := by
  cases m with
  | field n r =>
    rw [expandSpec_isSome_field, Bool.and_eq_true] at h; exact h.2
  | group n r gms =>
    rw [expandSpec_isSome_group, Bool.and_eq_true] at h; exact h.2
  | comp n r =>
    rw [expandSpec_isSome_comp] at h
    split at h
    · cases h
    · rw [Bool.and_eq_true] at h; exact h.2

theorem expandSpec_group_inv {a : Ast ν} {g : Nat} {n : ν} {r : Bool} {gms rest : List (Member ν)}
    (h : (expandSpec a (g + 1) (.group n r gms :: rest)).isSome = true) :
    (expandSpec a g gms).isSome = true := by
  rw [expandSpec_isSome_group, Bool.and_eq_true, Bool.and_eq_true] at h; exact h.1.2

theorem expandSpec_comp_inv {a : Ast ν} (wf : WFNames a) {g : Nat} {n : ν} {r : Bool}
    {rest cms : List (Member ν)} (hc : CompDef a n cms)
    (h : (expandSpec a (g + 1) (.comp n r :: rest)).isSome = true) :
    (expandSpec a g cms).isSome = true := by
  rw [expandSpec_isSome_comp, specComp_of_def wf hc] at h
  simp only [Bool.and_eq_true] at h; exact h.1

/-! ## 3. the stack of components being built never meets the component to build, on files that expand -/

/-- every component on the stack needs at least the budget the current member list needs -/
def StackInv (a : Ast ν) (st : List ν) (ms : List (Member ν)) : Prop :=
  ∀ s ∈ st, ∀ cms, CompDef a s cms → ∀ g, (expandSpec a g cms).isSome = true →
    ∃ g', g' ≤ g ∧ (expandSpec a g' ms).isSome = true

theorem StackInv.nil (a : Ast ν) (ms : List (Member ν)) : StackInv a [] ms := by
  intro s hs; cases hs

theorem StackInv.single {a : Ast ν} (wf : WFNames a) {n : ν} {ms : List (Member ν)} (hc : CompDef a n ms) :
    StackInv a [n] ms := by
  intro s hs cms hcd g hg
  have : s = n := by simpa using hs
  subst this
  rw [CompDef.unique wf hcd hc] at hg
  exact ⟨g, Nat.le_refl _, hg⟩

theorem StackInv.tail {a : Ast ν} {st : List ν} {m : Member ν} {rest : List (Member ν)}
    (h : StackInv a st (m :: rest)) : StackInv a st rest := by
  intro s hs cms hcd g hg
  obtain ⟨g', hle, hs'⟩ := h s hs cms hcd g hg
  cases g' with
  | zero => rw [expandSpec_zero] at hs'; cases hs'
  | succ k => exact ⟨k, by omega, expandSpec_tail hs'⟩

theorem StackInv.group {a : Ast ν} {st : List ν} {n : ν} {r : Bool} {gms rest : List (Member ν)}
    (h : StackInv a st (.group n r gms :: rest)) : StackInv a st gms := by
  intro s hs cms hcd g hg
  obtain ⟨g', hle, hs'⟩ := h s hs cms hcd g hg
  cases g' with
  | zero => rw [expandSpec_zero] at hs'; cases hs'
  | succ k => exact ⟨k, by omega, expandSpec_group_inv hs'⟩

theorem StackInv.comp {a : Ast ν} (wf : WFNames a) {st : List ν} {n : ν} {r : Bool}
    {rest cms : List (Member ν)} (h : StackInv a st (.comp n r :: rest)) (hc : CompDef a n cms) :
    StackInv a (n :: st) cms := by
  intro s hs cms' hcd g hg
  rcases List.mem_cons.1 hs with rfl | hs
  · rw [CompDef.unique wf hcd hc] at hg
    exact ⟨g, Nat.le_refl _, hg⟩
  · obtain ⟨g', hle, hs'⟩ := h s hs cms' hcd g hg
    cases g' with
    | zero => rw [expandSpec_zero] at hs'; cases hs'
    | succ k => exact ⟨k, by omega, expandSpec_comp_inv wf hc hs'⟩

/-- a component that is being built and is referenced again from the current member list expands within no budget -/
theorem StackInv.never {a : Ast ν} (wf : WFNames a) {st : List ν} {n : ν} {r : Bool}
    {rest cms : List (Member ν)} (h : StackInv a st (.comp n r :: rest)) (hc : CompDef a n cms)
    (hn : n ∈ st) : ∀ g, (expandSpec a g cms).isSome = false := by
  intro g
  induction g using Nat.strongRecOn with
  | ind g ih =>
    cases hg : (expandSpec a g cms).isSome with
    | false => rfl
    | true =>
      obtain ⟨g', hle, hs'⟩ := h n hn cms hc g hg
      cases g' with
      | zero => rw [expandSpec_zero] at hs'; cases hs'
      | succ k =>
        have := ih k (by omega)
        rw [expandSpec_comp_inv wf hc hs'] at this
        cases this

theorem StackInv.not_mem {a : Ast ν} (wf : WFNames a) {st : List ν} {n : ν} {r : Bool}
    {rest cms : List (Member ν)} (h : StackInv a st (.comp n r :: rest)) (hc : CompDef a n cms)
    {g : Nat} (hg : (expandSpec a g cms).isSome = true) : n ∉ st := by
  intro hn
  rw [h.never wf hc hn g] at hg
  cases hg

/-! ## 4. fuel adequacy with the check: a well-formed file loads -/

/-- whatever the naive expansion reaches within a budget, the checked member loop of a component / group builds
    within the same budget: the circular-reference exit is never taken -/
theorem buildPartsS_of_expandSpec (a : Ast ν) (wf : WFNames a) : ∀ f memo st ms,
    (expandSpec a f ms).isSome = true → StackInv a st ms →
    ∃ r, buildPartsS a f false memo st ms = .ok r := by
  intro f
  induction f with
  | zero => intro memo st ms h _; rw [expandSpec_zero] at h; cases h
  | succ f ih =>
    intro memo st ms h hinv
    cases ms with
    | nil => exact ⟨_, by simp only [buildPartsS]; rfl⟩
    | cons m rest =>
      cases m with
      | field n r =>
        rw [expandSpec_isSome_field, Bool.and_eq_true] at h
        obtain ⟨t, ht⟩ := specFieldNum_isSome.1 h.1
        obtain ⟨fd, hfd⟩ := fieldByName_of_fieldNum ht
        obtain ⟨⟨ps, memo1⟩, hb⟩ := ih memo st rest h.2 hinv.tail
        exact ⟨_, by simp only [buildPartsS, hfd, hb]; rfl⟩
      | group n r gms =>
        rw [expandSpec_isSome_group, Bool.and_eq_true, Bool.and_eq_true] at h
        obtain ⟨t, ht⟩ := specFieldNum_isSome.1 h.1.1
        obtain ⟨fd, hfd⟩ := fieldByName_of_fieldNum ht
        obtain ⟨⟨gps, memo1⟩, hb1⟩ := ih memo st gms h.1.2 hinv.group
        obtain ⟨⟨ps, memo2⟩, hb2⟩ := ih memo1 st rest h.2 hinv.tail
        exact ⟨_, by simp only [buildPartsS, hfd, hb1, hb2]; rfl⟩
      | comp n r =>
        rw [expandSpec_isSome_comp] at h
        split at h
        · cases h
        · rename_i cms hcms
          rw [Bool.and_eq_true] at h
          have hc := specComp_sound hcms
          cases hg : Memo.get? memo n with
          | some ct =>
            obtain ⟨⟨ps, memo1⟩, hb⟩ := ih memo st rest h.2 hinv.tail
            exact ⟨_, by simp only [buildPartsS, hg, hb]; rfl⟩
          | none =>
            have hcn := compByName_of_def wf hc
            have hnm : n ∉ st := hinv.not_mem wf hc h.1
            obtain ⟨⟨cps, memo1⟩, hb1⟩ := ih memo (n :: st) cms h.1 (hinv.comp wf hc)
            obtain ⟨⟨ps, memo2⟩, hb2⟩ := ih ((n, newComponentType cps) :: memo1) st rest h.2 hinv.tail
            exact ⟨_, by simp [buildPartsS, hg, hcn, hnm, hb1, hb2]; rfl⟩

/-- with every component memoised, the checked member loop needs only the syntactic depth of the members -/
theorem buildPartsS_of_full (a : Ast ν) : ∀ f top memo st ms, MemoFull a memo → RefsOK a ms →
    membersSize ms ≤ f → ∃ ps, buildPartsS a f top memo st ms = .ok (ps, memo) := by
  intro f
  induction f with
  | zero =>
    intro top memo st ms _ _ hsz
    have := membersSize_pos ms; omega
  | succ f ih =>
    intro top memo st ms hfull hrefs hsz
    cases hrefs with
    | nil => exact ⟨_, by simp only [buildPartsS]; rfl⟩
    | @field n r rest t hf hrest =>
      simp only [membersSize, Member.size] at hsz
      obtain ⟨fd, hfd⟩ := fieldByName_of_fieldNum hf
      obtain ⟨ps, hb⟩ := ih top memo st rest hfull hrest (by omega)
      exact ⟨_, by simp only [buildPartsS, hfd, hb]; rfl⟩
    | @group n r gms rest t hf hg hrest =>
      simp only [membersSize, Member.size] at hsz
      have := membersSize_pos rest
      have := membersSize_pos gms
      obtain ⟨fd, hfd⟩ := fieldByName_of_fieldNum hf
      obtain ⟨gps, hb1⟩ := ih false memo st gms hfull hg (by omega)
      obtain ⟨ps, hb2⟩ := ih top memo st rest hfull hrest (by omega)
      exact ⟨_, by simp only [buildPartsS, hfd, hb1, hb2]; rfl⟩
    | @comp n r rest cms hc hrest =>
      simp only [membersSize, Member.size] at hsz
      obtain ⟨ct, hct⟩ := Option.isSome_iff_exists.1 (hfull n cms hc)
      obtain ⟨ps, hb⟩ := ih top memo st rest hfull hrest (by omega)
      exact ⟨_, by simp only [buildPartsS, hct, hb]; rfl⟩

theorem buildComponentsS_loads (a : Ast ν) (wf : WFNames a) (fuel : Nat) : ∀ l memo,
    (∀ c ∈ l, c ∈ a.comps) → (∀ c ∈ l, (expandSpec a fuel c.2).isSome = true) →
    ∃ memo', buildComponentsS a fuel l memo = .ok memo' := by
  intro l
  induction l with
  | nil => intro memo _ _; exact ⟨memo, by simp only [buildComponentsS]⟩
  | cons c rest ih =>
    obtain ⟨n, ms⟩ := c
    intro memo hsub hl
    have hsub' : ∀ c ∈ rest, c ∈ a.comps := fun c hc => hsub c (List.mem_cons_of_mem _ hc)
    have hrest : ∀ c ∈ rest, (expandSpec a fuel c.2).isSome = true :=
      fun c hc => hl c (List.mem_cons_of_mem _ hc)
    cases hg : Memo.get? memo n with
    | some ct =>
      obtain ⟨memo', h⟩ := ih memo hsub' hrest
      exact ⟨memo', by simp only [buildComponentsS, hg, h]⟩
    | none =>
      have hc : CompDef a n ms := hsub (n, ms) (List.mem_cons_self ..)
      obtain ⟨⟨ps, memo1⟩, hb⟩ := buildPartsS_of_expandSpec a wf fuel memo [n] ms
        (hl (n, ms) (List.mem_cons_self ..)) (StackInv.single wf hc)
      obtain ⟨memo', h⟩ := ih ((n, newComponentType ps) :: memo1) hsub' hrest
      exact ⟨memo', by simp only [buildComponentsS, hg, hb, h]⟩

theorem buildMsgsS_loads (a : Ast ν) (fuel : Nat) (mk : List Part → MDef) (memo : Memo ν)
    (hfull : MemoFull a memo) : ∀ l acc, (∀ c ∈ l, RefsOK a c.2 ∧ membersSize c.2 ≤ fuel) →
    ∃ msgs, buildMsgsS a fuel mk memo l acc = .ok msgs := by
  intro l
  induction l with
  | nil => intro acc _; exact ⟨acc, by simp only [buildMsgsS]⟩
  | cons c rest ih =>
    obtain ⟨mt, ms⟩ := c
    intro acc hl
    obtain ⟨hr, hsz⟩ := hl (mt, ms) (List.mem_cons_self ..)
    obtain ⟨ps, hb⟩ := buildPartsS_of_full a fuel true memo [] ms hfull hr hsz
    obtain ⟨msgs, h⟩ := ih ((mt, mk ps) :: acc) (fun c hc => hl c (List.mem_cons_of_mem _ hc))
    exact ⟨msgs, by simp only [buildMsgsS, hb, h]⟩

theorem buildOptS_loads (a : Ast ν) (fuel : Nat) (mk : List Part → MDef) (memo : Memo ν)
    (hfull : MemoFull a memo) (o : Option (List (Member ν)))
    (ho : ∀ ms, o = some ms → RefsOK a ms ∧ membersSize ms ≤ fuel) :
    ∃ r, buildOptS a fuel mk memo o = .ok r := by
  cases o with
  | none => exact ⟨none, by simp only [buildOptS]⟩
  | some ms =>
    obtain ⟨hr, hsz⟩ := ho ms rfl
    obtain ⟨ps, hb⟩ := buildPartsS_of_full a fuel true memo [] ms hfull hr hsz
    exact ⟨_, by simp only [buildOptS, hb]; rfl⟩

/-- `builder.build` (with the circular-reference check) with any budget above the size of the file loads a file with
    unique names, no undefined reference and no component that reaches itself -/
theorem buildWithS_loads (a : Ast ν) (wf : WFNames a) (hd : ¬ Dangling a) (fuel : Nat) (hfuel : a.size < fuel)
    (hac : ∀ c ∈ a.comps, (expandSpec a fuel c.2).isSome = true) (mk : List Part → MDef) :
    ∃ d, buildWithS a fuel mk = .ok d := by
  have hrefs : ∀ ms ∈ a.bodies, RefsOK a ms :=
    fun ms hms => Classical.byContradiction (fun hn => hd ⟨ms, hms, hn⟩)
  obtain ⟨memo, hc⟩ := buildComponentsS_loads a wf fuel a.comps [] (fun _ h => h) hac
  have hfull : MemoFull a memo := fun n cms hcd =>
    (buildComponents_complete a fuel a.comps [] memo (buildComponentsS_ok a fuel _ _ _ hc)).2 (n, cms) hcd
  have hmsz : ∀ c ∈ a.msgs, RefsOK a c.2 ∧ membersSize c.2 ≤ fuel := by
    intro c hc
    refine ⟨hrefs c.2 ?_, ?_⟩
    · unfold Ast.bodies
      simp only [List.mem_append, List.mem_map]
      exact .inl (.inl (.inr ⟨c, hc, rfl⟩))
    · have := le_sum_map_of_mem (fun c : ν × List (Member ν) => membersSize c.2) hc
      unfold Ast.size at hfuel
      omega
  obtain ⟨msgs, hm⟩ := buildMsgsS_loads a fuel mk memo hfull a.msgs [] hmsz
  obtain ⟨h, hh⟩ := buildOptS_loads a fuel mk memo hfull a.header (by
    intro ms hms
    refine ⟨hrefs ms ?_, ?_⟩
    · unfold Ast.bodies
      simp only [List.mem_append, Option.mem_toList]
      exact .inl (.inr hms)
    · unfold Ast.size at hfuel
      rw [hms] at hfuel
      simp only at hfuel
      omega)
  obtain ⟨t, ht⟩ := buildOptS_loads a fuel mk memo hfull a.trailer (by
    intro ms hms
    refine ⟨hrefs ms ?_, ?_⟩
    · unfold Ast.bodies
      simp only [List.mem_append, Option.mem_toList]
      exact .inr hms
    · unfold Ast.size at hfuel
      rw [hms] at hfuel
      simp only at hfuel
      omega)
  exact ⟨_, by simp only [buildWithS, hc, hm, hh, ht]; rfl⟩

/-! ## 5. the recursion budget: with the check, `Ast.size + 1` is never exhausted -/

/-- total size of the declared components that are not being built -/
def sumOut (st : List ν) : List (ν × List (Member ν)) → Nat
  | [] => 0
  | c :: l => (if c.1 ∈ st then 0 else membersSize c.2) + sumOut st l

theorem sumOut_nil (l : List (ν × List (Member ν))) :
    sumOut ([] : List ν) l = (l.map (fun c => membersSize c.2)).sum := by
  induction l with
  | nil => rfl
  | cons c l ih => simp [sumOut, ih]

theorem sumOut_push_le (n : ν) (st : List ν) (l : List (ν × List (Member ν))) :
    sumOut (n :: st) l ≤ sumOut st l := by
  induction l with
  | nil => simp [sumOut]
  | cons c l ih =>
    simp only [sumOut, List.mem_cons]
    split <;> split <;> first | omega | (rename_i h1 h2; exact absurd (Or.inr h2) h1)

/-- starting to build a declared component takes its size out of what is left -/
theorem sumOut_push (n : ν) (cms : List (Member ν)) (st : List ν) (l : List (ν × List (Member ν)))
    (hm : (n, cms) ∈ l) (hn : n ∉ st) : sumOut (n :: st) l + membersSize cms ≤ sumOut st l := by
  induction l with
  | nil => cases hm
  | cons c l ih =>
    rcases List.mem_cons.1 hm with heq | hm'
    · subst heq
      have := sumOut_push_le n st l
      simp only [sumOut, List.mem_cons, true_or, if_true, hn, if_false]
      omega
    · have := ih hm'
      simp only [sumOut, List.mem_cons]
      split <;> split <;> first | omega | (rename_i h1 h2; exact absurd (Or.inr h2) h1)

/-- the member loop with the check does not exhaust a budget of: the members at hand + the components not being built -/
theorem buildPartsS_no_overflow (a : Ast ν) : ∀ fuel top memo st ms,
    membersSize ms + sumOut st a.comps ≤ fuel → buildPartsS a fuel top memo st ms ≠ .error .overflow := by
  intro fuel
  induction fuel with
  | zero => intro top memo st ms hsz; have := membersSize_pos ms; omega
  | succ fuel ih =>
    intro top memo st ms hsz
    cases ms with
    | nil => simp [buildPartsS]
    | cons m rest =>
      have hpos := membersSize_pos rest
      cases m with
      | field n r =>
        simp only [membersSize, Member.size] at hsz
        have i1 := ih top memo st rest (by omega)
        simp only [buildPartsS]
        split
        · intro h; cases h
        · split
          · rename_i e he; intro h; cases h; exact i1 he
          · intro h; cases h
      | group n r gms =>
        simp only [membersSize, Member.size] at hsz
        have hposg := membersSize_pos gms
        have i1 := ih false memo st gms (by omega)
        simp only [buildPartsS]
        split
        · intro h; cases h
        · split
          · rename_i e he; intro h; cases h; exact i1 he
          · rename_i gps memo1 h1
            have i2 := ih top memo1 st rest (by omega)
            split
            · rename_i e he; intro h; cases h; exact i2 he
            · intro h; cases h
      | comp n r =>
        simp only [membersSize, Member.size] at hsz
        simp only [buildPartsS]
        split
        · have i1 := ih top memo st rest (by omega)
          split
          · rename_i e he; intro h; cases h; exact i1 he
          · intro h; cases h
        · split
          · intro h; cases h
          · split
            · intro h; cases h
            · rename_i cms hcms
              split
              · intro h; cases h
              · rename_i hns
                have hnm : n ∉ st := by simpa using hns
                have hpush := sumOut_push n cms st a.comps (compByName_sound hcms) hnm
                have i1 := ih false memo (n :: st) cms (by omega)
                split
                · rename_i e he; intro h; cases h; exact i1 he
                · rename_i cps memo1 h1
                  have i2 := ih top ((n, newComponentType cps) :: memo1) st rest (by omega)
                  split
                  · rename_i e he; intro h; cases h; exact i2 he
                  · intro h; cases h

theorem buildComponentsS_no_overflow (a : Ast ν) (fuel : Nat) (hfuel : sumOut [] a.comps ≤ fuel) : ∀ l memo,
    (∀ c ∈ l, c ∈ a.comps) → buildComponentsS a fuel l memo ≠ .error .overflow := by
  intro l
  induction l with
  | nil => intro memo _; simp [buildComponentsS]
  | cons c rest ih =>
    obtain ⟨n, ms⟩ := c
    intro memo hsub
    have hsub' : ∀ c ∈ rest, c ∈ a.comps := fun c hc => hsub c (List.mem_cons_of_mem _ hc)
    simp only [buildComponentsS]
    split
    · exact ih memo hsub'
    · have hpush := sumOut_push n ms [] a.comps (hsub (n, ms) (List.mem_cons_self ..)) (by simp)
      have i1 := buildPartsS_no_overflow a fuel false memo [n] ms (by omega)
      split
      · rename_i e he; intro h; cases h; exact i1 he
      · exact ih _ hsub'

theorem buildMsgsS_no_overflow (a : Ast ν) (fuel : Nat) (mk : List Part → MDef) (memo : Memo ν) : ∀ l acc,
    (∀ c ∈ l, membersSize c.2 + sumOut [] a.comps ≤ fuel) →
    buildMsgsS a fuel mk memo l acc ≠ .error .overflow := by
  intro l
  induction l with
  | nil => intro acc _; simp [buildMsgsS]
  | cons c rest ih =>
    obtain ⟨mt, ms⟩ := c
    intro acc hl
    have i1 := buildPartsS_no_overflow a fuel true memo [] ms (hl (mt, ms) (List.mem_cons_self ..))
    simp only [buildMsgsS]
    split
    · rename_i e he; intro h; cases h; exact i1 he
    · exact ih _ (fun c hc => hl c (List.mem_cons_of_mem _ hc))

theorem buildOptS_no_overflow (a : Ast ν) (fuel : Nat) (mk : List Part → MDef) (memo : Memo ν)
    (o : Option (List (Member ν))) (ho : ∀ ms, o = some ms → membersSize ms + sumOut [] a.comps ≤ fuel) :
    buildOptS a fuel mk memo o ≠ .error .overflow := by
  cases o with
  | none => simp [buildOptS]
  | some ms =>
    have i1 := buildPartsS_no_overflow a fuel true memo [] ms (ho ms rfl)
    simp only [buildOptS]
    split
    · rename_i e he; intro h; cases h; exact i1 he
    · intro h; cases h

/-- with the circular-reference check the recursion is bounded by the size of the file, whatever the file -/
theorem buildWithS_no_overflow (a : Ast ν) (fuel : Nat) (hfuel : a.size ≤ fuel) (mk : List Part → MDef) :
    buildWithS a fuel mk ≠ .error .overflow := by
  have hs := sumOut_nil (ν := ν) a.comps
  have hsz : a.size = (a.comps.map (fun c => membersSize c.2)).sum + (a.msgs.map (fun c => membersSize c.2)).sum
    + (match a.header with | some ms => membersSize ms | none => 0)
    + (match a.trailer with | some ms => membersSize ms | none => 0) := rfl
  have i1 := buildComponentsS_no_overflow a fuel (by omega) a.comps [] (fun _ h => h)
  unfold buildWithS
  split
  · rename_i e he; intro h; cases h; exact i1 he
  · rename_i memo hc
    have i2 := buildMsgsS_no_overflow a fuel mk memo a.msgs [] (by
      intro c hc
      have := le_sum_map_of_mem (fun c : ν × List (Member ν) => membersSize c.2) hc
      omega)
    split
    · rename_i e he; intro h; cases h; exact i2 he
    · have i3 := buildOptS_no_overflow a fuel mk memo a.header (by
        intro ms hms
        rw [hms] at hsz
        simp only at hsz
        omega)
      split
      · rename_i e he; intro h; cases h; exact i3 he
      · have i4 := buildOptS_no_overflow a fuel mk memo a.trailer (by
          intro ms hms
          rw [hms] at hsz
          simp only at hsz
          omega)
        split
        · rename_i e he; intro h; cases h; exact i4 he
        · intro h; cases h

/-! ## 6. the budget `Ast.size + 1` of `acyclicB` is adequate: a file that loads has no component reaching itself -/

/-- what expands within some budget expands within: the members at hand + the components not on the way here -/
theorem expandSpec_adequate (a : Ast ν) (wf : WFNames a) : ∀ f st ms,
    StackInv a st ms → (∃ g, (expandSpec a g ms).isSome = true) → membersSize ms + sumOut st a.comps ≤ f →
    (expandSpec a f ms).isSome = true := by
  intro f
  induction f with
  | zero => intro st ms _ _ hsz; have := membersSize_pos ms; omega
  | succ f ih =>
    intro st ms hinv hex hsz
    obtain ⟨g, hg⟩ := hex
    cases g with
    | zero => rw [expandSpec_zero] at hg; cases hg
    | succ g =>
      cases ms with
      | nil => exact expandSpec_isSome_nil a f
      | cons m rest =>
        have hpos := membersSize_pos rest
        cases m with
        | field n r =>
          simp only [membersSize, Member.size] at hsz
          rw [expandSpec_isSome_field, Bool.and_eq_true] at hg ⊢
          exact ⟨hg.1, ih st rest hinv.tail ⟨g, hg.2⟩ (by omega)⟩
        | group n r gms =>
          simp only [membersSize, Member.size] at hsz
          have hposg := membersSize_pos gms
          rw [expandSpec_isSome_group, Bool.and_eq_true, Bool.and_eq_true] at hg ⊢
          exact ⟨⟨hg.1.1, ih st gms hinv.group ⟨g, hg.1.2⟩ (by omega)⟩,
            ih st rest hinv.tail ⟨g, hg.2⟩ (by omega)⟩
        | comp n r =>
          simp only [membersSize, Member.size] at hsz
          cases hcms : specComp a n with
          | none => simp [expandSpec_isSome_comp, hcms] at hg
          | some cms =>
            simp only [expandSpec_isSome_comp, hcms, Bool.and_eq_true] at hg ⊢
            have hc := specComp_sound hcms
            have hnm : n ∉ st := hinv.not_mem wf hc hg.1
            have hpush := sumOut_push n cms st a.comps hc hnm
            exact ⟨ih (n :: st) cms (hinv.comp wf hc) ⟨g, hg.1⟩ (by omega),
              ih st rest hinv.tail ⟨g, hg.2⟩ (by omega)⟩

/-- a finite expansion is found by the naive expansion with every large enough budget -/
theorem Expands.expandSpec_isSome {a : Ast ν} (wf : WFNames a) {ms : List (Member ν)} {fs : List FDef}
    (h : Expands a ms fs) : ∃ g, ∀ g', g ≤ g' → (expandSpec a g' ms).isSome = true := by
  induction h with
  | nil =>
    refine ⟨1, fun g' hle => ?_⟩
    cases g' with
    | zero => omega
    | succ k => exact expandSpec_isSome_nil a k
  | field hf _ ih =>
    obtain ⟨g, hg⟩ := ih
    refine ⟨g + 1, fun g' hle => ?_⟩
    cases g' with
    | zero => omega
    | succ k =>
      rw [expandSpec_isSome_field, Bool.and_eq_true]
      exact ⟨specFieldNum_isSome.2 ⟨_, hf⟩, hg k (by omega)⟩
  | group hf _ _ _ ihg ihr =>
    obtain ⟨g1, hg1⟩ := ihg
    obtain ⟨g2, hg2⟩ := ihr
    refine ⟨g1 + g2 + 1, fun g' hle => ?_⟩
    cases g' with
    | zero => omega
    | succ k =>
      rw [expandSpec_isSome_group, Bool.and_eq_true, Bool.and_eq_true]
      exact ⟨⟨specFieldNum_isSome.2 ⟨_, hf⟩, hg1 k (by omega)⟩, hg2 k (by omega)⟩
  | comp hc _ _ ihc ihr =>
    obtain ⟨g1, hg1⟩ := ihc
    obtain ⟨g2, hg2⟩ := ihr
    refine ⟨g1 + g2 + 1, fun g' hle => ?_⟩
    cases g' with
    | zero => omega
    | succ k =>
      simp only [expandSpec_isSome_comp, specComp_of_def wf hc, Bool.and_eq_true]
      exact ⟨hg1 k (by omega), hg2 k (by omega)⟩

/-- a declared component with a finite expansion expands within the budget `acyclicB` uses -/
theorem expandSpec_comp_adequate {a : Ast ν} (wf : WFNames a) {c : ν × List (Member ν)} (hc : c ∈ a.comps)
    {fs : List FDef} (he : Expands a c.2 fs) : (expandSpec a (a.size + 1) c.2).isSome = true := by
  obtain ⟨g, hg⟩ := he.expandSpec_isSome wf
  have hpush := sumOut_push c.1 c.2 [] a.comps hc (by simp)
  have hs := sumOut_nil (ν := ν) a.comps
  apply expandSpec_adequate a wf (a.size + 1) [c.1] c.2 (StackInv.single wf hc) ⟨g, hg g (Nat.le_refl _)⟩
  unfold Ast.size
  omega

/-- a dictionary is only built (with or without the check, with any budget) from a file none of whose components
    reaches itself -/
theorem buildWith_acyclic {a : Ast ν} (wf : WFNames a) {fuel : Nat} {mk : List Part → MDef} {d : Dict ν}
    (h : buildWith a fuel mk = .ok d) : acyclicB a = true := by
  unfold acyclicB
  rw [List.all_eq_true]
  intro c hc
  have hs := (buildComponents_complete a fuel a.comps [] d.comps (buildWith_inv h).1).2 c hc
  obtain ⟨ct, hct⟩ := Option.isSome_iff_exists.1 hs
  obtain ⟨cms, hcd, he, _⟩ := buildWith_memoOK wf h c.1 ct hct
  have : cms = c.2 := CompDef.unique wf hcd (show CompDef a c.1 c.2 from hc)
  subst this
  exact expandSpec_comp_adequate wf hc he

/-! ## 7. without undefined references the only refusals are `cycle` and `overflow` -/

theorem MemoFull.of_le {a : Ast ν} {m m' : Memo ν} (h : MemoFull a m) (hle : MemoLe m m') : MemoFull a m' :=
  fun n cms hc => hle n (h n cms hc)

theorem buildPartsS_memoLe (a : Ast ν) {fuel : Nat} {top : Bool} {memo : Memo ν} {st : List ν}
    {ms : List (Member ν)} {ps : List Part} {memo' : Memo ν}
    (h : buildPartsS a fuel top memo st ms = .ok (ps, memo')) : MemoLe memo memo' :=
  buildParts_memoLe a fuel top memo ms ps memo' (buildPartsS_ok a _ _ _ _ _ _ h)

theorem buildPartsS_error (a : Ast ν) (wf : WFNames a) (hall : ∀ ms ∈ a.bodies, RefsOK a ms) :
    ∀ fuel top memo st ms, RefsOK a ms → (top = true → MemoFull a memo) →
    ∀ e, buildPartsS a fuel top memo st ms = .error e → e = .overflow ∨ e = .cycle := by
  intro fuel
  induction fuel with
  | zero => intro top memo st ms _ _ e h; simp only [buildPartsS] at h; cases h; exact .inl rfl
  | succ fuel ih =>
    intro top memo st ms hrefs hfull e h
    cases hrefs with
    | nil => simp only [buildPartsS] at h; cases h
    | @field n r rest t hf hrest =>
      obtain ⟨fd, hfd⟩ := fieldByName_of_fieldNum hf
      simp only [buildPartsS, hfd] at h
      split at h
      · rename_i e' he; cases h; exact ih top memo st rest hrest hfull _ he
      · cases h
    | @group n r gms rest t hf hg hrest =>
      obtain ⟨fd, hfd⟩ := fieldByName_of_fieldNum hf
      simp only [buildPartsS, hfd] at h
      split at h
      · rename_i e' he; cases h
        exact ih false memo st gms hg (fun ht => by cases ht) _ he
      · rename_i gps memo1 h1
        split at h
        · rename_i e' he; cases h
          exact ih top memo1 st rest hrest (fun ht => (hfull ht).of_le (buildPartsS_memoLe a h1)) _ he
        · cases h
    | @comp n r rest cms hc hrest =>
      simp only [buildPartsS] at h
      split at h
      · split at h
        · rename_i e' he; cases h; exact ih top memo st rest hrest hfull _ he
        · cases h
      · rename_i hnone
        split at h
        · rename_i htop
          have := hfull htop n cms hc
          rw [hnone] at this; cases this
        · rename_i htop
          have ht : top = false := by simpa using htop
          subst ht
          rw [compByName_of_def wf hc] at h
          simp only at h
          split at h
          · cases h; exact .inr rfl
          · split at h
            · rename_i e' he; cases h
              refine ih false memo (n :: st) cms (hall cms ?_) (fun ht => by cases ht) _ he
              unfold Ast.bodies
              simp only [List.mem_append, List.mem_map]
              exact .inl (.inl (.inl ⟨(n, cms), hc, rfl⟩))
            · split at h
              · rename_i e' he; cases h
                exact ih false _ st rest hrest (fun ht => by cases ht) _ he
              · cases h

theorem buildComponentsS_error (a : Ast ν) (wf : WFNames a) (hall : ∀ ms ∈ a.bodies, RefsOK a ms)
    (fuel : Nat) : ∀ l memo, (∀ c ∈ l, c ∈ a.comps) →
    ∀ e, buildComponentsS a fuel l memo = .error e → e = .overflow ∨ e = .cycle := by
  intro l
  induction l with
  | nil => intro memo _ e h; simp only [buildComponentsS] at h; cases h
  | cons c rest ih =>
    obtain ⟨n, ms⟩ := c
    intro memo hsub e h
    have hsub' : ∀ c ∈ rest, c ∈ a.comps := fun c hc => hsub c (List.mem_cons_of_mem _ hc)
    simp only [buildComponentsS] at h
    split at h
    · exact ih memo hsub' e h
    · split at h
      · rename_i e' he; cases h
        refine buildPartsS_error a wf hall fuel false memo [n] ms (hall ms ?_) (fun ht => by cases ht) _ he
        unfold Ast.bodies
        simp only [List.mem_append, List.mem_map]
        exact .inl (.inl (.inl ⟨(n, ms), hsub _ (List.mem_cons_self ..), rfl⟩))
      · exact ih _ hsub' e h

theorem buildMsgsS_error (a : Ast ν) (wf : WFNames a) (hall : ∀ ms ∈ a.bodies, RefsOK a ms)
    (fuel : Nat) (mk : List Part → MDef) (memo : Memo ν) (hfull : MemoFull a memo) : ∀ l acc,
    (∀ c ∈ l, c ∈ a.msgs) →
    ∀ e, buildMsgsS a fuel mk memo l acc = .error e → e = .overflow ∨ e = .cycle := by
  intro l
  induction l with
  | nil => intro acc _ e h; simp only [buildMsgsS] at h; cases h
  | cons c rest ih =>
    obtain ⟨mt, ms⟩ := c
    intro acc hsub e h
    simp only [buildMsgsS] at h
    split at h
    · rename_i e' he; cases h
      refine buildPartsS_error a wf hall fuel true memo [] ms (hall ms ?_) (fun _ => hfull) _ he
      unfold Ast.bodies
      simp only [List.mem_append, List.mem_map]
      exact .inl (.inl (.inr ⟨(mt, ms), hsub _ (List.mem_cons_self ..), rfl⟩))
    · exact ih _ (fun c hc => hsub c (List.mem_cons_of_mem _ hc)) e h

theorem buildOptS_error (a : Ast ν) (wf : WFNames a) (hall : ∀ ms ∈ a.bodies, RefsOK a ms)
    (fuel : Nat) (mk : List Part → MDef) (memo : Memo ν) (hfull : MemoFull a memo)
    (o : Option (List (Member ν))) (ho : ∀ ms, o = some ms → RefsOK a ms) :
    ∀ e, buildOptS a fuel mk memo o = .error e → e = .overflow ∨ e = .cycle := by
  intro e h
  cases o with
  | none => simp only [buildOptS] at h; cases h
  | some ms =>
    simp only [buildOptS] at h
    split at h
    · rename_i e' he; cases h
      exact buildPartsS_error a wf hall fuel true memo [] ms (ho ms rfl) (fun _ => hfull) _ he
    · cases h

/-- a file with unique names and no undefined reference is refused only for a circular component reference or
    for lack of budget -/
theorem buildWithS_error {a : Ast ν} (wf : WFNames a) (hd : ¬ Dangling a) {fuel : Nat} {mk : List Part → MDef}
    {e : BErr} (h : buildWithS a fuel mk = .error e) : e = .overflow ∨ e = .cycle := by
  have hall : ∀ ms ∈ a.bodies, RefsOK a ms :=
    fun ms hms => Classical.byContradiction (fun hn => hd ⟨ms, hms, hn⟩)
  unfold buildWithS at h
  split at h
  · rename_i e' he; cases h
    exact buildComponentsS_error a wf hall fuel a.comps [] (fun _ h => h) _ he
  · rename_i memo hc
    have hfull : MemoFull a memo := fun n cms hcd =>
      (buildComponents_complete a fuel a.comps [] memo (buildComponentsS_ok a fuel _ _ _ hc)).2 (n, cms) hcd
    split at h
    · rename_i e' he; cases h
      exact buildMsgsS_error a wf hall fuel mk memo hfull a.msgs [] (fun _ h => h) _ he
    · split at h
      · rename_i e' he; cases h
        refine buildOptS_error a wf hall fuel mk memo hfull a.header (fun ms hms => hall ms ?_) _ he
        unfold Ast.bodies
        simp only [List.mem_append, Option.mem_toList]
        exact .inl (.inr hms)
      · split at h
        · rename_i e' he; cases h
          refine buildOptS_error a wf hall fuel mk memo hfull a.trailer (fun ms hms => hall ms ?_) _ he
          unfold Ast.bodies
          simp only [List.mem_append, Option.mem_toList]
          exact .inr hms
        · cases h

/-! ## 8. Bool-valued observer for closed witnesses -/

/-- the build was refused with error `e` -/
def obsErrIs {α : Type} (r : Except BErr α) (e : BErr) : Bool :=
  match r with
  | .error e' => e' == e
  | .ok _ => false

omit [DecidableEq ν] in
theorem obsErrIs_iff {α : Type} {r : Except BErr α} {e : BErr} : obsErrIs r e = true ↔ r = .error e := by
  cases r with
  | error e' => simp [obsErrIs]
  | ok x => simp [obsErrIs]

end
end Qfx.Dict
